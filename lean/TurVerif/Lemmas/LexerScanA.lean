import TurVerif.Lemmas.LexerBasic
open TurVerif.Lexer
/- C22 helper lemmas: every scanner of the lexer model, started inside the input, returns a token (no fault), starts it at the given position, makes progress and stays inside the input. -/
namespace TurVerif.LexerLemmas
theorem hexStrLoop_spec (bs : Bytes) (pos : Nat) (h : pos ≤ bs.size) :
    ∃ q bad, hexStrLoop bs pos = .ok (q, bad) ∧ pos ≤ q ∧ q ≤ bs.size ∧
      (bad = false → q < bs.size → B bs q = 39) := by
  generalize hn : bs.size - pos = n
  induction n generalizing pos with
  | zero =>
    have : ¬ pos < bs.size := by omega
    refine ⟨pos, false, ?_, Nat.le_refl _, h, ?_⟩
    · rw [hexStrLoop]; simp [this]
    · intro _ h1; omega
  | succ n ih =>
    have hlt : pos < bs.size := by omega
    rw [hexStrLoop]
    simp only [hlt, dite_true, rd_lt hlt]
    by_cases h39 : B bs pos = 39
    · refine ⟨pos, false, by simp [h39], Nat.le_refl _, h, ?_⟩
      intro _ _; exact h39
    · by_cases hx : isHex (B bs pos) = true
      · obtain ⟨q, bad, he, h1, h2, h3⟩ := ih (pos + 1) (by omega) (by omega)
        exact ⟨q, bad, by simp [h39, hx, he], by omega, h2, h3⟩
      · refine ⟨pos, true, by simp [h39, hx], Nat.le_refl _, h, ?_⟩
        intro hb; cases hb

theorem scanHexString_post {bs : Bytes} (hwf : WF bs) {start : Nat} (h : start + 1 < bs.size)
    (hx : B bs start < 128) (hq : B bs (start + 1) = 39) : Post bs start (scanHexString bs start) := by
  unfold scanHexString
  have h0 : start < bs.size := by omega
  simp only [adv_lt h0, adv_lt h]
  obtain ⟨q, bad, he, h1, h2, h3⟩ := hexStrLoop_spec bs (start + 1 + 1) (by omega)
  simp only [he]
  by_cases hb : bad = true
  · simp only [hb, if_true]; exact Post_mk _ (by omega) h2
  · have hb' : bad = false := by simpa using hb
    simp only [hb']
    by_cases hge : q ≥ bs.size
    · simp only [hge, if_true]; exact Post_mk _ (by omega) h2
    · simp only [hge]
      have hql : q < bs.size := by omega
      simp only [adv_lt hql]
      apply Post_mkS hwf _ (by omega) (by omega) h1 h2
      · have := good_after h (by omega : B bs (start + 1) < 128); simpa using this
      · exact good_at hql (by have := h3 hb' hql; omega)

theorem scanIdent_post {bs : Bytes} (hwf : WF bs) {start : Nat} (h : start < bs.size)
    (hs : isIdentStart (B bs start) = true) : Post bs start (scanIdent bs start) := by
  unfold scanIdent
  simp only [rd_lt h]
  have hasc := isIdentStart_lt hs
  split
  · rename_i hc
    simp only [Bool.and_eq_true, beq_iff_eq] at hc
    have hpk := hc.2
    by_cases h1 : start + 1 < bs.size
    · rw [peek_lt h1] at hpk
      exact scanHexString_post hwf h1 hasc (by simpa using hpk)
    · rw [peek_ge (by omega)] at hpk; cases hpk
  · obtain ⟨e, he, h1, h2, h3, _⟩ := scanWhile_spec bs isIdentChar start (by omega)
    simp only [he]
    have hfirst : isIdentChar (B bs start) = true := by
      simp only [isIdentStart, Bool.or_eq_true] at hs
      simp only [isIdentChar, Bool.or_eq_true]
      rcases hs with hs | hs
      · left; left; exact hs
      · right; exact hs
    have hne : start < e := by
      by_cases hh : e = start
      · exfalso
        rename_i h4
        have := h4 (by omega)
        rw [hh] at this; rw [this] at hfirst; cases hfirst
      · omega
    exact Post_mkS hwf _ hne h2 h1 h2 (good_at h hasc) (good_scan (fun c => isIdentChar_lt) h2 h1 h3 (good_at h hasc))

theorem scanRadix_post {bs : Bytes} (hwf : WF bs) {p : Nat → Bool} (hp : ∀ c, p c = true → c < 128)
    (k : Kind) (msg : String) {start : Nat} (h : start + 1 < bs.size) (hx : B bs (start + 1) < 128) :
    Post bs start (scanRadix bs p k msg start) := by
  unfold scanRadix
  have h0 : start < bs.size := by omega
  simp only [adv_lt h0, adv_lt h]
  obtain ⟨e, he, h1, h2, h3, _⟩ := scanWhile_spec bs p (start + 1 + 1) (by omega)
  simp only [he]
  split
  · exact Post_mk _ (by omega) h2
  · have g : Good bs (start + 1 + 1) := good_after h hx
    exact Post_mkS hwf _ (by omega) h2 h1 h2 g (good_scan hp h2 h1 h3 g)



theorem curSat_cases (bs : Bytes) (i : Nat) (p : Nat → Bool) :
    (curSat bs i p = .ok true ∧ i < bs.size ∧ p (B bs i) = true) ∨
    (curSat bs i p = .ok false ∧ (i < bs.size → p (B bs i) = false)) := by
  rw [curSat_eq]
  by_cases h : i < bs.size
  · by_cases hp : p (B bs i) = true
    · left; simp [h, hp]
    · right; simp [h, hp]
  · right; simp [h]

/-- bytes in `[a, b)` are all ASCII -/
def AllAscii (bs : Bytes) (a b : Nat) : Prop := ∀ i, a ≤ i → i < b → B bs i < 128

theorem AllAscii.append {bs : Bytes} {a b c : Nat} (h1 : AllAscii bs a b) (h2 : AllAscii bs b c) : AllAscii bs a c := by
  intro i hi1 hi2
  by_cases h : i < b
  · exact h1 i hi1 h
  · exact h2 i (by omega) hi2

theorem AllAscii.of_scan {bs : Bytes} {p : Nat → Bool} (hp : ∀ c, p c = true → c < 128) {a b : Nat}
    (h : ∀ i, a ≤ i → i < b → p (B bs i) = true) : AllAscii bs a b :=
  fun i h1 h2 => hp _ (h i h1 h2)

theorem AllAscii.single {bs : Bytes} {a : Nat} (h : B bs a < 128) : AllAscii bs a (a + 1) := by
  intro i h1 h2
  have : i = a := by omega
  rw [this]; exact h

theorem AllAscii.empty (bs : Bytes) (a : Nat) : AllAscii bs a a := by
  intro i h1 h2; omega

theorem good_of_allAscii {bs : Bytes} {a b : Nat} (h : AllAscii bs a b) (hab : a < b) (hb : b ≤ bs.size) : Good bs b := by
  right; right; right
  exact ⟨by omega, hb, h (b - 1) (by omega) (by omega)⟩

theorem scanExp_spec (bs : Bytes) (pos : Nat) (h : pos ≤ bs.size) :
    ∃ r f, scanExp bs pos = .ok (r, f) ∧ pos ≤ r ∧ r ≤ bs.size ∧ AllAscii bs pos r := by
  unfold scanExp
  rcases curSat_cases bs pos (fun c => c == 101 || c == 69) with ⟨hc, hlt, hp⟩ | ⟨hc, _⟩
  · simp only [hc, adv_lt hlt]
    have he : B bs pos < 128 := by
      simp only [Bool.or_eq_true, beq_iff_eq] at hp; omega
    rcases curSat_cases bs (pos + 1) (fun c => c == 43 || c == 45) with ⟨hc2, hlt2, hp2⟩ | ⟨hc2, _⟩
    · simp only [hc2, if_true, adv_lt hlt2]
      have hs : B bs (pos + 1) < 128 := by
        simp only [Bool.or_eq_true, beq_iff_eq] at hp2; omega
      obtain ⟨e, hsw, h1, h2, h3, _⟩ := scanWhile_spec bs isDigit (pos + 1 + 1) (by omega)
      simp only [hsw]
      refine ⟨e, true, rfl, by omega, h2, ?_⟩
      exact (AllAscii.single he).append ((AllAscii.single hs).append (AllAscii.of_scan (fun c => isDigit_lt) h3))
    · simp only [hc2]
      obtain ⟨e, hsw, h1, h2, h3, _⟩ := scanWhile_spec bs isDigit (pos + 1) (by omega)
      simp only [Bool.false_eq_true, if_false, hsw]
      refine ⟨e, true, rfl, by omega, h2, ?_⟩
      exact (AllAscii.single he).append (AllAscii.of_scan (fun c => isDigit_lt) h3)
  · simp only [hc]
    exact ⟨pos, false, rfl, Nat.le_refl _, h, AllAscii.empty _ _⟩

theorem scanFrac_spec (bs : Bytes) (pos : Nat) (h : pos ≤ bs.size) :
    ∃ r f, scanFrac bs pos = .ok (r, f) ∧ pos ≤ r ∧ r ≤ bs.size ∧ AllAscii bs pos r := by
  unfold scanFrac
  rcases curSat_cases bs pos (fun c => c == 46) with ⟨hc, hlt, hp⟩ | ⟨hc, _⟩
  · simp only [hc]
    have hd : B bs pos < 128 := by
      simp only [beq_iff_eq] at hp; omega
    by_cases h1 : pos + 1 < bs.size
    · simp only [peek_lt h1, adv_lt hlt]
      by_cases hdg : isDigit (B bs (pos + 1)) = true
      · simp only [hdg, if_true]
        obtain ⟨e, hsw, h2, h3, h4, _⟩ := scanWhile_spec bs isDigit (pos + 1) (by omega)
        simp only [hsw]
        exact ⟨e, true, rfl, by omega, h3, (AllAscii.single hd).append (AllAscii.of_scan (fun c => isDigit_lt) h4)⟩
      · simp only [hdg]
        by_cases hdot : (B bs (pos + 1) == 46) = true
        · simp only [hdot, if_true]
          exact ⟨pos, false, by simp, Nat.le_refl _, h, AllAscii.empty _ _⟩
        · simp only [hdot]
          exact ⟨pos + 1, true, by simp, by omega, by omega, AllAscii.single hd⟩
    · simp only [peek_ge (by omega : bs.size ≤ pos + 1)]
      exact ⟨pos, false, rfl, Nat.le_refl _, h, AllAscii.empty _ _⟩
  · simp only [hc]
    exact ⟨pos, false, rfl, Nat.le_refl _, h, AllAscii.empty _ _⟩

theorem scanDecimal_post {bs : Bytes} (hwf : WF bs) {start : Nat} (h : start < bs.size)
    (hd : isDigit (B bs start) = true) : Post bs start (scanDecimal bs start) := by
  unfold scanDecimal
  obtain ⟨p1, hsw, h1, h2, h3, h4⟩ := scanWhile_spec bs isDigit start (by omega)
  simp only [hsw]
  have hne : start < p1 := by
    by_cases hh : p1 = start
    · exfalso
      have := h4 (by omega); rw [hh] at this; rw [this] at hd; cases hd
    · omega
  obtain ⟨p2, f1, hf, h5, h6, h7⟩ := scanFrac_spec bs p1 h2
  simp only [hf]
  obtain ⟨p3, f2, hx, h8, h9, h10⟩ := scanExp_spec bs p2 h6
  simp only [hx]
  have hall : AllAscii bs start p3 := ((AllAscii.of_scan (fun c => isDigit_lt) h3).append h7).append h10
  exact Post_mkS hwf _ (by omega) h9 (by omega) h9 (good_at h (isDigit_lt hd)) (good_of_allAscii hall (by omega) h9)

theorem scanNumber_post {bs : Bytes} (hwf : WF bs) {start : Nat} (h : start < bs.size)
    (hd : isDigit (B bs start) = true) : Post bs start (scanNumber bs start) := by
  unfold scanNumber
  simp only [rd_lt h]
  split
  · by_cases h1 : start + 1 < bs.size
    · simp only [peek_lt h1]
      split
      · rename_i hc
        exact scanRadix_post hwf (fun c => isHex_lt) _ _ h1 (by simp only [Bool.or_eq_true, beq_iff_eq] at hc; omega)
      · split
        · rename_i hc
          exact scanRadix_post hwf (fun c => isBin_lt) _ _ h1 (by simp only [Bool.or_eq_true, beq_iff_eq] at hc; omega)
        · split
          · rename_i hc
            exact scanRadix_post hwf (fun c => isOct_lt) _ _ h1 (by simp only [Bool.or_eq_true, beq_iff_eq] at hc; omega)
          · exact scanDecimal_post hwf h hd
    · simp only [peek_ge (by omega : bs.size ≤ start + 1)]
      exact scanDecimal_post hwf h hd
  · exact scanDecimal_post hwf h hd

end TurVerif.LexerLemmas
