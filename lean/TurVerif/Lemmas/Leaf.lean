import TurVerif.Model.Leaf
import TurVerif.Lemmas.Simd
/-!
Helper definitions and lemmas for the leaf-page model (used by Props/C28.lean and Props/C29.lean).
-/
namespace TurVerif.Leaf
open TurVerif.Simd
open TurVerif.C30 (cmp_eq_iff cmp_gt_iff cmp_lt_trans)

/-- extents of two cells do not overlap -/
def Disj (a b : Cell) : Prop := a.off + a.size ≤ b.off ∨ b.off + b.size ≤ a.off
/-- strict key order (`<[u8] as Ord>`) -/
def KLt (a b : Cell) : Prop := cmpBytes a.key b.key = .lt

def sumSizes : List Cell → Nat
  | [] => 0
  | c :: cs => c.size + sumSizes cs

/-- C29, per leaf page. -/
structure WF (l : Leaf) : Prop where
  /-- the slot area is exactly `[24, freeStart)` -/
  fs : l.freeStart = 24 + 8 * l.cells.length
  /-- slot area and cell area do not overlap -/
  fse : l.freeStart ≤ l.freeEnd
  /-- the cell area `[freeEnd, 16384)` lies inside the page -/
  fe : l.freeEnd ≤ 16384
  /-- `frag_bytes` is a `u8` -/
  frag : l.frag < 256
  /-- every cell extent lies inside the cell area -/
  inPage : ∀ c ∈ l.cells, l.freeEnd ≤ c.off ∧ c.off + c.size ≤ 16384
  /-- cell extents are pairwise disjoint -/
  disj : l.cells.Pairwise Disj
  /-- live bytes never exceed the size of the cell area (a consequence of `inPage` + `disj`, kept as an
  explicit clause so that compaction can be shown to stay inside the page without a measure argument) -/
  live : sumSizes l.cells ≤ 16384 - l.freeEnd
  /-- stored slot prefix = `extract_prefix key` -/
  pre : ∀ c ∈ l.cells, c.pre = extractPrefix c.key
  /-- keys strictly increasing in slot order -/
  sorted : l.cells.Pairwise KLt

theorem Disj.symm {a b : Cell} (h : Disj a b) : Disj b a := Or.symm h

theorem cellSize_pos (k v : List Nat) : 0 < cellSize k v := by
  unfold cellSize Varint.len; repeat' split
  all_goals omega

/-! ### insertAt -/
theorem mem_insertAt {xs : List Cell} {n : Nat} {a x : Cell} :
    x ∈ insertAt xs n a ↔ x = a ∨ x ∈ xs := by
  induction xs generalizing n with
  | nil => cases n <;> simp [insertAt]
  | cons y ys ih =>
    cases n with
    | zero => simp [insertAt]
    | succ n => simp only [insertAt, List.mem_cons, ih]; constructor <;> (intro h; rcases h with h | h | h <;> simp [h])

theorem length_insertAt (xs : List Cell) (n : Nat) (a : Cell) :
    (insertAt xs n a).length = xs.length + 1 := by
  induction xs generalizing n with
  | nil => cases n <;> simp [insertAt]
  | cons y ys ih => cases n <;> simp [insertAt, ih]

theorem sum_insertAt (xs : List Cell) (n : Nat) (a : Cell) :
    sumSizes (insertAt xs n a) = sumSizes xs + a.size := by
  induction xs generalizing n with
  | nil => cases n <;> simp [insertAt, sumSizes]
  | cons y ys ih =>
    cases n with
    | zero => simp [insertAt, sumSizes]; omega
    | succ n => simp [insertAt, sumSizes, ih]; omega

theorem insertAt_length (xs : List Cell) (a : Cell) : insertAt xs xs.length a = xs ++ [a] := by
  induction xs with
  | nil => simp [insertAt]
  | cons y ys ih => simp [insertAt, ih]

theorem pairwise_insertAt_symm {R : Cell → Cell → Prop} (hs : ∀ a b, R a b → R b a)
    {xs : List Cell} (n : Nat) {a : Cell} (h : xs.Pairwise R) (ha : ∀ x ∈ xs, R a x) :
    (insertAt xs n a).Pairwise R := by
  induction xs generalizing n with
  | nil => cases n <;> simp [insertAt]
  | cons y ys ih =>
    cases n with
    | zero => simp only [insertAt, List.pairwise_cons]; exact ⟨ha, List.pairwise_cons.mp h⟩
    | succ n =>
      simp only [insertAt, List.pairwise_cons]
      have h' := List.pairwise_cons.mp h
      refine ⟨?_, ih n h'.2 (fun x hx => ha x (List.mem_cons_of_mem _ hx))⟩
      intro x hx
      rcases mem_insertAt.mp hx with rfl | hx
      · exact hs _ _ (ha y (List.mem_cons_self ..))
      · exact h'.1 x hx

/-! ### find_key specification -/
theorem findFrom_ge {k : List Nat} {cs : List Cell} {i j : Nat}
    (h : findFrom k cs i = .notFound j) : i ≤ j := by
  induction cs generalizing i with
  | nil => simp [findFrom] at h; omega
  | cons c cs ih =>
    simp only [findFrom] at h
    split at h
    · have := ih h; omega
    · simp at h
    · simp at h; omega

theorem findFrom_le {k : List Nat} {cs : List Cell} {i j : Nat}
    (h : findFrom k cs i = .notFound j) : j ≤ i + cs.length := by
  induction cs generalizing i with
  | nil => simp [findFrom] at h; simp; omega
  | cons c cs ih =>
    simp only [findFrom] at h
    split at h
    · have := ih h; simp; omega
    · simp at h
    · simp at h; simp; omega

theorem findFrom_found_lt {k : List Nat} {cs : List Cell} {i j : Nat}
    (h : findFrom k cs i = .found j) : i ≤ j ∧ j < i + cs.length := by
  induction cs generalizing i with
  | nil => simp [findFrom] at h
  | cons c cs ih =>
    simp only [findFrom] at h
    split at h
    · have := ih h; simp; omega
    · simp at h; simp; omega
    · simp at h

/-- the cell found has the probed key -/
theorem findFrom_found_key {k : List Nat} {cs : List Cell} {i j : Nat}
    (h : findFrom k cs i = .found (i + j)) : ∃ c, cs[j]? = some c ∧ c.key = k := by
  induction cs generalizing i j with
  | nil => simp [findFrom] at h
  | cons c cs ih =>
    simp only [findFrom] at h
    split at h
    · have hb := findFrom_found_lt h
      cases j with
      | zero => omega
      | succ j =>
        have : findFrom k cs (i + 1) = .found ((i + 1) + j) := by rw [h]; congr 1; omega
        simpa using ih this
    · rename_i heq
      simp at h
      have : j = 0 := by omega
      subst this
      exact ⟨c, by simp, (cmp_eq_iff _ _).mp heq⟩
    · simp at h

theorem sorted_insertAt {k : List Nat} {cs : List Cell} {i p : Nat} {c : Cell} (hc : c.key = k)
    (hf : findFrom k cs i = .notFound (i + p)) (hs : cs.Pairwise KLt) :
    (insertAt cs p c).Pairwise KLt := by
  induction cs generalizing i p with
  | nil => cases p <;> simp [insertAt]
  | cons x xs ih =>
    have hx := List.pairwise_cons.mp hs
    simp only [findFrom] at hf
    split at hf
    · rename_i hlt
      have hge := findFrom_ge hf
      cases p with
      | zero => omega
      | succ p =>
        have hf' : findFrom k xs (i + 1) = .notFound ((i + 1) + p) := by rw [hf]; congr 1; omega
        simp only [insertAt, List.pairwise_cons]
        refine ⟨?_, ih hf' hx.2⟩
        intro y hy
        rcases mem_insertAt.mp hy with rfl | hy
        · unfold KLt; rw [hc]; exact hlt
        · exact hx.1 y hy
    · simp at hf
    · rename_i hgt
      simp at hf
      have : p = 0 := by omega
      subst this
      have hcx : KLt c x := by unfold KLt; rw [hc]; exact (cmp_gt_iff _ _).mp hgt
      simp only [insertAt, List.pairwise_cons]
      refine ⟨?_, hx⟩
      intro y hy
      rcases List.mem_cons.mp hy with rfl | hy
      · exact hcx
      · exact cmp_lt_trans _ _ _ hcx (hx.1 y hy)

/-! ### removeAt -/
theorem removeAt_sublist (xs : List Cell) (i : Nat) : (removeAt xs i).Sublist xs := by
  induction xs generalizing i with
  | nil => simp [removeAt]
  | cons y ys ih =>
    cases i with
    | zero => simp [removeAt]
    | succ i => simp only [removeAt]; exact (ih i).cons₂ y

theorem length_removeAt {xs : List Cell} {i : Nat} (h : i < xs.length) :
    (removeAt xs i).length + 1 = xs.length := by
  induction xs generalizing i with
  | nil => simp at h
  | cons y ys ih =>
    cases i with
    | zero => simp [removeAt]
    | succ i => simp only [removeAt, List.length_cons]; have := ih (i := i) (by simpa using h); omega

theorem sum_removeAt_le (xs : List Cell) (i : Nat) : sumSizes (removeAt xs i) ≤ sumSizes xs := by
  induction xs generalizing i with
  | nil => simp [removeAt]
  | cons y ys ih =>
    cases i with
    | zero => simp [removeAt, sumSizes]
    | succ i => simp only [removeAt, sumSizes]; have := ih i; omega

/-! ### modifyAt -/
theorem mem_modifyAt {f : Cell → Cell} {xs : List Cell} {i : Nat} {x : Cell}
    (h : x ∈ modifyAt f xs i) : x ∈ xs ∨ ∃ y, xs[i]? = some y ∧ x = f y := by
  induction xs generalizing i with
  | nil => simp [modifyAt] at h
  | cons y ys ih =>
    cases i with
    | zero =>
      simp only [modifyAt, List.mem_cons] at h
      rcases h with rfl | h
      · exact Or.inr ⟨y, by simp, rfl⟩
      · exact Or.inl (List.mem_cons_of_mem _ h)
    | succ i =>
      simp only [modifyAt, List.mem_cons] at h
      rcases h with rfl | h
      · exact Or.inl (List.mem_cons_self ..)
      · rcases ih h with h | ⟨z, hz, rfl⟩
        · exact Or.inl (List.mem_cons_of_mem _ h)
        · exact Or.inr ⟨z, by simpa using hz, rfl⟩

theorem length_modifyAt (f : Cell → Cell) (xs : List Cell) (i : Nat) :
    (modifyAt f xs i).length = xs.length := by
  induction xs generalizing i with
  | nil => simp [modifyAt]
  | cons y ys ih => cases i <;> simp [modifyAt, ih]

theorem pairwise_modifyAt {R : Cell → Cell → Prop} {f : Cell → Cell}
    {xs : List Cell} (i : Nat)
    (hl : ∀ c, xs[i]? = some c → ∀ b, R c b → R (f c) b)
    (hr : ∀ c, xs[i]? = some c → ∀ a, R a c → R a (f c))
    (h : xs.Pairwise R) : (modifyAt f xs i).Pairwise R := by
  induction xs generalizing i with
  | nil => simp [modifyAt]
  | cons y ys ih =>
    have h' := List.pairwise_cons.mp h
    cases i with
    | zero =>
      simp only [modifyAt, List.pairwise_cons]
      exact ⟨fun x hx => hl y (by simp) x (h'.1 x hx), h'.2⟩
    | succ i =>
      simp only [modifyAt, List.pairwise_cons]
      refine ⟨?_, ih i (fun c hc => hl c (by simpa using hc)) (fun c hc => hr c (by simpa using hc)) h'.2⟩
      intro x hx
      rcases mem_modifyAt hx with hx | ⟨z, hz, rfl⟩
      · exact h'.1 x hx
      · exact hr z (by simpa using hz) y (h'.1 z (List.mem_of_getElem? hz))

theorem sum_modifyAt_le {f : Cell → Cell} (xs : List Cell) (i : Nat)
    (hf : ∀ c, xs[i]? = some c → (f c).size ≤ c.size) :
    sumSizes (modifyAt f xs i) ≤ sumSizes xs := by
  induction xs generalizing i with
  | nil => simp [modifyAt]
  | cons y ys ih =>
    cases i with
    | zero => simp only [modifyAt, sumSizes]; have := hf y (by simp); omega
    | succ i => simp only [modifyAt, sumSizes]; have := ih i (fun c hc => hf c (by simpa using hc)); omega

/-! ### compactCells -/
theorem compact_facts (cs : List Cell) (e : Nat) (h : sumSizes cs ≤ e) :
    (compactCells cs e).2 = e - sumSizes cs ∧
    (compactCells cs e).1.length = cs.length ∧
    (∀ c ∈ (compactCells cs e).1, (compactCells cs e).2 ≤ c.off ∧ c.off + c.size ≤ e) ∧
    (compactCells cs e).1.Pairwise Disj ∧
    sumSizes (compactCells cs e).1 = sumSizes cs ∧
    (compactCells cs e).1.map (fun c => (c.pre, c.key, c.val)) = cs.map (fun c => (c.pre, c.key, c.val)) := by
  induction cs generalizing e with
  | nil => simp [compactCells, sumSizes]
  | cons c cs ih =>
    simp only [sumSizes] at h
    have hsz : ({ c with off := e - c.size } : Cell).size = c.size := rfl
    obtain ⟨h1, h2, h3, h4, h5, h6⟩ := ih (e - c.size) (by omega)
    simp only [compactCells, sumSizes]
    refine ⟨by rw [h1]; omega, by simp [h2], ?_, ?_, by rw [h5]; simp [hsz], by simp [h6]⟩
    · intro x hx
      rcases List.mem_cons.mp hx with rfl | hx
      · simp only [hsz]; rw [h1]; constructor <;> omega
      · have := h3 x hx; omega
    · refine List.pairwise_cons.mpr ⟨?_, h4⟩
      intro x hx
      have := h3 x hx
      right; show x.off + x.size ≤ e - c.size; omega

theorem pairwise_of_map_key {xs ys : List Cell}
    (h : xs.map (fun c => (c.pre, c.key, c.val)) = ys.map (fun c => (c.pre, c.key, c.val)))
    (hs : ys.Pairwise KLt) : xs.Pairwise KLt := by
  induction xs generalizing ys with
  | nil => simp
  | cons x xs ih =>
    cases ys with
    | nil => simp at h
    | cons y ys =>
      simp only [List.map_cons, List.cons.injEq, Prod.mk.injEq] at h
      have hy := List.pairwise_cons.mp hs
      refine List.pairwise_cons.mpr ⟨?_, ih h.2 hy.2⟩
      intro z hz
      have : (z.pre, z.key, z.val) ∈ ys.map (fun c => (c.pre, c.key, c.val)) := by
        rw [← h.2]; exact List.mem_map_of_mem hz
      obtain ⟨w, hw, hwz⟩ := List.mem_map.mp this
      simp only [Prod.mk.injEq] at hwz
      have := hy.1 w hw
      unfold KLt at this ⊢
      rw [h.1.2.1, ← hwz.2.1]; exact this

theorem pre_of_map_key {xs ys : List Cell}
    (h : xs.map (fun c => (c.pre, c.key, c.val)) = ys.map (fun c => (c.pre, c.key, c.val)))
    (hs : ∀ c ∈ ys, c.pre = extractPrefix c.key) : ∀ c ∈ xs, c.pre = extractPrefix c.key := by
  intro c hc
  have : (c.pre, c.key, c.val) ∈ ys.map (fun c => (c.pre, c.key, c.val)) := by
    rw [← h]; exact List.mem_map_of_mem hc
  obtain ⟨w, hw, hwz⟩ := List.mem_map.mp this
  simp only [Prod.mk.injEq] at hwz
  rw [← hwz.1, ← hwz.2.1]; exact hs w hw

end TurVerif.Leaf
