/- C22 helper lemmas: reads below the end succeed, `scanWhile` specification, slicing positions. -/
import TurVerif.Model.Lexer
open TurVerif.Lexer

namespace TurVerif.LexerLemmas

/-- byte at `i` (0 past the end; only used below `bs.size`) -/
def B (bs : Bytes) (i : Nat) : Nat := bs.getD i 0

theorem get?_lt {bs : Bytes} {i : Nat} (h : i < bs.size) : bs[i]? = some (B bs i) := by
  unfold B Array.getD
  simp [h]

theorem get?_ge {bs : Bytes} {i : Nat} (h : bs.size ≤ i) : bs[i]? = none := by
  simp [h]

theorem rd_lt {bs : Bytes} {i : Nat} (h : i < bs.size) : rd bs i = .ok (B bs i) := by
  simp [rd, get?_lt h]

theorem peek_lt {bs : Bytes} {i : Nat} (h : i + 1 < bs.size) : peek bs i = some (B bs (i + 1)) := by
  simp [peek, get?_lt h]

theorem peek_ge {bs : Bytes} {i : Nat} (h : bs.size ≤ i + 1) : peek bs i = none := by
  simp [peek, h]

theorem curSat_eq (bs : Bytes) (i : Nat) (p : Nat → Bool) :
    curSat bs i p = .ok (decide (i < bs.size) && p (B bs i)) := by
  unfold curSat
  by_cases h : i < bs.size <;> simp [h, rd_lt]

/-- implied by UTF-8 validity of the `&str`: a continuation byte (0x80..0xBF) is never the first byte and
never follows an ASCII byte -/
def WF (bs : Bytes) : Prop :=
  ∀ i, i < bs.size → 128 ≤ B bs i → B bs i < 192 → 0 < i ∧ 128 ≤ B bs (i - 1)

/-- positions at which the lexer slices -/
def Good (bs : Bytes) (i : Nat) : Prop :=
  i = 0 ∨ i = bs.size ∨ (i < bs.size ∧ B bs i < 128) ∨ (0 < i ∧ i ≤ bs.size ∧ B bs (i - 1) < 128)

theorem boundary_of_good {bs : Bytes} (hwf : WF bs) {i : Nat} (hi : i ≤ bs.size) (g : Good bs i) :
    isBoundary bs i = true := by
  unfold isBoundary
  by_cases h0 : i = 0
  · simp [h0]
  by_cases hs : i = bs.size
  · simp [hs]
  have hlt : i < bs.size := by omega
  rw [get?_lt hlt]
  simp only [Bool.or_eq_true, beq_iff_eq, decide_eq_true_eq]
  right
  rcases g with g | g | g | g
  · exact absurd g h0
  · exact absurd g hs
  · left; exact g.2
  · by_cases h1 : B bs i < 128
    · left; exact h1
    · by_cases h2 : 192 ≤ B bs i
      · right; exact h2
      · have := hwf i hlt (by omega) (by omega)
        omega

def Post (bs : Bytes) (pos : Nat) (r : Except Fault Tok) : Prop :=
  ∃ t, r = .ok t ∧ t.start = pos ∧ pos < t.stop ∧ t.stop ≤ bs.size ∧ t.a ≤ t.b ∧ t.b ≤ bs.size

theorem Post_mk {bs : Bytes} {pos stop : Nat} (k : Kind) (h1 : pos < stop) (h2 : stop ≤ bs.size) :
    Post bs pos (mk k pos stop) :=
  ⟨_, rfl, rfl, h1, h2, Nat.le_refl _, Nat.zero_le _⟩

theorem Post_mkS {bs : Bytes} (hwf : WF bs) {pos stop a b : Nat} (k : Kind) (h1 : pos < stop) (h2 : stop ≤ bs.size)
    (hab : a ≤ b) (hb : b ≤ bs.size) (ga : Good bs a) (gb : Good bs b) :
    Post bs pos (mkS bs k pos stop a b) := by
  have hs : sliceOk bs a b = true := by
    simp [sliceOk, hab, hb, boundary_of_good hwf (by omega) ga, boundary_of_good hwf hb gb]
  exact ⟨⟨k, pos, stop, a, b⟩, by simp [mkS, hs], rfl, h1, h2, hab, hb⟩

theorem adv_lt {bs : Bytes} {i : Nat} (h : i < bs.size) : adv bs i = i + 1 := by simp [adv, h]
theorem adv_le (bs : Bytes) (i : Nat) (h : i ≤ bs.size) : adv bs i ≤ bs.size := by
  unfold adv; split <;> omega
theorem le_adv (bs : Bytes) (i : Nat) : i ≤ adv bs i := by unfold adv; split <;> omega

theorem scanWhile_spec (bs : Bytes) (p : Nat → Bool) (pos : Nat) (h : pos ≤ bs.size) :
    ∃ e, scanWhile bs p pos = .ok e ∧ pos ≤ e ∧ e ≤ bs.size ∧
      (∀ i, pos ≤ i → i < e → p (B bs i) = true) ∧ (e < bs.size → p (B bs e) = false) := by
  generalize hn : bs.size - pos = n
  induction n generalizing pos with
  | zero =>
    have : ¬ pos < bs.size := by omega
    refine ⟨pos, ?_, Nat.le_refl _, h, ?_, ?_⟩
    · rw [scanWhile]; simp [this]
    · intro i h1 h2; omega
    · intro h1; omega
  | succ n ih =>
    have hlt : pos < bs.size := by omega
    rw [scanWhile]
    simp only [hlt, dite_true, rd_lt hlt]
    by_cases hp : p (B bs pos) = true
    · simp only [hp, if_true]
      obtain ⟨e, he, h1, h2, h3, h4⟩ := ih (pos + 1) (by omega) (by omega)
      refine ⟨e, he, by omega, h2, ?_, h4⟩
      intro i hi1 hi2
      by_cases hip : i = pos
      · rw [hip]; exact hp
      · exact h3 i (by omega) hi2
    · simp only [hp]
      refine ⟨pos, rfl, Nat.le_refl _, h, ?_, ?_⟩
      · intro i h1 h2; omega
      · intro _; simpa using hp

theorem isDigit_lt {c : Nat} (h : isDigit c = true) : c < 128 := by
  simp [isDigit] at h; omega
theorem isIdentChar_lt {c : Nat} (h : isIdentChar c = true) : c < 128 := by
  simp [isIdentChar, isAlpha, isDigit] at h; omega
theorem isIdentStart_lt {c : Nat} (h : isIdentStart c = true) : c < 128 := by
  simp [isIdentStart, isAlpha] at h; omega
theorem isHex_lt {c : Nat} (h : isHex c = true) : c < 128 := by
  simp [isHex, isDigit] at h; omega
theorem isBin_lt {c : Nat} (h : isBin c = true) : c < 128 := by
  simp [isBin] at h; omega
theorem isOct_lt {c : Nat} (h : isOct c = true) : c < 128 := by
  simp [isOct] at h; omega

/-- the end of a `scanWhile` over an ASCII class is a good slicing position when its start is -/
theorem good_scan {bs : Bytes} {p : Nat → Bool} (hp : ∀ c, p c = true → c < 128) {pos e : Nat}
    (he : e ≤ bs.size) (hpe : pos ≤ e) (hall : ∀ i, pos ≤ i → i < e → p (B bs i) = true) (g : Good bs pos) :
    Good bs e := by
  by_cases h : e = pos
  · rw [h]; exact g
  · right; right; right
    exact ⟨by omega, he, hp _ (hall (e - 1) (by omega) (by omega))⟩

theorem good_after {bs : Bytes} {i : Nat} (h : i < bs.size) (ha : B bs i < 128) : Good bs (i + 1) := by
  right; right; right; exact ⟨by omega, by omega, by simpa using ha⟩

theorem good_at {bs : Bytes} {i : Nat} (h : i < bs.size) (ha : B bs i < 128) : Good bs i := by
  right; right; left; exact ⟨h, ha⟩

end TurVerif.LexerLemmas
