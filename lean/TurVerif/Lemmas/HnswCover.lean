import TurVerif.Model.Hnsw
import TurVerif.Lemmas.HnswHeap
/-!
Completeness of the level-0 beam search when the search width covers the index:
if every neighbour id is an allocated node (`< N`) and `N ≤ ef`, the beam visits – and keeps as a
result – every node that is reachable from its start node along level-0 edges.
-/
namespace TurVerif.HnswCover
open TurVerif.Hnsw TurVerif.HnswHeap

deriving instance DecidableEq for D
deriving instance DecidableEq for Cand

theorem D.le_total' (a b : D) : D.le a b = true ∨ D.le b a = true := by
  cases a <;> cases b <;> simp [D.le, D.lt]
  rename_i x y
  rcases @Rat.le_total x y with h | h
  · left; exact Rat.not_lt.2 h
  · right; exact Rat.not_lt.2 h

theorem D.le_trans' (a b c : D) (h1 : D.le a b = true) (h2 : D.le b c = true) :
    D.le a c = true := by
  cases a <;> cases b <;> cases c <;> simp_all [D.le, D.lt]
  rename_i x y z
  exact Rat.not_lt.2 (Rat.le_trans (Rat.not_lt.1 h1) (Rat.not_lt.1 h2))

theorem resOrd : Ord resLe :=
  ⟨fun a b => D.le_total' a.dist b.dist, fun a b c => D.le_trans' a.dist b.dist c.dist⟩

theorem nodup_bounded_length (N : Nat) : ∀ (l : List Nat), l.Nodup → (∀ x ∈ l, x < N) →
    l.length ≤ N := by
  induction N with
  | zero =>
    intro l _ hb
    cases l with
    | nil => simp
    | cons a t => exact absurd (hb a (by simp)) (by omega)
  | succ N ih =>
    intro l hn hb
    have h1 : (l.erase N).Nodup := hn.erase N
    have h2 : ∀ x ∈ l.erase N, x < N := by
      intro x hx
      have hx' := (hn.mem_erase_iff).1 hx
      have := hb x hx'.2
      have : x ≠ N := hx'.1
      omega
    have h3 := ih (l.erase N) h1 h2
    by_cases hm : N ∈ l
    · have := List.length_erase_of_mem hm
      omega
    · rw [List.erase_of_not_mem hm] at h3; omega

theorem heapPush_length {α : Type} (le : α → α → Bool) (l : List α) (x : α) :
    (heapPush le l x).length = l.length + 1 := by
  unfold heapPush; rw [siftUp_length]; simp

/-- invariant of the covered beam search -/
structure Cov (N ef : Nat) (c : Ctx) : Prop where
  heap : Heap resLe c.results
  vnodup : c.visited.Nodup
  vvalid : ∀ n ∈ c.visited, n < N
  rlen : c.results.length = c.visited.length
  candRes : ∀ x ∈ c.cands, x ∈ c.results
  visRes : ∀ n ∈ c.visited, ∃ x ∈ c.results, x.node = n
  efEq : c.ef = ef

/-- progress relation between two contexts -/
structure Step (N ef : Nat) (c c' : Ctx) : Prop where
  cov : Cov N ef c'
  vmono : ∀ n ∈ c.visited, n ∈ c'.visited
  cmono : ∀ x ∈ c.cands, x ∈ c'.cands
  fresh : ∀ n ∈ c'.visited, n ∈ c.visited ∨ ∃ x ∈ c'.cands, x.node = n
  meas : c'.cands.length + (N - c'.visited.length) = c.cands.length + (N - c.visited.length)

theorem Step.refl' (N ef : Nat) (c : Ctx) (h : Cov N ef c) : Step N ef c c :=
  ⟨h, fun _ h => h, fun _ h => h, fun _ h => Or.inl h, rfl⟩

theorem Step.trans' {N ef : Nat} {a b c : Ctx} (h1 : Step N ef a b) (h2 : Step N ef b c) :
    Step N ef a c :=
  ⟨h2.cov, fun n hn => h2.vmono n (h1.vmono n hn), fun x hx => h2.cmono x (h1.cmono x hx),
    fun n hn => by
      rcases h2.fresh n hn with h | h
      · rcases h1.fresh n h with h' | ⟨x, hx, e⟩
        · exact Or.inl h'
        · exact Or.inr ⟨x, h2.cmono x hx, e⟩
      · exact Or.inr h,
    by rw [h2.meas, h1.meas]⟩

theorem visitNb_step (dist : NodeId → D) (N ef : Nat) (hN : N ≤ ef) (c : Ctx) (nb : NodeId)
    (h : Cov N ef c) (hv : nb < N) :
    Step N ef c (visitNb dist c nb) ∧ nb ∈ (visitNb dist c nb).visited := by
  by_cases hin : nb ∈ c.visited
  · have e : visitNb dist c nb = c := by
      unfold visitNb
      simp [hin]
    rw [e]; exact ⟨Step.refl' N ef c h, hin⟩
  · have hnd : (nb :: c.visited).Nodup := List.nodup_cons.2 ⟨hin, h.vnodup⟩
    have hval : ∀ n ∈ nb :: c.visited, n < N := by
      intro n hn
      rcases List.mem_cons.1 hn with e | e
      · rw [e]; exact hv
      · exact h.vvalid n e
    have hlen := nodup_bounded_length N _ hnd hval
    simp only [List.length_cons] at hlen
    have hrl : c.results.length < c.ef := by rw [h.rlen, h.efEq]; omega
    have e : visitNb dist c nb =
        { c with visited := nb :: c.visited,
                 cands := heapPush candLe c.cands ⟨nb, dist nb⟩,
                 results := heapPush resLe c.results ⟨nb, dist nb⟩ } := by
      unfold visitNb
      have h2 : ¬ (c.results.length + 1 > c.ef) := by omega
      simp [hin, hrl, Ctx.addCand, Ctx.addResult, heapPush_length, h2]
    rw [e]
    have hpr := heapPush_perm resLe c.results ⟨nb, dist nb⟩
    have hpc := heapPush_perm candLe c.cands ⟨nb, dist nb⟩
    refine ⟨⟨⟨heapPush_heap resLe resOrd _ _ h.heap, hnd, hval, ?_, ?_, ?_, h.efEq⟩, ?_, ?_, ?_, ?_⟩,
      by simp⟩
    · simp [heapPush_length, h.rlen]
    · intro x hx
      rcases List.mem_cons.1 ((hpc.mem_iff).1 hx) with e' | e'
      · rw [e']; exact (hpr.mem_iff).2 (by simp)
      · exact (hpr.mem_iff).2 (List.mem_cons_of_mem _ (h.candRes x e'))
    · intro n hn
      rcases List.mem_cons.1 hn with e' | e'
      · exact ⟨⟨nb, dist nb⟩, (hpr.mem_iff).2 (by simp), e'.symm⟩
      · obtain ⟨x, hx, ex⟩ := h.visRes n e'
        exact ⟨x, (hpr.mem_iff).2 (List.mem_cons_of_mem _ hx), ex⟩
    · intro n hn; exact List.mem_cons_of_mem _ hn
    · intro x hx; exact (hpc.mem_iff).2 (List.mem_cons_of_mem _ hx)
    · intro n hn
      rcases List.mem_cons.1 hn with e' | e'
      · exact Or.inr ⟨⟨nb, dist nb⟩, (hpc.mem_iff).2 (by simp), e'.symm⟩
      · exact Or.inl e'
    · simp only [heapPush_length, List.length_cons]; omega

theorem foldl_step (dist : NodeId → D) (N ef : Nat) (hN : N ≤ ef) (nbs : List NodeId) (c : Ctx)
    (h : Cov N ef c) (hv : ∀ nb ∈ nbs, nb < N) :
    Step N ef c (nbs.foldl (visitNb dist) c) ∧
      ∀ nb ∈ nbs, nb ∈ (nbs.foldl (visitNb dist) c).visited := by
  induction nbs generalizing c with
  | nil => exact ⟨Step.refl' N ef c h, by simp⟩
  | cons nb rest ih =>
    simp only [List.foldl_cons]
    have s1 := visitNb_step dist N ef hN c nb h (hv nb (by simp))
    have s2 := ih (visitNb dist c nb) s1.1.cov (fun x hx => hv x (List.mem_cons_of_mem _ hx))
    refine ⟨s1.1.trans' s2.1, ?_⟩
    intro x hx
    rcases List.mem_cons.1 hx with e | e
    · rw [e]; exact s2.1.vmono nb s1.2
    · exact s2.2 x e

/-- every visited node is still queued or has all its neighbours visited -/
def Closed (getN : NodeId → List NodeId) (c : Ctx) : Prop :=
  ∀ n ∈ c.visited, (∃ x ∈ c.cands, x.node = n) ∨ ∀ nb ∈ getN n, nb ∈ c.visited

theorem beamLoop_cover (getN : NodeId → List NodeId) (dist : NodeId → D) (N ef : Nat) (hN : N ≤ ef)
    (hvalid : ∀ n nb, nb ∈ getN n → nb < N) (fuel : Nat) (c : Ctx) (h : Cov N ef c)
    (hcl : Closed getN c) (hf : c.cands.length + (N - c.visited.length) < fuel) :
    Cov N ef (beamLoop getN dist fuel c) ∧ Closed getN (beamLoop getN dist fuel c) ∧
      (beamLoop getN dist fuel c).cands = [] ∧
      ∀ n ∈ c.visited, n ∈ (beamLoop getN dist fuel c).visited := by
  induction fuel generalizing c with
  | zero => omega
  | succ f ih =>
    simp only [beamLoop]
    cases hp : heapPop candLe c.cands with
    | none =>
      have : c.cands = [] := (heapPop_none candLe c.cands).1 hp
      exact ⟨h, hcl, this, fun _ hn => hn⟩
    | some pr =>
      obtain ⟨cur, rest⟩ := pr
      simp only []
      have hperm := heapPop_perm candLe c.cands cur rest hp
      have hcurc : cur ∈ c.cands := (hperm.mem_iff).2 (by simp)
      have hcurr : cur ∈ c.results := h.candRes cur hcurc
      -- the loop does not break: cur is a result, so it is ≤ the heap top
      have hnb : D.lt ({ c with cands := rest } : Ctx).worst cur.dist = false := by
        obtain ⟨i, hi, hget⟩ := List.getElem_of_mem hcurr
        have hne : 0 < c.results.length := by omega
        have htop : c.results[0]? = some c.results[0] := List.getElem?_eq_getElem hne
        have hmax := heap_top_max resLe resOrd c.results h.heap _ htop i cur
          (by rw [List.getElem?_eq_getElem hi, hget])
        have hw : ({ c with cands := rest } : Ctx).worst = (c.results[0]).dist := by
          simp only [Ctx.worst, List.head?_eq_getElem?, htop]
        rw [hw]
        simp only [resLe, D.le, Bool.not_eq_true'] at hmax
        exact hmax
      simp only [hnb, Bool.false_eq_true, if_false]
      have hlenp : c.cands.length = rest.length + 1 := by
        have := hperm.length_eq; simpa using this
      have h1 : Cov N ef { c with cands := rest } :=
        ⟨h.heap, h.vnodup, h.vvalid, h.rlen,
          fun x hx => h.candRes x ((hperm.mem_iff).2 (List.mem_cons_of_mem _ hx)), h.visRes, h.efEq⟩
      have fs := foldl_step dist N ef hN (getN cur.node) { c with cands := rest } h1
        (fun nb hnb' => hvalid cur.node nb hnb')
      have hcl2 : Closed getN ((getN cur.node).foldl (visitNb dist) { c with cands := rest }) := by
        intro n hn
        rcases fs.1.fresh n hn with hold | hnew
        · rcases hcl n hold with ⟨x, hx, ex⟩ | hall
          · rcases List.mem_cons.1 ((hperm.mem_iff).1 hx) with e | e
            · right
              intro nb' hnb'
              have : n = cur.node := by rw [← ex, e]
              rw [this] at hnb'
              exact fs.2 nb' hnb'
            · exact Or.inl ⟨x, fs.1.cmono x e, ex⟩
          · right
            intro nb' hnb'
            exact fs.1.vmono nb' (hall nb' hnb')
        · exact Or.inl hnew
      have hmeas := fs.1.meas
      simp only [] at hmeas
      have r := ih _ fs.1.cov hcl2 (by omega)
      exact ⟨r.1, r.2.1, r.2.2.1, fun n hn => r.2.2.2 n (fs.1.vmono n hn)⟩

/-- the context after the two initial pushes of `beam_search` -/
def initCtx (ef : Nat) (entry : Cand) : Ctx :=
  { ef := ef, visited := [entry.node], cands := heapPush candLe [] entry, results := heapPush resLe [] entry }

/-- reachability along the edges given by `getN` -/
inductive ReachN (getN : NodeId → List NodeId) (a : NodeId) : NodeId → Prop where
  | refl : ReachN getN a a
  | step {n nb : NodeId} : ReachN getN a n → nb ∈ getN n → ReachN getN a nb

/-- COVER: with `N ≤ ef`, valid neighbour ids and a valid start node, the beam keeps every node
reachable from the start as a result, and `finalize k` with `N ≤ k` returns all of them. -/
theorem beamSearch_cover (getN : NodeId → List NodeId) (dist : NodeId → D) (N ef k : Nat)
    (hN : N ≤ ef) (hk : N ≤ k) (hvalid : ∀ n nb, nb ∈ getN n → nb < N) (entry : Cand)
    (he : entry.node < N) (fuel : Nat) (hf : N + 1 < fuel) :
    ∀ n, ReachN getN entry.node n →
      n ∈ (finalize (beamSearch ef fuel entry getN dist) k).map (·.node) := by
  have hN1 : 1 ≤ N := Nat.succ_le_of_lt (Nat.lt_of_le_of_lt (Nat.zero_le _) he)
  have hef : 1 ≤ ef := by omega
  -- the context after the two initial pushes
  have e0 : ((({ ef := ef, visited := [entry.node] } : Ctx).addCand entry).addResult entry) =
      (initCtx ef entry) := by
    have h2 : ¬ (1 > ef) := by omega
    simp [Ctx.addCand, Ctx.addResult, heapPush_length, h2, initCtx]
  have hpr := heapPush_perm resLe [] entry
  have hpc := heapPush_perm candLe [] entry
  have hc0 : Cov N ef (initCtx ef entry) := by
    unfold initCtx
    exact ⟨heapPush_heap resLe resOrd [] entry (by intro i _ x p h1; simp at h1), by simp,
      by intro n hn; simp at hn; rw [hn]; exact he,
      by simp [heapPush_length],
      by
        intro x hx
        have := (hpc.mem_iff).1 hx
        simp at this
        rw [this]; exact (hpr.mem_iff).2 (by simp),
      by
        intro n hn; simp at hn
        exact ⟨entry, (hpr.mem_iff).2 (by simp), hn.symm⟩,
      rfl⟩
  have hcl0 : Closed getN (initCtx ef entry) := by
    unfold initCtx
    intro n hn; simp at hn
    exact Or.inl ⟨entry, (hpc.mem_iff).2 (by simp), hn.symm⟩
  have r := beamLoop_cover getN dist N ef hN hvalid fuel _ hc0 hcl0
    (by simp [heapPush_length, initCtx]; omega)
  have hbs : beamSearch ef fuel entry getN dist = beamLoop getN dist fuel
      (initCtx ef entry) := by
    unfold beamSearch
    simp only []
    rw [e0]
  rw [hbs]
  intro n hr
  -- every reachable node is visited
  have hvis : n ∈ (beamLoop getN dist fuel (initCtx ef entry)).visited := by
    induction hr with
    | refl => exact r.2.2.2 _ (by simp [initCtx])
    | step _ hnb ih =>
      rcases r.2.1 _ ih with ⟨x, hx, _⟩ | hall
      · rw [r.2.2.1] at hx; simp at hx
      · exact hall _ hnb
  obtain ⟨x, hx, ex⟩ := r.1.visRes n hvis
  -- finalize returns every result when k covers them
  have hlen : (beamLoop getN dist fuel (initCtx ef entry)).results.length ≤ k := by
    rw [r.1.rlen]
    have := nodup_bounded_length N _ r.1.vnodup r.1.vvalid
    omega
  have sp := popAll_perm 0 _ r.1.heap
  unfold finalize
  rw [List.take_of_length_le (by rw [sp.length_eq]; exact hlen)]
  exact List.mem_map.2 ⟨x, (sp.mem_iff).2 hx, ex⟩
where
  popAll_perm (fuel' : Nat) (h : List Cand) (hh : Heap resLe h) :
      (popAll h.length h []).Perm h := by
    have key : ∀ (fuel : Nat) (h acc : List Cand), Heap resLe h → h.length ≤ fuel →
        (popAll fuel h acc).Perm (h ++ acc) := by
      intro fuel
      induction fuel with
      | zero =>
        intro h acc _ hf
        have : h = [] := List.length_eq_zero_iff.1 (by omega)
        subst this; simp [popAll]
      | succ f ih =>
        intro h acc hh hf
        simp only [popAll]
        cases hp : heapPop resLe h with
        | none =>
          have : h = [] := (heapPop_none resLe h).1 hp
          subst this; simp
        | some pr =>
          obtain ⟨x, h'⟩ := pr
          simp only []
          have sp := heapPop_spec resLe resOrd h hh x h' hp
          have hlen : h'.length + 1 = h.length := by
            have := sp.2.1.length_eq; simp at this; omega
          have r := ih h' (x :: acc) sp.1 (by omega)
          have p1 : (h' ++ x :: acc).Perm (x :: h' ++ acc) := by
            simpa using (List.perm_middle (a := x) (l₁ := h') (l₂ := acc))
          exact r.trans (p1.trans (List.Perm.append_right acc sp.2.1.symm))
    have := key h.length h [] hh (Nat.le_refl _)
    simpa using this

end TurVerif.HnswCover
