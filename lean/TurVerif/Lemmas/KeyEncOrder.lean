import TurVerif.Lemmas.KeyEncFloat
/-! C26: vectors, containers and the main order theorem. -/
namespace TurVerif.KeyEnc

/-- a vector dimension `encode_vector` handles correctly: an f32 pattern that is neither NaN nor −0.0 -/
def dimOk (d : Nat) : Bool :=
  decide (d < 4294967296) && !isNan32 d && decide (d ≠ 2147483648)

mutual
/-- proved domain: every vector dimension inside the value is `dimOk` -/
def vclean : KVal → Bool
  | .vector ds => ds.all dimOk
  | .array es => vcleanL es
  | .tuple es => vcleanL es
  | .composite _ fs => vcleanL fs
  | .domain _ v => vclean v
  | _ => true
def vcleanL : KList → Bool
  | .nil => true
  | .cons v vs => vclean v && vcleanL vs
end

theorem dimOk_iff (d : Nat) : dimOk d = true ↔
    d < 4294967296 ∧ ¬ d % 2147483648 > 2139095040 ∧ d ≠ 2147483648 := by
  simp [dimOk, isNan32, and_assoc]

theorem venc_lt (a : Nat) (ha : a < 4294967296) : venc a < 256 ^ 4 := by
  rw [p4]; unfold venc flipTop; (repeat' split) <;> omega

theorem venc_cmp (a b : Nat) (ha : dimOk a = true) (hb : dimOk b = true) :
    cmpNat (venc a) (venc b) = fcmp32 a b := by
  rw [dimOk_iff] at ha hb
  obtain ⟨a1, a2, a3⟩ := ha
  obtain ⟨b1, b2, b3⟩ := hb
  have na : isNan32 a = false := by simp [isNan32]; omega
  have nb : isNan32 b = false := by simp [isNan32]; omega
  unfold fcmp32 venc
  simp only [na, nb, Bool.false_eq_true, if_false, not_false_eq_true, and_true]
  unfold flipTop fpos cmpNat cmpInt
  (repeat' split) <;> first | rfl | omega | (exfalso; omega)

theorem vecBody_cmp (a b : List Nat) (r1 r2 : List Nat) (hl : a.length = b.length)
    (ha : a.all dimOk = true) (hb : b.all dimOk = true) :
    lexCmp (vecBody a ++ r1) (vecBody b ++ r2) = (cmpVecDims a b).then (lexCmp r1 r2) := by
  induction a generalizing b with
  | nil => cases b with
    | nil => simp [vecBody, cmpVecDims]
    | cons => simp at hl
  | cons x xs ih =>
    cases b with
    | nil => simp at hl
    | cons y ys =>
      simp only [List.all_cons, Bool.and_eq_true] at ha hb
      simp only [vecBody, cmpVecDims, List.append_assoc]
      rw [be_cmp 4 _ _ _ _ (venc_lt x ((dimOk_iff x).mp ha.1).1) (venc_lt y ((dimOk_iff y).mp hb.1).1),
        venc_cmp x y ha.1 hb.1, ih ys (by simpa using hl) ha.2 hb.2, then_assoc']

theorem rank_pos (v : KVal) : 1 ≤ rank v := by
  cases v <;> simp only [rank] <;> (repeat' split) <;> omega

/-- tactic: ranks of values of visibly different kinds differ -/
syntax "rank_ne" : tactic
macro_rules
  | `(tactic| rank_ne) => `(tactic| (simp only [rank]; (repeat' split) <;> omega))

theorem ok_vector (x : List Nat) (b : KVal) (ha : wf (.vector x) = true) (hb : wf b = true)
    (ca : vclean (.vector x) = true) (cb : vclean b = true) : Ok (.vector x) b := by
  cases b
  case vector y =>
    intro r1 r2
    simp only [wf, decide_eq_true_eq, Bool.and_eq_true] at ha hb
    simp only [vclean] at ca cb
    simp only [enc, cmpVal, List.cons_append, lexCmp_cons_cons, cmpNat_self, then_eq',
      List.append_assoc]
    rw [be_cmp 4 _ _ _ _ (by rw [p4]; omega) (by rw [p4]; omega), then_assoc']
    by_cases hl : x.length = y.length
    · rw [vecBody_cmp x y r1 r2 hl ca cb]
    · have : cmpNat x.length y.length ≠ .eq := fun e => hl (cmpNat_eq_iff.mp e)
      cases hc : cmpNat x.length y.length <;> simp_all
  all_goals
    intro r1 r2
    simp only [cmpVal]
    exact head_decides _ _ (by rank_ne) r1 r2

def ElemsOk (a b : KList) : Prop :=
  ∀ r1 r2, lexCmp (encElems a ++ r1) (encElems b ++ r2) = (cmpList a b).then (lexCmp r1 r2)
def RestOk (a b : KList) : Prop :=
  ∀ r1 r2, lexCmp (encRest a ++ r1) (encRest b ++ r2) = (cmpList a b).then (lexCmp r1 r2)

theorem enc_head_pos (v : KVal) (t : List Nat) : ∃ h t', enc v ++ t = h :: t' ∧ 1 ≤ h := by
  obtain ⟨t1, e⟩ := enc_rank v
  exact ⟨rank v, t1 ++ t, by rw [e]; rfl, rank_pos v⟩

mutual
theorem ok_all : (a b : KVal) → wf a = true → wf b = true → vclean a = true → vclean b = true → Ok a b
  | .null, b, _, _, _, _ => ok_null b
  | .bool x, b, _, _, _, _ => ok_bool x b
  | .int x, b, ha, hb, _, _ => ok_int x b ha hb
  | .float x, b, ha, hb, _, _ => ok_float x b ha hb
  | .text x, b, _, _, _, _ => ok_text x b
  | .blob x, b, _, _, _, _ => ok_blob x b
  | .date x, b, ha, hb, _, _ => ok_date x b ha hb
  | .time x, b, ha, hb, _, _ => ok_time x b ha hb
  | .timestamp x, b, ha, hb, _, _ => ok_timestamp x b ha hb
  | .timestamptz x z, b, ha, hb, _, _ => ok_timestamptz x z b ha hb
  | .interval x y z, b, ha, hb, _, _ => ok_interval x y z b ha hb
  | .uuid x, b, ha, hb, _, _ => ok_uuid x b ha hb
  | .inet x y z, b, ha, hb, _, _ => ok_inet x y z b ha hb
  | .macaddr x, b, ha, hb, _, _ => ok_macaddr x b ha hb
  | .enum x y, b, ha, hb, _, _ => ok_enum x y b ha hb
  | .vector x, b, ha, hb, ca, cb => ok_vector x b ha hb ca cb
  | .array x, b, ha, hb, ca, cb => by
    cases b with
    | array y =>
      intro r1 r2
      simp only [wf, vclean] at ha hb ca cb
      simp only [enc, cmpVal, List.cons_append, lexCmp_cons_cons, cmpNat_self, then_eq']
      exact elems_ok x y ha hb ca cb r1 r2
    | _ =>
      intro r1 r2
      simp only [cmpVal]
      exact head_decides _ _ (by rank_ne) r1 r2
  | .tuple x, b, ha, hb, ca, cb => by
    cases b with
    | tuple y =>
      intro r1 r2
      simp only [wf, vclean] at ha hb ca cb
      simp only [enc, cmpVal, List.cons_append, lexCmp_cons_cons, cmpNat_self, then_eq']
      exact elems_ok x y ha hb ca cb r1 r2
    | _ =>
      intro r1 r2
      simp only [cmpVal]
      exact head_decides _ _ (by rank_ne) r1 r2
  | .composite xt x, b, ha, hb, ca, cb => by
    cases b with
    | composite yt y =>
      intro r1 r2
      simp only [wf, vclean, decide_eq_true_eq, Bool.and_eq_true] at ha hb ca cb
      simp only [enc, cmpVal, List.cons_append, lexCmp_cons_cons, cmpNat_self, then_eq',
        List.append_assoc]
      rw [be_cmp 4 _ _ _ _ (by rw [p4]; omega) (by rw [p4]; omega), then_assoc',
        elems_ok x y ha.2 hb.2 ca cb r1 r2]
    | _ =>
      intro r1 r2
      simp only [cmpVal]
      exact head_decides _ _ (by rank_ne) r1 r2
  | .domain xt x, b, ha, hb, ca, cb => by
    cases b with
    | domain yt y =>
      intro r1 r2
      simp only [wf, vclean, decide_eq_true_eq, Bool.and_eq_true] at ha hb ca cb
      simp only [enc, cmpVal, List.cons_append, lexCmp_cons_cons, cmpNat_self, then_eq',
        List.append_assoc]
      rw [be_cmp 4 _ _ _ _ (by rw [p4]; omega) (by rw [p4]; omega), then_assoc',
        ok_all x y ha.2 hb.2 ca cb r1 r2]
    | _ =>
      intro r1 r2
      simp only [cmpVal]
      exact head_decides _ _ (by rank_ne) r1 r2
theorem elems_ok : (a b : KList) → wfList a = true → wfList b = true →
    vcleanL a = true → vcleanL b = true → ElemsOk a b
  | .nil, .nil, _, _, _, _ => by intro r1 r2; simp [encElems, cmpList]
  | .nil, .cons y ys, _, _, _, _ => by
    intro r1 r2
    obtain ⟨h, t', e, hp⟩ := enc_head_pos y (encRest ys ++ r2)
    simp only [encElems, cmpList, List.cons_append, List.nil_append, List.append_assoc, e,
      lexCmp_cons_cons, then_lt']
    have : cmpNat 0 h = .lt := cmpNat_lt_iff.mpr (by omega)
    simp [this]
  | .cons x xs, .nil, _, _, _, _ => by
    intro r1 r2
    obtain ⟨h, t', e, hp⟩ := enc_head_pos x (encRest xs ++ r1)
    simp only [encElems, cmpList, List.cons_append, List.nil_append, List.append_assoc, e,
      lexCmp_cons_cons, then_gt']
    have h1 : ¬ h < 0 := by omega
    have h2 : ¬ h = 0 := by omega
    simp [cmpNat, h2]
  | .cons x xs, .cons y ys, ha, hb, ca, cb => by
    intro r1 r2
    simp only [wfList, vcleanL, Bool.and_eq_true] at ha hb ca cb
    simp only [encElems, cmpList, List.append_assoc]
    rw [ok_all x y ha.1 hb.1 ca.1 cb.1, rest_ok xs ys ha.2 hb.2 ca.2 cb.2, then_assoc']
theorem rest_ok : (a b : KList) → wfList a = true → wfList b = true →
    vcleanL a = true → vcleanL b = true → RestOk a b
  | .nil, .nil, _, _, _, _ => by intro r1 r2; simp [encRest, cmpList]
  | .nil, .cons y ys, _, _, _, _ => by intro r1 r2; simp [encRest, cmpList, cmpNat]
  | .cons x xs, .nil, _, _, _, _ => by intro r1 r2; simp [encRest, cmpList, cmpNat]
  | .cons x xs, .cons y ys, ha, hb, ca, cb => by
    intro r1 r2
    simp only [wfList, vcleanL, Bool.and_eq_true] at ha hb ca cb
    simp only [encRest, cmpList, List.cons_append, lexCmp_cons_cons, cmpNat_self, then_eq',
      List.append_assoc]
    rw [ok_all x y ha.1 hb.1 ca.1 cb.1, rest_ok xs ys ha.2 hb.2 ca.2 cb.2, then_assoc']
end

end TurVerif.KeyEnc
