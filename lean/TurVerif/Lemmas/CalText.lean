import TurVerif.Model.Cal
/-! Text-level helper lemmas for C41: decimal formatting and parsing of 2- and 4-digit fields. -/
namespace TurVerif.Cal

theorem padNat2 (n : Nat) (h : n < 100) : padNat 2 n = [48 + n / 10, 48 + n % 10] := by
  unfold padNat dec
  by_cases h10 : n < 10
  · have h0 : n / 10 = 0 := by omega
    have hm : n % 10 = n := by omega
    simp [decRev, h0, hm]
  · have h1 : n / 10 ≠ 0 := by omega
    have h2 : n / 10 / 10 = 0 := by omega
    have h3 : n / 10 % 10 = n / 10 := by omega
    simp [decRev, h1, h2, h3]

theorem padNat4 (n : Nat) (h : n < 10000) :
    padNat 4 n = [48 + n / 1000, 48 + n / 100 % 10, 48 + n / 10 % 10, 48 + n % 10] := by
  unfold padNat dec
  by_cases h10 : n < 10
  · have h0 : n / 10 = 0 := by omega
    have e1 : n / 1000 = 0 := by omega
    have e2 : n / 100 = 0 := by omega
    simp [decRev, h0, e1, e2]
  · by_cases h100 : n < 100
    · have h1 : n / 10 ≠ 0 := by omega
      have h2 : n / 10 / 10 = 0 := by omega
      have e1 : n / 1000 = 0 := by omega
      have e2 : n / 100 = 0 := by omega
      simp [decRev, h1, h2, e1, e2]
    · by_cases h1000 : n < 1000
      · have h1 : n / 10 ≠ 0 := by omega
        have h2 : n / 10 / 10 ≠ 0 := by omega
        have h3 : n / 10 / 10 / 10 = 0 := by omega
        have e1 : n / 1000 = 0 := by omega
        have e2 : n / 10 / 10 % 10 = n / 100 % 10 := by omega
        simp [decRev, h1, h2, h3, e1, e2]
      · have h1 : n / 10 ≠ 0 := by omega
        have h2 : n / 10 / 10 ≠ 0 := by omega
        have h3 : n / 10 / 10 / 10 ≠ 0 := by omega
        have h4 : n / 10 / 10 / 10 / 10 = 0 := by omega
        have e1 : n / 10 / 10 / 10 % 10 = n / 1000 := by omega
        have e2 : n / 10 / 10 % 10 = n / 100 % 10 := by omega
        simp [decRev, h1, h2, h3, h4, e1, e2]

theorem padInt4_nat (n : Nat) (h : n < 10000) :
    padInt 4 (n : Int) = [48 + n / 1000, 48 + n / 100 % 10, 48 + n / 10 % 10, 48 + n % 10] := by
  unfold padInt
  have : ¬ ((n : Int) < 0) := by omega
  rw [if_neg this, Int.toNat_natCast, padNat4 n h]

theorem padInt2_nat (n : Nat) (h : n < 100) : padInt 2 (n : Int) = [48 + n / 10, 48 + n % 10] := by
  unfold padInt
  have : ¬ ((n : Int) < 0) := by omega
  rw [if_neg this, Int.toNat_natCast, padNat2 n h]

theorem isWs_digit (a : Nat) : isWs (48 + a) = false := by
  unfold isWs
  have h1 : ¬ (48 + a = 32) := by omega
  have h2 : ¬ (48 + a ≤ 13) := by omega
  simp [h1, h2]

theorem digitsVal_cons (a : Nat) (ha : a ≤ 9) (rest : Text) (acc : Nat) :
    digitsVal ((48 + a) :: rest) acc = digitsVal rest (acc * 10 + a) := by
  have : isDigit (48 + a) = true := by
    unfold isDigit
    have h1 : 48 ≤ 48 + a := by omega
    have h2 : 48 + a ≤ 57 := by omega
    simp [h2]
  rw [digitsVal, if_pos this]
  have : 48 + a - 48 = a := by omega
  rw [this]

theorem parseU_2 (bound n : Nat) (h : n < 100) (hb : 100 ≤ bound) :
    parseU bound [48 + n / 10, 48 + n % 10] = some n := by
  unfold parseU
  have h1 : ¬ (List.head? [48 + n / 10, 48 + n % 10] = some 43) := by
    simp only [List.head?_cons, Option.some.injEq]; omega
  dsimp only
  rw [if_neg h1]
  simp only [List.isEmpty_cons, Bool.false_eq_true, if_false]
  rw [digitsVal_cons _ (by omega), digitsVal_cons _ (by omega)]
  simp only [digitsVal]
  have e : (0 * 10 + n / 10) * 10 + n % 10 = n := by omega
  rw [e, if_pos (by omega)]

theorem parseU_4 (bound n : Nat) (h : n < 10000) (hb : 10000 ≤ bound) :
    parseU bound [48 + n / 1000, 48 + n / 100 % 10, 48 + n / 10 % 10, 48 + n % 10] = some n := by
  unfold parseU
  have h1 : ¬ (List.head? [48 + n / 1000, 48 + n / 100 % 10, 48 + n / 10 % 10, 48 + n % 10] = some 43) := by
    simp only [List.head?_cons, Option.some.injEq]; omega
  dsimp only
  rw [if_neg h1]
  simp only [List.isEmpty_cons, Bool.false_eq_true, if_false]
  rw [digitsVal_cons _ (by omega), digitsVal_cons _ (by omega), digitsVal_cons _ (by omega),
    digitsVal_cons _ (by omega)]
  simp only [digitsVal]
  have e : (((0 * 10 + n / 1000) * 10 + n / 100 % 10) * 10 + n / 10 % 10) * 10 + n % 10 = n := by omega
  rw [e, if_pos (by omega)]

theorem parseI_4 (bound n : Nat) (h : n < 10000) (hb : 10000 ≤ bound) :
    parseI bound [48 + n / 1000, 48 + n / 100 % 10, 48 + n / 10 % 10, 48 + n % 10] = some (n : Int) := by
  unfold parseI
  have h1 : ¬ (List.head? [48 + n / 1000, 48 + n / 100 % 10, 48 + n / 10 % 10, 48 + n % 10] = some 45) := by
    simp only [List.head?_cons, Option.some.injEq]; omega
  rw [if_neg h1, parseU_4 bound n h hb]
  rfl

theorem digit_ne_45 (a : Nat) : (48 + a = 45) = False := by
  apply eq_false; omega
theorem digit_ne_58 (a : Nat) (h : a ≤ 9) : (48 + a = 58) = False := by
  apply eq_false; omega
theorem digit_ne_46 (a : Nat) : (48 + a = 46) = False := by
  apply eq_false; omega
theorem digit_ne_32 (a : Nat) : (48 + a = 32) = False := by
  apply eq_false; omega
theorem digit_ne_84 (a : Nat) (h : a ≤ 9) : (48 + a = 84) = False := by
  apply eq_false; omega

theorem fmtYmd_nat (y m d : Nat) (hy : y < 10000) (hm : m < 100) (hd : d < 100) :
    fmtYmd (y : Int) m d =
      [48 + y / 1000, 48 + y / 100 % 10, 48 + y / 10 % 10, 48 + y % 10, 45, 48 + m / 10, 48 + m % 10, 45,
        48 + d / 10, 48 + d % 10] := by
  unfold fmtYmd
  rw [padInt4_nat y hy, padNat2 m hm, padNat2 d hd]
  rfl

theorem trim_ymd (a b c e f g h i : Nat) :
    trim [48 + a, 48 + b, 48 + c, 48 + e, 45, 48 + f, 48 + g, 45, 48 + h, 48 + i]
      = [48 + a, 48 + b, 48 + c, 48 + e, 45, 48 + f, 48 + g, 45, 48 + h, 48 + i] := by
  simp [trim, trimStart, isWs_digit]

theorem split_ymd (a b c e f g h i : Nat) :
    splitOn 45 [48 + a, 48 + b, 48 + c, 48 + e, 45, 48 + f, 48 + g, 45, 48 + h, 48 + i] []
      = [[48 + a, 48 + b, 48 + c, 48 + e], [48 + f, 48 + g], [48 + h, 48 + i]] := by
  simp [splitOn, digit_ne_45]


theorem litParseDate_fmt (y m d : Nat) (hy : y < 10000) (hm : m < 100) (hd : d < 100) :
    litParseDate (fmtYmd (y : Int) m d) =
      if litDateOk (y : Int) m d then some (litDateToDays (y : Int) m d) else none := by
  unfold litParseDate
  rw [fmtYmd_nat y m d hy hm hd, trim_ymd, split_ymd]
  dsimp only
  rw [parseI_4 _ y hy (by unfold i32Bound; omega), parseU_2 _ m hm (by unfold u32Bound; omega),
    parseU_2 _ d hd (by unfold u32Bound; omega)]

theorem castParseDate_fmt (y m d : Nat) (hy : y < 10000) (hm : m < 100) (hd : d < 100) :
    castParseDate (fmtYmd (y : Int) m d) =
      if litDateOk (y : Int) m d then some (defDaysFromYmd (y : Int) m d) else none := by
  unfold castParseDate
  rw [fmtYmd_nat y m d hy hm hd, trim_ymd, split_ymd]
  dsimp only
  rw [parseI_4 _ y hy (by unfold i32Bound; omega), parseU_2 _ m hm (by unfold u32Bound; omega),
    parseU_2 _ d hd (by unfold u32Bound; omega)]

theorem defParseDate_fmt (y m d : Nat) (hy : y < 10000) (hm : m < 100) (hd : d < 100) :
    defParseDate (fmtYmd (y : Int) m d) = some (defDaysFromYmd (y : Int) m d) := by
  unfold defParseDate
  rw [fmtYmd_nat y m d hy hm hd, split_ymd]
  dsimp only
  rw [parseI_4 _ y hy (by unfold i32Bound; omega), parseU_2 _ m hm (by unfold u32Bound; omega),
    parseU_2 _ d hd (by unfold u32Bound; omega)]



theorem fmtHms_nat (h m s : Nat) (hh : h < 100) (hm : m < 100) (hs : s < 100) :
    fmtHms (h : Int) (m : Int) (s : Int) =
      [48 + h / 10, 48 + h % 10, 58, 48 + m / 10, 48 + m % 10, 58, 48 + s / 10, 48 + s % 10] := by
  unfold fmtHms
  rw [padInt2_nat h hh, padInt2_nat m hm, padInt2_nat s hs]
  rfl

theorem trim_hms (a b c e f g : Nat) :
    trim [48 + a, 48 + b, 58, 48 + c, 48 + e, 58, 48 + f, 48 + g]
      = [48 + a, 48 + b, 58, 48 + c, 48 + e, 58, 48 + f, 48 + g] := by
  simp [trim, trimStart, isWs_digit]

theorem find46_hms (a b c e f g : Nat) :
    findByte 46 [48 + a, 48 + b, 58, 48 + c, 48 + e, 58, 48 + f, 48 + g] 0 = none := by
  simp [findByte, digit_ne_46]

theorem split_hms (a b c e f g : Nat) (ha : a ≤ 9) (hb : b ≤ 9) (hc : c ≤ 9) (he : e ≤ 9)
    (hf : f ≤ 9) (hg : g ≤ 9) :
    splitOn 58 [48 + a, 48 + b, 58, 48 + c, 48 + e, 58, 48 + f, 48 + g] []
      = [[48 + a, 48 + b], [48 + c, 48 + e], [48 + f, 48 + g]] := by
  simp [splitOn, digit_ne_58, ha, hb, hc, he, hf, hg]

theorem litParseTime_fmt (h m s : Nat) (hh : h < 100) (hm : m < 100) (hs : s < 100) :
    litParseTime (fmtHms (h : Int) (m : Int) (s : Int)) =
      if h > 23 then none else if m > 59 then none else if s > 59 then none
      else some ((((h : Int) * 3600 + (m : Int) * 60 + (s : Int))) * 1000000) := by
  unfold litParseTime
  rw [fmtHms_nat h m s hh hm hs, trim_hms]
  dsimp only
  rw [find46_hms]
  dsimp only
  rw [split_hms _ _ _ _ _ _ (by omega) (by omega) (by omega) (by omega) (by omega) (by omega)]
  dsimp only
  rw [parseU_2 _ h hh (by unfold u32Bound; omega), parseU_2 _ m hm (by unfold u32Bound; omega),
    parseU_2 _ s hs (by unfold u32Bound; omega)]


/-- the 19-byte canonical timestamp text -/
theorem ts_text (y mo d h mi s : Nat) (hy : y < 10000) (hmo : mo < 100) (hd : d < 100)
    (hh : h < 100) (hmi : mi < 100) (hs : s < 100) :
    fmtYmd (y : Int) mo d ++ [32] ++ fmtHms (h : Int) (mi : Int) (s : Int) =
      [48 + y / 1000, 48 + y / 100 % 10, 48 + y / 10 % 10, 48 + y % 10, 45, 48 + mo / 10, 48 + mo % 10, 45,
        48 + d / 10, 48 + d % 10, 32,
        48 + h / 10, 48 + h % 10, 58, 48 + mi / 10, 48 + mi % 10, 58, 48 + s / 10, 48 + s % 10] := by
  rw [fmtYmd_nat y mo d hy hmo hd, fmtHms_nat h mi s hh hmi hs]
  rfl

theorem litParseTimestamp_fmt (y mo d h mi s : Nat) (hy : y < 10000) (hmo : mo < 100) (hd : d < 100)
    (hh : h < 100) (hmi : mi < 100) (hs : s < 100) :
    litParseTimestamp (fmtYmd (y : Int) mo d ++ [32] ++ fmtHms (h : Int) (mi : Int) (s : Int)) =
      (litParseDate (fmtYmd (y : Int) mo d)).bind (fun days =>
        (litParseTime (fmtHms (h : Int) (mi : Int) (s : Int))).map (fun t => days * microsPerDay + t)) := by
  unfold litParseTimestamp
  rw [ts_text y mo d h mi s hy hmo hd hh hmi hs, fmtYmd_nat y mo d hy hmo hd, fmtHms_nat h mi s hh hmi hs]
  have ht : trim [48 + y / 1000, 48 + y / 100 % 10, 48 + y / 10 % 10, 48 + y % 10, 45, 48 + mo / 10,
      48 + mo % 10, 45, 48 + d / 10, 48 + d % 10, 32, 48 + h / 10, 48 + h % 10, 58, 48 + mi / 10,
      48 + mi % 10, 58, 48 + s / 10, 48 + s % 10] =
      [48 + y / 1000, 48 + y / 100 % 10, 48 + y / 10 % 10, 48 + y % 10, 45, 48 + mo / 10,
      48 + mo % 10, 45, 48 + d / 10, 48 + d % 10, 32, 48 + h / 10, 48 + h % 10, 58, 48 + mi / 10,
      48 + mi % 10, 58, 48 + s / 10, 48 + s % 10] := by
    simp [trim, trimStart, isWs_digit]
  rw [ht]
  dsimp only
  have d1 := digit_ne_84 (y / 1000) (by omega)
  have d2 := digit_ne_84 (y / 100 % 10) (by omega)
  have d3 := digit_ne_84 (y / 10 % 10) (by omega)
  have d4 := digit_ne_84 (y % 10) (by omega)
  have d5 := digit_ne_84 (mo / 10) (by omega)
  have d6 := digit_ne_84 (mo % 10) (by omega)
  have d7 := digit_ne_84 (d / 10) (by omega)
  have d8 := digit_ne_84 (d % 10) (by omega)
  have d9 := digit_ne_84 (h / 10) (by omega)
  have d10 := digit_ne_84 (h % 10) (by omega)
  have d11 := digit_ne_84 (mi / 10) (by omega)
  have d12 := digit_ne_84 (mi % 10) (by omega)
  have d13 := digit_ne_84 (s / 10) (by omega)
  have d14 := digit_ne_84 (s % 10) (by omega)
  simp [findByte, digit_ne_32, d1, d2, d3, d4, d5, d6, d7, d8, d9, d10, d11, d12, d13, d14]
  generalize litParseDate _ = a
  generalize litParseTime _ = b
  cases a <;> cases b <;> rfl



theorem cliFormatTime_hms (h m s : Nat) (hm : m < 60) (hs : s < 60) :
    cliFormatTime ((((h : Int) * 3600 + (m : Int) * 60 + (s : Int))) * 1000000) =
      fmtHms (h : Int) (m : Int) (s : Int) := by
  unfold cliFormatTime
  dsimp only
  have e0 : ((((h : Int) * 3600 + (m : Int) * 60 + (s : Int))) * 1000000).tdiv 1000000
      = (h : Int) * 3600 + (m : Int) * 60 + (s : Int) := by
    rw [Int.tdiv_eq_ediv_of_nonneg (by omega)]; omega
  have e1 : ((((h : Int) * 3600 + (m : Int) * 60 + (s : Int))) * 1000000).tmod 1000000 = 0 := by
    rw [Int.tmod_eq_emod_of_nonneg (by omega)]; omega
  rw [e0, e1]
  have e2 : ((h : Int) * 3600 + (m : Int) * 60 + (s : Int)).tdiv 3600 = h := by
    rw [Int.tdiv_eq_ediv_of_nonneg (by omega)]; omega
  have e3 : ((h : Int) * 3600 + (m : Int) * 60 + (s : Int)).tmod 3600 = (m : Int) * 60 + s := by
    rw [Int.tmod_eq_emod_of_nonneg (by omega)]; omega
  have e4 : ((m : Int) * 60 + s).tdiv 60 = m := by
    rw [Int.tdiv_eq_ediv_of_nonneg (by omega)]; omega
  have e5 : ((h : Int) * 3600 + (m : Int) * 60 + (s : Int)).tmod 60 = s := by
    rw [Int.tmod_eq_emod_of_nonneg (by omega)]; omega
  rw [e2, e3, e4, e5]
  simp

theorem cliFormatTimestamp_hms (days : Int) (h m s : Nat) (hdays : 0 ≤ days) (hh : h < 24) (hm : m < 60)
    (hs : s < 60) :
    cliFormatTimestamp (days * microsPerDay + (((h : Int) * 3600 + (m : Int) * 60 + (s : Int))) * 1000000) =
      (let r := cliJdnToYmd (2440588 + days)
       fmtYmd r.1 r.2.1 r.2.2 ++ [32] ++ fmtHms (h : Int) (m : Int) (s : Int)) := by
  unfold cliFormatTimestamp microsPerDay
  dsimp only
  generalize hT : (h : Int) * 3600 + (m : Int) * 60 + (s : Int) = T
  have hT0 : 0 ≤ T := by omega
  have hT1 : T < 86400 := by omega
  have e0 : (days * (86400 * 1000000) + T * 1000000).tdiv 1000000 = days * 86400 + T := by
    rw [Int.tdiv_eq_ediv_of_nonneg (by omega)]; omega
  have e1 : (days * (86400 * 1000000) + T * 1000000).tmod 1000000 = 0 := by
    rw [Int.tmod_eq_emod_of_nonneg (by omega)]; omega
  rw [e0, e1]
  have e2 : (days * 86400 + T).tdiv 86400 = days := by
    rw [Int.tdiv_eq_ediv_of_nonneg (by omega)]; omega
  have e3 : (days * 86400 + T).tmod 86400 = T := by
    rw [Int.tmod_eq_emod_of_nonneg (by omega)]; omega
  rw [e2, e3]
  have e4 : ((T.natAbs : Nat) : Int) = T := by omega
  rw [e4]
  subst hT
  have e5 : ((h : Int) * 3600 + (m : Int) * 60 + (s : Int)).tdiv 3600 = h := by
    rw [Int.tdiv_eq_ediv_of_nonneg (by omega)]; omega
  have e6 : ((h : Int) * 3600 + (m : Int) * 60 + (s : Int)).tmod 3600 = (m : Int) * 60 + s := by
    rw [Int.tmod_eq_emod_of_nonneg (by omega)]; omega
  have e7 : ((m : Int) * 60 + s).tdiv 60 = m := by
    rw [Int.tdiv_eq_ediv_of_nonneg (by omega)]; omega
  have e8 : ((h : Int) * 3600 + (m : Int) * 60 + (s : Int)).tmod 60 = s := by
    rw [Int.tmod_eq_emod_of_nonneg (by omega)]; omega
  rw [e5, e6, e7, e8]
  simp

end TurVerif.Cal
