import TurVerif.Lemmas.Like
/-!
C14 (LIKE): the byte-level declarative definition `likeSpecB` coincides with the
character-level definition `Sql.likeSpec` on ASCII strings (UTF-8 bytes of an ASCII
string are its code points).
-/
namespace TurVerif.Like
open TurVerif.Sql (tails likeSpec)

theorem tails_map {α β : Type} (f : α → β) (s : List α) :
    tails (s.map f) = (tails s).map (List.map f) := by
  induction s with
  | nil => rfl
  | cons x xs ih => simp [tails, ih]

theorem toNat_eq_37 (c : Char) : c.toNat = 37 ↔ c = '%' :=
  Char.toNat_inj (d := '%')

theorem toNat_eq_95 (c : Char) : c.toNat = 95 ↔ c = '_' :=
  Char.toNat_inj (d := '_')

/-- code-point view: the byte-level definition on code points is the character-level one
(all characters, not only ASCII: `Char.toNat` is injective) -/
theorem likeSpecB_map_toNat (p : List Char) : ∀ s : List Char,
    likeSpecB (p.map Char.toNat) (s.map Char.toNat) = likeSpec p s := by
  induction p with
  | nil => intro s; cases s <;> simp [likeSpecB, likeSpec]
  | cons c p ih =>
    intro s
    by_cases hc : c = '%'
    · subst hc
      have : Char.toNat '%' = 37 := rfl
      simp only [List.map_cons, this, likeSpecB, likeSpec, if_true, tails_map, List.any_map]
      congr 1
      funext s'
      exact ih s'
    · have hn : c.toNat ≠ 37 := fun h => hc ((toNat_eq_37 c).mp h)
      cases s with
      | nil => simp [likeSpecB, likeSpec, hc, hn]
      | cons x s =>
        simp only [List.map_cons, likeSpecB, likeSpec, if_neg hc, if_neg hn, ih s]
        have e1 : decide (c.toNat = 95) = decide (c = '_') := decide_eq_decide.mpr (toNat_eq_95 c)
        have e2 : decide (c.toNat = x.toNat) = decide (c = x) := decide_eq_decide.mpr Char.toNat_inj
        rw [e1, e2]

/-! ### UTF-8 bytes of an ASCII string are its code points -/

theorem ba_loop (bs : ByteArray) : ∀ (n i : Nat) (r : List UInt8), n = bs.size - i → i ≤ bs.size →
    ByteArray.toList.loop bs i r = r.reverse ++ bs.data.toList.drop i := by
  have hsz : bs.data.toList.length = bs.size := by
    rw [Array.length_toList, ByteArray.size_data]
  intro n
  induction n with
  | zero =>
    intro i r hn hi
    have : ¬ i < bs.size := by omega
    rw [ByteArray.toList.loop, if_neg this]
    have : bs.data.toList.drop i = [] := List.drop_eq_nil_of_le (by omega)
    rw [this, List.append_nil]
  | succ n ih =>
    intro i r hn hi
    have hlt : i < bs.size := by omega
    rw [ByteArray.toList.loop, if_pos hlt, ih (i+1) _ (by omega) (by omega)]
    have h2 : i < bs.data.toList.length := by omega
    rw [List.drop_eq_getElem_cons h2, List.reverse_cons, List.append_assoc]
    rw [List.singleton_append]
    have key : bs.get! i = bs.data.toList[i] := by
      cases bs with
      | mk d =>
        show d[i]! = _
        have h3 : i < d.size := by simpa using h2
        simp [h3]
    rw [key]
theorem ba_toList (bs : ByteArray) : bs.toList = bs.data.toList := by
  unfold ByteArray.toList
  rw [ba_loop bs _ 0 [] rfl (Nat.zero_le _)]
  simp

theorem enc_ascii (l : List Char) (h : ∀ c ∈ l, c.toNat < 128) :
    (l.flatMap String.utf8EncodeChar).map UInt8.toNat = l.map Char.toNat := by
  induction l with
  | nil => rfl
  | cons c l ih =>
    have hc : c.toNat < 128 := h c (by simp)
    have h1 : c.utf8Size = 1 := by
      rw [Char.utf8Size_eq_one_iff, UInt32.le_iff_toNat_le]
      show c.toNat ≤ 127
      omega
    rw [List.flatMap_cons, String.utf8EncodeChar_eq_singleton h1, List.map_append,
      ih (fun x hx => h x (by simp [hx]))]
    simp only [List.map_cons, List.map_nil, List.singleton_append, List.cons.injEq, and_true]
    show c.val.toNat % 256 = c.val.toNat
    have : c.val.toNat < 128 := hc
    omega

theorem utf8_ascii (s : String) (h : ∀ c ∈ s.toList, c.toNat < 128) :
    s.toUTF8.data.toList.map UInt8.toNat = s.toList.map Char.toNat := by
  rw [String.toUTF8_eq_toByteArray, ← String.utf8Encode_toList, List.utf8Encode, List.data_toByteArray]
  exact enc_ascii _ h

/-- the bytes the engine's matcher sees (same expression as the model driver uses) -/
def bytesOf (s : String) : List Nat := s.toUTF8.toList.map (·.toNat)

theorem bytesOf_ascii (s : String) (h : ∀ c ∈ s.toList, c.toNat < 128) :
    bytesOf s = s.toList.map Char.toNat := by
  unfold bytesOf
  rw [ba_toList]
  exact utf8_ascii s h

theorem likeSpecB_bytesOf_ascii (p s : String)
    (hp : ∀ c ∈ p.toList, c.toNat < 128) (hs : ∀ c ∈ s.toList, c.toNat < 128) :
    likeSpecB (bytesOf p) (bytesOf s) = likeSpec p.toList s.toList := by
  rw [bytesOf_ascii p hp, bytesOf_ascii s hs, likeSpecB_map_toNat]

end TurVerif.Like
