import TurVerif.Lemmas.KeyEncOrder
/-! C26: round trip `dec (enc v ++ rest) = ok (canon v) (enc v).length`. -/
namespace TurVerif.KeyEnc

theorem flipTop_flipTop (h x : Nat) (hx : x < 2 * h) : flipTop h (flipTop h x) = x := by
  unfold flipTop; split <;> split <;> omega

theorem sfield_length (w m : Nat) (d : Int) : (sfield w m d).length = w := by
  simp [sfield, be_length]

theorem unsfield_sfield64 (d : Int)
    (h : -9223372036854775808 ≤ d ∧ d < 9223372036854775808) :
    unsfield 18446744073709551616 (sfield 8 18446744073709551616 d) = d := by
  unfold sfield unsfield
  rw [sval64 d h, fromBe_be _ _ (by rw [p8]; omega)]
  unfold toI flipTop
  simp only [Nat.reduceDiv]
  split <;> split <;> omega
theorem unsfield_sfield32 (d : Int) (h : -2147483648 ≤ d ∧ d < 2147483648) :
    unsfield 4294967296 (sfield 4 4294967296 d) = d := by
  unfold sfield unsfield
  rw [sval32 d h, fromBe_be _ _ (by rw [p4]; omega)]
  unfold toI flipTop
  simp only [Nat.reduceDiv]
  split <;> split <;> omega
theorem unsfield_sfield16 (d : Int) (h : -32768 ≤ d ∧ d < 32768) :
    unsfield 65536 (sfield 2 65536 d) = d := by
  unfold sfield unsfield
  rw [sval16 d h, fromBe_be _ _ (by rw [p2]; omega)]
  unfold toI flipTop
  simp only [Nat.reduceDiv]
  split <;> split <;> omega

/-- round trip statement for one value with a given amount of fuel -/
def RT (fuel : Nat) (v : KVal) : Prop :=
  ∀ rest, dec (fuel + 1) (enc v ++ rest) = .ok (canon v) (enc v).length

theorem rt_null (fuel : Nat) : RT fuel .null := by
  intro rest; simp [enc, dec, canon]
theorem rt_bool (fuel : Nat) (b : Bool) : RT fuel (.bool b) := by
  intro rest; cases b <;> simp [enc, dec, canon]

theorem rt_int (fuel : Nat) (n : Int) (h : wf (.int n) = true) : RT fuel (.int n) := by
  intro rest
  simp only [wf, decide_eq_true_eq] at h
  simp only [enc, canon]
  split
  · simp [dec, be_length]
    rw [if_neg (by omega), fromBe_be _ _ (by rw [p8]; unfold toU; omega)]
    unfold toI toU; simp only [Nat.reduceDiv]; split <;> simp <;> omega
  · split
    · subst_vars; simp [dec]
    · simp [dec, be_length]
      rw [if_neg (by omega), fromBe_be _ _ (by rw [p8]; unfold toU; omega)]
      unfold toI toU; simp only [Nat.reduceDiv]; split <;> simp <;> omega

theorem rt_text (fuel : Nat) (bs : List Nat) (h : wf (.text bs) = true) : RT fuel (.text bs) := by
  intro rest
  simp only [wf, Bool.and_eq_true] at h
  simp [enc, dec, canon, unesc_esc, h.2]
  omega

theorem rt_blob (fuel : Nat) (bs : List Nat) : RT fuel (.blob bs) := by
  intro rest
  simp [enc, dec, canon, unesc_esc]
  omega

theorem rt_date (fuel : Nat) (d : Int) (h : wf (.date d) = true) : RT fuel (.date d) := by
  intro rest
  simp only [wf, decide_eq_true_eq] at h
  simp [enc, dec, canon, sfield_length]
  rw [if_neg (by omega), unsfield_sfield32 d h]

theorem rt_time (fuel : Nat) (d : Int) (h : wf (.time d) = true) : RT fuel (.time d) := by
  intro rest
  simp only [wf, decide_eq_true_eq] at h
  simp [enc, dec, canon, sfield_length]
  rw [if_neg (by omega), unsfield_sfield64 d h]

theorem rt_timestamp (fuel : Nat) (d : Int) (h : wf (.timestamp d) = true) : RT fuel (.timestamp d) := by
  intro rest
  simp only [wf, decide_eq_true_eq] at h
  simp [enc, dec, canon, sfield_length]
  rw [if_neg (by omega), unsfield_sfield64 d h]

theorem rt_timestamptz (fuel : Nat) (d z : Int) (h : wf (.timestamptz d z) = true) :
    RT fuel (.timestamptz d z) := by
  intro rest
  simp only [wf, decide_eq_true_eq, Bool.and_eq_true] at h
  simp [enc, dec, canon, sfield_length]
  rw [if_neg (by omega), unsfield_sfield64 d h.1, unsfield_sfield16 z h.2]

theorem rt_interval (fuel : Nat) (m d u : Int) (h : wf (.interval m d u) = true) :
    RT fuel (.interval m d u) := by
  intro rest
  simp only [wf, decide_eq_true_eq, Bool.and_eq_true] at h
  simp [enc, dec, canon, sfield_length]
  have e : List.drop 8 (sfield 4 4294967296 m ++ (sfield 4 4294967296 d ++
      (sfield 8 18446744073709551616 u ++ rest))) = sfield 8 18446744073709551616 u ++ rest := by
    rw [← List.append_assoc]; exact List.drop_left' (by simp [sfield_length])
  rw [if_neg (by omega), unsfield_sfield32 m h.1.1, unsfield_sfield32 d h.1.2, e,
    List.take_left' (sfield_length _ _ _), unsfield_sfield64 u h.2]

theorem rt_uuid (fuel : Nat) (bs : List Nat) (h : wf (.uuid bs) = true) : RT fuel (.uuid bs) := by
  intro rest
  simp only [wf, decide_eq_true_eq, Bool.and_eq_true] at h
  simp [enc, dec, canon, h.2]

theorem rt_macaddr (fuel : Nat) (bs : List Nat) (h : wf (.macaddr bs) = true) : RT fuel (.macaddr bs) := by
  intro rest
  simp only [wf, decide_eq_true_eq, Bool.and_eq_true] at h
  simp [enc, dec, canon, h.2]

theorem rt_enum (fuel : Nat) (t o : Nat) (h : wf (.enum t o) = true) : RT fuel (.enum t o) := by
  intro rest
  simp only [wf, decide_eq_true_eq, Bool.and_eq_true] at h
  simp [enc, dec, canon, be_length]
  rw [if_neg (by omega), fromBe_be _ _ (by rw [p4]; omega), fromBe_be _ _ (by rw [p4]; omega)]

theorem rt_inet (fuel : Nat) (v : Bool) (p : Nat) (a : List Nat) (h : wf (.inet v p a) = true) :
    RT fuel (.inet v p a) := by
  intro rest
  simp only [wf, decide_eq_true_eq, Bool.and_eq_true] at h
  cases v <;> simp [enc, dec, canon, h.2] <;> rw [if_neg (by omega), if_neg (by omega)]

end TurVerif.KeyEnc
