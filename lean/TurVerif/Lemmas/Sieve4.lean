import TurVerif.Lemmas.Sieve3
/-! Lemmas for the SIEVE cache model, part 4: hit path and `get_or_insert` on one shard. -/
namespace TurVerif.Sieve

/-- a shard in good shape: consistent index, unique keys, hand in range, not over capacity -/
def Good (sh : Shard) : Prop := SInv sh ∧ sh.entries.length ≤ sh.cap

/-- replacing one entry by one with the same key keeps the shard consistent -/
theorem setEntry_sinv {sh : Shard} {idx : Nat} {e e' : Entry} (h : SInv sh)
    (he : sh.entries[idx]? = some e) (hk : e'.key = e.key) :
    SInv { sh with entries := sh.entries.set idx e' } := by
  have hu := h.uniq
  have hi := h.idx
  refine ⟨?_, ?_, ?_⟩
  · intro i j e1 e2 h1 h2 hkk
    simp only [List.getElem?_set] at h1 h2
    grind
  · intro k i
    simp only [List.getElem?_set]
    grind
  · have := h.hand
    simpa using this

theorem touch_spec {sh : Shard} {k : Key} {idx : Nat} (h : Good sh)
    (hf : alFind sh.index k = some idx) :
    Good (touch sh idx) ∧ (touch sh idx).cap = sh.cap ∧
    (touch sh idx).entries.length = sh.entries.length ∧
    (∀ e ∈ sh.entries, ∃ e' ∈ (touch sh idx).entries,
        e'.key = e.key ∧ e'.data = e.data ∧ e.pin ≤ e'.pin) := by
  obtain ⟨e, he, hk⟩ := (h.1.idx k idx).mp hf
  unfold touch
  simp only [he]
  refine ⟨⟨setEntry_sinv h.1 he rfl, by simpa using h.2⟩, trivial, by simp, ?_⟩
  intro a ha
  obtain ⟨i, hi⟩ := List.mem_iff_getElem?.mp ha
  by_cases hii : i = idx
  · subst hii
    rw [he] at hi; injection hi with hi; subst hi
    refine ⟨{ e with pin := e.pin + 1, visited := true }, ?_, rfl, rfl, by simp⟩
    apply List.mem_iff_getElem?.mpr
    exact ⟨i, by
      have : i < sh.entries.length := by
        rcases Nat.lt_or_ge i sh.entries.length with h1 | h1
        · exact h1
        · simp [List.getElem?_eq_none h1] at he
      simp [this]⟩
  · refine ⟨a, ?_, rfl, rfl, Nat.le_refl _⟩
    apply List.mem_iff_getElem?.mpr
    exact ⟨i, by rw [List.getElem?_set]; simp [Ne.symm hii, hi]⟩

/-- `get_or_insert` on the key's shard: shape, pinned pages, budget -/
theorem goiShard_spec {sh : Shard} (b : Option Budget) (k : Key) (initOk : Bool) (val : Nat)
    (h : Good sh) :
    Good (goiShard sh b k initOk val).1 ∧ (goiShard sh b k initOk val).1.cap = sh.cap ∧
    (∀ e ∈ sh.entries, 0 < e.pin → ∃ e' ∈ (goiShard sh b k initOk val).1.entries,
        e'.key = e.key ∧ e'.data = e.data ∧ e.pin ≤ e'.pin) ∧
    (b = none → (goiShard sh b k initOk val).2.1 = none) ∧
    (∀ bb, b = some bb → PAGE_SIZE * sh.entries.length ≤ bb.cacheUsed →
      ∃ bb', (goiShard sh b k initOk val).2.1 = some bb' ∧ bb'.limit = bb.limit ∧
        bb'.otherUsed = bb.otherUsed ∧
        MissAcc (goiShard sh b k initOk val).2.2 bb.cacheUsed bb'.cacheUsed sh.entries.length
          (goiShard sh b k initOk val).1.entries.length) := by
  unfold goiShard
  cases hf : alFind sh.index k with
  | some idx =>
    simp only
    obtain ⟨t1, t2, t3, t4⟩ := touch_spec h hf
    refine ⟨t1, t2, fun e he _ => t4 e he, fun hb => hb, ?_⟩
    intro bb hb _
    exact ⟨bb, hb, rfl, rfl, by simp only [MissAcc]; rw [t3]⟩
  | none =>
    simp only
    obtain ⟨m1, m2, m3, m4, m5, m6⟩ :=
      goiMiss_spec b k initOk val h.1 h.2 (not_mem_of_find_none h.1 hf)
    refine ⟨⟨m1, by rw [m2]; exact m3⟩, m2, ?_, m5, m6⟩
    intro e he hp
    obtain ⟨e', me', k1, p1, d1⟩ := m4 e he hp
    exact ⟨e', me', k1, d1, by omega⟩

end TurVerif.Sieve
