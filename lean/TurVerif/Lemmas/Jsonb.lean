import TurVerif.Model.Json
/-! Helper lemmas for C32 (byte codecs, slices, sorting). -/
namespace TurVerif.Jsonb

/-! ### Res -/
@[simp] theorem Res.bind_ok {α β : Type} (a : α) (f : α → Res β) : (Res.ok a).bind f = f a := rfl
@[simp] theorem Res.bind_err {α β : Type} (f : α → Res β) : (Res.err : Res α).bind f = .err := rfl
@[simp] theorem Res.bind_oob {α β : Type} (f : α → Res β) : (Res.oob : Res α).bind f = .oob := rfl

/-! ### little-endian codecs -/
theorem rd16_le16 (n : Nat) (h : n < 65536) : rd16 (le16 n) = n := by
  simp only [le16, rd16]; omega
theorem rd24_le24 (n : Nat) (h : n < 16777216) : rd24 (le24 n) = n := by
  simp only [le24, rd24]; omega
theorem rd32_le32 (n : Nat) (h : n < 4294967296) : rd32 (le32 n) = n := by
  simp only [le32, rd32]; omega
theorem rd64_le64 (n : Nat) (h : n < 18446744073709551616) : rd64 (le64 n) = n := by
  simp only [le64, rd64]; omega

@[simp] theorem le16_length (n : Nat) : (le16 n).length = 2 := rfl
@[simp] theorem le24_length (n : Nat) : (le24 n).length = 3 := rfl
@[simp] theorem le32_length (n : Nat) : (le32 n).length = 4 := rfl
@[simp] theorem le64_length (n : Nat) : (le64 n).length = 8 := rfl
@[simp] theorem hdr_length (t n : Nat) : (hdr t n).length = 4 := rfl
@[simp] theorem entry_length (t n : Nat) : (entry t n).length = 4 := rfl

/-! ### slices -/
theorem slice_append (pre mid post : List Nat) :
    slice (pre ++ mid ++ post) pre.length mid.length = .ok mid := by
  simp [slice, List.drop_append, List.take_append]

theorem slice_append' (pre mid post : List Nat) (a n : Nat) (ha : a = pre.length)
    (hn : n = mid.length) : slice (pre ++ mid ++ post) a n = .ok mid := by
  subst ha hn; exact slice_append pre mid post

theorem sliceFrom_append (pre rest : List Nat) (a : Nat) (ha : a = pre.length) :
    sliceFrom (pre ++ rest) a = .ok rest := by
  subst ha; simp [sliceFrom]

end TurVerif.Jsonb

namespace TurVerif.Jsonb

theorem slice_mid (l pre mid post : List Nat) (a n : Nat) (hl : l = pre ++ mid ++ post)
    (ha : a = pre.length) (hn : n = mid.length) : slice l a n = .ok mid := by
  subst hl; exact slice_append' pre mid post a n ha hn

theorem slice_fst (pre a b post : List Nat) (o n : Nat) (ho : o = pre.length) (hn : n = a.length) :
    slice (pre ++ (a ++ b) ++ post) o n = .ok a :=
  slice_mid _ pre a (b ++ post) o n (by simp) ho hn
theorem slice_snd (pre a b post : List Nat) (o n : Nat) (ho : o = pre.length + a.length)
    (hn : n = b.length) : slice (pre ++ (a ++ b) ++ post) o n = .ok b :=
  slice_mid _ (pre ++ a) b post o n (by simp) (by simp [ho]) hn

/-! ### what a reader returns for a stored value -/
def toV : J → V
  | .null => .null
  | .bool b => .bool b
  | .num n => .num n
  | .str s => .str s
  | .arr xs => .arr (mkArr xs.length (encElems xs 0))
  | .obj kvs => .obj (mkObj kvs.length (encPairs kvs 0))

def entTop : J → Nat
  | .null => 2 | .bool _ => 3 | .num _ => 68 | .str _ => 69 | .arr _ => 65 | .obj _ => 64
def entOff : J → Nat → Nat
  | .null, _ => 0
  | .bool b, _ => if b then 1 else 0
  | _, off => off

theorem encEntry_fst (x : J) (off : Nat) : (encEntry x off).1 = entry (entTop x) (entOff x off) := by
  cases x <;> simp [encEntry, entTop, entOff]

/-- well-formedness of a value as stored inside a container (the domain of the round-trip
theorems): numbers are 64-bit patterns, strings and keys are valid UTF-8 shorter than 2^16 bytes,
every container's encoding is shorter than 2^24 bytes. -/
def okStr (s : List Nat) : Prop := s.length < 65536 ∧ validUtf8 s = true
mutual
def WFn : J → Prop
  | .null => True
  | .bool _ => True
  | .num n => n < 18446744073709551616
  | .str s => okStr s
  | .arr xs => WFl xs ∧ (mkArr xs.length (encElems xs 0)).length < 16777216
  | .obj kvs => WFp kvs ∧ (mkObj kvs.length (encPairs kvs 0)).length < 16777216
def WFl : List J → Prop
  | [] => True
  | x :: xs => WFn x ∧ WFl xs
def WFp : List KV → Prop
  | [] => True
  | (k, v) :: rest => okStr k ∧ WFn v ∧ WFp rest
end

/-- a whole document: as `WFn`, except that a root string may be up to 2^28 bytes -/
def WF : J → Prop
  | .str s => s.length < 268435456 ∧ validUtf8 s = true
  | v => WFn v

/-- `decode_entry` relative to the data section -/
def decodeDs (ds : List Nat) (top off : Nat) : Res V :=
  let typ := top % 64
  if typ = 2 then .ok .null
  else if typ = 3 then .ok (.bool (off != 0))
  else if typ = 4 then (slice ds off 8).bind fun b => .ok (.num (rd64 b))
  else if typ = 5 then
    (lenPrefixed ds off).bind fun s => if validUtf8 s then .ok (.str s) else .err
  else if typ = 1 ∨ typ = 0 then
    (slice ds off 4).bind fun lb =>
    (slice ds (off + 4) (rd32 lb)).bind fun nested =>
    (viewNew nested).bind fun nv => .ok (if typ = 1 then .arr nv else .obj nv)
  else .err

theorem decodeEntry_eq (buf ds : List Nat) (top off : Nat)
    (h : sliceFrom buf (dataStart buf) = .ok ds) : decodeEntry buf top off = decodeDs ds top off := by
  unfold decodeEntry decodeDs
  simp only [h, Res.bind_ok]

theorem mkArr_length (n : Nat) (p : List Nat × List Nat) :
    (mkArr n p).length = 4 + p.1.length + p.2.length := by
  simp [mkArr]; omega
theorem mkObj_length (n : Nat) (p : List Nat × List Nat) :
    (mkObj n p).length = 4 + p.1.length + p.2.length := by
  simp [mkObj]; omega

theorem decodeDs_num (ds : List Nat) (off : Nat) :
    decodeDs ds 68 off = (slice ds off 8).bind fun b => .ok (.num (rd64 b)) := by
  simp [decodeDs]
theorem decodeDs_str (ds : List Nat) (off : Nat) :
    decodeDs ds 69 off =
      (lenPrefixed ds off).bind fun s => if validUtf8 s then .ok (.str s) else .err := by
  simp [decodeDs]
theorem decodeDs_arr (ds : List Nat) (off : Nat) :
    decodeDs ds 65 off = (slice ds off 4).bind fun lb =>
      (slice ds (off + 4) (rd32 lb)).bind fun nested =>
      (viewNew nested).bind fun nv => .ok (.arr nv) := by
  simp [decodeDs]
theorem decodeDs_obj (ds : List Nat) (off : Nat) :
    decodeDs ds 64 off = (slice ds off 4).bind fun lb =>
      (slice ds (off + 4) (rd32 lb)).bind fun nested =>
      (viewNew nested).bind fun nv => .ok (.obj nv) := by
  simp [decodeDs]

/-- the entry written for `x` at data offset `pre.length` decodes to `x` -/
theorem decodeDs_entry (x : J) (hx : WFn x) (pre post : List Nat) :
    decodeDs (pre ++ (encEntry x pre.length).2 ++ post) (entTop x) (entOff x pre.length)
      = .ok (toV x) := by
  cases x with
  | null => simp [decodeDs, entTop, toV]
  | bool b => cases b <;> simp [decodeDs, entTop, entOff, toV]
  | num n =>
    simp only [WFn] at hx
    simp only [entTop, entOff, encEntry, toV, decodeDs_num]
    rw [slice_mid _ pre (le64 n) post pre.length 8 rfl rfl rfl]
    simp [rd64_le64 n hx]
  | str s =>
    simp only [WFn, okStr] at hx
    simp only [entTop, entOff, encEntry, toV, decodeDs_str, lenPrefixed]
    rw [slice_fst pre (le16 s.length) s post pre.length 2 rfl rfl]
    simp only [Res.bind_ok, rd16_le16 _ hx.1]
    rw [slice_snd pre (le16 s.length) s post (pre.length + 2) s.length rfl rfl]
    simp [hx.2]
  | arr xs =>
    simp only [WFn] at hx
    simp only [entTop, entOff, encEntry, toV, decodeDs_arr]
    generalize hnb : mkArr xs.length (encElems xs 0) = nb at hx ⊢
    have h4 : 4 ≤ nb.length := by rw [← hnb, mkArr_length]; omega
    rw [slice_fst pre (le32 nb.length) nb post pre.length 4 rfl rfl]
    simp only [Res.bind_ok, rd32_le32 _ (by omega : nb.length < 4294967296)]
    rw [slice_snd pre (le32 nb.length) nb post (pre.length + 4) nb.length rfl rfl]
    simp [viewNew, h4]
  | obj kvs =>
    simp only [WFn] at hx
    simp only [entTop, entOff, encEntry, toV, decodeDs_obj]
    generalize hnb : mkObj kvs.length (encPairs kvs 0) = nb at hx ⊢
    have h4 : 4 ≤ nb.length := by rw [← hnb, mkObj_length]; omega
    rw [slice_fst pre (le32 nb.length) nb post pre.length 4 rfl rfl]
    simp only [Res.bind_ok, rd32_le32 _ (by omega : nb.length < 4294967296)]
    rw [slice_snd pre (le32 nb.length) nb post (pre.length + 4) nb.length rfl rfl]
    simp [viewNew, h4]

end TurVerif.Jsonb

namespace TurVerif.Jsonb

theorem rootType_hdr (t n : Nat) (rest : List Nat) (_ht : t < 16) :
    rootType (hdr t n ++ rest) = t := by
  simp [rootType, hdr, le24]; omega
theorem entryCount_hdr (t n : Nat) (rest : List Nat) (hn : n < 268435456) :
    entryCount (hdr t n ++ rest) = n := by
  simp [entryCount, hdr, le24]; omega

theorem encElems_fst_length (xs : List J) : ∀ off, (encElems xs off).1.length = 4 * xs.length := by
  induction xs with
  | nil => intro off; simp [encElems]
  | cons x xs ih =>
    intro off
    simp only [encElems, List.length_append, List.length_cons, ih, encEntry_fst, entry_length]
    omega

theorem readEntry_at (pre post : List Nat) (top off idx : Nat) (hidx : 4 + idx * 4 = pre.length)
    (hoff : off < 16777216) :
    readEntry (pre ++ entry top off ++ post) idx = .ok (top, off) := by
  unfold readEntry
  rw [slice_mid _ pre (entry top off) post (4 + idx * 4) 4 rfl hidx rfl]
  simp only [Res.bind_ok, entry]
  have : rd24 (le24 off) = off := rd24_le24 off hoff
  simp [le24] at this ⊢
  simpa [rd24] using this

end TurVerif.Jsonb

namespace TurVerif.Jsonb

theorem entOff_lt (x : J) (off : Nat) (h : off < 16777216) : entOff x off < 16777216 := by
  cases x <;> simp [entOff] <;> try omega
  split <;> omega

/-- element `i` of the array loop: with `preE` (k entries) and `preD` already written, the entry
of `xs[i]` sits at index `k + i` and decodes to `xs[i]`. -/
theorem arrayItem_enc (xs : List J) : ∀ (i : Nat) (hi : i < xs.length) (n k : Nat)
    (preE preD postD : List Nat), WFl xs → preE.length = 4 * k → n = k + xs.length →
    n < 268435456 → preD.length + (encElems xs preD.length).2.length < 16777216 →
    arrayItem (hdr 1 n ++ (preE ++ (encElems xs preD.length).1) ++
      (preD ++ (encElems xs preD.length).2 ++ postD)) (k + i) = .ok (toV xs[i]) := by
  induction xs with
  | nil => intro i hi; simp at hi
  | cons x xs ih =>
    intro i hi n k preE preD postD hwf hpe hn hn28 hsz
    simp only [WFl] at hwf
    simp only [List.length_cons] at hn hi
    simp only [encElems] at hsz ⊢
    generalize he : encEntry x preD.length = e at hsz ⊢
    generalize hr : encElems xs (preD.length + e.2.length) = r at hsz ⊢
    have he1 : e.1 = entry (entTop x) (entOff x preD.length) := by rw [← he, encEntry_fst]
    have hr1 : r.1.length = 4 * xs.length := by rw [← hr, encElems_fst_length]
    simp only [List.length_append] at hsz
    cases i with
    | zero =>
      simp only [Nat.add_zero, List.getElem_cons_zero]
      unfold arrayItem
      have hbuf : hdr 1 n ++ (preE ++ (e.1 ++ r.1)) ++ (preD ++ (e.2 ++ r.2) ++ postD)
          = (hdr 1 n ++ preE) ++ entry (entTop x) (entOff x preD.length)
            ++ (r.1 ++ (preD ++ (e.2 ++ r.2) ++ postD)) := by
        rw [he1]; simp [List.append_assoc]
      rw [hbuf, readEntry_at _ _ _ _ k (by simp [hpe]; omega) (entOff_lt _ _ (by omega))]
      simp only [Res.bind_ok]
      rw [← hbuf]
      rw [decodeEntry_eq _ (preD ++ (e.2 ++ r.2) ++ postD)]
      · have := decodeDs_entry x hwf.1 preD (r.2 ++ postD)
        rw [he] at this
        simpa [List.append_assoc] using this
      · apply sliceFrom_append
        rw [dataStart, List.append_assoc, entryCount_hdr _ _ _ hn28]
        simp [hpe, hr1, he1]; omega
    | succ i =>
      have hi' : i < xs.length := by omega
      have := ih i hi' n (k + 1) (preE ++ e.1) (preD ++ e.2) postD hwf.2
        (by simp [hpe, he1]; omega) (by omega) hn28
        (by simp only [List.length_append]; rw [hr]; omega)
      simp only [List.length_append] at this
      rw [hr] at this
      simp only [List.getElem_cons_succ]
      have hk : k + (i + 1) = k + 1 + i := by omega
      rw [hk]
      simpa [List.append_assoc] using this

end TurVerif.Jsonb

namespace TurVerif.Jsonb

theorem encPairs_fst_length (kvs : List KV) : ∀ off, (encPairs kvs off).1.length = 8 * kvs.length := by
  induction kvs with
  | nil => intro off; simp [encPairs]
  | cons kv kvs ih =>
    intro off
    obtain ⟨k, v⟩ := kv
    simp only [encPairs, List.length_append, List.length_cons, ih, encEntry_fst, entry_length]
    omega

/-- member `i` of the object loop -/
theorem objectItem_enc (kvs : List KV) : ∀ (i : Nat) (hi : i < kvs.length) (n k : Nat)
    (preE preD postD : List Nat), WFp kvs → preE.length = 8 * k → n = k + kvs.length →
    2 * n < 268435456 → preD.length + (encPairs kvs preD.length).2.length < 16777216 →
    objectItem (hdr 0 (2 * n) ++ (preE ++ (encPairs kvs preD.length).1) ++
      (preD ++ (encPairs kvs preD.length).2 ++ postD)) (k + i) = .ok (kvs[i].1, toV kvs[i].2) := by
  induction kvs with
  | nil => intro i hi; simp at hi
  | cons kv kvs ih =>
    intro i hi n k preE preD postD hwf hpe hn hn28 hsz
    obtain ⟨key, v⟩ := kv
    simp only [WFp, okStr] at hwf
    simp only [List.length_cons] at hn hi
    simp only [encPairs] at hsz ⊢
    generalize hkd : le16 key.length ++ key = kd at hsz ⊢
    have hkdl : kd.length = 2 + key.length := by rw [← hkd]; simp
    generalize he : encEntry v (preD.length + kd.length) = e at hsz ⊢
    generalize hr : encPairs kvs (preD.length + kd.length + e.2.length) = r at hsz ⊢
    have he1 : e.1 = entry (entTop v) (entOff v (preD.length + kd.length)) := by
      rw [← he, encEntry_fst]
    have hr1 : r.1.length = 8 * kvs.length := by rw [← hr, encPairs_fst_length]
    simp only [List.length_append] at hsz
    cases i with
    | zero =>
      simp only [Nat.add_zero, List.getElem_cons_zero]
      -- the data section
      have hds : sliceFrom (hdr 0 (2 * n) ++ (preE ++ (entry (128 + 64) preD.length ++ e.1 ++ r.1)) ++
          (preD ++ (kd ++ e.2 ++ r.2) ++ postD))
          (dataStart (hdr 0 (2 * n) ++ (preE ++ (entry (128 + 64) preD.length ++ e.1 ++ r.1)) ++
          (preD ++ (kd ++ e.2 ++ r.2) ++ postD))) = .ok (preD ++ (kd ++ e.2 ++ r.2) ++ postD) := by
        apply sliceFrom_append
        rw [dataStart, List.append_assoc, entryCount_hdr _ _ _ hn28]
        simp [hpe, hr1, he1]; omega
      unfold objectItem
      -- key
      have hkey : readKeyAt (hdr 0 (2 * n) ++ (preE ++ (entry (128 + 64) preD.length ++ e.1 ++ r.1)) ++
          (preD ++ (kd ++ e.2 ++ r.2) ++ postD)) k = .ok key := by
        unfold readKeyAt
        have hbuf : hdr 0 (2 * n) ++ (preE ++ (entry (128 + 64) preD.length ++ e.1 ++ r.1)) ++
            (preD ++ (kd ++ e.2 ++ r.2) ++ postD)
            = (hdr 0 (2 * n) ++ preE) ++ entry (128 + 64) preD.length
              ++ (e.1 ++ r.1 ++ (preD ++ (kd ++ e.2 ++ r.2) ++ postD)) := by
          simp [List.append_assoc]
        rw [hbuf, readEntry_at _ _ _ _ (k * 2) (by simp [hpe]; omega) (by omega)]
        simp only [Res.bind_ok]
        rw [← hbuf, hds]
        simp only [Res.bind_ok, lenPrefixed, ← hkd]
        have h1 : preD ++ (le16 key.length ++ key ++ e.2 ++ r.2) ++ postD
            = preD ++ (le16 key.length ++ key) ++ (e.2 ++ r.2 ++ postD) := by
          simp [List.append_assoc]
        rw [h1, slice_fst preD (le16 key.length) key _ preD.length 2 rfl rfl]
        simp only [Res.bind_ok, rd16_le16 _ hwf.1.1]
        rw [slice_snd preD (le16 key.length) key _ (preD.length + 2) key.length rfl rfl]
        simp [hwf.1.2]
      rw [hkey]
      simp only [Res.bind_ok]
      -- value
      have hval : readValueAt (hdr 0 (2 * n) ++ (preE ++ (entry (128 + 64) preD.length ++ e.1 ++ r.1)) ++
          (preD ++ (kd ++ e.2 ++ r.2) ++ postD)) k = .ok (toV v) := by
        unfold readValueAt
        have hbuf : hdr 0 (2 * n) ++ (preE ++ (entry (128 + 64) preD.length ++ e.1 ++ r.1)) ++
            (preD ++ (kd ++ e.2 ++ r.2) ++ postD)
            = (hdr 0 (2 * n) ++ preE ++ entry (128 + 64) preD.length)
              ++ entry (entTop v) (entOff v (preD.length + kd.length))
              ++ (r.1 ++ (preD ++ (kd ++ e.2 ++ r.2) ++ postD)) := by
          rw [he1]; simp [List.append_assoc]
        rw [hbuf, readEntry_at _ _ _ _ (k * 2 + 1) (by simp [hpe]; omega)
          (entOff_lt _ _ (by omega))]
        simp only [Res.bind_ok]
        rw [← hbuf, decodeEntry_eq _ _ _ _ hds]
        have := decodeDs_entry v hwf.2.1 (preD ++ kd) (r.2 ++ postD)
        simp only [List.length_append] at this
        rw [he] at this
        simpa [List.append_assoc] using this
      rw [hval]
      simp
    | succ i =>
      have hi' : i < kvs.length := by omega
      have := ih i hi' n (k + 1) (preE ++ (entry (128 + 64) preD.length ++ e.1)) (preD ++ (kd ++ e.2))
        postD hwf.2.2 (by simp [hpe, he1]; omega) (by omega) hn28
        (by simp only [List.length_append]; rw [← Nat.add_assoc, hr]; omega)
      simp only [List.length_append] at this
      rw [← Nat.add_assoc, hr] at this
      simp only [List.getElem_cons_succ]
      have hk : k + (i + 1) = k + 1 + i := by omega
      rw [hk]
      simpa [List.append_assoc] using this

end TurVerif.Jsonb

namespace TurVerif.Jsonb

/-! ### the byte order -/
theorem cmpBytes_eq : ∀ (a b : List Nat), cmpBytes a b = .eq → a = b
  | [], [], _ => rfl
  | [], _ :: _, h => by simp [cmpBytes] at h
  | _ :: _, [], h => by simp [cmpBytes] at h
  | a :: as, b :: bs, h => by
    simp only [cmpBytes] at h
    split at h
    · simp at h
    · split at h
      · simp at h
      · have := cmpBytes_eq as bs h
        have : a = b := by omega
        simp [*]

theorem cmpBytes_refl : ∀ (a : List Nat), cmpBytes a a = .eq
  | [] => rfl
  | a :: as => by simp [cmpBytes, cmpBytes_refl as]

theorem cmpBytes_lt_gt : ∀ (a b : List Nat), cmpBytes a b = .lt → cmpBytes b a = .gt
  | [], [], h => by simp [cmpBytes] at h
  | [], _ :: _, _ => by simp [cmpBytes]
  | _ :: _, [], h => by simp [cmpBytes] at h
  | a :: as, b :: bs, h => by
    simp only [cmpBytes] at h ⊢
    split at h
    · have : ¬ b < a := by omega
      simp [*]
    · split at h
      · simp at h
      · have := cmpBytes_lt_gt as bs h
        simp [*]

theorem cmpBytes_gt_lt : ∀ (a b : List Nat), cmpBytes a b = .gt → cmpBytes b a = .lt
  | [], [], h => by simp [cmpBytes] at h
  | [], _ :: _, h => by simp [cmpBytes] at h
  | _ :: _, [], _ => by simp [cmpBytes]
  | a :: as, b :: bs, h => by
    simp only [cmpBytes] at h ⊢
    split at h
    · simp at h
    · split at h
      · simp [*]
      · have := cmpBytes_gt_lt as bs h
        simp [*]

/-- `leBytes` is total -/
theorem leBytes_total (a b : List Nat) : leBytes a b = true ∨ leBytes b a = true := by
  unfold leBytes
  cases h : cmpBytes a b with
  | lt => simp
  | eq => simp
  | gt => right; rw [cmpBytes_gt_lt a b h]; simp

/-- `leBytes` is transitive -/
theorem leBytes_trans : ∀ (a b c : List Nat), leBytes a b = true → leBytes b c = true →
    leBytes a c = true
  | [], _, [], _, _ => by simp [leBytes, cmpBytes]
  | [], _, _ :: _, _, _ => by simp [leBytes, cmpBytes]
  | _ :: _, [], _, h, _ => by simp [leBytes, cmpBytes] at h
  | _ :: _, _ :: _, [], _, h => by simp [leBytes, cmpBytes] at h
  | a :: as, b :: bs, c :: cs, h1, h2 => by
    simp only [leBytes, cmpBytes] at h1 h2 ⊢
    by_cases hab : a < b
    · by_cases hbc : b < c
      · have : a < c := by omega
        simp [this]
      · by_cases hcb : c < b
        · simp [hbc, hcb] at h2
        · have : a < c := by omega
          simp [this]
    · by_cases hba : b < a
      · simp [hab, hba] at h1
      · have hab' : a = b := by omega
        subst hab'
        by_cases hac : a < c
        · simp [hac]
        · by_cases hca : c < a
          · simp [hac, hca] at h2
          · simp only [hab, hac, hca, if_false] at h1 h2 ⊢
            exact leBytes_trans as bs cs h1 h2

/-! ### the stable sort -/
def SortedKV (l : List KV) : Prop := List.Pairwise (fun a b => leBytes a.1 b.1 = true) l

theorem insertKV_perm (x : KV) : ∀ l, List.Perm (insertKV x l) (x :: l)
  | [] => by simp [insertKV]
  | y :: ys => by
    simp only [insertKV]
    split
    · exact List.Perm.refl _
    · exact ((insertKV_perm x ys).cons y).trans (List.Perm.swap x y ys)

theorem sortKV_perm : ∀ l, List.Perm (sortKV l) l
  | [] => by simp [sortKV]
  | x :: xs => by
    simp only [sortKV]
    exact (insertKV_perm x (sortKV xs)).trans ((sortKV_perm xs).cons x)

theorem insertKV_sorted (x : KV) : ∀ l, SortedKV l → SortedKV (insertKV x l)
  | [], _ => by simp [insertKV, SortedKV]
  | y :: ys, h => by
    simp only [insertKV]
    have hy : ∀ z ∈ ys, leBytes y.1 z.1 = true := (List.pairwise_cons.mp h).1
    have hys : SortedKV ys := (List.pairwise_cons.mp h).2
    split
    · rename_i hxy
      refine List.pairwise_cons.mpr ⟨?_, h⟩
      intro z hz
      rcases List.mem_cons.mp hz with rfl | hz
      · exact hxy
      · exact leBytes_trans _ _ _ hxy (hy z hz)
    · rename_i hxy
      have hyx : leBytes y.1 x.1 = true := by
        rcases leBytes_total x.1 y.1 with h | h
        · exact absurd h hxy
        · exact h
      refine List.pairwise_cons.mpr ⟨?_, insertKV_sorted x ys hys⟩
      intro z hz
      have := (insertKV_perm x ys).mem_iff.mp hz
      rcases List.mem_cons.mp this with rfl | hz
      · exact hyx
      · exact hy z hz

theorem sortKV_sorted : ∀ l, SortedKV (sortKV l)
  | [] => by simp [sortKV, SortedKV]
  | x :: xs => by simp only [sortKV]; exact insertKV_sorted x _ (sortKV_sorted xs)

end TurVerif.Jsonb

namespace TurVerif.Jsonb

theorem objectItem_parts (buf : List Nat) (i : Nat) (k : List Nat) (v : V)
    (h : objectItem buf i = .ok (k, v)) : readKeyAt buf i = .ok k ∧ readValueAt buf i = .ok v := by
  unfold objectItem at h
  cases hk : readKeyAt buf i with
  | ok k' =>
    rw [hk] at h
    simp only [Res.bind_ok] at h
    cases hv : readValueAt buf i with
    | ok v' =>
      rw [hv] at h
      simp only [Res.bind_ok, Res.ok.injEq, Prod.mk.injEq] at h
      simp [h.1, h.2]
    | err => rw [hv] at h; simp at h
    | oob => rw [hv] at h; simp at h
  | err => rw [hk] at h; simp at h
  | oob => rw [hk] at h; simp at h

/-- the binary search over a buffer whose pairs `0..n-1` read as `kvs`:
it always returns normally; a hit is a member with that key inside the window; on a sorted
object a miss means no member of the window has the key. -/
theorem bsearch_spec (buf key : List Nat) (kvs : List KV)
    (hitem : ∀ i (hi : i < kvs.length), objectItem buf i = .ok (kvs[i].1, toV kvs[i].2)) :
    ∀ (fuel lo hi1 : Nat), hi1 ≤ kvs.length → hi1 - lo < fuel →
      ∃ r, bsearch buf key fuel lo hi1 = .ok r ∧
        (∀ v, r = some v → ∃ i, ∃ (h : i < kvs.length), lo ≤ i ∧ i < hi1 ∧ kvs[i].1 = key ∧ v = toV kvs[i].2) ∧
        (r = none → SortedKV kvs → ∀ i (h : i < kvs.length), lo ≤ i → i < hi1 → kvs[i].1 ≠ key) := by
  intro fuel
  induction fuel with
  | zero => intro lo hi1 _ h; omega
  | succ fuel ih =>
    intro lo hi1 hhi hfuel
    unfold bsearch
    by_cases hlt : lo < hi1
    · simp only [hlt, if_true]
      have hmid : (lo + hi1 - 1) / 2 < kvs.length := by omega
      have hm1 : lo ≤ (lo + hi1 - 1) / 2 := by omega
      have hm2 : (lo + hi1 - 1) / 2 < hi1 := by omega
      generalize (lo + hi1 - 1) / 2 = mid at hmid hm1 hm2
      obtain ⟨hk, hv⟩ := objectItem_parts _ _ _ _ (hitem mid hmid)
      rw [hk]
      simp only [Res.bind_ok]
      cases hc : cmpBytes kvs[mid].1 key with
      | eq =>
        simp only [hv, Res.bind_ok]
        refine ⟨_, rfl, ?_, ?_⟩
        · intro v hv'
          injection hv' with hv'
          exact ⟨mid, hmid, hm1, hm2, cmpBytes_eq _ _ hc, hv'.symm⟩
        · intro h; simp at h
      | lt =>
        simp only []
        obtain ⟨r, hr, h1, h2⟩ := ih (mid + 1) hi1 hhi (by omega)
        refine ⟨r, hr, ?_, ?_⟩
        · intro v hv'
          obtain ⟨i, hi, hlo, hhi', hkey, hval⟩ := h1 v hv'
          exact ⟨i, hi, by omega, hhi', hkey, hval⟩
        · intro hnone hs i hi hlo hhi' hkey
          by_cases him : mid + 1 ≤ i
          · exact h2 hnone hs i hi him hhi' hkey
          · -- i ≤ mid: kvs[i].1 ≤ kvs[mid].1 < key
            have hle : leBytes kvs[i].1 kvs[mid].1 = true := by
              by_cases heq : i = mid
              · subst heq; simp [leBytes, cmpBytes_refl]
              · exact List.pairwise_iff_getElem.mp hs i mid hi hmid (by omega)
            rw [hkey] at hle
            have := cmpBytes_lt_gt _ _ hc
            simp [leBytes, this] at hle
      | gt =>
        simp only []
        obtain ⟨r, hr, h1, h2⟩ := ih lo mid (by omega) (by omega)
        refine ⟨r, hr, ?_, ?_⟩
        · intro v hv'
          obtain ⟨i, hi, hlo, hhi', hkey, hval⟩ := h1 v hv'
          exact ⟨i, hi, hlo, by omega, hkey, hval⟩
        · intro hnone hs i hi hlo hhi' hkey
          by_cases him : i < mid
          · exact h2 hnone hs i hi hlo him hkey
          · have hle : leBytes kvs[mid].1 kvs[i].1 = true := by
              by_cases heq : i = mid
              · subst heq; simp [leBytes, cmpBytes_refl]
              · exact List.pairwise_iff_getElem.mp hs mid i hmid hi (by omega)
            rw [hkey] at hle
            simp [leBytes, hc] at hle
    · simp only [hlt, if_false]
      refine ⟨none, rfl, ?_, ?_⟩
      · intro v h; simp at h
      · intro _ _ i _ hlo hhi'; omega

end TurVerif.Jsonb

namespace TurVerif.Jsonb

/-! ### full read-back -/
mutual
def size : J → Nat
  | .arr xs => 1 + sizeL xs
  | .obj kvs => 1 + sizeP kvs
  | _ => 1
def sizeL : List J → Nat
  | [] => 0
  | x :: xs => size x + sizeL xs
def sizeP : List KV → Nat
  | [] => 0
  | (_, v) :: rest => size v + sizeP rest
end

theorem size_pos (x : J) : 1 ≤ size x := by cases x <;> simp [size]

theorem sizeL_getElem (xs : List J) : ∀ i (h : i < xs.length), size xs[i] ≤ sizeL xs := by
  induction xs with
  | nil => intro i h; simp at h
  | cons x xs ih =>
    intro i h
    cases i with
    | zero => simp [sizeL]
    | succ i => simp only [List.getElem_cons_succ, sizeL]; have := ih i (by simpa using h); omega

theorem sizeP_getElem (kvs : List KV) : ∀ i (h : i < kvs.length), size kvs[i].2 ≤ sizeP kvs := by
  induction kvs with
  | nil => intro i h; simp at h
  | cons kv kvs ih =>
    intro i h
    obtain ⟨k, v⟩ := kv
    cases i with
    | zero => simp [sizeP]
    | succ i => simp only [List.getElem_cons_succ, sizeP]; have := ih i (by simpa using h); omega

theorem iterRes_ok {β : Type} (f : Nat → Res β) (l : List β) :
    ∀ (s : Nat), (∀ i (h : i < l.length), f (s + i) = .ok l[i]) → iterRes f s l.length = .ok l := by
  induction l with
  | nil => intro s _; simp [iterRes]
  | cons x xs ih =>
    intro s h
    simp only [List.length_cons, iterRes]
    have h0 := h 0 (by simp)
    simp only [Nat.add_zero, List.getElem_cons_zero] at h0
    rw [h0]
    simp only [Res.bind_ok]
    rw [ih (s + 1) (by
      intro i hi
      have := h (i + 1) (by simpa using hi)
      simpa [Nat.add_assoc, Nat.add_comm 1 i] using this)]
    simp

theorem WFl_getElem (xs : List J) (h : WFl xs) : ∀ i (hi : i < xs.length), WFn xs[i] := by
  induction xs with
  | nil => intro i hi; simp at hi
  | cons x xs ih =>
    intro i hi
    simp only [WFl] at h
    cases i with
    | zero => exact h.1
    | succ i => simpa using ih h.2 i (by simpa using hi)

theorem WFp_getElem (kvs : List KV) (h : WFp kvs) : ∀ i (hi : i < kvs.length), WFn kvs[i].2 := by
  induction kvs with
  | nil => intro i hi; simp at hi
  | cons kv kvs ih =>
    intro i hi
    obtain ⟨k, v⟩ := kv
    simp only [WFp] at h
    cases i with
    | zero => exact h.2.1
    | succ i => simpa using ih h.2.2 i (by simpa using hi)

/-- items of an encoded array -/
theorem arrayItem_doc (xs : List J) (h : WFn (.arr xs)) (i : Nat) (hi : i < xs.length) :
    arrayItem (mkArr xs.length (encElems xs 0)) i = .ok (toV xs[i]) := by
  simp only [WFn] at h
  have hlen := h.2
  rw [mkArr_length, encElems_fst_length] at hlen
  have := arrayItem_enc xs i hi xs.length 0 [] [] [] h.1 (by simp) (by simp) (by omega)
    (by simp; omega)
  simpa [mkArr] using this

theorem objectItem_doc (kvs : List KV) (h : WFn (.obj kvs)) (i : Nat) (hi : i < kvs.length) :
    objectItem (mkObj kvs.length (encPairs kvs 0)) i = .ok (kvs[i].1, toV kvs[i].2) := by
  simp only [WFn] at h
  have hlen := h.2
  rw [mkObj_length, encPairs_fst_length] at hlen
  have := objectItem_enc kvs i hi kvs.length 0 [] [] [] h.1 (by simp) (by simp) (by omega)
    (by simp; omega)
  simpa [mkObj] using this

theorem arr_header (xs : List J) (h : WFn (.arr xs)) :
    rootType (mkArr xs.length (encElems xs 0)) = 1 ∧
    entryCount (mkArr xs.length (encElems xs 0)) = xs.length := by
  simp only [WFn] at h
  have hlen := h.2
  rw [mkArr_length, encElems_fst_length] at hlen
  simp only [mkArr, List.append_assoc]
  exact ⟨rootType_hdr _ _ _ (by omega), entryCount_hdr _ _ _ (by omega)⟩

theorem obj_header (kvs : List KV) (h : WFn (.obj kvs)) :
    rootType (mkObj kvs.length (encPairs kvs 0)) = 0 ∧
    entryCount (mkObj kvs.length (encPairs kvs 0)) = 2 * kvs.length := by
  simp only [WFn] at h
  have hlen := h.2
  rw [mkObj_length, encPairs_fst_length] at hlen
  simp only [mkObj, List.append_assoc]
  exact ⟨rootType_hdr _ _ _ (by omega), entryCount_hdr _ _ _ (by omega)⟩

end TurVerif.Jsonb

namespace TurVerif.Jsonb

mutual
theorem fromV_toV : ∀ (x : J), WFn x → ∀ fuel, size x ≤ fuel → fromV fuel (toV x) = .ok x
  | .null, _, fuel, _ => by cases fuel <;> simp [toV, fromV]
  | .bool b, _, fuel, _ => by cases fuel <;> simp [toV, fromV]
  | .num n, _, fuel, _ => by cases fuel <;> simp [toV, fromV]
  | .str s, _, fuel, _ => by cases fuel <;> simp [toV, fromV]
  | .arr xs, h, fuel, hf => by
    cases fuel with
    | zero => simp [size] at hf
    | succ f =>
      simp only [size] at hf
      have hh := arr_header xs h
      simp only [toV, fromV, hh.1, hh.2, ne_eq, not_true_eq_false, if_false]
      rw [iterRes_ok _ xs 0]
      · simp
      · intro i hi
        simp only [Nat.zero_add, arrayItem_doc xs h i hi, Res.bind_ok]
        exact fromV_list xs h.1 f (by omega) i hi
  | .obj kvs, h, fuel, hf => by
    cases fuel with
    | zero => simp [size] at hf
    | succ f =>
      simp only [size] at hf
      have hh := obj_header kvs h
      have hdiv : 2 * kvs.length / 2 = kvs.length := by omega
      simp only [toV, fromV, hh.1, hh.2, hdiv, ne_eq, not_true_eq_false, if_false]
      rw [iterRes_ok _ kvs 0]
      · simp
      · intro i hi
        simp only [Nat.zero_add, objectItem_doc kvs h i hi, Res.bind_ok]
        rw [fromV_pairs kvs h.1 f (by omega) i hi]
        simp
theorem fromV_list : ∀ (xs : List J), WFl xs → ∀ fuel, sizeL xs ≤ fuel →
    ∀ i (hi : i < xs.length), fromV fuel (toV xs[i]) = .ok xs[i]
  | [], _, _, _, i, hi => by simp at hi
  | x :: xs, h, fuel, hf, i, hi => by
    simp only [sizeL] at hf
    cases i with
    | zero => exact fromV_toV x h.1 fuel (by omega)
    | succ i => exact fromV_list xs h.2 fuel (by omega) i (by simpa using hi)
theorem fromV_pairs : ∀ (kvs : List KV), WFp kvs → ∀ fuel, sizeP kvs ≤ fuel →
    ∀ i (hi : i < kvs.length), fromV fuel (toV kvs[i].2) = .ok kvs[i].2
  | [], _, _, _, i, hi => by simp at hi
  | (k, v) :: rest, h, fuel, hf, i, hi => by
    simp only [sizeP] at hf
    cases i with
    | zero => exact fromV_toV v h.2.1 fuel (by omega)
    | succ i => exact fromV_pairs rest h.2.2 fuel (by omega) i (by simpa using hi)
end

end TurVerif.Jsonb

namespace TurVerif.Jsonb

mutual
theorem encEntry_size : ∀ (x : J) (off : Nat),
    4 * size x ≤ (encEntry x off).1.length + (encEntry x off).2.length
  | .null, off => by simp [encEntry, size]
  | .bool b, off => by simp [encEntry, size]
  | .num n, off => by simp [encEntry, size]
  | .str s, off => by simp [encEntry, size]
  | .arr xs, off => by
    have := encElems_size xs 0
    simp only [encEntry, size, List.length_append, le32_length, mkArr_length, entry_length]
    omega
  | .obj kvs, off => by
    have := encPairs_size kvs 0
    simp only [encEntry, size, List.length_append, le32_length, mkObj_length, entry_length]
    omega
theorem encElems_size : ∀ (xs : List J) (off : Nat),
    4 * sizeL xs ≤ (encElems xs off).1.length + (encElems xs off).2.length
  | [], off => by simp [encElems, sizeL]
  | x :: xs, off => by
    have h1 := encEntry_size x off
    have h2 := encElems_size xs (off + (encEntry x off).2.length)
    simp only [encElems, sizeL, List.length_append]
    omega
theorem encPairs_size : ∀ (kvs : List KV) (off : Nat),
    4 * sizeP kvs ≤ (encPairs kvs off).1.length + (encPairs kvs off).2.length
  | [], off => by simp [encPairs, sizeP]
  | (k, v) :: rest, off => by
    have h1 := encEntry_size v (off + (le16 k.length ++ k).length)
    have h2 := encPairs_size rest (off + (le16 k.length ++ k).length +
      (encEntry v (off + (le16 k.length ++ k).length)).2.length)
    simp only [encPairs, sizeP, List.length_append, entry_length] at h1 h2 ⊢
    omega
end

theorem size_le_encVal (x : J) : size x ≤ (encVal x).length + 1 := by
  cases x with
  | null => simp [size]
  | bool b => simp [size]
  | num n => simp [size]
  | str s => simp [size]
  | arr xs =>
    have := encElems_size xs 0
    simp only [size, encVal, mkArr_length]; omega
  | obj kvs =>
    have := encPairs_size kvs 0
    simp only [size, encVal, mkObj_length]; omega

end TurVerif.Jsonb
