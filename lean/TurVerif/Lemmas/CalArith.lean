import TurVerif.Model.Cal
/-! Arithmetic helper lemmas for C41 (closed forms of the calendar spec, loop invariants). -/
namespace TurVerif.Cal

theorem isLeap_iff (y : Nat) : isLeap y = true ↔ (y % 4 = 0 ∧ y % 100 ≠ 0) ∨ y % 400 = 0 := by
  simp [isLeap]

theorem yearLen_eq (y : Nat) :
    yearLen y = if (y % 4 = 0 ∧ y % 100 ≠ 0) ∨ y % 400 = 0 then 366 else 365 := by
  unfold yearLen
  by_cases h : isLeap y = true
  · rw [if_pos h, if_pos ((isLeap_iff y).1 h)]
  · rw [if_neg h, if_neg (fun h' => h ((isLeap_iff y).2 h'))]

/-- closed form of the number of days in years 1..n -/
theorem daysUpToYear_closed (n : Nat) :
    daysUpToYear n + n / 100 = 365 * n + n / 4 + n / 400 := by
  induction n with
  | zero => simp [daysUpToYear]
  | succ k ih =>
    rw [daysUpToYear, yearLen_eq]
    split <;> omega

theorem daysUpToYear_step (n : Nat) : daysUpToYear (n + 1) = daysUpToYear n + yearLen (n + 1) := rfl

theorem yearLen_ge (y : Nat) : 365 ≤ yearLen y := by unfold yearLen; split <;> omega
theorem yearLen_le (y : Nat) : yearLen y ≤ 366 := by unfold yearLen; split <;> omega

theorem daysUpToYear_mono {a b : Nat} (h : a ≤ b) : daysUpToYear a + 365 * (b - a) ≤ daysUpToYear b := by
  induction b with
  | zero => have : a = 0 := by omega
            subst this; simp
  | succ k ih =>
    by_cases hk : a ≤ k
    · have := ih hk
      have := yearLen_ge (k + 1)
      rw [daysUpToYear_step]; omega
    · have : a = k + 1 := by omega
      subst this; simp

/-- days before month k+1 (k = 0..12), as a table -/
theorem daysUpToMonth_table (y k : Nat) (hk : k ≤ 12) :
    daysUpToMonth y k =
      (if k = 0 then 0 else if k = 1 then 31 else
        (if isLeap y then 1 else 0) +
        (if k = 2 then 59 else if k = 3 then 90 else if k = 4 then 120 else if k = 5 then 151
         else if k = 6 then 181 else if k = 7 then 212 else if k = 8 then 243 else if k = 9 then 273
         else if k = 10 then 304 else if k = 11 then 334 else 365)) := by
  have : k = 0 ∨ k = 1 ∨ k = 2 ∨ k = 3 ∨ k = 4 ∨ k = 5 ∨ k = 6 ∨ k = 7 ∨ k = 8 ∨ k = 9 ∨ k = 10
      ∨ k = 11 ∨ k = 12 := by omega
  rcases this with h | h | h | h | h | h | h | h | h | h | h | h | h <;> subst h <;>
    simp [daysUpToMonth, monthLen] <;> split <;> omega

theorem daysUpToMonth_twelve (y : Nat) : daysUpToMonth y 12 = yearLen y := by
  rw [daysUpToMonth_table y 12 (by omega)]
  unfold yearLen
  by_cases h : isLeap y = true <;> simp [h]


/-! ### literal.rs loops -/

theorem litIsLeap_nat (k : Nat) : litIsLeap (k : Int) = isLeap k := by
  have h4 : (k : Int).tmod 4 = ((k % 4 : Nat) : Int) := by
    rw [Int.tmod_eq_emod_of_nonneg (by omega)]; omega
  have h100 : (k : Int).tmod 100 = ((k % 100 : Nat) : Int) := by
    rw [Int.tmod_eq_emod_of_nonneg (by omega)]; omega
  have h400 : (k : Int).tmod 400 = ((k % 400 : Nat) : Int) := by
    rw [Int.tmod_eq_emod_of_nonneg (by omega)]; omega
  unfold litIsLeap isLeap
  rw [h4, h100, h400]
  simp only [bne, BEq.beq, Int.natCast_eq_zero]

theorem litDaysInMonth_nat (y m : Nat) : litDaysInMonth (y : Int) m = monthLen y m := by
  unfold litDaysInMonth monthLen
  rw [litIsLeap_nat]
  repeat' split
  all_goals omega

theorem yearLenI (k : Nat) : (if litIsLeap (k : Int) = true then (366 : Int) else 365) = (yearLen k : Nat) := by
  rw [litIsLeap_nat]; unfold yearLen; split <;> simp

theorem litYearLoop_pos (n y0 : Nat) (acc : Int) (h : 1 ≤ y0) :
    litYearLoop 1 n (y0 : Int) acc
      = acc + ((daysUpToYear (y0 + n - 1) : Nat) : Int) - (daysUpToYear (y0 - 1) : Nat) := by
  induction n generalizing y0 acc with
  | zero => simp [litYearLoop]
  | succ k ih =>
    rw [litYearLoop, yearLenI]
    have e : (y0 : Int) + 1 = ((y0 + 1 : Nat) : Int) := by omega
    rw [e, ih (y0 + 1) _ (by omega)]
    have h1 : y0 + 1 + k - 1 = y0 + (k + 1) - 1 := by omega
    have h2 : y0 + 1 - 1 = (y0 - 1) + 1 := by omega
    have h3 : (y0 - 1) + 1 = y0 := by omega
    rw [h1, h2, daysUpToYear_step, h3]
    omega

theorem litYearLoop_neg (n y0 : Nat) (acc : Int) (h : 1 ≤ y0) :
    litYearLoop (-1) n (y0 : Int) acc
      = acc - ((daysUpToYear (y0 + n - 1) : Nat) : Int) + (daysUpToYear (y0 - 1) : Nat) := by
  induction n generalizing y0 acc with
  | zero => simp [litYearLoop]
  | succ k ih =>
    rw [litYearLoop, yearLenI]
    have e : (y0 : Int) + 1 = ((y0 + 1 : Nat) : Int) := by omega
    rw [e, ih (y0 + 1) _ (by omega)]
    have h1 : y0 + 1 + k - 1 = y0 + (k + 1) - 1 := by omega
    have h2 : y0 + 1 - 1 = (y0 - 1) + 1 := by omega
    have h3 : (y0 - 1) + 1 = y0 := by omega
    rw [h1, h2, daysUpToYear_step, h3]
    omega

theorem daysUpToYear_1969 : daysUpToYear 1969 = 719162 := by
  have := daysUpToYear_closed 1969
  omega

theorem litYearPart_nat (y : Nat) (h : 1 ≤ y) :
    litYearPart (y : Int) = ((daysUpToYear (y - 1) : Nat) : Int) - 719162 := by
  unfold litYearPart
  split
  · rename_i h'
    have e : ((y : Int) - 1970).toNat = y - 1970 := by omega
    have e2 : (1970 : Int) = ((1970 : Nat) : Int) := rfl
    rw [e, e2, litYearLoop_pos _ _ _ (by omega)]
    have : 1970 + (y - 1970) - 1 = y - 1 := by omega
    rw [this]
    have : (1970 : Nat) - 1 = 1969 := rfl
    rw [this, daysUpToYear_1969]; omega
  · rename_i h'
    have e : (1970 - (y : Int)).toNat = 1970 - y := by omega
    rw [e, litYearLoop_neg _ _ _ h]
    have : y + (1970 - y) - 1 = 1969 := by omega
    rw [this, daysUpToYear_1969]; omega

theorem litMonthLoop_nat (y n m : Nat) (acc : Int) (h : 1 ≤ m) :
    litMonthLoop (y : Int) n m acc
      = acc + ((daysUpToMonth y (m + n - 1) : Nat) : Int) - (daysUpToMonth y (m - 1) : Nat) := by
  induction n generalizing m acc with
  | zero => simp [litMonthLoop]
  | succ k ih =>
    rw [litMonthLoop, litDaysInMonth_nat, ih (m + 1) _ (by omega)]
    have h1 : m + 1 + k - 1 = m + (k + 1) - 1 := by omega
    have h2 : m + 1 - 1 = (m - 1) + 1 := by omega
    have h3 : (m - 1) + 1 = m := by omega
    rw [h1, h2]
    show _ = acc + _ - ((daysUpToMonth y (m - 1) : Nat) : Int)
    have : daysUpToMonth y (m - 1 + 1) = daysUpToMonth y (m - 1) + monthLen y (m - 1 + 1) := rfl
    rw [this, h3]
    omega

/-- literal.rs `date_to_days_since_epoch` is the calendar spec shifted to the Unix epoch (all years ≥ 1,
any month/day field) -/
theorem litDateToDays_nat (y m d : Nat) (hy : 1 ≤ y) :
    litDateToDays (y : Int) m d = (daysFromCivil y m d : Nat) - 719163 := by
  unfold litDateToDays litDateFrom daysFromCivil
  rw [litYearPart_nat y hy, litMonthLoop_nat _ _ _ _ (by omega)]
  have : 1 + (m - 1) - 1 = m - 1 := by omega
  rw [this]
  have : daysUpToMonth y (1 - 1) = 0 := rfl
  rw [this]
  dsimp only
  omega

/-! ### the JDN formula (constraints / predicate) and datetime.rs `date_to_days` -/

theorem asI32_small (n : Nat) (h : n < 2147483648) : asI32 n = (n : Int) := by
  unfold asI32
  have : n % 4294967296 = n := Nat.mod_eq_of_lt (by omega)
  rw [this]; simp [h]

theorem months (m : Nat) (h1 : 1 ≤ m) (h2 : m ≤ 12) : m = 1 ∨ m = 2 ∨ m = 3 ∨ m = 4 ∨ m = 5 ∨ m = 6 ∨ m = 7 ∨ m = 8 ∨ m = 9 ∨ m = 10 ∨ m = 11 ∨ m = 12 := by omega

theorem defDaysFromYmd_nat (y m d : Nat) (hy : 1 ≤ y) (hm1 : 1 ≤ m) (hm2 : m ≤ 12) (hd : d < 2147483648) :
    defDaysFromYmd (y : Int) m d = (daysFromCivil y m d : Nat) - 719163 := by
  have hc := daysUpToYear_closed (y - 1)
  have hl := isLeap_iff y
  unfold defDaysFromYmd daysFromCivil
  rw [asI32_small d hd, asI32_small m (by omega), daysUpToMonth_table y _ (by omega)]
  simp (disch := omega) only [Int.tdiv_eq_ediv_of_nonneg]
  by_cases hleap : isLeap y = true
  · have hl' := hl.1 hleap
    simp only [hleap, if_true]
    rcases months m hm1 hm2 with h | h | h | h | h | h | h | h | h | h | h | h <;> subst h <;> simp <;> omega
  · have hl' : ¬ ((y % 4 = 0 ∧ y % 100 ≠ 0) ∨ y % 400 = 0) := fun h => hleap (hl.2 h)
    simp only [hleap]
    rcases months m hm1 hm2 with h | h | h | h | h | h | h | h | h | h | h | h <;> subst h <;> simp <;> omega

theorem fnDateToDays_nat (y m d : Nat) (hy : 1 ≤ y) (hm1 : 1 ≤ m) (hm2 : m ≤ 12) :
    fnDateToDays (y : Int) m d = (daysFromCivil y m d : Nat) := by
  have hc := daysUpToYear_closed (y - 1)
  have hl := isLeap_iff y
  unfold fnDateToDays daysFromCivil
  rw [daysUpToMonth_table y _ (by omega)]
  by_cases hleap : isLeap y = true
  · have hl' := hl.1 hleap
    simp only [hleap, if_true]
    rcases months m hm1 hm2 with h | h | h | h | h | h | h | h | h | h | h | h <;> subst h <;> simp <;>
      (try simp (disch := omega) only [Int.tdiv_eq_ediv_of_nonneg]) <;> omega
  · have hl' : ¬ ((y % 4 = 0 ∧ y % 100 ≠ 0) ∨ y % 400 = 0) := fun h => hleap (hl.2 h)
    simp only [hleap]
    rcases months m hm1 hm2 with h | h | h | h | h | h | h | h | h | h | h | h <;> subst h <;> simp <;>
      (try simp (disch := omega) only [Int.tdiv_eq_ediv_of_nonneg]) <;> omega

/-! ### datetime.rs `days_to_date` inverts `date_to_days` (staged omega: the nested quotients are
generalised one at a time and identified with the century / year / month they must equal) -/

theorem fnDaysToDateRaw_core (Y e mm d C t u v r w days : Int)
    (hC : Y = 100 * C + t) (ht0 : 0 ≤ t) (ht1 : t < 100)
    (hu : C = 4 * u + v) (hv0 : 0 ≤ v) (hv1 : v < 4) (hw : t = 4 * w + r) (hr0 : 0 ≤ r) (hr1 : r < 4)
    (hC0 : 0 ≤ C) (_hd0 : 1 ≤ d) (hmm0 : 3 ≤ mm) (hmm1 : mm ≤ 14)
    (he : e ≤ 365 ∨ (e = 366 ∧ r = 3 ∧ (t = 99 → v = 3)))
    (hedef : e = (153 * (mm - 3) + 2) / 5 + d)
    (hmonth : (5 * e + 456) / 153 = mm)
    (hdays : days = 365 * Y + Y / 4 - Y / 100 + Y / 400 + e - 306) :
    fnDaysToDateRaw days = if mm > 12 then (Y + 1, mm - 12, d) else (Y, mm, d) := by
  have h4 : Y / 4 = 25 * C + w := by omega
  have h100 : Y / 100 = C := by omega
  have h400 : Y / 400 = u := by omega
  have he0 : 1 ≤ e := by omega
  unfold fnDaysToDateRaw
  dsimp only
  generalize hz : days + 306 = z
  have hz' : z = 36524 * C + u + 365 * t + w + e := by omega
  generalize ha : (100 * z - 25).tdiv 3652425 = a
  have ha' : a = C := by
    rw [← ha, Int.tdiv_eq_ediv_of_nonneg (by omega)]; omega
  subst ha'
  generalize hq : a.tdiv 4 = q
  have hq' : q = u := by
    rw [← hq, Int.tdiv_eq_ediv_of_nonneg (by omega)]; omega
  subst hq'
  generalize hy : (100 * (a - q) + (100 * z - 25)).tdiv 36525 = y
  have hy' : y = Y := by
    rw [← hy, Int.tdiv_eq_ediv_of_nonneg (by omega)]; omega
  subst hy'
  generalize hq2 : y.tdiv 4 = q2
  have hq2' : q2 = 25 * a + w := by
    rw [← hq2, Int.tdiv_eq_ediv_of_nonneg (by omega)]; omega
  subst hq2'
  have hc : a - q + z - 365 * y - (25 * a + w) = e := by omega
  rw [hc]
  generalize hm : (5 * e + 456).tdiv 153 = m
  have hm' : m = mm := by
    rw [← hm, Int.tdiv_eq_ediv_of_nonneg (by omega)]; exact hmonth
  subst hm'
  generalize hg : (153 * m - 457).tdiv 5 = g
  have hg' : e - g = d := by
    rw [← hg, Int.tdiv_eq_ediv_of_nonneg (by omega)]; omega
  rw [hg']


theorem asU32_nat (n : Nat) (h : n < 4294967296) : asU32 (n : Int) = n := by
  unfold asU32
  have : (n : Int) % 4294967296 = n := Int.emod_eq_of_lt (by omega) (by omega)
  rw [this]; simp

end TurVerif.Cal
