import TurVerif.Model.Simd
/-!
Helper definitions and lemmas for C30 (leaf key search): byte-string order, prefix monotonicity,
well-formed leaves, the narrowing invariant, correctness of the final binary search, and the bridge
from the 32-bit lane masks of the AVX2 code to per-lane facts.
-/
namespace TurVerif.C30
open TurVerif.Simd

/-- a byte string: every element is a byte -/
def BytesOK (k : List Nat) : Prop := ∀ b ∈ k, b < 256

theorem cmp_eq_iff (a b : List Nat) : cmpBytes a b = .eq ↔ a = b := by
  fun_induction cmpBytes a b <;> grind

theorem cmp_gt_iff (a b : List Nat) : cmpBytes a b = .gt ↔ cmpBytes b a = .lt := by
  fun_induction cmpBytes a b <;> grind [cmpBytes]

theorem cmp_lt_trans (a b c : List Nat) :
    cmpBytes a b = .lt → cmpBytes b c = .lt → cmpBytes a c = .lt := by
  induction a generalizing b c with
  | nil => cases b <;> cases c <;> simp [cmpBytes]
  | cons x xs ih =>
    cases b with
    | nil => simp [cmpBytes]
    | cons y ys =>
      cases c with
      | nil => simp [cmpBytes]
      | cons z zs =>
        simp only [cmpBytes]
        intro h1 h2
        split at h1
        · split at h2
          · have : x < z := by omega
            simp [this]
          · split at h2
            · simp at h2
            · have : x < z := by omega
              simp [this]
        · split at h1
          · simp at h1
          · split at h2
            · have : x < z := by omega
              simp [this]
            · split at h2
              · simp at h2
              · have h3 : ¬ x < z := by omega
                have h4 : ¬ z < x := by omega
                simp [h3, h4]
                exact ih _ _ h1 h2

theorem prefix_lt_imp (a b : List Nat) (ha : BytesOK a) (hb : BytesOK b) :
    prefixOf a < prefixOf b → cmpBytes a b = .lt := by
  rcases a with _ | ⟨a0, _ | ⟨a1, _ | ⟨a2, _ | ⟨a3, ar⟩⟩⟩⟩ <;>
  rcases b with _ | ⟨b0, _ | ⟨b1, _ | ⟨b2, _ | ⟨b3, br⟩⟩⟩⟩ <;>
  simp only [BytesOK, List.mem_cons, List.not_mem_nil, or_false, forall_eq_or_imp, forall_eq] at ha hb <;>
  simp only [prefixOf, byteAt, cmpBytes, List.getElem?_cons_zero, List.getElem?_cons_succ, List.getElem?_nil] <;>
  intro h <;>
  repeat' split
  all_goals first | rfl | exact True.intro | omega

/-- A well-formed leaf as produced by the leaf API: at most 2045 slots fit a page, every slot's
prefix hint is the prefix of its key, cells lie inside the page, keys are strictly increasing. -/
structure WF (L : Leaf) : Prop where
  n_le : L.n ≤ 2045
  pfx_eq : ∀ i, i < L.n → L.pfx i = prefixOf (L.key i)
  bytes : ∀ i, i < L.n → BytesOK (L.key i)
  off_ok : ∀ i, i < L.n → L.off i + (L.key i).length ≤ PAGE_SIZE
  sorted : ∀ i, i + 1 < L.n → cmpBytes (L.key i) (L.key (i + 1)) = .lt

theorem sorted_lt {L : Leaf} (w : WF L) {i j : Nat} (hij : i < j) (hj : j < L.n) :
    cmpBytes (L.key i) (L.key j) = .lt := by
  induction j with
  | zero => omega
  | succ j ih =>
    by_cases h : i = j
    · subst h; exact w.sorted i hj
    · exact cmp_lt_trans _ _ _ (ih (by omega) (by omega)) (w.sorted j hj)

theorem prefix_mono (a b : List Nat) (ha : BytesOK a) (hb : BytesOK b)
    (h : cmpBytes a b ≠ .gt) : prefixOf a ≤ prefixOf b := by
  apply Nat.le_of_not_lt
  intro hlt
  exact h ((cmp_gt_iff a b).2 (prefix_lt_imp b a hb ha hlt))

theorem pfx_mono {L : Leaf} (w : WF L) {i j : Nat} (hij : i ≤ j) (hj : j < L.n) :
    L.pfx i ≤ L.pfx j := by
  by_cases h : i = j
  · subst h; exact Nat.le_refl _
  · rw [w.pfx_eq i (by omega), w.pfx_eq j hj]
    apply prefix_mono _ _ (w.bytes i (by omega)) (w.bytes j hj)
    rw [sorted_lt w (by omega) hj]; simp

/-- every key below index `i` is smaller than the probe -/
def Below (L : Leaf) (k : List Nat) (i : Nat) : Prop := ∀ j, j < i → cmpBytes (L.key j) k = .lt
/-- every key from index `i` on is greater than the probe -/
def Above (L : Leaf) (k : List Nat) (i : Nat) : Prop :=
  ∀ j, i ≤ j → j < L.n → cmpBytes (L.key j) k = .gt

theorem spec_found {L : Leaf} {k : List Nat} {m : Nat} (hm : m < L.n) (hb : Below L k m)
    (he : cmpBytes (L.key m) k = .eq) :
    ∀ f i, i ≤ m → f + i = L.n → specFrom L k f i = .found m := by
  intro f
  induction f with
  | zero => intro i h1 h2; omega
  | succ f ih =>
    intro i h1 h2
    unfold specFrom
    by_cases h : i = m
    · subst h; simp [he]
    · have : cmpBytes (L.key i) k = .lt := hb i (by omega)
      simp only [this]
      exact ih (i + 1) (by omega) (by omega)

theorem spec_notFound {L : Leaf} {k : List Nat} {m : Nat} (hm : m ≤ L.n) (hb : Below L k m)
    (hg : m < L.n → cmpBytes (L.key m) k = .gt) :
    ∀ f i, i ≤ m → f + i = L.n → specFrom L k f i = .notFound m := by
  intro f
  induction f with
  | zero => intro i h1 h2; have : i = m := by omega
            subst this; rfl
  | succ f ih =>
    intro i h1 h2
    unfold specFrom
    by_cases h : i = m
    · subst h; simp [hg (by omega)]
    · have : cmpBytes (L.key i) k = .lt := hb i (by omega)
      simp only [this]
      exact ih (i + 1) (by omega) (by omega)

theorem below_step {L : Leaf} (w : WF L) {k : List Nat} {m : Nat} (hm : m < L.n)
    (h : cmpBytes (L.key m) k = .lt) : Below L k (m + 1) := by
  intro j hj
  by_cases e : j = m
  · subst e; exact h
  · exact cmp_lt_trans _ _ _ (sorted_lt w (by omega) hm) h

theorem above_step {L : Leaf} (w : WF L) {k : List Nat} {m : Nat} (hm : m < L.n)
    (h : cmpBytes (L.key m) k = .gt) : Above L k m := by
  intro j hj hjn
  by_cases e : j = m
  · subst e; exact h
  · rw [cmp_gt_iff] at h ⊢
    exact cmp_lt_trans _ _ _ h (sorted_lt w (by omega) hjn)

theorem below_of_eq {L : Leaf} (w : WF L) {k : List Nat} {m : Nat} (hm : m < L.n)
    (h : cmpBytes (L.key m) k = .eq) : Below L k m := by
  intro j hj
  rw [cmp_eq_iff] at h
  rw [← h]
  exact sorted_lt w hj hm

theorem slotOob_false {i : Nat} (h : i < 2045) : slotOob i = false := by
  unfold slotOob LEAF_CONTENT_START SLOT_SIZE PAGE_SIZE
  exact decide_eq_false (by omega)

/-- the final binary search is right whenever the narrowed range brackets the answer -/
theorem final_correct {L : Leaf} (w : WF L) {k : List Nat} (hk : BytesOK k) :
    ∀ f l r, l ≤ r → r ≤ L.n → Below L k l → Above L k r → r - l < f →
      finalLoop L k (prefixOf k) f l r = spec L k := by
  intro f
  induction f with
  | zero => intro l r _ _ _ _ h; omega
  | succ f ih =>
    intro l r hlr hrn hb ha hf
    unfold finalLoop
    by_cases hlt : l < r
    · simp only [hlt, not_true_eq_false, if_false]
      have hmid1 : l ≤ l + (r - l) / 2 := by omega
      have hmid2 : l + (r - l) / 2 < r := by omega
      generalize l + (r - l) / 2 = mid at *
      have hmn : mid < L.n := by omega
      have := w.n_le
      rw [slotOob_false (by omega)]
      simp only [Bool.false_eq_true, if_false]
      have hp := w.pfx_eq mid hmn
      by_cases h1 : L.pfx mid < prefixOf k
      · simp only [h1, if_true]
        have hc : cmpBytes (L.key mid) k = .lt := by
          apply prefix_lt_imp _ _ (w.bytes mid hmn) hk; rw [← hp]; exact h1
        exact ih (mid + 1) r (by omega) hrn (below_step w hmn hc) ha (by omega)
      · simp only [h1, if_false]
        by_cases h2 : prefixOf k < L.pfx mid
        · simp only [h2, if_true]
          have hc : cmpBytes (L.key mid) k = .gt := by
            rw [cmp_gt_iff]
            apply prefix_lt_imp _ _ hk (w.bytes mid hmn); rw [← hp]; exact h2
          exact ih l mid (by omega) (by omega) hb (above_step w hmn hc) (by omega)
        · simp only [h2, if_false]
          have ho := w.off_ok mid hmn
          have : ¬ (L.off mid + (L.key mid).length > PAGE_SIZE) := by omega
          simp only [this, if_false]
          cases hc : cmpBytes (L.key mid) k with
          | eq =>
            simp only
            exact (spec_found hmn (below_of_eq w hmn hc) hc L.n 0 (by omega) (by omega)).symm
          | lt =>
            simp only
            exact ih (mid + 1) r (by omega) hrn (below_step w hmn hc) ha (by omega)
          | gt =>
            simp only
            exact ih l mid (by omega) (by omega) hb (above_step w hmn hc) (by omega)
    · have : l = r := by omega
      subst this
      simp only [hlt, not_false_eq_true, if_true]
      exact (spec_notFound hrn hb (fun h => ha l (Nat.le_refl _) h) L.n 0 (by omega) (by omega)).symm


/-- narrowing invariant on prefixes: slots left of `l` have a smaller prefix than the probe, slots from
`r` on a greater one -/
structure PInv (L : Leaf) (t l r : Nat) : Prop where
  lr : l ≤ r
  rn : r ≤ L.n
  lo : ∀ j, j < l → L.pfx j < t
  hi : ∀ j, r ≤ j → j < L.n → t < L.pfx j

theorem pinv_init (L : Leaf) (t : Nat) : PInv L t 0 L.n :=
  ⟨Nat.zero_le _, Nat.le_refl _, fun j h => by omega, fun j h1 h2 => by omega⟩

theorem lo_step {L : Leaf} (w : WF L) {t m : Nat} (hm : m < L.n) (h : L.pfx m < t) :
    ∀ j, j < m + 1 → L.pfx j < t := by
  intro j hj
  have := pfx_mono w (show j ≤ m by omega) hm
  omega

theorem hi_step {L : Leaf} (w : WF L) {t m : Nat} (h : t < L.pfx m) :
    ∀ j, m ≤ j → j < L.n → t < L.pfx j := by
  intro j hj hjn
  have := pfx_mono w hj hjn
  omega

/-- prefix invariant implies the key-level invariant of `narrow_sound` -/
theorem pinv_keys {L : Leaf} (w : WF L) {k : List Nat} (hk : BytesOK k) {l r : Nat}
    (h : PInv L (prefixOf k) l r) : Below L k l ∧ Above L k r := by
  constructor
  · intro j hj
    have hjn : j < L.n := by have := h.lr; have := h.rn; omega
    apply prefix_lt_imp _ _ (w.bytes j hjn) hk
    rw [← w.pfx_eq j hjn]; exact h.lo j hj
  · intro j hj hjn
    rw [cmp_gt_iff]
    apply prefix_lt_imp _ _ hk (w.bytes j hjn)
    rw [← w.pfx_eq j hjn]; exact h.hi j hj hjn

theorem finish_correct {L : Leaf} (w : WF L) {k : List Nat} (hk : BytesOK k) {l r : Nat}
    (h : PInv L (prefixOf k) l r) : finish L k l r = spec L k := by
  have ⟨hb, ha⟩ := pinv_keys w hk h
  unfold finish
  have : min r L.n = r := Nat.min_eq_left h.rn
  rw [this]
  exact final_correct w hk (L.n + 1) l r h.lr h.rn hb ha (by have := h.rn; omega)

theorem scalar_inv {L : Leaf} (w : WF L) (t : Nat) :
    ∀ f l r, PInv L t l r → PInv L t (scalarLoop L t f l r).1 (scalarLoop L t f l r).2.1 := by
  intro f
  induction f with
  | zero => intro l r h; exact h
  | succ f ih =>
    intro l r h
    unfold scalarLoop
    split
    · exact h
    · rename_i h4
      have hmid1 : l ≤ l + (r - l) / 2 := by omega
      have hmid2 : l + (r - l) / 2 < r := by omega
      generalize l + (r - l) / 2 = mid at *
      have hmn : mid < L.n := by have := h.rn; omega
      simp only
      split
      · exact h
      · split
        · rename_i hlt
          exact ih _ _ ⟨by omega, h.rn, lo_step w hmn hlt, h.hi⟩
        · split
          · rename_i hgt
            exact ih _ _ ⟨by omega, by omega, h.lo, hi_step w hgt⟩
          · exact h

theorem spec_empty (L : Leaf) (k : List Nat) (h : L.n = 0) : spec L k = .notFound 0 := by
  simp [spec, h, specFrom]


/-! ### lane masks -/

def leadTrue : List Bool → Nat
  | true :: bs => 1 + leadTrue bs
  | _ => 0
def leadFalse : List Bool → Nat
  | false :: bs => 1 + leadFalse bs
  | _ => 0
def lastTrue : List Bool → Nat
  | [] => 0
  | _ :: bs => if bs.any id then 1 + lastTrue bs else 0

theorem leadTrue_le (l : List Bool) : leadTrue l ≤ l.length := by
  fun_induction leadTrue l <;> simp <;> omega

theorem leadTrue_spec (l : List Bool) :
    (∀ i, i < leadTrue l → l[i]? = some true) ∧
    (leadTrue l < l.length → l[leadTrue l]? = some false) := by
  fun_induction leadTrue l with
  | case1 bs ih =>
    constructor
    · intro i hi
      cases i with
      | zero => simp
      | succ i => simp; exact ih.1 i (by omega)
    · intro h
      have : 1 + leadTrue bs = leadTrue bs + 1 := by omega
      rw [this]; simp; exact ih.2 (by simp at h; omega)
  | case2 l h =>
    constructor
    · intro i hi; omega
    · intro hl
      match l, h with
      | [], _ => simp at hl
      | false :: _, _ => simp
      | true :: bs, h => exact absurd rfl (h bs)

theorem leadFalse_spec (l : List Bool) :
    (∀ i, i < leadFalse l → l[i]? = some false) ∧
    (leadFalse l < l.length → l[leadFalse l]? = some true) := by
  fun_induction leadFalse l with
  | case1 bs ih =>
    constructor
    · intro i hi
      cases i with
      | zero => simp
      | succ i => simp; exact ih.1 i (by omega)
    · intro h
      have : 1 + leadFalse bs = leadFalse bs + 1 := by omega
      rw [this]; simp; exact ih.2 (by simp at h; omega)
  | case2 l h =>
    constructor
    · intro i hi; omega
    · intro hl
      match l, h with
      | [], _ => simp at hl
      | true :: _, _ => simp
      | false :: bs, h => exact absurd rfl (h bs)

theorem any_iff (l : List Bool) : l.any id = true ↔ ∃ i : Nat, l[i]? = some true := by
  induction l with
  | nil => simp
  | cons b bs ih =>
    simp only [List.any_cons, id, Bool.or_eq_true, ih]
    constructor
    · rintro (h | ⟨i, h⟩)
      · exact ⟨0, by simp [h]⟩
      · exact ⟨i + 1, by simpa using h⟩
    · rintro ⟨i, h⟩
      cases i with
      | zero => left; simpa using h
      | succ i => right; exact ⟨i, by simpa using h⟩

theorem lastTrue_spec (l : List Bool) (h : l.any id = true) :
    l[lastTrue l]? = some true ∧ ∀ i, lastTrue l < i → l[i]? ≠ some true := by
  induction l with
  | nil => simp at h
  | cons b bs ih =>
    unfold lastTrue
    by_cases hb : bs.any id = true
    · simp only [hb, if_true]
      have ⟨h1, h2⟩ := ih hb
      constructor
      · have : 1 + lastTrue bs = lastTrue bs + 1 := by omega
        rw [this]; simpa using h1
      · intro i hi
        cases i with
        | zero => omega
        | succ i => simpa using h2 i (by omega)
    · simp only [hb]
      simp only [List.any_cons, id, Bool.or_eq_true, hb] at h
      have hbt : b = true := by
        rcases h with h | h
        · exact h
        · cases h
      constructor
      · simp [hbt]
      · intro i hi
        cases i with
        | zero => omega
        | succ i =>
          intro hc
          exact hb ((any_iff bs).2 ⟨i, by simpa using hc⟩)

theorem lanes_get (g : Nat → Bool) (i : Nat) (b : Bool) :
    ((List.range 8).map g)[i]? = some b ↔ i < 8 ∧ g i = b := by
  have : (List.range 8).map g = [g 0, g 1, g 2, g 3, g 4, g 5, g 6, g 7] := rfl
  rw [this]
  rcases i with _|_|_|_|_|_|_|_|i <;> simp <;> (intro h; omega)
set_option maxRecDepth 100000 in
theorem mask_bridge : ∀ b0 b1 b2 b3 b4 b5 b6 b7 : Bool,
    let l := [b0, b1, b2, b3, b4, b5, b6, b7]
    let m := movemask l
    (m = 4294967295 ↔ l.all id = true) ∧ (m = 0 ↔ l.any id = false) ∧
    trailingOnes 32 m / 4 = leadTrue l ∧ trailingZeros 32 m / 4 = leadFalse l ∧
    (l.any id = true → lastEqIdx m = lastTrue l) := by
  decide


/-! ### one AVX2 batch, and the loop invariants -/

theorem all_lanes (g : Nat → Bool) :
    ((List.range 8).map g).all id = true ↔ ∀ i, i < 8 → g i = true := by
  simp [List.all_eq_true]

theorem any_lanes (g : Nat → Bool) :
    ((List.range 8).map g).any id = true ↔ ∃ i, i < 8 ∧ g i = true := by
  simp [List.any_eq_true]

theorem any_lanes_false (g : Nat → Bool) :
    ((List.range 8).map g).any id = false ↔ ∀ i, i < 8 → g i = false := by
  rw [← Bool.not_eq_true, any_lanes]
  simp

/-- per-lane reading of the mask computations of one AVX2 batch, for an arbitrary lane predicate -/
theorem lanes_facts (g : Nat → Bool) (m : Nat) (hm : m = movemask ((List.range 8).map g)) :
    (m = 4294967295 ↔ ∀ i, i < 8 → g i = true) ∧
    (m = 0 ↔ ∀ i, i < 8 → g i = false) ∧
    (trailingOnes 32 m / 4 ≤ 8 ∧ (∀ i, i < trailingOnes 32 m / 4 → g i = true) ∧
      (trailingOnes 32 m / 4 < 8 → g (trailingOnes 32 m / 4) = false)) ∧
    (m ≠ 0 → trailingZeros 32 m / 4 < 8 ∧ g (trailingZeros 32 m / 4) = true ∧
      lastEqIdx m < 8 ∧ g (lastEqIdx m) = true ∧ ∀ i, lastEqIdx m < i → i < 8 → g i = false) := by
  have hl : (List.range 8).map g = [g 0, g 1, g 2, g 3, g 4, g 5, g 6, g 7] := rfl
  have hb := mask_bridge (g 0) (g 1) (g 2) (g 3) (g 4) (g 5) (g 6) (g 7)
  simp only [← hl, ← hm] at hb
  obtain ⟨h1, h2, h3, h4, h5⟩ := hb
  have hlen : ((List.range 8).map g).length = 8 := by simp
  refine ⟨h1.trans (all_lanes g), h2.trans (any_lanes_false g), ?_, ?_⟩
  · rw [h3]
    have hs := leadTrue_spec ((List.range 8).map g)
    have hle := leadTrue_le ((List.range 8).map g)
    rw [hlen] at hle hs
    refine ⟨hle, fun i hi => ((lanes_get g i true).1 (hs.1 i hi)).2, fun hc => ?_⟩
    exact ((lanes_get g _ false).1 (hs.2 hc)).2
  · intro hne
    have hany : ((List.range 8).map g).any id = true := by
      rw [← Bool.not_eq_false]; intro hc; exact hne (h2.2 hc)
    rw [h4, h5 hany]
    have hs := leadFalse_spec ((List.range 8).map g)
    have hlast := lastTrue_spec _ hany
    rw [hlen] at hs
    have hlf : leadFalse ((List.range 8).map g) < 8 := by
      obtain ⟨i, hi, hgi⟩ := (any_lanes g).1 hany
      apply Nat.lt_of_not_le
      intro hge
      have := hs.1 i (by omega)
      have := (lanes_get g i false).1 this
      simp [hgi] at this
    have h6 := (lanes_get g _ true).1 (hs.2 hlf)
    have h7 := (lanes_get g _ true).1 hlast.1
    refine ⟨hlf, h6.2, h7.1, h7.2, fun i hi hi8 => ?_⟩
    have := hlast.2 i hi
    cases hg : g i with
    | false => rfl
    | true => exact absurd ((lanes_get g i true).2 ⟨hi8, hg⟩) this

theorem ltLane_iff (t p : Nat) : cmpgtI32 (biasI32 t) (biasI32 p) = true ↔ p < t := by
  unfold cmpgtI32 biasI32
  simp only [decide_eq_true_eq]
  omega


theorem eqLane_iff (t p : Nat) : decide (p = t) = true ↔ p = t := by simp

theorem batchStart_bounds {l r : Nat} (h : ¬ r - l < 8) :
    l ≤ batchStart l r ∧ batchStart l r + 8 ≤ r := by
  simp only [batchStart]; omega

/-- what one batch tells about the slot prefixes (sorted leaf, batch inside the page) -/
theorem batch_facts {L : Leaf} (w : WF L) (t bs : Nat) (hbs : bs + 8 ≤ L.n)
    (mlt meq c : Nat) (hmlt : mlt = movemask (ltLanes L t bs)) (hmeq : meq = movemask (eqLanes L t bs))
    (hc : c = trailingOnes 32 mlt / 4) :
    (mlt = 4294967295 → ∀ j, j < bs + 8 → L.pfx j < t) ∧
    (mlt = 0 → t ≤ L.pfx bs) ∧
    (mlt ≠ 0 → 1 ≤ c) ∧ (mlt ≠ 4294967295 → c < 8) ∧ c ≤ 8 ∧
    (0 < c → ∀ j, j < bs + c → L.pfx j < t) ∧ (c < 8 → t ≤ L.pfx (bs + c)) ∧
    (meq = 0 → ∀ i, i < 8 → L.pfx (bs + i) ≠ t) ∧
    (meq ≠ 0 → trailingZeros 32 meq / 4 < 8 ∧ L.pfx (bs + trailingZeros 32 meq / 4) = t ∧
      lastEqIdx meq < 8 ∧ L.pfx (bs + lastEqIdx meq) = t ∧
      (lastEqIdx meq < 7 → ∀ j, bs + lastEqIdx meq + 1 ≤ j → j < L.n → t < L.pfx j)) := by
  obtain ⟨a1, a2, ⟨a3, a4, a5⟩, _⟩ :=
    lanes_facts (fun i => cmpgtI32 (biasI32 t) (biasI32 (L.pfx (bs + i)))) mlt hmlt
  obtain ⟨e1, e2, _, e4⟩ := lanes_facts (fun i => decide (L.pfx (bs + i) = t)) meq hmeq
  simp only [ltLane_iff, decide_eq_true_eq, decide_eq_false_iff_not] at a1 a2 a4 a5 e1 e2 e4
  have a5' : trailingOnes 32 mlt / 4 < 8 → ¬ L.pfx (bs + trailingOnes 32 mlt / 4) < t := by
    intro h; have := a5 h
    rw [← Bool.not_eq_true, ltLane_iff] at this; exact this
  have a2' : mlt = 0 ↔ ∀ i, i < 8 → ¬ L.pfx (bs + i) < t := by
    rw [a2]; constructor
    · intro h i hi; have := h i hi; rw [← Bool.not_eq_true, ltLane_iff] at this; exact this
    · intro h i hi; rw [← Bool.not_eq_true, ltLane_iff]; exact h i hi
  rw [← hc] at a3 a4 a5'
  have hlo : 0 < c → ∀ j, j < bs + c → L.pfx j < t := by
    intro hc0 j hj
    have h1 := a4 (c - 1) (by omega)
    have h2 := pfx_mono w (show j ≤ bs + (c - 1) by omega) (by omega)
    omega
  refine ⟨?_, ?_, ?_, ?_, a3, hlo, ?_, ?_, ?_⟩
  · intro h j hj
    have h1 := (a1.1 h) 7 (by omega)
    have h2 := pfx_mono w (show j ≤ bs + 7 by omega) (by omega)
    omega
  · intro h
    have := (a2'.1 h) 0 (by omega)
    simp at this; omega
  · intro h
    apply Nat.succ_le_of_lt
    apply Nat.pos_of_ne_zero
    intro hc0
    apply h
    rw [a2']
    intro i hi hlt
    have h1 := a5' (by omega)
    rw [hc0] at h1
    have h2 := pfx_mono w (show bs + 0 ≤ bs + i by omega) (by omega)
    omega
  · intro h
    apply Nat.lt_of_le_of_ne a3
    intro hc8
    apply h
    rw [a1]
    intro i hi
    exact a4 i (by omega)
  · intro h; have := a5' h; omega
  · intro h i hi; exact (e2.1 h) i hi
  · intro h
    obtain ⟨f1, f2, f3, f4, f5⟩ := e4 h
    refine ⟨f1, f2, f3, f4, ?_⟩
    intro h7 j hj hjn
    have h1 := f5 (lastEqIdx meq + 1) (by omega) (by omega)
    have h2 := pfx_mono w (show bs + lastEqIdx meq ≤ bs + (lastEqIdx meq + 1) by omega) (by omega)
    have h3 := pfx_mono w (show bs + (lastEqIdx meq + 1) ≤ j by omega) hjn
    omega


/-- the fixed AVX2 narrowing keeps the invariant -/
theorem avx2_inv {L : Leaf} (w : WF L) (t : Nat) :
    ∀ f l r, PInv L t l r → PInv L t (avx2Loop L t f l r).1 (avx2Loop L t f l r).2 := by
  intro f
  induction f with
  | zero => intro l r h; exact h
  | succ f ih =>
    intro l r h
    unfold avx2Loop
    split
    · exact h
    · rename_i h8
      obtain ⟨hb1, hb2⟩ := batchStart_bounds h8
      generalize batchStart l r = bs at *
      simp only
      split
      · exact h
      · rename_i hbn
        have hrn := h.rn
        have hlr := h.lr
        obtain ⟨b1, b2, b3, b4, b5, b6, b7, b8, b9⟩ :=
          batch_facts w t bs (by omega) _ _ _ rfl rfl rfl
        generalize movemask (ltLanes L t bs) = mlt at *
        generalize movemask (eqLanes L t bs) = meq at *
        generalize trailingOnes 32 mlt / 4 = c at *
        split
        · rename_i hall
          exact ih _ _ ⟨by omega, hrn, b1 hall, h.hi⟩
        · rename_i hnall
          split
          · rename_i hnone
            have hgt : t < L.pfx bs := by
              have h1 := b2 hnone.1
              have h2 := b8 hnone.2 0 (by omega)
              simp only [Nat.add_zero] at h2
              omega
            exact ih _ _ ⟨by omega, by omega, h.lo, hi_step w hgt⟩
          · rename_i hmixed
            have hc8 := b4 hnall
            -- new left
            generalize hl1 : (if c > 0 then bs + c - 1 else l) = l1
            have hl1b : l1 ≤ bs + c ∧ (c = 0 → l1 ≤ bs) := by
              subst hl1; split <;> omega
            have hlo : ∀ j, j < l1 → L.pfx j < t := by
              intro j hj
              subst hl1
              split at hj
              · rename_i hc0; exact b6 hc0 j (by omega)
              · exact h.lo j hj
            split
            · rename_i heq0
              have hc1 : 1 ≤ c := by
                apply b3; intro h0; exact hmixed ⟨h0, heq0⟩
              have hgt : t < L.pfx (bs + c) := by
                have h1 := b7 hc8
                have h2 := b8 heq0 c hc8
                omega
              have hmin : min c 7 = c := by omega
              rw [hmin]
              refine ⟨by omega, by omega, hlo, ?_⟩
              intro j hj hjn
              exact hi_step w hgt j (by omega) hjn
            · rename_i hne
              obtain ⟨f1, f2, f3, f4, f5⟩ := b9 hne
              generalize trailingZeros 32 meq / 4 = feq at *
              generalize lastEqIdx meq = leq at *
              -- lanes below c are < t, lane leq equals t
              have hcle : c ≤ leq := by
                apply Nat.le_of_not_lt; intro hlt
                have := b6 (by omega) (bs + leq) (by omega)
                omega
              by_cases h7 : leq + 1 < 8
              · simp only [h7, if_true]
                refine ⟨by omega, by omega, fun j hj => hlo j (by omega), ?_⟩
                intro j hj hjn
                exact f5 (by omega) j hj hjn
              · simp only [h7, if_false]
                refine ⟨by omega, by omega, fun j hj => hlo j (by omega), h.hi⟩


/-- the pinned AVX2 narrowing keeps the invariant as long as it takes no hazardous step -/
theorem avx2Old_inv {L : Leaf} (w : WF L) (t : Nat) :
    ∀ f l r, PInv L t l r → avx2OldHazard L t f l r = 0 →
      PInv L t (avx2OldLoop L t f l r).1 (avx2OldLoop L t f l r).2 := by
  intro f
  induction f with
  | zero => intro l r h _; exact h
  | succ f ih =>
    intro l r h hz
    unfold avx2OldHazard at hz
    unfold avx2OldLoop
    split
    · exact h
    · rename_i h8
      simp only [h8, if_false] at hz
      obtain ⟨hb1, hb2⟩ := batchStart_bounds h8
      generalize batchStart l r = bs at *
      simp only at hz ⊢
      split
      · exact h
      · rename_i hbn
        simp only [hbn, if_false] at hz
        have hrn := h.rn
        have hlr := h.lr
        obtain ⟨b1, b2, b3, b4, b5, b6, b7, b8, b9⟩ :=
          batch_facts w t bs (by omega) _ _ _ rfl rfl rfl
        generalize movemask (ltLanes L t bs) = mlt at *
        generalize movemask (eqLanes L t bs) = meq at *
        generalize trailingOnes 32 mlt / 4 = c at *
        split
        · rename_i hall
          simp only [hall, if_true] at hz
          exact ih _ _ ⟨by omega, hrn, b1 hall, h.hi⟩ hz
        · rename_i hnall
          simp only [hnall, if_false] at hz
          split
          · rename_i hnone
            simp only [hnone, if_true] at hz
            split at hz
            · omega
            · rename_i hne
              have hgt : t < L.pfx bs := by
                have h1 := b2 hnone
                omega
              exact ih _ _ ⟨by omega, by omega, h.lo, hi_step w hgt⟩ hz
          · rename_i hsome
            simp only [hsome, if_false] at hz
            have hc8 := b4 hnall
            have hc1 := b3 hsome
            have hc0 : c > 0 := by omega
            have hmin : min c 7 = c := by omega
            simp only [hc0, if_true, hmin]
            have hlo : ∀ j, j < bs + c - 1 → L.pfx j < t := fun j hj => b6 hc0 j (by omega)
            split
            · rename_i hne
              obtain ⟨f1, f2, f3, f4, f5⟩ := b9 hne
              generalize trailingZeros 32 meq / 4 = feq at *
              generalize lastEqIdx meq = leq at *
              have hcle : c ≤ leq := by
                apply Nat.le_of_not_lt; intro hlt
                have := b6 (by omega) (bs + leq) (by omega)
                omega
              have hmax : max (bs + c + 1) (bs + leq + 1) = bs + leq + 1 := by omega
              rw [hmax]
              refine ⟨by omega, by omega, fun j hj => hlo j (by omega), ?_⟩
              intro j hj hjn
              by_cases h7 : leq < 7
              · exact f5 h7 j hj hjn
              · have hl7 : leq = 7 := by omega
                subst hl7
                by_cases hr : bs + 8 < r
                · have hn8 : L.pfx (bs + 8) ≠ t := by
                    intro he
                    have : L.pfx (bs + 7) = t ∧ bs + 8 < r ∧ L.pfx (bs + 8) = t := ⟨f4, hr, he⟩
                    simp only [this, and_self, if_true] at hz
                    omega
                  have hm := pfx_mono w (show bs + 7 ≤ bs + 8 by omega) (by omega)
                  exact hi_step w (show t < L.pfx (bs + 8) by omega) j (by omega) hjn
                · exact h.hi j (by omega) hjn
            · rename_i heq0
              have heq0' : meq = 0 := by
                apply Classical.byContradiction; intro hc; exact heq0 hc
              have hgt : t < L.pfx (bs + c) := by
                have h1 := b7 hc8
                have h2 := b8 heq0' c hc8
                omega
              refine ⟨by omega, by omega, hlo, ?_⟩
              intro j hj hjn
              exact hi_step w hgt j (by omega) hjn

/-! ### fuel -/

/-- fuel irrelevance: any two fuels ≥ r - l give the same result -/
theorem scalarLoop_fuel (L : Leaf) (t : Nat) :
    ∀ f1 f2 l r, r - l ≤ f1 → r - l ≤ f2 → scalarLoop L t f1 l r = scalarLoop L t f2 l r := by
  intro f1
  induction f1 with
  | zero =>
    intro f2 l r h1 _
    cases f2 with
    | zero => rfl
    | succ f2 =>
      unfold scalarLoop
      have : r - l < 4 := by omega
      simp [this]
  | succ f1 ih =>
    intro f2 l r h1 h2
    cases f2 with
    | zero =>
      unfold scalarLoop
      have : r - l < 4 := by omega
      simp [this]
    | succ f2 =>
      unfold scalarLoop
      split
      · rfl
      · simp only
        split
        · rfl
        · split
          · exact ih _ _ _ (by omega) (by omega)
          · split
            · exact ih _ _ _ (by omega) (by omega)
            · rfl

theorem avx2Loop_fuel (L : Leaf) (t : Nat) :
    ∀ f1 f2 l r, r - l ≤ f1 → r - l ≤ f2 → avx2Loop L t f1 l r = avx2Loop L t f2 l r := by
  intro f1
  induction f1 with
  | zero =>
    intro f2 l r h1 _
    cases f2 with
    | zero => rfl
    | succ f2 =>
      unfold avx2Loop
      have : r - l < 8 := by omega
      simp [this]
  | succ f1 ih =>
    intro f2 l r h1 h2
    cases f2 with
    | zero =>
      unfold avx2Loop
      have : r - l < 8 := by omega
      simp [this]
    | succ f2 =>
      unfold avx2Loop
      split
      · rfl
      · rename_i h8
        obtain ⟨hb1, hb2⟩ := batchStart_bounds h8
        simp only
        split
        · rfl
        · split
          · exact ih _ _ _ (by omega) (by omega)
          · split
            · exact ih _ _ _ (by omega) (by omega)
            · rfl

theorem avx2OldLoop_fuel (L : Leaf) (t : Nat) :
    ∀ f1 f2 l r, r - l ≤ f1 → r - l ≤ f2 → avx2OldLoop L t f1 l r = avx2OldLoop L t f2 l r := by
  intro f1
  induction f1 with
  | zero =>
    intro f2 l r h1 _
    cases f2 with
    | zero => rfl
    | succ f2 =>
      unfold avx2OldLoop
      have : r - l < 8 := by omega
      simp [this]
  | succ f1 ih =>
    intro f2 l r h1 h2
    cases f2 with
    | zero =>
      unfold avx2OldLoop
      have : r - l < 8 := by omega
      simp [this]
    | succ f2 =>
      unfold avx2OldLoop
      split
      · rfl
      · rename_i h8
        obtain ⟨hb1, hb2⟩ := batchStart_bounds h8
        simp only
        split
        · rfl
        · split
          · exact ih _ _ _ (by omega) (by omega)
          · split
            · exact ih _ _ _ (by omega) (by omega)
            · rfl

theorem finalLoop_fuel (L : Leaf) (k : List Nat) (t : Nat) :
    ∀ f1 f2 l r, r - l < f1 → r - l < f2 → finalLoop L k t f1 l r = finalLoop L k t f2 l r := by
  intro f1
  induction f1 with
  | zero => intro f2 l r h1 _; omega
  | succ f1 ih =>
    intro f2 l r h1 h2
    cases f2 with
    | zero => omega
    | succ f2 =>
      unfold finalLoop
      split
      · rfl
      · simp only
        split
        · rfl
        · split
          · exact ih _ _ _ (by omega) (by omega)
          · split
            · exact ih _ _ _ (by omega) (by omega)
            · split
              · rfl
              · split
                · rfl
                · exact ih _ _ _ (by omega) (by omega)
                · exact ih _ _ _ (by omega) (by omega)
end TurVerif.C30
