import TurVerif.Lemmas.Sieve
/-! Lemmas for the SIEVE cache model, part 2: budget loop, insert, `get_or_insert` on one shard. -/
namespace TurVerif.Sieve

theorem release_limit (b : Budget) (n : Nat) : (b.release n).limit = b.limit := rfl
theorem release_other (b : Budget) (n : Nat) : (b.release n).otherUsed = b.otherUsed := rfl
theorem release_used (b : Budget) (n : Nat) : (b.release n).cacheUsed = b.cacheUsed - n := rfl

theorem insert_sinv {sh : Shard} (e : Entry) (h : SInv sh)
    (hk : ∀ a ∈ sh.entries, a.key ≠ e.key) :
    SInv (insert sh e) ∧ (insert sh e).cap = sh.cap ∧
    (insert sh e).entries.length = sh.entries.length + 1 ∧
    PinnedKept sh.entries (insert sh e).entries := by
  have hk' : ∀ (i : Nat) (a : Entry), sh.entries[i]? = some a → a.key ≠ e.key :=
    fun i a ha => hk a (List.mem_iff_getElem?.mpr ⟨i, ha⟩)
  have hu := h.uniq
  have hi := h.idx
  refine ⟨⟨?_, ?_, ?_⟩, rfl, by simp [insert], ?_⟩
  · intro i j e1 e2 h1 h2 hkk
    simp only [insert, List.getElem?_append, List.getElem?_cons] at h1 h2
    grind
  · intro k i
    simp only [insert, alFind_insert, List.getElem?_append]
    grind
  · have := h.hand
    simp only [insert, List.length_append, List.length_cons, List.length_nil]
    omega
  · intro a ha _
    exact ⟨a, by simp [insert, ha], rfl, rfl, rfl⟩

theorem not_mem_of_find_none {sh : Shard} {k : Key} (h : SInv sh) (hf : alFind sh.index k = none) :
    ∀ a ∈ sh.entries, a.key ≠ k := by
  intro a ha hk
  obtain ⟨i, hi⟩ := List.mem_iff_getElem?.mp ha
  have := (h.idx k i).mpr ⟨a, hi, hk⟩
  rw [hf] at this
  cases this

/-- the `while !can_allocate` loop: only unpinned pages leave, each gives 16 KiB back -/
theorem budgetLoop_spec : ∀ (f : Nat) (sh : Shard) (b : Budget), SInv sh →
    SInv (budgetLoop f sh b).1 ∧ (budgetLoop f sh b).1.cap = sh.cap ∧
    PinnedKept sh.entries (budgetLoop f sh b).1.entries ∧
    NoNewKeys sh.entries (budgetLoop f sh b).1.entries ∧
    (budgetLoop f sh b).1.entries.length ≤ sh.entries.length ∧
    (budgetLoop f sh b).2.1.limit = b.limit ∧ (budgetLoop f sh b).2.1.otherUsed = b.otherUsed ∧
    (PAGE_SIZE * sh.entries.length ≤ b.cacheUsed →
      (budgetLoop f sh b).2.1.cacheUsed + PAGE_SIZE * sh.entries.length =
        b.cacheUsed + PAGE_SIZE * (budgetLoop f sh b).1.entries.length) := by
  intro f
  induction f with
  | zero =>
    intro sh b h
    simp only [budgetLoop]
    exact ⟨h, trivial, pinnedKept_refl _, noNew_refl _, Nat.le_refl _, trivial, trivial, fun _ => trivial⟩
  | succ f ih =>
    intro sh b h
    rw [budgetLoop]
    split
    · exact ⟨h, rfl, pinnedKept_refl _, noNew_refl _, Nat.le_refl _, rfl, rfl, fun _ => rfl⟩
    · obtain ⟨s1, c1, pk1, nn1, ht, hf⟩ := evictOne_spec (some b) h
      cases hr : evictOne sh (some b) with
      | mk sh1 rest =>
        obtain ⟨ob, flag, w⟩ := rest
        rw [hr] at s1 c1 pk1 nn1 ht hf
        simp only at s1 c1 pk1 nn1 ht hf
        cases flag with
        | none =>
          obtain ⟨hl, -⟩ := hf (by simp)
          cases ob <;> simp only <;>
            exact ⟨s1, c1, pk1, nn1, by omega, by simp, by simp, fun _ => by rw [hl]⟩
        | some fl =>
          cases fl with
          | false =>
            obtain ⟨hl, -⟩ := hf (by simp)
            cases ob <;> simp only <;>
              exact ⟨s1, c1, pk1, nn1, by omega, by simp, by simp, fun _ => by rw [hl]⟩
          | true =>
            obtain ⟨hl, hb⟩ := ht rfl
            simp only [releaseB, Option.map] at hb
            subst hb
            simp only
            obtain ⟨a1, a2, a3, a4, a5, a6, a7, a8⟩ := ih sh1 (b.release PAGE_SIZE) s1
            refine ⟨a1, a2.trans c1, pk1.trans a3, nn1.trans a4, by omega, a6.trans (release_limit _ _), a7.trans (release_other _ _), ?_⟩
            intro hge
            have hrel : (b.release PAGE_SIZE).cacheUsed = b.cacheUsed - PAGE_SIZE := release_used _ _
            have hm : PAGE_SIZE * sh.entries.length = PAGE_SIZE * sh1.entries.length + PAGE_SIZE := by
              rw [← hl, Nat.mul_succ]
            have h8 := a8 (by rw [hrel]; omega)
            rw [hrel] at h8
            omega


theorem allocate_spec (b b2 : Budget) (n : Nat) (h : b.allocate n = some b2) :
    b2.cacheUsed = b.cacheUsed + n ∧ b2.limit = b.limit ∧ b2.otherUsed = b.otherUsed := by
  unfold Budget.allocate at h
  split at h
  · injection h with h; subst h; subst_vars; exact ⟨rfl, rfl, rfl⟩
  · split at h
    · cases h
    · split at h
      · cases h
      · injection h with h; subst h; exact ⟨rfl, rfl, rfl⟩

/-- accounting relation of `goiFinish`: `u`/`u'` = cache_used before/after (with the allocated page
    already in `u`), `n`/`n'` = entries before/after -/
def FinishAcc (r : GRes) (u u' n n' : Nat) : Prop :=
  match r with
  | .errInit => u' + PAGE_SIZE * n + PAGE_SIZE = u + PAGE_SIZE * n' + PAGE_SIZE
  | .broken _ => True
  | _ => u' + PAGE_SIZE * n + PAGE_SIZE = u + PAGE_SIZE * n'

theorem goiFinish_spec {sh : Shard} (b : Option Budget) (k : Key) (initOk : Bool) (val : Nat)
    (h : SInv sh) (hcap : sh.entries.length ≤ sh.cap)
    (hk : ∀ a ∈ sh.entries, a.key ≠ k) :
    SInv (goiFinish sh b k initOk val).1 ∧ (goiFinish sh b k initOk val).1.cap = sh.cap ∧
    (goiFinish sh b k initOk val).1.entries.length ≤ sh.cap ∧
    PinnedKept sh.entries (goiFinish sh b k initOk val).1.entries ∧
    (b = none → (goiFinish sh b k initOk val).2.1 = none) ∧
    (∀ bb, b = some bb → PAGE_SIZE * sh.entries.length + PAGE_SIZE ≤ bb.cacheUsed →
      ∃ bb', (goiFinish sh b k initOk val).2.1 = some bb' ∧ bb'.limit = bb.limit ∧
        bb'.otherUsed = bb.otherUsed ∧
        FinishAcc (goiFinish sh b k initOk val).2.2 bb.cacheUsed bb'.cacheUsed sh.entries.length
          (goiFinish sh b k initOk val).1.entries.length) := by
  -- the state after the capacity phase
  have key : ∀ (sh2 : Shard) (b2 : Option Budget), SInv sh2 → sh2.cap = sh.cap →
      sh2.entries.length + 1 ≤ sh.cap → PinnedKept sh.entries sh2.entries →
      NoNewKeys sh.entries sh2.entries →
      let r : Shard × Option Budget × GRes :=
        if initOk then (insert sh2 ⟨k, true, false, 1, val⟩, b2, .inserted) else (sh2, b2, .errInit)
      SInv r.1 ∧ r.1.cap = sh.cap ∧ r.1.entries.length ≤ sh.cap ∧ PinnedKept sh.entries r.1.entries ∧
      r.2.1 = b2 ∧
      ((r.2.2 = .inserted ∧ r.1.entries.length = sh2.entries.length + 1) ∨
       (r.2.2 = .errInit ∧ r.1.entries.length = sh2.entries.length)) := by
    intro sh2 b2 s2 c2 l2 pk2 nn2
    have hk2 : ∀ a ∈ sh2.entries, a.key ≠ (⟨k, true, false, 1, val⟩ : Entry).key := by
      intro a ha
      obtain ⟨a0, m0, k0⟩ := nn2 a ha
      rw [k0]; exact hk a0 m0
    cases initOk with
    | true =>
      obtain ⟨i1, i2, i3, i4⟩ := insert_sinv ⟨k, true, false, 1, val⟩ s2 hk2
      simp only [if_true]
      exact ⟨i1, i2.trans c2, by omega, pk2.trans i4, trivial, Or.inl ⟨trivial, i3⟩⟩
    | false =>
      simp only [Bool.false_eq_true, if_false]
      exact ⟨s2, c2, by omega, pk2, trivial, Or.inr ⟨trivial, trivial⟩⟩
  unfold goiFinish
  by_cases hfull : sh.cap ≤ sh.entries.length
  · simp only [hfull, if_true]
    obtain ⟨s1, c1, pk1, nn1, ht, hf⟩ := evictOne_spec b h
    cases hr : evictOne sh b with
    | mk sh1 rest =>
      obtain ⟨ob, flag, w⟩ := rest
      rw [hr] at s1 c1 pk1 nn1 ht hf
      simp only at s1 c1 pk1 nn1 ht hf
      cases flag with
      | none =>
        obtain ⟨hl, -⟩ := hf (by simp)
        simp only
        refine ⟨s1, c1, by omega, pk1, fun hb => hb, ?_⟩
        intro bb hb _
        exact ⟨bb, hb, rfl, rfl, trivial⟩
      | some fl =>
        cases fl with
        | false =>
          obtain ⟨hl, -⟩ := hf (by simp)
          simp only
          refine ⟨s1, c1, by omega, pk1, fun hb => by rw [hb]; rfl, ?_⟩
          intro bb hb hge
          subst hb
          refine ⟨bb.release PAGE_SIZE, rfl, release_limit _ _, release_other _ _, ?_⟩
          have := release_used bb PAGE_SIZE
          simp only [FinishAcc]
          rw [this, hl]
          omega
        | true =>
          obtain ⟨hl, hb2⟩ := ht rfl
          simp only
          obtain ⟨k1, k2, k3, k4, k5, k6⟩ := key sh1 ob s1 c1 (by omega) pk1 nn1
          refine ⟨k1, k2, k3, k4, fun hb => by rw [k5, hb2, hb]; rfl, ?_⟩
          intro bb hb hge
          subst hb
          refine ⟨bb.release PAGE_SIZE, by rw [k5, hb2]; rfl, release_limit _ _, release_other _ _, ?_⟩
          have hu := release_used bb PAGE_SIZE
          have hm : PAGE_SIZE * sh.entries.length = PAGE_SIZE * sh1.entries.length + PAGE_SIZE := by
            rw [← hl, Nat.mul_succ]
          rcases k6 with ⟨r1, r2⟩ | ⟨r1, r2⟩
          · rw [r1, r2]; simp only [FinishAcc]; rw [hu, Nat.mul_succ]; omega
          · rw [r1, r2]; simp only [FinishAcc]; rw [hu]; omega
  · simp only [hfull, if_false]
    obtain ⟨k1, k2, k3, k4, k5, k6⟩ :=
      key sh b h rfl (by omega) (pinnedKept_refl _) (noNew_refl _)
    refine ⟨k1, k2, k3, k4, fun hb => by rw [k5, hb], ?_⟩
    intro bb hb hge
    refine ⟨bb, by rw [k5, hb], rfl, rfl, ?_⟩
    rcases k6 with ⟨r1, r2⟩ | ⟨r1, r2⟩
    · rw [r1, r2]; simp only [FinishAcc]; rw [Nat.mul_succ]; omega
    · rw [r1, r2]; simp only [FinishAcc]



end TurVerif.Sieve
