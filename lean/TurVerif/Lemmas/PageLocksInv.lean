import TurVerif.Lemmas.PageLocks
/-!
C36: preservation of the invariant `Inv` by every kind of step of the repaired page-lock LTS
(one lemma per kind of step), then by `step` and by `run`.
-/
namespace TurVerif.PageLocks

/-- steps that only move the thread's pc (no change to map / entries): `idle → getOrCreate`,
`acquire → waiting`, and a `cleanup` that does not remove -/
theorem inv_pcOnly {s : State} (h : Inv s) {tid : Nat} {t : Thread} (t' : Thread)
    (ht : s.threads[tid]? = some t)
    (h1 : ∀ e, stakeIn e t'.pc = stakeIn e t.pc)
    (h2 : ∀ e, heldW e t'.pc = heldW e t.pc)
    (h3 : ∀ e, heldR e t'.pc = heldR e t.pc)
    (h4 : stakeOf t'.pc = none ∨ stakeOf t'.pc = stakeOf t.pc)
    (h5 : ∀ p e en, atCleanup p e t.pc = true → s.entries[e]? = some en → en.refCount = 0 →
            lookup s.map p = some e → False) :
    Inv (setThread s tid t') := by
  refine ⟨h.fx, h.mp, ?_, ?_, ?_⟩
  · refine stakeOk_set tid t' h.sk ?_
    intro p e hs
    rcases h4 with h4 | h4
    · rw [h4] at hs; cases hs
    · rw [h4] at hs; exact h.sk t (List.mem_of_getElem? ht) p e hs
  · intro e en he
    refine entOk_set t' ht (h.en e en he) ?_ ?_ ?_ (h.en e en he).ex
    · rw [h1]
    · rw [h2]
    · rw [h3]
  · intro p e en hm he hz
    have old := h.zc p e en hm he hz
    cases hc : atCleanup p e t.pc with
    | false => exact Nat.lt_of_lt_of_le old (countP_set_le _ t' ht hc)
    | true => exact (h5 p e en hc he hz (lookup_of_mem h.mp.1 hm)).elim

theorem zcOk_modify_set {m : List (Nat × Nat)} {ents : List Entry} {ths : List Thread}
    {tid : Nat} {t : Thread} (t' : Thread) {e : Nat} {f : Entry → Entry}
    (h : ZcOk m ents ths) (ht : ths[tid]? = some t)
    (hc : ∀ p0 e0, atCleanup p0 e0 t.pc = false)
    (hf : ∀ en, ents[e]? = some en → (f en).refCount = 0 → en.refCount = 0) :
    ZcOk m (ents.modify e f) (ths.set tid t') := by
  intro p0 e0 en' hm he hz
  obtain ⟨en, hq, rfl⟩ := getElem?_modify_some he
  have hz' : en.refCount = 0 := by
    by_cases hee : e = e0
    · rw [if_pos hee] at hz; subst hee; exact hf en hq hz
    · rw [if_neg hee] at hz; exact hz
  exact Nat.lt_of_lt_of_le (h p0 e0 en hm hq hz') (countP_set_le _ t' ht (hc p0 e0))

theorem inv_gocHit {s : State} (h : Inv s) {tid : Nat} {t : Thread} (t' : Thread) {p e : Nat}
    {w : Bool} (ht : s.threads[tid]? = some t) (hpc : t.pc = .getOrCreate p w)
    (hpc' : t'.pc = .acquire p e w) (hl : lookup s.map p = some e) :
    Inv (setThread (modEntry s e (fun x => { x with refCount := x.refCount + 1 })) tid t') := by
  refine ⟨h.fx, ?_, ?_, ?_, ?_⟩
  · simpa [setThread, modEntry] using h.mp
  · refine stakeOk_set tid t' h.sk ?_
    intro p0 e0 hs
    simp only [hpc', stakeOf_acquire, Option.some.injEq, Prod.mk.injEq] at hs
    rw [← hs.1, ← hs.2]; exact hl
  · intro e0 en0' h0
    obtain ⟨en0, hq, rfl⟩ := getElem?_modify_some h0
    have old := h.en e0 en0 hq
    by_cases hee : e = e0
    · subst hee
      refine entOk_set t' ht old ?_ ?_ ?_ ?_ <;> simp [hpc, hpc']
      exact old.ex
    · refine entOk_set t' ht old ?_ ?_ ?_ ?_ <;> simp [hpc, hpc', hee]
      exact old.ex
  · refine zcOk_modify_set t' h.zc ht ?_ ?_
    · intro p0 e0; simp [hpc]
    · intro en _ hz; simp at hz

theorem held_imp_stake {e : Nat} {pc : Pc} (h : heldW e pc = true ∨ heldR e pc = true) :
    stakeIn e pc = true := by
  cases pc <;> simp_all
  rcases h with h | h <;> exact h.2

/-- an entry id that does not exist yet has no stake holders -/
theorem entOk_fresh {s : State} (h : Inv s) {e : Nat} (he : s.entries.length ≤ e) :
    EntOk s.threads e { refCount := 0, readers := 0, writer := false } := by
  have hz : s.threads.countP (fun t => stakeIn e t.pc) = 0 := by
    rw [List.countP_eq_zero]
    intro t ht hs
    cases hpc : stakeOf t.pc with
    | none => cases hq : t.pc <;> simp_all
    | some pe =>
      obtain ⟨p0, e0⟩ := pe
      have h1 := h.sk t ht p0 e0 hpc
      have h2 := h.mp.2 _ (mem_of_lookup h1)
      have h3 := stakeIn_of_stakeOf hpc
      cases hq : t.pc <;> simp_all <;> omega
  refine ⟨hz.symm, ?_, ?_, by simp⟩
  · simp only [Bool.false_eq_true, if_false]
    rw [List.countP_eq_zero]
    intro t ht hs
    exact (List.countP_eq_zero.mp hz) t ht (held_imp_stake (Or.inl hs))
  · rw [List.countP_eq_zero]
    intro t ht hs
    exact (List.countP_eq_zero.mp hz) t ht (held_imp_stake (Or.inr hs))

theorem inv_gocMiss {s : State} (h : Inv s) {tid : Nat} {t : Thread} (t' : Thread) {p : Nat}
    {w : Bool} (ht : s.threads[tid]? = some t) (hpc : t.pc = .getOrCreate p w)
    (hpc' : t'.pc = .acquire p s.entries.length w) (hl : lookup s.map p = none) :
    Inv (setThread { s with entries := s.entries ++ [{ refCount := 1, readers := 0, writer := false }],
                            map := (p, s.entries.length) :: s.map } tid t') := by
  refine ⟨h.fx, ⟨?_, ?_⟩, ?_, ?_, ?_⟩
  · refine List.pairwise_cons.mpr ⟨?_, h.mp.1⟩
    intro a ha
    obtain ⟨q, e'⟩ := a
    refine ⟨?_, ?_⟩
    · intro hq
      simp only at hq
      subst hq
      rw [lookup_of_mem h.mp.1 ha] at hl
      cases hl
    · have := h.mp.2 _ ha
      simp only at this ⊢
      omega
  · intro x hx
    simp only [setThread, List.length_append, List.length_cons, List.length_nil]
    rcases List.mem_cons.mp hx with hx | hx
    · subst hx; simp
    · have := h.mp.2 _ hx; omega
  · have hmono : StakeOk ((p, s.entries.length) :: s.map) s.threads := by
      intro t0 ht0 p0 e0 hs
      have := h.sk t0 ht0 p0 e0 hs
      rw [lookup_cons]
      by_cases hq : p = p0
      · subst hq; rw [hl] at this; cases this
      · rw [if_neg hq]; exact this
    refine stakeOk_set tid t' hmono ?_
    intro p0 e0 hs
    simp only [hpc', stakeOf_acquire, Option.some.injEq, Prod.mk.injEq] at hs
    show lookup ((p, s.entries.length) :: s.map) p0 = some e0
    rw [lookup_cons, ← hs.1, ← hs.2, if_pos rfl]
  · intro e0 en0' h0
    simp only [setThread] at h0 ⊢
    rw [List.getElem?_append] at h0
    by_cases hlt : e0 < s.entries.length
    · rw [if_pos hlt] at h0
      have old := h.en e0 en0' h0
      have hne : ¬ s.entries.length = e0 := by omega
      refine entOk_set t' ht old ?_ ?_ ?_ old.ex <;> simp [hpc, hpc', hne]
    · rw [if_neg hlt] at h0
      have hz : e0 - s.entries.length = 0 := by
        cases hd : e0 - s.entries.length with
        | zero => rfl
        | succ k => rw [hd] at h0; simp at h0
      rw [hz] at h0
      simp only [List.getElem?_cons_zero, Option.some.injEq] at h0
      subst h0
      have he0 : s.entries.length = e0 := by omega
      have old := entOk_fresh h (Nat.le_of_eq he0)
      refine entOk_set t' ht old ?_ ?_ ?_ ?_ <;> simp [hpc, hpc', he0]
  · intro p0 e0 en' hm he hz
    simp only [setThread] at hm he ⊢
    rcases List.mem_cons.mp hm with hm | hm
    · simp only [Prod.mk.injEq] at hm
      rw [hm.2] at he
      simp at he
      subst he
      simp at hz
    · have hlt := h.mp.2 _ hm
      simp only at hlt
      rw [List.getElem?_append, if_pos hlt] at he
      refine Nat.lt_of_lt_of_le (h.zc p0 e0 en' hm he hz) (countP_set_le _ t' ht ?_)
      simp [hpc]

theorem inv_grantW {s : State} (h : Inv s) {tid : Nat} {t : Thread} (t' : Thread) {p e : Nat}
    {en : Entry} (ht : s.threads[tid]? = some t)
    (hpc : t.pc = .acquire p e true ∨ t.pc = .waiting p e true)
    (hpc' : t'.pc = .held p e true) (he : s.entries[e]? = some en)
    (hr : en.readers = 0) (hw : en.writer = false) :
    Inv (setThread (modEntry s e (fun x => { x with writer := true })) tid t') := by
  refine ⟨h.fx, ?_, ?_, ?_, ?_⟩
  · simpa [setThread, modEntry] using h.mp
  · refine stakeOk_set tid t' h.sk ?_
    intro p0 e0 hs
    refine h.sk t (List.mem_of_getElem? ht) p0 e0 ?_
    rcases hpc with hpc | hpc <;> simpa [hpc, hpc'] using hs
  · intro e0 en0' h0
    obtain ⟨en0, hq, rfl⟩ := getElem?_modify_some h0
    have old := h.en e0 en0 hq
    by_cases hee : e = e0
    · subst hee
      rw [he] at hq
      cases hq
      rcases hpc with hpc | hpc <;>
        (refine entOk_set t' ht old ?_ ?_ ?_ ?_ <;> simp [hpc, hpc', hw, hr])
    · rcases hpc with hpc | hpc <;>
        (refine entOk_set t' ht old ?_ ?_ ?_ ?_ <;> simp [hpc, hpc', hee]) <;> exact old.ex
  · refine zcOk_modify_set t' h.zc ht ?_ ?_
    · intro p0 e0; rcases hpc with hpc | hpc <;> simp [hpc]
    · intro en _ hz; exact hz

theorem inv_grantR {s : State} (h : Inv s) {tid : Nat} {t : Thread} (t' : Thread) {p e : Nat}
    {en : Entry} (ht : s.threads[tid]? = some t)
    (hpc : t.pc = .acquire p e false ∨ t.pc = .waiting p e false)
    (hpc' : t'.pc = .held p e false) (he : s.entries[e]? = some en)
    (hw : en.writer = false) :
    Inv (setThread (modEntry s e (fun x => { x with readers := x.readers + 1 })) tid t') := by
  refine ⟨h.fx, ?_, ?_, ?_, ?_⟩
  · simpa [setThread, modEntry] using h.mp
  · refine stakeOk_set tid t' h.sk ?_
    intro p0 e0 hs
    refine h.sk t (List.mem_of_getElem? ht) p0 e0 ?_
    rcases hpc with hpc | hpc <;> simpa [hpc, hpc'] using hs
  · intro e0 en0' h0
    obtain ⟨en0, hq, rfl⟩ := getElem?_modify_some h0
    have old := h.en e0 en0 hq
    by_cases hee : e = e0
    · subst hee
      rw [he] at hq
      cases hq
      rcases hpc with hpc | hpc <;>
        (refine entOk_set t' ht old ?_ ?_ ?_ ?_ <;> simp [hpc, hpc', hw])
    · rcases hpc with hpc | hpc <;>
        (refine entOk_set t' ht old ?_ ?_ ?_ ?_ <;> simp [hpc, hpc', hee]) <;> exact old.ex
  · refine zcOk_modify_set t' h.zc ht ?_ ?_
    · intro p0 e0; rcases hpc with hpc | hpc <;> simp [hpc]
    · intro en _ hz; exact hz

theorem inv_unlock {s : State} (h : Inv s) {tid : Nat} {t : Thread} (t' : Thread) {p e : Nat}
    {w : Bool} (ht : s.threads[tid]? = some t) (hpc : t.pc = .held p e w)
    (hpc' : t'.pc = .release p e) :
    Inv (setThread (modEntry s e (fun x => if w then { x with writer := false }
                                           else { x with readers := x.readers - 1 })) tid t') := by
  refine ⟨h.fx, ?_, ?_, ?_, ?_⟩
  · simpa [setThread, modEntry] using h.mp
  · refine stakeOk_set tid t' h.sk ?_
    intro p0 e0 hs
    refine h.sk t (List.mem_of_getElem? ht) p0 e0 ?_
    simpa [hpc, hpc'] using hs
  · intro e0 en0' h0
    obtain ⟨en0, hq, rfl⟩ := getElem?_modify_some h0
    have old := h.en e0 en0 hq
    by_cases hee : e = e0
    · subst hee
      cases w with
      | true =>
        have hw := old.writer_of_heldW ht (by simp [hpc])
        refine entOk_set t' ht old ?_ ?_ ?_ ?_ <;> simp [hpc, hpc', hw]
      | false =>
        have hr := old.readers_pos ht (by simp [hpc])
        have hx := old.ex
        refine entOk_set t' ht old ?_ ?_ ?_ ?_ <;> simp [hpc, hpc']
        · omega
        · intro hw; have := hx hw; omega
    · refine entOk_set t' ht old ?_ ?_ ?_ ?_ <;> simp [hpc, hpc', hee]
      exact old.ex
  · refine zcOk_modify_set t' h.zc ht ?_ ?_
    · intro p0 e0; simp [hpc]
    · intro en _ hz; cases w <;> simpa using hz

theorem inv_release {s : State} (h : Inv s) {tid : Nat} {t : Thread} (t' : Thread) {p e : Nat}
    {en : Entry} (ht : s.threads[tid]? = some t) (hpc : t.pc = .release p e)
    (he : s.entries[e]? = some en)
    (hpc' : (en.refCount = 1 ∧ t'.pc = .cleanup p e) ∨ (en.refCount ≠ 1 ∧ t'.pc = .idle)) :
    Inv (setThread (modEntry s e (fun x => { x with refCount := x.refCount - 1 })) tid t') := by
  have hst : ∀ e0, stakeIn e0 t'.pc = false := by
    intro e0; rcases hpc' with ⟨_, hp⟩ | ⟨_, hp⟩ <;> simp [hp]
  have hhw : ∀ e0, heldW e0 t'.pc = false := by
    intro e0; rcases hpc' with ⟨_, hp⟩ | ⟨_, hp⟩ <;> simp [hp]
  have hhr : ∀ e0, heldR e0 t'.pc = false := by
    intro e0; rcases hpc' with ⟨_, hp⟩ | ⟨_, hp⟩ <;> simp [hp]
  have hso : stakeOf t'.pc = none := by
    rcases hpc' with ⟨_, hp⟩ | ⟨_, hp⟩ <;> simp [hp]
  refine ⟨h.fx, ?_, ?_, ?_, ?_⟩
  · simpa [setThread, modEntry] using h.mp
  · refine stakeOk_set tid t' h.sk ?_
    intro p0 e0 hs
    rw [hso] at hs; cases hs
  · intro e0 en0' h0
    obtain ⟨en0, hq, rfl⟩ := getElem?_modify_some h0
    have old := h.en e0 en0 hq
    by_cases hee : e = e0
    · subst hee
      have hr := old.rc_pos ht (by simp [hpc])
      refine entOk_set t' ht old ?_ ?_ ?_ ?_ <;> simp [hpc, hst, hhw, hhr]
      · omega
      · exact old.ex
    · refine entOk_set t' ht old ?_ ?_ ?_ ?_ <;> simp [hpc, hst, hhw, hhr, hee]
      exact old.ex
  · intro p0 e0 en' hm he' hz
    simp only [setThread, modEntry] at hm he' ⊢
    obtain ⟨en0, hq, rfl⟩ := getElem?_modify_some he'
    by_cases hee : e = e0
    · subst hee
      rw [he] at hq
      cases hq
      rw [if_pos rfl] at hz
      simp only at hz
      have hr := (h.en e en he).rc_pos ht (by simp [hpc])
      have h1 : en.refCount = 1 := by omega
      have hp : t'.pc = .cleanup p e := by
        rcases hpc' with ⟨_, hp⟩ | ⟨hn, _⟩
        · exact hp
        · exact absurd h1 hn
      have hmem : (p, e) ∈ s.map :=
        mem_of_lookup (h.sk t (List.mem_of_getElem? ht) p e (by simp [hpc]))
      have hpp : p0 = p := key_eq_of_mem h.mp.1 hm hmem
      subst hpp
      have hlt : tid < s.threads.length := by
        rcases Nat.lt_or_ge tid s.threads.length with hl | hl
        · exact hl
        · rw [List.getElem?_eq_none hl] at ht; cases ht
      refine countP_pos_of_getElem? (tid := tid) (t := t') _ ?_ ?_
      · rw [List.getElem?_set_self hlt]
      · simp [hp]
    · rw [if_neg hee] at hz
      refine Nat.lt_of_lt_of_le (h.zc p0 e0 en0 hm hq hz) (countP_set_le _ t' ht ?_)
      simp [hpc]

theorem inv_cleanupRemove {s : State} (h : Inv s) {tid : Nat} {t : Thread} (t' : Thread)
    {p e : Nat} {en : Entry} (ht : s.threads[tid]? = some t) (hpc : t.pc = .cleanup p e)
    (hpc' : t'.pc = .idle) (he : s.entries[e]? = some en) (hz : en.refCount = 0)
    (hl : lookup s.map p = some e) :
    Inv (setThread { s with map := s.map.filter (fun x => x.1 != p) } tid t') := by
  refine ⟨h.fx, ⟨?_, ?_⟩, ?_, ?_, ?_⟩
  · exact List.Pairwise.filter _ h.mp.1
  · intro x hx
    exact h.mp.2 x (List.mem_filter.mp hx).1
  · intro t0 ht0 p0 e0 hs
    simp only [setThread] at ht0 ⊢
    rcases List.mem_or_eq_of_mem_set ht0 with ht0 | ht0
    · have hl0 := h.sk t0 ht0 p0 e0 hs
      by_cases hpp : p0 = p
      · subst hpp
        rw [hl] at hl0
        cases hl0
        have hc := (h.en e en he).rc
        rw [hz] at hc
        have := (List.countP_eq_zero.mp hc.symm) t0 ht0
        exact absurd (stakeIn_of_stakeOf hs) this
      · rw [lookup_filter_ne _ _ _ hpp]; exact hl0
    · subst ht0; rw [hpc'] at hs; cases hs
  · intro e0 en0 h0
    have old := h.en e0 en0 h0
    refine entOk_set t' ht old ?_ ?_ ?_ old.ex <;> simp [hpc, hpc']
  · intro p0 e0 en0 hm he0 hz0
    simp only [setThread] at hm he0 ⊢
    have hm' := List.mem_filter.mp hm
    have hne : p0 ≠ p := by simpa using hm'.2
    refine Nat.lt_of_lt_of_le (h.zc p0 e0 en0 hm'.1 he0 hz0) (countP_set_le _ t' ht ?_)
    simp [hpc, Ne.symm hne]

theorem inv_step {s s' : State} {tid : Nat} (h : Inv s) (hs : step s tid = some s') : Inv s' := by
  unfold step at hs
  split at hs
  · cases hs
  · rename_i t ht
    split at hs
    · -- idle
      rename_i hpc
      split at hs
      · cases hs
      · injection hs with hs; subst hs
        exact inv_pcOnly h _ ht (by simp [hpc]) (by simp [hpc]) (by simp [hpc]) (by simp)
          (by simp [hpc])
      · injection hs with hs; subst hs
        exact inv_pcOnly h _ ht (by simp [hpc]) (by simp [hpc]) (by simp [hpc]) (by simp)
          (by simp [hpc])
    · -- getOrCreate
      rename_i p w hpc
      split at hs
      · rename_i e hl
        injection hs with hs; subst hs
        exact inv_gocHit h _ ht hpc rfl hl
      · rename_i hl
        injection hs with hs; subst hs
        exact inv_gocMiss h _ ht hpc rfl hl
    · -- acquire
      rename_i p e w hpc
      split at hs
      · cases hs
      · rename_i en he
        dsimp only at hs
        split at hs
        · rename_i hw
          subst hw
          split at hs
          · rename_i hc
            injection hs with hs; subst hs
            exact inv_grantW h _ ht (Or.inl hpc) rfl he hc.1 hc.2
          · injection hs with hs; subst hs
            exact inv_pcOnly h _ ht (by simp [hpc]) (by simp [hpc]) (by simp [hpc])
              (by simp [hpc]) (by simp [hpc])
        · rename_i hw
          have hw : w = false := by simpa using hw
          subst hw
          split at hs
          · rename_i hc
            injection hs with hs; subst hs
            exact inv_grantR h _ ht (Or.inl hpc) rfl he hc.1
          · injection hs with hs; subst hs
            exact inv_pcOnly h _ ht (by simp [hpc]) (by simp [hpc]) (by simp [hpc])
              (by simp [hpc]) (by simp [hpc])
    · -- waiting
      rename_i p e w hpc
      split at hs
      · cases hs
      · rename_i en he
        split at hs
        · rename_i hw
          subst hw
          split at hs
          · rename_i hc
            injection hs with hs; subst hs
            exact inv_grantW h _ ht (Or.inr hpc) rfl he hc.1 hc.2
          · cases hs
        · rename_i hw
          have hw : w = false := by simpa using hw
          subst hw
          split at hs
          · rename_i hc
            injection hs with hs; subst hs
            exact inv_grantR h _ ht (Or.inr hpc) rfl he hc
          · cases hs
    · -- held
      rename_i p e w hpc
      injection hs with hs; subst hs
      exact inv_unlock h _ ht hpc rfl
    · -- release
      rename_i p e hpc
      split at hs
      · cases hs
      · rename_i en he
        dsimp only at hs
        split at hs
        · rename_i h1
          injection hs with hs; subst hs
          exact inv_release h _ ht hpc he (Or.inl ⟨h1, rfl⟩)
        · rename_i h1
          injection hs with hs; subst hs
          exact inv_release h _ ht hpc he (Or.inr ⟨h1, rfl⟩)
    · -- cleanup
      rename_i p e hpc
      split at hs
      · cases hs
      · rename_i en he
        dsimp only at hs
        have e1 : (if s.fixed = true then lookup s.map p = some e else True) =
            (lookup s.map p = some e) := by rw [h.fx]; simp
        simp only [e1] at hs
        split at hs
        · rename_i hc
          injection hs with hs; subst hs
          exact inv_cleanupRemove h _ ht hpc rfl he hc.1 (by simpa using hc.2)
        · rename_i hc
          injection hs with hs; subst hs
          refine inv_pcOnly h _ ht (by simp [hpc]) (by simp [hpc]) (by simp [hpc]) (by simp) ?_
          intro p0 e0 en0 hat he0 hz hl
          simp only [hpc, atCleanup_cleanup, Bool.and_eq_true, beq_iff_eq] at hat
          obtain ⟨rfl, rfl⟩ := hat
          rw [he] at he0; cases he0
          exact hc ⟨hz, by simpa using hl⟩

theorem inv_init (progs : List (List Op)) : Inv (init true progs) := by
  refine ⟨rfl, ⟨List.Pairwise.nil, by intro x hx; cases hx⟩, ?_, ?_, ?_⟩
  · intro t ht p e hs
    simp only [init, List.mem_map] at ht
    obtain ⟨pr, _, rfl⟩ := ht
    simp at hs
  · intro e en he
    simp [init] at he
  · intro p e en hm
    simp [init] at hm

theorem inv_run {s : State} (h : Inv s) (sched : List Nat) : Inv (run s sched) := by
  induction sched generalizing s with
  | nil => exact h
  | cons tid rest ih =>
    simp only [run]
    cases hs : step s tid with
    | none => simpa using ih h
    | some s' => exact ih (inv_step h hs)

/-- every reachable state of the repaired model satisfies the invariant -/
theorem inv_reachable (progs : List (List Op)) (sched : List Nat) :
    Inv (run (init true progs) sched) := inv_run (inv_init progs) sched

/-! ### consequences of the invariant -/

theorem writersOf_eq_countP (s : State) (page : Nat) :
    writersOf s page =
      s.threads.countP (fun t => match t.pc with | .held p _ true => p == page | _ => false) := by
  unfold writersOf; rw [List.countP_eq_length_filter]; rfl

theorem readersOf_eq_countP (s : State) (page : Nat) :
    readersOf s page =
      s.threads.countP (fun t => match t.pc with | .held p _ false => p == page | _ => false) := by
  unfold readersOf; rw [List.countP_eq_length_filter]; rfl

/-- per-entry mutual exclusion: at most one write holder, and none together with read holders -/
theorem entry_mutex_of_inv {s : State} (h : Inv s) {e : Nat} {en : Entry}
    (he : s.entries[e]? = some en) :
    writerCount s e ≤ 1 ∧ (writerCount s e = 0 ∨ readerCount s e = 0) := by
  have o := h.en e en he
  unfold writerCount readerCount
  rw [o.wr, o.rd]
  by_cases hw : en.writer = true
  · rw [if_pos hw]; exact ⟨Nat.le_refl _, Or.inr (o.ex hw)⟩
  · rw [if_neg hw]; exact ⟨Nat.zero_le _, Or.inl rfl⟩

/-- lift from entries to pages: all holders of locks on `page` hold them through the entry the map
currently points at -/
theorem pageSafe_of_inv {s : State} (h : Inv s) (page : Nat) : pageSafe s page = true := by
  have key : ∀ t ∈ s.threads, ∀ p e w, t.pc = .held p e w → p = page →
      lookup s.map page = some e := by
    intro t ht p e w hpc hp
    subst hp
    exact h.sk t ht p e (by simp [hpc])
  cases hl : lookup s.map page with
  | none =>
    have hw : writersOf s page = 0 := by
      rw [writersOf_eq_countP, List.countP_eq_zero]
      intro t ht hf
      cases hpc : t.pc <;> simp only [hpc] at hf <;> try cases hf
      rename_i p e w
      cases w <;> simp only at hf <;> try cases hf
      have := key t ht p e true hpc (by simpa using hf)
      rw [hl] at this; cases this
    have hr : readersOf s page = 0 := by
      rw [readersOf_eq_countP, List.countP_eq_zero]
      intro t ht hf
      cases hpc : t.pc <;> simp only [hpc] at hf <;> try cases hf
      rename_i p e w
      cases w <;> simp only at hf <;> try cases hf
      have := key t ht p e false hpc (by simpa using hf)
      rw [hl] at this; cases this
    simp [pageSafe, hw, hr]
  | some e =>
    have hlt := h.mp.2 _ (mem_of_lookup hl)
    have he : s.entries[e]? = some s.entries[e] := List.getElem?_eq_getElem hlt
    have hm := entry_mutex_of_inv h he
    have hw : writersOf s page ≤ writerCount s e := by
      rw [writersOf_eq_countP]
      refine List.countP_mono_left ?_
      intro t ht hf
      cases hpc : t.pc <;> simp only [hpc] at hf <;> try cases hf
      rename_i p e' w
      cases w <;> simp only at hf <;> try cases hf
      have := key t ht p e' true hpc (by simpa using hf)
      rw [hl] at this
      simp only [Option.some.injEq] at this
      simp [this]
    have hr : readersOf s page ≤ readerCount s e := by
      rw [readersOf_eq_countP]
      refine List.countP_mono_left ?_
      intro t ht hf
      cases hpc : t.pc <;> simp only [hpc] at hf <;> try cases hf
      rename_i p e' w
      cases w <;> simp only at hf <;> try cases hf
      have := key t ht p e' false hpc (by simpa using hf)
      rw [hl] at this
      simp only [Option.some.injEq] at this
      simp [this]
    have h1 : writersOf s page ≤ 1 := by omega
    have h2 : writersOf s page = 0 ∨ readersOf s page = 0 := by omega
    simp only [pageSafe, Bool.and_eq_true, decide_eq_true_eq, Bool.or_eq_true, beq_iff_eq]
    exact ⟨h1, h2⟩

end TurVerif.PageLocks
