import TurVerif.Model.PageLocks
/-!
Helper definitions and lemmas for C36 (page locks): the inductive invariant of the repaired
(`fixed = true`) page-lock LTS and its preservation by every step.

Invariant `Inv s` (for every entry id `e`, page `p`):
  (I0) `s.fixed = true`
  (I4) `MapOk`   : map keys pairwise distinct, map values pairwise distinct, every map value is a
                   valid entry id (`< s.entries.length`)
  (I2) `StakeOk` : every thread with a stake in entry `e` for page `p` (pc ∈ acquire / waiting /
                   held / release on `(p, e)`) has `lookup s.map p = some e`
                   (hence (I5): an entry that is not in the map has no stake holders)
  (I1) `EntOk.rc`: `entries[e].refCount` = number of threads with a stake in `e`
  (I3) `EntOk.wr`: number of threads in `held _ e true` = if `entries[e].writer` then 1 else 0
       `EntOk.rd`: number of threads in `held _ e false` = `entries[e].readers`
       `EntOk.ex`: `entries[e].writer = true → entries[e].readers = 0`
  (I6) `ZcOk`    : a mapped entry `(p, e)` whose refCount is 0 has a thread at `cleanup p e`
                   (the thread that saw `release()` return true and has not yet locked the map)
-/
namespace TurVerif.PageLocks

/-! ### classification of program counters -/

/-- the thread holds a counted reference (a "stake") on entry `e` -/
def stakeIn (e : Nat) : Pc → Bool
  | .acquire _ e' _ => e' == e
  | .waiting _ e' _ => e' == e
  | .held _ e' _ => e' == e
  | .release _ e' => e' == e
  | _ => false

/-- `(page, entry)` the thread has a stake in -/
def stakeOf : Pc → Option (Nat × Nat)
  | .acquire p e _ => some (p, e)
  | .waiting p e _ => some (p, e)
  | .held p e _ => some (p, e)
  | .release p e => some (p, e)
  | _ => none

def heldW (e : Nat) : Pc → Bool
  | .held _ e' true => e' == e
  | _ => false

def heldR (e : Nat) : Pc → Bool
  | .held _ e' false => e' == e
  | _ => false

def atCleanup (p e : Nat) : Pc → Bool
  | .cleanup p' e' => p' == p && e' == e
  | _ => false

/-- number of threads with a stake in entry `e` -/
def stakeCount (s : State) (e : Nat) : Nat := s.threads.countP (fun t => stakeIn e t.pc)
/-- number of threads holding entry `e`'s lock for writing / reading -/
def writerCount (s : State) (e : Nat) : Nat := s.threads.countP (fun t => heldW e t.pc)
def readerCount (s : State) (e : Nat) : Nat := s.threads.countP (fun t => heldR e t.pc)

/-! ### list lemmas -/

theorem countP_set' {α : Type} (f : α → Bool) {l : List α} {i : Nat} {old new : α}
    (h : l[i]? = some old) :
    (l.set i new).countP f + (if f old then 1 else 0) = l.countP f + (if f new then 1 else 0) := by
  induction l generalizing i with
  | nil => simp at h
  | cons x l ih =>
    cases i with
    | zero =>
      simp only [List.getElem?_cons_zero, Option.some.injEq] at h
      subst h
      simp only [List.set_cons_zero, List.countP_cons]
      omega
    | succ i =>
      simp only [List.getElem?_cons_succ] at h
      have := ih h
      simp only [List.set_cons_succ, List.countP_cons]
      omega

theorem mem_of_getElem? {α : Type} {l : List α} {i : Nat} {a : α} (h : l[i]? = some a) : a ∈ l :=
  List.mem_of_getElem? h

theorem lookup_nil (p : Nat) : lookup [] p = none := rfl

theorem lookup_cons (q e : Nat) (m : List (Nat × Nat)) (p : Nat) :
    lookup ((q, e) :: m) p = if q = p then some e else lookup m p := by
  unfold lookup
  simp only [List.find?_cons]
  by_cases h : q = p
  · simp [h]
  · have : (q == p) = false := by simp [h]
    simp [h, this]

theorem mem_of_lookup {m : List (Nat × Nat)} {p e : Nat} (h : lookup m p = some e) :
    (p, e) ∈ m := by
  induction m with
  | nil => simp [lookup_nil] at h
  | cons x m ih =>
    obtain ⟨q, e'⟩ := x
    rw [lookup_cons] at h
    by_cases hq : q = p
    · rw [if_pos hq] at h
      simp only [Option.some.injEq] at h
      subst hq; subst h
      exact List.mem_cons_self
    · rw [if_neg hq] at h
      exact List.mem_cons_of_mem _ (ih h)

/-- keys pairwise distinct and values pairwise distinct -/
def Distinct (m : List (Nat × Nat)) : Prop := m.Pairwise (fun a b => a.1 ≠ b.1 ∧ a.2 ≠ b.2)

theorem lookup_of_mem {m : List (Nat × Nat)} {p e : Nat} (hd : Distinct m) (h : (p, e) ∈ m) :
    lookup m p = some e := by
  induction m with
  | nil => simp at h
  | cons x m ih =>
    obtain ⟨q, e'⟩ := x
    rw [lookup_cons]
    have hd' := List.pairwise_cons.mp hd
    rcases List.mem_cons.mp h with h | h
    · simp only [Prod.mk.injEq] at h
      rw [if_pos h.1.symm, h.2]
    · have := (hd'.1 _ h).1
      simp only at this
      rw [if_neg this]
      exact ih hd'.2 h

theorem key_eq_of_mem {m : List (Nat × Nat)} {p p' e : Nat} (hd : Distinct m)
    (h : (p, e) ∈ m) (h' : (p', e) ∈ m) : p = p' := by
  induction m with
  | nil => simp at h
  | cons x m ih =>
    have hd' := List.pairwise_cons.mp hd
    rcases List.mem_cons.mp h with h | h <;> rcases List.mem_cons.mp h' with h' | h'
    · rw [← h'] at h
      simp only [Prod.mk.injEq] at h
      exact h.1
    · have := (hd'.1 _ h').2
      rw [← h] at this
      exact absurd rfl this
    · have := (hd'.1 _ h).2
      rw [← h'] at this
      exact absurd rfl this
    · exact ih hd'.2 h h'

theorem lookup_filter_ne (m : List (Nat × Nat)) (p q : Nat) (h : q ≠ p) :
    lookup (m.filter (fun x => x.1 != p)) q = lookup m q := by
  induction m with
  | nil => rfl
  | cons x m ih =>
    obtain ⟨k, e⟩ := x
    by_cases hk : k = p
    · subst hk
      have : ((fun x : Nat × Nat => x.1 != k) (k, e)) = false := by simp
      rw [List.filter_cons_of_neg (by simp), lookup_cons, if_neg (Ne.symm h), ih]
    · rw [List.filter_cons_of_pos (by simp [hk]), lookup_cons, lookup_cons, ih]

theorem lookup_filter_self (m : List (Nat × Nat)) (p : Nat) :
    lookup (m.filter (fun x => x.1 != p)) p = none := by
  induction m with
  | nil => rfl
  | cons x m ih =>
    obtain ⟨k, e⟩ := x
    by_cases hk : k = p
    · subst hk
      rw [List.filter_cons_of_neg (by simp), ih]
    · rw [List.filter_cons_of_pos (by simp [hk]), lookup_cons, if_neg hk, ih]

/-! ### evaluation of the classifiers on each constructor -/

@[simp] theorem stakeIn_idle (e : Nat) : stakeIn e .idle = false := rfl
@[simp] theorem stakeIn_goc (e : Nat) (p : Nat) (w : Bool) : stakeIn e (.getOrCreate p w) = false := rfl
@[simp] theorem stakeIn_acquire (e : Nat) (p e' : Nat) (w : Bool) : stakeIn e (.acquire p e' w) = (e' == e) := rfl
@[simp] theorem stakeIn_waiting (e : Nat) (p e' : Nat) (w : Bool) : stakeIn e (.waiting p e' w) = (e' == e) := rfl
@[simp] theorem stakeIn_held (e : Nat) (p e' : Nat) (w : Bool) : stakeIn e (.held p e' w) = (e' == e) := rfl
@[simp] theorem stakeIn_release (e : Nat) (p e' : Nat) : stakeIn e (.release p e') = (e' == e) := rfl
@[simp] theorem stakeIn_cleanup (e : Nat) (p e' : Nat) : stakeIn e (.cleanup p e') = false := rfl

@[simp] theorem stakeOf_idle  : stakeOf .idle = none := rfl
@[simp] theorem stakeOf_goc  (p : Nat) (w : Bool) : stakeOf (.getOrCreate p w) = none := rfl
@[simp] theorem stakeOf_acquire  (p e' : Nat) (w : Bool) : stakeOf (.acquire p e' w) = some (p, e') := rfl
@[simp] theorem stakeOf_waiting  (p e' : Nat) (w : Bool) : stakeOf (.waiting p e' w) = some (p, e') := rfl
@[simp] theorem stakeOf_held  (p e' : Nat) (w : Bool) : stakeOf (.held p e' w) = some (p, e') := rfl
@[simp] theorem stakeOf_release  (p e' : Nat) : stakeOf (.release p e') = some (p, e') := rfl
@[simp] theorem stakeOf_cleanup  (p e' : Nat) : stakeOf (.cleanup p e') = none := rfl

@[simp] theorem heldW_idle (e : Nat) : heldW e .idle = false := rfl
@[simp] theorem heldW_goc (e : Nat) (p : Nat) (w : Bool) : heldW e (.getOrCreate p w) = false := rfl
@[simp] theorem heldW_acquire (e : Nat) (p e' : Nat) (w : Bool) : heldW e (.acquire p e' w) = false := rfl
@[simp] theorem heldW_waiting (e : Nat) (p e' : Nat) (w : Bool) : heldW e (.waiting p e' w) = false := rfl
@[simp] theorem heldW_held (e : Nat) (p e' : Nat) (w : Bool) : heldW e (.held p e' w) = (w && e' == e) := by cases w <;> simp [heldW]
@[simp] theorem heldW_release (e : Nat) (p e' : Nat) : heldW e (.release p e') = false := rfl
@[simp] theorem heldW_cleanup (e : Nat) (p e' : Nat) : heldW e (.cleanup p e') = false := rfl

@[simp] theorem heldR_idle (e : Nat) : heldR e .idle = false := rfl
@[simp] theorem heldR_goc (e : Nat) (p : Nat) (w : Bool) : heldR e (.getOrCreate p w) = false := rfl
@[simp] theorem heldR_acquire (e : Nat) (p e' : Nat) (w : Bool) : heldR e (.acquire p e' w) = false := rfl
@[simp] theorem heldR_waiting (e : Nat) (p e' : Nat) (w : Bool) : heldR e (.waiting p e' w) = false := rfl
@[simp] theorem heldR_held (e : Nat) (p e' : Nat) (w : Bool) : heldR e (.held p e' w) = (!w && e' == e) := by cases w <;> simp [heldR]
@[simp] theorem heldR_release (e : Nat) (p e' : Nat) : heldR e (.release p e') = false := rfl
@[simp] theorem heldR_cleanup (e : Nat) (p e' : Nat) : heldR e (.cleanup p e') = false := rfl

@[simp] theorem atCleanup_idle (q e : Nat) : atCleanup q e .idle = false := rfl
@[simp] theorem atCleanup_goc (q e : Nat) (p : Nat) (w : Bool) : atCleanup q e (.getOrCreate p w) = false := rfl
@[simp] theorem atCleanup_acquire (q e : Nat) (p e' : Nat) (w : Bool) : atCleanup q e (.acquire p e' w) = false := rfl
@[simp] theorem atCleanup_waiting (q e : Nat) (p e' : Nat) (w : Bool) : atCleanup q e (.waiting p e' w) = false := rfl
@[simp] theorem atCleanup_held (q e : Nat) (p e' : Nat) (w : Bool) : atCleanup q e (.held p e' w) = false := rfl
@[simp] theorem atCleanup_release (q e : Nat) (p e' : Nat) : atCleanup q e (.release p e') = false := rfl
@[simp] theorem atCleanup_cleanup (q e : Nat) (p e' : Nat) : atCleanup q e (.cleanup p e') = (p == q && e' == e) := rfl

/-! ### the invariant -/

def MapOk (m : List (Nat × Nat)) (n : Nat) : Prop := Distinct m ∧ ∀ x ∈ m, x.2 < n

def StakeOk (m : List (Nat × Nat)) (ths : List Thread) : Prop :=
  ∀ t ∈ ths, ∀ p e, stakeOf t.pc = some (p, e) → lookup m p = some e

structure EntOk (ths : List Thread) (e : Nat) (en : Entry) : Prop where
  rc : en.refCount = ths.countP (fun t => stakeIn e t.pc)
  wr : ths.countP (fun t => heldW e t.pc) = if en.writer = true then 1 else 0
  rd : ths.countP (fun t => heldR e t.pc) = en.readers
  ex : en.writer = true → en.readers = 0

def EntsOk (ents : List Entry) (ths : List Thread) : Prop :=
  ∀ e en, ents[e]? = some en → EntOk ths e en

def ZcOk (m : List (Nat × Nat)) (ents : List Entry) (ths : List Thread) : Prop :=
  ∀ p e en, (p, e) ∈ m → ents[e]? = some en → en.refCount = 0 →
    0 < ths.countP (fun t => atCleanup p e t.pc)

structure Inv (s : State) : Prop where
  fx : s.fixed = true
  mp : MapOk s.map s.entries.length
  sk : StakeOk s.map s.threads
  en : EntsOk s.entries s.threads
  zc : ZcOk s.map s.entries s.threads

theorem stakeIn_of_stakeOf {pc : Pc} {p e : Nat} (h : stakeOf pc = some (p, e)) :
    stakeIn e pc = true := by
  cases pc <;> simp_all

theorem stakeOk_set {m : List (Nat × Nat)} {ths : List Thread} (tid : Nat) (t' : Thread)
    (h : StakeOk m ths) (h' : ∀ p e, stakeOf t'.pc = some (p, e) → lookup m p = some e) :
    StakeOk m (ths.set tid t') := by
  intro t ht p e hs
  rcases List.mem_or_eq_of_mem_set ht with ht | ht
  · exact h t ht p e hs
  · subst ht; exact h' p e hs

/-- the entry of a stake holder exists -/
theorem entry_of_stake {s : State} (h : Inv s) {tid : Nat} {t : Thread} {p e : Nat}
    (ht : s.threads[tid]? = some t) (hs : stakeOf t.pc = some (p, e)) :
    ∃ en, s.entries[e]? = some en := by
  have h1 := h.sk t (List.mem_of_getElem? ht) p e hs
  have h2 := h.mp.2 _ (mem_of_lookup h1)
  exact ⟨s.entries[e], List.getElem?_eq_getElem h2⟩

theorem getElem?_modify_some {ents : List Entry} {e e0 : Nat} {f : Entry → Entry} {en' : Entry}
    (h : (ents.modify e f)[e0]? = some en') :
    ∃ en, ents[e0]? = some en ∧ en' = if e = e0 then f en else en := by
  rw [List.getElem?_modify] at h
  cases hq : ents[e0]? with
  | none => simp [hq] at h
  | some en =>
    refine ⟨en, rfl, ?_⟩
    simp only [hq, Option.map_eq_map, Option.map_some, Option.some.injEq] at h
    exact h.symm

theorem countP_pos_of_getElem? {ths : List Thread} {tid : Nat} {t : Thread} (f : Thread → Bool)
    (ht : ths[tid]? = some t) (hf : f t = true) : 0 < ths.countP f :=
  List.countP_pos_iff.mpr ⟨t, List.mem_of_getElem? ht, hf⟩

theorem countP_set_le {ths : List Thread} {tid : Nat} {t : Thread} (f : Thread → Bool) (t' : Thread)
    (ht : ths[tid]? = some t) (hf : f t = false) : ths.countP f ≤ (ths.set tid t').countP f := by
  have := countP_set' f (new := t') ht
  simp only [hf, Bool.false_eq_true, if_false] at this
  split at this <;> omega

/-- transfer of the per-entry invariant along one thread update: only arithmetic on the entry's
fields and the classification of the old and new pc remains -/
theorem entOk_set {ths : List Thread} {tid : Nat} {t : Thread} (t' : Thread) {e : Nat}
    {en en' : Entry} (ht : ths[tid]? = some t) (old : EntOk ths e en)
    (h1 : en'.refCount + (if stakeIn e t.pc = true then 1 else 0) =
          en.refCount + (if stakeIn e t'.pc = true then 1 else 0))
    (h2 : (if en'.writer = true then 1 else 0) + (if heldW e t.pc = true then 1 else 0) =
          (if en.writer = true then 1 else 0) + (if heldW e t'.pc = true then 1 else 0))
    (h3 : en'.readers + (if heldR e t.pc = true then 1 else 0) =
          en.readers + (if heldR e t'.pc = true then 1 else 0))
    (h4 : en'.writer = true → en'.readers = 0) : EntOk (ths.set tid t') e en' := by
  have c1 := countP_set' (fun t => stakeIn e t.pc) (new := t') ht
  have c2 := countP_set' (fun t => heldW e t.pc) (new := t') ht
  have c3 := countP_set' (fun t => heldR e t.pc) (new := t') ht
  have o1 := old.rc
  have o2 := old.wr
  have o3 := old.rd
  refine ⟨?_, ?_, ?_, h4⟩
  · omega
  · omega
  · omega

theorem EntOk.rc_pos {ths : List Thread} {tid : Nat} {t : Thread} {e : Nat} {en : Entry}
    (old : EntOk ths e en) (ht : ths[tid]? = some t) (hs : stakeIn e t.pc = true) :
    1 ≤ en.refCount := by
  rw [old.rc]; exact countP_pos_of_getElem? _ ht hs

theorem EntOk.writer_of_heldW {ths : List Thread} {tid : Nat} {t : Thread} {e : Nat} {en : Entry}
    (old : EntOk ths e en) (ht : ths[tid]? = some t) (hs : heldW e t.pc = true) :
    en.writer = true := by
  have := countP_pos_of_getElem? (fun t => heldW e t.pc) ht hs
  have o := old.wr
  by_cases hw : en.writer = true
  · exact hw
  · rw [if_neg hw] at o; omega

theorem EntOk.readers_pos {ths : List Thread} {tid : Nat} {t : Thread} {e : Nat} {en : Entry}
    (old : EntOk ths e en) (ht : ths[tid]? = some t) (hs : heldR e t.pc = true) :
    1 ≤ en.readers := by
  rw [← old.rd]; exact countP_pos_of_getElem? _ ht hs

end TurVerif.PageLocks
