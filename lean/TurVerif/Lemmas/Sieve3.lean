import TurVerif.Lemmas.Sieve2
/-! Lemmas for the SIEVE cache model, part 3: the miss path of `get_or_insert` on one shard. -/
namespace TurVerif.Sieve
/-- accounting relation of the miss path: `u`/`u'` = cache_used before/after, `n`/`n'` = entries -/
def MissAcc (r : GRes) (u u' n n' : Nat) : Prop :=
  match r with
  | .errInit => u' + PAGE_SIZE * n = u + PAGE_SIZE * n' + PAGE_SIZE
  | .broken _ => True
  | _ => u' + PAGE_SIZE * n = u + PAGE_SIZE * n'

theorem goiMiss_spec {sh : Shard} (b : Option Budget) (k : Key) (initOk : Bool) (val : Nat)
    (h : SInv sh) (hcap : sh.entries.length ≤ sh.cap) (hk : ∀ a ∈ sh.entries, a.key ≠ k) :
    SInv (goiMiss sh b k initOk val).1 ∧ (goiMiss sh b k initOk val).1.cap = sh.cap ∧
    (goiMiss sh b k initOk val).1.entries.length ≤ sh.cap ∧
    PinnedKept sh.entries (goiMiss sh b k initOk val).1.entries ∧
    (b = none → (goiMiss sh b k initOk val).2.1 = none) ∧
    (∀ bb, b = some bb → PAGE_SIZE * sh.entries.length ≤ bb.cacheUsed →
      ∃ bb', (goiMiss sh b k initOk val).2.1 = some bb' ∧ bb'.limit = bb.limit ∧
        bb'.otherUsed = bb.otherUsed ∧
        MissAcc (goiMiss sh b k initOk val).2.2 bb.cacheUsed bb'.cacheUsed sh.entries.length
          (goiMiss sh b k initOk val).1.entries.length) := by
  cases b with
  | none =>
    obtain ⟨f1, f2, f3, f4, f5, -⟩ := goiFinish_spec none k initOk val h hcap hk
    rw [goiMiss]
    exact ⟨f1, f2, f3, f4, f5, fun bb hb => by cases hb⟩
  | some bb =>
    rw [goiMiss]
    obtain ⟨a1, a2, a3, a4, a5, a6, a7, a8⟩ := budgetLoop_spec (sh.entries.length + 2) sh bb h
    cases hr : budgetLoop (sh.entries.length + 2) sh bb with
    | mk sh1 rest =>
      obtain ⟨b1, flag, w⟩ := rest
      rw [hr] at a1 a2 a3 a4 a5 a6 a7 a8
      simp only at a1 a2 a3 a4 a5 a6 a7 a8
      have plain : ∀ r : GRes, MissAcc r bb.cacheUsed b1.cacheUsed sh.entries.length sh1.entries.length →
          SInv sh1 ∧ sh1.cap = sh.cap ∧ sh1.entries.length ≤ sh.cap ∧ PinnedKept sh.entries sh1.entries ∧
          ((some bb : Option Budget) = none → (some b1 : Option Budget) = none) ∧
          (∀ bb0, some bb = some bb0 → PAGE_SIZE * sh.entries.length ≤ bb0.cacheUsed →
            ∃ bb', some b1 = some bb' ∧ bb'.limit = bb0.limit ∧ bb'.otherUsed = bb0.otherUsed ∧
              MissAcc r bb0.cacheUsed bb'.cacheUsed sh.entries.length sh1.entries.length) := by
        intro r hacc
        refine ⟨a1, a2, by omega, a3, (fun hb => by cases hb), ?_⟩
        intro bb0 hb _
        injection hb with hb
        subst hb
        exact ⟨b1, rfl, a6, a7, hacc⟩
      cases flag with
      | none =>
        simp only [goiAfterLoop]
        exact plain (.broken w) trivial
      | some fl =>
        cases fl with
        | false =>
          simp only [goiAfterLoop]
          refine ⟨a1, a2, by omega, a3, (fun hb => by cases hb), ?_⟩
          intro bb0 hb hge
          injection hb with hb
          subst hb
          exact ⟨b1, rfl, a6, a7, a8 hge⟩
        | true =>
          simp only [goiAfterLoop]
          unfold goiAlloc
          cases hal : b1.allocate PAGE_SIZE with
          | none =>
            simp only
            refine ⟨a1, a2, by omega, a3, (fun hb => by cases hb), ?_⟩
            intro bb0 hb hge
            injection hb with hb
            subst hb
            exact ⟨b1, rfl, a6, a7, a8 hge⟩
          | some b2 =>
            simp only
            obtain ⟨u2, l2, o2⟩ := allocate_spec b1 b2 PAGE_SIZE hal
            have hk1 : ∀ a ∈ sh1.entries, a.key ≠ k := by
              intro a ha
              obtain ⟨a0, m0, k0⟩ := a4 a ha
              rw [k0]; exact hk a0 m0
            obtain ⟨f1, f2, f3, f4, -, f6⟩ :=
              goiFinish_spec (some b2) k initOk val a1 (by omega) hk1
            refine ⟨f1, f2.trans a2, by omega, a3.trans f4, (fun hb => by cases hb), ?_⟩
            intro bb0 hb hge
            injection hb with hb
            subst hb
            have h8 := a8 hge
            obtain ⟨bb', e1, e2, e3, e4⟩ := f6 b2 rfl (by rw [u2]; omega)
            refine ⟨bb', e1, by rw [e2, l2, a6], by rw [e3, o2, a7], ?_⟩
            revert e4
            cases (goiFinish sh1 (some b2) k initOk val).2.2 <;>
              simp only [FinishAcc, MissAcc] <;> intro e4 <;>
              first
                | exact True.intro
                | (rw [u2] at e4; omega)

end TurVerif.Sieve
