import TurVerif.Lemmas.GroupCommit
/-!
C37: the inductive invariants of the group-commit LTS and their preservation by every step, for
any number of committers and any schedule.  Every invariant is a `∀`-statement over the view
(`pcAt`, `comp`, `err`, `pending`, `log`, `flushInProgress`); preservation is by cases on `Eff`.

Life cycle of commit id `a` (thread `a` submits it once, at `start`):
  unsubmitted → in `pending` → in exactly one owner's batch (`write b` → `mark b ok` → `clear b ok`)
  → released; `a ∈ log` from the owner's successful `write` on; `completed[a]` from `mark` on.
-/
namespace TurVerif.GroupCommit

/-- the thread owns a batch: it will run `notify_all` -/
def isOwner : Pc → Bool
  | .write _ => true
  | .mark _ _ => true
  | .clear _ _ => true
  | _ => false

/-! ### the invariants
(ownership of a batch `b` by thread `j` is spelled out per program counter — `write b`, `mark b ok`,
`clear b ok` — so that every clause is a plain implication) -/

/-- an unsubmitted commit is nowhere -/
def InvU (s : State) : Prop := ∀ a, pcAt s a = some .start →
  a ∉ s.pending ∧ a ∉ s.log ∧ comp s a = false ∧
  (∀ j b, pcAt s j = some (.write b) → a ∉ b) ∧
  (∀ j b ok, pcAt s j = some (.mark b ok) → a ∉ b) ∧
  (∀ j b ok, pcAt s j = some (.clear b ok) → a ∉ b)

/-- a commit in an owned batch is not pending -/
def InvK (s : State) : Prop :=
  (∀ j b a, pcAt s j = some (.write b) → a ∈ b → a ∉ s.pending) ∧
  (∀ j b ok a, pcAt s j = some (.mark b ok) → a ∈ b → a ∉ s.pending) ∧
  (∀ j b ok a, pcAt s j = some (.clear b ok) → a ∈ b → a ∉ s.pending)

/-- a completed commit is not pending -/
def InvH (s : State) : Prop := ∀ a, comp s a = true → a ∉ s.pending

/-- the committer of a pending commit is still inside `submit_and_wait`, or is a self-elected
leader about to call `take_pending` -/
def InvG (s : State) : Prop := ∀ a, a ∈ s.pending →
  pcAt s a = some .waitLock ∨ pcAt s a = some .condWait ∨ pcAt s a = some .take

/-- `flush_in_progress` is only set while somebody will still clear it -/
def InvF (s : State) : Prop := s.flushInProgress = true →
  (∃ j pc, pcAt s j = some pc ∧ isOwner pc = true) ∨ (s.pending ≠ [] ∧ ∃ j, pcAt s j = some .take)

/-- a committer inside the wait loop whose commit is not completed: the commit is pending or in a
batch that is still to be marked -/
def InvZ (s : State) : Prop := ∀ a, (pcAt s a = some .waitLock ∨ pcAt s a = some .condWait) →
  comp s a = false →
  a ∈ s.pending ∨ (∃ j b, pcAt s j = some (.write b) ∧ a ∈ b) ∨
    (∃ j b ok, pcAt s j = some (.mark b ok) ∧ a ∈ b)

/-- a committer blocked on the condvar with its commit still pending: a flush is in progress -/
def InvW1 (s : State) : Prop := ∀ a, pcAt s a = some .condWait → a ∈ s.pending →
  s.flushInProgress = true

/-- a committer blocked on the condvar whose commit is already completed: the owner of its batch
is just about to `notify_all` -/
def InvW2 (s : State) : Prop := ∀ a, pcAt s a = some .condWait → comp s a = true →
  ∃ j b ok, pcAt s j = some (.clear b ok) ∧ a ∈ b

def InvJ1 (s : State) : Prop := s.pending.Nodup
def InvJ2 (s : State) : Prop := s.log.Nodup
def InvJ3 (s : State) : Prop := ∀ j b, pcAt s j = some (.write b) → b.Nodup ∧ ∀ a, a ∈ b → a ∉ s.log
def InvJ4 (s : State) : Prop := ∀ a, a ∈ s.pending → a ∉ s.log
def InvJ5 (s : State) : Prop := ∀ i j bi bj, i ≠ j → pcAt s i = some (.write bi) →
  pcAt s j = some (.write bj) → ∀ a, a ∈ bi → a ∉ bj

/-- conservation: a submitted commit is pending, held unwritten by an owner, logged, or failed -/
def InvLife (s : State) : Prop := ∀ a pc, pcAt s a = some pc → pc ≠ .start →
  a ∈ s.pending ∨ (∃ j b, pcAt s j = some (.write b) ∧ a ∈ b) ∨
    (∃ j b, pcAt s j = some (.mark b false) ∧ a ∈ b) ∨ a ∈ s.log ∨ err s a = true

/-- a batch marked / being marked as successful is in the log -/
def InvML (s : State) : Prop :=
  (∀ j b a, pcAt s j = some (.mark b true) → a ∈ b → a ∈ s.log) ∧
  (∀ j b a, pcAt s j = some (.clear b true) → a ∈ b → a ∈ s.log)

/-- completed without error means logged -/
def InvL (s : State) : Prop := ∀ a, comp s a = true → err s a = false → a ∈ s.log

/-- every commit id that occurs anywhere belongs to an existing committer -/
def InvV (s : State) : Prop :=
  (∀ a, a ∈ s.pending → pcAt s a ≠ none) ∧ (∀ a, a ∈ s.log → pcAt s a ≠ none) ∧
  (∀ j b a, pcAt s j = some (.write b) → a ∈ b → pcAt s a ≠ none) ∧
  (∀ j b ok a, pcAt s j = some (.mark b ok) → a ∈ b → pcAt s a ≠ none)

/-- a batch is only marked failed by a thread whose write fails -/
def InvMF (s : State) : Prop := ∀ j b, pcAt s j = some (.mark b false) → fw s j = true

/-- an error flag is only ever set when some thread's write fails -/
def InvErr (s : State) : Prop := ∀ a, err s a = true → ∃ j, fw s j = true

/-! ### preservation -/

theorem len_step {s s' : State} {tid : Nat} (e : Eff s tid s') (h : Len s) : Len s' := by
  cases e <;> grind [SameFlags]

theorem invU_step {s s' : State} {tid : Nat} (e : Eff s tid s') (hU : InvU s) : InvU s' := by
  intro a ha
  have := hU a
  cases e <;> grind [SameFlags, wokenPc]

theorem invK_step {s s' : State} {tid : Nat} (e : Eff s tid s') (hU : InvU s) (hK : InvK s) :
    InvK s' := by
  have := hU tid
  obtain ⟨k1, k2, k3⟩ := hK
  refine ⟨?_, ?_, ?_⟩
  · intro j b a hj ha
    cases e <;> grind [SameFlags, wokenPc]
  · intro j b ok a hj ha
    cases e <;> grind [SameFlags, wokenPc]
  · intro j b ok a hj ha
    cases e <;> grind [SameFlags, wokenPc]

theorem invH_step {s s' : State} {tid : Nat} (e : Eff s tid s') (hU : InvU s) (hK : InvK s)
    (hH : InvH s) : InvH s' := by
  intro a ha
  have := hU tid
  have := hH a
  obtain ⟨k1, k2, k3⟩ := hK
  cases e <;> grind [SameFlags, wokenPc]

theorem invG_step {s s' : State} {tid : Nat} (e : Eff s tid s') (hH : InvH s) (hG : InvG s) :
    InvG s' := by
  intro a ha
  have := hG a
  have := hH a
  cases e <;> grind [SameFlags, wokenPc]

theorem invF_step {s s' : State} {tid : Nat} (e : Eff s tid s') (hF : InvF s) : InvF s' := by
  intro hfl
  unfold InvF at hF
  cases e <;> grind [SameFlags, wokenPc, isOwner]

theorem invZ_step {s s' : State} {tid : Nat} (e : Eff s tid s') (hLen : Len s) (hZ : InvZ s) :
    InvZ s' := by
  intro a ha hc
  have := hZ a
  have := hZ tid
  have hlt := @pcAt_lt s a
  obtain ⟨l1, l2⟩ := hLen
  cases e <;> grind [SameFlags, wokenPc]

theorem invW1_step {s s' : State} {tid : Nat} (e : Eff s tid s') (hU : InvU s) (hW1 : InvW1 s) :
    InvW1 s' := by
  intro a ha hp
  have := hW1 a
  have := hU tid
  cases e <;> grind [SameFlags, wokenPc]

theorem invW2_step {s s' : State} {tid : Nat} (e : Eff s tid s') (hW2 : InvW2 s) :
    InvW2 s' := by
  intro a ha hc
  have := hW2 a
  cases e <;> grind [SameFlags, wokenPc]

theorem invJ1_step {s s' : State} {tid : Nat} (e : Eff s tid s') (hU : InvU s) (h : InvJ1 s) :
    InvJ1 s' := by
  unfold InvJ1 at *
  have := hU tid
  cases e with
  | start hs hp hm hne hf hl hx hpc =>
    rw [hp, cat]
    exact List.nodup_append.mpr ⟨h, by simp, by grind⟩
  | takeSome hs hne hp => rw [hp]; exact List.nodup_nil
  | _ => grind

theorem invJ2_step {s s' : State} {tid : Nat} (e : Eff s tid s') (hJ3 : InvJ3 s) (h : InvJ2 s) :
    InvJ2 s' := by
  unfold InvJ2 at *
  cases e with
  | writeOk b hs hp hf hl hm hx hpc =>
    rw [hl, cat]
    have := hJ3 tid b hs
    exact List.nodup_append.mpr ⟨h, this.1, by grind⟩
  | _ => grind

theorem invJ3_step {s s' : State} {tid : Nat} (e : Eff s tid s') (hJ1 : InvJ1 s) (hJ4 : InvJ4 s)
    (hJ5 : InvJ5 s) (h : InvJ3 s) : InvJ3 s' := by
  intro j b hj
  have := h j b
  have := hJ5 j tid b
  unfold InvJ1 at hJ1
  unfold InvJ4 at hJ4
  cases e <;> grind [SameFlags, wokenPc]

theorem invJ4_step {s s' : State} {tid : Nat} (e : Eff s tid s') (hU : InvU s) (hK : InvK s)
    (h : InvJ4 s) : InvJ4 s' := by
  intro a ha
  have := h a
  have := hU tid
  obtain ⟨k1, k2, k3⟩ := hK
  cases e <;> grind [SameFlags, wokenPc]

theorem invJ5_step {s s' : State} {tid : Nat} (e : Eff s tid s') (hK : InvK s)
    (h : InvJ5 s) : InvJ5 s' := by
  intro i j bi bj hij hi hj a ha
  have := h i j bi bj hij
  obtain ⟨k1, k2, k3⟩ := hK
  cases e <;> grind [SameFlags, wokenPc]

theorem invML_step {s s' : State} {tid : Nat} (e : Eff s tid s') (h : InvML s) : InvML s' := by
  obtain ⟨m1, m2⟩ := h
  refine ⟨?_, ?_⟩
  · intro j b a hj ha
    cases e <;> grind [SameFlags, wokenPc]
  · intro j b a hj ha
    cases e <;> grind [SameFlags, wokenPc]

theorem invL_step {s s' : State} {tid : Nat} (e : Eff s tid s') (hLen : Len s) (hML : InvML s)
    (h : InvL s) : InvL s' := by
  intro a hc he
  have := h a
  obtain ⟨l1, l2⟩ := hLen
  obtain ⟨m1, m2⟩ := hML
  cases e <;> grind [SameFlags, wokenPc]

theorem invLife_step {s s' : State} {tid : Nat} (e : Eff s tid s') (hLen : Len s)
    (h : InvLife s) : InvLife s' := by
  intro a pc ha hne
  have := h a
  have hlt := @pcAt_lt s a
  obtain ⟨l1, l2⟩ := hLen
  cases e <;> grind [SameFlags, wokenPc]

theorem pcAt_ne_none_eff {s s' : State} {tid : Nat} (e : Eff s tid s') (a : Nat)
    (h : pcAt s a ≠ none) : pcAt s' a ≠ none := by
  cases hq : pcAt s a with
  | none => exact (h hq).elim
  | some pc =>
    by_cases hc : pc = .condWait
    · subst hc; cases e <;> grind [SameFlags]
    · cases e <;> grind [SameFlags]

theorem invV_step {s s' : State} {tid : Nat} (e : Eff s tid s') (h : InvV s) : InvV s' := by
  obtain ⟨v1, v2, v3, v4⟩ := h
  have hk := pcAt_ne_none_eff e
  have htid : pcAt s tid ≠ none := by cases e <;> simp_all
  refine ⟨?_, ?_, ?_, ?_⟩
  · intro a ha
    apply hk
    cases e <;> grind [SameFlags, wokenPc]
  · intro a ha
    apply hk
    cases e <;> grind [SameFlags, wokenPc]
  · intro j b a hj ha
    apply hk
    cases e <;> grind [SameFlags, wokenPc]
  · intro j b ok a hj ha
    apply hk
    cases e <;> grind [SameFlags, wokenPc]

theorem invMF_step {s s' : State} {tid : Nat} (e : Eff s tid s') (h : InvMF s) : InvMF s' := by
  intro j b hj
  have := h j b
  cases e <;> grind [SameFlags, wokenPc]

theorem invErr_step {s s' : State} {tid : Nat} (e : Eff s tid s') (hMF : InvMF s) (h : InvErr s) :
    InvErr s' := by
  intro a ha
  have := h a
  have := hMF tid
  cases e <;> grind [SameFlags, wokenPc]

theorem fw_eff {s s' : State} {tid : Nat} (e : Eff s tid s') (i : Nat) : fw s' i = fw s i := by
  cases e <;> grind [SameFlags]

/-! ### the bundle -/

structure Inv (s : State) : Prop where
  len : Len s
  u : InvU s
  k : InvK s
  h : InvH s
  g : InvG s
  f : InvF s
  z : InvZ s
  w1 : InvW1 s
  w2 : InvW2 s
  j1 : InvJ1 s
  j2 : InvJ2 s
  j3 : InvJ3 s
  j4 : InvJ4 s
  j5 : InvJ5 s
  life : InvLife s
  ml : InvML s
  l : InvL s
  v : InvV s
  mf : InvMF s
  er : InvErr s

theorem inv_eff {s s' : State} {tid : Nat} (e : Eff s tid s') (i : Inv s) : Inv s' where
  len := len_step e i.len
  u := invU_step e i.u
  k := invK_step e i.u i.k
  h := invH_step e i.u i.k i.h
  g := invG_step e i.h i.g
  f := invF_step e i.f
  z := invZ_step e i.len i.z
  w1 := invW1_step e i.u i.w1
  w2 := invW2_step e i.w2
  j1 := invJ1_step e i.u i.j1
  j2 := invJ2_step e i.j3 i.j2
  j3 := invJ3_step e i.j1 i.j4 i.j5 i.j3
  j4 := invJ4_step e i.u i.k i.j4
  j5 := invJ5_step e i.k i.j5
  life := invLife_step e i.len i.life
  ml := invML_step e i.ml
  l := invL_step e i.len i.ml i.l
  v := invV_step e i.v
  mf := invMF_step e i.mf
  er := invErr_step e i.mf i.er

theorem inv_step {s s' : State} {tid : Nat} (hs : step s tid = some s') (i : Inv s) : Inv s' :=
  inv_eff (step_eff hs) i

theorem pcAt_init {fails : List Bool} {i : Nat} {pc : Pc} (h : pcAt (init fails) i = some pc) :
    pc = .start := by
  unfold pcAt init at h
  simp only [List.getElem?_map] at h
  cases hq : fails[i]? with
  | none => rw [hq] at h; cases h
  | some f => rw [hq] at h; simp at h; exact h.symm

theorem comp_init (fails : List Bool) (i : Nat) : comp (init fails) i = false := by
  unfold comp init
  simp only [List.getD_eq_getElem?_getD, List.getElem?_map]
  cases fails[i]? <;> rfl

theorem err_init (fails : List Bool) (i : Nat) : err (init fails) i = false := by
  unfold err init
  simp only [List.getD_eq_getElem?_getD, List.getElem?_map]
  cases fails[i]? <;> rfl

theorem inv_init (fails : List Bool) : Inv (init fails) where
  len := by simp [Len, init]
  u := by
    intro a _
    refine ⟨by simp [init], by simp [init], comp_init fails a, ?_, ?_, ?_⟩ <;>
      (intros; rename_i h; cases pcAt_init h)
  k := by
    refine ⟨?_, ?_, ?_⟩ <;> (intros; rename_i h _; cases pcAt_init h)
  h := by intro a h; rw [comp_init] at h; cases h
  g := by intro a h; simp [init] at h
  f := by intro h; simp [init] at h
  z := by intro a _ _; rename_i h _; rcases h with h | h <;> cases pcAt_init h
  w1 := by intro a h; cases pcAt_init h
  w2 := by intro a h; cases pcAt_init h
  j1 := by simp [InvJ1, init]
  j2 := by simp [InvJ2, init]
  j3 := by intro j b h; cases pcAt_init h
  j4 := by intro a h; simp [init] at h
  j5 := by intro i j bi bj _ h; cases pcAt_init h
  life := by intro a pc h hne; exact (hne (pcAt_init h)).elim
  ml := by
    refine ⟨?_, ?_⟩ <;> (intros; rename_i h _; cases pcAt_init h)
  l := by intro a h; rw [comp_init] at h; cases h
  v := by
    refine ⟨by intro a h; simp [init] at h, by intro a h; simp [init] at h, ?_, ?_⟩ <;>
      (intros; rename_i h _; cases pcAt_init h)
  mf := by intro j b h; cases pcAt_init h
  er := by intro a h; rw [err_init] at h; cases h

theorem fw_init (fails : List Bool) (i : Nat) : fw (init fails) i = fails.getD i false := by
  unfold fw init
  simp only [List.getD_eq_getElem?_getD, List.getElem?_map]
  cases fails[i]? <;> rfl

theorem fw_run (s : State) (sched : List Nat) (i : Nat) : fw (run s sched) i = fw s i := by
  induction sched generalizing s with
  | nil => rfl
  | cons tid rest ih =>
    simp only [run]
    cases hs : step s tid with
    | none => simpa using ih s
    | some s' =>
      simp only [Option.getD_some]
      rw [ih s', fw_eff (step_eff hs)]

theorem pcAt_none_eff {s s' : State} {tid : Nat} (e : Eff s tid s') (a : Nat) :
    pcAt s' a = none ↔ pcAt s a = none := by
  constructor
  · intro h
    apply Classical.byContradiction
    intro hn
    exact pcAt_ne_none_eff e a hn h
  · intro h
    cases hq : pcAt s' a with
    | none => rfl
    | some pc' => exfalso; cases e <;> grind [SameFlags]

theorem pcAt_none_run (s : State) (sched : List Nat) (a : Nat) :
    pcAt (run s sched) a = none ↔ pcAt s a = none := by
  induction sched generalizing s with
  | nil => exact Iff.rfl
  | cons tid rest ih =>
    simp only [run]
    cases hs : step s tid with
    | none => simpa using ih s
    | some s' =>
      simp only [Option.getD_some]
      rw [ih s', pcAt_none_eff (step_eff hs)]

theorem pcAt_init_none (fails : List Bool) (a : Nat) :
    pcAt (init fails) a = none ↔ fails.length ≤ a := by
  unfold pcAt init
  simp

theorem inv_run {s : State} (i : Inv s) (sched : List Nat) : Inv (run s sched) := by
  induction sched generalizing s with
  | nil => exact i
  | cons tid rest ih =>
    simp only [run]
    cases hs : step s tid with
    | none => simpa using ih i
    | some s' => exact ih (inv_step hs i)

theorem inv_reachable (fails : List Bool) (sched : List Nat) : Inv (run (init fails) sched) :=
  inv_run (inv_init fails) sched

end TurVerif.GroupCommit
