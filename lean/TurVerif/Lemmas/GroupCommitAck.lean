import TurVerif.Lemmas.GroupCommitInv
/-!
C37, acknowledgement side:
* which committers can be told "success" without being in the log (only self-elected leaders —
  threads that left the wait loop through the `!flush_in_progress && should_flush` branch — whose
  commit is held by ANOTHER thread): history ghost `elected` + invariant `InvE`;
* a failed batch reaches every member that is still inside the wait loop (closure `Told`).
-/
namespace TurVerif.GroupCommit

/-! ### self-election ghost -/

/-- the step of `tid` in `s` is a self-election: `tid` is at the head of the wait loop, its commit
is not completed, no flush is in progress and something is pending — it sets `flush_in_progress`
and returns `Ok(())` from `submit_and_wait` WITHOUT its commit having been completed -/
def electsAt (s : State) (tid : Nat) : Bool :=
  decide (pcAt s tid = some .waitLock) && !comp s tid && !s.flushInProgress && !s.pending.isEmpty

/-- the committers that elected themselves leader during the run of `sched` from `s` -/
def elected (s : State) : List Nat → List Nat
  | [] => []
  | tid :: rest => (if electsAt s tid then [tid] else []) ++ elected ((step s tid).getD s) rest

theorem mem_elected_iff (s : State) (sched : List Nat) (a : Nat) :
    a ∈ elected s sched ↔
      ∃ pre post, sched = pre ++ a :: post ∧ electsAt (run s pre) a = true := by
  induction sched generalizing s with
  | nil => simp [elected]
  | cons tid rest ih =>
    simp only [elected, List.mem_append, ih]
    constructor
    · rintro (h | ⟨pre, post, h1, h2⟩)
      · by_cases he : electsAt s tid = true
        · simp only [he, if_true, List.mem_singleton] at h
          subst h
          exact ⟨[], rest, rfl, he⟩
        · simp [he] at h
      · exact ⟨tid :: pre, post, by rw [h1]; rfl, h2⟩
    · rintro ⟨pre, post, h1, h2⟩
      cases pre with
      | nil =>
        simp only [List.nil_append, List.cons.injEq] at h1
        obtain ⟨rfl, rfl⟩ := h1
        left
        simp only [run] at h2
        simp [h2]
      | cons x pre =>
        simp only [List.cons_append, List.cons.injEq] at h1
        obtain ⟨rfl, rfl⟩ := h1
        right
        exact ⟨pre, post, rfl, h2⟩

/-- a committer that is past the wait loop (about to `take_pending`, owning a batch, or returned
with success) is in the log or elected itself (`g`: the set of self-elected committers so far) -/
def InvE (s : State) (g : Nat → Prop) : Prop := ∀ a,
  (pcAt s a = some .take ∨ (∃ b, pcAt s a = some (.write b)) ∨ (∃ b ok, pcAt s a = some (.mark b ok)) ∨
    (∃ b ok, pcAt s a = some (.clear b ok)) ∨ pcAt s a = some (.done true)) →
  a ∈ s.log ∨ g a

theorem invE_eff {s s' : State} {tid : Nat} {g : Nat → Prop} (e : Eff s tid s') (hL : InvL s)
    (h : InvE s g) : InvE s' (fun a => g a ∨ (a = tid ∧ electsAt s tid = true)) := by
  intro a ha
  have := h a
  have := hL a
  cases e with
  | lead hs hc hg hne hp hf hl hx hpc =>
    have he : electsAt s tid = true := by
      simp [electsAt, hs, hc, hg, hne]
    grind [SameFlags]
  | _ => grind [SameFlags, wokenPc]

theorem invE_run {s : State} (i : Inv s) (sched : List Nat) (g : Nat → Prop) (h : InvE s g) :
    InvE (run s sched) (fun a => g a ∨ a ∈ elected s sched) := by
  induction sched generalizing s g with
  | nil => intro a ha; rcases h a ha with h | h; exact Or.inl h; exact Or.inr (Or.inl h)
  | cons tid rest ih =>
    simp only [run]
    cases hs : step s tid with
    | none =>
      have := ih i g h
      intro a ha
      simp only [Option.getD_none] at ha
      rcases this a ha with h | h | h
      · exact Or.inl h
      · exact Or.inr (Or.inl h)
      · refine Or.inr (Or.inr ?_)
        simp only [elected, hs, Option.getD_none, List.mem_append]
        exact Or.inr h
    | some s' =>
      have h' := invE_eff (step_eff hs) i.l h
      have := ih (inv_step hs i) _ h'
      intro a ha
      simp only [Option.getD_some] at ha
      rcases this a ha with h | (h | ⟨rfl, h⟩) | h
      · exact Or.inl h
      · exact Or.inr (Or.inl h)
      · refine Or.inr (Or.inr ?_)
        simp [elected, h]
      · refine Or.inr (Or.inr ?_)
        simp only [elected, hs, Option.getD_some, List.mem_append]
        exact Or.inr h

theorem invE_init (fails : List Bool) : InvE (init fails) (fun _ => False) := by
  intro a ha
  rcases ha with h | ⟨_, h⟩ | ⟨_, _, h⟩ | ⟨_, _, h⟩ | h <;> cases pcAt_init h

/-- a committer that was told "success" and is not in the log elected itself leader -/
theorem ack_unlogged_elected (fails : List Bool) (sched : List Nat) (a : Nat)
    (hd : pcAt (run (init fails) sched) a = some (.done true))
    (hl : a ∉ (run (init fails) sched).log) : a ∈ elected (init fails) sched := by
  have := invE_run (inv_init fails) sched _ (invE_init fails) a (Or.inr (Or.inr (Or.inr (Or.inr hd))))
  rcases this with h | h | h
  · exact (hl h).elim
  · exact h.elim
  · exact h

/-- … and its commit is held, unwritten, by another thread, or was failed -/
theorem ack_unlogged_held {s : State} (i : Inv s) {a : Nat}
    (hd : pcAt s a = some (.done true)) (hl : a ∉ s.log) :
    (∃ j b, j ≠ a ∧ pcAt s j = some (.write b) ∧ a ∈ b) ∨
    (∃ j b, j ≠ a ∧ pcAt s j = some (.mark b false) ∧ a ∈ b) ∨ err s a = true := by
  have hg := i.g a
  rcases i.life a _ hd (fun e => nomatch e) with h | ⟨j, b, hj, hb⟩ | ⟨j, b, hj, hb⟩ | h | h
  · rcases hg h with h | h | h <;> (rw [hd] at h; cases h)
  · refine Or.inl ⟨j, b, ?_, hj, hb⟩
    intro e; subst e; rw [hd] at hj; cases hj
  · refine Or.inr (Or.inl ⟨j, b, ?_, hj, hb⟩)
    intro e; subst e; rw [hd] at hj; cases hj
  · exact (hl h).elim
  · exact Or.inr (Or.inr h)

/-! ### failure reaches the waiting members -/

/-- commit `a` has been marked failed and its committer is still inside the wait loop (or is the
owner, about to return the error, or has returned it) -/
def Told (s : State) (a : Nat) : Prop :=
  comp s a = true ∧ err s a = true ∧
  (pcAt s a = some .waitLock ∨ pcAt s a = some .condWait ∨
    (∃ b, pcAt s a = some (.clear b false)) ∨ pcAt s a = some (.done false))

theorem told_eff {s s' : State} {tid : Nat} {a : Nat} (e : Eff s tid s') (h : Told s a) :
    Told s' a := by
  obtain ⟨h1, h2, h3⟩ := h
  unfold Told
  cases e <;> grind [SameFlags, wokenPc]

theorem told_run {s : State} {a : Nat} (h : Told s a) (sched : List Nat) : Told (run s sched) a := by
  induction sched generalizing s with
  | nil => exact h
  | cons tid rest ih =>
    simp only [run]
    cases hs : step s tid with
    | none => simpa using ih h
    | some s' => exact ih (told_eff (step_eff hs) h)

/-- the `mark` step of a failed batch: every member that is inside the wait loop, and the owner
itself, is `Told` -/
theorem told_of_mark {s s' : State} {tid : Nat} {b : List Nat} {a : Nat} (hLen : Len s)
    (hs : step s tid = some s') (hm : pcAt s tid = some (.mark b false)) (ha : a ∈ b)
    (hw : pcAt s a = some .waitLock ∨ pcAt s a = some .condWait ∨ a = tid) : Told s' a := by
  have e := step_eff hs
  have hlt := @pcAt_lt s a
  obtain ⟨l1, l2⟩ := hLen
  unfold Told
  cases e <;> grind [SameFlags, wokenPc]

end TurVerif.GroupCommit
