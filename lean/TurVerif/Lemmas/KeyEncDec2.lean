import TurVerif.Lemmas.KeyEncDec
/-! C26: round trip for floats, vectors and containers. -/
namespace TurVerif.KeyEnc

theorem rt_float (fuel : Nat) (x : Nat) (h : wf (.float x) = true) : RT fuel (.float x) := by
  intro rest
  simp only [wf, decide_eq_true_eq] at h
  by_cases h1 : isNan64 x = true
  · simp [enc, canon, dec, h1]
  · have h1' : ¬ x % 9223372036854775808 > 9218868437227405312 := by simpa [isNan64] using h1
    by_cases h2 : x = 18442240474082181120
    · subst h2; simp [enc, canon, dec, isNan64]
    · by_cases h3 : x = 9218868437227405312
      · subst h3; simp [enc, canon, dec, isNan64]
      · by_cases h4 : x > 9223372036854775808
        · have h5 : ¬ x % 9223372036854775808 = 0 := by omega
          simp [enc, canon, dec, h1, h2, h3, h4, h5, be_length]
          rw [if_neg (by omega), fromBe_be _ _ (by rw [p8]; omega)]
          simp; omega
        · by_cases h5 : x % 9223372036854775808 = 0
          · simp [enc, canon, dec, h1, h2, h3, h4, h5]
          · simp [enc, canon, dec, h1, h2, h3, h4, h5, be_length]
            have hx : x < 9223372036854775808 := by omega
            rw [if_neg (by omega), fromBe_be _ _ (by rw [p8]; unfold flipTop; split <;> omega),
              flipTop_flipTop _ _ (by omega)]

theorem vecBody_length (ds : List Nat) : (vecBody ds).length = ds.length * 4 := by
  induction ds with
  | nil => rfl
  | cons d ds ih => simp [vecBody, be_length, ih]; omega

theorem decDims_vecBody (ds rest : List Nat) (h : ds.all (· < 4294967296) = true) :
    decDims ds.length (vecBody ds ++ rest) = ds.map (fun d => vdec (venc d)) := by
  induction ds with
  | nil => rfl
  | cons d ds ih =>
    simp only [List.all_cons, Bool.and_eq_true, decide_eq_true_eq] at h
    simp only [List.length_cons, decDims, vecBody, List.append_assoc, List.map_cons]
    rw [List.take_left' (be_length _ _), List.drop_left' (be_length _ _),
      fromBe_be _ _ (venc_lt d h.1), ih h.2]

theorem rt_vector (fuel : Nat) (ds : List Nat) (h : wf (.vector ds) = true) : RT fuel (.vector ds) := by
  intro rest
  simp only [wf, decide_eq_true_eq, Bool.and_eq_true] at h
  simp only [enc, canon, List.cons_append, List.append_assoc, dec]
  simp [be_length, vecBody_length]
  rw [if_neg (by omega), fromBe_be _ _ (by rw [p4]; omega), if_neg (by omega),
    decDims_vecBody ds rest h.1]
  simp; omega

mutual
/-- fuel that suffices to decode the encoding of a value -/
def need : KVal → Nat
  | .array es => 1 + needL es
  | .tuple es => 1 + needL es
  | .composite _ fs => 1 + needL fs
  | .domain _ v => 1 + need v
  | _ => 1
def needL : KList → Nat
  | .nil => 1
  | .cons v vs => 1 + need v + needL vs
end

inductive LOk : LRes → KList → Nat → Prop where
  | mk (vs : KList) (n : Nat) : LOk (.ok vs n) vs n

theorem decElems_first (fuel : Nat) (x : Nat) (t : List Nat) (hx : x ≠ 0) (v : KVal) (n : Nat)
    (vs : KList) (m : Nat) (h1 : dec fuel (x :: t) = .ok v n)
    (h2 : decElems fuel ((x :: t).drop n) true = .ok vs m) :
    decElems (fuel + 1) (x :: t) false = .ok (.cons v vs) (n + m) := by
  simp [decElems, hx, h1, h2]

mutual
theorem rt_all : (v : KVal) → wf v = true → ∀ fuel, need v ≤ fuel → ∀ rest,
    dec fuel (enc v ++ rest) = .ok (canon v) (enc v).length
  | .null, _, fuel + 1, _, rest => rt_null fuel rest
  | .bool b, _, fuel + 1, _, rest => rt_bool fuel b rest
  | .int n, h, fuel + 1, _, rest => rt_int fuel n h rest
  | .float x, h, fuel + 1, _, rest => rt_float fuel x h rest
  | .text x, h, fuel + 1, _, rest => rt_text fuel x h rest
  | .blob x, _, fuel + 1, _, rest => rt_blob fuel x rest
  | .date x, h, fuel + 1, _, rest => rt_date fuel x h rest
  | .time x, h, fuel + 1, _, rest => rt_time fuel x h rest
  | .timestamp x, h, fuel + 1, _, rest => rt_timestamp fuel x h rest
  | .timestamptz x z, h, fuel + 1, _, rest => rt_timestamptz fuel x z h rest
  | .interval x y z, h, fuel + 1, _, rest => rt_interval fuel x y z h rest
  | .uuid x, h, fuel + 1, _, rest => rt_uuid fuel x h rest
  | .inet x y z, h, fuel + 1, _, rest => rt_inet fuel x y z h rest
  | .macaddr x, h, fuel + 1, _, rest => rt_macaddr fuel x h rest
  | .enum x y, h, fuel + 1, _, rest => rt_enum fuel x y h rest
  | .vector x, h, fuel + 1, _, rest => rt_vector fuel x h rest
  | .array es, h, fuel + 1, hf, rest => by
    simp only [wf] at h
    simp only [need] at hf
    simp only [enc, canon, List.cons_append, dec]
    simp [rt_elems es h fuel (by omega) rest]; omega
  | .tuple es, h, fuel + 1, hf, rest => by
    simp only [wf] at h
    simp only [need] at hf
    simp only [enc, canon, List.cons_append, dec]
    simp [rt_elems es h fuel (by omega) rest]; omega
  | .composite t es, h, fuel + 1, hf, rest => by
    simp only [wf, decide_eq_true_eq, Bool.and_eq_true] at h
    simp only [need] at hf
    simp only [enc, canon, List.cons_append, List.append_assoc, dec]
    simp [be_length, rt_elems es h.2 fuel (by omega) rest]
    rw [if_neg (by omega), fromBe_be _ _ (by rw [p4]; omega)]
    simp; omega
  | .domain t v, h, fuel + 1, hf, rest => by
    simp only [wf, decide_eq_true_eq, Bool.and_eq_true] at h
    simp only [need] at hf
    simp only [enc, canon, List.cons_append, List.append_assoc, dec]
    simp [be_length, rt_all v h.2 fuel (by omega) rest]
    rw [if_neg (by omega), fromBe_be _ _ (by rw [p4]; omega)]
    simp; omega
  | .null, _, 0, hf, _ => by simp [need] at hf
  | .bool _, _, 0, hf, _ => by simp [need] at hf
  | .int _, _, 0, hf, _ => by simp [need] at hf
  | .float _, _, 0, hf, _ => by simp [need] at hf
  | .text _, _, 0, hf, _ => by simp [need] at hf
  | .blob _, _, 0, hf, _ => by simp [need] at hf
  | .date _, _, 0, hf, _ => by simp [need] at hf
  | .time _, _, 0, hf, _ => by simp [need] at hf
  | .timestamp _, _, 0, hf, _ => by simp [need] at hf
  | .timestamptz _ _, _, 0, hf, _ => by simp [need] at hf
  | .interval _ _ _, _, 0, hf, _ => by simp [need] at hf
  | .uuid _, _, 0, hf, _ => by simp [need] at hf
  | .inet _ _ _, _, 0, hf, _ => by simp [need] at hf
  | .macaddr _, _, 0, hf, _ => by simp [need] at hf
  | .enum _ _, _, 0, hf, _ => by simp [need] at hf
  | .vector _, _, 0, hf, _ => by simp [need] at hf
  | .array _, _, 0, hf, _ => by simp [need] at hf
  | .tuple _, _, 0, hf, _ => by simp [need] at hf
  | .composite _ _, _, 0, hf, _ => by simp [need] at hf
  | .domain _ _, _, 0, hf, _ => by simp [need] at hf
theorem rt_elems : (es : KList) → wfList es = true → ∀ fuel, needL es ≤ fuel → ∀ rest,
    decElems fuel (encElems es ++ rest) false = .ok (canonList es) (encElems es).length
  | .nil, _, fuel + 1, _, rest => by simp [encElems, decElems, canonList]
  | .cons v vs, h, fuel + 1, hf, rest => by
    simp only [wfList, Bool.and_eq_true] at h
    simp only [needL] at hf
    obtain ⟨t1, e⟩ := enc_rank v
    have hpos := rank_pos v
    have hd : encElems (.cons v vs) ++ rest = rank v :: (t1 ++ (encRest vs ++ rest)) := by
      simp [encElems, e]
    have hd2 : rank v :: (t1 ++ (encRest vs ++ rest)) = enc v ++ (encRest vs ++ rest) := by
      rw [e]; rfl
    have h1 : dec fuel (rank v :: (t1 ++ (encRest vs ++ rest))) = .ok (canon v) (enc v).length := by
      rw [hd2]; exact rt_all v h.1 fuel (by omega) (encRest vs ++ rest)
    have h2 : decElems fuel ((rank v :: (t1 ++ (encRest vs ++ rest))).drop (enc v).length) true
        = .ok (canonList vs) (encRest vs).length := by
      rw [hd2, List.drop_left' rfl]; exact rt_rest vs h.2 fuel (by omega) rest
    rw [hd, decElems_first fuel _ _ (by omega) _ _ _ _ h1 h2]
    simp [canonList, encElems]
  | .nil, _, 0, hf, _ => by simp [needL] at hf
  | .cons _ _, _, 0, hf, _ => by simp [needL] at hf
theorem rt_rest : (es : KList) → wfList es = true → ∀ fuel, needL es ≤ fuel → ∀ rest,
    decElems fuel (encRest es ++ rest) true = .ok (canonList es) (encRest es).length
  | .nil, _, fuel + 1, _, rest => by simp [encRest, decElems, canonList]
  | .cons v vs, h, fuel + 1, hf, rest => by
    simp only [wfList, Bool.and_eq_true] at h
    simp only [needL] at hf
    simp only [encRest, List.cons_append, List.append_assoc, decElems]
    simp [rt_all v h.1 fuel (by omega) (encRest vs ++ rest), rt_rest vs h.2 fuel (by omega) rest,
      canonList]
    omega
  | .nil, _, 0, hf, _ => by simp [needL] at hf
  | .cons _ _, _, 0, hf, _ => by simp [needL] at hf
end

end TurVerif.KeyEnc
