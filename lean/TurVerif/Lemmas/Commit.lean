import TurVerif.Model.Commit
/-! Helper lemmas for C01 / C02 about the commit protocol model. -/
namespace TurVerif.Commit

def touched (ms : List Mut) (f p : Nat) : Bool := ms.any (fun m => m.file == f && m.page == p)

def frameOf (L : Nat → Nat → Nat) (m : Mut) : Frame :=
  { file := m.file, page := m.page, img := L m.file m.page }

def framesList (ms : List Mut) : List Frame := ms.map (frameOf (lastImg ms))

def ackCount (es : List Event) : Nat := (es.filter (· == Event.ack)).length

theorem setPg_apply (pg : Pages) (f p v f' p' : Nat) :
    setPg pg f p v f' p' = if f' = f ∧ p' = p then v else pg f' p' := rfl

theorem run_append (s : State) (a b : List Event) : run s (a ++ b) = run (run s a) b := by
  simp [run, List.foldl_append]

theorem run_cons (s : State) (e : Event) (es : List Event) : run s (e :: es) = run (step s e) es := rfl

theorem run_nil (s : State) : run s [] = s := rfl

theorem redo_append (pg : Pages) (a b : List Frame) : redo pg (a ++ b) = redo (redo pg a) b := by
  simp [redo, List.foldl_append]

theorem redo_cons (pg : Pages) (fr : Frame) (w : List Frame) :
    redo pg (fr :: w) = redo (setPg pg fr.file fr.page fr.img) w := rfl

theorem applyMuts_cons (pg : Pages) (m : Mut) (ms : List Mut) :
    applyMuts pg (m :: ms) = applyMuts (setPg pg m.file m.page m.img) ms := rfl

theorem touched_cons (m : Mut) (ms : List Mut) (f p : Nat) :
    touched (m :: ms) f p = ((m.file == f && m.page == p) || touched ms f p) := by
  simp [touched]

/-- pointwise value of `applyMuts`: the last write wins, untouched pages keep the base value -/
theorem applyMuts_apply (ms : List Mut) : ∀ (pg : Pages) (f p : Nat),
    applyMuts pg ms f p = if touched ms f p then lastImg ms f p else pg f p := by
  induction ms with
  | nil => intro pg f p; simp [applyMuts, touched]
  | cons m ms ih =>
    intro pg f p
    have hl : lastImg (m :: ms) f p =
        if touched ms f p then lastImg ms f p else setPg Pages.empty m.file m.page m.img f p := by
      show applyMuts Pages.empty (m :: ms) f p = _
      rw [applyMuts_cons, ih]
    rw [applyMuts_cons, ih, touched_cons, hl]
    by_cases ht : touched ms f p = true
    · simp [ht]
    · have ht' : touched ms f p = false := by simpa using ht
      simp only [ht', Bool.or_false, Bool.false_eq_true, if_false, setPg_apply]
      by_cases hm : m.file = f ∧ m.page = p
      · obtain ⟨h1, h2⟩ := hm
        simp [h1, h2]
      · have : (m.file == f && m.page == p) = false := by
          simp only [Bool.and_eq_false_imp, beq_iff_eq, beq_eq_false_iff_ne]
          intro h1 h2; exact hm ⟨h1, h2⟩
        have hm' : ¬ (f = m.file ∧ p = m.page) := fun ⟨a, b⟩ => hm ⟨a.symm, b.symm⟩
        simp [this, hm']

/-- pointwise value of a redo of frames that all carry `L file page` -/
theorem redo_frames_apply (L : Nat → Nat → Nat) (l : List Mut) : ∀ (pg : Pages) (f p : Nat),
    redo pg (l.map (frameOf L)) f p = if touched l f p then L f p else pg f p := by
  induction l with
  | nil => intro pg f p; simp [redo, touched]
  | cons m l ih =>
    intro pg f p
    rw [List.map_cons, redo_cons, ih, touched_cons]
    by_cases ht : touched l f p = true
    · simp [ht]
    · have ht' : touched l f p = false := by simpa using ht
      simp only [ht', Bool.or_false, Bool.false_eq_true, if_false, setPg_apply, frameOf]
      by_cases hm : m.file = f ∧ m.page = p
      · obtain ⟨h1, h2⟩ := hm
        simp [h1, h2]
      · have : (m.file == f && m.page == p) = false := by
          simp only [Bool.and_eq_false_imp, beq_iff_eq, beq_eq_false_iff_ne]
          intro h1 h2; exact hm ⟨h1, h2⟩
        have hm' : ¬ (f = m.file ∧ p = m.page) := fun ⟨a, b⟩ => hm ⟨a.symm, b.symm⟩
        simp [this, hm']

/-- redoing the frames a statement logs = performing the statement's mutations -/
theorem redo_framesList (pg : Pages) (ms : List Mut) : redo pg (framesList ms) = applyMuts pg ms := by
  funext f p
  rw [framesList, redo_frames_apply, applyMuts_apply]

/-- pointwise: the redo result at a page depends only on the base value at that page -/
theorem redo_congr_at (w : List Frame) : ∀ (a b : Pages) (f p : Nat), a f p = b f p →
    redo a w f p = redo b w f p := by
  induction w with
  | nil => intro a b f p h; simpa [redo] using h
  | cons fr w ih =>
    intro a b f p h
    rw [redo_cons, redo_cons]
    apply ih
    simp only [setPg_apply]
    split <;> simp [h]

/-! ### events that touch neither durability nor acknowledgement -/

def quiet : Event → Bool
  | .mut .. => true
  | .walWrite .. => true
  | _ => false

theorem run_quiet (es : List Event) : ∀ (s : State), (∀ e ∈ es, quiet e = true) →
    (run s es).dur = s.dur ∧ (run s es).walOs = s.walOs ∧ (run s es).walDur = s.walDur := by
  induction es with
  | nil => intro s _; simp [run]
  | cons e es ih =>
    intro s h
    have he := h e (by simp)
    have hes : ∀ x ∈ es, quiet x = true := fun x hx => h x (by simp [hx])
    rw [run_cons]
    obtain ⟨h1, h2, h3⟩ := ih (step s e) hes
    cases e <;> simp_all [step, quiet]

theorem ackCount_quiet (es : List Event) (h : ∀ e ∈ es, quiet e = true) : ackCount es = 0 := by
  unfold ackCount
  rw [List.length_eq_zero_iff, List.filter_eq_nil_iff]
  intro e he
  have := h e he
  cases e <;> simp_all [quiet]

theorem ackCount_append (a b : List Event) : ackCount (a ++ b) = ackCount a + ackCount b := by
  simp [ackCount, List.filter_append]

def mutEvents (ms : List Mut) : List Event := ms.map (fun m => Event.mut m.file m.page m.img)

theorem stmtTrace_eq (ms : Stmt) :
    stmtTrace ms = (mutEvents ms ++ framesOf ms) ++ [Event.walSync, Event.ack] := by
  simp [stmtTrace, mutEvents]

theorem quiet_body (ms : Stmt) : ∀ e ∈ mutEvents ms ++ framesOf ms, quiet e = true := by
  intro e he
  simp only [List.mem_append, mutEvents, framesOf, List.mem_map] at he
  rcases he with ⟨m, _, rfl⟩ | ⟨m, _, rfl⟩ <;> rfl

theorem run_mutEvents (ms : List Mut) : ∀ (s : State),
    (run s (mutEvents ms)).walBuf = s.walBuf ∧ (run s (mutEvents ms)).vol = applyMuts s.vol ms := by
  induction ms with
  | nil => intro s; simp [run, mutEvents, applyMuts]
  | cons m ms ih =>
    intro s
    have := ih (step s (Event.mut m.file m.page m.img))
    simp only [mutEvents, List.map_cons, run_cons] at this ⊢
    simpa [step, applyMuts_cons] using this

theorem run_walWrites (L : Nat → Nat → Nat) (l : List Mut) : ∀ (s : State),
    (run s (l.map (fun m => Event.walWrite m.file m.page (L m.file m.page)))).walBuf
      = s.walBuf ++ l.map (frameOf L) ∧
    (run s (l.map (fun m => Event.walWrite m.file m.page (L m.file m.page)))).vol = s.vol := by
  induction l with
  | nil => intro s; simp [run]
  | cons m l ih =>
    intro s
    have := ih (step s (Event.walWrite m.file m.page (L m.file m.page)))
    simp only [List.map_cons, run_cons]
    simpa [step, frameOf, List.append_assoc] using this

/-- state after the mutation + logging part of a statement -/
theorem run_body (ms : Stmt) (s : State) :
    let s' := run s (mutEvents ms ++ framesOf ms)
    s'.walBuf = s.walBuf ++ framesList ms ∧ s'.vol = applyMuts s.vol ms ∧
    s'.dur = s.dur ∧ s'.walOs = s.walOs ∧ s'.walDur = s.walDur := by
  have hq := run_quiet _ s (quiet_body ms)
  refine ⟨?_, ?_, hq.1, hq.2.1, hq.2.2⟩
  · rw [run_append]
    have h1 := run_mutEvents ms s
    have h2 := run_walWrites (lastImg ms) ms (run s (mutEvents ms))
    simp only [framesOf, framesList]
    rw [h2.1, h1.1]
  · rw [run_append]
    have h1 := run_mutEvents ms s
    have h2 := run_walWrites (lastImg ms) ms (run s (mutEvents ms))
    simp only [framesOf]
    rw [h2.2, h1.2]

end TurVerif.Commit
