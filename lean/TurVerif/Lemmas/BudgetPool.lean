import TurVerif.Model.Budget
/-!
C39: when every operation of every thread is an `alloc` on ONE pool `p` (no releases), the
check-then-CAS of `MemoryBudget::allocate` is safe for any number of threads and any schedule:
the only counter that changes is `used[p]`, it only grows, and a successful compare-exchange proves
it still has the value that was loaded before `total_used()` was computed — so the total that was
checked against the limit is still the total.

Invariant per thread with locals `(p, b, cur, …)`: `cur ≤ used[p]`, and IF `cur = used[p]` (the
CAS would succeed) THEN the thread's partial sum / checked total is exact for the current state.
-/
namespace TurVerif.Budget

/-! ### list helpers -/

theorem getD_set' (l : List Nat) (p q v : Nat) :
    (l.set p v).getD q 0 = if p = q ∧ p < l.length then v else l.getD q 0 := by
  simp only [List.getD_eq_getElem?_getD, List.getElem?_set]
  by_cases h : p = q
  · subst h
    by_cases h2 : p < l.length
    · simp [h2]
    · simp [h2]
  · simp [h]

theorem len5' (l : List Nat) (h : l.length = 5) : ∃ a b c d e, l = [a, b, c, d, e] := by
  match l, h with
  | [a, b, c, d, e], _ => exact ⟨a, b, c, d, e, rfl⟩

/-- partial sum of the first `i` counters -/
def psum (u : List Nat) (i : Nat) : Nat := (u.take i).foldl (· + ·) 0

theorem psum_zero (u : List Nat) : psum u 0 = 0 := by simp [psum]

theorem psum_succ (u : List Nat) (h : u.length = 5) (i : Nat) (hi : i < 5) :
    psum u (i + 1) = psum u i + u.getD i 0 := by
  obtain ⟨a, b, c, d, e, rfl⟩ := len5' u h
  have : i = 0 ∨ i = 1 ∨ i = 2 ∨ i = 3 ∨ i = 4 := by omega
  rcases this with rfl | rfl | rfl | rfl | rfl <;> simp [psum]

theorem psum_five (s : State) (h : s.used.length = 5) : psum s.used 5 = s.totalUsed := by
  obtain ⟨a, b, c, d, e, hu⟩ := len5' s.used h
  simp [psum, State.totalUsed, hu]

theorem total_set (u : List Nat) (h : u.length = 5) (p v : Nat) (hp : p < 5) :
    (u.set p v).foldl (· + ·) 0 + u.getD p 0 = u.foldl (· + ·) 0 + v := by
  obtain ⟨a, b, c, d, e, rfl⟩ := len5' u h
  have : p = 0 ∨ p = 1 ∨ p = 2 ∨ p = 3 ∨ p = 4 := by omega
  rcases this with rfl | rfl | rfl | rfl | rfl <;> simp <;> omega

theorem set_of_ge (u : List Nat) (p v : Nat) (hp : u.length ≤ p) : u.set p v = u := by
  apply List.ext_getElem?
  intro i
  rw [List.getElem?_set]
  by_cases h : p = i
  · subst h
    simp [Nat.not_lt.mpr hp]
  · simp [h]

/-! ### the invariant -/

/-- what the locals of a thread inside `allocate(p, b)` say about counters `u` and limit `lim` -/
def PcOk (p : Nat) (u : List Nat) (lim : Nat) : Pc → Prop
  | .idle => True
  | .aLoadPool p' b => p' = p ∧ 0 < b
  | .aTot p' b cur i acc => p' = p ∧ 0 < b ∧ i < 5 ∧ cur ≤ u.getD p 0 ∧
      (cur = u.getD p 0 → acc = psum u i)
  | .aLimit p' b cur tot => p' = p ∧ 0 < b ∧ cur ≤ u.getD p 0 ∧
      (cur = u.getD p 0 → tot = u.foldl (· + ·) 0)
  | .aShrLimit p' b cur => p' = p ∧ 0 < b ∧ cur ≤ u.getD p 0 ∧
      (cur = u.getD p 0 → u.foldl (· + ·) 0 + b ≤ lim)
  | .aShrTot p' b cur _ _ _ => p' = p ∧ 0 < b ∧ cur ≤ u.getD p 0 ∧
      (cur = u.getD p 0 → u.foldl (· + ·) 0 + b ≤ lim)
  | .aCas p' b cur => p' = p ∧ 0 < b ∧ cur ≤ u.getD p 0 ∧
      (cur = u.getD p 0 → u.foldl (· + ·) 0 + b ≤ lim)
  | .rLoad .. => False
  | .rCas .. => False

/-- every remaining operation is an allocation on pool `p` -/
def ProgOk (p : Nat) (prog : List Op) : Prop := ∀ op ∈ prog, ∃ b, op = .alloc p b

def ThOk (p : Nat) (u : List Nat) (lim : Nat) (t : Thread) : Prop :=
  ProgOk p t.prog ∧ PcOk p u lim t.pc

structure PoolInv (p : Nat) (s : State) : Prop where
  len : s.used.length = 5
  tot : s.totalUsed ≤ s.limit
  th : ∀ (i : Nat) (t : Thread), s.threads[i]? = some t → ThOk p s.used s.limit t

/-- another thread's successful CAS on pool `p < 5` (by `b > 0`) keeps every thread's `PcOk`:
its `cur` is now strictly below the counter, so nothing is claimed any more -/
theorem pcOk_bump {p : Nat} {u : List Nat} {lim : Nat} {pc : Pc} (hl : u.length = 5) (hp : p < 5)
    {b : Nat} (hb : 0 < b) (h : PcOk p u lim pc) :
    PcOk p (u.set p (u.getD p 0 + b)) lim pc := by
  have e : (u.set p (u.getD p 0 + b)).getD p 0 = u.getD p 0 + b := by
    rw [getD_set']; simp [hl, hp]
  cases pc with
  | idle => trivial
  | aLoadPool p' b' => exact h
  | aTot p' b' cur i acc =>
    obtain ⟨h1, h2, h3, h4, _⟩ := h
    exact ⟨h1, h2, h3, by rw [e]; omega, fun hc => by rw [e] at hc; omega⟩
  | aLimit p' b' cur tot =>
    obtain ⟨h1, h2, h4, _⟩ := h
    exact ⟨h1, h2, by rw [e]; omega, fun hc => by rw [e] at hc; omega⟩
  | aShrLimit p' b' cur =>
    obtain ⟨h1, h2, h4, _⟩ := h
    exact ⟨h1, h2, by rw [e]; omega, fun hc => by rw [e] at hc; omega⟩
  | aShrTot p' b' cur l i acc =>
    obtain ⟨h1, h2, h4, _⟩ := h
    exact ⟨h1, h2, by rw [e]; omega, fun hc => by rw [e] at hc; omega⟩
  | aCas p' b' cur =>
    obtain ⟨h1, h2, h4, _⟩ := h
    exact ⟨h1, h2, by rw [e]; omega, fun hc => by rw [e] at hc; omega⟩
  | rLoad _ _ => exact h
  | rCas _ _ _ => exact h

/-- a step of `tid` that leaves the counters alone -/
theorem pool_keep {p : Nat} {s : State} {tid : Nat} {t' : Thread} (h : PoolInv p s)
    (ht' : ThOk p s.used s.limit t') : PoolInv p (setThread s tid t') := by
  refine ⟨h.len, h.tot, ?_⟩
  intro i t hi
  simp only [setThread, List.getElem?_set] at hi
  split at hi
  · split at hi
    · injection hi with hi; subst hi; exact ht'
    · cases hi
  · exact h.th i t hi

/-- the successful CAS of `tid` -/
theorem pool_cas {p : Nat} {s : State} {tid : Nat} {t' : Thread} {b : Nat} {al : List Nat}
    (h : PoolInv p s) (hb : 0 < b) (hchk : s.totalUsed + b ≤ s.limit)
    (ht' : ProgOk p t'.prog ∧ t'.pc = .idle) :
    PoolInv p (setThread { s with used := s.used.set p (s.used.getD p 0 + b), allocd := al } tid t') := by
  by_cases hp : p < 5
  · refine ⟨by simp [setThread, h.len], ?_, ?_⟩
    · have := total_set s.used h.len p (s.used.getD p 0 + b) hp
      simp only [setThread, State.totalUsed] at *
      omega
    · intro i t hi
      simp only [setThread, List.getElem?_set] at hi
      split at hi
      · split at hi
        · injection hi with hi; subst hi
          exact ⟨ht'.1, by rw [ht'.2]; trivial⟩
        · cases hi
      · have := h.th i t hi
        exact ⟨this.1, pcOk_bump h.len hp hb this.2⟩
  · have e : s.used.set p (s.used.getD p 0 + b) = s.used := set_of_ge _ _ _ (by rw [h.len]; omega)
    rw [e]
    refine ⟨h.len, h.tot, ?_⟩
    intro i t hi
    simp only [setThread, List.getElem?_set] at hi
    split at hi
    · split at hi
      · injection hi with hi; subst hi
        exact ⟨ht'.1, by rw [ht'.2]; trivial⟩
      · cases hi
    · exact h.th i t hi

theorem progOk_tail {p : Nat} {op : Op} {rest : List Op} (h : ProgOk p (op :: rest)) :
    ProgOk p rest := fun o ho => h o (List.mem_cons_of_mem _ ho)

theorem pool_step {p : Nat} {s s' : State} {tid : Nat} (h : PoolInv p s)
    (hs : step s tid = some s') : PoolInv p s' := by
  unfold step at hs
  cases hth : s.threads[tid]? with
  | none => simp [hth] at hs
  | some t =>
    obtain ⟨hprog, hpc⟩ := h.th tid t hth
    simp only [hth] at hs
    cases hq : t.pc with
    | idle =>
      simp only [hq] at hs
      split at hs
      · cases hs
      · rename_i p' b rest hpr
        have hop : ∃ b', Op.alloc p' b = Op.alloc p b' := hprog _ (by rw [hpr]; exact List.mem_cons_self)
        obtain ⟨b', hb'⟩ := hop
        injection hb' with e1 e2
        subst e1
        have hrest : ProgOk p' rest := progOk_tail (by rw [← hpr]; exact hprog)
        split at hs
        · injection hs with hs; subst hs
          exact pool_keep h ⟨hrest, trivial⟩
        · rename_i hb
          injection hs with hs; subst hs
          exact pool_keep h ⟨hrest, ⟨rfl, Nat.pos_of_ne_zero hb⟩⟩
      · rename_i p' b rest hpr
        obtain ⟨b', hb'⟩ := hprog _ (by rw [hpr]; exact List.mem_cons_self)
        cases hb'
    | aLoadPool p' b =>
      simp only [hq] at hs hpc
      obtain ⟨rfl, hb⟩ := hpc
      injection hs with hs; subst hs
      refine pool_keep h ⟨hprog, rfl, hb, by omega, Nat.le_refl _, fun _ => (psum_zero _).symm⟩
    | aTot p' b cur i acc =>
      simp only [hq] at hs hpc
      obtain ⟨rfl, hb, hi, hle, hacc⟩ := hpc
      split at hs
      · rename_i hlt
        injection hs with hs; subst hs
        refine pool_keep h ⟨hprog, rfl, hb, hlt, hle, ?_⟩
        intro hc
        rw [psum_succ _ h.len i hi, hacc hc]
      · rename_i hlt
        injection hs with hs; subst hs
        refine pool_keep h ⟨hprog, rfl, hb, hle, ?_⟩
        intro hc
        have : i = 4 := by omega
        subst this
        have e := psum_succ s.used h.len 4 (by omega)
        have e5 := psum_five s h.len
        simp only [State.totalUsed] at e5
        rw [hacc hc, ← e, e5]
    | aLimit p' b cur tot =>
      simp only [hq] at hs hpc
      obtain ⟨rfl, hb, hle, htot⟩ := hpc
      split at hs
      · injection hs with hs; subst hs
        exact pool_keep h ⟨hprog, trivial⟩
      · rename_i hnot
        have hchk : cur = s.used.getD p' 0 → s.used.foldl (· + ·) 0 + b ≤ s.limit := by
          intro hc; rw [← htot hc]; omega
        split at hs
        · injection hs with hs; subst hs
          exact pool_keep h ⟨hprog, rfl, hb, hle, hchk⟩
        · injection hs with hs; subst hs
          exact pool_keep h ⟨hprog, rfl, hb, hle, hchk⟩
    | aShrLimit p' b cur =>
      simp only [hq] at hs hpc
      injection hs with hs; subst hs
      exact pool_keep h ⟨hprog, hpc⟩
    | aShrTot p' b cur lim i acc =>
      simp only [hq] at hs hpc
      split at hs
      · injection hs with hs; subst hs
        exact pool_keep h ⟨hprog, hpc⟩
      · split at hs
        · injection hs with hs; subst hs
          exact pool_keep h ⟨hprog, trivial⟩
        · injection hs with hs; subst hs
          exact pool_keep h ⟨hprog, hpc⟩
    | aCas p' b cur =>
      simp only [hq] at hs hpc
      obtain ⟨rfl, hb, hle, hchk⟩ := hpc
      split at hs
      · rename_i hc
        injection hs with hs; subst hs
        have hchk' := hchk hc.symm
        rw [← hc]
        exact pool_cas h hb hchk' ⟨hprog, rfl⟩
      · injection hs with hs; subst hs
        exact pool_keep h ⟨hprog, rfl, hb⟩
    | rLoad p' b => simp only [hq] at hpc; exact hpc.elim
    | rCas p' b cur => simp only [hq] at hpc; exact hpc.elim

theorem pool_run {p : Nat} {s : State} (h : PoolInv p s) (sched : List Nat) :
    PoolInv p (run s sched) := by
  induction sched generalizing s with
  | nil => exact h
  | cons tid rest ih =>
    simp only [run]
    cases hs : step s tid with
    | none => simpa using ih h
    | some s' => exact ih (pool_step h hs)

theorem pool_init (p limit : Nat) (progs : List (List Op))
    (hall : ∀ prog ∈ progs, ∀ op ∈ prog, ∃ b, op = .alloc p b) : PoolInv p (init limit progs) := by
  refine ⟨rfl, by simp [init, State.totalUsed], ?_⟩
  intro i t hi
  simp only [init, List.getElem?_map] at hi
  cases hq : progs[i]? with
  | none => rw [hq] at hi; cases hi
  | some prog =>
    rw [hq] at hi
    simp only [Option.map_some, Option.some.injEq] at hi
    subst hi
    exact ⟨hall prog (List.mem_of_getElem? hq), trivial⟩

end TurVerif.Budget
