import TurVerif.Lemmas.Freelist
/-! Invariant of the freelist model (both variants of `allocate`) and its preservation by every
    step; ghost-state histories (`Reach`).  Used by Props/C34. -/
namespace TurVerif.C34
open TurVerif.Freelist

/-! ### invariant -/

/-- shape of the trunk chain `ts` hanging off `s.head` -/
structure Core (s : St) (ts : List Nat) : Prop where
  chain : Chain s s.head ts
  nodup : (items s ts).Nodup
  cnt : ∀ t ∈ ts, (s.page t).count ≤ TRUNK_MAX
  full : ∀ t ∈ ts.tail, (s.page t).count = TRUNK_MAX
  np : 0 < s.npages

theorem core_init (n : Nat) (hn : 0 < n) : Core (St.init n) [] :=
  ⟨rfl, by simp [items], by simp, by simp, hn⟩

theorem not_mem_tail_of_nodup {s : St} {t : Nat} {ts : List Nat}
    (h : (items s (t :: ts)).Nodup) : t ∉ ts := by
  intro hm
  have h2 := mem_items_of_mem (s := s) hm
  simp only [items] at h
  have := (List.nodup_append.mp h).2.1
  rw [List.nodup_cons] at this
  exact this.1 h2

/-- client writes to a page outside the chain's items change nothing the freelist looks at -/
theorem core_write {s : St} {ts : List Nat} {p : Nat} {v : Page} (hc : Core s ts)
    (hp : p ∉ items s ts) :
    Core (clientWrite s p v) ts ∧ items (clientWrite s p v) ts = items s ts
      ∧ (clientWrite s p v).head = s.head ∧ (clientWrite s p v).freeCount = s.freeCount
      ∧ (clientWrite s p v).npages = s.npages := by
  unfold clientWrite
  split
  · exact ⟨hc, rfl, rfl, rfl, rfl⟩
  · have hfr : ∀ t ∈ ts, (s.setPage p v).page t = s.page t := by
      intro t ht
      have : t ≠ p := fun e => hp (e ▸ mem_items_of_mem ht)
      simp [this]
    have hi := items_congr (s := s) (s' := s.setPage p v) hfr
    refine ⟨⟨?_, ?_, ?_, ?_, hc.np⟩, hi, rfl, rfl, rfl⟩
    · exact Chain_congr (s := s) (s' := s.setPage p v) rfl hfr hc.chain
    · rw [hi]; exact hc.nodup
    · intro t ht; rw [hfr t ht]; exact hc.cnt t ht
    · intro t ht; rw [hfr t (List.mem_of_mem_tail ht)]; exact hc.full t ht

/-- what the freelist code can observe of a state -/
structure Obs (s' : St) (h f n : Nat) (pg : Nat → Page) : Prop where
  head : s'.head = h
  fc : s'.freeCount = f
  np : s'.npages = n
  page : ∀ q, s'.page q = pg q

/-- a fresh page `p` becomes the new head trunk, pointing at the old head
    (`initialize_trunk` when the old head is 0, `create_new_trunk` otherwise) -/
theorem core_new_head {s s' : St} {ts : List Nat} {p f : Nat} (hc : Core s ts)
    (hp0 : p ≠ 0) (hpn : p < s.npages) (hp : p ∉ items s ts)
    (hfull : ∀ t ∈ ts.head?, (s.page t).count = TRUNK_MAX)
    (ho : Obs s' p f s.npages (fun q => if q = p then trunkInit (s.page p) s.head else s.page q)) :
    Core s' (p :: ts) ∧ items s' (p :: ts) = p :: items s ts := by
  have hfr : ∀ t ∈ ts, s'.page t = s.page t := by
    intro t ht
    have : t ≠ p := fun e => hp (e ▸ mem_items_of_mem ht)
    rw [ho.page]; simp [this]
  have hpp : s'.page p = trunkInit (s.page p) s.head := by rw [ho.page]; simp
  have hi : items s' (p :: ts) = p :: items s ts := by
    rw [items, hpp, items_congr hfr]; rfl
  refine ⟨⟨?_, ?_, ?_, ?_, by rw [ho.np]; exact hc.np⟩, hi⟩
  · rw [ho.head]
    refine ⟨rfl, hp0, by rw [ho.np]; exact hpn, ?_⟩
    rw [hpp]
    exact Chain_congr ho.np hfr hc.chain
  · rw [hi]; exact List.nodup_cons.mpr ⟨hp, hc.nodup⟩
  · intro t ht
    rcases List.mem_cons.mp ht with rfl | ht'
    · rw [hpp]; simp [trunkInit]
    · rw [hfr t ht']; exact hc.cnt t ht'
  · intro t ht
    have ht' : t ∈ ts := by simpa using ht
    rw [hfr t ht']
    cases ts with
    | nil => cases ht'
    | cons u us =>
      rcases List.mem_cons.mp ht' with rfl | h2
      · exact hfull t (by simp)
      · exact hc.full t (by simpa using h2)

/-- push `p` into slot `count` of the head trunk -/
theorem core_push {s s' : St} {t : Nat} {ts : List Nat} {p f : Nat} (hc : Core s (t :: ts))
    (hlt : (s.page t).count < TRUNK_MAX) (hp : p ∉ items s (t :: ts))
    (ho : Obs s' t f s.npages (fun q => if q = t then
      { s.page t with slots := setSlot (s.page t).slots (s.page t).count p,
                      count := (s.page t).count + 1 } else s.page q)) :
    Core s' (t :: ts) ∧ items s' (t :: ts) = p :: items s (t :: ts) := by
  have hnt : t ∉ ts := not_mem_tail_of_nodup hc.nodup
  obtain ⟨hh, ht0, htn, hrest⟩ := hc.chain
  have hfr : ∀ u ∈ ts, s'.page u = s.page u := by
    intro u hu
    have : u ≠ t := fun e => hnt (e ▸ hu)
    rw [ho.page]; simp [this]
  let pg := s.page t
  have hhd : s'.page t = { pg with slots := setSlot pg.slots pg.count p, count := pg.count + 1 } := by
    rw [ho.page]; simp [pg]
  have hents : ents (s'.page t) (pg.count + 1) = p :: ents pg pg.count := by
    simp only [ents]
    have h1 : (s'.page t).slot pg.count = p := by
      rw [hhd]
      show (setSlot pg.slots pg.count p).getD pg.count 0 = p
      rw [slot_setSlot]; simp
    have h2 : ents (s'.page t) pg.count = ents pg pg.count := by
      apply ents_congr
      intro i hi
      rw [hhd]
      show (setSlot pg.slots pg.count p).getD i 0 = pg.slots.getD i 0
      rw [slot_setSlot]
      have : i ≠ pg.count := by omega
      simp [this]
    rw [h1, h2]
  have hcount : (s'.page t).count = pg.count + 1 := by rw [hhd]
  have hlt' : pg.count < TRUNK_MAX := hlt
  have hi : items s' (t :: ts) = p :: items s (t :: ts) := by
    rw [items, hcount, hents, items_congr hfr]; rfl
  refine ⟨⟨?_, ?_, ?_, ?_, by rw [ho.np]; exact hc.np⟩, hi⟩
  · rw [ho.head]
    refine ⟨rfl, ht0, by rw [ho.np]; exact htn, ?_⟩
    have : (s'.page t).next = pg.next := by rw [hhd]
    rw [this]
    exact Chain_congr ho.np hfr hrest
  · rw [hi]; exact List.nodup_cons.mpr ⟨hp, hc.nodup⟩
  · intro u hu
    rcases List.mem_cons.mp hu with rfl | hu'
    · rw [hcount]; show pg.count + 1 ≤ TRUNK_MAX; omega
    · rw [hfr u hu']; exact hc.cnt u (by simp [hu'])
  · intro u hu
    have hu' : u ∈ ts := by simpa using hu
    rw [hfr u hu']; exact hc.full u (by simpa using hu')

/-- pop the top entry of the head trunk (head stays) -/
theorem core_pop {s s' : St} {t : Nat} {ts : List Nat} {f : Nat} (hc : Core s (t :: ts))
    (hpos : 0 < (s.page t).count)
    (ho : Obs s' t f s.npages (fun q => if q = t then
      { s.page t with count := (s.page t).count - 1 } else s.page q)) :
    Core s' (t :: ts) ∧
      items s (t :: ts) = (s.page t).slot ((s.page t).count - 1) :: items s' (t :: ts) := by
  have hnt : t ∉ ts := not_mem_tail_of_nodup hc.nodup
  obtain ⟨hh, ht0, htn, hrest⟩ := hc.chain
  have hfr : ∀ u ∈ ts, s'.page u = s.page u := by
    intro u hu
    have : u ≠ t := fun e => hnt (e ▸ hu)
    rw [ho.page]; simp [this]
  let pg := s.page t
  have hhd : s'.page t = { pg with count := pg.count - 1 } := by
    rw [ho.page]; simp [pg]
  have hcount : (s'.page t).count = pg.count - 1 := by rw [hhd]
  have hpos' : 0 < pg.count := hpos
  have hcnt' : pg.count ≤ TRUNK_MAX := hc.cnt t (by simp)
  have hents : ents pg pg.count = pg.slot (pg.count - 1) :: ents (s'.page t) (pg.count - 1) := by
    obtain ⟨k, hk⟩ : ∃ k, pg.count = k + 1 := ⟨pg.count - 1, by omega⟩
    rw [hk]
    simp only [ents, Nat.add_sub_cancel]
    congr 1
    apply ents_congr
    intro i _
    rw [hhd]; rfl
  have hi : items s (t :: ts) = pg.slot (pg.count - 1) :: items s' (t :: ts) := by
    rw [items, items, hcount, items_congr hfr]
    show ents pg pg.count ++ _ = _
    rw [hents]; rfl
  have hnd : (items s' (t :: ts)).Nodup := by
    have := hc.nodup
    rw [hi] at this
    exact (List.nodup_cons.mp this).2
  refine ⟨⟨?_, hnd, ?_, ?_, by rw [ho.np]; exact hc.np⟩, hi⟩
  · rw [ho.head]
    refine ⟨rfl, ht0, by rw [ho.np]; exact htn, ?_⟩
    have : (s'.page t).next = pg.next := by rw [hhd]
    rw [this]
    exact Chain_congr ho.np hfr hrest
  · intro u hu
    rcases List.mem_cons.mp hu with rfl | hu'
    · rw [hcount]
      show pg.count - 1 ≤ TRUNK_MAX
      omega
    · rw [hfr u hu']; exact hc.cnt u (by simp [hu'])
  · intro u hu
    have hu' : u ∈ ts := by simpa using hu
    rw [hfr u hu']; exact hc.full u (by simpa using hu')

/-- the head moves to the successor of the head trunk; no page changes -/
theorem core_drop {s s' : St} {t : Nat} {ts : List Nat} {f : Nat} (hc : Core s (t :: ts))
    (ho : Obs s' (s.page t).next f s.npages s.page) :
    Core s' ts ∧ items s' ts = items s ts := by
  obtain ⟨hh, ht0, htn, hrest⟩ := hc.chain
  have hfr : ∀ u ∈ ts, s'.page u = s.page u := fun u _ => ho.page u
  have hi : items s' ts = items s ts := items_congr hfr
  refine ⟨⟨?_, ?_, ?_, ?_, by rw [ho.np]; exact hc.np⟩, hi⟩
  · rw [ho.head]; exact Chain_congr ho.np hfr hrest
  · rw [hi]
    have := hc.nodup
    simp only [items] at this
    exact (List.nodup_cons.mp (List.nodup_append.mp this).2.1).2
  · intro u hu; rw [hfr u hu]; exact hc.cnt u (by simp [hu])
  · intro u hu
    rw [hfr u (List.mem_of_mem_tail hu)]
    exact hc.full u (by simpa using List.mem_of_mem_tail hu)

/-- `release` of a page outside the chain succeeds and pushes it onto the items -/
theorem core_release {s : St} {ts : List Nat} {p : Nat} (hc : Core s ts)
    (hp0 : p ≠ 0) (hpn : p < s.npages) (hp : p ∉ items s ts) :
    (release s p).2 = true ∧ (release s p).1.npages = s.npages ∧
    (release s p).1.freeCount = (if s.head = 0 then 1 else s.freeCount + 1) ∧
    (release s p).1.page 0 = s.page 0 ∧
    ∃ ts', Core (release s p).1 ts' ∧ items (release s p).1 ts' = p :: items s ts := by
  have hnp : ¬ s.npages ≤ p := by omega
  by_cases hh : s.head = 0
  · have hts : ts = [] := Chain_head_zero (hh ▸ hc.chain)
    subst hts
    have ho : Obs (release s p).1 p 1 s.npages
        (fun q => if q = p then trunkInit (s.page p) s.head else s.page q) := by
      simp only [release, hh, if_true, hnp, if_false]
      exact ⟨rfl, rfl, rfl, fun q => page_setPage s p q _⟩
    have h2 : (release s p).2 = true := by simp [release, hh, hnp]
    refine ⟨h2, ho.np, by rw [ho.fc]; simp [hh], ?_, [p], core_new_head hc hp0 hpn hp (by simp) ho⟩
    rw [ho.page]; simp [Ne.symm hp0]
  · obtain ⟨ts', rfl⟩ := Chain_head_ne hc.chain hh
    obtain ⟨-, -, hlt, -⟩ := hc.chain
    have hnh : ¬ s.npages ≤ s.head := by omega
    by_cases hfull : TRUNK_MAX ≤ (s.page s.head).count
    · have ho : Obs (release s p).1 p (s.freeCount + 1) s.npages
          (fun q => if q = p then trunkInit (s.page p) s.head else s.page q) := by
        simp only [release, hh, if_false, hnh, hfull, if_true, hnp]
        exact ⟨rfl, rfl, rfl, fun q => page_setPage s p q _⟩
      have h2 : (release s p).2 = true := by simp [release, hh, hnh, hfull, hnp]
      have hf : ∀ t ∈ (s.head :: ts').head?, (s.page t).count = TRUNK_MAX := by
        intro t ht
        have : t = s.head := by simpa using ht.symm
        subst this
        have := hc.cnt s.head (by simp); omega
      refine ⟨h2, ho.np, by rw [ho.fc]; simp [hh], ?_, p :: s.head :: ts',
        core_new_head hc hp0 hpn hp hf ho⟩
      rw [ho.page]; simp [Ne.symm hp0]
    · have ho : Obs (release s p).1 s.head (s.freeCount + 1) s.npages
          (fun q => if q = s.head then
            { s.page s.head with slots := setSlot (s.page s.head).slots (s.page s.head).count p,
                                 count := (s.page s.head).count + 1 } else s.page q) := by
        simp only [release, hh, if_false, hnh, hfull]
        exact ⟨rfl, rfl, rfl, fun q => page_setPage s s.head q _⟩
      have h2 : (release s p).2 = true := by simp [release, hh, hnh, hfull]
      refine ⟨h2, ho.np, by rw [ho.fc]; simp [hh], ?_, s.head :: ts',
        core_push hc (by omega) hp ho⟩
      rw [ho.page]; simp [Ne.symm hh]

/-- pages a result hands to the client -/
def resPages : Res → List Nat
  | .page p => [p]
  | _ => []

theorem chain_cons_of_items_pos {s : St} {ts : List Nat} (hc : Core s ts)
    (h : 0 < (items s ts).length) :
    ∃ ts', ts = s.head :: ts' ∧ s.head ≠ 0 ∧ s.head < s.npages := by
  cases ts with
  | nil => simp [items] at h
  | cons t ts' =>
    obtain ⟨h1, h2, h3, -⟩ := hc.chain
    exact ⟨ts', by rw [h1], by rw [h1]; exact h2, by rw [h1]; exact h3⟩

/-! ### repaired `allocate` -/

theorem core_allocateFixed {s : St} {ts : List Nat} (hc : Core s ts)
    (hf : s.freeCount = (items s ts).length) :
    ∃ ts', Core (allocateFixed s).1 ts' ∧
      items s ts = resPages (allocateFixed s).2 ++ items (allocateFixed s).1 ts' ∧
      (allocateFixed s).1.freeCount = (items (allocateFixed s).1 ts').length ∧
      (allocateFixed s).1.npages = s.npages ∧
      (s.freeCount = 0 → (allocateFixed s).2 = .none) ∧
      (0 < s.freeCount → ∃ p, (allocateFixed s).2 = .page p) := by
  by_cases hz : s.freeCount = 0 ∨ s.head = 0
  · have he : allocateFixed s = (s, .none) := by simp [allocateFixed, hz]
    have hfz : s.freeCount = 0 := by
      rcases hz with h | h
      · exact h
      · have := Chain_head_zero (h ▸ hc.chain)
        subst this
        simpa [items] using hf
    rw [he]
    exact ⟨ts, hc, by simp [resPages], hf, rfl, fun _ => rfl, fun h => by omega⟩
  · have hfc : s.freeCount ≠ 0 := fun h => hz (Or.inl h)
    obtain ⟨ts', rfl, hh, hlt⟩ := chain_cons_of_items_pos hc (by omega)
    have hnh : ¬ s.npages ≤ s.head := by omega
    by_cases hcz : (s.page s.head).count = 0
    · have he : allocateFixed s =
          ({ s with head := (s.page s.head).next, freeCount := s.freeCount - 1 }, .page s.head) := by
        simp [allocateFixed, hz, hnh, hcz]
      rw [he]
      have ho : Obs { s with head := (s.page s.head).next, freeCount := s.freeCount - 1 }
          (s.page s.head).next (s.freeCount - 1) s.npages s.page := ⟨rfl, rfl, rfl, fun _ => rfl⟩
      obtain ⟨hc', hi'⟩ := core_drop hc ho
      have hitems : items s (s.head :: ts') = s.head :: items s ts' := by
        rw [items, hcz]; rfl
      refine ⟨ts', hc', ?_, ?_, rfl, fun h => absurd h hfc, fun _ => ⟨_, rfl⟩⟩
      · rw [hi', hitems]; rfl
      · show s.freeCount - 1 = _
        rw [hi', hf, hitems]; simp
    · have hcm := hc.cnt s.head (by simp)
      have hne : ¬ TRUNK_MAX ≤ (s.page s.head).count - 1 := by omega
      have he : allocateFixed s =
          ({ (s.setPage s.head { s.page s.head with count := (s.page s.head).count - 1 }) with
              freeCount := s.freeCount - 1 },
            .page ((s.page s.head).slot ((s.page s.head).count - 1))) := by
        simp [allocateFixed, hz, hnh, hcz, hne]
      rw [he]
      have ho : Obs { (s.setPage s.head { s.page s.head with count := (s.page s.head).count - 1 })
            with freeCount := s.freeCount - 1 } s.head (s.freeCount - 1) s.npages
          (fun q => if q = s.head then
            { s.page s.head with count := (s.page s.head).count - 1 } else s.page q) :=
        ⟨rfl, rfl, rfl, fun q => page_setPage s s.head q _⟩
      obtain ⟨hc', hi'⟩ := core_pop hc (by omega) ho
      refine ⟨s.head :: ts', hc', ?_, ?_, rfl, fun h => absurd h hfc, fun _ => ⟨_, rfl⟩⟩
      · rw [hi']; rfl
      · have hl := congrArg List.length hi'
        simp only [List.length_cons] at hl
        show s.freeCount - 1 = _
        dsimp only
        omega

/-! ### pinned `allocate` -/

/-- the client keeps the trunk-header bytes (16..24) of its page 0 zero -/
def Page0Clean (s : St) : Prop := (s.page 0).next = 0 ∧ (s.page 0).count = 0

/-- head trunk non-empty: one pop, possibly followed by the head moving on -/
theorem core_allocAux_pop {s : St} {t : Nat} {ts : List Nat} {c fuel : Nat}
    (hc : Core s (t :: ts)) (hf : s.freeCount = (items s (t :: ts)).length + c)
    (hpos : 0 < (s.page t).count) :
    ∃ ts' c' dropped p, (allocAux (fuel + 1) s).2 = .page p ∧ Core (allocAux (fuel + 1) s).1 ts' ∧
      (items s (t :: ts)).Perm (p :: (items (allocAux (fuel + 1) s).1 ts' ++ dropped)) ∧
      (allocAux (fuel + 1) s).1.freeCount = (items (allocAux (fuel + 1) s).1 ts').length + c' ∧
      (allocAux (fuel + 1) s).1.npages = s.npages ∧
      (allocAux (fuel + 1) s).1.page 0 = s.page 0 ∧
      entryCount (allocAux (fuel + 1) s).1 ts' + 1 = entryCount s (t :: ts) := by
  obtain ⟨hh, ht0, htn, hrest⟩ := hc.chain
  have hfc : s.freeCount ≠ 0 := by
    have : 0 < (items s (t :: ts)).length := by simp [items]; omega
    omega
  have hnh : ¬ s.npages ≤ s.head := by omega
  have hcm := hc.cnt t (by simp)
  rw [← hh] at hpos hcm
  have hcz : (s.page s.head).count ≠ 0 := by omega
  have hne : ¬ TRUNK_MAX ≤ (s.page s.head).count - 1 := by omega
  have hT : TRUNK_MAX ≠ 0 := by decide
  -- state after the pop
  let s2 : St := { (s.setPage s.head { s.page s.head with count := (s.page s.head).count - 1 })
      with freeCount := s.freeCount - 1 }
  have ho : Obs s2 t (s.freeCount - 1) s.npages
      (fun q => if q = t then { s.page t with count := (s.page t).count - 1 } else s.page q) := by
    rw [← hh]
    exact ⟨rfl, rfl, rfl, fun q => page_setPage s s.head q _⟩
  rw [hh] at hpos
  obtain ⟨hc2, hi2⟩ := core_pop hc hpos ho
  have hp0 : s2.page 0 = s.page 0 := by rw [ho.page]; simp [Ne.symm ht0]
  have hlen : (items s (t :: ts)).length = (items s2 (t :: ts)).length + 1 := by
    rw [hi2]; simp
  have hent : entryCount s2 (t :: ts) + 1 = entryCount s (t :: ts) := by
    have hfr : ∀ u ∈ ts, s2.page u = s.page u := by
      intro u hu
      have : u ≠ t := fun e => (not_mem_tail_of_nodup hc.nodup) (e ▸ hu)
      rw [ho.page]; simp [this]
    simp only [entryCount]
    rw [entryCount_congr hfr, ho.page]
    simp
    omega
  by_cases hlast : (s.page s.head).count - 1 = 0
  · have he : allocAux (fuel + 1) s =
        ({ s2 with head := (s.page s.head).next },
          .page ((s.page s.head).slot ((s.page s.head).count - 1))) := by
      simp [allocAux, hfc, hnh, hcz, hlast, hT, s2]
    rw [he]
    have hnext : (s2.page t).next = (s.page s.head).next := by rw [ho.page, hh]; simp
    have hcnt0 : (s2.page t).count = 0 := by rw [ho.page, ← hh]; simpa using hlast
    have ho3 : Obs { s2 with head := (s.page s.head).next } (s2.page t).next (s.freeCount - 1)
        s2.npages s2.page := ⟨hnext.symm, rfl, rfl, fun _ => rfl⟩
    obtain ⟨hc3, hi3⟩ := core_drop hc2 ho3
    have hitems2 : items s2 (t :: ts) = t :: items s2 ts := by rw [items, hcnt0]; rfl
    refine ⟨ts, c + 1, [t], _, rfl, hc3, ?_, ?_, rfl, hp0, ?_⟩
    · rw [hi2, hi3, hitems2, hh]
      refine List.Perm.cons _ ?_
      exact (List.perm_append_singleton t (items s2 ts)).symm
    · show s.freeCount - 1 = _
      rw [hi3]
      have : (items s2 (t :: ts)).length = (items s2 ts).length + 1 := by rw [hitems2]; simp
      omega
    · have : entryCount { s2 with head := (s.page s.head).next } ts = entryCount s2 ts :=
        entryCount_congr (fun _ _ => rfl)
      rw [this]
      have : entryCount s2 (t :: ts) = entryCount s2 ts := by simp [entryCount, hcnt0]
      omega
  · have he : allocAux (fuel + 1) s =
        (s2, .page ((s.page s.head).slot ((s.page s.head).count - 1))) := by
      simp [allocAux, hfc, hnh, hcz, hne, hlast, s2]
    rw [he]
    refine ⟨t :: ts, c, [], _, rfl, hc2, ?_, ?_, rfl, hp0, hent⟩
    · rw [hi2, hh]; simp
    · show s.freeCount - 1 = (items s2 (t :: ts)).length + c
      omega

theorem entryCount_zero_of_items_nil {s : St} {ts : List Nat} (h : (items s ts).length = 0) :
    entryCount s ts = 0 := by
  rw [length_items] at h; omega

/-- pinned `allocate`, any fuel ≥ 2, from a state satisfying the invariant with page 0 clean -/
theorem core_allocAux {s : St} {ts : List Nat} {c fuel : Nat} (hc : Core s ts)
    (hf : s.freeCount = (items s ts).length + c) (h0 : Page0Clean s) :
    ∃ ts' c' dropped, Core (allocAux (fuel + 2) s).1 ts' ∧
      (items s ts).Perm (resPages (allocAux (fuel + 2) s).2 ++
        (items (allocAux (fuel + 2) s).1 ts' ++ dropped)) ∧
      (allocAux (fuel + 2) s).1.freeCount = (items (allocAux (fuel + 2) s).1 ts').length + c' ∧
      (allocAux (fuel + 2) s).1.npages = s.npages ∧
      (allocAux (fuel + 2) s).1.page 0 = s.page 0 ∧
      (((allocAux (fuel + 2) s).2 = .none ∧ entryCount s ts = 0 ∧
          entryCount (allocAux (fuel + 2) s).1 ts' = 0) ∨
       ∃ p, (allocAux (fuel + 2) s).2 = .page p ∧
          entryCount (allocAux (fuel + 2) s).1 ts' + 1 = entryCount s ts) := by
  by_cases hfc : s.freeCount = 0
  · have he : allocAux (fuel + 2) s = (s, .none) := by simp [allocAux, hfc]
    rw [he]
    have hl : (items s ts).length = 0 := by omega
    exact ⟨ts, c, [], hc, by simp [resPages], hf, rfl, rfl,
      Or.inl ⟨rfl, entryCount_zero_of_items_nil hl, entryCount_zero_of_items_nil hl⟩⟩
  · cases ts with
    | nil =>
      have hh : s.head = 0 := hc.chain
      have hnh : ¬ s.npages ≤ s.head := by have := hc.np; omega
      have he : allocAux (fuel + 2) s = ({ s with head := 0, freeCount := 0 }, .none) := by
        have h1 : (s.page s.head).count = 0 := by rw [hh]; exact h0.2
        have h2 : (s.page s.head).next = 0 := by rw [hh]; exact h0.1
        simp [allocAux, hfc, hnh, h1, h2]
      rw [he]
      refine ⟨[], 0, [], ⟨rfl, by simp [items], by simp, by simp, hc.np⟩, by simp [resPages, items],
        rfl, rfl, rfl, Or.inl ⟨rfl, rfl, rfl⟩⟩
    | cons t ts' =>
      obtain ⟨hh, ht0, htn, hrest⟩ := hc.chain
      have hnh : ¬ s.npages ≤ s.head := by omega
      by_cases hcz : (s.page t).count = 0
      · have hitems : items s (t :: ts') = t :: items s ts' := by rw [items, hcz]; rfl
        by_cases hnz : (s.page t).next = 0
        · -- last trunk, empty: reset
          have hts' : ts' = [] := Chain_head_zero (hnz ▸ hrest)
          subst hts'
          have he : allocAux (fuel + 2) s = ({ s with head := 0, freeCount := 0 }, .none) := by
            have h1 : (s.page s.head).count = 0 := by rw [hh]; exact hcz
            have h2 : (s.page s.head).next = 0 := by rw [hh]; exact hnz
            simp [allocAux, hfc, hnh, h1, h2]
          rw [he]
          refine ⟨[], 0, [t], ⟨rfl, by simp [items], by simp, by simp, hc.np⟩, ?_,
            rfl, rfl, rfl, Or.inl ⟨rfl, by simp [entryCount, hcz], rfl⟩⟩
          rw [hitems]; simp [resPages, items]
        · -- empty head trunk with a successor: skip it, the successor is full
          have he : allocAux (fuel + 2) s = allocAux (fuel + 1) { s with head := (s.page t).next } := by
            have h1 : (s.page s.head).count = 0 := by rw [hh]; exact hcz
            have h2 : ¬ (s.page s.head).next = 0 := by rw [hh]; exact hnz
            have hnt : ¬ s.npages ≤ t := by omega
            rw [allocAux]
            simp only [hfc, hh, if_false, hnt, hcz, if_true, hnz]
          rw [he]
          have ho : Obs { s with head := (s.page t).next } (s.page t).next s.freeCount s.npages
              s.page := ⟨rfl, rfl, rfl, fun _ => rfl⟩
          obtain ⟨hc1, hi1⟩ := core_drop hc ho
          obtain ⟨ts'', hts''⟩ := Chain_head_ne hrest hnz
          subst hts''
          have hfull : ((St.page { s with head := (s.page t).next }) (s.page t).next).count
              = TRUNK_MAX := hc.full _ (by simp)
          have hT : 0 < TRUNK_MAX := by decide
          have hf1 : (St.freeCount { s with head := (s.page t).next }) =
              (items { s with head := (s.page t).next } ((s.page t).next :: ts'')).length + (c + 1) := by
            show s.freeCount = _
            rw [hi1, hf, hitems]; simp; omega
          obtain ⟨ts3, c3, dr, p, hr, hc3, hperm, hf3, hn3, hp3, hent⟩ :=
            core_allocAux_pop (fuel := fuel) hc1 hf1 (by rw [hfull]; exact hT)
          refine ⟨ts3, c3, dr ++ [t], hc3, ?_, hf3, hn3, hp3, Or.inr ⟨p, hr, ?_⟩⟩
          · rw [hr, hitems]
            rw [hi1] at hperm
            simp only [resPages, List.singleton_append]
            have h1 : (t :: items s ((s.page t).next :: ts'')).Perm
                (t :: p :: (items _ ts3 ++ dr)) := List.Perm.cons t hperm
            refine h1.trans ?_
            refine (List.Perm.swap p t _).trans (List.Perm.cons p ?_)
            rw [← List.append_assoc]
            exact (List.perm_append_singleton t _).symm
          · rw [hent]
            have : entryCount { s with head := (s.page t).next } ((s.page t).next :: ts'')
                = entryCount s ((s.page t).next :: ts'') := entryCount_congr (fun _ _ => rfl)
            rw [this]
            simp [entryCount, hcz]
      · obtain ⟨ts3, c3, dr, p, hr, hc3, hperm, hf3, hn3, hp3, hent⟩ :=
          core_allocAux_pop (fuel := fuel + 1) hc hf (by omega)
        exact ⟨ts3, c3, dr, hc3, by rw [hr]; exact hperm, hf3, hn3, hp3, Or.inr ⟨p, hr, hent⟩⟩

/-! ### histories with ghost state -/

/-- pages released and not handed out since, after an `allocate` with result `r` -/
def freeAfter (g : List Nat) : Res → List Nat
  | .page p => g.erase p
  | _ => g

/-- pages handed out and not released since -/
def allocdAfter (a : List Nat) : Res → List Nat
  | .page p => p :: a
  | _ => a

/-- reachable (state, free ghost, allocated ghost) triples for a client that releases only
    pages it owns and writes only to pages it owns (restricted by `W`) -/
inductive Reach (alloc : St → St × Res) (W : Nat → Page → Prop) : St → List Nat → List Nat → Prop
  | init (n : Nat) (hn : 0 < n) : Reach alloc W (St.init n) [] []
  | release {s g a} (p : Nat) : Reach alloc W s g a → p ≠ 0 → p < s.npages → p ∉ g →
      Reach alloc W (release s p).1 (p :: g) (a.filter (· != p))
  | alloc {s g a} : Reach alloc W s g a →
      Reach alloc W (alloc s).1 (freeAfter g (alloc s).2) (allocdAfter a (alloc s).2)
  | write {s g a} (p : Nat) (v : Page) : Reach alloc W s g a → p ∉ g → W p v →
      Reach alloc W (clientWrite s p v) g a

/-- allocate until something other than a page comes back (at most `n` times) -/
def drain (alloc : St → St × Res) : Nat → St → List Nat
  | 0, _ => []
  | n + 1, s =>
    match (alloc s).2 with
    | .page p => p :: drain alloc n (alloc s).1
    | _ => []

/-- ghost bookkeeping alone: the free ghost has no duplicates and is disjoint from the allocated ghost -/
theorem ghost_disjoint {alloc W s g a} (h : Reach alloc W s g a) :
    g.Nodup ∧ ∀ x ∈ a, x ∉ g := by
  induction h with
  | init n hn => exact ⟨List.nodup_nil, by simp⟩
  | release p _ _ _ hpg ih =>
    refine ⟨List.nodup_cons.mpr ⟨hpg, ih.1⟩, ?_⟩
    intro x hx
    simp only [List.mem_filter, bne_iff_ne, ne_eq] at hx
    simp only [List.mem_cons, not_or]
    exact ⟨hx.2, ih.2 x hx.1⟩
  | @alloc s g a _ ih =>
    cases hr : (alloc s).2 with
    | page p =>
      simp only [freeAfter, allocdAfter]
      refine ⟨ih.1.erase p, ?_⟩
      intro x hx
      rcases List.mem_cons.mp hx with rfl | hx'
      · exact fun hm => (List.Nodup.mem_erase_iff ih.1).mp hm |>.1 rfl
      · exact fun hm => ih.2 x hx' (List.mem_of_mem_erase hm)
    | none => simpa [freeAfter, allocdAfter] using ih
    | err => simpa [freeAfter, allocdAfter] using ih
    | diverge => simpa [freeAfter, allocdAfter] using ih
  | write p v _ _ _ ih => exact ih

/-! ### invariants of the two variants -/

def InvF (s : St) (g : List Nat) : Prop :=
  ∃ ts, Core s ts ∧ (items s ts).Perm g ∧ s.freeCount = (items s ts).length

def InvO (s : St) (g : List Nat) : Prop :=
  ∃ ts orph c, Core s ts ∧ (items s ts ++ orph).Perm g ∧
    s.freeCount = (items s ts).length + c ∧ Page0Clean s

/-- write permission on the proved domain of the pinned code -/
def W0 (p : Nat) (v : Page) : Prop := p = 0 → v.next = 0 ∧ v.count = 0

theorem invF_release {s g p} (h : InvF s g) (hp0 : p ≠ 0) (hpn : p < s.npages) (hpg : p ∉ g) :
    InvF (release s p).1 (p :: g) ∧ (release s p).1.npages = s.npages := by
  obtain ⟨ts, hc, hperm, hf⟩ := h
  have hpi : p ∉ items s ts := fun hm => hpg (hperm.mem_iff.mp hm)
  obtain ⟨-, hn, hfc, -, ts', hc', hi'⟩ := core_release hc hp0 hpn hpi
  refine ⟨⟨ts', hc', by rw [hi']; exact hperm.cons p, ?_⟩, hn⟩
  rw [hfc, hi']
  by_cases hh : s.head = 0
  · have := Chain_head_zero (hh ▸ hc.chain)
    subst this
    simp [hh, items]
  · simp [hh, hf]

theorem invF_alloc {s g} (h : InvF s g) :
    InvF (allocateFixed s).1 (freeAfter g (allocateFixed s).2) ∧
    (allocateFixed s).1.npages = s.npages ∧
    (∀ p, (allocateFixed s).2 = .page p → p ∈ g) ∧
    (s.freeCount = 0 → (allocateFixed s).2 = .none) ∧
    (0 < s.freeCount → ∃ p, (allocateFixed s).2 = .page p) := by
  obtain ⟨ts, hc, hperm, hf⟩ := h
  obtain ⟨ts', hc', hi', hf', hn', hz, hpos⟩ := core_allocateFixed hc hf
  refine ⟨⟨ts', hc', ?_, hf'⟩, hn', ?_, hz, hpos⟩
  · cases hr : (allocateFixed s).2 with
    | page p =>
      rw [hr] at hi'
      simp only [resPages, List.singleton_append] at hi'
      simp only [freeAfter]
      have : (p :: items (allocateFixed s).1 ts').Perm g := hi' ▸ hperm
      have hpg : p ∈ g := this.mem_iff.mp (by simp)
      exact (this.trans (List.perm_cons_erase hpg)).cons_inv
    | none =>
      rw [hr] at hi'; simp only [resPages, List.nil_append] at hi'
      simp only [freeAfter]; rw [← hi']; exact hperm
    | err =>
      rw [hr] at hi'; simp only [resPages, List.nil_append] at hi'
      simp only [freeAfter]; rw [← hi']; exact hperm
    | diverge =>
      rw [hr] at hi'; simp only [resPages, List.nil_append] at hi'
      simp only [freeAfter]; rw [← hi']; exact hperm
  · intro p hr
    rw [hr] at hi'
    exact hperm.mem_iff.mp (by rw [hi']; simp [resPages])

theorem invF_write {s g p v} (h : InvF s g) (hpg : p ∉ g) : InvF (clientWrite s p v) g := by
  obtain ⟨ts, hc, hperm, hf⟩ := h
  have hpi : p ∉ items s ts := fun hm => hpg (hperm.mem_iff.mp hm)
  obtain ⟨hc', hi', -, hfc, -⟩ := core_write (v := v) hc hpi
  exact ⟨ts, hc', by rw [hi']; exact hperm, by rw [hfc, hi']; exact hf⟩

theorem invF_reach {s g a} (h : Reach allocateFixed (fun _ _ => True) s g a) : InvF s g := by
  induction h with
  | init n hn => exact ⟨[], core_init n hn, by simp [items], rfl⟩
  | release p _ hp0 hpn hpg ih => exact (invF_release ih hp0 hpn hpg).1
  | alloc _ ih => exact (invF_alloc ih).1
  | write p v _ hpg _ ih => exact invF_write ih hpg

end TurVerif.C34
