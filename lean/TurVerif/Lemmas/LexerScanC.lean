import TurVerif.Lemmas.LexerScanB
open TurVerif.Lexer
/- C22 helper lemmas: punctuation scanners, comment skipping. -/
namespace TurVerif.LexerLemmas
theorem scanColon_post {bs : Bytes} (hwf : WF bs) {start : Nat} (h : start < bs.size) (ha : B bs start < 128) :
    Post bs start (scanColon bs start) := by
  unfold scanColon
  simp only [adv_lt h]
  by_cases hge : start + 1 ≥ bs.size
  · rw [if_pos hge]; exact Post_mk _ (by omega) (by omega)
  · rw [if_neg hge]
    have h1 : start + 1 < bs.size := by omega
    simp only [rd_lt h1, adv_lt h1]
    split
    · exact Post_mk _ (by omega) (by omega)
    · split
      · exact Post_mk _ (by omega) (by omega)
      · split
        · rename_i hs
          obtain ⟨e, hsw, h2, h3, h4, h5⟩ := scanWhile_spec bs isIdentChar (start + 1) (by omega)
          simp only [hsw]
          have g1 : Good bs (start + 1) := good_after h ha
          exact Post_mkS hwf _ (by omega) h3 h2 h3 g1 (good_scan (fun c => isIdentChar_lt) h3 h2 h4 g1)
        · exact Post_mk _ (by omega) (by omega)

theorem scanAt_post {bs : Bytes} (hwf : WF bs) {start : Nat} (h : start < bs.size) (ha : B bs start < 128) :
    Post bs start (scanAt bs start) := by
  unfold scanAt
  simp only [adv_lt h]
  by_cases hge : start + 1 ≥ bs.size
  · rw [if_pos hge]; exact Post_mk _ (by omega) (by omega)
  · rw [if_neg hge]
    have h1 : start + 1 < bs.size := by omega
    simp only [rd_lt h1, adv_lt h1]
    split
    · exact Post_mk _ (by omega) (by omega)
    · split
      · obtain ⟨e, hsw, h2, h3, h4, h5⟩ := scanWhile_spec bs isIdentChar (start + 1) (by omega)
        simp only [hsw]
        have g1 : Good bs (start + 1) := good_after h ha
        exact Post_mkS hwf _ (by omega) h3 h2 h3 g1 (good_scan (fun c => isIdentChar_lt) h3 h2 h4 g1)
      · exact Post_mk _ (by omega) (by omega)

theorem scanQuestion_post {bs : Bytes} {start : Nat} (h : start < bs.size) :
    Post bs start (scanQuestion bs start) := by
  unfold scanQuestion
  simp only [adv_lt h]
  by_cases hge : start + 1 ≥ bs.size
  · rw [if_pos hge]; exact Post_mk _ (by omega) (by omega)
  · rw [if_neg hge]
    have h1 : start + 1 < bs.size := by omega
    simp only [rd_lt h1, adv_lt h1]
    split
    · exact Post_mk _ (by omega) (by omega)
    · split <;> exact Post_mk _ (by omega) (by omega)

theorem scanPair_post {bs : Bytes} (c2 : Nat) (one two : Kind) {start : Nat} (h : start < bs.size) :
    Post bs start (scanPair bs c2 one two start) := by
  unfold scanPair
  simp only [adv_lt h]
  rcases curSat_cases bs (start + 1) (fun c => c == c2) with ⟨hc, hlt, _⟩ | ⟨hc, _⟩
  · simp only [hc, adv_lt hlt]; exact Post_mk _ (by omega) (by omega)
  · simp only [hc]; exact Post_mk _ (by omega) (by omega)

theorem scanHash_post {bs : Bytes} {start : Nat} (h : start < bs.size) :
    Post bs start (scanHash bs start) := by
  unfold scanHash
  simp only [adv_lt h]
  by_cases hge : start + 1 ≥ bs.size
  · rw [if_pos hge]; exact Post_mk _ (by omega) (by omega)
  · rw [if_neg hge]
    have h1 : start + 1 < bs.size := by omega
    simp only [rd_lt h1, adv_lt h1]
    split
    · rcases curSat_cases bs (start + 1 + 1) (fun c => c == 62) with ⟨hc, hlt, _⟩ | ⟨hc, _⟩
      · simp only [hc, adv_lt hlt]; exact Post_mk _ (by omega) (by omega)
      · simp only [hc]; exact Post_mk _ (by omega) (by omega)
    · exact Post_mk _ (by omega) (by omega)

theorem backOne_post {bs : Bytes} {start p2 : Nat} (h1 : start + 2 ≤ p2) (h2 : p2 ≤ bs.size) :
    Post bs start (backOne start p2) := by
  unfold backOne
  rw [if_neg (by omega)]
  exact Post_mk _ (by omega) (by omega)

theorem scanLess_post {bs : Bytes} {start : Nat} (h : start < bs.size) :
    Post bs start (scanLess bs start) := by
  unfold scanLess
  simp only [adv_lt h]
  by_cases hge : start + 1 ≥ bs.size
  · rw [if_pos hge]; exact Post_mk _ (by omega) (by omega)
  · rw [if_neg hge]
    have h1 : start + 1 < bs.size := by omega
    simp only [rd_lt h1, adv_lt h1]
    split
    · rcases curSat_cases bs (start + 1 + 1) (fun c => c == 62) with ⟨hc, hlt, _⟩ | ⟨hc, _⟩
      · simp only [hc, adv_lt hlt]; exact Post_mk _ (by omega) (by omega)
      · simp only [hc]; exact Post_mk _ (by omega) (by omega)
    · split
      · exact Post_mk _ (by omega) (by omega)
      · split
        · exact Post_mk _ (by omega) (by omega)
        · split
          · exact Post_mk _ (by omega) (by omega)
          · split
            · rcases curSat_cases bs (start + 1 + 1) (fun c => c == 62) with ⟨hc, hlt, _⟩ | ⟨hc, _⟩
              · simp only [hc, adv_lt hlt]; exact Post_mk _ (by omega) (by omega)
              · simp only [hc]; exact backOne_post (by omega) (by omega)
            · split
              · rcases curSat_cases bs (start + 1 + 1) (fun c => c == 62) with ⟨hc, hlt, _⟩ | ⟨hc, _⟩
                · simp only [hc, adv_lt hlt]; exact Post_mk _ (by omega) (by omega)
                · simp only [hc]; exact backOne_post (by omega) (by omega)
              · exact Post_mk _ (by omega) (by omega)

theorem scanGreater_post {bs : Bytes} {start : Nat} (h : start < bs.size) :
    Post bs start (scanGreater bs start) := by
  unfold scanGreater
  simp only [adv_lt h]
  by_cases hge : start + 1 ≥ bs.size
  · rw [if_pos hge]; exact Post_mk _ (by omega) (by omega)
  · rw [if_neg hge]
    have h1 : start + 1 < bs.size := by omega
    simp only [rd_lt h1, adv_lt h1]
    split
    · exact Post_mk _ (by omega) (by omega)
    · split <;> exact Post_mk _ (by omega) (by omega)

theorem scanDot_post {bs : Bytes} (hwf : WF bs) {start : Nat} (h : start < bs.size) (hd : B bs start = 46) :
    Post bs start (scanDot bs start) := by
  unfold scanDot
  simp only [adv_lt h]
  rcases curSat_cases bs (start + 1) (fun c => c == 46) with ⟨hc, hlt, _⟩ | ⟨hc, _⟩
  · simp only [hc, adv_lt hlt]; exact Post_mk _ (by omega) (by omega)
  · simp only [hc]
    rcases curSat_cases bs (start + 1) isDigit with ⟨hc2, hlt2, hp2⟩ | ⟨hc2, _⟩
    · simp only [hc2]
      rw [if_neg (by omega)]
      obtain ⟨q, hsw, h2, h3, h4, _⟩ := scanWhile_spec bs isDigit (start + 1) (by omega)
      simp only [hsw]
      obtain ⟨r, f, hx, h5, h6, h7⟩ := scanExp_spec bs q h3
      simp only [hx]
      have hall : AllAscii bs start r :=
        ((AllAscii.single (by omega : B bs start < 128)).append (AllAscii.of_scan (fun c => isDigit_lt) h4)).append h7
      have : start + 1 - 1 = start := by omega
      rw [this]
      exact Post_mkS hwf _ (by omega) h6 (by omega) h6 (good_at h (by omega)) (good_of_allAscii hall (by omega) h6)
    · simp only [hc2]; exact Post_mk _ (by omega) (by omega)

/-- outcome of a scanner that may skip a comment -/
def PostS (bs : Bytes) (pos : Nat) (r : Except Fault Step) : Prop :=
  (∃ t, r = .ok (.tok t) ∧ t.start = pos ∧ pos < t.stop ∧ t.stop ≤ bs.size ∧ t.a ≤ t.b ∧ t.b ≤ bs.size) ∨
  (∃ p, r = .ok (.again p) ∧ pos < p ∧ p ≤ bs.size)

theorem PostS_lift {bs : Bytes} {pos : Nat} {r : Except Fault Tok} (h : Post bs pos r) : PostS bs pos (liftTok r) := by
  obtain ⟨t, hr, h1⟩ := h
  left; exact ⟨t, by simp [liftTok, hr], h1⟩

theorem scanMinus_post {bs : Bytes} {start : Nat} (h : start < bs.size) :
    PostS bs start (scanMinus bs start) := by
  unfold scanMinus
  simp only [adv_lt h]
  by_cases hge : start + 1 ≥ bs.size
  · rw [if_pos hge]; exact PostS_lift (Post_mk _ (by omega) (by omega))
  · rw [if_neg hge]
    have h1 : start + 1 < bs.size := by omega
    simp only [rd_lt h1, adv_lt h1]
    split
    · obtain ⟨e, hsw, h2, h3, _, _⟩ := scanWhile_spec bs notNl (start + 1) (by omega)
      simp only [hsw]
      right; exact ⟨e, rfl, by omega, h3⟩
    · split
      · rcases curSat_cases bs (start + 1 + 1) (fun c => c == 62) with ⟨hc, hlt, _⟩ | ⟨hc, _⟩
        · simp only [hc, adv_lt hlt]; exact PostS_lift (Post_mk _ (by omega) (by omega))
        · simp only [hc]; exact PostS_lift (Post_mk _ (by omega) (by omega))
      · exact PostS_lift (Post_mk _ (by omega) (by omega))

theorem peek_some {bs : Bytes} {pos x : Nat} (h : peek bs pos = some x) : pos + 1 < bs.size := by
  by_cases h1 : pos + 1 < bs.size
  · exact h1
  · rw [peek_ge (by omega)] at h; cases h

theorem blockLoop_spec (bs : Bytes) : ∀ n pos depth, bs.size - pos ≤ n → pos ≤ bs.size →
    ∃ q d, blockLoop bs pos depth = .ok (q, d) ∧ pos ≤ q ∧ q ≤ bs.size := by
  intro n
  induction n with
  | zero =>
    intro pos depth hn h
    have : ¬ (pos < bs.size ∧ depth > 0) := by omega
    exact ⟨pos, depth, by rw [blockLoop, dif_neg this], Nat.le_refl _, h⟩
  | succ n ih =>
    intro pos depth hn h
    by_cases hc : pos < bs.size ∧ depth > 0
    · rw [blockLoop, dif_pos hc]
      simp only [rd_lt hc.1]
      by_cases c1 : (B bs pos == 47 && peek bs pos == some 42) = true
      · rw [if_pos c1]
        have hp : pos + 1 < bs.size := by
          simp only [Bool.and_eq_true, beq_iff_eq] at c1
          exact peek_some c1.2
        obtain ⟨q, d, hq, h2, h3⟩ := ih (pos + 2) (depth + 1) (by omega) (by omega)
        exact ⟨q, d, hq, by omega, h3⟩
      · rw [if_neg c1]
        by_cases c2 : (B bs pos == 42 && peek bs pos == some 47) = true
        · rw [if_pos c2]
          have hp : pos + 1 < bs.size := by
            simp only [Bool.and_eq_true, beq_iff_eq] at c2
            exact peek_some c2.2
          obtain ⟨q, d, hq, h2, h3⟩ := ih (pos + 2) (depth - 1) (by omega) (by omega)
          exact ⟨q, d, hq, by omega, h3⟩
        · rw [if_neg c2]
          obtain ⟨q, d, hq, h2, h3⟩ := ih (pos + 1) depth (by omega) (by omega)
          exact ⟨q, d, hq, by omega, h3⟩
    · exact ⟨pos, depth, by rw [blockLoop, dif_neg hc], Nat.le_refl _, h⟩

theorem scanSlash_post {bs : Bytes} {start : Nat} (h : start < bs.size) :
    PostS bs start (scanSlash bs start) := by
  unfold scanSlash
  simp only [adv_lt h]
  by_cases hge : start + 1 ≥ bs.size
  · rw [if_pos hge]; exact PostS_lift (Post_mk _ (by omega) (by omega))
  · rw [if_neg hge]
    have h1 : start + 1 < bs.size := by omega
    simp only [rd_lt h1, adv_lt h1]
    split
    · obtain ⟨q, d, hq, h2, h3⟩ := blockLoop_spec bs _ (start + 1 + 1) 1 (Nat.le_refl _) (by omega)
      simp only [hq]
      split
      · exact PostS_lift (Post_mk _ (by omega) h3)
      · right; exact ⟨q, rfl, by omega, h3⟩
    · exact PostS_lift (Post_mk _ (by omega) (by omega))

end TurVerif.LexerLemmas
