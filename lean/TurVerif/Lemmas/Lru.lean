import TurVerif.Model.Lru
/-! Helper lemmas for the open-file LRU (C42). -/
namespace TurVerif.Lru
variable {V : Type}

def keys (m : List (Nat × V)) : List Nat := m.map (·.1)

theorem mapGet_isSome_iff (m : List (Nat × V)) (k : Nat) : (mapGet m k).isSome ↔ k ∈ keys m := by
  induction m with
  | nil => simp [mapGet, keys]
  | cons e rest ih =>
    obtain ⟨k', v⟩ := e
    unfold mapGet
    by_cases h : k' = k
    · simp [h, keys]
    · have ih' := ih
      simp only [keys] at ih'
      simp only [h, if_false, keys, List.map_cons, List.mem_cons]
      rw [ih']
      constructor
      · intro x; exact Or.inr x
      · intro x; cases x with
        | inl e => exact absurd e.symm h
        | inr x => exact x

theorem mapHas_iff (m : List (Nat × V)) (k : Nat) : mapHas m k = true ↔ k ∈ keys m := by
  unfold mapHas; exact mapGet_isSome_iff m k

theorem mapGet_remove (m : List (Nat × V)) (k k' : Nat) :
    mapGet (mapRemove m k) k' = if k' = k then none else mapGet m k' := by
  induction m with
  | nil => simp [mapRemove, mapGet]
  | cons e rest ih =>
    obtain ⟨a, v⟩ := e
    unfold mapRemove at ih ⊢
    by_cases ha : a = k
    · subst ha
      simp only [List.filter_cons, beq_self_eq_true, Bool.not_true, Bool.false_eq_true, if_false]
      rw [ih]
      by_cases hk : k' = a
      · simp [hk]
      · have : ¬ a = k' := fun e => hk e.symm
        simp [hk, mapGet, this]
    · have hb : (a == k) = false := by simp [ha]
      simp only [List.filter_cons, hb, Bool.not_false, if_true]
      unfold mapGet
      rw [ih]
      by_cases hk : k' = k
      · subst hk
        simp [ha]
      · simp [hk]

theorem mapGet_cons (a : Nat) (v : V) (rest : List (Nat × V)) (k : Nat) :
    mapGet ((a, v) :: rest) k = if a = k then some v else mapGet rest k := rfl

theorem mapGet_insert (m : List (Nat × V)) (k k' : Nat) (v : V) :
    mapGet (mapInsert m k v) k' = if k' = k then some v else mapGet m k' := by
  unfold mapInsert
  rw [mapGet_cons]
  by_cases h : k = k'
  · subst h; simp
  · have h' : ¬ k' = k := fun e => h e.symm
    simp only [h, if_false, h']
    rw [mapGet_remove]; simp [h']

theorem keys_remove (m : List (Nat × V)) (k : Nat) :
    keys (mapRemove m k) = (keys m).filter (fun x => x != k) := by
  induction m with
  | nil => simp [mapRemove, keys]
  | cons e rest ih =>
    obtain ⟨a, v⟩ := e
    unfold mapRemove keys at ih ⊢
    by_cases ha : a = k
    · simp [List.filter_cons, ha, ih]
    · simp [List.filter_cons, ha, ih]

theorem keys_remove_erase (m : List (Nat × V)) (k : Nat) (hn : (keys m).Nodup) :
    keys (mapRemove m k) = (keys m).erase k := by
  rw [keys_remove, List.Nodup.erase_eq_filter hn]

theorem keys_insert (m : List (Nat × V)) (k : Nat) (v : V) :
    keys (mapInsert m k v) = k :: keys (mapRemove m k) := by
  simp [mapInsert, keys]

/-- the representation invariant of `LruFileCache`: `order` lists every key of the map once -/
structure Inv (c : Lru V) : Prop where
  nodup : c.order.Nodup
  perm : (keys c.map).Perm c.order

theorem Inv.keysNodup {c : Lru V} (h : Inv c) : (keys c.map).Nodup :=
  (h.perm.nodup_iff).mpr h.nodup

theorem Inv.mem_iff {c : Lru V} (h : Inv c) (k : Nat) : k ∈ keys c.map ↔ k ∈ c.order :=
  h.perm.mem_iff

theorem Inv.len_eq {c : Lru V} (h : Inv c) : len c = c.order.length := by
  have := h.perm.length_eq
  simpa [len, keys] using this

theorem inv_new (cap : Nat) : Inv (new cap : Lru V) := ⟨by simp [new], by simp [new, keys]⟩

theorem inv_touch {c : Lru V} (h : Inv c) (k : Nat) : Inv (touch c k) := by
  unfold touch
  by_cases hk : c.order.contains k = true
  · have hmem : k ∈ c.order := by simpa using hk
    simp only [hk, if_true]
    refine ⟨?_, ?_⟩
    · rw [List.nodup_append]
      refine ⟨h.nodup.erase k, by simp, ?_⟩
      intro a ha b hb
      have hb' : b = k := by simpa using hb
      subst hb'
      exact ((h.nodup.mem_erase_iff).mp ha).1
    · have p1 : c.order.Perm (k :: c.order.erase k) := List.perm_cons_erase hmem
      have p2 : (k :: c.order.erase k).Perm (c.order.erase k ++ [k]) := by
        have := @List.perm_append_comm _ [k] (c.order.erase k)
        simpa using this
      exact (h.perm.trans p1).trans p2
  · simp only [hk]
    exact h

theorem touch_map (c : Lru V) (k : Nat) : (touch c k).map = c.map := by
  unfold touch; split <;> rfl

theorem touch_cap (c : Lru V) (k : Nat) : (touch c k).cap = c.cap := by
  unfold touch; split <;> rfl

theorem touch_len (c : Lru V) (k : Nat) : len (touch c k) = len c := by
  simp [len, touch_map]

theorem inv_get {c : Lru V} (h : Inv c) (k : Nat) : Inv (get c k).1 := by
  unfold get; split
  · exact inv_touch h k
  · exact h

theorem inv_remove {c : Lru V} (h : Inv c) (k : Nat) : Inv (remove c k).1 := by
  refine ⟨h.nodup.erase k, ?_⟩
  show (keys (mapRemove c.map k)).Perm (c.order.erase k)
  rw [keys_remove_erase _ _ h.keysNodup]
  exact h.perm.erase k

theorem inv_popLru {c : Lru V} (h : Inv c) : Inv (popLru c).1 := by
  unfold popLru
  cases ho : c.order with
  | nil => simpa using h
  | cons k rest =>
    have hk : k ∈ keys c.map := (h.mem_iff k).mpr (by simp [ho])
    have hs := (mapGet_isSome_iff c.map k).mpr hk
    cases hg : mapGet c.map k with
    | none => simp [hg] at hs
    | some v =>
      simp only [hg]
      have hn : (k :: rest).Nodup := ho ▸ h.nodup
      refine ⟨(List.nodup_cons.mp hn).2, ?_⟩
      show (keys (mapRemove c.map k)).Perm rest
      rw [keys_remove_erase _ _ h.keysNodup]
      have := (ho ▸ h.perm : (keys c.map).Perm (k :: rest)).erase k
      simpa using this

theorem popLru_cap (c : Lru V) : (popLru c).1.cap = c.cap := by
  unfold popLru
  cases c.order with
  | nil => rfl
  | cons k rest => simp only; cases mapGet c.map k <;> rfl

theorem popLru_order_len {c : Lru V} (h : Inv c) (hne : c.order ≠ []) :
    (popLru c).1.order.length + 1 = c.order.length := by
  unfold popLru
  cases ho : c.order with
  | nil => exact absurd ho hne
  | cons k rest => simp only; cases mapGet c.map k <;> simp

theorem popLru_not_mem {c : Lru V} (h : Inv c) (k : Nat) (hk : k ∉ c.order) :
    k ∉ (popLru c).1.order := by
  unfold popLru
  cases ho : c.order with
  | nil => simpa [ho] using hk
  | cons a rest =>
    have : k ∉ rest := fun hm => hk (by simp [ho, hm])
    simp only; cases mapGet c.map a <;> simpa using this

/-- pushing a key that is in neither list -/
theorem inv_push {c : Lru V} (h : Inv c) (k : Nat) (v : V) (hk : k ∉ c.order) :
    Inv ({ c with order := c.order ++ [k], map := mapInsert c.map k v } : Lru V) := by
  have hk' : k ∉ keys c.map := fun hm => hk ((h.mem_iff k).mp hm)
  refine ⟨?_, ?_⟩
  · show (c.order ++ [k]).Nodup
    rw [List.nodup_append]
    refine ⟨h.nodup, by simp, ?_⟩
    intro a ha b hb
    have hb' : b = k := by simpa using hb
    subst hb'
    exact fun e => hk (e ▸ ha)
  · show (keys (mapInsert c.map k v)).Perm (c.order ++ [k])
    rw [keys_insert, keys_remove_erase _ _ h.keysNodup, List.erase_of_not_mem hk']
    have p1 : (k :: keys c.map).Perm (k :: c.order) := List.Perm.cons k h.perm
    have p2 : (k :: c.order).Perm (c.order ++ [k]) := by
      have := @List.perm_append_comm _ [k] c.order
      simpa using this
    exact p1.trans p2

theorem inv_insert {c : Lru V} (h : Inv c) (k : Nat) (v : V) : Inv (insert c k v).1 := by
  unfold insert
  by_cases hh : mapHas c.map k = true
  · simp only [hh, if_true]
    have ht := inv_touch h k
    have hk : k ∈ keys (touch c k).map := by rw [touch_map]; exact (mapHas_iff _ _).mp hh
    refine ⟨ht.nodup, ?_⟩
    show (keys (mapInsert (touch c k).map k v)).Perm (touch c k).order
    rw [keys_insert, keys_remove_erase _ _ ht.keysNodup]
    exact (List.perm_cons_erase hk).symm.trans ht.perm
  · simp only [hh]
    have hk : k ∉ c.order := fun hm => hh ((mapHas_iff _ _).mpr ((h.mem_iff k).mpr hm))
    by_cases hc : c.order.length ≥ c.cap
    · simp only [hc, if_true]
      exact inv_push (inv_popLru h) k v (popLru_not_mem h k hk)
    · simp only [hc]
      exact inv_push h k v hk

end TurVerif.Lru
