import TurVerif.Lemmas.KeyEncBasic
/-! C26: order lemmas for the scalar key kinds. -/
namespace TurVerif.KeyEnc

/-- the combined order / prefix-freeness statement for one pair of values -/
def Ok (a b : KVal) : Prop :=
  ∀ r1 r2, lexCmp (enc a ++ r1) (enc b ++ r2) = (cmpVal a b).then (lexCmp r1 r2)

theorem p2 : (256 : Nat) ^ 2 = 65536 := by rfl
theorem p4 : (256 : Nat) ^ 4 = 4294967296 := by rfl
theorem p8 : (256 : Nat) ^ 8 = 18446744073709551616 := by rfl

theorem cmpNat_shift (x y h : Int) (hx : 0 ≤ x + h) (hy : 0 ≤ y + h) :
    cmpNat (x + h).toNat (y + h).toNat = cmpInt x y := by
  unfold cmpNat cmpInt
  split
  · have : x < y := by omega
    simp [this]
  · split
    · have : x = y := by omega
      simp [this]
    · have h1 : ¬ x < y := by omega
      have h2 : ¬ x = y := by omega
      simp [h1, h2]

theorem sval64 (x : Int) (h : -9223372036854775808 ≤ x ∧ x < 9223372036854775808) :
    flipTop (18446744073709551616 / 2) (toU 18446744073709551616 x) = (x + 9223372036854775808).toNat := by
  unfold flipTop toU
  simp only [Nat.reduceDiv]
  split <;> omega
theorem sval32 (x : Int) (h : -2147483648 ≤ x ∧ x < 2147483648) :
    flipTop (4294967296 / 2) (toU 4294967296 x) = (x + 2147483648).toNat := by
  unfold flipTop toU
  simp only [Nat.reduceDiv]
  split <;> omega
theorem sval16 (x : Int) (h : -32768 ≤ x ∧ x < 32768) :
    flipTop (65536 / 2) (toU 65536 x) = (x + 32768).toNat := by
  unfold flipTop toU
  simp only [Nat.reduceDiv]
  split <;> omega

theorem sfield64_cmp (x y : Int) (r1 r2 : List Nat)
    (hx : -9223372036854775808 ≤ x ∧ x < 9223372036854775808)
    (hy : -9223372036854775808 ≤ y ∧ y < 9223372036854775808) :
    lexCmp (sfield 8 18446744073709551616 x ++ r1) (sfield 8 18446744073709551616 y ++ r2)
      = (cmpInt x y).then (lexCmp r1 r2) := by
  unfold sfield
  rw [sval64 x hx, sval64 y hy, be_cmp 8 _ _ _ _ (by rw [p8]; omega) (by rw [p8]; omega),
    cmpNat_shift _ _ _ (by omega) (by omega)]
theorem sfield32_cmp (x y : Int) (r1 r2 : List Nat)
    (hx : -2147483648 ≤ x ∧ x < 2147483648) (hy : -2147483648 ≤ y ∧ y < 2147483648) :
    lexCmp (sfield 4 4294967296 x ++ r1) (sfield 4 4294967296 y ++ r2)
      = (cmpInt x y).then (lexCmp r1 r2) := by
  unfold sfield
  rw [sval32 x hx, sval32 y hy, be_cmp 4 _ _ _ _ (by rw [p4]; omega) (by rw [p4]; omega),
    cmpNat_shift _ _ _ (by omega) (by omega)]
theorem sfield16_cmp (x y : Int) (r1 r2 : List Nat)
    (hx : -32768 ≤ x ∧ x < 32768) (hy : -32768 ≤ y ∧ y < 32768) :
    lexCmp (sfield 2 65536 x ++ r1) (sfield 2 65536 y ++ r2)
      = (cmpInt x y).then (lexCmp r1 r2) := by
  unfold sfield
  rw [sval16 x hx, sval16 y hy, be_cmp 2 _ _ _ _ (by rw [p2]; omega) (by rw [p2]; omega),
    cmpNat_shift _ _ _ (by omega) (by omega)]

/-- values of different constructors whose ranks are constants / sign classes -/
syntax "mismatch" : tactic
macro_rules
  | `(tactic| mismatch) =>
    `(tactic| (intro r1 r2; simp [enc, cmpVal, rank, cmpNat] <;> (repeat' split) <;> simp_all [cmpNat]))

theorem ok_null (b : KVal) : Ok .null b := by
  cases b
  all_goals mismatch

theorem ok_bool (x : Bool) (b : KVal) : Ok (.bool x) b := by
  cases b
  case bool y => intro r1 r2; cases x <;> cases y <;> simp [enc, cmpVal, cmpNat]
  all_goals mismatch

theorem toU64_neg (x : Int) (h : -9223372036854775808 ≤ x ∧ x < 0) :
    toU 18446744073709551616 x = (x + 18446744073709551616).toNat := by
  unfold toU; omega
theorem toU64_pos (x : Int) (h : 0 ≤ x ∧ x < 9223372036854775808) :
    toU 18446744073709551616 x = (x + 0).toNat := by
  unfold toU; omega

theorem ok_int (x : Int) (b : KVal) (ha : wf (.int x) = true) (hb : wf b = true) : Ok (.int x) b := by
  cases b
  case int y =>
    intro r1 r2
    simp only [wf, decide_eq_true_eq] at ha hb
    simp only [enc, cmpVal]
    split
    · split
      · rw [toU64_neg x (by omega), toU64_neg y (by omega)]
        simp only [List.cons_append, lexCmp_cons_cons, cmpNat_self, then_eq']
        rw [be_cmp 8 _ _ _ _ (by rw [p8]; omega) (by rw [p8]; omega),
          cmpNat_shift _ _ _ (by omega) (by omega)]
      · have : x < y := by omega
        split <;> simp [cmpNat, cmpInt, this]
    · split
      · split
        · have h1 : ¬ x < y := by omega
          have h2 : ¬ x = y := by omega
          simp [cmpNat, cmpInt, h1, h2]
        · split
          · simp [cmpNat, cmpInt, *]
          · have : x < y := by omega
            simp [cmpNat, cmpInt, this]
      · split
        · have h1 : ¬ x < y := by omega
          have h2 : ¬ x = y := by omega
          simp [cmpNat, cmpInt, h1, h2]
        · split
          · have h1 : ¬ x < y := by omega
            have h2 : ¬ x = y := by omega
            simp [cmpNat, cmpInt, h1, h2]
          · rw [toU64_pos x (by omega), toU64_pos y (by omega)]
            simp only [List.cons_append, lexCmp_cons_cons, cmpNat_self, then_eq']
            rw [be_cmp 8 _ _ _ _ (by rw [p8]; omega) (by rw [p8]; omega),
              cmpNat_shift _ _ _ (by omega) (by omega)]
  all_goals (clear ha hb; mismatch)

theorem ok_text (x : List Nat) (b : KVal) : Ok (.text x) b := by
  cases b
  case text y => intro r1 r2; simp [enc, cmpVal, esc_cmp]
  all_goals mismatch

theorem ok_blob (x : List Nat) (b : KVal) : Ok (.blob x) b := by
  cases b
  case blob y => intro r1 r2; simp [enc, cmpVal, esc_cmp]
  all_goals mismatch

theorem ok_date (x : Int) (b : KVal) (ha : wf (.date x) = true) (hb : wf b = true) : Ok (.date x) b := by
  cases b
  case date y =>
    intro r1 r2
    simp only [wf, decide_eq_true_eq] at ha hb
    simp [enc, cmpVal, sfield32_cmp x y r1 r2 ha hb]
  all_goals (clear ha hb; mismatch)

theorem ok_time (x : Int) (b : KVal) (ha : wf (.time x) = true) (hb : wf b = true) : Ok (.time x) b := by
  cases b
  case time y =>
    intro r1 r2
    simp only [wf, decide_eq_true_eq] at ha hb
    simp [enc, cmpVal, sfield64_cmp x y r1 r2 ha hb]
  all_goals (clear ha hb; mismatch)

theorem ok_timestamp (x : Int) (b : KVal) (ha : wf (.timestamp x) = true) (hb : wf b = true) :
    Ok (.timestamp x) b := by
  cases b
  case timestamp y =>
    intro r1 r2
    simp only [wf, decide_eq_true_eq] at ha hb
    simp [enc, cmpVal, sfield64_cmp x y r1 r2 ha hb]
  all_goals (clear ha hb; mismatch)

theorem ok_timestamptz (x xz : Int) (b : KVal) (ha : wf (.timestamptz x xz) = true) (hb : wf b = true) :
    Ok (.timestamptz x xz) b := by
  cases b
  case timestamptz y yz =>
    intro r1 r2
    simp only [wf, decide_eq_true_eq, Bool.and_eq_true] at ha hb
    simp only [enc, cmpVal, List.cons_append, lexCmp_cons_cons, cmpNat_self, then_eq',
      List.append_assoc]
    rw [sfield64_cmp x y _ _ ha.1 hb.1, sfield16_cmp xz yz _ _ ha.2 hb.2, then_assoc']
  all_goals (clear ha hb; mismatch)

theorem ok_interval (xm xd xu : Int) (b : KVal) (ha : wf (.interval xm xd xu) = true)
    (hb : wf b = true) : Ok (.interval xm xd xu) b := by
  cases b
  case interval ym yd yu =>
    intro r1 r2
    simp only [wf, decide_eq_true_eq, Bool.and_eq_true] at ha hb
    simp only [enc, cmpVal, List.cons_append, lexCmp_cons_cons, cmpNat_self, then_eq',
      List.append_assoc]
    rw [sfield32_cmp xm ym _ _ ha.1.1 hb.1.1, sfield32_cmp xd yd _ _ ha.1.2 hb.1.2,
      sfield64_cmp xu yu _ _ ha.2 hb.2, then_assoc', then_assoc']
  all_goals (clear ha hb; mismatch)

theorem ok_uuid (x : List Nat) (b : KVal) (ha : wf (.uuid x) = true) (hb : wf b = true) :
    Ok (.uuid x) b := by
  cases b
  case uuid y =>
    intro r1 r2
    simp only [wf, decide_eq_true_eq, Bool.and_eq_true] at ha hb
    simp only [enc, cmpVal, List.cons_append, lexCmp_cons_cons, cmpNat_self, then_eq']
    exact lexCmp_append_eqlen _ _ _ _ (by omega)
  all_goals (clear ha hb; mismatch)

theorem ok_macaddr (x : List Nat) (b : KVal) (ha : wf (.macaddr x) = true) (hb : wf b = true) :
    Ok (.macaddr x) b := by
  cases b
  case macaddr y =>
    intro r1 r2
    simp only [wf, decide_eq_true_eq, Bool.and_eq_true] at ha hb
    simp only [enc, cmpVal, List.cons_append, lexCmp_cons_cons, cmpNat_self, then_eq']
    exact lexCmp_append_eqlen _ _ _ _ (by omega)
  all_goals (clear ha hb; mismatch)

theorem ok_inet (xv : Bool) (xp : Nat) (xa : List Nat) (b : KVal)
    (ha : wf (.inet xv xp xa) = true) (hb : wf b = true) : Ok (.inet xv xp xa) b := by
  cases b
  case inet yv yp ya =>
    intro r1 r2
    simp only [wf, decide_eq_true_eq, Bool.and_eq_true] at ha hb
    simp only [enc, cmpVal, List.cons_append, lexCmp_cons_cons, cmpNat_self, then_eq']
    cases xv <;> cases yv
    · simp only [Bool.toNat_false, cmpNat_self, then_eq', Bool.false_eq_true, if_false]
      rw [lexCmp_append_eqlen _ _ _ _ (by simp_all), then_assoc']
    · simp [cmpNat]
    · simp [cmpNat]
    · simp only [Bool.toNat_true, cmpNat_self, then_eq', if_true]
      rw [lexCmp_append_eqlen _ _ _ _ (by simp_all), then_assoc']
  all_goals (clear ha hb; mismatch)

theorem ok_enum (xt xo : Nat) (b : KVal) (ha : wf (.enum xt xo) = true) (hb : wf b = true) :
    Ok (.enum xt xo) b := by
  cases b
  case enum yt yo =>
    intro r1 r2
    simp only [wf, decide_eq_true_eq, Bool.and_eq_true] at ha hb
    simp only [enc, cmpVal, List.cons_append, lexCmp_cons_cons, cmpNat_self, then_eq',
      List.append_assoc]
    rw [be_cmp 4 _ _ _ _ (by rw [p4]; omega) (by rw [p4]; omega),
      be_cmp 4 _ _ _ _ (by rw [p4]; omega) (by rw [p4]; omega), then_assoc']
  all_goals (clear ha hb; mismatch)

end TurVerif.KeyEnc
