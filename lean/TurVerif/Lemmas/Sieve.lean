import TurVerif.Model.Sieve
/-! Lemmas for the SIEVE cache model: association list, swap_remove, shard invariant. -/
namespace TurVerif.Sieve

theorem alFind_erase (l : List (Key × Nat)) (k q : Key) :
    alFind (alErase l k) q = if q = k then none else alFind l q := by
  induction l with
  | nil => simp [alErase, alFind]
  | cons a r ih =>
    obtain ⟨a, v⟩ := a
    by_cases h : a = k <;> by_cases h2 : a = q <;> simp_all [alErase, alFind] <;> grind

theorem alFind_insert (l : List (Key × Nat)) (k q : Key) (v : Nat) :
    alFind (alInsert l k v) q = if q = k then some v else alFind l q := by
  unfold alInsert
  by_cases h : k = q
  · subst h; simp [alFind]
  · have : ¬ q = k := fun e => h e.symm
    simp [alFind, h, this, alFind_erase]

theorem getElem?_swapRemove (l : List Entry) (idx i : Nat) (h : idx < l.length) :
    (swapRemove l idx)[i]? =
      if i < l.length - 1 then (if i = idx then l[l.length - 1]? else l[i]?) else none := by
  unfold swapRemove
  have hne : l ≠ [] := by intro e; simp [e] at h
  rw [List.getLast?_eq_some_getLast hne]
  simp only [List.dropLast_eq_take, List.length_set]
  rw [List.getElem?_take]
  split
  · rw [List.getElem?_set]
    split
    · subst_vars; simp [List.getLast_eq_getElem]
    · rename_i h1 h2
      have : ¬ i = idx := fun e => h2 e.symm
      simp [this]
  · rfl

theorem length_swapRemove (l : List Entry) (idx : Nat) (h : idx < l.length) :
    (swapRemove l idx).length = l.length - 1 := by
  unfold swapRemove
  have hne : l ≠ [] := by intro e; simp [e] at h
  rw [List.getLast?_eq_some_getLast hne]
  simp

/-- invariant of one shard -/
structure SInv (sh : Shard) : Prop where
  uniq : ∀ (i j : Nat) (e1 e2 : Entry), sh.entries[i]? = some e1 → sh.entries[j]? = some e2 → e1.key = e2.key → i = j
  idx : ∀ (k : Key) (i : Nat), alFind sh.index k = some i ↔ ∃ e : Entry, sh.entries[i]? = some e ∧ e.key = k
  hand : sh.hand = 0 ∨ sh.hand < sh.entries.length

theorem sinv_empty (cap : Nat) : SInv (Shard.empty cap) :=
  ⟨by simp [Shard.empty], by simp [Shard.empty, alFind], Or.inl rfl⟩

theorem remove_sinv {sh sh' : Shard} {idx : Nat} (h : SInv sh) (hr : remove sh idx = some sh') :
    SInv sh' ∧ sh'.cap = sh.cap ∧ sh'.entries.length + 1 = sh.entries.length ∧
    (∀ e, e ∈ sh.entries → (sh.entries[idx]? = some e ∨ e ∈ sh'.entries)) ∧
    (∀ e, e ∈ sh'.entries → e ∈ sh.entries) := by
  unfold remove at hr
  cases he : sh.entries[idx]? with
  | none => simp [he] at hr
  | some e =>
    have hlt : idx < sh.entries.length := by
      rcases Nat.lt_or_ge idx sh.entries.length with h1 | h1
      · exact h1
      · simp [List.getElem?_eq_none h1] at he
    simp only [he] at hr
    injection hr with hr
    subst hr
    have hlen := length_swapRemove sh.entries idx hlt
    have hget := fun i => getElem?_swapRemove sh.entries idx i hlt
    refine ⟨⟨?_, ?_, ?_⟩, rfl, by simp only; omega, ?_, ?_⟩
    · intro i j e1 e2 h1 h2 hk
      simp only [hget] at h1 h2
      have hu := h.uniq
      grind
    · intro k i
      have hu := h.uniq
      have hi := h.idx
      cases hm : (swapRemove sh.entries idx)[idx]? with
      | none =>
        simp only [alFind_erase, hget]
        rw [hget] at hm
        grind
      | some m =>
        simp only [alFind_insert, alFind_erase, hget]
        rw [hget] at hm
        grind
    · simp only
      have := h.hand
      grind
    · intro e' hm
      obtain ⟨i, hi⟩ := List.mem_iff_getElem?.mp hm
      by_cases hii : i = idx
      · left; subst hii; exact he.symm.trans hi
      · right
        apply List.mem_iff_getElem?.mpr
        by_cases hl : i = sh.entries.length - 1
        · exact ⟨idx, by rw [hget]; grind⟩
        · exact ⟨i, by rw [hget]; grind⟩
    · intro e' hm
      obtain ⟨i, hi⟩ := List.mem_iff_getElem?.mp hm
      rw [hget] at hi
      apply List.mem_iff_getElem?.mpr
      grind


/-- `l'` is `l` with some `visited` flags cleared -/
def Flagged (l l' : List Entry) : Prop :=
  l'.length = l.length ∧
  ∀ (i : Nat) (e' : Entry), l'[i]? = some e' →
    ∃ e : Entry, l[i]? = some e ∧ e'.key = e.key ∧ e'.pin = e.pin ∧ e'.data = e.data ∧ e'.dirty = e.dirty

theorem Flagged.refl (l : List Entry) : Flagged l l := ⟨rfl, fun _ e h => ⟨e, h, rfl, rfl, rfl, rfl⟩⟩

theorem Flagged.trans {a b c : List Entry} (h1 : Flagged a b) (h2 : Flagged b c) : Flagged a c := by
  refine ⟨h2.1.trans h1.1, fun i e' h => ?_⟩
  obtain ⟨e, he, k1, k2, k3, k4⟩ := h2.2 i e' h
  obtain ⟨e0, he0, j1, j2, j3, j4⟩ := h1.2 i e he
  exact ⟨e0, he0, k1.trans j1, k2.trans j2, k3.trans j3, k4.trans j4⟩

theorem flagged_set (l : List Entry) (i : Nat) (e : Entry) (h : l[i]? = some e) :
    Flagged l (l.set i { e with visited := false }) := by
  refine ⟨by simp, fun j e' hj => ?_⟩
  rw [List.getElem?_set] at hj
  split at hj
  · subst_vars
    split at hj
    · injection hj with hj; subst hj; exact ⟨e, h, rfl, rfl, rfl, rfl⟩
    · cases hj
  · exact ⟨e', hj, rfl, rfl, rfl, rfl⟩

/-- the eviction loop only clears visited flags and moves the hand; it never indexes out of
    range; a victim is the unpinned entry under the hand -/
theorem evictLoop_spec (start : Nat) : ∀ (f : Nat) (sh : Shard) (checked : Bool),
    sh.hand < sh.entries.length →
    Flagged sh.entries (evictLoop start f sh checked).1.entries ∧
    (evictLoop start f sh checked).1.index = sh.index ∧
    (evictLoop start f sh checked).1.cap = sh.cap ∧
    (evictLoop start f sh checked).1.hand < (evictLoop start f sh checked).1.entries.length ∧
    (evictLoop start f sh checked).2 ≠ .oob ∧
    (∀ k d, (evictLoop start f sh checked).2 = .victim k d →
      ∃ e : Entry, (evictLoop start f sh checked).1.entries[(evictLoop start f sh checked).1.hand]? = some e
        ∧ e.key = k ∧ e.pin = 0) := by
  intro f
  induction f with
  | zero =>
    intro sh checked h
    simp only [evictLoop]
    exact ⟨Flagged.refl _, by simp, by simp, h, by simp, by simp⟩
  | succ f ih =>
    intro sh checked h
    have hpos : 0 < sh.entries.length := by omega
    have hmod : (sh.hand + 1) % sh.entries.length < sh.entries.length := Nat.mod_lt _ hpos
    obtain ⟨e, he⟩ : ∃ e, sh.entries[sh.hand]? = some e := ⟨sh.entries[sh.hand], by simp [h]⟩
    rw [evictLoop]
    simp only [he]
    by_cases hp : 0 < e.pin
    · simp only [hp, if_true]
      split
      · split
        · exact ⟨Flagged.refl _, rfl, rfl, hmod, by simp, by simp⟩
        · exact ih { sh with hand := (sh.hand + 1) % sh.entries.length } true hmod
      · exact ih { sh with hand := (sh.hand + 1) % sh.entries.length } checked hmod
    · simp only [hp, if_false]
      by_cases hv : e.visited = true
      · simp only [hv, if_true]
        have hfl := flagged_set sh.entries sh.hand e he
        have hmod' : (sh.hand + 1) % sh.entries.length <
            (sh.entries.set sh.hand { e with visited := false }).length := by simpa using hmod
        obtain ⟨a1, a2, a3, a4, a5, a6⟩ := ih
          { sh with entries := sh.entries.set sh.hand { e with visited := false },
                    hand := (sh.hand + 1) % sh.entries.length } checked hmod'
        exact ⟨hfl.trans a1, a2, a3, a4, a5, a6⟩
      · simp only [hv]
        refine ⟨Flagged.refl _, rfl, rfl, h, by simp, ?_⟩
        intro k d hk
        simp at hk
        exact ⟨e, he, hk.1, by omega⟩


theorem sinv_flagged {sh sh' : Shard} (h : SInv sh) (hf : Flagged sh.entries sh'.entries)
    (hi : sh'.index = sh.index) (hh : sh'.hand = 0 ∨ sh'.hand < sh'.entries.length) : SInv sh' := by
  obtain ⟨hl, hfl⟩ := hf
  refine ⟨?_, ?_, hh⟩
  · intro i j e1 e2 h1 h2 hk
    obtain ⟨a1, ha1, k1, -⟩ := hfl i e1 h1
    obtain ⟨a2, ha2, k2, -⟩ := hfl j e2 h2
    exact h.uniq i j a1 a2 ha1 ha2 (by rw [← k1, ← k2, hk])
  · intro k i
    rw [hi, h.idx]
    constructor
    · rintro ⟨e, he, hk⟩
      have hlt : i < sh'.entries.length := by
        rw [hl]
        rcases Nat.lt_or_ge i sh.entries.length with h1 | h1
        · exact h1
        · simp [List.getElem?_eq_none h1] at he
      obtain ⟨e', he'⟩ : ∃ e', sh'.entries[i]? = some e' := ⟨sh'.entries[i], by simp [hlt]⟩
      obtain ⟨a, ha, k1, -⟩ := hfl i e' he'
      rw [he] at ha
      injection ha with ha
      exact ⟨e', he', by rw [k1, ← ha, hk]⟩
    · rintro ⟨e', he', hk⟩
      obtain ⟨a, ha, k1, -⟩ := hfl i e' he'
      exact ⟨a, ha, by rw [← k1, hk]⟩

/-- pinned entries survive with key, pin count and contents -/
def PinnedKept (l l' : List Entry) : Prop :=
  ∀ e ∈ l, 0 < e.pin → ∃ e' ∈ l', e'.key = e.key ∧ e'.pin = e.pin ∧ e'.data = e.data

/-- no key appears that was not there -/
def NoNewKeys (l l' : List Entry) : Prop := ∀ e' ∈ l', ∃ e ∈ l, e'.key = e.key

theorem pinnedKept_refl (l : List Entry) : PinnedKept l l := fun e he _ => ⟨e, he, rfl, rfl, rfl⟩
theorem noNew_refl (l : List Entry) : NoNewKeys l l := fun e he => ⟨e, he, rfl⟩

theorem PinnedKept.trans {a b c : List Entry} (h1 : PinnedKept a b) (h2 : PinnedKept b c) :
    PinnedKept a c := by
  intro e he hp
  obtain ⟨e1, m1, k1, p1, d1⟩ := h1 e he hp
  obtain ⟨e2, m2, k2, p2, d2⟩ := h2 e1 m1 (by omega)
  exact ⟨e2, m2, k2.trans k1, p2.trans p1, d2.trans d1⟩

theorem NoNewKeys.trans {a b c : List Entry} (h1 : NoNewKeys a b) (h2 : NoNewKeys b c) :
    NoNewKeys a c := by
  intro e he
  obtain ⟨e1, m1, k1⟩ := h2 e he
  obtain ⟨e0, m0, k0⟩ := h1 e1 m1
  exact ⟨e0, m0, k1.trans k0⟩

theorem flagged_kept {l l' : List Entry} (h : Flagged l l') : PinnedKept l l' ∧ NoNewKeys l l' := by
  obtain ⟨hl, hfl⟩ := h
  constructor
  · intro e he _
    obtain ⟨i, hi⟩ := List.mem_iff_getElem?.mp he
    have hlt : i < l'.length := by
      rw [hl]
      rcases Nat.lt_or_ge i l.length with h1 | h1
      · exact h1
      · simp [List.getElem?_eq_none h1] at hi
    obtain ⟨e', he'⟩ : ∃ e', l'[i]? = some e' := ⟨l'[i], by simp [hlt]⟩
    obtain ⟨a, ha, k1, k2, k3, -⟩ := hfl i e' he'
    rw [hi] at ha
    injection ha with ha
    subst ha
    exact ⟨e', List.mem_iff_getElem?.mpr ⟨i, he'⟩, k1, k2, k3⟩
  · intro e' he'
    obtain ⟨i, hi⟩ := List.mem_iff_getElem?.mp he'
    obtain ⟨a, ha, k1, -⟩ := hfl i e' hi
    exact ⟨a, List.mem_iff_getElem?.mpr ⟨i, ha⟩, k1⟩

theorem evict_spec {sh : Shard} (h : SInv sh) :
    SInv (evict sh).1 ∧ Flagged sh.entries (evict sh).1.entries ∧ (evict sh).1.cap = sh.cap ∧
    (evict sh).2 ≠ .oob ∧
    (∀ k d, (evict sh).2 = .victim k d →
      ∃ e : Entry, (evict sh).1.entries[(evict sh).1.hand]? = some e ∧ e.key = k ∧ e.pin = 0) := by
  unfold evict
  split
  · exact ⟨h, Flagged.refl _, rfl, by simp, by simp⟩
  · rename_i hne
    have hpos : 0 < sh.entries.length := by
      cases hl : sh.entries with
      | nil => simp [hl] at hne
      | cons a r => simp
    have hh : sh.hand < sh.entries.length := by
      rcases h.hand with h0 | h1
      · omega
      · exact h1
    obtain ⟨a1, a2, a3, a4, a5, a6⟩ :=
      evictLoop_spec sh.hand (3 * sh.entries.length + 3) sh false hh
    exact ⟨sinv_flagged h a1 a2 (Or.inr a4), a1, a3, a5, a6⟩

/-- **evict_never_pinned** at the level of one eviction step of `get_or_insert` -/
theorem evictOne_spec {sh : Shard} (b : Option Budget) (h : SInv sh) :
    SInv (evictOne sh b).1 ∧ (evictOne sh b).1.cap = sh.cap ∧
    PinnedKept sh.entries (evictOne sh b).1.entries ∧
    NoNewKeys sh.entries (evictOne sh b).1.entries ∧
    ((evictOne sh b).2.2.1 = some true →
      (evictOne sh b).1.entries.length + 1 = sh.entries.length ∧
      (evictOne sh b).2.1 = releaseB b PAGE_SIZE) ∧
    ((evictOne sh b).2.2.1 ≠ some true →
      (evictOne sh b).1.entries.length = sh.entries.length ∧ (evictOne sh b).2.1 = b) := by
  obtain ⟨s1, f1, c1, noob, hv⟩ := evict_spec h
  obtain ⟨pk1, nn1⟩ := flagged_kept f1
  unfold evictOne
  cases hr : (evict sh) with
  | mk sh1 r =>
    rw [hr] at s1 f1 c1 noob hv pk1 nn1
    simp only at s1 f1 c1 noob hv pk1 nn1
    cases r with
    | victim k d =>
      obtain ⟨e, he, hk, hp⟩ := hv k d rfl
      have hidx : alFind sh1.index k = some sh1.hand := (s1.idx k sh1.hand).mpr ⟨e, he, hk⟩
      simp only [hidx]
      cases hrm : remove sh1 sh1.hand with
      | none =>
        simp [remove, he] at hrm
      | some sh2 =>
        obtain ⟨s2, c2, l2, keep, sub⟩ := remove_sinv s1 hrm
        simp only
        refine ⟨s2, by rw [c2, c1], ?_, ?_, ?_, ?_⟩
        · intro a ha hpa
          obtain ⟨a1, m1, k1, p1, d1⟩ := pk1 a ha hpa
          rcases keep a1 m1 with hvict | hin
          · rw [he] at hvict
            injection hvict with hvict
            subst hvict
            omega
          · exact ⟨a1, hin, k1, p1, d1⟩
        · intro a ha
          exact nn1 a (sub a ha)
        · intro _
          exact ⟨by rw [l2, f1.1], trivial⟩
        · intro hc; exact absurd rfl hc
    | none =>
      simp only
      exact ⟨s1, c1, pk1, nn1, by simp, fun _ => ⟨f1.1, trivial⟩⟩
    | oob => exact absurd rfl noob
    | fuelOut =>
      simp only
      exact ⟨s1, c1, pk1, nn1, by simp, fun _ => ⟨f1.1, trivial⟩⟩

end TurVerif.Sieve
