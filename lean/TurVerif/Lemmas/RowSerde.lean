import TurVerif.Model.RowSerde
/-! Helper lemmas for C33 (RowSerde model): codecs, checked reads, per-variant decode equations. -/
namespace TurVerif.RowSerde

theorem beBytes_length (w v : Nat) : (beBytes w v).length = w := by
  induction w generalizing v with
  | zero => simp [beBytes]
  | succ w ih => simp [beBytes, ih]

theorem beVal_snoc (bs : List Nat) (b : Nat) : beVal (bs ++ [b]) = beVal bs * 256 + b := by
  simp [beVal, List.foldl_append]

theorem beVal_beBytes (w v : Nat) (h : v < 256 ^ w) : beVal (beBytes w v) = v := by
  induction w generalizing v with
  | zero =>
    have : v = 0 := by simpa using h
    simp [beBytes, beVal, this]
  | succ w ih =>
    have h2 : v / 256 < 256 ^ w := by
      rw [Nat.pow_succ] at h
      exact Nat.div_lt_of_lt_mul (by rw [Nat.mul_comm]; exact h)
    simp only [beBytes, beVal_snoc, ih _ h2]
    omega

theorem isNan_iff (b : Nat) : isNan b = true ↔
    (0x7ff0000000000000 < b ∧ b < 0x8000000000000000) ∨ 0xfff0000000000000 < b := by
  simp [isNan]
theorem fLtZero_iff (b : Nat) : fLtZero b = true ↔ ¬ isNan b = true ∧ 0x8000000000000000 < b := by
  simp [fLtZero]
theorem fEqZero_iff (b : Nat) : fEqZero b = true ↔ b = 0 ∨ b = 0x8000000000000000 := by
  simp [fEqZero]

theorem beVal_single (b : Nat) : beVal [b] = b := by simp [beVal]

theorem slice_at (data p bs r : List Nat) (off n : Nat) (hd : data = p ++ (bs ++ r))
    (ho : off = p.length) (hn : n = bs.length) : slice data off n = some bs := by
  subst hd ho hn
  simp [slice]

theorem rd_at {α : Type} (data : List Nat) (off n : Nat) (p bs r : List Nat)
    (hd : data = p ++ (bs ++ r)) (ho : off = p.length) (hn : n = bs.length)
    (k : List Nat → Res α) : rd data off n k = k bs := by
  simp [rd, slice_at data p bs r off n hd ho hn]

theorem rd_in {α : Type} (data : List Nat) (off n : Nat) (k : List Nat → Res α)
    (h : off + n ≤ data.length) : rd data off n k = k ((data.drop off).take n) := by
  simp [rd, slice, h]


/-! ### decode equations of `deserializeBody`, one per payload shape.  `data` stays abstract; its
decomposition is given as an equation so that `simp` cannot disturb it. -/

theorem len_of_eq {data q bs r : List Nat} (hd : data = q ++ (bs ++ r)) :
    data.length = q.length + (bs.length + r.length) := by subst hd; simp

/-- payload-free discriminants -/
theorem body_null (data : List Nat) (off : Nat) : deserializeBody data 0x01 off = .ok .null off := by
  simp [deserializeBody]
theorem body_zero (data : List Nat) (off : Nat) : deserializeBody data 0x14 off = .ok (.int 0) off := by
  simp [deserializeBody]
theorem body_nan (data : List Nat) (off : Nat) :
    deserializeBody data 0x19 off = .ok (.float F64_NAN) off := by simp [deserializeBody]
theorem body_neginf (data : List Nat) (off : Nat) :
    deserializeBody data 0x10 off = .ok (.float F64_NEG_INF) off := by simp [deserializeBody]
theorem body_posinf (data : List Nat) (off : Nat) :
    deserializeBody data 0x18 off = .ok (.float F64_INF) off := by simp [deserializeBody]

section one
variable (data q bs r : List Nat) (hd : data = q ++ (bs ++ r))
include hd

theorem body_negint (hb : bs.length = 8) :
    deserializeBody data 0x12 q.length = .ok (.int (beVal bs)) (q.length + 8) := by
  have hlen : ¬ data.length < q.length + 8 := by rw [len_of_eq hd]; omega
  simp [deserializeBody, hlen, rd_at data q.length 8 q bs r hd rfl hb.symm]
theorem body_posint (hb : bs.length = 8) :
    deserializeBody data 0x16 q.length = .ok (.int (beVal bs)) (q.length + 8) := by
  have hlen : ¬ data.length < q.length + 8 := by rw [len_of_eq hd]; omega
  simp [deserializeBody, hlen, rd_at data q.length 8 q bs r hd rfl hb.symm]
theorem body_negfloat (hb : bs.length = 8) :
    deserializeBody data 0x13 q.length = .ok (.float (beVal bs)) (q.length + 8) := by
  have hlen : ¬ data.length < q.length + 8 := by rw [len_of_eq hd]; omega
  simp [deserializeBody, hlen, rd_at data q.length 8 q bs r hd rfl hb.symm]
theorem body_posfloat (hb : bs.length = 8) :
    deserializeBody data 0x15 q.length = .ok (.float (beVal bs)) (q.length + 8) := by
  have hlen : ¬ data.length < q.length + 8 := by rw [len_of_eq hd]; omega
  simp [deserializeBody, hlen, rd_at data q.length 8 q bs r hd rfl hb.symm]
theorem body_uuid (hb : bs.length = 16) :
    deserializeBody data 0x40 q.length = .ok (.uuid bs) (q.length + 16) := by
  have hlen : ¬ data.length < q.length + 16 := by rw [len_of_eq hd]; omega
  simp [deserializeBody, hlen, rd_at data q.length 16 q bs r hd rfl hb.symm]
theorem body_macaddr (hb : bs.length = 6) :
    deserializeBody data 0x43 q.length = .ok (.macaddr bs) (q.length + 6) := by
  have hlen : ¬ data.length < q.length + 6 := by rw [len_of_eq hd]; omega
  simp [deserializeBody, hlen, rd_at data q.length 6 q bs r hd rfl hb.symm]
theorem body_inet4 (hb : bs.length = 4) :
    deserializeBody data 0x41 q.length = .ok (.inet4 bs) (q.length + 4) := by
  have hlen : ¬ data.length < q.length + 4 := by rw [len_of_eq hd]; omega
  simp [deserializeBody, hlen, rd_at data q.length 4 q bs r hd rfl hb.symm]
theorem body_inet6 (hb : bs.length = 16) :
    deserializeBody data 0x42 q.length = .ok (.inet6 bs) (q.length + 16) := by
  have hlen : ¬ data.length < q.length + 16 := by rw [len_of_eq hd]; omega
  simp [deserializeBody, hlen, rd_at data q.length 16 q bs r hd rfl hb.symm]
end one

section two
variable (data q a b r : List Nat) (hd : data = q ++ (a ++ (b ++ r)))
include hd

theorem two_len : data.length = q.length + (a.length + (b.length + r.length)) := by subst hd; simp
theorem two_snd : data = (q ++ a) ++ (b ++ r) := by subst hd; simp

theorem body_timestamptz (ha : a.length = 8) (hb : b.length = 4) :
    deserializeBody data 0x33 q.length = .ok (.timestamptz (beVal a) (beVal b)) (q.length + 8 + 4) := by
  have hlen : ¬ data.length < q.length + 12 := by rw [two_len data q a b r hd]; omega
  simp [deserializeBody, hlen, rd_at data q.length 8 q a (b ++ r) hd rfl ha.symm,
    rd_at data (q.length + 8) 4 (q ++ a) b r (two_snd data q a b r hd) (by simp [ha]) hb.symm]
theorem body_point (ha : a.length = 8) (hb : b.length = 8) :
    deserializeBody data 0x80 q.length = .ok (.point (beVal a) (beVal b)) (q.length + 8 + 8) := by
  have hlen : ¬ data.length < q.length + 16 := by rw [two_len data q a b r hd]; omega
  simp [deserializeBody, hlen, rd_at data q.length 8 q a (b ++ r) hd rfl ha.symm,
    rd_at data (q.length + 8) 8 (q ++ a) b r (two_snd data q a b r hd) (by simp [ha]) hb.symm]
theorem body_enum (ha : a.length = 2) (hb : b.length = 2) :
    deserializeBody data 0x63 q.length = .ok (.enum (beVal a) (beVal b)) (q.length + 2 + 2) := by
  have hlen : ¬ data.length < q.length + 4 := by rw [two_len data q a b r hd]; omega
  simp [deserializeBody, hlen, rd_at data q.length 2 q a (b ++ r) hd rfl ha.symm,
    rd_at data (q.length + 2) 2 (q ++ a) b r (two_snd data q a b r hd) (by simp [ha]) hb.symm]
theorem body_decimal (ha : a.length = 16) (hb : b.length = 2) :
    deserializeBody data 0x83 q.length = .ok (.decimal (beVal a) (beVal b)) (q.length + 16 + 2) := by
  have hlen : ¬ data.length < q.length + 18 := by rw [two_len data q a b r hd]; omega
  simp [deserializeBody, hlen, rd_at data q.length 16 q a (b ++ r) hd rfl ha.symm,
    rd_at data (q.length + 16) 2 (q ++ a) b r (two_snd data q a b r hd) (by simp [ha]) hb.symm]
end two

section three
variable (data q a b c r : List Nat) (hd : data = q ++ (a ++ (b ++ (c ++ r))))
include hd

theorem three_len : data.length = q.length + (a.length + (b.length + (c.length + r.length))) := by
  subst hd; simp
theorem three_snd : data = (q ++ a) ++ (b ++ (c ++ r)) := by subst hd; simp
theorem three_thd : data = (q ++ a ++ b) ++ (c ++ r) := by subst hd; simp

theorem body_interval (ha : a.length = 8) (hb : b.length = 4) (hc : c.length = 4) :
    deserializeBody data 0x34 q.length
      = .ok (.interval (beVal a) (beVal b) (beVal c)) (q.length + 8 + 4 + 4) := by
  have hlen : ¬ data.length < q.length + 16 := by rw [three_len data q a b c r hd]; omega
  simp [deserializeBody, hlen, rd_at data q.length 8 q a (b ++ (c ++ r)) hd rfl ha.symm,
    rd_at data (q.length + 8) 4 (q ++ a) b (c ++ r) (three_snd data q a b c r hd) (by simp [ha]) hb.symm,
    rd_at data (q.length + 8 + 4) 4 (q ++ a ++ b) c r (three_thd data q a b c r hd)
      (by simp [ha, hb]) hc.symm]
theorem body_circle (ha : a.length = 8) (hb : b.length = 8) (hc : c.length = 8) :
    deserializeBody data 0x82 q.length
      = .ok (.circle (beVal a) (beVal b) (beVal c)) (q.length + 8 + 8 + 8) := by
  have hlen : ¬ data.length < q.length + 24 := by rw [three_len data q a b c r hd]; omega
  simp [deserializeBody, hlen, rd_at data q.length 8 q a (b ++ (c ++ r)) hd rfl ha.symm,
    rd_at data (q.length + 8) 8 (q ++ a) b (c ++ r) (three_snd data q a b c r hd) (by simp [ha]) hb.symm,
    rd_at data (q.length + 8 + 8) 8 (q ++ a ++ b) c r (three_thd data q a b c r hd)
      (by simp [ha, hb]) hc.symm]
end three

theorem body_geobox (data q a b c d r : List Nat) (hd : data = q ++ (a ++ (b ++ (c ++ (d ++ r)))))
    (ha : a.length = 8) (hb : b.length = 8) (hc : c.length = 8) (hdl : d.length = 8) :
    deserializeBody data 0x81 q.length
      = .ok (.geobox (beVal a) (beVal b) (beVal c) (beVal d)) (q.length + 8 + 8 + 8 + 8) := by
  have hlen : ¬ data.length < q.length + 32 := by subst hd; simp; omega
  simp [deserializeBody, hlen, rd_at data q.length 8 q a (b ++ (c ++ (d ++ r))) hd rfl ha.symm,
    rd_at data (q.length + 8) 8 (q ++ a) b (c ++ (d ++ r)) (by subst hd; simp) (by simp [ha]) hb.symm,
    rd_at data (q.length + 8 + 8) 8 (q ++ a ++ b) c (d ++ r) (by subst hd; simp)
      (by simp [ha, hb]) hc.symm,
    rd_at data (q.length + 8 + 8 + 8) 8 (q ++ a ++ b ++ c) d r (by subst hd; simp)
      (by simp [ha, hb, hc]) hdl.symm]

/-- `[len: u32][bytes]` -/
theorem readLenPrefixed_at {α : Type} (data q lb bs r : List Nat) (what : String)
    (hd : data = q ++ (lb ++ (bs ++ r))) (hl : lb.length = 4) (hv : beVal lb = bs.length)
    (k : List Nat → Nat → Res α) :
    readLenPrefixed data q.length what k = k bs (q.length + 4 + bs.length) := by
  have h1 : ¬ data.length < q.length + 4 := by rw [two_len data q lb bs r hd]; omega
  have h2 : ¬ data.length < q.length + 4 + bs.length := by rw [two_len data q lb bs r hd]; omega
  simp [readLenPrefixed, h1, hv, h2, rd_at data q.length 4 q lb (bs ++ r) hd rfl hl.symm,
    rd_at data (q.length + 4) bs.length (q ++ lb) bs r (two_snd data q lb bs r hd) (by simp [hl]) rfl]

section lp
variable (data q lb bs r : List Nat) (hd : data = q ++ (lb ++ (bs ++ r))) (hl : lb.length = 4)
  (hv : beVal lb = bs.length)
include hd hl hv
theorem body_text (hu : utf8Valid bs = true) :
    deserializeBody data 0x20 q.length = .ok (.text bs) (q.length + 4 + bs.length) := by
  simp [deserializeBody, readLenPrefixed_at data q lb bs r _ hd hl hv, hu]
theorem body_blob :
    deserializeBody data 0x21 q.length = .ok (.blob bs) (q.length + 4 + bs.length) := by
  simp [deserializeBody, readLenPrefixed_at data q lb bs r _ hd hl hv]
theorem body_jsonb :
    deserializeBody data 0x50 q.length = .ok (.jsonb bs) (q.length + 4 + bs.length) := by
  simp [deserializeBody, readLenPrefixed_at data q lb bs r _ hd hl hv]
theorem body_toast :
    deserializeBody data 0x84 q.length = .ok (.toast bs) (q.length + 4 + bs.length) := by
  simp [deserializeBody, readLenPrefixed_at data q lb bs r _ hd hl hv]
end lp

theorem readF32s_at (v : List Nat) (hv : ∀ x ∈ v, x < 256 ^ 4) :
    ∀ (data q r acc : List Nat), data = q ++ (v.flatMap (beBytes 4) ++ r) →
      readF32s data v.length q.length acc = .ok (acc.reverse ++ v) (q.length + v.length * 4) := by
  induction v with
  | nil => intro data q r acc _; simp [readF32s]
  | cons x xs ih =>
    intro data q r acc hd
    have hx : x < 256 ^ 4 := hv x (by simp)
    have hxs : ∀ y ∈ xs, y < 256 ^ 4 := fun y hy => hv y (by simp [hy])
    have hd1 : data = q ++ (beBytes 4 x ++ (xs.flatMap (beBytes 4) ++ r)) := by subst hd; simp
    have hd2 : data = (q ++ beBytes 4 x) ++ (xs.flatMap (beBytes 4) ++ r) := by subst hd; simp
    have := ih hxs data (q ++ beBytes 4 x) r (x :: acc) hd2
    simp only [List.length_append, beBytes_length] at this
    simp only [List.length_cons, readF32s,
      rd_at data q.length 4 q (beBytes 4 x) _ hd1 rfl (beBytes_length 4 x).symm,
      beVal_beBytes 4 x hx, this]
    simp only [List.reverse_cons, List.append_assoc, List.singleton_append, Res.ok.injEq, true_and]
    omega


theorem flatMap_beBytes4_length (v : List Nat) : (v.flatMap (beBytes 4)).length = v.length * 4 := by
  induction v with
  | nil => simp
  | cons x xs ih => simp [List.flatMap_cons, beBytes_length, ih]; omega

theorem body_vector (data q lb r v : List Nat) (hd : data = q ++ (lb ++ (v.flatMap (beBytes 4) ++ r)))
    (hl : lb.length = 4) (hc : beVal lb = v.length) (hv : ∀ x ∈ v, x < 256 ^ 4) :
    deserializeBody data 0x70 q.length = .ok (.vector v) (q.length + 4 + v.length * 4) := by
  have hlen := two_len data q lb (v.flatMap (beBytes 4)) r hd
  rw [flatMap_beBytes4_length] at hlen
  have h1 : ¬ data.length < q.length + 4 := by omega
  have h2 : ¬ data.length < q.length + 4 + v.length * 4 := by omega
  have hq : q.length + 4 = (q ++ lb).length := by simp [hl]
  have hf := readF32s_at v hv data (q ++ lb) r [] (two_snd data q lb _ r hd)
  rw [← hq] at hf
  simp [deserializeBody, h1, hc, h2, hf,
    rd_at data q.length 4 q lb (v.flatMap (beBytes 4) ++ r) hd rfl hl.symm]

/-- first step of `deserialize_value`: guard, discriminant read, dispatch -/
theorem dv_step (data p tl : List Nat) (d : Nat) (hd : data = p ++ ([d] ++ tl)) :
    deserializeValue data p.length = deserializeBody data d (p.length + 1) := by
  have hlen : ¬ data.length ≤ p.length := by subst hd; simp
  simp [deserializeValue, hlen, rd_at data p.length 1 p [d] tl hd rfl rfl, beVal_single]

/-! ### totality: no read outside the buffer, offsets stay inside -/

/-- a decoder outcome that is not `oob` and whose final offset lies in `[lo, data.length]` -/
def Good {α : Type} (data : List Nat) (lo : Nat) (r : Res α) : Prop :=
  r ≠ .oob ∧ ∀ v o, r = .ok v o → lo ≤ o ∧ o ≤ data.length

theorem good_err {α : Type} (data : List Nat) (lo : Nat) (e : String) :
    Good data lo (.err e : Res α) := by simp [Good]
theorem good_ok {α : Type} (data : List Nat) (lo o : Nat) (v : α) (h1 : lo ≤ o)
    (h2 : o ≤ data.length) : Good data lo (.ok v o : Res α) := by
  simp only [Good, ne_eq, reduceCtorEq, not_false_eq_true, Res.ok.injEq, true_and]
  intro _ _ h; omega
theorem good_mono {α : Type} {data : List Nat} {lo lo' : Nat} {r : Res α} (h : Good data lo r)
    (hl : lo' ≤ lo) : Good data lo' r :=
  ⟨h.1, fun v o e => ⟨Nat.le_trans hl (h.2 v o e).1, (h.2 v o e).2⟩⟩

theorem readF32s_total (data : List Nat) : ∀ (count off : Nat) (acc : List Nat),
    off + count * 4 ≤ data.length →
    ∃ v, readF32s data count off acc = .ok v (off + count * 4) := by
  intro count
  induction count with
  | zero => intro off acc _; exact ⟨acc.reverse, by simp [readF32s]⟩
  | succ n ih =>
    intro off acc h
    have h4 : off + 4 ≤ data.length := by omega
    obtain ⟨v, hv⟩ := ih (off + 4) (beVal ((data.drop off).take 4) :: acc) (by omega)
    exact ⟨v, by simp only [readF32s, rd_in data off 4 _ h4, hv, Res.ok.injEq, true_and]; omega⟩

theorem readLenPrefixed_total {α : Type} (data : List Nat) (off : Nat) (what : String)
    (k : List Nat → Nat → Res α)
    (hk : ∀ bs o, off + 4 ≤ o → o ≤ data.length → Good data (off + 4) (k bs o)) :
    Good data (off + 4) (readLenPrefixed data off what k) := by
  unfold readLenPrefixed
  split
  · exact good_err _ _ _
  · rename_i h1
    rw [rd_in data off 4 _ (by omega)]
    simp only []
    split
    · exact good_err _ _ _
    · rename_i h2
      rw [rd_in data (off + 4) _ _ (by omega)]
      exact hk _ _ (by omega) (by omega)

theorem body_total (data : List Nat) (disc off : Nat) (ho : off ≤ data.length) :
    Good data off (deserializeBody data disc off) := by
  unfold deserializeBody
  by_cases h0 : disc = 1
  · rw [if_pos h0]
    exact good_ok _ _ _ _ (Nat.le_refl _) ho
  rw [if_neg h0]
  by_cases h1 : disc = 20
  · rw [if_pos h1]
    exact good_ok _ _ _ _ (Nat.le_refl _) ho
  rw [if_neg h1]
  by_cases h2 : disc = 18
  · rw [if_pos h2]
    split
    · exact good_err _ _ _
    · simp (disch := omega) only [rd_in]
      exact good_ok _ _ _ _ (by omega) (by omega)
  rw [if_neg h2]
  by_cases h3 : disc = 22
  · rw [if_pos h3]
    split
    · exact good_err _ _ _
    · simp (disch := omega) only [rd_in]
      exact good_ok _ _ _ _ (by omega) (by omega)
  rw [if_neg h3]
  by_cases h4 : disc = 25
  · rw [if_pos h4]
    exact good_ok _ _ _ _ (Nat.le_refl _) ho
  rw [if_neg h4]
  by_cases h5 : disc = 16
  · rw [if_pos h5]
    exact good_ok _ _ _ _ (Nat.le_refl _) ho
  rw [if_neg h5]
  by_cases h6 : disc = 24
  · rw [if_pos h6]
    exact good_ok _ _ _ _ (Nat.le_refl _) ho
  rw [if_neg h6]
  by_cases h7 : disc = 19
  · rw [if_pos h7]
    split
    · exact good_err _ _ _
    · simp (disch := omega) only [rd_in]
      exact good_ok _ _ _ _ (by omega) (by omega)
  rw [if_neg h7]
  by_cases h8 : disc = 21
  · rw [if_pos h8]
    split
    · exact good_err _ _ _
    · simp (disch := omega) only [rd_in]
      exact good_ok _ _ _ _ (by omega) (by omega)
  rw [if_neg h8]
  by_cases h9 : disc = 32
  · rw [if_pos h9]
    refine good_mono (readLenPrefixed_total data off _ _ ?_) (by omega)
    intro bs o h1 h2
    split
    · exact good_ok _ _ _ _ h1 h2
    · exact good_err _ _ _
  rw [if_neg h9]
  by_cases h10 : disc = 33
  · rw [if_pos h10]
    refine good_mono (readLenPrefixed_total data off _ _ ?_) (by omega)
    intro bs o h1 h2
    exact good_ok _ _ _ _ h1 h2
  rw [if_neg h10]
  by_cases h11 : disc = 112
  · rw [if_pos h11]
    split
    · exact good_err _ _ _
    · rename_i h1
      rw [rd_in data off 4 _ (by omega)]
      simp only []
      split
      · exact good_err _ _ _
      · rename_i h2
        obtain ⟨v, hv⟩ := readF32s_total data _ (off + 4) [] (Nat.le_of_not_lt h2)
        rw [hv]
        exact good_ok _ _ _ _ (by omega) (Nat.le_of_not_lt h2)
  rw [if_neg h11]
  by_cases h12 : disc = 64
  · rw [if_pos h12]
    split
    · exact good_err _ _ _
    · simp (disch := omega) only [rd_in]
      exact good_ok _ _ _ _ (by omega) (by omega)
  rw [if_neg h12]
  by_cases h13 : disc = 67
  · rw [if_pos h13]
    split
    · exact good_err _ _ _
    · simp (disch := omega) only [rd_in]
      exact good_ok _ _ _ _ (by omega) (by omega)
  rw [if_neg h13]
  by_cases h14 : disc = 65
  · rw [if_pos h14]
    split
    · exact good_err _ _ _
    · simp (disch := omega) only [rd_in]
      exact good_ok _ _ _ _ (by omega) (by omega)
  rw [if_neg h14]
  by_cases h15 : disc = 66
  · rw [if_pos h15]
    split
    · exact good_err _ _ _
    · simp (disch := omega) only [rd_in]
      exact good_ok _ _ _ _ (by omega) (by omega)
  rw [if_neg h15]
  by_cases h16 : disc = 80
  · rw [if_pos h16]
    refine good_mono (readLenPrefixed_total data off _ _ ?_) (by omega)
    intro bs o h1 h2
    exact good_ok _ _ _ _ h1 h2
  rw [if_neg h16]
  by_cases h17 : disc = 51
  · rw [if_pos h17]
    split
    · exact good_err _ _ _
    · simp (disch := omega) only [rd_in]
      exact good_ok _ _ _ _ (by omega) (by omega)
  rw [if_neg h17]
  by_cases h18 : disc = 52
  · rw [if_pos h18]
    split
    · exact good_err _ _ _
    · simp (disch := omega) only [rd_in]
      exact good_ok _ _ _ _ (by omega) (by omega)
  rw [if_neg h18]
  by_cases h19 : disc = 128
  · rw [if_pos h19]
    split
    · exact good_err _ _ _
    · simp (disch := omega) only [rd_in]
      exact good_ok _ _ _ _ (by omega) (by omega)
  rw [if_neg h19]
  by_cases h20 : disc = 129
  · rw [if_pos h20]
    split
    · exact good_err _ _ _
    · simp (disch := omega) only [rd_in]
      exact good_ok _ _ _ _ (by omega) (by omega)
  rw [if_neg h20]
  by_cases h21 : disc = 130
  · rw [if_pos h21]
    split
    · exact good_err _ _ _
    · simp (disch := omega) only [rd_in]
      exact good_ok _ _ _ _ (by omega) (by omega)
  rw [if_neg h21]
  by_cases h22 : disc = 99
  · rw [if_pos h22]
    split
    · exact good_err _ _ _
    · simp (disch := omega) only [rd_in]
      exact good_ok _ _ _ _ (by omega) (by omega)
  rw [if_neg h22]
  by_cases h23 : disc = 131
  · rw [if_pos h23]
    split
    · exact good_err _ _ _
    · simp (disch := omega) only [rd_in]
      exact good_ok _ _ _ _ (by omega) (by omega)
  rw [if_neg h23]
  by_cases h24 : disc = 132
  · rw [if_pos h24]
    refine good_mono (readLenPrefixed_total data off _ _ ?_) (by omega)
    intro bs o h1 h2
    exact good_ok _ _ _ _ h1 h2
  rw [if_neg h24]
  exact good_err _ _ _

end TurVerif.RowSerde
