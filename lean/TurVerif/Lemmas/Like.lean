import TurVerif.Model.Sql
import TurVerif.Model.Like
/-!
Helper lemmas for C14 (LIKE): the engine's greedy single-backtrack matcher (`Model/Like.lean`,
M-code of `CompiledPredicate::like_match_impl`) terminates within `fuelFor`, and on texts without
a `%` byte it computes the declarative LIKE semantics.

* `likeSpecB`        byte-level copy of `Sql.likeSpec` (37 = '%', 95 = '_')
* `likeGo_total`     the potential `pot` bounds the number of loop iterations
* `likeGo_sound`     state invariant `Inv` + state value `Val` (what the state "still can match")
-/
namespace TurVerif.Like
open TurVerif.Sql (tails)

/-- byte-level copy of `TurVerif.Sql.likeSpec` (pattern first, text second) -/
def likeSpecB : List Nat → List Nat → Bool
  | [], s => s.isEmpty
  | c :: p, s =>
    if c = 37 then (tails s).any (fun s' => likeSpecB p s')
    else match s with
      | [] => false
      | x :: s' => (c = 95 || c = x) && likeSpecB p s'

/-! ### facts about the declarative definition -/

theorem mem_tails {α : Type} (s s' : List α) : s' ∈ tails s ↔ ∃ k, s' = s.drop k := by
  induction s with
  | nil => simp [tails]
  | cons x xs ih =>
    simp only [tails, List.mem_cons, ih]
    constructor
    · rintro (h | ⟨k, h⟩)
      · exact ⟨0, by simp [h]⟩
      · exact ⟨k + 1, by simp [h]⟩
    · rintro ⟨k, h⟩
      cases k with
      | zero => left; simpa using h
      | succ k => right; exact ⟨k, by simpa using h⟩

/-- `%` = some suffix of the text matches the rest of the pattern -/
theorem specB_pct (q u : List Nat) :
    likeSpecB (37 :: q) u = true ↔ ∃ k, likeSpecB q (u.drop k) = true := by
  simp only [likeSpecB, if_true, List.any_eq_true]
  constructor
  · rintro ⟨s', hm, hs⟩
    obtain ⟨k, rfl⟩ := (mem_tails u s').mp hm
    exact ⟨k, hs⟩
  · rintro ⟨k, hs⟩
    exact ⟨u.drop k, (mem_tails u _).mpr ⟨k, rfl⟩, hs⟩

/-- `%` at text position `i` = the rest of the pattern matches at some position `k ≥ i` -/
theorem specB_pct_drop (q u : List Nat) (i : Nat) :
    likeSpecB (37 :: q) (u.drop i) = true ↔ ∃ k, i ≤ k ∧ likeSpecB q (u.drop k) = true := by
  rw [specB_pct]
  constructor
  · rintro ⟨k, h⟩
    exact ⟨i + k, by omega, by simpa [List.drop_drop] using h⟩
  · rintro ⟨k, hk, h⟩
    refine ⟨k - i, ?_⟩
    rw [List.drop_drop]
    have : i + (k - i) = k := by omega
    rw [this]; exact h

theorem specB_lit (c x : Nat) (q u : List Nat) (hc : c ≠ 37) :
    likeSpecB (c :: q) (x :: u) = ((c = 95 || c = x) && likeSpecB q u) := by
  simp [likeSpecB, hc]

theorem specB_lit_nil (c : Nat) (q : List Nat) (hc : c ≠ 37) :
    likeSpecB (c :: q) [] = false := by
  simp [likeSpecB, hc]

/-- on the empty text only `%…%` matches (the engine's trailing `while` loop) -/
theorem specB_nil (q : List Nat) : likeSpecB q [] = q.all (· == pct) := by
  induction q with
  | nil => rfl
  | cons c q ih =>
    by_cases hc : c = 37
    · subst hc; simp [likeSpecB, tails, ih, pct]
    · simp [likeSpecB, hc, pct]

theorem drop_cons_getD (l : List Nat) (i : Nat) (h : i < l.length) :
    l.drop i = l.getD i 0 :: l.drop (i + 1) := by
  rw [List.drop_eq_getElem_cons h]
  simp [List.getD_eq_getElem?_getD, h]

/-- a `%`-free pattern segment `p[a .. a+n)` consumes exactly `n` text bytes -/
theorem specB_segment (p : List Nat) (n : Nat) : ∀ (a : Nat) (u : List Nat),
    (∀ j, a ≤ j → j < a + n → p.getD j 0 ≠ 37) → a + n ≤ p.length →
    likeSpecB (p.drop a) u = true →
    n ≤ u.length ∧ likeSpecB (p.drop (a + n)) (u.drop n) = true := by
  induction n with
  | zero => intro a u _ _ h; exact ⟨Nat.zero_le _, by simpa using h⟩
  | succ n ih =>
    intro a u hfree hlen h
    rw [drop_cons_getD p a (by omega)] at h
    have hc : p.getD a 0 ≠ 37 := hfree a (Nat.le_refl _) (by omega)
    cases u with
    | nil => rw [specB_lit_nil _ _ hc] at h; cases h
    | cons x u =>
      rw [specB_lit _ _ _ _ hc] at h
      have h2 : likeSpecB (p.drop (a + 1)) u = true := by
        simp only [Bool.and_eq_true] at h; exact h.2
      have := ih (a + 1) u (fun j h1 h2 => hfree j (by omega) (by omega)) (by omega) h2
      refine ⟨by simp; omega, ?_⟩
      have e : a + (n + 1) = a + 1 + n := by omega
      rw [e]; simpa using this.2

/-! ### termination: the fuel `fuelFor t p` always suffices -/

/-- weak state invariant of the loop (holds for every text and pattern) -/
def Inv0 (t p : List Nat) (ti pi : Nat) (star : Option Nat) (starTi : Nat) : Prop :=
  ti ≤ t.length ∧ pi ≤ p.length ∧ starTi ≤ ti ∧ ∀ sp, star = some sp → sp < pi

/-- potential: lexicographic (distance of the backtrack point to the end, remaining text +
remaining pattern), flattened with weight `|t| + |p| + 1`; every iteration decreases it -/
def pot (t p : List Nat) (ti pi starTi : Nat) : Nat :=
  (t.length + p.length + 1) * (t.length - starTi) + (t.length - ti) + (p.length - pi) + 1

theorem mul_sub_step (A n s : Nat) (h : s < n) : A * (n - s) = A * (n - (s + 1)) + A := by
  have : n - s = (n - (s + 1)) + 1 := by omega
  rw [this, Nat.mul_succ]

theorem likeGo_succ (t p : List Nat) (fuel ti pi : Nat) (star : Option Nat) (starTi : Nat) :
    likeGo t p (fuel + 1) ti pi star starTi =
      if ti < t.length then
        if pi < p.length ∧ (p.getD pi 0 = und ∨ p.getD pi 0 = t.getD ti 0) then
          likeGo t p fuel (ti + 1) (pi + 1) star starTi
        else if pi < p.length ∧ p.getD pi 0 = pct then
          likeGo t p fuel ti (pi + 1) (some pi) ti
        else match star with
          | some sp => likeGo t p fuel (starTi + 1) (sp + 1) star (starTi + 1)
          | none => some false
      else some ((p.drop pi).all (· == pct)) := by
  cases star <;> simp only [likeGo]

theorem likeGo_total (t p : List Nat) : ∀ (fuel ti pi : Nat) (star : Option Nat) (starTi : Nat),
    Inv0 t p ti pi star starTi → pot t p ti pi starTi ≤ fuel →
    likeGo t p fuel ti pi star starTi ≠ none := by
  intro fuel
  induction fuel with
  | zero => intro ti pi star starTi _ h; simp [pot] at h
  | succ fuel ih =>
    intro ti pi star starTi ⟨h1, h2, h3, h4⟩ hp
    by_cases hti : ti < t.length
    · by_cases hm : pi < p.length ∧ (p.getD pi 0 = und ∨ p.getD pi 0 = t.getD ti 0)
      · rw [likeGo_succ, if_pos hti, if_pos hm]
        apply ih
        · exact ⟨by omega, by omega, by omega, fun sp h => by have := h4 sp h; omega⟩
        · unfold pot at *; omega
      · by_cases hs : pi < p.length ∧ p.getD pi 0 = pct
        · rw [likeGo_succ, if_pos hti, if_neg hm, if_pos hs]
          apply ih
          · exact ⟨h1, by omega, Nat.le_refl _, fun sp h => by cases h; omega⟩
          · unfold pot at *
            have : (t.length + p.length + 1) * (t.length - ti)
                ≤ (t.length + p.length + 1) * (t.length - starTi) :=
              Nat.mul_le_mul_left _ (by omega)
            omega
        · cases star with
          | none => rw [likeGo_succ, if_pos hti, if_neg hm, if_neg hs]; simp
          | some sp =>
            rw [likeGo_succ, if_pos hti, if_neg hm, if_neg hs]
            apply ih
            · exact ⟨by omega, by have := h4 sp rfl; omega, Nat.le_refl _,
                fun sp' h => by cases h; omega⟩
            · unfold pot at *
              have := mul_sub_step (t.length + p.length + 1) t.length starTi (by omega)
              have := h4 sp rfl
              omega
    · rw [likeGo_succ, if_neg hti]; simp

theorem fuelFor_ge_pot (t p : List Nat) : pot t p 0 0 0 ≤ fuelFor t p := by
  unfold pot fuelFor
  simp only [Nat.sub_zero]
  have e1 : (t.length + p.length + 1) * t.length + t.length + p.length + 1
      = (t.length + p.length + 1) * (t.length + 1) := by
    rw [Nat.mul_succ]; omega
  have e2 : (t.length + 2) * (t.length + p.length + 2)
      = (t.length + p.length + 2) * (t.length + 2) := Nat.mul_comm _ _
  rw [e1, e2]
  have : (t.length + p.length + 1) * (t.length + 1) ≤ (t.length + p.length + 2) * (t.length + 2) :=
    Nat.mul_le_mul (by omega) (by omega)
  omega

theorem likeImpl_total' (t p : List Nat) : likeImpl t p ≠ none :=
  likeGo_total t p _ 0 0 none 0 ⟨Nat.zero_le _, Nat.zero_le _, Nat.le_refl _, fun _ h => by cases h⟩
    (fuelFor_ge_pot t p)

/-! ### correctness on texts without a `%` byte -/

/-- strong state invariant: the pattern segment between the remembered `%` and `pi` is `%`-free
and exactly as long as the text consumed since the backtrack point -/
def Inv (t p : List Nat) (ti pi : Nat) (star : Option Nat) (starTi : Nat) : Prop :=
  ti ≤ t.length ∧ pi ≤ p.length ∧
  ∀ sp, star = some sp → sp < pi ∧ starTi ≤ ti ∧ ti - starTi = pi - (sp + 1) ∧
    ∀ j, sp + 1 ≤ j → j < pi → p.getD j 0 ≠ 37

/-- what the remembered `%` can still deliver: the pattern after it matches at a later position -/
def StarVal (t p : List Nat) (star : Option Nat) (starTi : Nat) : Prop :=
  ∃ sp, star = some sp ∧ ∃ k, starTi + 1 ≤ k ∧ likeSpecB (p.drop (sp + 1)) (t.drop k) = true

/-- value of a loop state: the answer the loop is going to give from here -/
def Val (t p : List Nat) (ti pi : Nat) (star : Option Nat) (starTi : Nat) : Prop :=
  likeSpecB (p.drop pi) (t.drop ti) = true ∨ StarVal t p star starTi

/-- greedy dominance: whatever the remembered `%` can deliver passes through the current
pattern position at a later text position -/
theorem star_dom (t p : List Nat) (ti pi : Nat) (star : Option Nat) (starTi : Nat)
    (hI : Inv t p ti pi star starTi) (hS : StarVal t p star starTi) :
    ∃ j, ti + 1 ≤ j ∧ likeSpecB (p.drop pi) (t.drop j) = true := by
  obtain ⟨sp, hsp, k, hk, hm⟩ := hS
  obtain ⟨_, h2, h3⟩ := hI
  obtain ⟨h4, h5, h6, h7⟩ := h3 sp hsp
  have := specB_segment p (pi - (sp + 1)) (sp + 1) (t.drop k)
    (fun j h1 h2 => h7 j h1 (by omega)) (by omega) hm
  refine ⟨k + (pi - (sp + 1)), by omega, ?_⟩
  have e : sp + 1 + (pi - (sp + 1)) = pi := by omega
  rw [e, List.drop_drop] at this
  exact this.2

theorem specB_mismatch (t p : List Nat) (ti pi : Nat) (hti : ti < t.length)
    (hm : ¬ (pi < p.length ∧ (p.getD pi 0 = und ∨ p.getD pi 0 = t.getD ti 0)))
    (hs : ¬ (pi < p.length ∧ p.getD pi 0 = pct)) :
    likeSpecB (p.drop pi) (t.drop ti) = false := by
  rw [drop_cons_getD t ti hti]
  by_cases hpi : pi < p.length
  · rw [drop_cons_getD p pi hpi]
    have h1 : p.getD pi 0 ≠ 37 := fun h => hs ⟨hpi, h⟩
    have h2 : p.getD pi 0 ≠ 95 := fun h => hm ⟨hpi, Or.inl h⟩
    have h3 : p.getD pi 0 ≠ t.getD ti 0 := fun h => hm ⟨hpi, Or.inr h⟩
    rw [specB_lit _ _ _ _ h1, decide_eq_false h2, decide_eq_false h3]
    rfl
  · rw [List.drop_eq_nil_of_le (by omega)]
    simp [likeSpecB]

theorem likeGo_sound (t p : List Nat) (ht : ∀ i, i < t.length → t.getD i 0 ≠ 37) :
    ∀ (fuel ti pi : Nat) (star : Option Nat) (starTi : Nat) (b : Bool),
    Inv t p ti pi star starTi → likeGo t p fuel ti pi star starTi = some b →
    (b = true ↔ Val t p ti pi star starTi) := by
  intro fuel
  induction fuel with
  | zero => intro ti pi star starTi b _ h; simp [likeGo] at h
  | succ fuel ih =>
    intro ti pi star starTi b hI h
    have hI' := hI
    obtain ⟨h1, h2, h3⟩ := hI'
    by_cases hti : ti < t.length
    · by_cases hm : pi < p.length ∧ (p.getD pi 0 = und ∨ p.getD pi 0 = t.getD ti 0)
      · -- the pattern byte matches the text byte: advance both
        rw [likeGo_succ, if_pos hti, if_pos hm] at h
        have hx := ht ti hti
        have hc : p.getD pi 0 ≠ 37 := by
          rcases hm.2 with e | e
          · rw [e]; decide
          · rw [e]; exact hx
        have hI2 : Inv t p (ti + 1) (pi + 1) star starTi := by
          refine ⟨by omega, by omega, fun sp hsp => ?_⟩
          obtain ⟨a, b', c, d⟩ := h3 sp hsp
          refine ⟨by omega, by omega, by omega, fun j j1 j2 => ?_⟩
          by_cases e : j = pi
          · rw [e]; exact hc
          · exact d j j1 (by omega)
        rw [ih _ _ _ _ _ hI2 h]
        unfold Val
        rw [drop_cons_getD t ti hti, drop_cons_getD p pi hm.1, specB_lit _ _ _ _ hc]
        have : (decide (p.getD pi 0 = 95) || decide (p.getD pi 0 = t.getD ti 0)) = true := by
          rcases hm.2 with e | e
          · have e' : p.getD pi 0 = 95 := e
            rw [decide_eq_true e', Bool.true_or]
          · rw [decide_eq_true e, Bool.or_true]
        rw [this, Bool.true_and]
      · by_cases hs : pi < p.length ∧ p.getD pi 0 = pct
        · -- `%`: remember it, try the empty expansion first
          rw [likeGo_succ, if_pos hti, if_neg hm, if_pos hs] at h
          have hI2 : Inv t p ti (pi + 1) (some pi) ti := by
            refine ⟨h1, by omega, fun sp hsp => ?_⟩
            cases hsp
            exact ⟨by omega, Nat.le_refl _, by omega, fun j j1 j2 => by omega⟩
          rw [ih _ _ _ _ _ hI2 h]
          have hpat : p.drop pi = 37 :: p.drop (pi + 1) := by
            rw [drop_cons_getD p pi hs.1, hs.2]; rfl
          unfold Val StarVal
          rw [hpat, specB_pct_drop]
          constructor
          · rintro (hl | ⟨sp, hsp, k, hk, hmk⟩)
            · exact Or.inl ⟨ti, Nat.le_refl _, hl⟩
            · cases hsp
              exact Or.inl ⟨k, by omega, hmk⟩
          · rintro (⟨k, hk, hmk⟩ | hstar)
            · by_cases e : k = ti
              · left; rw [← e]; exact hmk
              · right; exact ⟨pi, rfl, k, by omega, hmk⟩
            · obtain ⟨j, hj, hmj⟩ := star_dom t p ti pi star starTi hI hstar
              rw [hpat, specB_pct_drop] at hmj
              obtain ⟨k, hk, hmk⟩ := hmj
              right; exact ⟨pi, rfl, k, by omega, hmk⟩
        · have hfalse := specB_mismatch t p ti pi hti hm hs
          cases star with
          | none =>
            rw [likeGo_succ, if_pos hti, if_neg hm, if_neg hs] at h
            simp only [Option.some.injEq] at h
            subst h
            unfold Val StarVal
            simp [hfalse]
          | some sp =>
            -- mismatch: fall back to the remembered `%`, let it swallow one more byte
            rw [likeGo_succ, if_pos hti, if_neg hm, if_neg hs] at h
            obtain ⟨a, b', c, d⟩ := h3 sp rfl
            have hI2 : Inv t p (starTi + 1) (sp + 1) (some sp) (starTi + 1) := by
              refine ⟨by omega, by omega, fun sp' hsp => ?_⟩
              cases hsp
              exact ⟨by omega, Nat.le_refl _, by omega, fun j j1 j2 => by omega⟩
            rw [ih _ _ _ _ _ hI2 h]
            unfold Val StarVal
            rw [hfalse]
            constructor
            · rintro (hl | ⟨sp', hsp, k, hk, hmk⟩)
              · exact Or.inr ⟨sp, rfl, starTi + 1, Nat.le_refl _, hl⟩
              · cases hsp
                exact Or.inr ⟨sp, rfl, k, by omega, hmk⟩
            · rintro (hl | ⟨sp', hsp, k, hk, hmk⟩)
              · cases hl
              · cases hsp
                by_cases e : k = starTi + 1
                · left; rw [← e]; exact hmk
                · right; exact ⟨sp, rfl, k, by omega, hmk⟩
    · -- text exhausted: only `%…%` may remain
      rw [likeGo_succ, if_neg hti] at h
      simp only [Option.some.injEq] at h
      subst h
      rw [← specB_nil]
      unfold Val
      have e : t.drop ti = [] := List.drop_eq_nil_of_le (by omega)
      rw [e]
      constructor
      · intro hl; exact Or.inl hl
      · rintro (hl | hstar)
        · exact hl
        · obtain ⟨j, hj, hmj⟩ := star_dom t p ti pi star starTi hI hstar
          have e2 : t.drop j = [] := List.drop_eq_nil_of_le (by omega)
          rw [e2] at hmj
          exact hmj

/-- on texts without a `%` byte the engine's matcher computes the declarative LIKE -/
theorem likeImpl_eq_specB (t p : List Nat) (ht : ∀ b ∈ t, b ≠ 37) :
    likeImpl t p = some (likeSpecB p t) := by
  have ht' : ∀ i, i < t.length → t.getD i 0 ≠ 37 := by
    intro i hi
    have : t.getD i 0 = t[i] := by simp [List.getD_eq_getElem?_getD, hi]
    rw [this]; exact ht _ (List.getElem_mem hi)
  cases h : likeImpl t p with
  | none => exact absurd h (likeImpl_total' t p)
  | some b =>
    have hI : Inv t p 0 0 none 0 := ⟨Nat.zero_le _, Nat.zero_le _, fun _ h => by cases h⟩
    have := likeGo_sound t p ht' _ 0 0 none 0 b hI h
    have hv : Val t p 0 0 none 0 ↔ likeSpecB p t = true := by
      unfold Val StarVal
      simp
    rw [hv] at this
    congr 1
    exact Bool.eq_iff_iff.mpr this

end TurVerif.Like
