import TurVerif.Lemmas.DecCore
import TurVerif.Model.CatalogDec
/-!
Totality of the catalog deserializer model: every parser step either fails with `Err` or
succeeds at a position that is not before the one it started from; no step reads out of bounds.
-/
namespace TurVerif.CatalogDec
open TurVerif.Dec

/-- outcome of a parser step started at `pos`: no panic, and on success the position did not
move backwards (by at least `k` bytes forwards) -/
def OkAt {α : Type} (k : Nat) (r : Res (α × Nat)) (pos : Nat) : Prop :=
  r.panics = false ∧ ∀ x p, r = .ok (x, p) → pos + k ≤ p

theorem OkAt.weaken {α : Type} {k : Nat} {r : Res (α × Nat)} {pos : Nat} (h : OkAt k r pos) :
    OkAt 0 r pos := ⟨h.1, fun x p e => by have := h.2 x p e; omega⟩

theorem okAt_ok {α : Type} (x : α) {pos p : Nat} (h : pos ≤ p) : OkAt 0 (Res.ok (x, p)) pos :=
  ⟨rfl, fun _ _ e => by cases e; omega⟩

theorem okAt_err {α : Type} (k : Nat) (e : String) (pos : Nat) : OkAt k (Res.err e : Res (α × Nat)) pos :=
  ⟨rfl, fun _ _ h => by cases h⟩

/-- sequencing two steps -/
theorem okAt_bind {α β : Type} {k : Nat} {r : Res (α × Nat)} {f : α × Nat → Res (β × Nat)} {pos : Nat}
    (h1 : OkAt k r pos) (h2 : ∀ x p, pos + k ≤ p → OkAt 0 (f (x, p)) p) : OkAt k (r.bind f) pos := by
  cases r with
  | ok a =>
    obtain ⟨x, p⟩ := a
    have hp := h1.2 x p rfl
    have h := h2 x p hp
    exact ⟨h.1, fun y q e => by have := h.2 y q e; omega⟩
  | err e => exact okAt_err _ _ _
  | oob => exact absurd h1.1 (by simp)
  | arith => exact absurd h1.1 (by simp)
  | expect => exact absurd h1.1 (by simp)
  | fuel => exact absurd h1.1 (by simp)

/-- a guard in front of a step -/
theorem okAt_ensure {β : Type} {k : Nat} (c : Bool) (e : String) {f : Unit → Res (β × Nat)} {pos : Nat}
    (h : c = true → OkAt k (f ()) pos) : OkAt k ((ensure c e).bind f) pos := by
  unfold ensure
  cases c with
  | true => simpa using h rfl
  | false => exact okAt_err _ _ _

theorem u8At_ok (b : Buf) (w : String) (pos : Nat) : OkAt 1 (u8At b w pos) pos := by
  unfold u8At
  apply okAt_ensure; intro h
  have h := of_decide_eq_true h
  rw [rd_lt h]
  exact ⟨rfl, fun _ _ e => by cases e; omega⟩

theorem u16At_ok (b : Buf) (w : String) (pos : Nat) : OkAt 2 (u16At b w pos) pos := by
  unfold u16At
  apply okAt_ensure; intro h
  have h := of_decide_eq_true h
  rw [rd16_le h]
  exact ⟨rfl, fun _ _ e => by cases e; omega⟩

theorem u32At_ok (b : Buf) (w : String) (pos : Nat) : OkAt 4 (u32At b w pos) pos := by
  unfold u32At
  apply okAt_ensure; intro h
  have h := of_decide_eq_true h
  obtain ⟨v, hv⟩ := rd32_le h
  rw [hv]
  exact ⟨rfl, fun _ _ e => by cases e; omega⟩

theorem u64At_ok (b : Buf) (w : String) (pos : Nat) : OkAt 8 (u64At b w pos) pos := by
  unfold u64At
  apply okAt_ensure; intro h
  have h := of_decide_eq_true h
  obtain ⟨v, hv⟩ := rd64_le h
  rw [hv]
  exact ⟨rfl, fun _ _ e => by cases e; omega⟩

theorem strAt_ok (b : Buf) (w : String) (pos : Nat) : OkAt 2 (strAt b w pos) pos := by
  unfold strAt
  apply okAt_bind (u16At_ok b _ pos); intro n p _
  try dsimp only
  apply okAt_ensure; intro h
  have h := of_decide_eq_true h
  rw [slice_le (by omega) h]
  simp only [bind_ok]
  split
  · exact okAt_ok _ (by omega)
  · exact okAt_err _ _ _

theorem repeatN_ok {α : Type} (item : P α) (hi : ∀ pos, OkAt 0 (item pos) pos) :
    ∀ n pos, OkAt 0 (repeatN item n pos) pos := by
  intro n
  induction n with
  | zero => intro pos; exact okAt_ok _ (Nat.le_refl _)
  | succ n ih =>
    intro pos
    unfold repeatN
    apply okAt_bind (hi pos); intro x p _
    try dsimp only
    apply okAt_bind (ih p); intro xs q _
    try dsimp only
    exact okAt_ok _ (Nat.le_refl _)

theorem constraintAt_ok (b : Buf) (pos : Nat) : OkAt 0 (constraintAt b pos) pos := by
  unfold constraintAt
  apply OkAt.weaken
  apply okAt_bind (u8At_ok b _ pos); intro ct p _
  try dsimp only
  split
  · exact okAt_ok _ (Nat.le_refl _)
  · split
    · apply okAt_bind (strAt_ok b _ p).weaken; intro _ p2 _
      try dsimp only
      apply okAt_bind (strAt_ok b _ p2).weaken; intro _ p3 _
      try dsimp only
      split
      · rename_i h
        rw [rd_lt (b := b) (i := p3) (by omega), rd_lt (b := b) (i := p3 + 1) (by omega)]
        exact okAt_ok _ (by omega)
      · exact okAt_ok _ (Nat.le_refl _)
    · split
      · apply okAt_bind (strAt_ok b _ p).weaken; intro _ p2 _
        try dsimp only
        exact okAt_ok _ (Nat.le_refl _)
      · exact okAt_err _ _ _

theorem columnAt_ok (b : Buf) (pos : Nat) : OkAt 0 (columnAt b pos) pos := by
  unfold columnAt
  apply okAt_bind (strAt_ok b _ pos).weaken; intro name p1 _
  try dsimp only
  apply okAt_bind (u8At_ok b _ p1).weaken; intro ty p2 _
  try dsimp only
  apply okAt_ensure; intro _
  apply okAt_bind (u16At_ok b _ p2).weaken; intro cc p3 _
  try dsimp only
  apply okAt_bind (repeatN_ok _ (constraintAt_ok b) cc p3); intro cs p4 _
  try dsimp only
  apply okAt_bind (u8At_ok b _ p4).weaken; intro hd p5 _
  try dsimp only
  apply okAt_bind (r := (if hd ≠ 0 then _ else _)) (k := 0)
  · split
    · apply okAt_bind (strAt_ok b _ p5).weaken; intro _ p6 _
      try dsimp only
      exact okAt_ok _ (Nat.le_refl _)
    · exact okAt_ok _ (Nat.le_refl _)
  · intro _ p6 _
    try dsimp only
    split
    · rename_i h
      rw [rd_lt h]; simp only [bind_ok]
      split
      · have := u32At_ok b "max_length" (p6 + 1)
        refine okAt_bind (k := 0) ⟨this.1, fun x p e => by have := this.2 x p e; omega⟩ ?_
        intro ml p7 _
        try dsimp only
        exact okAt_ok _ (Nat.le_refl _)
      · exact okAt_ok _ (by omega)
    · exact okAt_ok _ (Nat.le_refl _)

theorem indexColAt_ok (b : Buf) (pos : Nat) : OkAt 0 (indexColAt b pos) pos := by
  unfold indexColAt
  apply okAt_bind (strAt_ok b _ pos).weaken; intro n p1 _
  try dsimp only
  apply okAt_bind (u8At_ok b _ p1).weaken; intro d p2 _
  try dsimp only
  exact okAt_ok _ (Nat.le_refl _)

theorem indexAt_ok (b : Buf) (pos : Nat) : OkAt 0 (indexAt b pos) pos := by
  unfold indexAt
  apply okAt_bind (strAt_ok b _ pos).weaken; intro name p1 _
  try dsimp only
  apply okAt_bind (u16At_ok b _ p1).weaken; intro cc p2 _
  try dsimp only
  apply okAt_bind (repeatN_ok _ (indexColAt_ok b) cc p2); intro cols p3 _
  try dsimp only
  apply okAt_bind (u8At_ok b _ p3).weaken; intro u p4 _
  try dsimp only
  apply okAt_bind (u8At_ok b _ p4).weaken; intro t p5 _
  try dsimp only
  split
  · exact okAt_ok _ (Nat.le_refl _)
  · exact okAt_err _ _ _

theorem tableAt_ok (b : Buf) (pos : Nat) : OkAt 0 (tableAt b pos) pos := by
  unfold tableAt
  apply okAt_bind (u64At_ok b _ pos).weaken; intro id p1 _
  try dsimp only
  apply okAt_bind (strAt_ok b _ p1).weaken; intro name p2 _
  try dsimp only
  apply okAt_bind (u32At_ok b _ p2).weaken; intro cc p3 _
  try dsimp only
  apply okAt_bind (repeatN_ok _ (columnAt_ok b) cc p3); intro cols p4 _
  try dsimp only
  apply okAt_bind (u8At_ok b _ p4).weaken; intro hp p5 _
  try dsimp only
  apply okAt_bind (r := (if hp ≠ 0 then _ else _)) (k := 0)
  · split
    · apply okAt_bind (u16At_ok b _ p5).weaken; intro pc p6 _
      try dsimp only
      apply okAt_bind (repeatN_ok _ (fun q => (strAt_ok b _ q).weaken) pc p6); intro ns p7 _
      try dsimp only
      exact okAt_ok _ (Nat.le_refl _)
    · exact okAt_ok _ (Nat.le_refl _)
  · intro pk p6 _
    try dsimp only
    apply okAt_bind (u32At_ok b _ p6).weaken; intro ic p7 _
    try dsimp only
    apply okAt_bind (repeatN_ok _ (indexAt_ok b) ic p7); intro idxs p8 _
    try dsimp only
    split
    · rename_i h
      rw [rd_lt h]; simp only [bind_ok]
      split
      · rename_i h2
        obtain ⟨v, hv⟩ := rd64_le (b := b) (i := p8 + 1) (by omega)
        rw [hv]
        exact okAt_ok _ (by omega)
      · exact okAt_ok _ (by omega)
    · exact okAt_ok _ (Nat.le_refl _)

theorem schemaAt_ok (b : Buf) (pos : Nat) : OkAt 4 (schemaAt b pos) pos := by
  unfold schemaAt
  apply okAt_bind (u32At_ok b _ pos); intro id p1 _
  try dsimp only
  apply okAt_bind (strAt_ok b _ p1).weaken; intro name p2 _
  try dsimp only
  apply okAt_bind (u32At_ok b _ p2).weaken; intro tc p3 _
  try dsimp only
  apply okAt_bind (repeatN_ok _ (tableAt_ok b) tc p3); intro ts p4 _
  try dsimp only
  exact okAt_ok _ (Nat.le_refl _)

theorem desLoop_safe (b : Buf) (known : List (List Nat)) :
    ∀ f pos, b.len + 1 ≤ f + pos → (desLoop b known f pos).panics = false := by
  intro f
  induction f with
  | zero =>
    intro pos h
    unfold desLoop
    have : ¬ pos < b.len := by omega
    simp [this]
  | succ f ih =>
    intro pos h
    unfold desLoop
    split
    · have hs := schemaAt_ok b pos
      apply bind_safe hs.1
      intro a ha
      obtain ⟨⟨id, name, ts⟩, p'⟩ := a
      have hp := hs.2 _ _ ha
      simp only []
      split
      · apply bind_safe (ih p' (by omega)); intro _ _; rfl
      · rfl
    · rfl

end TurVerif.CatalogDec
