import TurVerif.Lemmas.Jsonb
/-!
C32  JSON documents round-trip through JSONB.

Theorems about the M-code models `TurVerif.Jsonb` (builder and readers of src/records/jsonb.rs,
`to_jsonb_bytes` of src/parsing/json.rs, the `OwnedValue::jsonb_*` glue) and `TurVerif.Json`
(`parse_json` and the RFC 8259 reference parser).

Domain of the `_partial` theorems (`WF` / `WFn`, decidable): numbers are 64-bit patterns, every
string/key stored inside a container is valid UTF-8 and shorter than 2^16 bytes, every container
encodes to fewer than 2^24 bytes (a root string: fewer than 2^28 bytes). Outside this domain the
real code loses data (u16 length prefix, 24-bit offsets): see the `_counterexample` theorems and
known findings C32-u16-string-length / C32-u16-key-length / C32-24bit-offset.
-/
namespace TurVerif.C32
open TurVerif.Jsonb TurVerif.Json

/-! ### helpers -/

theorem bind_assoc {α β γ : Type} (r : Res α) (f : α → Res β) (g : β → Res γ) :
    (r.bind f).bind g = r.bind fun a => (f a).bind g := by
  cases r <;> rfl

theorem bind_pure {α : Type} (r : Res α) : r.bind .ok = r := by cases r <;> rfl

theorem arrayGet_eq (buf : List Nat) (i : Nat) (h1 : rootType buf = 1) (h2 : i < entryCount buf) :
    arrayGet buf i = (arrayItem buf i).bind fun v => .ok (some v) := by
  unfold arrayGet arrayItem
  have : ¬ entryCount buf ≤ i := by omega
  simp only [h1, ne_eq, not_true_eq_false, if_false, this]
  rw [bind_assoc]

theorem normPairs_mem (kvs : List KV) (k : List Nat) (y : J) :
    (k, y) ∈ normPairs kvs ↔ ∃ x, (k, x) ∈ kvs ∧ y = norm x := by
  induction kvs with
  | nil => simp [normPairs]
  | cons kv rest ih =>
    obtain ⟨k', v⟩ := kv
    simp only [normPairs, List.mem_cons, Prod.mk.injEq, ih]
    constructor
    · rintro (⟨rfl, rfl⟩ | ⟨x, hx, rfl⟩)
      · exact ⟨v, Or.inl ⟨rfl, rfl⟩, rfl⟩
      · exact ⟨x, Or.inr hx, rfl⟩
    · rintro ⟨x, (⟨rfl, rfl⟩ | hx), rfl⟩
      · exact Or.inl ⟨rfl, rfl⟩
      · exact Or.inr ⟨x, hx, rfl⟩

theorem nodup_keys_unique (kvs : List KV) (h : (kvs.map (·.1)).Nodup) (k : List Nat) (x y : J)
    (hx : (k, x) ∈ kvs) (hy : (k, y) ∈ kvs) : x = y := by
  induction kvs with
  | nil => simp at hx
  | cons kv rest ih =>
    simp only [List.map_cons, List.nodup_cons, List.mem_map, not_exists, not_and] at h
    rcases List.mem_cons.mp hx with rfl | hx'
    · rcases List.mem_cons.mp hy with hy' | hy'
      · injection hy' with _ h2; exact h2.symm
      · exact absurd rfl (h.1 (k, y) hy')
    · rcases List.mem_cons.mp hy with rfl | hy'
      · exact absurd rfl (h.1 (k, x) hx')
      · exact ih h.2 hx' hy'

/-- one `get` step of a path: only an object can be stepped into -/
def stepGet (r : Option V) (k : List Nat) : Res (Option V) :=
  match r with
  | some (.obj view) => get view k
  | _ => .ok none

theorem pathLoop_snoc (ks : List (List Nat)) (k : List Nat) : ∀ cur,
    pathLoop cur (ks ++ [k]) = (pathLoop cur ks).bind fun r => stepGet r k := by
  induction ks with
  | nil =>
    intro cur
    cases cur with
    | none => simp [pathLoop, stepGet]
    | some v => cases v <;> simp [pathLoop, stepGet, bind_pure]
  | cons k0 ks ih =>
    intro cur
    cases cur with
    | none => simp [pathLoop, stepGet]
    | some v =>
      cases v <;> simp only [List.cons_append, pathLoop, Res.bind_ok, stepGet]
      rw [bind_assoc]
      congr 1
      funext r
      exact ih r

/-! ### property theorems -/

/-- ROUND TRIP (`_partial`: domain `WF`): reading a built document back through the iteration
API yields exactly the value that was encoded, members in stored order. -/
theorem view_build_partial (w : J) (h : WF w) : fromJsonb (encVal w) = .ok w := by
  cases w with
  | null => simp [fromJsonb, encVal, hdr, le24, viewNew, asValue, rootType, fromV]
  | bool b => cases b <;> simp [fromJsonb, encVal, hdr, le24, viewNew, asValue, rootType, entryCount, fromV]
  | num n =>
    simp only [WF, WFn] at h
    have h1 : viewNew (hdr 4 0 ++ le64 n) = .ok (hdr 4 0 ++ le64 n) := by simp [viewNew]
    have h2 : asValue (hdr 4 0 ++ le64 n) = .ok (.num n) := by
      unfold asValue
      rw [rootType_hdr _ _ _ (by omega)]
      simp only [Nat.reduceEqDiff, if_false, if_true]
      rw [slice_mid _ (hdr 4 0) (le64 n) [] 4 8 (by simp) rfl rfl]
      simp [rd64_le64 n h]
    simp only [fromJsonb, encVal, h1, h2, Res.bind_ok, fromV]
  | str s =>
    simp only [WF] at h
    have h1 : viewNew (hdr 5 s.length ++ s) = .ok (hdr 5 s.length ++ s) := by simp [viewNew]
    have h2 : asValue (hdr 5 s.length ++ s) = .ok (.str s) := by
      unfold asValue
      rw [rootType_hdr _ _ _ (by omega), entryCount_hdr _ _ _ h.1]
      simp only [Nat.reduceEqDiff, if_false, if_true]
      rw [slice_mid _ (hdr 5 s.length) s [] 4 s.length (by simp) rfl rfl]
      simp [h.2]
    simp only [fromJsonb, encVal, h1, h2, Res.bind_ok, fromV]
  | arr xs =>
    have h' : WFn (.arr xs) := h
    have hh := arr_header xs h'
    have h1 : viewNew (encVal (.arr xs)) = .ok (encVal (.arr xs)) := by
      simp [viewNew, encVal, mkArr_length]; omega
    have h2 : asValue (encVal (.arr xs)) = .ok (toV (.arr xs)) := by
      simp [asValue, encVal, hh.1, toV]
    simp only [fromJsonb, h1, h2, Res.bind_ok]
    exact fromV_toV (.arr xs) h' _ (size_le_encVal _)
  | obj kvs =>
    have h' : WFn (.obj kvs) := h
    have hh := obj_header kvs h'
    have h1 : viewNew (encVal (.obj kvs)) = .ok (encVal (.obj kvs)) := by
      simp [viewNew, encVal, mkObj_length]; omega
    have h2 : asValue (encVal (.obj kvs)) = .ok (toV (.obj kvs)) := by
      simp [asValue, encVal, hh.1, toV]
    simp only [fromJsonb, h1, h2, Res.bind_ok]
    exact fromV_toV (.obj kvs) h' _ (size_le_encVal _)

/-- ROUND TRIP through the builder: what is read back is the value with every object's members
stably sorted by key bytes, duplicates kept (`norm` = what the code does). -/
theorem view_build_toJsonb_partial (v : J) (h : WF (norm v)) :
    fromJsonb (toJsonb v) = .ok (norm v) :=
  view_build_partial (norm v) h

/-- every object the builder writes has its members sorted by key, and they are a permutation
of the (normalised) input members: nothing is dropped, duplicates are kept. -/
theorem norm_obj_sorted_perm (kvs : List KV) :
    ∃ kvs', norm (.obj kvs) = .obj kvs' ∧ SortedKV kvs' ∧ List.Perm kvs' (normPairs kvs) :=
  ⟨sortKV (normPairs kvs), by simp [norm], sortKV_sorted _, sortKV_perm _⟩

/-- ARRAY INDEX (`_partial`): every element is retrievable by its index, an index past the end
yields `None`. Containers come back as a view onto exactly their own encoding. -/
theorem array_get_correct_partial (xs : List J) (h : WFn (.arr xs)) (i : Nat) :
    arrayGet (encVal (.arr xs)) i = .ok (xs[i]?.map toV) := by
  have hh := arr_header xs h
  simp only [encVal]
  by_cases hi : i < xs.length
  · rw [arrayGet_eq _ _ hh.1 (by rw [hh.2]; exact hi), arrayItem_doc xs h i hi]
    simp [hi]
  · have : xs[i]? = none := by simp; omega
    unfold arrayGet
    have hle : entryCount (mkArr xs.length (encElems xs 0)) ≤ i := by rw [hh.2]; omega
    simp [hh.1, hle, this]

/-- KEY LOOKUP, general form (`_partial`; duplicates allowed): `get` never fails on a built
object; a hit is the value of *some* member with that key; on a key-sorted object (which is what
the builder writes) a miss means no member has that key. -/
theorem get_sound_partial (kvs : List KV) (h : WFn (.obj kvs)) (key : List Nat) :
    ∃ r, get (encVal (.obj kvs)) key = .ok r ∧
      (∀ v, r = some v → ∃ x, (key, x) ∈ kvs ∧ v = toV x) ∧
      (r = none → SortedKV kvs → ∀ x, (key, x) ∉ kvs) := by
  have hh := obj_header kvs h
  have hdiv : 2 * kvs.length / 2 = kvs.length := by omega
  simp only [encVal]
  unfold Jsonb.get
  simp only [hh.1, hh.2, hdiv, ne_eq, not_true_eq_false, if_false]
  by_cases hn : kvs.length = 0
  · have : kvs = [] := List.eq_nil_of_length_eq_zero hn
    subst this
    exact ⟨none, by simp, by simp, by simp⟩
  · simp only [hn, if_false]
    obtain ⟨r, hr, h1, h2⟩ := bsearch_spec _ key kvs (fun i hi => objectItem_doc kvs h i hi)
      (kvs.length + 1) 0 kvs.length (Nat.le_refl _) (by omega)
    refine ⟨r, hr, ?_, ?_⟩
    · intro v hv
      obtain ⟨i, hi, _, _, hk, hval⟩ := h1 v hv
      exact ⟨kvs[i].2, by rw [← hk]; exact List.getElem_mem hi, hval⟩
    · intro hnone hs x hx
      obtain ⟨i, hi, heq⟩ := List.getElem_of_mem hx
      have := h2 hnone hs i hi (Nat.zero_le _) hi
      rw [heq] at this
      exact this rfl

/-- KEY LOOKUP (`_partial`): with distinct keys, every key is looked up to its value. -/
theorem get_correct_partial (kvs : List KV) (h : WFn (.obj kvs)) (hs : SortedKV kvs)
    (hnd : (kvs.map (·.1)).Nodup) (key : List Nat) (x : J) (hx : (key, x) ∈ kvs) :
    get (encVal (.obj kvs)) key = .ok (some (toV x)) := by
  obtain ⟨r, hr, h1, h2⟩ := get_sound_partial kvs h key
  cases r with
  | none => exact absurd hx (h2 rfl hs x)
  | some v =>
    obtain ⟨x', hx', hv⟩ := h1 v rfl
    rw [hr, hv, nodup_keys_unique kvs hnd key x x' hx hx']

/-- KEY LOOKUP (`_partial`): a key that no member has is not found. -/
theorem get_absent_partial (kvs : List KV) (h : WFn (.obj kvs)) (key : List Nat)
    (hx : ∀ x, (key, x) ∉ kvs) : get (encVal (.obj kvs)) key = .ok none := by
  obtain ⟨r, hr, h1, _⟩ := get_sound_partial kvs h key
  cases r with
  | none => exact hr
  | some v => obtain ⟨x, hx', _⟩ := h1 v rfl; exact absurd hx' (hx x)

/-- KEY LOOKUP on a document as built from parsed members (unsorted, possibly duplicate keys):
found iff some member has the key, and then the result is the stored form of one of them. -/
theorem get_toJsonb_partial (kvs : List KV) (h : WF (norm (.obj kvs))) (key : List Nat) :
    ∃ r, Jsonb.get (toJsonb (.obj kvs)) key = .ok r ∧
      (r = none ↔ ∀ x, (key, x) ∉ kvs) ∧
      (∀ v, r = some v → ∃ x, (key, x) ∈ kvs ∧ v = toV (norm x)) := by
  simp only [toJsonb, norm] at h ⊢
  have h' : WFn (.obj (sortKV (normPairs kvs))) := h
  obtain ⟨r, hr, h1, h2⟩ := get_sound_partial _ h' key
  have hmem : ∀ y, (key, y) ∈ sortKV (normPairs kvs) ↔ ∃ x, (key, x) ∈ kvs ∧ y = norm x := by
    intro y
    rw [(sortKV_perm (normPairs kvs)).mem_iff, normPairs_mem]
  refine ⟨r, hr, ⟨?_, ?_⟩, ?_⟩
  · intro hnone x hx
    exact h2 hnone (sortKV_sorted _) (norm x) ((hmem _).mpr ⟨x, hx, rfl⟩)
  · intro hno
    cases r with
    | none => rfl
    | some v =>
      obtain ⟨y, hy, _⟩ := h1 v rfl
      obtain ⟨x, hx, _⟩ := (hmem y).mp hy
      exact absurd hx (hno x)
  · intro v hv
    obtain ⟨y, hy, hval⟩ := h1 v hv
    obtain ⟨x, hx, rfl⟩ := (hmem y).mp hy
    exact ⟨x, hx, hval⟩

/-- PATH = STEPWISE (full strength, any bytes): a one-key path is `get`; extending a non-empty
path by a key is one more `get` on the result (only objects can be stepped into, anything else
gives `None`). Holds for every buffer, well formed or not, including the error and
out-of-bounds outcomes. -/
theorem path_stepwise (buf : List Nat) (k0 : List Nat) (ks : List (List Nat)) (k : List Nat) :
    getPath buf [k0] = get buf k0 ∧
    getPath buf (k0 :: ks ++ [k]) = (getPath buf (k0 :: ks)).bind fun r => stepGet r k := by
  constructor
  · simp only [getPath]
    have : (fun r => pathLoop r []) = Res.ok := by funext r; cases r <;> rfl
    rw [this, bind_pure]
  · simp only [getPath, List.cons_append]
    rw [bind_assoc]
    congr 1
    funext r
    exact pathLoop_snoc ks k r

/-- what `get` / `array_get` hand out for a nested container is a view onto a complete document
(the container's own encoding), so all lookup theorems apply again to the result: this is what
makes `path_stepwise` + `get_*_partial` a statement about whole paths. -/
theorem nested_view_is_document (xs : List J) (kvs : List KV) :
    toV (.arr xs) = .arr (encVal (.arr xs)) ∧ toV (.obj kvs) = .obj (encVal (.obj kvs)) :=
  ⟨rfl, rfl⟩

/-- the empty path is the document itself -/
theorem path_empty (buf : List Nat) :
    getPath buf [] = (asValue buf).bind fun v => .ok (some v) := rfl

/-- the `OwnedValue::jsonb_*` getters are the view getters behind `JsonbView::new` -/
theorem owned_value_glue (data key : List Nat) (p : List (List Nat)) (i : Nat)
    (h : 4 ≤ data.length) :
    ovGet data key = get data key ∧ ovGetPath data p = getPath data p ∧
    ovArrayGet data i = arrayGet data i := by
  simp [ovGet, ovGetPath, ovArrayGet, viewNew, h]

/-! ### counterexamples: the full statements are false of the faithful model -/

/-- the u16 length prefix of nested strings/keys cannot tell 65536 from 0 … -/
theorem nested_length_prefix_counterexample : le16 65536 = le16 0 ∧ le16 70000 = le16 4464 := by
  decide

/-- … so the round trip fails outside the domain: an array holding one string of 65536 bytes
reads back as an array holding the empty string (known finding C32-u16-string-length). -/
theorem long_string_reads_back_empty (s : List Nat) (hs : s.length = 65536) :
    fromJsonb (encVal (.arr [.str s])) = .ok (.arr [.str []]) := by
  have h16 : le16 65536 = [0, 0] := by decide
  have henc : encVal (.arr [.str s]) = [1, 0, 0, 16, 0, 0, 0, 69, 0, 0] ++ s := by
    simp [encVal, mkArr, encElems, encEntry, hdr, entry, le24, hs, h16]
  rw [henc]
  simp [fromJsonb, viewNew, asValue, rootType, entryCount, fromV, iterRes, arrayItem, readEntry,
    slice, sliceFrom, dataStart, decodeEntry, lenPrefixed, rd16, rd24, validUtf8, hs]

theorem view_build_counterexample : ∃ w : J, fromJsonb (encVal w) ≠ .ok w := by
  refine ⟨.arr [.str (List.replicate 65536 115)], ?_⟩
  rw [long_string_reads_back_empty _ (List.length_replicate ..)]
  intro h
  injection h with h
  injection h with h
  injection h with h _
  injection h with h
  have : ([] : List Nat).length = (List.replicate 65536 115).length := by rw [h]
  rw [List.length_replicate] at this
  simp at this

/-- entry offsets are 24 bits: two data offsets 2^24 apart get the same entry word
(known finding C32-24bit-offset). -/
theorem entry_offset_wrap_counterexample (top k : Nat) :
    entry top (16777216 + k) = entry top k := by
  simp only [entry, le24, List.append_cancel_right_eq, List.cons.injEq, and_true]
  omega

/-! ### the text parsers -/

/-- a number table for the concrete examples: `1` and `2` -/
def exNum (lex : List Nat) : Option (Option Nat) :=
  if lex = [49] then some (some 0x3ff0000000000000)
  else if lex = [50] then some (some 0x4000000000000000)
  else none

def rAccepts (numOf : Bytes → Option (Option Nat)) (t : Bytes) : Bool :=
  match rparse numOf t with
  | .ok _ _ => true
  | _ => false
def sAccepts (numOf : Bytes → Option (Option Nat)) (t : Bytes) : Bool :=
  match parseJ numOf t with
  | .ok _ _ => true
  | _ => false

/-- `"\ud83d\ude00"` (U+1F600 spelled as a surrogate pair) is a JSON text whose value is the
4-byte UTF-8 string F0 9F 98 80, but the model of `parse_json` rejects it: the property "any JSON
document … read back equals the JSON value" fails at the first step
(known finding C32-surrogate-pair-escape). -/
theorem surrogate_pair_counterexample :
    (match parseJ exNum [34, 92, 117, 100, 56, 51, 100, 92, 117, 100, 101, 48, 48, 34] with
      | .ok (.str [240, 159, 152, 128]) [] => true
      | _ => false) = true ∧
    rAccepts exNum [34, 92, 117, 100, 56, 51, 100, 92, 117, 100, 101, 48, 48, 34] = false := by
  decide

/-- the reference parser is strict where the code's parser is lenient: `[1 2]` (missing comma),
`[1,]` (trailing comma) and `1 2` (trailing text) are accepted by the model of `parse_json` and
rejected by the RFC 8259 parser. (Not part of the property: these are not JSON documents.) -/
theorem rparse_lenient_examples :
    rAccepts exNum [91, 49, 32, 50, 93] = true ∧ sAccepts exNum [91, 49, 32, 50, 93] = false ∧
    rAccepts exNum [91, 49, 44, 93] = true ∧ sAccepts exNum [91, 49, 44, 93] = false ∧
    rAccepts exNum [49, 32, 50] = true ∧ sAccepts exNum [49, 32, 50] = false := by
  decide

/-- both parsers on a small valid document `{"b":1,"a":[true,null,"x"]}` produce the same
value, members in text order -/
theorem parsers_agree_example :
    (match rparse exNum [123, 34, 98, 34, 58, 49, 44, 34, 97, 34, 58, 91, 116, 114, 117, 101, 44,
        110, 117, 108, 108, 44, 34, 120, 34, 93, 125],
      parseJ exNum [123, 34, 98, 34, 58, 49, 44, 34, 97, 34, 58, 91, 116, 114, 117, 101, 44,
        110, 117, 108, 108, 44, 34, 120, 34, 93, 125] with
      | .ok (.obj [([98], .num 0x3ff0000000000000), ([97], .arr [.bool true, .null, .str [120]])]) [],
        .ok (.obj [([98], .num 0x3ff0000000000000), ([97], .arr [.bool true, .null, .str [120]])]) [] => true
      | _, _ => false) = true := by
  decide

/-! ### non-vacuity -/
example : WF (norm (.obj [([98], .num 1), ([97], .arr [.bool true, .null, .str [120]]), ([98], .num 2)])) := by
  simp [norm, normPairs, normList, sortKV, insertKV, leBytes, cmpBytes, WF, WFn, WFl, WFp, okStr,
    validUtf8, mkObj, mkArr, encPairs, encElems, encEntry, hdr, entry, le24, le16, le32, le64]

end TurVerif.C32
