import TurVerif.Model.Wal
import TurVerif.Model.Crc64
/-!
C03  WAL replay applies exactly the longest valid frame prefix.

Theorems about the M-code model `TurVerif.Wal` (transcribed from src/storage/wal.rs) and the
M-spec in the same file (`specLog`, `specFault`, `validPrefix`), and about the table-driven
CRC-64/ECMA-182 model `TurVerif.Crc64`.

`fixed = false, zfix = false` is the pinned code; the statement of C03 is FALSE for it (see the
`…_counterexample`-style theorems `reopen_overwrites`, `truncate_then_write_hole`,
`truncate_keeps_buffered`, `zero_hole_replayed`, `gap_across_segments`,
`reopen_hides_earlier_segments`, each confirmed on the real code by the `walfs` engine).
What is true of the pinned code: `replay_create_only` (histories without reopen/truncate),
`replay_total`, `read_page_no_oob`, `final_images`, `faulted_last_segment_prefix`.
With fix_wal_cursor.patch (`fixed = true`): `replay_fixed_all` for ALL histories, and its
corollaries `reopen_preserves`, `truncate_clean`, `truncate_then_write_clean`.
With fix_wal_zero_frame.patch (`zfix = true`): `zero_slot_rejected`, `faulted_last_segment_prefix`
covers zero fills too.
-/
namespace TurVerif.C03
open TurVerif.Wal

/-! ### CRC-64/ECMA-182: the checksum of zeros is zero -/
section crc
open TurVerif.Crc64

theorem table_get (i : Nat) (h : i < 256) : table[i]! = tableEntry i := by
  simp [table, h]
theorem bitStep_zero : bitStep 0 = 0 := by decide
theorem tableEntry_zero : tableEntry 0 = 0 := by
  simp [tableEntry, bitStep_zero]
theorem step_zero_zero : Crc64.step 0 0 = 0 := by
  have h : ((((0 : UInt64) >>> 56) ^^^ UInt64.ofNat 0) &&& 255 : UInt64).toNat = 0 := by decide
  unfold Crc64.step
  rw [h, table_get 0 (by decide), tableEntry_zero]; decide
theorem update_zeros (n : Nat) : update 0 (List.replicate n 0) = 0 := by
  unfold update
  induction n with
  | zero => rfl
  | succ n ih => rw [List.replicate_succ, List.foldl_cons, step_zero_zero]; exact ih

end crc

/-! ### helper lemmas: framed files -/

theorem decode_frameCells (z : Bool) (f : Frame) :
    decodeSlot z (.fr f 0) (.fr f 1) (.fr f 2) (.fr f 3) = some f := by
  simp [decodeSlot]

/-- the cells of a list of intact frames -/
def cellsOf (fs : List Frame) : List Cell := fs.flatMap frameCells

theorem cellsOf_nil : cellsOf [] = [] := rfl
theorem cellsOf_cons (f : Frame) (fs : List Frame) : cellsOf (f :: fs) = frameCells f ++ cellsOf fs := by
  simp [cellsOf]
theorem cellsOf_append (a b : List Frame) : cellsOf (a ++ b) = cellsOf a ++ cellsOf b := by
  simp [cellsOf]
theorem cellsOf_length (fs : List Frame) : (cellsOf fs).length = 4 * fs.length := by
  induction fs with
  | nil => rfl
  | cons f fs ih => rw [cellsOf_cons, List.length_append, ih]; simp [frameCells]; omega

theorem readAll_frameCells (z : Bool) (f : Frame) (rest : List Cell) :
    readAll z (frameCells f ++ rest) = f :: readAll z rest := by
  simp [frameCells, readAll, decodeSlot]

theorem readAll_cellsOf_append (z : Bool) (fs : List Frame) (rest : List Cell) :
    readAll z (cellsOf fs ++ rest) = fs ++ readAll z rest := by
  induction fs with
  | nil => simp [cellsOf]
  | cons f fs ih => rw [cellsOf_cons, List.append_assoc, readAll_frameCells, ih]; rfl

theorem readAll_nil (z : Bool) : readAll z [] = [] := by simp [readAll]

theorem readAll_cellsOf (z : Bool) (fs : List Frame) : readAll z (cellsOf fs) = fs := by
  have := readAll_cellsOf_append z fs []
  simpa [readAll_nil] using this

/-! ### the invariant of a cleanly framed log -/

/-- the segment files and the BufWriter hold whole frames, in write order `L`, and the OS cursor of
the append handle is at the end of the current segment file -/
structure Inv (w : Wal) (L : List Frame) : Prop where
  cursor : w.file.cursor = w.file.cells.length
  framed : ∃ (segs : List (List Frame)) (cur : List Frame),
    w.closed.map (·.2) = segs.map cellsOf ∧ w.file.cells ++ w.buf = cellsOf cur ∧
    segs.flatten ++ cur = L

theorem Inv.congr {w w' : Wal} {L : List Frame} (h : Inv w L) (h1 : w'.file = w.file)
    (h2 : w'.buf = w.buf) (h3 : w'.closed = w.closed) : Inv w' L := by
  obtain ⟨hc, segs, cur, a, b, c⟩ := h
  exact ⟨by rw [h1]; exact hc, segs, cur, by rw [h3]; exact a, by rw [h1, h2]; exact b, c⟩

theorem write_at_end (f : File) (d : List Cell) (h : f.cursor = f.cells.length) :
    f.write d = ⟨f.cells ++ d, f.cells.length + d.length⟩ := by
  simp [File.write, h]

theorem flush_spec (w : Wal) (h : w.file.cursor = w.file.cells.length) :
    (flush w).file.cells = w.file.cells ++ w.buf ∧ (flush w).buf = [] ∧
    (flush w).file.cursor = (flush w).file.cells.length ∧ (flush w).closed = w.closed ∧
    (flush w).seq = w.seq ∧ (flush w).fixed = w.fixed ∧ (flush w).zfix = w.zfix ∧
    (flush w).salt = w.salt ∧ (flush w).syncFull = w.syncFull := by
  unfold flush
  split
  · next hb => simp [hb, h]
  · next x xs hb => simp [write_at_end _ _ h, hb]

theorem Inv.flushed {w : Wal} {L : List Frame} (h : Inv w L) : Inv (flush w) L := by
  obtain ⟨hc, segs, cur, a, b, c⟩ := h
  obtain ⟨f1, f2, f3, f4, _⟩ := flush_spec w hc
  exact ⟨f3, segs, cur, by rw [f4]; exact a, by rw [f1, f2]; simpa using b, c⟩

theorem scanDisk_append (z : Bool) (a b : List (Nat × List Cell)) :
    scanDisk z (a ++ b) = scanDisk z a ++ scanDisk z b := by
  simp [scanDisk]

theorem scanDisk_closed (z : Bool) (closed : List (Nat × List Cell)) (segs : List (List Frame))
    (h : closed.map (·.2) = segs.map cellsOf) : scanDisk z closed = segs.flatten := by
  induction closed generalizing segs with
  | nil => cases segs with
    | nil => rfl
    | cons s ss => simp at h
  | cons e es ih => cases segs with
    | nil => simp at h
    | cons s ss =>
      simp only [List.map_cons, List.cons.injEq] at h
      have := ih ss h.2
      simp only [scanDisk, List.flatMap_cons, List.flatten_cons] at this ⊢
      rw [this, h.1, readAll_cellsOf]

/-- replaying the directory of a cleanly framed log yields the frames in write order -/
theorem Inv.scan {w : Wal} {L : List Frame} (z : Bool) (h : Inv w L) : scanDisk z (disk w) = L := by
  have hf := h.flushed
  obtain ⟨hc, segs, cur, a, b, c⟩ := hf
  have hb : (TurVerif.Wal.flush w).buf = [] := (flush_spec w h.cursor).2.1
  rw [hb, List.append_nil] at b
  unfold disk diskLive
  rw [scanDisk_append, scanDisk_closed z _ segs a]
  simp only [scanDisk, List.flatMap_cons, List.flatMap_nil, List.append_nil]
  rw [b, readAll_cellsOf, c]

theorem Inv.created (fixed zfix : Bool) (salt : Nat) : Inv (create fixed zfix salt) [] :=
  ⟨rfl, [], [], rfl, rfl, rfl⟩

theorem Inv.segWrite {w : Wal} {L : List Frame} (h : Inv w L) (f : Frame) (sync : Bool) :
    Inv (segWriteFrame w f sync) (L ++ [f]) := by
  have h1 : Inv { w with buf := w.buf ++ frameCells f } (L ++ [f]) := by
    obtain ⟨hc, segs, cur, a, b, c⟩ := h
    refine ⟨hc, segs, cur ++ [f], a, ?_, ?_⟩
    · show w.file.cells ++ (w.buf ++ frameCells f) = cellsOf (cur ++ [f])
      rw [cellsOf_append, ← b, cellsOf_cons, cellsOf_nil, List.append_nil, List.append_assoc]
    · rw [← List.append_assoc, c]
  unfold segWriteFrame
  cases sync with
  | false => exact h1.congr rfl rfl rfl
  | true => exact (h1.flushed).congr rfl rfl rfl

theorem Inv.rotated {w : Wal} {L : List Frame} (h : Inv w L) : Inv (rotate w) L := by
  obtain ⟨hc, segs, cur, a, b, c⟩ := h.flushed
  have hb : (TurVerif.Wal.flush w).buf = [] := (flush_spec w h.cursor).2.1
  rw [hb, List.append_nil] at b
  refine ⟨rfl, segs ++ [cur], [], ?_, rfl, ?_⟩
  · show ((TurVerif.Wal.flush w).closed ++ [((TurVerif.Wal.flush w).seq, (TurVerif.Wal.flush w).file.cells)]).map (·.2) = _
    rw [List.map_append, a, List.map_append]; simp [b]
  · simp [c]

theorem Inv.wframe {w : Wal} {L : List Frame} (h : Inv w L) (f p d i : Nat) :
    ∃ s, Inv (writeFrame w f p d i) (L ++ [⟨f, p, d, s, i⟩]) := by
  unfold writeFrame
  by_cases hr : needsRotation w = true
  · simp only [hr, if_true]
    exact ⟨_, ((h.rotated).segWrite _ _).congr rfl rfl rfl⟩
  · simp only [hr]
    exact ⟨_, (h.segWrite _ _).congr rfl rfl rfl⟩

/-- the caller-visible part of the frames of a batch -/
def quadCore (e : Nat × Nat × Nat × Nat) : SFrame := ⟨e.1, e.2.1, e.2.2.1, e.2.2.2⟩

theorem Inv.bloop {w : Wal} {L : List Frame} (h : Inv w L) (fs : List (Nat × Nat × Nat × Nat))
    (md : List (Key × Loc)) :
    ∃ L', Inv (batchLoop w fs md).1 (L ++ L') ∧ L'.map Frame.core = fs.map quadCore := by
  induction fs generalizing w L md with
  | nil => exact ⟨[], by simpa [batchLoop] using h, rfl⟩
  | cons e es ih =>
    obtain ⟨f, p, d, i⟩ := e
    have h1 := h.segWrite ⟨f, p, d, w.salt, i⟩ false
    obtain ⟨L', hi, hm⟩ := ih h1 (md ++ [((f, p), (w.seq, w.offset))])
    refine ⟨⟨f, p, d, w.salt, i⟩ :: L', ?_, ?_⟩
    · simp only [batchLoop]
      rw [List.append_assoc] at hi
      exact hi
    · simp [hm, Frame.core, quadCore]

theorem Inv.wbatch {w : Wal} {L : List Frame} (h : Inv w L) (s : Bool)
    (fs : List (Nat × Nat × Nat × Nat)) :
    ∃ L', Inv (writeBatch w s fs) (L ++ L') ∧ L'.map Frame.core = fs.map quadCore := by
  obtain ⟨L', hi, hm⟩ := h.bloop fs []
  refine ⟨L', ?_, hm⟩
  unfold writeBatch
  generalize batchLoop w fs [] = r at hi
  obtain ⟨w1, md⟩ := r
  simp only
  split
  · exact (hi.flushed).congr rfl rfl rfl
  · exact hi.congr rfl rfl rfl

/-! ### fixed code: reopen and truncate keep the invariant -/

theorem getLast?_append_singleton {α : Type} (l : List α) (a : α) : (l ++ [a]).getLast? = some a := by
  simp

theorem Inv.reopened {w : Wal} {L : List Frame} (h : Inv w L) (hf : w.fixed = true) (s : Nat) :
    Inv (reopen w s) L := by
  obtain ⟨hc, segs, cur, a, b, c⟩ := h.flushed
  have hb : (TurVerif.Wal.flush w).buf = [] := (flush_spec w h.cursor).2.1
  rw [hb, List.append_nil] at b
  unfold reopen openDisk disk diskLive
  rw [getLast?_append_singleton]
  simp only [List.dropLast_concat, hf, if_true]
  exact ⟨rfl, segs, cur, a, by simpa using b, c⟩

theorem truncate_fixed (w : Wal) (hf : w.fixed = true) :
    (truncate w).file = ⟨[], 0⟩ ∧ (truncate w).buf = [] ∧ (truncate w).closed = [] ∧
    (truncate w).offset = 0 ∧ (truncate w).index = [] ∧ (truncate w).frameCount = 0 := by
  have hb : (TurVerif.Wal.flush w).buf = [] := by
    unfold TurVerif.Wal.flush
    split
    · next hb => exact hb
    · rfl
  unfold truncate
  simp [hf, File.setLen, File.seek, hb]

theorem Inv.truncated (w : Wal) (hf : w.fixed = true) : Inv (truncate w) [] := by
  obtain ⟨a, b, c, _⟩ := truncate_fixed w hf
  exact ⟨by rw [a]; rfl, [], [], by rw [c]; rfl, by rw [a, b]; rfl, rfl⟩

theorem flush_fixed (w : Wal) : (flush w).fixed = w.fixed := by
  unfold flush; split <;> rfl

theorem segWriteFrame_fixed (w : Wal) (f : Frame) (s : Bool) : (segWriteFrame w f s).fixed = w.fixed := by
  unfold segWriteFrame; cases s <;> simp [flush_fixed]

theorem rotate_fixed (w : Wal) : (rotate w).fixed = w.fixed := by
  simp [rotate, flush_fixed]

theorem batchLoop_fixed (w : Wal) (fs : List (Nat × Nat × Nat × Nat)) (md : List (Key × Loc)) :
    (batchLoop w fs md).1.fixed = w.fixed := by
  induction fs generalizing w md with
  | nil => rfl
  | cons e es ih =>
    obtain ⟨f, p, d, i⟩ := e
    simp only [batchLoop]; rw [ih, segWriteFrame_fixed]

theorem step_fixed (w : Wal) (op : Op) : (step w op).fixed = w.fixed := by
  cases op with
  | write f p d i =>
    simp only [step, writeFrame]
    by_cases hr : needsRotation w = true
    · simp [hr, segWriteFrame_fixed, rotate_fixed]
    · simp [hr, segWriteFrame_fixed]
  | batch s fs =>
    simp only [step, writeBatch]
    have := batchLoop_fixed w fs []
    generalize batchLoop w fs [] = r at this
    obtain ⟨w1, md⟩ := r
    simp only at this ⊢
    split <;> simp [flush_fixed, this]
  | setSync full => rfl
  | sync => exact flush_fixed w
  | rotate => exact rotate_fixed w
  | truncate =>
    simp only [step, truncate]
    by_cases hf : w.fixed = true
    · simp [hf, flush_fixed]
    · simp [hf, flush_fixed]
  | reopen s =>
    simp only [step, reopen, openDisk]
    split <;> rfl

/-! ### the specification side -/

/-- histories that only create, write, rotate and sync (no reopen, no truncate) -/
def createOnly : Op → Bool
  | .reopen _ => false
  | .truncate => false
  | _ => true

/-- what an operation adds to the log (`truncate` empties it instead) -/
def opFrames : Op → List SFrame
  | .write f p d i => [⟨f, p, d, i⟩]
  | .batch _ fs => fs.map quadCore
  | _ => []

def nextLog (C : List SFrame) (op : Op) : List SFrame :=
  match op with
  | .truncate => []
  | _ => C ++ opFrames op

theorem sAppend_flatten (l : SLog) (es : List (Option SFrame)) (h : l ≠ []) :
    (sAppend l es).flatten = l.flatten ++ es ∧ sAppend l es ≠ [] := by
  rcases List.eq_nil_or_concat l with hl | ⟨L, b, hl⟩
  · exact absurd hl h
  · subst hl
    simp [sAppend]

theorem specStep_flatten (l : SLog) (C : List SFrame) (op : Op) (hne : l ≠ [])
    (h : l.flatten = C.map some) :
    specStep l op ≠ [] ∧ (specStep l op).flatten = (nextLog C op).map some := by
  cases op with
  | write f p d i =>
    obtain ⟨a, b⟩ := sAppend_flatten l [some ⟨f, p, d, i⟩] hne
    exact ⟨b, by simp [specStep, a, h, nextLog, opFrames]⟩
  | batch s fs =>
    obtain ⟨a, b⟩ := sAppend_flatten l (fs.map (fun e => some ⟨e.1, e.2.1, e.2.2.1, e.2.2.2⟩)) hne
    refine ⟨b, ?_⟩
    simp only [specStep, a, h, nextLog, opFrames, List.map_append, List.map_map]
    rfl
  | setSync full => exact ⟨hne, by simp [specStep, h, nextLog, opFrames]⟩
  | sync => exact ⟨hne, by simp [specStep, h, nextLog, opFrames]⟩
  | rotate => exact ⟨by simp [specStep], by simp [specStep, h, nextLog, opFrames]⟩
  | truncate => exact ⟨by simp [specStep], by simp [specStep, nextLog]⟩
  | reopen s => exact ⟨hne, by simp [specStep, h, nextLog, opFrames]⟩

theorem takeWhile_map_some (C : List SFrame) :
    (C.map some).takeWhile Option.isSome = C.map some := by
  induction C with
  | nil => rfl
  | cons c cs ih => simp [List.takeWhile_cons, ih]

theorem validPrefix_all_some (l : SLog) (C : List SFrame) (h : l.flatten = C.map some) :
    validPrefix l = C := by
  unfold validPrefix
  rw [h]
  have : (C.map some).takeWhile Option.isSome = C.map some := takeWhile_map_some C
  rw [this]
  simp

/-- the model-side invariant with the salts forgotten -/
def InvC (w : Wal) (C : List SFrame) : Prop := ∃ L, Inv w L ∧ L.map Frame.core = C

theorem step_InvC (w : Wal) (op : Op) (C : List SFrame) (h : InvC w C)
    (hop : createOnly op = true ∨ w.fixed = true) : InvC (step w op) (nextLog C op) := by
  obtain ⟨L, hi, hm⟩ := h
  cases op with
  | write f p d i =>
    obtain ⟨s, h1⟩ := hi.wframe f p d i
    exact ⟨_, h1, by simp [hm, nextLog, opFrames, Frame.core]⟩
  | batch s fs =>
    obtain ⟨L', h1, h2⟩ := hi.wbatch s fs
    exact ⟨_, h1, by simp [hm, h2, nextLog, opFrames]⟩
  | setSync full => exact ⟨L, hi.congr rfl rfl rfl, by simp [hm, nextLog, opFrames]⟩
  | sync => exact ⟨L, hi.flushed, by simp [hm, nextLog, opFrames]⟩
  | rotate => exact ⟨L, hi.rotated, by simp [hm, nextLog, opFrames]⟩
  | truncate =>
    cases hop with
    | inl h => simp [createOnly] at h
    | inr hf => exact ⟨[], Inv.truncated w hf, rfl⟩
  | reopen s =>
    cases hop with
    | inl h => simp [createOnly] at h
    | inr hf => exact ⟨L, hi.reopened hf s, by simp [hm, nextLog, opFrames]⟩

theorem run_InvC (ops : List Op) (w : Wal) (C : List SFrame) (l : SLog) (h : InvC w C)
    (hne : l ≠ []) (hl : l.flatten = C.map some)
    (hop : (∀ op ∈ ops, createOnly op = true) ∨ w.fixed = true) :
    ∃ C', InvC (run w ops) C' ∧ (ops.foldl specStep l).flatten = C'.map some := by
  induction ops generalizing w C l with
  | nil => exact ⟨C, h, hl⟩
  | cons op ops ih =>
    have hs := step_InvC w op C h (by
      cases hop with
      | inl a => exact Or.inl (a op (by simp))
      | inr b => exact Or.inr b)
    obtain ⟨n1, n2⟩ := specStep_flatten l C op hne hl
    have := ih (step w op) (nextLog C op) (specStep l op) hs n1 n2 (by
      cases hop with
      | inl a => exact Or.inl (fun o ho => a o (by simp [ho]))
      | inr b => exact Or.inr (by rw [step_fixed]; exact b))
    simpa [run] using this

theorem run_create_InvC (ops : List Op) (fixed zfix : Bool) (salt : Nat)
    (hop : (∀ op ∈ ops, createOnly op = true) ∨ fixed = true) :
    InvC (run (create fixed zfix salt) ops) (validPrefix (specLog ops)) := by
  obtain ⟨C', hi, hs⟩ := run_InvC ops (create fixed zfix salt) [] [[]]
    ⟨[], Inv.created fixed zfix salt, rfl⟩ (by simp) rfl hop
  have : validPrefix (specLog ops) = C' := validPrefix_all_some _ _ hs
  rw [this]; exact hi

theorem replay_of_run (ops : List Op) (fixed zfix : Bool) (salt : Nat)
    (hop : (∀ op ∈ ops, createOnly op = true) ∨ fixed = true) :
    (scanDisk zfix (disk (run (create fixed zfix salt) ops))).map Frame.core
      = validPrefix (specLog ops) := by
  obtain ⟨L, hi, hm⟩ := run_create_InvC ops fixed zfix salt hop
  rw [hi.scan zfix, hm]

/-! ### replay into a storage -/

theorem applyFrame_ok (s : Storage) (f : Frame) : ∃ s', applyFrame s f = some s' := by
  unfold applyFrame Storage.setPage
  by_cases h : s.pageCount ≤ f.pageNo
  · simp only [h, if_true]
    have : f.pageNo < (s.grow (max f.dbSize (f.pageNo + 1))).pageCount := by
      unfold Storage.grow
      split
      · next hh => have := Nat.le_max_right f.dbSize (f.pageNo + 1); omega
      · have := Nat.le_max_right f.dbSize (f.pageNo + 1); show f.pageNo < max _ _; omega
    simp [this]
  · have : f.pageNo < s.pageCount := by omega
    simp [h, this]

/-- the file filter of `recover_for_file` (`recover` keeps everything) -/
def keep (only : Option Nat) (f : Frame) : Bool := !(only.isSome && only != some f.fileId)

theorem applyFrames_ok (only : Option Nat) (s : Storage) (fs acc : List Frame) :
    ∃ s', applyFrames only s fs acc = .ok s' (acc ++ fs.filter (keep only)) := by
  induction fs generalizing s acc with
  | nil => exact ⟨s, by simp [applyFrames]⟩
  | cons f fs ih =>
    unfold applyFrames
    by_cases hc : (only.isSome && only != some f.fileId) = true
    · have hk : keep only f = false := by simp only [keep, hc]; rfl
      simp only [hc, if_true]
      obtain ⟨s', h⟩ := ih s acc
      exact ⟨s', by rw [h, List.filter_cons]; simp [hk]⟩
    · have hk : keep only f = true := by
        simp only [keep]; cases h : (only.isSome && only != some f.fileId) with
        | true => exact absurd h hc
        | false => rfl
      simp only [hc]
      obtain ⟨s1, h1⟩ := applyFrame_ok s f
      rw [h1]
      obtain ⟨s', h⟩ := ih s1 (acc ++ [f])
      refine ⟨s', ?_⟩
      simp only [Bool.false_eq_true, if_false]
      rw [h, List.filter_cons]; simp [hk]

theorem slice_four (cells : List Cell) (off : Nat) (h : off + 4 ≤ cells.length) :
    ∃ a b c d, slice cells off 4 = some [a, b, c, d] := by
  unfold slice
  simp only [h, if_true]
  have hl : ((cells.drop off).take 4).length = 4 := by
    rw [List.length_take, List.length_drop]; omega
  match hm : (cells.drop off).take 4, hl with
  | [a, b, c, d], _ => exact ⟨a, b, c, d, rfl⟩


/-! ### final page images -/

theorem grow_pages (s : Storage) (n : Nat) : (s.grow n).pages = s.pages := by
  unfold Storage.grow; split <;> rfl

theorem applyFrame_pages (s s1 : Storage) (f : Frame) (h : applyFrame s f = some s1) :
    s1.pages = (f.pageNo, f.img) :: s.pages := by
  unfold applyFrame at h
  generalize hs0 : (if s.pageCount ≤ f.pageNo then s.grow (max f.dbSize (f.pageNo + 1)) else s) = s0 at h
  have hp : s0.pages = s.pages := by
    rw [← hs0]; split
    · exact grow_pages _ _
    · rfl
  unfold Storage.setPage at h
  simp only at h
  by_cases hlt : f.pageNo < s0.pageCount
  · simp only [hlt, if_true] at h
    injection h with h; rw [← h, ← hp]
  · simp [hlt] at h

theorem applyFrame_get (s s1 : Storage) (f : Frame) (h : applyFrame s f = some s1) (p : Nat) :
    s1.get p = if f.pageNo = p then f.img else s.get p := by
  have hp := applyFrame_pages s s1 f h
  unfold Storage.get
  rw [hp, List.find?_cons]
  by_cases hq : f.pageNo = p
  · simp [hq]
  · have : (f.pageNo == p) = false := by simp [hq]
    simp [this, hq]

theorem applyFrames_get (only : Option Nat) (s s' : Storage) (fs acc app : List Frame)
    (h : applyFrames only s fs acc = .ok s' app) (p : Nat) :
    s'.get p = (fs.filter (keep only)).foldl
      (fun a f => if f.pageNo = p then f.img else a) (s.get p) := by
  induction fs generalizing s acc with
  | nil => simp [applyFrames] at h; simp [h.1]
  | cons f fs ih =>
    unfold applyFrames at h
    by_cases hc : (only.isSome && only != some f.fileId) = true
    · have hk : keep only f = false := by simp only [keep, hc]; rfl
      simp only [hc, if_true] at h
      rw [ih s acc h, List.filter_cons]; simp [hk]
    · have hk : keep only f = true := by
        simp only [keep]; cases h' : (only.isSome && only != some f.fileId) with
        | true => exact absurd h' hc
        | false => rfl
      simp only [hc] at h
      obtain ⟨s1, h1⟩ := applyFrame_ok s f
      rw [h1] at h
      simp only [Bool.false_eq_true, if_false] at h
      rw [ih s1 (acc ++ [f]) h, List.filter_cons]
      simp [hk, applyFrame_get s s1 f h1 p]


/-! ### damage to the newest segment of a cleanly framed log -/

theorem readAll_take (z : Bool) (fs : List Frame) (n : Nat) :
    readAll z ((cellsOf fs).take n) = fs.take (n / 4) := by
  induction fs generalizing n with
  | nil => simp [cellsOf, readAll]
  | cons f fs ih =>
    rw [cellsOf_cons]
    rcases n with _ | _ | _ | _ | n
    · simp [frameCells, readAll]
    · simp [frameCells, readAll]
    · simp [frameCells, readAll]
    · simp [frameCells, readAll]
    · have hd : (n + 1 + 1 + 1 + 1) / 4 = n / 4 + 1 := by omega
      rw [hd]
      simp only [frameCells, List.cons_append, List.nil_append, List.take_succ_cons]
      rw [readAll, decode_frameCells]
      simp [ih]

theorem setCells_nil (a b : Nat) (v : Cell) : setCells [] a b v = [] := by simp [setCells]

theorem setCells_shift4 (x y u w : Cell) (rest : List Cell) (c : Nat) (v : Cell) :
    setCells (x :: y :: u :: w :: rest) (c + 4) (c + 4 + 1) v
      = x :: y :: u :: w :: setCells rest c (c + 1) v := by
  have h1 : c + 4 + 1 - (c + 4) = 1 := by omega
  have h2 : max (c + 4) (c + 4 + 1) = c + 1 + 4 := by omega
  have h3 : c + 1 - c = 1 := by omega
  have h4 : max c (c + 1) = c + 1 := by omega
  simp only [setCells, h1, h2, h3, h4, List.take_succ_cons, List.drop_succ_cons, List.cons_append]

theorem readAll_junk (z : Bool) (fs : List Frame) (c : Nat) :
    readAll z (setCells (cellsOf fs) c (c + 1) .junk) = fs.take (c / 4) := by
  induction fs generalizing c with
  | nil => simp [cellsOf, setCells_nil, readAll]
  | cons f fs ih =>
    rw [cellsOf_cons]
    rcases c with _ | _ | _ | _ | c
    · simp [frameCells, setCells, readAll, decodeSlot]
    · simp [frameCells, setCells, readAll, decodeSlot]
    · simp [frameCells, setCells, readAll, decodeSlot]
    · simp [frameCells, setCells, readAll, decodeSlot]
    · have hd : (c + 1 + 1 + 1 + 1) / 4 = c / 4 + 1 := by omega
      rw [hd]
      simp only [frameCells, List.cons_append, List.nil_append]
      rw [show c + 1 + 1 + 1 + 1 = c + 4 from rfl, setCells_shift4, readAll, decode_frameCells]
      simp [ih]

theorem takeWhile_mapNth_none (cur : List Frame) (k : Nat) :
    (mapNth (fun _ => none) (cur.map (fun f => some f.core)) k).takeWhile Option.isSome
      = (cur.map (fun f => some f.core)).take k := by
  induction cur generalizing k with
  | nil => simp [mapNth]
  | cons x xs ih =>
    cases k with
    | zero => simp [mapNth]
    | succ k => simp [mapNth, ih]

theorem filterMap_take_somes (cur : List Frame) (k : Nat) :
    ((cur.map (fun f => some f.core)).take k).filterMap id = (cur.take k).map Frame.core := by
  induction cur generalizing k with
  | nil => simp
  | cons x xs ih =>
    cases k with
    | zero => simp
    | succ k => simp [ih]

theorem takeWhile_somes_append (A X : List (Option SFrame)) (h : ∀ x ∈ A, x.isSome = true) :
    (A ++ X).takeWhile Option.isSome = A ++ X.takeWhile Option.isSome := by
  induction A with
  | nil => rfl
  | cons a as ih =>
    have ha : a.isSome = true := h a (by simp)
    simp only [List.cons_append, List.takeWhile_cons, ha, if_true]
    rw [ih (fun x hx => h x (by simp [hx]))]

theorem take_somes_all (cur : List Frame) (k : Nat) :
    ∀ x ∈ (cur.map (fun f => some f.core)).take k, x.isSome = true := by
  intro x hx
  have := List.mem_of_mem_take hx
  simp only [List.mem_map] at this
  obtain ⟨f, _, hf⟩ := this
  rw [← hf]; rfl

theorem mapNth_last {α : Type} (f : α → α) (l : List α) (a : α) :
    mapNth f (l ++ [a]) l.length = l ++ [f a] := by
  induction l with
  | nil => rfl
  | cons x xs ih => simp [mapNth, ih]

theorem filterMap_takeWhile_somes (C : List SFrame) (X : List (Option SFrame)) :
    ((C.map some ++ X).takeWhile Option.isSome).filterMap id
      = C ++ (X.takeWhile Option.isSome).filterMap id := by
  induction C with
  | nil => simp
  | cons c cs ih => simp [List.takeWhile_cons, ih]

/-- the kinds of damage the pinned code handles on the newest segment: truncation at any cell
offset and corruption of any cell; zero fills only with the zero-frame fix -/
def faultHandled (z : Bool) : Fault → Bool
  | .zero _ _ _ => false && z
  | _ => true

theorem flatten_somes (older : List (List Frame)) :
    (older.map (fun s => s.map (fun f => some f.core))).flatten
      = (older.flatten.map Frame.core).map some := by
  induction older with
  | nil => rfl
  | cons o os ih =>
    simp only [List.map_cons, List.flatten_cons, List.map_append, ih, List.map_map]
    rfl

theorem faulted_segment (z : Bool) (cur : List Frame) (φ : Fault) (h : faultHandled z φ = true) :
    (readAll z (faultCells (cellsOf cur) φ)).map Frame.core
      = ((specFaultSeg (cur.map (fun f => some f.core)) false φ).takeWhile
          Option.isSome).filterMap id := by
  cases φ with
  | trunc s n =>
    simp only [faultCells, specFaultSeg, FS, readAll_take, List.length_map]
    by_cases hn : 4 * cur.length ≤ n
    · simp only [hn, if_true]
      have h1 : cur.take (n / 4) = cur := List.take_of_length_le (by omega)
      have h2 : (cur.map (fun f => some f.core)).take (n / 4) = cur.map (fun f => some f.core) :=
        List.take_of_length_le (by simp; omega)
      have h3 := takeWhile_somes_append _ [] (take_somes_all cur (n / 4))
      have h4 := filterMap_take_somes cur (n / 4)
      rw [h2] at h3 h4
      simp only [List.append_nil, List.takeWhile_nil] at h3
      rw [h3, h4, h1]
    · simp only [hn, if_false, Bool.or_false]
      rw [takeWhile_somes_append _ _ (take_somes_all cur (n / 4))]
      have ht : (if (n % 4 != 0) = true then [(none : Option SFrame)] else []).takeWhile Option.isSome
          = [] := by split <;> simp
      rw [ht, List.append_nil, filterMap_take_somes]
  | junk s c =>
    simp only [faultCells, specFaultSeg, FS, readAll_junk]
    rw [takeWhile_mapNth_none, filterMap_take_somes]
  | zero s a b => simp [faultHandled] at h

/-! ### property theorems -/

/-- CRC-64/ECMA-182 of any number of zero bytes is 0. -/
theorem crc_zeros (n : Nat) : TurVerif.Crc64.crc (List.replicate n 0) = 0 := update_zeros n

/-- leading zero bytes do not change the checksum (init = 0). -/
theorem crc_leading_zeros (n : Nat) (bs : List Nat) :
    TurVerif.Crc64.crc (List.replicate n 0 ++ bs) = TurVerif.Crc64.crc bs := by
  unfold TurVerif.Crc64.crc TurVerif.Crc64.update
  rw [List.foldl_append]
  have := update_zeros n
  unfold TurVerif.Crc64.update at this
  rw [this]

/-- the checksum of the 24 checksummed header bytes + a 16384-byte page, all zero, is the value
stored in the (zero) checksum field: a zero slot passes `validate_checksum` in the pinned code -/
theorem zero_frame_checksum_valid : TurVerif.Crc64.crc (List.replicate (24 + 16384) 0) = 0 :=
  crc_zeros _

/-- REPLAY, histories of create / write / batch / sync-mode / sync / rotate of ANY length, both code
variants: dropping the log and replaying the directory yields exactly the written frames, in
write order (= the longest valid prefix of the log: nothing is damaged). -/
theorem replay_create_only (ops : List Op) (fixed zfix : Bool) (salt : Nat)
    (h : ∀ op ∈ ops, createOnly op = true) :
    (scanDisk zfix (disk (run (create fixed zfix salt) ops))).map Frame.core
      = validPrefix (specLog ops) :=
  replay_of_run ops fixed zfix salt (Or.inl h)

/-- REPLAY with fix_wal_cursor.patch: ALL histories (write, batch, sync modes, rotate, truncate,
drop-and-reopen, in any order and number). -/
theorem replay_fixed_all (ops : List Op) (zfix : Bool) (salt : Nat) :
    (scanDisk zfix (disk (run (create true zfix salt) ops))).map Frame.core
      = validPrefix (specLog ops) :=
  replay_of_run ops true zfix salt (Or.inr rfl)

/-- with the cursor fix, reopening a log and appending preserves every earlier frame -/
theorem reopen_preserves (ops : List Op) (zfix : Bool) (salt s f p d i : Nat) :
    (scanDisk zfix (disk (writeFrame (reopen (run (create true zfix salt) ops) s) f p d i))).map
        Frame.core
      = validPrefix (specLog ops) ++ [⟨f, p, d, i⟩] := by
  obtain ⟨L, hi, hm⟩ := run_create_InvC ops true zfix salt (Or.inr rfl)
  have hfx : (run (create true zfix salt) ops).fixed = true := by
    have : ∀ (ops : List Op) (w : Wal), (run w ops).fixed = w.fixed := by
      intro ops
      induction ops with
      | nil => intro w; rfl
      | cons o os ih => intro w; simp only [run, List.foldl_cons] at ih ⊢; rw [ih, step_fixed]
    rw [this]; rfl
  obtain ⟨s', h1⟩ := (hi.reopened hfx s).wframe f p d i
  rw [h1.scan zfix]
  simp [hm, Frame.core]

/-- with the cursor fix, `truncate` leaves an empty file with the cursor at 0 and nothing buffered,
from ANY state -/
theorem truncate_clean (w : Wal) (hf : w.fixed = true) :
    disk (truncate w) = [(((truncate w).seq), [])] ∧ (truncate w).file.cursor = 0 ∧
    (truncate w).buf = [] := by
  obtain ⟨a, b, c, _⟩ := truncate_fixed w hf
  refine ⟨?_, by rw [a], b⟩
  unfold disk diskLive TurVerif.Wal.flush
  rw [b]; simp [c, a]

/-- replay never fails: for ANY directory content (any cells at all), any storage and any file
filter, `recover` / `recover_for_file` return `Ok` and apply exactly the scanned frames that pass
the filter. -/
theorem replay_total (zfix : Bool) (d : List (Nat × List Cell)) (only : Option Nat) (s : Storage) :
    ∃ s', recoverDisk zfix d only s
      = .ok s' ((scanDisk zfix d).filter (keep only)) := by
  obtain ⟨s', h⟩ := applyFrames_ok only s (scanDisk zfix d) []
  exact ⟨s', by simpa [recoverDisk] using h⟩

/-- `read_page` never slices outside the mapped file -/
theorem read_page_no_oob (w : Wal) (f p : Nat) : readPage w f p ≠ .oob := by
  unfold readPage
  split
  · simp
  · next seg off _ =>
    split
    · simp
    · next cells _ =>
      by_cases hle : off + FS ≤ cells.length
      · obtain ⟨a, b, c, d, hs⟩ := slice_four cells off hle
        simp only [hle, if_true]
        have : slice cells off FS = some [a, b, c, d] := hs
        rw [this]
        simp only
        split <;> simp
      · simp [hle]


/-- each page ends with the image of the last frame replayed for it (0 = the zero page when no
replayed frame names the page): `recover` / `recover_for_file` into a fresh storage -/
theorem final_images (zfix : Bool) (d : List (Nat × List Cell)) (only : Option Nat) (s' : Storage)
    (applied : List Frame) (h : recoverDisk zfix d only Storage.fresh = .ok s' applied) (p : Nat) :
    s'.get p = lastImage (applied.map Frame.core) none p := by
  obtain ⟨s2, h2⟩ := replay_total zfix d only Storage.fresh
  rw [h2] at h
  injection h with hs ha
  subst hs; subst ha
  have := applyFrames_get only Storage.fresh s2 (scanDisk zfix d) [] _ (by simpa [recoverDisk] using h2) p
  rw [this]
  unfold lastImage
  rw [List.foldl_map]
  have h0 : Storage.fresh.get p = 0 := rfl
  rw [h0]
  congr 1
  funext a f
  simp [Frame.core]


/-! ### the pinned code violates the statement: concrete witnesses (each reproduced on the real
code by the `walfs` engine; see known_findings.json) -/

/-- what the pinned code replays after the history `ops` (log dropped, directory replayed) -/
def replayedPinned (ops : List Op) : List SFrame :=
  (scanDisk false (disk (run (create false false 1) ops))).map Frame.core

/-- what it replays when the directory is damaged by `φ` first -/
def replayedPinnedFault (ops : List Op) (φ : Fault) : List SFrame :=
  (scanDisk false (applyFault (disk (run (create false false 1) ops)) φ)).map Frame.core

/-- `WalSegment::open` seeks to 0 but `offset = len`: after reopening a two-frame log the appended
frame overwrites frame 0 (replayed: [new, second]; the log is [first, second, new]). -/
theorem reopen_overwrites :
    let ops := [Op.write 0 1 4 1, .write 0 2 4 2, .reopen 2, .write 0 3 4 3]
    replayedPinned ops = [⟨0, 3, 4, 3⟩, ⟨0, 2, 4, 2⟩] ∧
    validPrefix (specLog ops) = [⟨0, 1, 4, 1⟩, ⟨0, 2, 4, 2⟩, ⟨0, 3, 4, 3⟩] := by decide

/-- `truncate` = `set_len(0)` without a seek: the next frame lands at the old cursor, behind a hole
of two zero slots, and the hole is replayed as two frames for page 0 of file 0. -/
theorem truncate_then_write_hole :
    let ops := [Op.write 0 1 4 1, .write 0 2 4 2, .truncate, .write 0 3 4 3]
    replayedPinned ops = [⟨0, 0, 0, 0⟩, ⟨0, 0, 0, 0⟩, ⟨0, 3, 4, 3⟩] ∧
    validPrefix (specLog ops) = [⟨0, 3, 4, 3⟩] ∧
    (run (create false false 1) ops).file = ⟨[.zero, .zero, .zero, .zero, .zero, .zero, .zero, .zero]
      ++ frameCells ⟨0, 3, 4, 1, 3⟩, 12⟩ := by decide

/-- `truncate` flushes the BufWriter AFTER `set_len(0)`: a frame written without sync survives the
truncation and is replayed. -/
theorem truncate_keeps_buffered :
    let ops := [Op.setSync false, .write 0 1 4 1, .truncate]
    replayedPinned ops = [⟨0, 1, 4, 1⟩] ∧ validPrefix (specLog ops) = [] := by decide

/-- a zero-filled slot passes the checksum (CRC of zeros = 0 = stored checksum) and is replayed as a
frame that zeroes page 0 of file 0; replay then continues behind it. -/
theorem zero_hole_replayed :
    let ops := [Op.write 0 0 1 1, .write 0 1 2 2]
    let φ := Fault.zero 0 0 4
    replayedPinnedFault ops φ = [⟨0, 0, 0, 0⟩, ⟨0, 1, 2, 2⟩] ∧
    validPrefix (specFault (specLog ops) φ) = [] := by decide

/-- `recover` reads every segment up to its first bad frame and then goes on with the next segment:
a corrupted frame in segment 1 does not stop the frames of segment 2 from being applied. -/
theorem gap_across_segments :
    let ops := [Op.write 0 1 4 1, .write 0 2 4 2, .rotate, .write 0 1 4 3]
    let φ := Fault.junk 0 0
    replayedPinnedFault ops φ = [⟨0, 1, 4, 3⟩] ∧
    validPrefix (specFault (specLog ops) φ) = [] := by decide

/-- the same for a frame-aligned truncation of an older segment -/
theorem gap_across_segments_truncation :
    let ops := [Op.write 0 1 4 1, .write 0 2 4 2, .rotate, .write 0 1 4 3]
    let φ := Fault.trunc 0 4
    replayedPinnedFault ops φ = [⟨0, 1, 4, 1⟩, ⟨0, 1, 4, 3⟩] ∧
    validPrefix (specFault (specLog ops) φ) = [⟨0, 1, 4, 1⟩] := by decide

/-- `Wal::open` indexes only the newest segment: after a reopen `read_page` no longer finds a page
whose last image lives in an older segment (both code variants). -/
theorem reopen_hides_earlier_segments (fixed : Bool) :
    let ops := [Op.write 0 1 4 1, .rotate, .write 0 2 4 2]
    readPage (run (create fixed false 1) ops) 0 1 = .img 1 ∧
    readPage (reopen (run (create fixed false 1) ops) 2) 0 1 = .absent ∧
    lastImage (validPrefix (specLog ops)) (some 0) 1 = 1 := by
  cases fixed <;> decide

/-- with the cursor fix the two cursor witnesses replay exactly the log (instances of
`replay_fixed_all`, evaluated) -/
theorem truncate_then_write_clean :
    let ops := [Op.write 0 1 4 1, .write 0 2 4 2, .truncate, .write 0 3 4 3]
    (scanDisk false (disk (run (create true false 1) ops))).map Frame.core = [⟨0, 3, 4, 3⟩] ∧
    (run (create true false 1) ops).file = ⟨frameCells ⟨0, 3, 4, 1, 3⟩, 4⟩ := by decide

/-- with the zero-frame fix a zero slot is not a frame: the scan of a segment stops there -/
theorem zero_slot_rejected (rest : List Cell) :
    readAll true (.zero :: .zero :: .zero :: .zero :: rest) = [] := by
  simp [readAll, decodeSlot]


/-- DAMAGE (partial: the damage is in the NEWEST segment and is a truncation at any cell offset or
a corruption of any cell).  For every cleanly framed directory — older segments `older`, newest
segment `cur`, which by `replay_create_only`'s invariant is every state the pinned code reaches
without reopen/truncate and every state the cursor-fixed code reaches at all — replaying the
damaged directory yields exactly the longest valid prefix of the damaged log.  The full statement
(damage anywhere, zero fills included) is false for the pinned code: `gap_across_segments`,
`gap_across_segments_truncation`, `zero_hole_replayed`. -/
theorem faulted_last_segment_prefix (z : Bool) (d : List (Nat × List Cell))
    (older : List (List Frame)) (cur : List Frame) (φ : Fault)
    (hd : d.map (·.2) = (older ++ [cur]).map cellsOf) (hseg : φ.seg = older.length)
    (hk : faultHandled z φ = true) :
    (scanDisk z (applyFault d φ)).map Frame.core
      = validPrefix (specFault ((older ++ [cur]).map (fun s => s.map (fun f => some f.core))) φ) := by
  rcases List.eq_nil_or_concat d with hnil | ⟨d0, e, hde⟩
  · subst hnil; simp at hd
  subst hde
  simp only [List.concat_eq_append] at hd ⊢
  rw [List.map_append, List.map_append] at hd
  have hlen : d0.length = older.length := by
    have := congrArg List.length hd
    simp at this; exact this
  have hd0 : d0.map (·.2) = older.map cellsOf := by
    have := List.append_inj_left hd (by simp [hlen])
    exact this
  have he : e.2 = cellsOf cur := by
    have := List.append_inj_right hd (by simp [hlen])
    simpa using this
  -- the model side
  have hA : applyFault (d0 ++ [e]) φ = d0 ++ [(e.1, faultCells e.2 φ)] := by
    unfold applyFault
    rw [hseg, ← hlen, mapNth_last]
  rw [hA, scanDisk_append, scanDisk_closed z d0 older hd0]
  simp only [scanDisk, List.flatMap_cons, List.flatMap_nil, List.append_nil, List.map_append]
  rw [he, faulted_segment z cur φ hk]
  -- the spec side
  unfold specFault
  simp only [List.map_cons, List.map_nil]
  have hl : (older.map (fun s => s.map (fun f => some f.core))).length = φ.seg := by
    simp [hseg]
  have hnl : decide (φ.seg + 1 <
      (older.map (fun s => s.map (fun f => some f.core)) ++ [cur.map (fun f => some f.core)]).length)
        = false := by
    simp [hseg]
  rw [hnl, ← hl, mapNth_last]
  unfold validPrefix
  rw [List.flatten_append]
  have hs := flatten_somes older
  simp only [List.flatten_cons, List.flatten_nil, List.append_nil]
  rw [hs, filterMap_takeWhile_somes]


/-- every directory the pinned code produces without reopen/truncate, and every directory the
cursor-fixed code produces at all, is cleanly framed (the hypothesis of
`faulted_last_segment_prefix`), and its frames are the log. -/
theorem reachable_disk_framed (ops : List Op) (fixed zfix : Bool) (salt : Nat)
    (hop : (∀ op ∈ ops, createOnly op = true) ∨ fixed = true) :
    ∃ (older : List (List Frame)) (cur : List Frame),
      (disk (run (create fixed zfix salt) ops)).map (·.2) = (older ++ [cur]).map cellsOf ∧
      (older ++ [cur]).flatten.map Frame.core = validPrefix (specLog ops) := by
  obtain ⟨L, hi, hm⟩ := run_create_InvC ops fixed zfix salt hop
  obtain ⟨hc, segs, cur, a, b, c⟩ := hi.flushed
  have hb : (TurVerif.Wal.flush (run (create fixed zfix salt) ops)).buf = [] :=
    (flush_spec _ hi.cursor).2.1
  rw [hb, List.append_nil] at b
  refine ⟨segs, cur, ?_, ?_⟩
  · unfold disk diskLive
    rw [List.map_append, a, List.map_append]; simp [b]
  · rw [List.flatten_append]; simp only [List.flatten_cons, List.flatten_nil, List.append_nil]
    rw [c, hm]

/-- non-vacuity: a two-frame segment cut in the middle of its second frame replays one frame -/
example :
    (scanDisk false (applyFault [(1, cellsOf [⟨0, 1, 4, 7, 1⟩, ⟨0, 2, 4, 7, 2⟩])] (.trunc 0 5))).map
        Frame.core = [⟨0, 1, 4, 1⟩] := by
  rw [faulted_last_segment_prefix false _ [] [⟨0, 1, 4, 7, 1⟩, ⟨0, 2, 4, 7, 2⟩] (.trunc 0 5) rfl rfl rfl]
  decide

end TurVerif.C03
