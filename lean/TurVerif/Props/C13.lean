import TurVerif.Model.Lex
/-!
C13  Bound parameters behave like literals; bound text is never SQL.
Theorems about the M-code model `TurVerif.Lex` (src/sql/lexer.rs, the `Token::String` arm of
src/sql/parser.rs, `value_to_sql_literal` / `substitute_parameters` of src/database/prepared.rs,
integer-literal evaluation of src/database/convert.rs).
-/
namespace TurVerif.C13
open TurVerif.Lex

/-! ### helper lemmas -/

/-- a byte that is not whitespace, `-` or `/` starts a token: `trivia` stops there -/
theorem trivia_stop (cs : List Nat) (c : Nat) (t : List Nat) (hw : isWs c = false)
    (h1 : c ≠ 45) (h2 : c ≠ 47) : trivia .normal cs (c :: t) = .inl (c :: t) := by
  cases t with
  | nil => simp [trivia, hw]
  | cons c2 t2 => simp [trivia, hw, h1, h2]

theorem scanDelim_escape (s rest : List Nat) (h : rest.head? ≠ some 39) :
    scanDelim 39 (escape s ++ 39 :: rest) = some (escape s, rest) := by
  induction s with
  | nil =>
    cases rest with
    | nil => simp [escape, scanDelim]
    | cons r rs =>
      have : r ≠ 39 := by intro e; apply h; simp [e]
      simp [escape, scanDelim, this]
  | cons c t ih =>
    by_cases hc : c = 39
    · subst hc
      simp [escape, scanDelim, ih]
    · have e : escape (c :: t) ++ 39 :: rest = c :: (escape t ++ 39 :: rest) := by simp [escape, hc]
      rw [e, scanDelim.eq_def]
      simp [hc, ih, escape]

theorem scanTok_quote (s rest : List Nat) (h : rest.head? ≠ some 39) :
    scanTok 39 (escape s ++ 39 :: rest) = (Tok.str (escape s), rest) := by
  have h1 : isIdStart 39 = false := by decide
  have h2 : isDigit 39 = false := by decide
  simp [scanTok, h1, h2, scanDelim_escape s rest h]

theorem consumed_append (a b : List Nat) : consumed (a ++ b) b = a := by
  simp [consumed]

/-! ## property theorems -/

/-- HEADLINE (token level): the literal printed for a bound text `s` — for EVERY byte string `s`,
whatever quotes, comment markers, semicolons, backslashes or NULs it contains — followed by any
input `rest` that does not start with a quote, is scanned as exactly one string token whose raw
slice is `escape s`, and scanning resumes exactly at `rest`. -/
theorem scan_quote (s rest : List Nat) (h : rest.head? ≠ some 39) :
    nextToken (quote s ++ rest) = ⟨quote s ++ rest, Tok.str (escape s), rest⟩ := by
  have hw : isWs 39 = false := by decide
  have e : quote s ++ rest = 39 :: (escape s ++ 39 :: rest) := by simp [quote]
  rw [e]
  simp only [nextToken, trivia_stop [] 39 _ hw (by decide) (by decide), scanTok_quote s rest h]

/-- HEADLINE (token stream): `lex (quote s ++ rest) = String(escape s) :: lex rest`. -/
theorem lex_quote (s rest : List Nat) (h : rest.head? ≠ some 39) :
    lex (quote s ++ rest) = Tok.str (escape s) :: lex rest := by
  rw [lex]
  have hlen : rest.length < (quote s ++ rest).length := by simp [quote]; omega
  simp only [scan_quote s rest h, hlen, dite_true]
  simp

/-- the parser's un-escaping (`replace("''", "'")`) of the raw slice gives back the bound text:
together with `scan_quote`, the string literal denotes exactly `s`. -/
theorem unescape_escape (s : List Nat) : unescape (escape s) = s := by
  induction s with
  | nil => simp [escape, unescape]
  | cons c t ih =>
    by_cases hc : c = 39
    · subst hc; simp [escape, unescape, ih]
    · have e : escape (c :: t) = c :: escape t := by simp [escape, hc]
      rw [e, unescape.eq_def]
      simp [hc, ih]

/-- no backslash escapes: a backslash before the closing quote does not keep the string open -/
theorem backslash_is_ordinary (rest : List Nat) (h : rest.head? ≠ some 39) :
    nextToken (quote [92] ++ rest) = ⟨quote [92] ++ rest, Tok.str [92], rest⟩ := by
  have := scan_quote [92] rest h
  simpa [escape] using this

/-- placeholders inside a string literal are not substituted: `substitute_parameters` copies a
string literal verbatim, whatever it contains (`?`, `$1`, `:name`), and continues after it with
the same parameter index. -/
theorem subst_string_literal_opaque (ps : List PVal) (idx : Nat) (s rest : List Nat)
    (h : rest.head? ≠ some 39) :
    substFrom ps idx (quote s ++ rest) = (substFrom ps idx rest).map (fun out => quote s ++ out) := by
  rw [substFrom]
  have hlen : rest.length < (quote s ++ rest).length := by simp [quote]; omega
  simp only [scan_quote s rest h, hlen, dite_true, consumed_append]
  simp

/-- a `--` comment is skipped up to and including the newline: the token that follows (and the
input after it) is the one that follows the comment, so nothing inside the comment is a
parameter token. -/
theorem line_comment_skipped (c rest : List Nat) (hc : ∀ b ∈ c, b ≠ 10) :
    (nextToken (45 :: 45 :: (c ++ 10 :: rest))).tok = (nextToken rest).tok ∧
    (nextToken (45 :: 45 :: (c ++ 10 :: rest))).rest = (nextToken rest).rest ∧
    (nextToken (45 :: 45 :: (c ++ 10 :: rest))).start = (nextToken rest).start := by
  have hl : ∀ (c : List Nat), (∀ b ∈ c, b ≠ 10) →
      trivia .line [] (c ++ 10 :: rest) = trivia .normal [] rest := by
    intro c
    induction c with
    | nil => intro _; simp [trivia]
    | cons a t ih =>
      intro h
      have ha : a ≠ 10 := h a (by simp)
      simp only [List.cons_append, trivia, ha, if_false]
      exact ih (fun b hb => h b (by simp [hb]))
  have h0 : trivia .normal [] (45 :: 45 :: (c ++ 10 :: rest)) = trivia .normal [] rest := by
    have hw : isWs 45 = false := by decide
    simp only [trivia, hw, Bool.false_eq_true, if_false, and_self, if_true]
    exact hl c hc
  simp only [nextToken, h0, and_self]

/-- a `/* */` comment without `*` or `/` inside is skipped likewise -/
theorem block_comment_skipped (c rest : List Nat) (hc : ∀ b ∈ c, b ≠ 42 ∧ b ≠ 47) :
    (nextToken (47 :: 42 :: (c ++ 42 :: 47 :: rest))).tok = (nextToken rest).tok ∧
    (nextToken (47 :: 42 :: (c ++ 42 :: 47 :: rest))).rest = (nextToken rest).rest ∧
    (nextToken (47 :: 42 :: (c ++ 42 :: 47 :: rest))).start = (nextToken rest).start := by
  have hl : ∀ (c : List Nat) (cs : List Nat), (∀ b ∈ c, b ≠ 42 ∧ b ≠ 47) →
      trivia (.block 1) cs (c ++ 42 :: 47 :: rest) = trivia .normal [] rest := by
    intro c
    induction c with
    | nil => intro cs _; simp [trivia]
    | cons a t ih =>
      intro cs h
      have ha := h a (by simp)
      have e : (a :: t) ++ 42 :: 47 :: rest = a :: (t ++ 42 :: 47 :: rest) := rfl
      rw [e]
      cases ht : t ++ 42 :: 47 :: rest with
      | nil => simp at ht
      | cons x xs =>
        simp only [trivia, ha.1, ha.2, false_and, if_false]
        rw [← ht]
        exact ih cs (fun b hb => h b (by simp [hb]))
  have hw : isWs 47 = false := by decide
  have h0 : trivia .normal [] (47 :: 42 :: (c ++ 42 :: 47 :: rest)) = trivia .normal [] rest := by
    simp only [trivia, hw, Bool.false_eq_true, if_false, and_self, if_true]
    have : (47 = 45 ∧ 42 = 45) = False := by simp
    simp only [this, if_false]
    exact hl c _ hc
  simp only [nextToken, h0, and_self]


/-! ### substitution of an anonymous placeholder -/

theorem nextToken_question (rest : List Nat) (h1 : rest.head? ≠ some 124) (h2 : rest.head? ≠ some 38) :
    nextToken (63 :: rest) = ⟨63 :: rest, Tok.param .anon, rest⟩ := by
  have hw : isWs 63 = false := by decide
  have hi : isIdStart 63 = false := by decide
  have hd : isDigit 63 = false := by decide
  simp only [nextToken, trivia_stop [] 63 rest hw (by decide) (by decide)]
  cases rest with
  | nil => simp [scanTok, hi, hd]
  | cons d t =>
    have d1 : d ≠ 124 := by intro e; apply h1; simp [e]
    have d2 : d ≠ 38 := by intro e; apply h2; simp [e]
    simp [scanTok, hi, hd, d1, d2]

/-- `?` is replaced by the literal of the next unused parameter and nothing else changes -/
theorem subst_question (ps : List PVal) (idx : Nat) (rest : List Nat) (v : PVal)
    (h1 : rest.head? ≠ some 124) (h2 : rest.head? ≠ some 38) (hv : ps[idx]? = some v) :
    substFrom ps idx (63 :: rest) =
      (substFrom ps (idx + 1) rest).map (fun out => valueToLiteral v ++ out) := by
  rw [substFrom]
  have hlen : rest.length < (63 :: rest).length := by simp
  simp only [nextToken_question rest h1 h2, hlen, dite_true, hv]
  simp [consumed]

/-- END-TO-END injection freedom for a bound text: substituting the text `s` for `?` and lexing
the result yields exactly one string token for the parameter, whose un-escaped content is `s`,
followed by the tokens of the (substituted) remainder — for every `s`. -/
theorem bound_text_is_one_token (ps : List PVal) (idx : Nat) (s rest out : List Nat)
    (hv : ps[idx]? = some (PVal.text s))
    (h1 : rest.head? ≠ some 124) (h2 : rest.head? ≠ some 38)
    (hout : substFrom ps (idx + 1) rest = some out) (hq : out.head? ≠ some 39) :
    substFrom ps idx (63 :: rest) = some (quote s ++ out) ∧
    lex (quote s ++ out) = Tok.str (escape s) :: lex out ∧
    unescape (escape s) = s := by
  refine ⟨?_, lex_quote s out hq, unescape_escape s⟩
  rw [subst_question ps idx rest (PVal.text s) h1 h2 hv, hout]
  simp [valueToLiteral]

/-! ### blob literals -/

theorem isHex_hexDigit : ∀ n, n < 16 → isHex (hexDigit n) = true := by decide

theorem hexOf_all_hex : ∀ (b : List Nat), ∀ x ∈ hexOf b, isHex x = true := by
  intro b
  induction b with
  | nil => intro x hx; simp [hexOf] at hx
  | cons a t ih =>
    intro x hx
    simp only [hexOf, List.mem_cons] at hx
    rcases hx with rfl | rfl | hx
    · exact isHex_hexDigit _ (Nat.mod_lt _ (by decide))
    · exact isHex_hexDigit _ (Nat.mod_lt _ (by decide))
    · exact ih x hx

/-- the literal printed for a bound blob (`X'<hex>'`) is exactly one hex-string token carrying the
hex digits, for every byte string, whatever follows -/
theorem scan_blob_literal (b rest : List Nat) :
    nextToken (88 :: 39 :: (hexOf b ++ 39 :: rest)) =
      ⟨88 :: 39 :: (hexOf b ++ 39 :: rest), Tok.hexnum (hexOf b), rest⟩ := by
  have hw : isWs 88 = false := by decide
  have hi : isIdStart 88 = true := by decide
  have h39 : isHex 39 = false := by decide
  have ht : (hexOf b ++ 39 :: rest).takeWhile isHex = hexOf b := by
    rw [List.takeWhile_append_of_pos (hexOf_all_hex b)]
    simp [List.takeWhile, h39]
  have hd : (hexOf b ++ 39 :: rest).dropWhile isHex = 39 :: rest := by
    rw [List.dropWhile_append_of_pos (hexOf_all_hex b)]
    simp [List.dropWhile, h39]
  simp only [nextToken, trivia_stop [] 88 _ hw (by decide) (by decide)]
  simp [scanTok, hi, scanHexStr, ht, hd]

/-! ### integer literals: print (`i64::to_string`) then evaluate (`parse::<i64>` + unary minus) -/

theorem natDigitsAux_acc : ∀ (fuel n : Nat) (acc : List Nat),
    natDigitsAux fuel n acc = natDigitsAux fuel n [] ++ acc := by
  intro fuel
  induction fuel with
  | zero => intro n acc; simp [natDigitsAux]
  | succ f ih =>
    intro n acc
    simp only [natDigitsAux]
    by_cases h : n < 10
    · simp [h]
    · simp only [h, if_false]
      rw [ih (n / 10) ((48 + n % 10) :: acc), ih (n / 10) [48 + n % 10]]
      simp

theorem decVal_snoc (l : List Nat) (d : Nat) : decVal (l ++ [d]) = decVal l * 10 + (d - 48) := by
  simp [decVal, List.foldl_append]

theorem decVal_natDigitsAux : ∀ (fuel n : Nat), n < fuel → decVal (natDigitsAux fuel n []) = n := by
  intro fuel
  induction fuel with
  | zero => intro n h; omega
  | succ f ih =>
    intro n hn
    simp only [natDigitsAux]
    by_cases h : n < 10
    · simp [h, decVal]
    · simp only [h, if_false]
      rw [natDigitsAux_acc, decVal_snoc, ih (n / 10) (by omega)]
      omega

theorem natDigitsAux_ne_nil (fuel n : Nat) : natDigitsAux (fuel + 1) n [] ≠ [] := by
  simp only [natDigitsAux]
  by_cases h : n < 10
  · simp [h]
  · simp only [h, if_false]
    rw [natDigitsAux_acc]
    simp

/-- the decimal digits printed for `n` evaluate back to `n` -/
theorem decVal_natDigits (n : Nat) : decVal (natDigits n) = n :=
  decVal_natDigitsAux (n + 1) n (by omega)

/-- the token sequence the lexer produces for the printed integer `i` (`[-] digits`; the lexing
step itself is compared with the code in the correspondence run) -/
def intTokens (i : Int) : List Tok :=
  if i < 0 then [Tok.op "Minus", Tok.int (natDigits i.natAbs)] else [Tok.int (natDigits i.natAbs)]

/-- integer literal print/parse round trip, every i64 except i64::MIN -/
theorem int_literal_roundtrip_partial (i : Int) (h1 : -9223372036854775808 < i)
    (h2 : i < 9223372036854775808) : evalIntTokens (intTokens i) = some i := by
  have hne : (natDigits i.natAbs).isEmpty = false := by
    have := natDigitsAux_ne_nil i.natAbs i.natAbs
    simp only [natDigits]
    cases h : natDigitsAux (i.natAbs + 1) i.natAbs [] with
    | nil => exact absurd h this
    | cons a t => rfl
  have hle : i.natAbs ≤ 9223372036854775807 := by omega
  by_cases hneg : i < 0
  · simp only [intTokens, hneg, if_true, evalIntTokens, parseI64Digits, hne, decVal_natDigits, hle,
      Bool.false_eq_true, if_false, Option.map_some]
    congr 1; simp only [Int.ofNat_eq_coe]; omega
  · simp only [intTokens, hneg, if_false, evalIntTokens, parseI64Digits, hne, decVal_natDigits, hle,
      Bool.false_eq_true, if_true]
    congr 1; simp only [Int.ofNat_eq_coe]; omega

/-- i64::MIN is printed as `-9223372036854775808`; its magnitude does not parse as an i64, so the
literal is rejected although the value is a valid BIGINT (the bound parameter is accepted). -/
theorem int_min_counterexample :
    evalIntTokens (intTokens (-9223372036854775808)) = none := by
  have e : intTokens (-9223372036854775808) = [Tok.op "Minus", Tok.int (natDigits 9223372036854775808)] := by
    simp [intTokens]
  rw [e]
  simp only [evalIntTokens, parseI64Digits, decVal_natDigits]
  have : ¬ (9223372036854775808 ≤ 9223372036854775807) := by omega
  simp [this]

end TurVerif.C13
