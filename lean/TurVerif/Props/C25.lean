import TurVerif.Model.Hnsw
import TurVerif.Lemmas.HnswHeap
import TurVerif.Lemmas.HnswCover
/-!
C25  HNSW search returns live, correctly ranked neighbours.
Theorems about the M-code model `TurVerif.Hnsw` (src/hnsw/{mod,search,operations}.rs, slot status of
storage.rs, Rust's BinaryHeap).
-/
namespace TurVerif.C25
open TurVerif.Hnsw TurVerif.HnswHeap TurVerif.HnswCover

/-! ### concrete witnesses used by the counterexample theorems -/

/-- three rows at (0,0), (1,0), (0,1); distances in sixteenths from the new vector to the rows -/
def vdIns2 : Nat → D := fun r => if r = 1 then .fin 16 else .inf
def vdIns3 : Nat → D := fun r => if r = 1 then .fin 16 else if r = 2 then .fin 32 else .inf
/-- query at the origin after row 1 has been deleted from the table -/
def vdQ : Nat → D := fun r => if r = 2 then .fin 16 else if r = 3 then .fin 16 else .inf

def base : Index := { m := 2, m0 := 4, efC := 10 }
def s1 : Index := (base.insert 1 0 (fun _ => .inf)).1
def s2 : Index := (s1.insert 2 0 vdIns2).1
def s3 : Index := (s2.insert 3 0 vdIns3).1
/-- rows 1, 2, 3 inserted, then row 1 (the entry point) deleted -/
def s3d : Index := (s3.delete 1).1

/-! ### helper lemmas: the distance order, search-context invariant -/

/-- invariant of the beam-search context; `P` is any node property closed under the neighbour
function (instantiated with reachability), `dist` the distance function in use -/
structure CInv (P : NodeId → Prop) (dist : NodeId → D) (c : Ctx) : Prop where
  heap : Heap resLe c.results
  nodup : (c.results.map (·.node)).Nodup
  resVis : ∀ x ∈ c.results, x.node ∈ c.visited
  candVis : ∀ x ∈ c.cands, x.node ∈ c.visited
  visP : ∀ n ∈ c.visited, P n
  distOK : ∀ x ∈ c.results, x.dist = dist x.node

theorem addBoth_inv (P : NodeId → Prop) (dist : NodeId → D) (c : Ctx) (x : Cand)
    (h : CInv P dist c) (hx : x.node ∈ c.visited) (hnew : x.node ∉ c.results.map (·.node))
    (hd : x.dist = dist x.node) :
    CInv P dist ((c.addCand x).addResult x) ∧ ((c.addCand x).addResult x).visited = c.visited ∧
      ((c.addCand x).addResult x).ef = c.ef := by
  have hpush := heapPush_perm resLe c.results x
  have hheap := heapPush_heap resLe resOrd c.results x h.heap
  have hcand := heapPush_perm candLe c.cands x
  have hcv : ∀ y ∈ heapPush candLe c.cands x, y.node ∈ c.visited := by
    intro y hy
    have := (hcand.mem_iff).1 hy
    rcases List.mem_cons.1 this with e | e
    · rw [e]; exact hx
    · exact h.candVis y e
  have hnodup : ((heapPush resLe c.results x).map (·.node)).Nodup := by
    have := (hpush.map (·.node)).nodup_iff
    rw [this, List.map_cons, List.nodup_cons]
    exact ⟨hnew, h.nodup⟩
  have hrv : ∀ y ∈ heapPush resLe c.results x, y.node ∈ c.visited ∧ y.dist = dist y.node := by
    intro y hy
    rcases List.mem_cons.1 ((hpush.mem_iff).1 hy) with e | e
    · rw [e]; exact ⟨hx, hd⟩
    · exact ⟨h.resVis y e, h.distOK y e⟩
  unfold Ctx.addResult Ctx.addCand
  simp only []
  split
  · cases hp : heapPop resLe (heapPush resLe c.results x) with
    | none =>
      simp only []
      exact ⟨⟨hheap, hnodup, fun y hy => (hrv y hy).1, hcv, h.visP, fun y hy => (hrv y hy).2⟩,
        by first | rfl | trivial, by first | rfl | trivial⟩
    | some pr =>
      obtain ⟨top, rest⟩ := pr
      simp only []
      have sp := heapPop_spec resLe resOrd _ hheap top rest hp
      have hsub : ∀ y ∈ rest, y ∈ heapPush resLe c.results x := fun y hy =>
        (sp.2.1.mem_iff).2 (List.mem_cons_of_mem _ hy)
      refine ⟨⟨sp.1, ?_, fun y hy => (hrv y (hsub y hy)).1, hcv, h.visP,
        fun y hy => (hrv y (hsub y hy)).2⟩, by first | rfl | trivial, by first | rfl | trivial⟩
      have := ((sp.2.1.map (·.node)).nodup_iff).1 hnodup
      rw [List.map_cons, List.nodup_cons] at this
      exact this.2
  · exact ⟨⟨hheap, hnodup, fun y hy => (hrv y hy).1, hcv, h.visP, fun y hy => (hrv y hy).2⟩,
      by first | rfl | trivial, by first | rfl | trivial⟩

theorem visitNb_inv (P : NodeId → Prop) (dist : NodeId → D) (c : Ctx) (nb : NodeId)
    (h : CInv P dist c) (hP : P nb) : CInv P dist (visitNb dist c nb) := by
  unfold visitNb
  split
  · exact h
  · rename_i hnv
    simp only [List.contains_eq_mem, decide_eq_true_eq] at hnv
    have h' : CInv P dist { c with visited := nb :: c.visited } :=
      ⟨h.heap, h.nodup, fun y hy => List.mem_cons_of_mem _ (h.resVis y hy),
        fun y hy => List.mem_cons_of_mem _ (h.candVis y hy),
        fun n hn => by
          rcases List.mem_cons.1 hn with e | e
          · rw [e]; exact hP
          · exact h.visP n e,
        h.distOK⟩
    simp only []
    split
    · refine (addBoth_inv P dist _ ⟨nb, dist nb⟩ h' (List.mem_cons_self ..) ?_ rfl).1
      intro hin
      obtain ⟨y, hy, e⟩ := List.mem_map.1 hin
      have e' : y.node = nb := e
      exact hnv (e' ▸ h.resVis y hy)
    · exact h'

theorem foldl_visit_inv (P : NodeId → Prop) (dist : NodeId → D) (nbs : List NodeId) (c : Ctx)
    (h : CInv P dist c) (hP : ∀ nb ∈ nbs, P nb) : CInv P dist (nbs.foldl (visitNb dist) c) := by
  induction nbs generalizing c with
  | nil => exact h
  | cons nb rest ih =>
    simp only [List.foldl_cons]
    exact ih _ (visitNb_inv P dist c nb h (hP nb (by simp)))
      (fun x hx => hP x (List.mem_cons_of_mem _ hx))

theorem beamLoop_inv (P : NodeId → Prop) (getN : NodeId → List NodeId) (dist : NodeId → D)
    (hclosed : ∀ n nb, P n → nb ∈ getN n → P nb) (fuel : Nat) (c : Ctx) (h : CInv P dist c) :
    CInv P dist (beamLoop getN dist fuel c) := by
  induction fuel generalizing c with
  | zero => exact h
  | succ f ih =>
    simp only [beamLoop]
    cases hp : heapPop candLe c.cands with
    | none => exact h
    | some pr =>
      obtain ⟨cur, rest⟩ := pr
      simp only []
      have hperm := heapPop_perm candLe c.cands cur rest hp
      have hcurv : cur.node ∈ c.visited := h.candVis cur ((hperm.mem_iff).2 (by simp))
      have h' : CInv P dist { c with cands := rest } :=
        ⟨h.heap, h.nodup, h.resVis,
          fun y hy => h.candVis y ((hperm.mem_iff).2 (List.mem_cons_of_mem _ hy)), h.visP, h.distOK⟩
      split
      · exact h'
      · exact ih _ (foldl_visit_inv P dist _ _ h'
          (fun nb hnb => hclosed cur.node nb (h.visP _ hcurv) hnb))

theorem beamSearch_inv (P : NodeId → Prop) (getN : NodeId → List NodeId) (dist : NodeId → D)
    (hclosed : ∀ n nb, P n → nb ∈ getN n → P nb) (ef fuel : Nat) (entry : Cand)
    (hPe : P entry.node) (hde : entry.dist = dist entry.node) :
    CInv P dist (beamSearch ef fuel entry getN dist) := by
  unfold beamSearch
  simp only []
  apply beamLoop_inv P getN dist hclosed
  have h0 : CInv P dist { ef := ef, visited := [entry.node] } :=
    ⟨by intro i _ x p h1; simp at h1, by simp, by simp, by simp,
      fun n hn => by simp at hn; rw [hn]; exact hPe, by simp⟩
  exact (addBoth_inv P dist _ entry h0 (by simp) (by simp) hde).1

/-- popping everything off a max-heap yields an ascending list -/
theorem popAll_spec (fuel : Nat) (h acc : List Cand) (hh : Heap resLe h) (hf : h.length ≤ fuel)
    (hacc : acc.Pairwise (fun a b => D.le a.dist b.dist = true))
    (hcross : ∀ x ∈ h, ∀ y ∈ acc, D.le x.dist y.dist = true) :
    (popAll fuel h acc).Pairwise (fun a b => D.le a.dist b.dist = true) ∧
    (popAll fuel h acc).Perm (h ++ acc) := by
  induction fuel generalizing h acc with
  | zero =>
    have : h = [] := List.length_eq_zero_iff.1 (by omega)
    subst this
    exact ⟨hacc, by simp [popAll]⟩
  | succ f ih =>
    simp only [popAll]
    cases hp : heapPop resLe h with
    | none =>
      have : h = [] := (heapPop_none resLe h).1 hp
      subst this
      exact ⟨hacc, by simp⟩
    | some pr =>
      obtain ⟨x, h'⟩ := pr
      simp only []
      have sp := heapPop_spec resLe resOrd h hh x h' hp
      have hlen : h'.length + 1 = h.length := by
        have := sp.2.1.length_eq; simp at this; omega
      have hxin : x ∈ h := (sp.2.1.mem_iff).2 (by simp)
      have hsub : ∀ z ∈ h', z ∈ h := fun z hz => (sp.2.1.mem_iff).2 (List.mem_cons_of_mem _ hz)
      have r := ih h' (x :: acc) sp.1 (by omega)
        (List.pairwise_cons.2 ⟨fun y hy => hcross x hxin y hy, hacc⟩)
        (fun z hz y hy => by
          rcases List.mem_cons.1 hy with e | e
          · rw [e]; exact sp.2.2.1 z (hsub z hz)
          · exact hcross z (hsub z hz) y e)
      refine ⟨r.1, r.2.trans ?_⟩
      have p1 : (h' ++ x :: acc).Perm (x :: h' ++ acc) := by
        simpa using (List.perm_middle (a := x) (l₁ := h') (l₂ := acc))
      exact p1.trans (List.Perm.append_right acc sp.2.1.symm)

/-- the output of `finalize` on a context satisfying the invariant -/
theorem finalize_spec (P : NodeId → Prop) (dist : NodeId → D) (c : Ctx) (h : CInv P dist c)
    (k : Nat) :
    (finalize c k).Pairwise (fun a b => D.le a.dist b.dist = true) ∧
    ((finalize c k).map (·.node)).Nodup ∧
    ∀ x ∈ finalize c k, P x.node ∧ x.dist = dist x.node := by
  have sp := popAll_spec c.results.length c.results [] h.heap (Nat.le_refl _) List.Pairwise.nil
    (by simp)
  simp only [List.append_nil] at sp
  unfold finalize
  refine ⟨sp.1.sublist (List.take_sublist _ _), ?_, ?_⟩
  · have hn : ((popAll c.results.length c.results []).map (·.node)).Nodup :=
      ((sp.2.map (·.node)).nodup_iff).2 h.nodup
    exact hn.sublist ((List.take_sublist _ _).map _)
  · intro x hx
    have hx' : x ∈ c.results := (sp.2.mem_iff).1 (List.mem_of_mem_take hx)
    exact ⟨h.visP _ (h.resVis x hx'), h.distOK x hx'⟩

/-- reachability in the graph over readable nodes, along edges of any level -/
inductive Reach (s : Index) (a : NodeId) : NodeId → Prop where
  | refl : Reach s a a
  | step {n nb : NodeId} {l : Nat} : Reach s a n → nb ∈ s.getNeighbors n l → Reach s a nb

theorem greedyStep_spec (P : NodeId → Prop) (getN : NodeId → List NodeId) (dist : NodeId → D)
    (hclosed : ∀ n nb, P n → nb ∈ getN n → P nb) (cur : NodeId) (d : D) (hP : P cur)
    (hd : d = dist cur) :
    P (greedyStep getN dist cur d).1 ∧
      (greedyStep getN dist cur d).2 = dist (greedyStep getN dist cur d).1 := by
  unfold greedyStep
  have key : ∀ (nbs : List NodeId) (b : NodeId × D), (∀ nb ∈ nbs, P nb) → P b.1 → b.2 = dist b.1 →
      P (nbs.foldl (fun (b : NodeId × D) nb =>
        if D.lt (dist nb) b.2 then (nb, dist nb) else b) b).1 ∧
      (nbs.foldl (fun (b : NodeId × D) nb =>
        if D.lt (dist nb) b.2 then (nb, dist nb) else b) b).2 =
        dist (nbs.foldl (fun (b : NodeId × D) nb =>
          if D.lt (dist nb) b.2 then (nb, dist nb) else b) b).1 := by
    intro nbs
    induction nbs with
    | nil => intro b _ h1 h2; exact ⟨h1, h2⟩
    | cons nb rest ih =>
      intro b hall h1 h2
      simp only [List.foldl_cons]
      apply ih
      · exact fun x hx => hall x (List.mem_cons_of_mem _ hx)
      · split
        · exact hall nb (by simp)
        · exact h1
      · split
        · rfl
        · exact h2
  exact key (getN cur) (cur, d) (fun nb hnb => hclosed cur nb hP hnb) hP hd

theorem greedy_spec (P : NodeId → Prop) (getN : NodeId → List NodeId) (dist : NodeId → D)
    (hclosed : ∀ n nb, P n → nb ∈ getN n → P nb) (fuel : Nat) (cur : NodeId) (d : D) (hP : P cur)
    (hd : d = dist cur) :
    P (greedy getN dist fuel cur d).1 ∧
      (greedy getN dist fuel cur d).2 = dist (greedy getN dist fuel cur d).1 := by
  induction fuel generalizing cur d with
  | zero => exact ⟨hP, hd⟩
  | succ f ih =>
    simp only [greedy]
    have st := greedyStep_spec P getN dist hclosed cur d hP hd
    split
    · exact ⟨hP, hd⟩
    · exact ih _ _ st.1 st.2

theorem descend_spec (s : Index) (dist : NodeId → D) (ep : NodeId) (lv : Nat) (p : NodeId × D)
    (hP : Reach s ep p.1) (hd : p.2 = dist p.1) :
    Reach s ep (descend s dist lv p).1 ∧ (descend s dist lv p).2 = dist (descend s dist lv p).1 := by
  induction lv generalizing p with
  | zero => exact ⟨hP, hd⟩
  | succ l ih =>
    simp only [descend]
    have g := greedy_spec (Reach s ep) (fun n => s.getNeighbors n (l + 1)) dist
      (fun n nb hn hnb => Reach.step hn hnb) 1000 p.1 p.2 hP hd
    exact ih _ g.1 g.2

/-! ### property theorems -/

/-- at most `k` results -/
theorem search_length_le_k (s : Index) (k ef : Nat) (vd : Nat → D) :
    (s.search k ef vd).length ≤ k := by
  unfold Index.search
  split
  · simp
  · simp only [List.length_map, finalize, List.length_take]; omega


/-- FULL: the hits of a search are (1) in non-decreasing order of the distance supplied for their
node, (2) pairwise distinct nodes, (3) each reachable from the entry point along graph edges,
(4) reported with exactly the supplied distance of their node (∞ for an unreadable node). -/
theorem search_sorted_distinct_reachable (s : Index) (k ef : Nat) (vd : Nat → D) :
    (s.search k ef vd).Pairwise (fun a b => D.le a.dist b.dist = true) ∧
    ((s.search k ef vd).map (·.node)).Nodup ∧
    ∀ h ∈ s.search k ef vd, h.dist = s.searchDist vd h.node ∧
      ∃ ep, s.entry = .at ep ∧ Reach s ep h.node := by
  unfold Index.search
  cases he : s.entry with
  | unset => simp
  | «at» ep =>
    simp only []
    have hdesc := descend_spec s (s.searchDist vd) ep s.maxLevel (ep, s.searchDist vd ep)
      Reach.refl rfl
    have inv := beamSearch_inv (Reach s ep) (fun n => s.getNeighbors n 0) (s.searchDist vd)
      (fun n nb hn hnb => Reach.step hn hnb) ef s.beamFuel
      ⟨(descend s (s.searchDist vd) s.maxLevel (ep, s.searchDist vd ep)).1,
        (descend s (s.searchDist vd) s.maxLevel (ep, s.searchDist vd ep)).2⟩ hdesc.1 hdesc.2
    have fs := finalize_spec (Reach s ep) (s.searchDist vd) (s.searchCtx ef vd ep) inv k
    refine ⟨?_, ?_, ?_⟩
    · rw [List.pairwise_map]; exact fs.1
    · rw [List.map_map]; exact fs.2.1
    · intro h hh
      obtain ⟨c, hc, rfl⟩ := List.mem_map.1 hh
      exact ⟨(fs.2.2 c hc).2, ep, rfl, (fs.2.2 c hc).1⟩

/-- a hit whose node is readable carries that node's row id and the distance supplied for that row;
a hit on an unreadable (deleted) node carries row id 0 and distance ∞ -/
theorem search_hit_row (s : Index) (k ef : Nat) (vd : Nat → D) :
    ∀ h ∈ s.search k ef vd,
      (∀ nd, s.readNode h.node = some nd → h.rowId = nd.rowId ∧ h.dist = vd nd.rowId) ∧
      (s.readNode h.node = none → h.rowId = 0 ∧ h.dist = .inf) := by
  intro h hh
  have hd := ((search_sorted_distinct_reachable s k ef vd).2.2 h hh).1
  unfold Index.search at hh
  cases he : s.entry with
  | unset => simp [he] at hh
  | «at» ep =>
    simp only [he] at hh
    obtain ⟨c, _, rfl⟩ := List.mem_map.1 hh
    simp only [Index.searchDist] at hd ⊢
    constructor
    · intro nd hnd; simp only [hnd] at hd ⊢; exact ⟨by first | rfl | trivial, hd⟩
    · intro hn; simp only [hn] at hd ⊢; exact ⟨by first | rfl | trivial, hd⟩


/-- PARTIAL (completeness when the search width covers the index).  Hypotheses: every level-0
neighbour id is an allocated node, the node at which the level-0 beam starts is allocated, and both
`ef` and `k` are at least the number of allocated nodes.  Then every node that is reachable from the
beam's start along level-0 edges (through readable nodes) is among the hits.  The full statement
"every LIVE vector is found" needs level-0 connectivity of the live nodes, which the code does not
maintain: a deleted node is a dead end (counterexample below), and once 32 neighbour lists are full
new nodes get no incoming edge (finding C25-neighbour-cap-unreachable, reproduced on the real code
with 34+ nodes). -/
theorem finds_all_when_ef_covers_partial (s : Index) (k ef : Nat) (vd : Nat → D) (ep : NodeId)
    (he : s.entry = .at ep)
    (hvalid : ∀ n nb, nb ∈ s.getNeighbors n 0 → nb < s.nodes.length)
    (hstart : (descend s (s.searchDist vd) s.maxLevel (ep, s.searchDist vd ep)).1 < s.nodes.length)
    (hef : s.nodes.length ≤ ef) (hk : s.nodes.length ≤ k) :
    ∀ n, ReachN (fun n => s.getNeighbors n 0)
        (descend s (s.searchDist vd) s.maxLevel (ep, s.searchDist vd ep)).1 n →
      n ∈ (s.search k ef vd).map (·.node) := by
  intro n hr
  unfold Index.search
  simp only [he, List.map_map]
  have := beamSearch_cover (fun n => s.getNeighbors n 0) (s.searchDist vd) s.nodes.length ef k hef hk
    hvalid ⟨(descend s (s.searchDist vd) s.maxLevel (ep, s.searchDist vd ep)).1,
      (descend s (s.searchDist vd) s.maxLevel (ep, s.searchDist vd ep)).2⟩ hstart s.beamFuel
    (by unfold Index.beamFuel; omega) n hr
  exact this

/-- non-vacuity: in the reachable state `s3` (three live rows) a covering search returns all three -/
example : ((s3.search 3 3 (fun r => if r = 1 then .fin 0 else .fin 16)).map (·.rowId)).length = 3 ∧
    (s3.search 3 3 (fun r => if r = 1 then .fin 0 else .fin 16)).all (fun h => h.rowId != 0) = true := by
  decide

/-- COUNTEREXAMPLE (confirmed on the real code, finding C25-deleted-slot-unreadable): after the
entry point has been deleted, a search over an index that still holds two live rows returns exactly
one hit – the deleted node, with the bogus row id 0 and distance ∞ – and no live row. So "only live
row ids" and "at least one result when a live vector exists" are both false of the code. -/
theorem deleted_returned_counterexample :
    (s3.delete 1).2 = .ok ∧
    (s3d.search 3 10 vdQ).map (fun h => (h.node, h.rowId)) = [(0, 0)] ∧
    (s3d.nodes.map (fun n => (n.rowId, n.deleted))) = [(1, true), (2, false), (3, false)] := by
  decide

/-- COUNTEREXAMPLE (confirmed on the real code): once the entry point is deleted every further
insert fails (`read_node(entry_point)?`), after the node has been allocated and mapped. -/
theorem insert_after_entry_delete_counterexample :
    (s3d.insert 4 0 vdQ).2 = .errEntry ∧ (s3d.insert 4 0 vdQ).1.nodes.length = 4 := by
  decide

/-- `vacuum_batch` never unlinks anything: a queued node is a deleted node, `read_node` rejects it
and the loop `continue`s. Graph and entry point are unchanged whatever the batch size. -/
theorem vacuum_noop (s : Index) (maxNodes : Nat)
    (hq : ∀ d ∈ s.queue, s.readNode d = none) :
    (s.vacuum maxNodes).1.nodes = s.nodes ∧ (s.vacuum maxNodes).1.entry = s.entry ∧
    (s.vacuum maxNodes).2 = min maxNodes s.queue.length := by
  unfold Index.vacuum
  simp only [List.length_take]
  have key : ∀ (batch : List NodeId) (t : Index), t.nodes = s.nodes →
      (∀ d ∈ batch, s.readNode d = none) →
      (batch.foldl vacuumOne t).nodes = s.nodes ∧ (batch.foldl vacuumOne t).entry = t.entry := by
    intro batch
    induction batch with
    | nil => intro t ht _; exact ⟨ht, rfl⟩
    | cons d rest ih =>
      intro t ht hb
      have hd : t.readNode d = none := by
        have := hb d (by simp)
        simpa [Index.readNode, ht] using this
      have e : vacuumOne t d = t := by simp [vacuumOne, hd]
      simp only [List.foldl_cons, e]
      exact ih t ht (fun x hx => hb x (by simp [hx]))
  have := key (s.queue.take maxNodes) { s with queue := s.queue.drop maxNodes } rfl
    (fun d hd => hq d (List.mem_of_mem_take hd))
  exact ⟨this.1, this.2, trivial⟩

/-- the node enqueued by a successful delete is unreadable from then on (hypothesis of
`vacuum_noop`) -/
theorem delete_enqueues_unreadable (s : Index) (row : Nat) (h : (s.delete row).2 = .ok) :
    ∃ nid, (s.delete row).1.queue = s.queue ++ [nid] ∧ (s.delete row).1.readNode nid = none := by
  unfold Index.delete at h ⊢
  cases hf : s.rowMap.find? (fun p => p.1 == row) with
  | none => simp [hf] at h
  | some p =>
    obtain ⟨r, nid⟩ := p
    simp only [hf] at h ⊢
    cases hn : s.nodes[nid]? with
    | none => simp [hn] at h
    | some nd =>
      simp only [hn] at h ⊢
      by_cases hd : nd.deleted = true
      · simp [hd] at h
      · have hlt : nid < s.nodes.length := (List.getElem?_eq_some_iff.1 hn).1
        refine ⟨nid, ?_⟩
        simp [hd, Index.readNode, hlt]

/-- non-vacuity of `vacuum_noop`: the hypothesis holds in the reachable state `s3d` -/
example : ∀ d ∈ s3d.queue, s3d.readNode d = none := by decide

end TurVerif.C25
