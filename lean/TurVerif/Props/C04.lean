import TurVerif.Model.PageLog
import TurVerif.Model.SqlMaint
import TurVerif.Lemmas.PageLog
/-!
# C04 — close, reopen and checkpoint preserve the logical database

* **Specification** (`TurVerif.SqlMaint` on top of the relational reference model `TurVerif.SqlDb`):
  checkpoints (explicit, PRAGMA, automatic) and configuration statements are the identity, reopen
  is the identity outside a transaction and a ROLLBACK inside one.  `maint_erasable`,
  `reopen_outside_txn_identity`, `reopen_in_txn_is_rollback`.
* **Mechanism** (`TurVerif.PageLog`, M-code of the page store + WAL as the database layer drives
  them).  Two notions: `view` = what queries read (the table file mapping), `logical` = the page
  image a replay of the log produces (`table ⊕ replay(wal)`).
  - `checkpoint_preserves_logical`, `recovery_preserves_logical` (full, every state): applying the
    frames to the table file and truncating the log leaves every logical page unchanged.
  - The *view* is what the property is about, and there the code is NOT unconditionally correct:
    `SharedDatabase::checkpoint` (PRAGMA wal_checkpoint, automatic checkpoint, Drop) replays frames
    over pages that were written since – in place – without a newer frame.
    `checkpoint_preserves_view_partial` (coherent state, no dirty page with an older frame) with
    `checkpoint_in_txn_counterexample` and `checkpoint_after_wal_off_write_counterexample`
    (both reproduced on the real engine, known findings).
  - `safe_history_view_eq_spec`: for every history in which each step satisfies the explicit,
    decidable precondition `safeOp`, with ANY interleaving of flushes, both kinds of checkpoint,
    commits with automatic checkpoints, close/reopen and drop/reopen, every page a reader sees is
    exactly the last value written to it; coherence is an invariant (`coh_reachable`).
  - `reopen_preserves_view`, `reopen_preserves_logical_partial`.
  - `wal_on_off_same_logical`: two safe histories with the same page writes show the same pages,
    whatever their WAL mode / maintenance operations; `autocommit_on_safe` / `wal_off_safe`: the
    two canonical shapes (WAL on + flush after every write; WAL off) with arbitrary maintenance in
    between ARE safe, hence `wal_on_off_same_view_autocommit`.
-/
namespace TurVerif.C04
open TurVerif.PageLog

/-! ## helper lemmas -/

def writesOf : List Op → List (Key × Nat)
  | [] => []
  | .write k v :: rest => (k, v) :: writesOf rest
  | _ :: rest => writesOf rest

theorem specRun_eq_replay (ops : List Op) : ∀ t, specRun t ops = replay t (writesOf ops) := by
  induction ops with
  | nil => intro t; rfl
  | cons op rest ih =>
    intro t
    cases op <;> simp only [specRun, specStep, writesOf, replay, ih] <;> rfl

theorem rd_replay_congr (w : List (Key × Nat)) (t1 t2 : List (Key × Nat)) (h : ∀ k, rd t1 k = rd t2 k)
    (k : Key) : rd (replay t1 w) k = rd (replay t2 w) k := by
  rw [rd_replay, rd_replay, h]

/-- maintenance operations that may follow a statement -/
inductive MOp where
  | ckptShared | ckptDb | commit | reopen | dropReopen
  deriving Repr, DecidableEq

/-- with WAL on, the handle's configuration is re-established after a reopen (it is per handle) -/
def MOp.opsOn : MOp → List Op
  | .ckptShared => [.ckptShared]
  | .ckptDb => [.ckptDb]
  | .commit => [.commit]
  | .reopen => [.reopen, .setWal true]
  | .dropReopen => [.dropReopen, .setWal true]

def MOp.opsOff : MOp → List Op
  | .ckptShared => [.ckptShared]
  | .ckptDb => [.ckptDb]
  | .commit => [.commit]
  | .reopen => [.reopen]
  | .dropReopen => [.dropReopen]

/-- autocommit history with WAL on: every page write is followed by the flush of its table, then
any maintenance operations -/
def autocommitOn : List (Key × Nat × List MOp) → List Op
  | [] => []
  | (k, v, ms) :: rest => .write k v :: .flush k.file :: (ms.flatMap MOp.opsOn ++ autocommitOn rest)

def historyOff : List (Key × Nat × List MOp) → List Op
  | [] => []
  | (k, v, ms) :: rest => .write k v :: (ms.flatMap MOp.opsOff ++ historyOff rest)

theorem run_append (a b : List Op) : ∀ s, run s (a ++ b) = run (run s a) b := by
  induction a with
  | nil => intro s; rfl
  | cons op rest ih => intro s; simp only [List.cons_append, run, ih]

theorem safeRun_append (a b : List Op) : ∀ s, safeRun s (a ++ b) = (safeRun s a && safeRun (run s a) b) := by
  induction a with
  | nil => intro s; simp [safeRun, run]
  | cons op rest ih => intro s; simp only [List.cons_append, safeRun, run, ih, Bool.and_assoc]

theorem writesOf_append (a b : List Op) : writesOf (a ++ b) = writesOf a ++ writesOf b := by
  induction a with
  | nil => rfl
  | cons op rest ih => cases op <;> simp [writesOf, ih]

/-- state between two autocommit statements with WAL on -/
structure JOn (s : St) : Prop where
  coh : Coh s
  clean : s.dirty = []
  on : s.walOn = true

theorem jOn_mop {s : St} (h : JOn s) (m : MOp) : safeRun s m.opsOn = true ∧ JOn (run s m.opsOn) := by
  cases m with
  | ckptShared =>
    refine ⟨by simp [MOp.opsOn, safeRun, safeOp, h.clean], ?_⟩
    exact ⟨coh_ckptShared s, h.clean, h.on⟩
  | ckptDb =>
    refine ⟨by simp [MOp.opsOn, safeRun, safeOp], ?_⟩
    simp only [MOp.opsOn, run, step]
    exact ⟨coh_ckptDb h.coh, dirty_ckptDb s, by rw [walOn_ckptDb]; exact h.on⟩
  | commit =>
    refine ⟨by simp [MOp.opsOn, safeRun, safeOp], ?_⟩
    simp only [MOp.opsOn, run, step]
    refine ⟨coh_commit h.coh, ?_, ?_⟩
    · unfold PageLog.commit; simp only [h.on, if_true]
      split
      · show (flushAll s).dirty = []; exact dirty_flushAll s
      · exact dirty_flushAll s
    · unfold PageLog.commit; simp only [h.on, if_true]
      split <;> exact h.on
  | reopen =>
    refine ⟨by simp [MOp.opsOn, safeRun, safeOp], ?_⟩
    simp only [MOp.opsOn, run, step]
    exact ⟨coh_of_wal_nil rfl, rfl, rfl⟩
  | dropReopen =>
    refine ⟨by simp [MOp.opsOn, safeRun, safeOp, step, h.clean], ?_⟩
    simp only [MOp.opsOn, run, step]
    exact ⟨coh_of_wal_nil rfl, rfl, rfl⟩

theorem jOn_mops (ms : List MOp) : ∀ {s : St}, JOn s →
    safeRun s (ms.flatMap MOp.opsOn) = true ∧ JOn (run s (ms.flatMap MOp.opsOn)) := by
  induction ms with
  | nil => intro s h; exact ⟨rfl, h⟩
  | cons m rest ih =>
    intro s h
    have h1 := jOn_mop h m
    have h2 := ih h1.2
    simp only [List.flatMap_cons, safeRun_append, run_append, h1.1, h2.1, Bool.and_self]
    exact ⟨trivial, h2.2⟩

theorem jOn_write_flush {s : St} (h : JOn s) (k : Key) (v : Nat) :
    safeRun s [.write k v, .flush k.file] = true ∧ JOn (run s [.write k v, .flush k.file]) := by
  refine ⟨by simp [safeRun, safeOp, h.on], ?_⟩
  have hc1 : Coh (step s (.write k v)) := coh_step h.coh _ (by simp [safeOp, h.on])
  have hc2 : Coh (step (step s (.write k v)) (.flush k.file)) := coh_step hc1 _ rfl
  refine ⟨hc2, ?_, ?_⟩
  · simp [run, step, flushFile, flushKeys, h.on, h.clean, markDirty]
  · simp [run, step, flushFile, flushKeys, h.on]

theorem autocommit_on_safe (h : List (Key × Nat × List MOp)) : ∀ {s : St}, JOn s →
    safeRun s (autocommitOn h) = true := by
  induction h with
  | nil => intro s _; rfl
  | cons e rest ih =>
    intro s hj
    obtain ⟨k, v, ms⟩ := e
    have h1 := jOn_write_flush hj k v
    have h2 := jOn_mops ms h1.2
    have h3 := ih h2.2
    have e1 : autocommitOn ((k, v, ms) :: rest) = [.write k v, .flush k.file] ++ (ms.flatMap MOp.opsOn ++ autocommitOn rest) := rfl
    rw [e1, safeRun_append, safeRun_append, h1.1, h2.1, h3]; rfl

/-- state of a handle that never had the WAL on -/
structure JOff (s : St) : Prop where
  nowal : s.wal = []
  clean : s.dirty = []
  untouched : s.touched = false
  off : s.walOn = false

theorem jOff_mop {s : St} (h : JOff s) (m : MOp) : safeRun s m.opsOff = true ∧ JOff (run s m.opsOff) := by
  cases m with
  | ckptShared =>
    exact ⟨by simp [MOp.opsOff, safeRun, safeOp, h.clean], ⟨rfl, h.clean, h.untouched, h.off⟩⟩
  | ckptDb =>
    have : ckptDb s = s := by simp [ckptDb, h.clean, h.untouched]
    refine ⟨by simp [MOp.opsOff, safeRun, safeOp], ?_⟩
    simp only [MOp.opsOff, run, step, this]; exact h
  | commit =>
    have : PageLog.commit s = s := by simp [PageLog.commit, h.off]
    refine ⟨by simp [MOp.opsOff, safeRun, safeOp], ?_⟩
    simp only [MOp.opsOff, run, step, this]; exact h
  | reopen =>
    exact ⟨by simp [MOp.opsOff, safeRun, safeOp], ⟨rfl, rfl, rfl, rfl⟩⟩
  | dropReopen =>
    exact ⟨by simp [MOp.opsOff, safeRun, safeOp, h.clean], ⟨rfl, rfl, rfl, rfl⟩⟩

theorem jOff_mops (ms : List MOp) : ∀ {s : St}, JOff s →
    safeRun s (ms.flatMap MOp.opsOff) = true ∧ JOff (run s (ms.flatMap MOp.opsOff)) := by
  induction ms with
  | nil => intro s h; exact ⟨rfl, h⟩
  | cons m rest ih =>
    intro s h
    have h1 := jOff_mop h m
    have h2 := ih h1.2
    simp only [List.flatMap_cons, safeRun_append, run_append, h1.1, h2.1, Bool.and_self]
    exact ⟨trivial, h2.2⟩

theorem wal_off_safe (h : List (Key × Nat × List MOp)) : ∀ {s : St}, JOff s →
    safeRun s (historyOff h) = true := by
  induction h with
  | nil => intro s _; rfl
  | cons e rest ih =>
    intro s hj
    obtain ⟨k, v, ms⟩ := e
    have hw : safeOp s (.write k v) = true := by simp [safeOp, noFrame, hj.nowal, lastFrame]
    have j1 : JOff (step s (.write k v)) :=
      ⟨hj.nowal, by simp [step, hj.off, hj.clean], by simp [step, hj.off, hj.untouched], hj.off⟩
    have h2 := jOff_mops ms j1
    have h3 := ih h2.2
    have e1 : historyOff ((k, v, ms) :: rest) = [.write k v] ++ (ms.flatMap MOp.opsOff ++ historyOff rest) := rfl
    rw [e1, safeRun_append, safeRun_append]
    simp only [safeRun, hw, Bool.and_true, run, h2.1, h3, Bool.and_self]

theorem writesOf_mopsOn (ms : List MOp) : writesOf (ms.flatMap MOp.opsOn) = [] := by
  induction ms with
  | nil => rfl
  | cons m rest ih => cases m <;> simp [List.flatMap_cons, writesOf_append, MOp.opsOn, writesOf, ih]

theorem writesOf_mopsOff (ms : List MOp) : writesOf (ms.flatMap MOp.opsOff) = [] := by
  induction ms with
  | nil => rfl
  | cons m rest ih => cases m <;> simp [List.flatMap_cons, writesOf_append, MOp.opsOff, writesOf, ih]

theorem writesOf_autocommitOn (h : List (Key × Nat × List MOp)) :
    writesOf (autocommitOn h) = h.map (fun e => (e.1, e.2.1)) := by
  induction h with
  | nil => rfl
  | cons e rest ih =>
    obtain ⟨k, v, ms⟩ := e
    simp [autocommitOn, writesOf, writesOf_append, writesOf_mopsOn, ih]

theorem writesOf_historyOff (h : List (Key × Nat × List MOp)) :
    writesOf (historyOff h) = h.map (fun e => (e.1, e.2.1)) := by
  induction h with
  | nil => rfl
  | cons e rest ih =>
    obtain ⟨k, v, ms⟩ := e
    simp [historyOff, writesOf, writesOf_append, writesOf_mopsOff, ih]

/-! ## property theorems -/

/-- **Checkpoint preserves the logical page image** (every state, every page): applying the WAL
frames to the table file and truncating the WAL leaves `table ⊕ replay(wal)` unchanged. -/
theorem checkpoint_preserves_logical (s : St) (k : Key) : logical (ckptShared s) k = logical s k := rfl

/-- recovery at open (replay + truncate) preserves the logical page image -/
theorem recovery_preserves_logical (s : St) (k : Key) : logical (recover s) k = logical s k := rfl

/-- in a coherent state without dirty pages, what readers see IS the logical image -/
theorem view_eq_logical_of_coh (s : St) (h : Coh s) (hd : s.dirty = []) (k : Key) :
    view s k = logical s k :=
  (rd_replay_coh h k (by simp [hd])).symm

/-- **Checkpoint preserves what queries read** – on the domain where no page was written in place
after its newest frame without being re-logged. -/
theorem checkpoint_preserves_view_partial (s : St) (h : Coh s) (hd : s.dirty.all (noFrame s) = true)
    (k : Key) : view (ckptShared s) k = view s k :=
  view_ckptShared h hd k

/-- FULL STATEMENT (false of the code): `∀ s k, view (ckptShared s) k = view s k`.
Counterexample 1 – a replaying checkpoint inside a transaction: the page was logged by an earlier
autocommit statement (image 1), written again inside the transaction (image 2, dirty, not flushed
because a transaction is open), `PRAGMA wal_checkpoint` replays image 1 over it. -/
theorem checkpoint_in_txn_counterexample :
    let k : Key := ⟨1, 1⟩
    let s := run {} [.setWal true, .write k 1, .flush 1, .write k 2]
    Coh s ∧ view s k = 2 ∧ view (step s .ckptShared) k = 1 ∧ safeOp s .ckptShared = false := by
  refine ⟨?_, by decide, by decide, by decide⟩
  intro q v hv hq
  have hd : (run {} [.setWal true, .write ⟨1, 1⟩ 1, .flush 1, .write ⟨1, 1⟩ 2]).dirty = [⟨1, 1⟩] := by decide
  have hw : (run {} [.setWal true, .write ⟨1, 1⟩ 1, .flush 1, .write ⟨1, 1⟩ 2]).wal = [(⟨1, 1⟩, 1)] := by decide
  rw [hw] at hv; rw [hd] at hq
  simp only [lastFrame] at hv
  by_cases e : (⟨1, 1⟩ : Key) = q
  · subst e; simp at hq
  · simp [e] at hv

/-- Counterexample 2 – the WAL is switched off after pages were logged, the pages are written in
place, then a replaying checkpoint (or dropping the handle) brings the logged images back. -/
theorem checkpoint_after_wal_off_write_counterexample :
    let k : Key := ⟨1, 1⟩
    let ops : List Op := [.setWal true, .write k 1, .flush 1, .setWal false, .write k 2]
    view (run {} ops) k = 2 ∧ view (run {} (ops ++ [.ckptShared])) k = 1
      ∧ view (run {} (ops ++ [.dropReopen])) k = 1 ∧ safeRun {} ops = false := by
  decide

/-- **General theorem**: along every safe history – arbitrary interleaving of page writes, table
flushes, WAL switches, threshold changes, both kinds of checkpoint, commits with automatic
checkpoints, close/reopen and drop/reopen – every page a reader sees is exactly the last value
written to it (the meaning of the history for a plain map). -/
theorem safe_history_view_eq_spec (s : St) (ops : List Op) (hc : Coh s) (hs : safeRun s ops = true)
    (k : Key) : view (run s ops) k = rd (specRun s.table ops) k :=
  view_run ops s s.table hc hs (fun _ => rfl) k

/-- coherence is an invariant of safe histories from the empty database -/
theorem coh_reachable (ops : List Op) (hs : safeRun {} ops = true) : Coh (run {} ops) :=
  coh_run ops {} (coh_of_wal_nil rfl) hs

/-- **Close + reopen preserves what queries read** in every coherent state (dirty pages included:
`Database::close` flushes them before the log is truncated). -/
theorem reopen_preserves_view (s : St) (h : Coh s) (k : Key) : view (step s .reopen) k = view s k :=
  view_step h .reopen rfl k

/-- Close + reopen preserves the logical image in a coherent state in which nothing is dirty
(`Database::close` truncates the log without applying it: fine exactly because the table file
already holds every logged page). -/
theorem reopen_preserves_logical_partial (s : St) (h : Coh s) (hd : s.dirty = []) (k : Key) :
    logical (step s .reopen) k = logical s k := by
  have e1 : logical (step s .reopen) k = logical (ckptDb s) k := rfl
  rw [e1, ← view_eq_logical_of_coh (ckptDb s) (coh_ckptDb h) (dirty_ckptDb s) k,
    ← view_eq_logical_of_coh s h hd k]
  show rd (ckptDb s).table k = rd s.table k
  rw [table_ckptDb]

/-- with a dirty page the log is truncated without being applied: the logical image of that page
changes (to the newer, in-place value) -/
theorem reopen_logical_counterexample :
    let k : Key := ⟨1, 1⟩
    let s := run {} [.setWal true, .write k 1, .flush 1, .write k 2]
    logical s k = 1 ∧ logical (step s .reopen) k = 2 := by decide

/-- dropping the handle without `close` replays the log like a checkpoint: same precondition -/
theorem drop_reopen_preserves_view_partial (s : St) (h : Coh s) (hd : s.dirty.all (noFrame s) = true)
    (k : Key) : view (step s .dropReopen) k = view s k :=
  view_step h .dropReopen hd k

/-- **WAL on/off (and any other configuration / maintenance difference) gives the same pages**:
two safe histories that contain the same page writes, started from states whose tables agree,
end with tables that agree – for every page. -/
theorem wal_on_off_same_logical (s1 s2 : St) (ops1 ops2 : List Op)
    (h1 : Coh s1) (h2 : Coh s2) (hs1 : safeRun s1 ops1 = true) (hs2 : safeRun s2 ops2 = true)
    (ht : ∀ k, rd s1.table k = rd s2.table k) (hw : writesOf ops1 = writesOf ops2) (k : Key) :
    view (run s1 ops1) k = view (run s2 ops2) k := by
  rw [safe_history_view_eq_spec s1 ops1 h1 hs1 k, safe_history_view_eq_spec s2 ops2 h2 hs2 k,
    specRun_eq_replay, specRun_eq_replay, hw]
  exact rd_replay_congr _ _ _ ht k

/-- the canonical WAL-on shape is safe: WAL on, every page write followed by the flush of its
table (autocommit), then ANY sequence of checkpoints / commits / reopen cycles -/
theorem autocommit_on_safe_from_empty (h : List (Key × Nat × List MOp)) :
    safeRun (step {} (.setWal true)) (autocommitOn h) = true :=
  autocommit_on_safe h ⟨coh_of_wal_nil rfl, rfl, rfl⟩

/-- the WAL-off shape is safe: any writes with ANY maintenance operations in between -/
theorem wal_off_safe_from_empty (h : List (Key × Nat × List MOp)) : safeRun {} (historyOff h) = true :=
  wal_off_safe h ⟨rfl, rfl, rfl, rfl⟩

/-- **Corollary**: the same statement history run with WAL on (autocommit) and with WAL off, each
with its own arbitrary maintenance operations (`ms1`, `ms2` per statement), shows the same pages. -/
theorem wal_on_off_same_view_autocommit (h1 h2 : List (Key × Nat × List MOp))
    (hw : h1.map (fun e => (e.1, e.2.1)) = h2.map (fun e => (e.1, e.2.1))) (k : Key) :
    view (run (step {} (.setWal true)) (autocommitOn h1)) k = view (run {} (historyOff h2)) k := by
  apply wal_on_off_same_logical _ _ _ _ (coh_of_wal_nil rfl) (coh_of_wal_nil rfl)
    (autocommit_on_safe_from_empty h1) (wal_off_safe_from_empty h2) (fun _ => rfl)
  rw [writesOf_autocommitOn, writesOf_historyOff, hw]

/-- non-vacuity: a safe history with a commit-triggered automatic checkpoint, a reopen and an
explicit checkpoint; the page shows the last write -/
example :
    let k : Key := ⟨1, 3⟩
    let ops : List Op := [.setWal true, .setThreshold 1, .write k 5, .flush 1, .commit, .write k 6,
      .flush 1, .reopen, .setWal true, .write k 7, .flush 1, .ckptShared, .ckptDb]
    safeRun {} ops = true ∧ view (run {} ops) k = 7 := by decide

/-! ### specification level (relational reference model) -/

open TurVerif.SqlMaint TurVerif.SqlDb in
/-- checkpoints and configuration statements can be erased from any history: same statement
results, same final logical database -/
theorem maint_erasable (s : DbState) (items : List Item) (h : ∀ it ∈ items, it.isReopen = false) :
    runItems s items = run s (stmtsOf items) :=
  runItems_eq_run s items h

open TurVerif.SqlMaint TurVerif.SqlDb in
/-- close + reopen outside a transaction is the identity on the logical database -/
theorem reopen_outside_txn_identity (s : DbState) (h : s.txn = []) : maintStep s .reopen = s :=
  maintStep_no_txn s .reopen h

open TurVerif.SqlMaint TurVerif.SqlDb in
/-- close + reopen with an open transaction is exactly ROLLBACK -/
theorem reopen_in_txn_is_rollback (s : DbState) (h : s.txn ≠ []) :
    maintStep s .reopen = (step s .rollback).1 :=
  maintStep_reopen_in_txn s h

end TurVerif.C04
