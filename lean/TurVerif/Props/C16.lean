import TurVerif.Model.Sql
import TurVerif.Props.C15
import TurVerif.Model.SqlAggImpl
/-!
C16  Aggregates and GROUP BY / HAVING follow SQL semantics.

Theorems about the reference semantics `TurVerif.Sql` (M-spec: `evalAgg`, `aggregate`,
`groupStage` *are* the definition the property statement refers to).  The executor is not
modelled; it is tied to this semantics by the differential engine `sql_agg` (props/C16.json).
-/
namespace TurVerif.C16
open TurVerif.Sql

/-! ### helpers -/
/-- the argument values of an aggregate over the rows of a group -/
def argVals (cols : List Row) : List Val := cols.map (fun r => r.headD .null)

def nonNull (vs : List Val) : List Val := vs.filter (fun v => !v.isNull)

theorem projectRows_cons_ok (es : List Expr) (r : Row) (rs : List Row) (out : List Row)
    (h : projectRows es (r :: rs) = .ok out) :
    ∃ v o, evalList r es = .ok v ∧ projectRows es rs = .ok o ∧ out = v :: o := by
  simp only [projectRows] at h
  cases hv : evalList r es with
  | error e => simp [hv] at h
  | ok v =>
    cases ho : projectRows es rs with
    | error e => simp [hv, ho] at h
    | ok o => simp [hv, ho] at h; exact ⟨v, o, rfl, rfl, h.symm⟩

theorem projectRows_length (es : List Expr) : ∀ (rows out : List Row),
    projectRows es rows = .ok out → out.length = rows.length := by
  intro rows
  induction rows with
  | nil => intro out h; simp [projectRows] at h; subst h; rfl
  | cons r rs ih =>
    intro out h
    obtain ⟨v, o, _, ho, rfl⟩ := projectRows_cons_ok es r rs out h
    simp [ih o ho]

/-! ### COUNT -/
/-- COUNT(*) is the number of rows of the group, NULLs or not -/
theorem count_star_eq_length (e : Expr) (rows : List Row) :
    evalAgg ⟨.countStar, e⟩ rows = .ok (.int rows.length) := by
  simp [evalAgg]

/-- COUNT(e) is the number of rows on which `e` is not NULL -/
theorem count_eq_nonnull (e : Expr) (rows cols : List Row)
    (h : projectRows [e] rows = .ok cols) :
    evalAgg ⟨.count, e⟩ rows = .ok (.int (nonNull (argVals cols)).length) := by
  simp [evalAgg, h, nonNull, argVals]

/-- COUNT(e) never exceeds COUNT(*), with equality exactly when no value is NULL -/
theorem count_le_count_star (e : Expr) (rows cols : List Row)
    (h : projectRows [e] rows = .ok cols) :
    (nonNull (argVals cols)).length ≤ rows.length := by
  rw [← projectRows_length [e] rows cols h]
  simpa [nonNull, argVals] using List.length_filter_le _ (argVals cols)

/-! ### NULL inputs are ignored by COUNT(e), SUM, AVG, MIN, MAX -/
/-- every aggregate except COUNT(*) is a function of the non-NULL argument values only -/
theorem agg_depends_on_nonnull_only (a : Agg) (rows₁ rows₂ cols₁ cols₂ : List Row)
    (hfn : a.fn ≠ .countStar)
    (h₁ : projectRows [a.arg] rows₁ = .ok cols₁) (h₂ : projectRows [a.arg] rows₂ = .ok cols₂)
    (hsame : nonNull (argVals cols₁) = nonNull (argVals cols₂)) :
    evalAgg a rows₁ = evalAgg a rows₂ := by
  obtain ⟨fn, arg⟩ := a
  simp only [nonNull, argVals] at hsame
  cases fn <;> simp_all [evalAgg]

/-- in particular a row whose argument is NULL can be inserted anywhere without changing the result -/
theorem agg_ignores_null_row (a : Agg) (l₁ l₂ : List Row) (r : Row)
    (hfn : a.fn ≠ .countStar) (hr : eval r a.arg = .ok .null)
    (cols : List Row) (h : projectRows [a.arg] (l₁ ++ l₂) = .ok cols) :
    evalAgg a (l₁ ++ r :: l₂) = evalAgg a (l₁ ++ l₂) := by
  have key : ∀ (l₁ : List Row) (cols : List Row), projectRows [a.arg] (l₁ ++ l₂) = .ok cols →
      ∃ cols', projectRows [a.arg] (l₁ ++ r :: l₂) = .ok cols' ∧
        nonNull (argVals cols') = nonNull (argVals cols) := by
    intro l₁
    induction l₁ with
    | nil =>
      intro cols h
      refine ⟨[.null] :: cols, ?_, ?_⟩
      · simp at h
        simp [projectRows, evalList, hr, h]
      · simp [nonNull, argVals, Val.isNull]
    | cons x xs ih =>
      intro cols h
      obtain ⟨v, o, hv, ho, rfl⟩ := projectRows_cons_ok [a.arg] x (xs ++ l₂) cols h
      obtain ⟨c', hc', hn⟩ := ih o ho
      refine ⟨v :: c', ?_, ?_⟩
      · simp [projectRows, hv, hc']
      · simp only [nonNull, argVals, List.map_cons, List.filter_cons] at hn ⊢
        rw [hn]
  obtain ⟨cols', h', hn⟩ := key l₁ cols h
  exact agg_depends_on_nonnull_only a _ _ cols' cols hfn h' h hn

/-! ### empty input -/
theorem empty_count_star (e : Expr) : evalAgg ⟨.countStar, e⟩ [] = .ok (.int 0) := by simp [evalAgg]
theorem empty_count (e : Expr) : evalAgg ⟨.count, e⟩ [] = .ok (.int 0) := by
  simp [evalAgg, projectRows]
theorem empty_sum (e : Expr) : evalAgg ⟨.sum, e⟩ [] = .ok .null := by
  simp [evalAgg, projectRows, sumVals]
theorem empty_avg (e : Expr) : evalAgg ⟨.avg, e⟩ [] = .ok .null := by
  simp [evalAgg, projectRows]
theorem empty_min (e : Expr) : evalAgg ⟨.min, e⟩ [] = .ok .null := by
  simp [evalAgg, projectRows, minMax]
theorem empty_max (e : Expr) : evalAgg ⟨.max, e⟩ [] = .ok .null := by
  simp [evalAgg, projectRows, minMax]

/-- the same holds when every argument value is NULL: COUNT 0, the others NULL -/
theorem all_null_input (a : Agg) (rows cols : List Row) (hfn : a.fn ≠ .countStar)
    (h : projectRows [a.arg] rows = .ok cols) (hn : nonNull (argVals cols) = []) :
    evalAgg a rows = .ok (if a.fn = .count then .int 0 else .null) := by
  have h0 : projectRows [a.arg] [] = .ok [] := rfl
  rw [agg_depends_on_nonnull_only a rows [] cols [] hfn h h0 (by simpa [nonNull, argVals] using hn)]
  obtain ⟨fn, arg⟩ := a
  cases fn <;> simp_all [evalAgg, projectRows, sumVals, minMax]

/-- without GROUP BY an aggregate query returns exactly one row, also over an empty input -/
theorem no_group_by_exactly_one_row (aggs : List Agg) (rows out : List Row)
    (h : aggregate [] aggs rows = .ok out) : out.length = 1 := by
  simp only [aggregate, List.isEmpty_nil, if_true] at h
  cases hv : evalAggs aggs rows with
  | error e => simp [hv] at h
  | ok vs => simp [hv] at h; subst h; rfl

/-- with GROUP BY an empty input has no groups -/
theorem group_by_empty_input (keys : List Expr) (aggs : List Agg) (hk : keys ≠ []) :
    aggregate keys aggs [] = .ok [] := by
  cases keys with
  | nil => exact absurd rfl hk
  | cons k ks => simp [aggregate, groupKeys, projectRows, distinct, aggregate.go]


/-! ### GROUP BY: one output row per distinct key -/
theorem evalAggs_length : ∀ (as : List Agg) (rows : List Row) (vs : List Val),
    evalAggs as rows = .ok vs → vs.length = as.length := by
  intro as
  induction as with
  | nil => intro rows vs h; simp [evalAggs] at h; subst h; rfl
  | cons a rest ih =>
    intro rows vs h
    simp only [evalAggs] at h
    cases hv : evalAgg a rows with
    | error e => simp [hv] at h
    | ok v =>
      cases hr : evalAggs rest rows with
      | error e => simp [hv, hr] at h
      | ok r => simp [hv, hr] at h; subst h; simp [ih rows r hr]

theorem go_cons_ok (keys : List Expr) (aggs : List Agg) (rows : List Row) (k : Row) (rest out : List Row)
    (h : aggregate.go keys aggs rows (k :: rest) = .ok out) :
    ∃ g vs o, groupRows keys k rows = .ok g ∧ evalAggs aggs g = .ok vs ∧
      aggregate.go keys aggs rows rest = .ok o ∧ out = (k ++ vs) :: o := by
  simp only [aggregate.go] at h
  cases hg : groupRows keys k rows with
  | error e => simp [hg] at h
  | ok g =>
    simp only [hg] at h
    cases hv : evalAggs aggs g with
    | error e => simp [hv] at h
    | ok vs =>
      cases ho : aggregate.go keys aggs rows rest with
      | error e => simp [hv, ho] at h
      | ok o => simp [hv, ho] at h; exact ⟨g, vs, o, rfl, hv, rfl, h.symm⟩

theorem go_shape (keys : List Expr) (aggs : List Agg) (rows : List Row) :
    ∀ (ks out : List Row), aggregate.go keys aggs rows ks = .ok out →
      out.length = ks.length ∧ ∀ i (hi : i < out.length) (hk : i < ks.length),
        ∃ vs, out[i] = ks[i] ++ vs ∧ vs.length = aggs.length := by
  intro ks
  induction ks with
  | nil => intro out h; simp [aggregate.go] at h; subst h; simp
  | cons k rest ih =>
    intro out h
    obtain ⟨g, vs, o, _, hv, ho, rfl⟩ := go_cons_ok keys aggs rows k rest out h
    obtain ⟨h1, h2⟩ := ih o ho
    refine ⟨by simp [h1], ?_⟩
    intro i hi hk
    cases i with
    | zero => exact ⟨vs, rfl, evalAggs_length aggs g vs hv⟩
    | succ j =>
      simp only [List.getElem_cons_succ]
      exact h2 j (by simpa using hi) (by simpa using hk)

/-- GROUP BY returns exactly one row per distinct key value (in first-occurrence order), the row
starts with the key, and no two result rows have the same key; NULL keys are not distinct from
each other, so all rows with a NULL key fall into ONE group -/
theorem one_row_per_distinct_key (keys : List Expr) (aggs : List Agg) (rows out : List Row)
    (hk : keys ≠ []) (h : aggregate keys aggs rows = .ok out) :
    ∃ kvs, projectRows keys rows = .ok kvs ∧ out.length = (distinct kvs).length ∧
      (distinct kvs).Pairwise (fun a b => rowSame a b = false) ∧
      ∀ i (hi : i < out.length) (hd : i < (distinct kvs).length),
        ∃ vs, out[i] = (distinct kvs)[i] ++ vs ∧ vs.length = aggs.length := by
  cases keys with
  | nil => exact absurd rfl hk
  | cons k ks =>
    simp only [aggregate, List.isEmpty_cons, Bool.false_eq_true, if_false, groupKeys] at h
    cases hp : projectRows (k :: ks) rows with
    | error e => simp [hp] at h
    | ok kvs =>
      simp [hp] at h
      obtain ⟨h1, h2⟩ := go_shape (k :: ks) aggs rows (distinct kvs) out h
      exact ⟨kvs, rfl, h1, C15.distinct_nodup kvs, h2⟩

theorem null_keys_one_group : rowSame [Val.null] [Val.null] = true := by decide

/-- rows whose keys are the same (NULL = NULL included) belong to the same groups -/
theorem same_key_same_group (k k₁ k₂ : Row) (h : rowSame k₁ k₂ = true) :
    rowSame k k₁ = rowSame k k₂ := by
  cases h1 : rowSame k k₁ with
  | true => exact (C15.rowSame_trans k k₁ k₂ h1 h).symm
  | false =>
    cases h2 : rowSame k k₂ with
    | false => rfl
    | true =>
      have := C15.rowSame_trans k k₂ k₁ h2 (C15.rowSame_symm k₁ k₂ h)
      rw [this] at h1; exact absurd h1 (by simp)


/-! ### the groups partition the input -/
theorem groupRows_length (keys : List Expr) (k : Row) : ∀ (rows kvs : List Row),
    projectRows keys rows = .ok kvs →
    ∃ g, groupRows keys k rows = .ok g ∧ g.length = (kvs.filter (fun kv => rowSame k kv)).length := by
  intro rows
  induction rows with
  | nil => intro kvs h; simp [projectRows] at h; subst h; exact ⟨[], rfl, rfl⟩
  | cons r rs ih =>
    intro kvs h
    obtain ⟨v, o, hv, ho, rfl⟩ := projectRows_cons_ok keys r rs kvs h
    obtain ⟨g, hg, hl⟩ := ih o ho
    cases hs : rowSame k v with
    | true => exact ⟨r :: g, by simp [groupRows, hv, hg, hs], by simp [List.filter, hs, hl]⟩
    | false => exact ⟨g, by simp [groupRows, hv, hg, hs], by simp [List.filter, hs, hl]⟩

theorem sum_map_add (d : List Row) (f g : Row → Nat) :
    (d.map (fun k => f k + g k)).sum = (d.map f).sum + (d.map g).sum := by
  induction d with
  | nil => rfl
  | cons x xs ih => simp [ih]; omega

theorem sum_map_ite (d : List Row) (p : Row → Bool) :
    (d.map (fun k => if p k then 1 else 0)).sum = (d.filter p).length := by
  induction d with
  | nil => rfl
  | cons x xs ih => cases h : p x <;> simp [List.filter, h, ih] <;> omega

/-- double counting: if every element of `l` is the same as exactly one key of `d`, the class sizes
add up to the size of `l` -/
theorem count_partition (d : List Row) : ∀ (l : List Row),
    (∀ x ∈ l, (d.filter (fun k => rowSame k x)).length = 1) →
    (d.map (fun k => (l.filter (fun x => rowSame k x)).length)).sum = l.length := by
  intro l
  induction l with
  | nil => intro _; induction d with
    | nil => rfl
    | cons a as ih => simpa using ih
  | cons x xs ih =>
    intro h
    have hx := h x (by simp)
    have hxs := ih (fun y hy => h y (by simp [hy]))
    have : (fun k => ((x :: xs).filter (fun y => rowSame k y)).length) =
        (fun k => (if rowSame k x then 1 else 0) + (xs.filter (fun y => rowSame k y)).length) := by
      funext k
      cases hk : rowSame k x <;> simp [List.filter, hk] <;> omega
    rw [this, sum_map_add, sum_map_ite, hx, hxs]
    simp; omega

/-- the groups of GROUP BY partition the input: every input row lies in exactly one group, so the
group sizes (= the COUNT(*) values) add up to the number of input rows -/
theorem groups_partition (keys : List Expr) (rows kvs : List Row)
    (h : projectRows keys rows = .ok kvs) :
    (∀ k, ∃ g, groupRows keys k rows = .ok g ∧
        g.length = (kvs.filter (fun kv => rowSame k kv)).length) ∧
    (∀ x ∈ kvs, ((distinct kvs).filter (fun k => rowSame k x)).length = 1) ∧
    ((distinct kvs).map (fun k => (kvs.filter (fun kv => rowSame k kv)).length)).sum = rows.length := by
  refine ⟨fun k => groupRows_length keys k rows kvs h, ?_, ?_⟩
  · intro x hx; exact C15.distinct_exactly_once kvs x hx
  · rw [count_partition (distinct kvs) kvs (fun x hx => C15.distinct_exactly_once kvs x hx)]
    exact projectRows_length keys rows kvs h

/-! ### HAVING is a filter over the group rows -/
def keepsB (p : Expr) (r : Row) : Bool :=
  match keeps p r with
  | .ok true => true
  | _ => false

theorem filterRows_eq_filter (p : Expr) : ∀ (rows out : List Row),
    filterRows p rows = .ok out → out = rows.filter (keepsB p) := by
  intro rows
  induction rows with
  | nil => intro out h; simp [filterRows] at h; subst h; rfl
  | cons r rs ih =>
    intro out h
    simp only [filterRows] at h
    cases hk : keeps p r with
    | error e => simp [hk] at h
    | ok b =>
      cases ho : filterRows p rs with
      | error e => simp [hk, ho] at h
      | ok o =>
        simp [hk, ho] at h
        have := ih o ho
        cases b <;> simp_all [List.filter, keepsB]

/-- HAVING keeps exactly the group rows (key ++ aggregates) on which the condition is TRUE
(FALSE and UNKNOWN groups are dropped), in the same order -/
theorem having_is_filter (q : Select) (rows groups out : List Row) (hq : q.grouped = true)
    (hg : aggregate q.keys q.aggs rows = .ok groups) (p : Expr) (hh : q.having = some p)
    (h : groupStage q rows = .ok out) : out = groups.filter (keepsB p) := by
  simp only [groupStage, hq, if_true, hg, hh, optFilter] at h
  exact filterRows_eq_filter p groups out h

theorem no_having_keeps_all (q : Select) (rows groups : List Row) (hq : q.grouped = true)
    (hg : aggregate q.keys q.aggs rows = .ok groups) (hh : q.having = none) :
    groupStage q rows = .ok groups := by
  simp [groupStage, hq, hg, hh, optFilter]

/-! ### SUM outside the 64-bit range is an error, never a wrapped value -/
theorem sum_overflow_is_error :
    evalAgg ⟨.sum, .col 0⟩ [[.int i64Max], [.int 1]] = .error .overflow := by
  simp [evalAgg, projectRows, evalList, eval, sumVals, arith, chkInt, i64Max, i64Min, Val.isNull]

/-! ### the engine's accumulator (M-code model `TurVerif.SqlAggImpl`) against the specification -/
namespace Impl
open TurVerif.SqlAggImpl

def isNullAV : AV → Bool
  | .null => true
  | _ => false

/-- the accumulator's COUNT is the number of *rows*: `fold` never looks at the value -/
theorem implCount_is_row_count : ∀ (vs : List AV) (s : St), s.count + vs.length ≤ SqlAggImpl.i64Max → SqlAggImpl.i64Min ≤ s.count →
    (fold .count s vs).map (finalize .count) = some (.int (s.count + vs.length)) := by
  intro vs
  induction vs with
  | nil => intro s _ _; simp [fold, finalize]
  | cons v rest ih =>
    intro s h1 h2
    have hlen : ((v :: rest).length : Int) = (rest.length : Int) + 1 := by simp
    have hc : addChk s.count 1 = some (s.count + 1) := by
      simp only [addChk]; rw [if_pos]; simp only [SqlAggImpl.i64Max, SqlAggImpl.i64Min] at *; constructor <;> omega
    simp only [fold, update, hc, Option.map_some]
    rw [ih { s with count := s.count + 1 } (by simp only [SqlAggImpl.i64Max] at *; omega) (by simp only [SqlAggImpl.i64Min] at *; omega)]
    simp; omega

/-- full statement "COUNT(e) = number of non-NULL values" is FALSE of the engine's accumulator:
COUNT over (NULL, 1) is 2 -/
theorem implCount_counts_nulls_counterexample :
    ¬ (∀ vs : List AV, run .count vs = some (.int ((vs.filter (fun v => !isNullAV v)).length))) := by
  intro h
  have := h [.null, .int 1]
  revert this; decide

/-- partial: on NULL-free input the accumulator's COUNT is right -/
theorem implCount_partial (vs : List AV) (hn : ∀ v ∈ vs, isNullAV v = false)
    (hb : (vs.length : Int) ≤ SqlAggImpl.i64Max) :
    run .count vs = some (.int ((vs.filter (fun v => !isNullAV v)).length)) := by
  have hf : vs.filter (fun v => !isNullAV v) = vs := by
    rw [List.filter_eq_self]; intro v hv; simp [hn v hv]
  have := implCount_is_row_count vs {} (by simpa using hb) (by decide)
  simpa [run, hf] using this

/-- full statement "SUM over no input is NULL" is FALSE of the accumulator: it returns 0 -/
theorem implSum_empty_counterexample : run .sum [] = some (.int 0) ∧ run .sum [.null, .null] = some (.int 0) := by
  decide

/-- MIN/MAX ignore every non-numeric value: over TEXT they return NULL -/
theorem implMinMax_text_counterexample :
    run .min [.other, .other] = some .null ∧ run .max [.other] = some .null := by decide

/-- SUM over BIGINT whose sum leaves the 64-bit range panics (dev profile), it is not an SQL error -/
theorem implSum_overflow_panics : run .sum [.int SqlAggImpl.i64Max, .int 1] = none := by decide

/-- NULLs are ignored by the accumulator's SUM, AVG, MIN, MAX (only COUNT is wrong) -/
theorem impl_update_ignores_null (f : Fn) (hf : f ≠ .count) (s : St) : update f s .null = some s := by
  cases f <;> simp_all [update]

end Impl

/-! ### non-vacuity -/
example : aggregate [.col 0] [⟨.countStar, .lit .null⟩, ⟨.count, .col 1⟩]
    [[.null, .int 1], [.int 2, .null], [.null, .null]] =
    .ok [[.null, .int 2, .int 1], [.int 2, .int 1, .int 0]] := by
  simp [aggregate, groupKeys, projectRows, evalList, eval, distinct, rowSame, Val.same,
    aggregate.go, groupRows, evalAggs, evalAgg, Val.isNull]

end TurVerif.C16
