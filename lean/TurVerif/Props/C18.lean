import TurVerif.Model.SqlSub
import TurVerif.Props.C14
/-!
C18  Subqueries (IN / NOT IN / EXISTS / scalar, correlated or not) and set operations.

Theorems about the reference semantics `TurVerif.SqlSub` (subqueries) and `TurVerif.Sql`
(set operations).  Every law about `evalStep rec` is proved for an ARBITRARY child evaluator
`rec`, hence for every nesting depth (`evalS (n+1) = evalStep (evalS n)`).
-/
namespace TurVerif.C18
open TurVerif.Sql TurVerif.SqlSub

/-! ## helper lemmas -/

theorem truth_ofTri (tv : Tri) : (Val.ofTri tv).truth = .ok tv := by cases tv <;> rfl

theorem truth_t_iff {c : Val} {a : Tri} (h : c.truth = .ok a) : a = .t ↔ c = .bool true := by
  cases c with
  | bool b => cases b <;> simp [Val.truth] at h <;> subst h <;> simp
  | null => simp [Val.truth] at h; subst h; simp
  | int i => simp [Val.truth] at h
  | flt q => simp [Val.truth] at h
  | text s => simp [Val.truth] at h

theorem truth_f_iff {c : Val} {a : Tri} (h : c.truth = .ok a) : a = .f ↔ c = .bool false := by
  cases c with
  | bool b => cases b <;> simp [Val.truth] at h <;> subst h <;> simp
  | null => simp [Val.truth] at h; subst h; simp
  | int i => simp [Val.truth] at h
  | flt q => simp [Val.truth] at h
  | text s => simp [Val.truth] at h

theorem or_eq_t (a b : Tri) : a.or b = .t ↔ a = .t ∨ b = .t := by
  cases a <;> cases b <;> simp [Tri.or]

theorem or_eq_f (a b : Tri) : a.or b = .f ↔ a = .f ∧ b = .f := by
  cases a <;> cases b <;> simp [Tri.or]

theorem not_eq_t (a : Tri) : a.not = .t ↔ a = .f := by cases a <;> simp [Tri.not]

/-- inversion of one step of the IN fold -/
theorem inFold_cons_ok {x v : Val} {vs : List Val} {tv : Tri} (h : inFold x (v :: vs) = .ok tv) :
    ∃ c a b, cmpVals .eq x v = .ok c ∧ c.truth = .ok a ∧ inFold x vs = .ok b ∧ tv = a.or b := by
  simp only [inFold] at h
  split at h
  · cases h
  · rename_i c hc
    split at h
    · rename_i a b ha hb
      injection h with h
      exact ⟨c, a, b, hc, ha, hb, h.symm⟩
    · cases h
    · cases h

/-- inversion of `x [NOT] IN (subquery)` -/
theorem inSub_ok {rec : Row → SExpr → Except Err Val} {db : Db} {env : Row} {e : SExpr}
    {q : SQuery} {neg : Bool} {x w : Val} {vs : List Val}
    (he : rec env e = .ok x) (hq : subVals rec db env q = .ok vs)
    (h : evalStep rec db env (.inSub e q neg) = .ok w) :
    ∃ tv, inFold x vs = .ok tv ∧ w = Val.ofTri (if neg then tv.not else tv) := by
  simp only [evalStep, he, hq] at h
  split at h
  · cases h
  · rename_i tv htv
    injection h with h
    exact ⟨tv, htv, h.symm⟩

/-- decidable equality of results (for `decide` on concrete witnesses) -/
instance instDecEqExcept {ε α : Type} [DecidableEq ε] [DecidableEq α] : DecidableEq (Except ε α) :=
  fun a b =>
  match a, b with
  | .ok x, .ok y =>
    if h : x = y then isTrue (by rw [h]) else isFalse (by intro h'; injection h' with h'; exact h h')
  | .error x, .error y =>
    if h : x = y then isTrue (by rw [h]) else isFalse (by intro h'; injection h' with h'; exact h h')
  | .ok _, .error _ => isFalse (by intro h; cases h)
  | .error _, .ok _ => isFalse (by intro h; cases h)

/-- inversion of one step of the environment filter -/
theorem filterEnv_cons_ok {ev : Row → Except Err Val} {env r : Row} {rs kept : List Row}
    (h : filterEnv ev env (r :: rs) = .ok kept) :
    ∃ v tv out, ev (r ++ env) = .ok v ∧ v.truth = .ok tv ∧ filterEnv ev env rs = .ok out ∧
      kept = if tv.isTrue then r :: out else out := by
  simp only [filterEnv] at h
  split at h
  · rename_i v out hv hout
    split at h
    · rename_i tv htv
      injection h with h
      exact ⟨v, tv, out, hv, htv, hout, h.symm⟩
    · cases h
  · cases h
  · cases h

theorem isTrue_iff (tv : Tri) : tv.isTrue = true ↔ tv = .t := by cases tv <;> simp [Tri.isTrue]

/-- `mapEnv` yields one value per row -/
theorem mapEnv_length {ev : Row → Except Err Val} {env : Row} {rows : List Row} {vs : List Val}
    (h : mapEnv ev env rows = .ok vs) : vs.length = rows.length := by
  induction rows generalizing vs with
  | nil => simp [mapEnv] at h; subst h; rfl
  | cons r rs ih =>
    simp only [mapEnv] at h
    split at h
    · rename_i v out hv hout
      injection h with h; subst h
      simp [ih hout]
    · cases h
    · cases h

/-- the tables of the NOT IN / anti-join witness -/
def dbA : Db :=
  [{ name := "t", ncols := 1, rows := [[.int 1]] },
   { name := "u", ncols := 1, rows := [[.null], [.int 2]] }]
/-- `SELECT a FROM t WHERE a NOT IN (SELECT a FROM u)` -/
def qNotIn : STop :=
  { frm := .table "t",
    whr := .inSub (.base (.col 0)) (.sel "u" (.base (.lit (.bool true))) (.expr (.base (.col 0)))) true,
    items := [.base (.col 0)] }
/-- `SELECT a FROM t WHERE NOT EXISTS (SELECT a FROM u WHERE u.a = t.a)` -/
def qAnti : STop :=
  { frm := .table "t",
    whr := .exists (.sel "u" (.base (.bin .eq (.col 0) (.col 1))) (.expr (.base (.col 0)))) true,
    items := [.base (.col 0)] }

/-- tables of the correlated scalar subquery example: `t(a)`, `u(a, b)`; `t.a = 1` has no
partner in `u`, `t.a = 2` exactly one, `t.a = 3` two -/
def dbC : Db :=
  [{ name := "t", ncols := 1, rows := [[.int 1], [.int 2], [.int 3]] },
   { name := "u", ncols := 2, rows := [[.int 2, .int 20], [.int 3, .int 30], [.int 3, .int 31]] }]
/-- `SELECT (SELECT u.b FROM u WHERE u.a = t.a) FROM t WHERE t.a = k`; inside the subquery
`col 0 = u.a`, `col 1 = u.b`, `col 2 = t.a` -/
def qCorr (k : Int) : STop :=
  { frm := .table "t",
    whr := .base (.bin .eq (.col 0) (.lit (.int k))),
    items := [.scalar (.sel "u" (.base (.bin .eq (.col 0) (.col 2))) (.expr (.base (.col 1))))] }

/-! ### set operations: sameness through a normal form -/

/-- normal form for row sameness: INT is cast to DOUBLE (`Rat`) -/
def norm : Val → Val
  | .int i => .flt (i : Rat)
  | v => v

/-- two values are the same iff their normal forms are equal -/
theorem same_iff_norm (a b : Val) : Val.same a b = true ↔ norm a = norm b := by
  cases a <;> cases b <;> simp [Val.same, norm, Rat.intCast_inj]

theorem rowSame_iff_norm (a b : Row) : rowSame a b = true ↔ a.map norm = b.map norm := by
  induction a generalizing b with
  | nil => cases b <;> simp [rowSame]
  | cons x xs ih => cases b <;> simp [rowSame, same_iff_norm, ih]

theorem memRow_iff (r : Row) (l : List Row) : memRow r l = true ↔ ∃ y ∈ l, rowSame r y = true := by
  simp [memRow, List.any_eq_true]

/-- membership up to sameness respects sameness -/
theorem memRow_congr {r s : Row} (h : rowSame r s = true) (l : List Row) :
    memRow r l = memRow s l := by
  rw [Bool.eq_iff_iff, memRow_iff, memRow_iff]
  rw [rowSame_iff_norm] at h
  simp only [rowSame_iff_norm, h]

/-! ## property theorems -/

/-! ### A. IN / NOT IN -/

/-- IN is TRUE exactly when some comparison is TRUE -/
theorem inFold_true_iff {x : Val} {vs : List Val} {tv : Tri} (h : inFold x vs = .ok tv) :
    tv = .t ↔ ∃ v ∈ vs, cmpVals .eq x v = .ok (.bool true) := by
  induction vs generalizing tv with
  | nil => simp [inFold] at h; subst h; simp
  | cons v rest ih =>
    obtain ⟨c, a, b, hc, ha, hb, rfl⟩ := inFold_cons_ok h
    rw [or_eq_t, truth_t_iff ha, ih hb]
    constructor
    · rintro (rfl | ⟨y, hy, hcy⟩)
      · exact ⟨v, List.mem_cons_self, hc⟩
      · exact ⟨y, List.mem_cons_of_mem _ hy, hcy⟩
    · rintro ⟨y, hy, hcy⟩
      rcases List.mem_cons.mp hy with rfl | hy
      · left; rw [hc] at hcy; injection hcy
      · exact Or.inr ⟨y, hy, hcy⟩

/-- IN is FALSE exactly when every comparison is definitely FALSE -/
theorem inFold_false_iff {x : Val} {vs : List Val} {tv : Tri} (h : inFold x vs = .ok tv) :
    tv = .f ↔ ∀ v ∈ vs, cmpVals .eq x v = .ok (.bool false) := by
  induction vs generalizing tv with
  | nil => simp [inFold] at h; subst h; simp
  | cons v rest ih =>
    obtain ⟨c, a, b, hc, ha, hb, rfl⟩ := inFold_cons_ok h
    rw [or_eq_f, truth_f_iff ha, ih hb]
    constructor
    · rintro ⟨rfl, hall⟩ y hy
      rcases List.mem_cons.mp hy with rfl | hy
      · exact hc
      · exact hall y hy
    · intro hall
      refine ⟨?_, fun y hy => hall y (List.mem_cons_of_mem _ hy)⟩
      have := hall v List.mem_cons_self
      rw [hc] at this; injection this

/-- `x IN (subquery)` as a filter is a semi-join: the outer row is kept exactly when a
matching subquery value exists -/
theorem in_semi_join {rec : Row → SExpr → Except Err Val} {db : Db} {env : Row} {e : SExpr}
    {q : SQuery} {x w : Val} {vs : List Val}
    (he : rec env e = .ok x) (hq : subVals rec db env q = .ok vs)
    (h : evalStep rec db env (.inSub e q false) = .ok w) :
    w.truth = .ok .t ↔ ∃ v ∈ vs, cmpVals .eq x v = .ok (.bool true) := by
  obtain ⟨tv, htv, rfl⟩ := inSub_ok he hq h
  rw [← inFold_true_iff htv, truth_ofTri]
  simp

/-- NOT IN keeps a row iff every comparison is definitely FALSE -/
theorem not_in_keeps_iff {rec : Row → SExpr → Except Err Val} {db : Db} {env : Row} {e : SExpr}
    {q : SQuery} {x w : Val} {vs : List Val}
    (he : rec env e = .ok x) (hq : subVals rec db env q = .ok vs)
    (h : evalStep rec db env (.inSub e q true) = .ok w) :
    w.truth = .ok .t ↔ ∀ v ∈ vs, cmpVals .eq x v = .ok (.bool false) := by
  obtain ⟨tv, htv, rfl⟩ := inSub_ok he hq h
  rw [← inFold_false_iff htv, truth_ofTri]
  simp [not_eq_t]

/-- a NULL among the subquery's values: NOT IN keeps nothing -/
theorem not_in_null_never_true {rec : Row → SExpr → Except Err Val} {db : Db} {env : Row}
    {e : SExpr} {q : SQuery} {x w : Val} {vs : List Val}
    (he : rec env e = .ok x) (hq : subVals rec db env q = .ok vs) (hnull : Val.null ∈ vs)
    (h : evalStep rec db env (.inSub e q true) = .ok w) : w.truth ≠ .ok .t := by
  obtain ⟨tv, htv, rfl⟩ := inSub_ok he hq h
  have := C14.in_list_with_null_not_false x vs tv hnull htv
  rw [truth_ofTri]
  simpa [not_eq_t] using this

/-- empty subquery: NOT IN is TRUE, even for a NULL left-hand side -/
theorem not_in_empty_true {rec : Row → SExpr → Except Err Val} {db : Db} {env : Row}
    {e : SExpr} {q : SQuery} {x : Val}
    (hq : subVals rec db env q = .ok []) (he : rec env e = .ok x) :
    evalStep rec db env (.inSub e q true) = .ok (.bool true) := by
  simp [evalStep, he, hq, inFold, Tri.not, Val.ofTri]

/-- the plain anti-join (`NOT EXISTS` with an equality) is NOT equivalent to `NOT IN` when the
subquery yields a NULL: NOT IN keeps nothing, the anti-join keeps the row -/
theorem not_in_null_aware_anti_join :
    runTop 8 dbA qNotIn = .ok [] ∧ runTop 8 dbA qAnti = .ok [[.int 1]] := by decide

/-! ### B. EXISTS -/

/-- the environment filter keeps exactly the rows whose predicate is TRUE under `r ++ env` -/
theorem filterEnv_mem_iff {ev : Row → Except Err Val} {env : Row} {rows kept : List Row} {r : Row}
    (h : filterEnv ev env rows = .ok kept) :
    r ∈ kept ↔ r ∈ rows ∧ ∃ v, ev (r ++ env) = .ok v ∧ v.truth = .ok .t := by
  induction rows generalizing kept with
  | nil => simp [filterEnv] at h; subst h; simp
  | cons x xs ih =>
    obtain ⟨v, tv, out, hv, htv, hout, rfl⟩ := filterEnv_cons_ok h
    have ih' := ih hout
    by_cases ht : tv = .t
    · subst ht
      simp only [Tri.isTrue, if_true, List.mem_cons]
      constructor
      · rintro (rfl | hm)
        · exact ⟨Or.inl rfl, v, hv, htv⟩
        · exact ⟨Or.inr (ih'.mp hm).1, (ih'.mp hm).2⟩
      · rintro ⟨rfl | hm, hk⟩
        · exact Or.inl rfl
        · exact Or.inr (ih'.mpr ⟨hm, hk⟩)
    · have hf : tv.isTrue = false := by cases tv <;> simp_all [Tri.isTrue]
      simp only [hf, Bool.false_eq_true, if_false, List.mem_cons]
      constructor
      · intro hm; exact ⟨Or.inr (ih'.mp hm).1, (ih'.mp hm).2⟩
      · rintro ⟨rfl | hm, hk⟩
        · obtain ⟨v', hv', htv'⟩ := hk
          rw [hv] at hv'; injection hv' with hv'; subst hv'
          rw [htv] at htv'; injection htv' with htv'
          exact absurd htv' ht
        · exact ih'.mpr ⟨hm, hk⟩

/-- the environment filter returns a sublist (order and multiplicities preserved) -/
theorem filterEnv_sublist {ev : Row → Except Err Val} {env : Row} {rows kept : List Row}
    (h : filterEnv ev env rows = .ok kept) : kept.Sublist rows := by
  induction rows generalizing kept with
  | nil => simp [filterEnv] at h; subst h; exact List.Sublist.slnil
  | cons x xs ih =>
    obtain ⟨v, tv, out, hv, htv, hout, rfl⟩ := filterEnv_cons_ok h
    cases htt : tv.isTrue
    · simpa using (ih hout).cons x
    · simpa using (ih hout).cons_cons x

/-- EXISTS is TRUE exactly when some inner row satisfies the (correlated) WHERE under the outer
environment, and it is two-valued -/
theorem exists_semi {rec : Row → SExpr → Except Err Val} {db : Db} {env : Row} {tbl : String}
    {t : Table} {whr e : SExpr} {kept : List Row} {vs : List Val} {neg : Bool}
    (hfind : db.find tbl = some t)
    (hkept : filterEnv (fun r => rec r whr) env t.rows = .ok kept)
    (hq : subVals rec db env (.sel tbl whr (.expr e)) = .ok vs) :
    evalStep rec db env (.exists (.sel tbl whr (.expr e)) neg) = .ok (.bool ((!kept.isEmpty) != neg)) := by
  have hlen : vs.length = kept.length := by
    simp only [subVals, hfind, hkept] at hq
    exact mapEnv_length hq
  have : vs.isEmpty = kept.isEmpty := by
    cases vs <;> cases kept <;> simp_all
  simp [evalStep, hq, this]

theorem exists_two_valued {rec : Row → SExpr → Except Err Val} {db : Db} {env : Row} {q : SQuery}
    {neg : Bool} {w : Val} (h : evalStep rec db env (.exists q neg) = .ok w) :
    w = .bool true ∨ w = .bool false := by
  simp only [evalStep] at h
  split at h
  · cases h
  · injection h with h; subst h
    cases (!(_ : List Val).isEmpty) != neg <;> simp

/-- an aggregate subquery always has one row, so EXISTS over it is always TRUE -/
theorem exists_countstar_always_true {rec : Row → SExpr → Except Err Val} {db : Db} {env : Row}
    {tbl : String} {t : Table} {whr : SExpr} {kept : List Row}
    (hfind : db.find tbl = some t)
    (hkept : filterEnv (fun r => rec r whr) env t.rows = .ok kept) :
    evalStep rec db env (.exists (.sel tbl whr .countStar) false) = .ok (.bool true) := by
  simp [evalStep, subVals, hfind, hkept]

/-! ### C. scalar subquery totality -/

theorem scalar_zero_rows {rec : Row → SExpr → Except Err Val} {db : Db} {env : Row} {q : SQuery}
    (hq : subVals rec db env q = .ok []) : evalStep rec db env (.scalar q) = .ok .null := by
  simp [evalStep, hq, scalarOf]

theorem scalar_one_row {rec : Row → SExpr → Except Err Val} {db : Db} {env : Row} {q : SQuery}
    {v : Val} (hq : subVals rec db env q = .ok [v]) :
    evalStep rec db env (.scalar q) = .ok v := by
  simp [evalStep, hq, scalarOf]

theorem scalar_many_rows {rec : Row → SExpr → Except Err Val} {db : Db} {env : Row} {q : SQuery}
    {v₁ v₂ : Val} {vs : List Val} (hq : subVals rec db env q = .ok (v₁ :: v₂ :: vs)) :
    evalStep rec db env (.scalar q) = .error .card := by
  simp [evalStep, hq, scalarOf]

/-- a scalar subquery is total on the row count: 0 rows NULL, 1 row its value, else `card` -/
theorem scalar_total {rec : Row → SExpr → Except Err Val} {db : Db} {env : Row} {q : SQuery}
    {vs : List Val} (hq : subVals rec db env q = .ok vs) :
    (evalStep rec db env (.scalar q) = .ok .null ∧ vs = []) ∨
    (∃ v, vs = [v] ∧ evalStep rec db env (.scalar q) = .ok v) ∨
    (2 ≤ vs.length ∧ evalStep rec db env (.scalar q) = .error .card) := by
  match vs, hq with
  | [], hq => exact Or.inl ⟨scalar_zero_rows hq, rfl⟩
  | [v], hq => exact Or.inr (Or.inl ⟨v, rfl, scalar_one_row hq⟩)
  | v₁ :: v₂ :: rest, hq =>
    exact Or.inr (Or.inr ⟨by simp, scalar_many_rows hq⟩)

/-- an aggregate subquery yields exactly one row (so as a scalar subquery it never raises `card`) -/
theorem agg_subquery_one_row {rec : Row → SExpr → Except Err Val} {db : Db} {env : Row}
    {tbl : String} {whr e : SExpr} {fn : AggFn} {vs : List Val}
    (h : subVals rec db env (.sel tbl whr (.agg fn e)) = .ok vs) : vs.length = 1 := by
  simp only [subVals] at h
  split at h
  · cases h
  · split at h
    · cases h
    · split at h
      · cases h
      · split at h
        · cases h
        · injection h with h; subst h; rfl

theorem countStar_subquery_one_row {rec : Row → SExpr → Except Err Val} {db : Db} {env : Row}
    {tbl : String} {whr : SExpr} {vs : List Val}
    (h : subVals rec db env (.sel tbl whr .countStar) = .ok vs) : vs.length = 1 := by
  simp only [subVals] at h
  split at h
  · cases h
  · split at h
    · cases h
    · injection h with h; subst h; rfl

/-- a scalar aggregate subquery never raises `card` -/
theorem scalar_agg_no_card {rec : Row → SExpr → Except Err Val} {db : Db} {env : Row}
    {tbl : String} {whr e : SExpr} {fn : AggFn} {vs : List Val}
    (h : subVals rec db env (.sel tbl whr (.agg fn e)) = .ok vs) :
    ∃ v, vs = [v] ∧ evalStep rec db env (.scalar (.sel tbl whr (.agg fn e))) = .ok v := by
  have hl := agg_subquery_one_row h
  match vs, hl, h with
  | [v], _, h => exact ⟨v, rfl, scalar_one_row h⟩

/-- COUNT(*) over no qualifying rows is one row holding 0 -/
theorem count_star_empty {rec : Row → SExpr → Except Err Val} {db : Db} {env : Row}
    {tbl : String} {t : Table} {whr : SExpr}
    (hfind : db.find tbl = some t)
    (hkept : filterEnv (fun r => rec r whr) env t.rows = .ok []) :
    subVals rec db env (.sel tbl whr .countStar) = .ok [.int 0] := by
  simp [subVals, hfind, hkept]

/-! ### D. correlation / depth -/

theorem evalS_succ (n : Nat) (db : Db) (env : Row) (e : SExpr) :
    evalS (n + 1) db env e = evalStep (evalS n db) db env e := rfl

/-- fuel exhaustion is the error `other`, never a value -/
theorem evalS_zero (db : Db) (env : Row) (e : SExpr) : evalS 0 db env e = .error .other := rfl

/-- outer row without partner: the correlated scalar subquery is NULL -/
theorem correlated_scalar_none : runTop 8 dbC (qCorr 1) = .ok [[.null]] := by decide

/-- exactly one partner: its value -/
theorem correlated_scalar_one : runTop 8 dbC (qCorr 2) = .ok [[.int 20]] := by decide

/-- two partners: error `card` -/
theorem correlated_scalar_many : runTop 8 dbC (qCorr 3) = .error .card := by decide

/-! ### E. set operations -/

/-- `Val.same` (INT and DOUBLE compared by value) is an equivalence relation -/
theorem same_refl (a : Val) : Val.same a a = true := (same_iff_norm a a).mpr rfl
theorem same_symm (a b : Val) : Val.same a b = Val.same b a := by
  rw [Bool.eq_iff_iff, same_iff_norm, same_iff_norm]; exact eq_comm
theorem same_trans {a b c : Val} (h1 : Val.same a b = true) (h2 : Val.same b c = true) :
    Val.same a c = true := by
  rw [same_iff_norm] at *; exact h1.trans h2

/-- row sameness is an equivalence relation -/
theorem rowSame_refl (a : Row) : rowSame a a = true := (rowSame_iff_norm a a).mpr rfl
theorem rowSame_symm (a b : Row) : rowSame a b = rowSame b a := by
  rw [Bool.eq_iff_iff, rowSame_iff_norm, rowSame_iff_norm]; exact eq_comm
theorem rowSame_trans {a b c : Row} (h1 : rowSame a b = true) (h2 : rowSame b c = true) :
    rowSame a c = true := by
  rw [rowSame_iff_norm] at *; exact h1.trans h2

/-- UNION is DISTINCT over UNION ALL -/
theorem union_eq_distinct_unionAll (a b : List Row) : union a b = distinct (unionAll a b) := rfl

/-- DISTINCT preserves membership up to sameness -/
theorem memRow_distinct (r : Row) (l : List Row) : memRow r (distinct l) = memRow r l := by
  induction l with
  | nil => rfl
  | cons x xs ih =>
    rw [Bool.eq_iff_iff, memRow_iff, memRow_iff]
    have ih' : (∃ y ∈ distinct xs, rowSame r y = true) ↔ ∃ y ∈ xs, rowSame r y = true := by
      rw [← memRow_iff, ← memRow_iff, ih]
    simp only [distinct, List.mem_cons, List.mem_filter]
    constructor
    · rintro ⟨y, rfl | ⟨hy, _⟩, hry⟩
      · exact ⟨y, Or.inl rfl, hry⟩
      · obtain ⟨z, hz, hrz⟩ := ih'.mp ⟨y, hy, hry⟩
        exact ⟨z, Or.inr hz, hrz⟩
    · rintro ⟨y, rfl | hy, hry⟩
      · exact ⟨y, Or.inl rfl, hry⟩
      · by_cases hrx : rowSame r x = true
        · exact ⟨x, Or.inl rfl, hrx⟩
        · obtain ⟨z, hz, hrz⟩ := ih'.mpr ⟨y, hy, hry⟩
          refine ⟨z, Or.inr ⟨hz, ?_⟩, hrz⟩
          cases hxz : rowSame x z
          · rfl
          · exfalso; apply hrx
            exact rowSame_trans hrz (by rw [rowSame_symm]; exact hxz)

/-- DISTINCT leaves no two rows that are the same -/
theorem distinct_pairwise (l : List Row) :
    (distinct l).Pairwise (fun x y => rowSame x y = false) := by
  induction l with
  | nil => exact List.Pairwise.nil
  | cons x xs ih =>
    simp only [distinct]
    refine List.Pairwise.cons ?_ (ih.sublist List.filter_sublist)
    intro y hy
    have := (List.mem_filter.mp hy).2
    simpa using this

theorem union_nodup (a b : List Row) :
    (union a b).Pairwise (fun x y => rowSame x y = false) := distinct_pairwise _
theorem intersect_nodup (a b : List Row) :
    (intersect a b).Pairwise (fun x y => rowSame x y = false) := distinct_pairwise _
theorem except_nodup (a b : List Row) :
    (except a b).Pairwise (fun x y => rowSame x y = false) := distinct_pairwise _

/-- set-operation membership laws (membership up to row sameness) -/
theorem mem_union_iff (r : Row) (a b : List Row) :
    memRow r (union a b) = (memRow r a || memRow r b) := by
  unfold union
  rw [memRow_distinct]
  simp [memRow, List.any_append]

theorem mem_intersect_iff (r : Row) (a b : List Row) :
    memRow r (intersect a b) = (memRow r a && memRow r b) := by
  unfold intersect
  rw [memRow_distinct, Bool.eq_iff_iff, Bool.and_eq_true, memRow_iff, memRow_iff]
  simp only [List.mem_filter]
  constructor
  · rintro ⟨y, ⟨hy, hyb⟩, hry⟩
    exact ⟨⟨y, hy, hry⟩, by rw [memRow_congr hry]; exact hyb⟩
  · rintro ⟨⟨y, hy, hry⟩, hrb⟩
    exact ⟨y, ⟨hy, by rw [← memRow_congr hry]; exact hrb⟩, hry⟩

theorem mem_except_iff (r : Row) (a b : List Row) :
    memRow r (except a b) = (memRow r a && !memRow r b) := by
  unfold except
  rw [memRow_distinct, Bool.eq_iff_iff, Bool.and_eq_true, memRow_iff, memRow_iff]
  simp only [List.mem_filter]
  constructor
  · rintro ⟨y, ⟨hy, hyb⟩, hry⟩
    exact ⟨⟨y, hy, hry⟩, by rw [memRow_congr hry]; exact hyb⟩
  · rintro ⟨⟨y, hy, hry⟩, hrb⟩
    exact ⟨y, ⟨hy, by rw [← memRow_congr hry]; exact hrb⟩, hry⟩

/-- UNION ALL keeps every row of both inputs (bag semantics) -/
theorem unionAll_count (a b : List Row) : (unionAll a b).length = a.length + b.length :=
  List.length_append

theorem unionAll_perm_comm (a b : List Row) : (unionAll a b).Perm (unionAll b a) :=
  List.perm_append_comm

/-- NULLs are not distinct from each other in set operations -/
theorem null_rows_not_distinct :
    distinct [[.null], [.null]] = [[.null]] ∧ intersect [[.null]] [[.null]] = [[.null]] := by
  decide

end TurVerif.C18
