import TurVerif.Model.SqlRewrite
import TurVerif.Props.C14
/-!
C19  Equivalent query formulations return identical results.

The laws are proved over an ARBITRARY row type and an ARBITRARY three-valued row predicate
(`TurVerif.SqlRewrite`), so they hold for every expression language with a 3VL truth value,
including the dialect features the reference evaluator does not define.  The Kleene laws used
(`and_comm`, `or_comm`, `and_true`, `not_not`) are the ones proved in `Props/C14`.
The last section instantiates the laws for the reference evaluator `TurVerif.Sql` (BETWEEN / IN
rewrites and the nested-loop join of `Model/Sql.lean`).

The executor / optimizer is not modelled: it is tied to these laws by the metamorphic engine
`sql_rewrite` (each generated query and its rewrites must return the same bag on the engine, on a
table without and on a table with primary key + secondary index).
-/
namespace TurVerif.C19
open TurVerif.Sql TurVerif.SqlRewrite

/-! ### helper lemmas -/
theorem or_false (a : Tri) : a.or .f = a := by cases a <;> rfl

theorem filterT_congr {α : Type} (p q : α → Tri) (rows : List α)
    (h : ∀ r ∈ rows, (p r).isTrue = (q r).isTrue) : filterT p rows = filterT q rows := by
  unfold filterT
  apply List.filter_congr
  intro r hr
  exact h r hr

theorem flatMap_nil_fn {α β : Type} (rs : List α) : rs.flatMap (fun _ => ([] : List β)) = [] := by
  induction rs with
  | nil => rfl
  | cons r rs ih => simp [List.flatMap_cons, ih]

theorem flatMap_cons_perm {α β : Type} (g : α → β) (h : α → List β) (rs : List α) :
    (rs.flatMap (fun r => g r :: h r)).Perm (rs.map g ++ rs.flatMap h) := by
  induction rs with
  | nil => simp
  | cons r rs ih =>
    simp only [List.flatMap_cons, List.map_cons, List.cons_append]
    refine List.Perm.cons _ ?_
    -- h r ++ rest  ~  map g rs ++ (h r ++ flatMap h rs)
    have h1 : (h r ++ rs.flatMap (fun r => g r :: h r)).Perm (h r ++ (rs.map g ++ rs.flatMap h)) :=
      List.Perm.append_left _ ih
    refine h1.trans ?_
    rw [← List.append_assoc, ← List.append_assoc]
    exact List.Perm.append_right _ List.perm_append_comm

/-- nested iteration in either order enumerates the same bag of pairs -/
theorem flatMap_comm_perm {α β γ : Type} (f : α → β → γ) (ls : List α) (rs : List β) :
    (ls.flatMap (fun l => rs.map (fun r => f l r))).Perm
      (rs.flatMap (fun r => ls.map (fun l => f l r))) := by
  induction ls with
  | nil => simp [flatMap_nil_fn]
  | cons l ls ih =>
    simp only [List.flatMap_cons, List.map_cons]
    exact (List.Perm.append_left _ ih).trans (flatMap_cons_perm _ _ rs).symm

theorem flatMap_congr' {α β : Type} (l : List α) (f g : α → List β) (h : ∀ a ∈ l, f a = g a) :
    l.flatMap f = l.flatMap g := by
  induction l with
  | nil => rfl
  | cons a l ih =>
    simp only [List.flatMap_cons]
    rw [h a (by simp), ih (fun b hb => h b (by simp [hb]))]

theorem cmpVals_truth (op : BinOp) (a b x : Val) (h : cmpVals op a b = .ok x) :
    ∃ tv, x.truth = .ok tv := by
  unfold cmpVals at h
  split at h
  · cases h
  · injection h with h; subst h; exact ⟨.u, rfl⟩
  · injection h with h; subst h
    cases cmpHolds op _ <;> exact ⟨_, rfl⟩

theorem swapCols_append {β : Type} (r l : List β) : swapCols r.length (r ++ l) = l ++ r := by
  simp [swapCols]

/-! ## property theorems -/

/-- TLP, per row: exactly one of `p`, `NOT p`, `p IS NULL` is TRUE -/
theorem tlp_exactly_one {α : Type} (p : α → Tri) (r : α) :
    ((p r).isTrue && !(pNot p r).isTrue && !(pIsNull p r).isTrue) ||
    (!(p r).isTrue && (pNot p r).isTrue && !(pIsNull p r).isTrue) ||
    (!(p r).isTrue && !(pNot p r).isTrue && (pIsNull p r).isTrue) = true := by
  unfold pNot pIsNull
  cases p r <;> rfl

/-- TLP as a bag statement: the three partitions together are a permutation of the table -/
theorem tlp_partition_perm {α : Type} (p : α → Tri) (rows : List α) :
    (filterT p rows ++ filterT (pNot p) rows ++ filterT (pIsNull p) rows).Perm rows := by
  induction rows with
  | nil => simp [filterT]
  | cons x xs ih =>
    unfold filterT at ih ⊢
    simp only [List.filter_cons]
    cases h : p x
    · -- TRUE
      simp only [pNot, pIsNull, h, Tri.isTrue, Tri.not, if_true, Bool.false_eq_true, if_false,
        List.cons_append]
      exact List.Perm.cons x ih
    · -- FALSE
      simp only [pNot, pIsNull, h, Tri.isTrue, Tri.not, if_true, Bool.false_eq_true, if_false]
      rw [List.append_assoc, List.cons_append]
      refine List.perm_middle.trans (List.Perm.cons x ?_)
      rw [← List.append_assoc]; exact ih
    · -- UNKNOWN
      simp only [pNot, pIsNull, h, Tri.isTrue, Tri.not, if_true, Bool.false_eq_true, if_false]
      exact List.perm_middle.trans (List.Perm.cons x ih)

/-- TLP, counting form (multiplicity of every row is preserved) -/
theorem tlp_partition_count {α : Type} [DecidableEq α] (p : α → Tri) (rows : List α) (r : α) :
    (filterT p rows).count r + (filterT (pNot p) rows).count r + (filterT (pIsNull p) rows).count r
      = rows.count r := by
  have h := (tlp_partition_perm p rows).count_eq r
  simpa [List.count_append, Nat.add_assoc] using h

/-- the three partitions are pairwise disjoint as predicates -/
theorem tlp_disjoint {α : Type} (p : α → Tri) (r : α) :
    ¬ ((p r).isTrue = true ∧ (pNot p r).isTrue = true) ∧
    ¬ ((p r).isTrue = true ∧ (pIsNull p r).isTrue = true) ∧
    ¬ ((pNot p r).isTrue = true ∧ (pIsNull p r).isTrue = true) := by
  unfold pNot pIsNull
  cases p r <;> simp [Tri.isTrue, Tri.not]

/-- `WHERE p AND q` = `WHERE q AND p` (same rows in the same order, a fortiori the same bag) -/
theorem filter_and_comm {α : Type} (p q : α → Tri) (rows : List α) :
    filterT (pAnd p q) rows = filterT (pAnd q p) rows := by
  apply filterT_congr
  intro r _
  unfold pAnd
  rw [C14.and_comm]

theorem filter_or_comm {α : Type} (p q : α → Tri) (rows : List α) :
    filterT (pOr p q) rows = filterT (pOr q p) rows := by
  apply filterT_congr
  intro r _
  unfold pOr
  rw [C14.or_comm]

/-- `WHERE p AND TRUE` = `WHERE p` -/
theorem filter_and_true {α : Type} (p : α → Tri) (rows : List α) :
    filterT (pAnd p pTrue) rows = filterT p rows := by
  apply filterT_congr
  intro r _
  simp [pAnd, pTrue, C14.and_true]

/-- any conjunct that is TRUE on every row of the table can be added (`1 = 1`, `id = id` on a
NOT NULL column, …) -/
theorem filter_and_always_true {α : Type} (p q : α → Tri) (rows : List α)
    (hq : ∀ r ∈ rows, q r = .t) : filterT (pAnd p q) rows = filterT p rows := by
  apply filterT_congr
  intro r hr
  simp [pAnd, hq r hr, C14.and_true]

/-- `WHERE p OR FALSE` = `WHERE p` -/
theorem filter_or_false {α : Type} (p : α → Tri) (rows : List α) :
    filterT (pOr p pFalse) rows = filterT p rows := by
  apply filterT_congr
  intro r _
  simp [pOr, pFalse, or_false]

/-- `WHERE NOT NOT p` = `WHERE p` -/
theorem filter_not_not {α : Type} (p : α → Tri) (rows : List α) :
    filterT (pNot (pNot p)) rows = filterT p rows := by
  apply filterT_congr
  intro r _
  simp [pNot, C14.not_not]

/-- conjunction = filter after filter (predicate pushdown / splitting of conjuncts) -/
theorem filter_and_split {α : Type} (p q : α → Tri) (rows : List α) :
    filterT (pAnd p q) rows = filterT q (filterT p rows) := by
  unfold filterT pAnd
  rw [List.filter_filter]
  apply List.filter_congr
  intro r _
  cases p r <;> cases q r <;> rfl

/-- `FROM a, b` vs `FROM b, a`: the same bag up to the column swap -/
theorem cross_comm {β : Type} (ls rs : List (List β)) (wr : Nat)
    (hr : ∀ r ∈ rs, r.length = wr) :
    ((cross rs ls).map (swapCols wr)).Perm (cross ls rs) := by
  unfold cross
  rw [List.map_flatMap]
  have h1 : rs.flatMap (fun r => (ls.map (fun l => r ++ l)).map (swapCols wr)) =
      rs.flatMap (fun r => ls.map (fun l => l ++ r)) := by
    apply flatMap_congr'
    intro r hmem
    rw [List.map_map]
    apply List.map_congr_left
    intro l _
    have := swapCols_append r l
    rw [hr r hmem] at this
    exact this
  rw [h1]
  exact (flatMap_comm_perm (fun l r => l ++ r) ls rs).symm

/-- filtering commutes with a bijective renaming of the rows -/
theorem filter_map_comm {α β : Type} (g : α → β) (p : β → Tri) (rows : List α) :
    filterT p (rows.map g) = (filterT (fun r => p (g r)) rows).map g := by
  unfold filterT
  rw [List.filter_map]
  rfl

/-- `a JOIN b ON c` vs `b JOIN a ON c` (inner): the same bag up to the column swap; `on'` is
the same condition read through the swap -/
theorem inner_join_comm {β : Type} (on : List β → Tri) (ls rs : List (List β)) (wr : Nat)
    (hr : ∀ r ∈ rs, r.length = wr) :
    ((innerJoinT (fun row => on (swapCols wr row)) rs ls).map (swapCols wr)).Perm
      (innerJoinT on ls rs) := by
  unfold innerJoinT
  rw [← filter_map_comm (swapCols wr) on (cross rs ls)]
  unfold filterT
  exact (cross_comm ls rs wr hr).filter _

/-- select-item permutation: projecting the permuted item list = permuting the projected cells -/
theorem project_permute {α γ : Type} (items : List (α → γ)) (σ : List Nat) (d : γ)
    (rows : List α) (hσ : ∀ i ∈ σ, i < items.length) :
    project (σ.map (fun i => items.getD i (fun _ => d))) rows
      = (project items rows).map (permuteBy σ d) := by
  unfold project permuteBy
  rw [List.map_map]
  apply List.map_congr_left
  intro r _
  simp only [Function.comp, List.map_map]
  apply List.map_congr_left
  intro i hi
  have hlt := hσ i hi
  simp [List.getD_eq_getElem?_getD, List.getElem?_map, List.getElem?_eq_getElem hlt]

/-- a filter does not look at the select list: projection and filter commute -/
theorem project_filter {α γ : Type} (items : List (α → γ)) (p : α → Tri) (rows : List α) :
    project items (filterT p rows) = (rows.filter (fun r => (p r).isTrue)).map
      (fun r => items.map (fun f => f r)) := rfl

/-! ### instances for the reference evaluator `TurVerif.Sql` -/

/-- truth value of an expression as a row predicate (errors/type errors excluded by hypothesis in
the statements below) -/
def truthOf (e : Expr) : Row → Tri := fun r =>
  match eval r e with
  | .ok v => match v.truth with
    | .ok tv => tv
    | .error _ => .u
  | .error _ => .u

/-- `x BETWEEN a AND b` and `x >= a AND x <= b` are the same filter (C14.between_def lifted) -/
theorem between_rewrite (e lo hi : Expr) (r : Row) (v l h : Val)
    (he : eval r e = .ok v) (hl : eval r lo = .ok l) (hh : eval r hi = .ok h) :
    keeps (.between e lo hi false) r = keeps (.bin .and (.bin .ge e lo) (.bin .le e hi)) r := by
  unfold keeps
  rw [C14.between_def r e lo hi v l h he hl hh]

/-- `x IN (a, b)` and `x = a OR x = b` have the same value -/
theorem in_rewrite (e a b : Expr) (r : Row) (v va vb : Val)
    (he : eval r e = .ok v) (ha : eval r a = .ok va) (hb : eval r b = .ok vb) :
    eval r (.inList e [a, b] false) = eval r (.bin .or (.bin .eq e a) (.bin .eq e b)) := by
  simp only [eval, evalList, he, ha, hb, inFold]
  cases h1 : cmpVals .eq v va with
  | error x => cases h2 : cmpVals .eq v vb <;> simp
  | ok x =>
    obtain ⟨tx, hx⟩ := cmpVals_truth _ _ _ _ h1
    cases h2 : cmpVals .eq v vb with
    | error y => simp [hx]
    | ok y =>
      obtain ⟨ty, hy⟩ := cmpVals_truth _ _ _ _ h2
      simp [hx, hy, or_false]

/-- the nested-loop inner join of `Model/Sql.lean`, when it evaluates, is the generic
`innerJoinT` for the truth-value predicate of the ON expression -/
theorem matchesOf_eq (on : Expr) (l : Row) (rs out : List Row)
    (h : matchesOf on l rs = .ok out) :
    out = filterT (truthOf on) (rs.map (fun r => l ++ r)) := by
  induction rs generalizing out with
  | nil => simp [matchesOf] at h; subst h; rfl
  | cons r rs ih =>
    simp only [matchesOf] at h
    split at h
    · rename_i b o hb ho
      injection h with h; subst h
      have := ih o ho
      subst this
      unfold filterT
      simp only [List.map_cons, List.filter_cons]
      have hk : (truthOf on (l ++ r)).isTrue = b := by
        unfold keeps at hb
        unfold truthOf
        cases hv : eval (l ++ r) on with
        | error e => simp [hv] at hb
        | ok v =>
          cases ht : v.truth with
          | error e => simp [hv, ht] at hb
          | ok tv => simp [hv, ht] at hb; simp [ht, hb]
      rw [hk]
    · cases h
    · cases h

theorem innerJoin_eq (on : Expr) (ls rs out : List Row) (h : innerJoin on ls rs = .ok out) :
    out = innerJoinT (truthOf on) ls rs := by
  induction ls generalizing out with
  | nil => simp [innerJoin] at h; subst h; rfl
  | cons l ls ih =>
    simp only [innerJoin] at h
    split at h
    · rename_i a b ha hb
      injection h with h; subst h
      have h1 := matchesOf_eq on l rs a ha
      have h2 := ih b hb
      subst h1; subst h2
      unfold innerJoinT cross filterT
      simp [List.flatMap_cons, List.filter_append]
    · cases h
    · cases h

/-! ### non-vacuity -/
example :
    filterT (fun r : Nat => if r = 1 then Tri.t else if r = 2 then .f else .u) [1, 2, 3] = [1] ∧
    filterT (pNot (fun r : Nat => if r = 1 then Tri.t else if r = 2 then .f else .u)) [1, 2, 3] = [2] ∧
    filterT (pIsNull (fun r : Nat => if r = 1 then Tri.t else if r = 2 then .f else .u)) [1, 2, 3] = [3] := by
  decide

example : cross [[1], [2]] [[10, 11]] = [[1, 10, 11], [2, 10, 11]] ∧
    (cross [[10, 11]] [[1], [2]]).map (swapCols 2) = [[1, 10, 11], [2, 10, 11]] := by decide

end TurVerif.C19
