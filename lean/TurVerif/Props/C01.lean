import TurVerif.Model.Commit
import TurVerif.Lemmas.Commit
/-!
C01  Acknowledged writes survive a crash (page-level protocol model `TurVerif.Commit`).

What is proved: the WAL protocol — mutate pages in place, log the final image of every mutated page,
flush + fdatasync, then acknowledge — is *sufficient*: after a power loss at any event index the
redo recovery yields exactly the page state after the acknowledged statements, or that plus the whole
in-flight statement (`durable_power`); after a process kill every page the in-flight statement did
not touch carries its acknowledged image (`durable_kill_partial`).

What the pinned code does *not* do is follow that protocol for every page.  Each deviation below was
first reproduced on the real code by the `crash` engine (see known_findings.json) and is then shown,
on the same model, to break the conclusion:
* index pages are mutated in place and never logged            (`index_pages_unlogged_counterexample`)
* `Database::checkpoint` truncates the WAL without any msync   (`checkpoint_truncate_counterexample`)
* an UPDATE's TOAST pages are not logged while older frames of
  the same pages stay in the WAL and are redone over them      (`stale_redo_counterexample`)
-/
namespace TurVerif.C01
open TurVerif.Commit

/-! ### helper lemmas -/

structure PInv (s : State) (P : Pages) : Prop where
  buf : s.walBuf = []
  os : s.walOs = s.walDur
  rcv : redo s.dur s.walDur = P

theorem run_stmtTrace (ms : Stmt) (s : State) :
    run s (stmtTrace ms) = step (step (run s (mutEvents ms ++ framesOf ms)) Event.walSync) Event.ack := by
  rw [stmtTrace_eq, run_append]; rfl

/-- a complete statement re-establishes the invariant for the new logical state -/
theorem pinv_stmt (ms : Stmt) (s : State) (P : Pages) (h : PInv s P) :
    PInv (run s (stmtTrace ms)) (applyMuts P ms) := by
  obtain ⟨hb, hv, hd, ho, hw⟩ := run_body ms s
  rw [run_stmtTrace]
  constructor
  · simp [step]
  · simp [step]
  · simp only [step]
    rw [hd, ho, hb, h.buf, h.os, List.nil_append, redo_append, h.rcv, redo_framesList]

theorem ackCount_stmtTrace (ms : Stmt) : ackCount (stmtTrace ms) = 1 := by
  rw [stmtTrace_eq, ackCount_append, ackCount_quiet _ (quiet_body ms)]
  rfl

theorem foldl_take_succ (P : Pages) (ms : Stmt) (rest : List Stmt) (n : Nat) :
    ((ms :: rest).take (n + 1)).foldl applyMuts P = (rest.take n).foldl applyMuts (applyMuts P ms) := by
  simp [List.take_succ_cons]

/-- crash inside one statement -/
theorem power_within (ms : Stmt) (s : State) (P : Pages) (h : PInv s P) (pre a : List Event)
    (hp : stmtTrace ms = pre ++ a) :
    (redo (run s pre).dur (run s pre).walDur = P ∧ ackCount pre = 0) ∨
    (redo (run s pre).dur (run s pre).walDur = applyMuts P ms ∧ ackCount pre ≤ 1) := by
  rw [stmtTrace_eq] at hp
  rcases List.append_eq_append_iff.mp hp with ⟨x, hx, hxa⟩ | ⟨y, hy, _⟩
  · -- pre = body ++ x with x a prefix of [walSync, ack]
    obtain ⟨hb, hv, hd, ho, hw⟩ := run_body ms s
    rcases x with _ | ⟨e1, _ | ⟨e2, _ | ⟨e3, x⟩⟩⟩
    · left
      have hq : ∀ e ∈ pre, quiet e = true := fun e he => quiet_body ms e (by simpa [hx] using he)
      obtain ⟨h1, _, h3⟩ := run_quiet pre s hq
      exact ⟨by rw [h1, h3, h.rcv], ackCount_quiet _ hq⟩
    · right
      simp only [List.cons_append, List.nil_append, List.cons.injEq] at hxa
      obtain ⟨rfl, _⟩ := hxa
      subst hx
      refine ⟨?_, ?_⟩
      · rw [run_append]
        simp only [run_cons, run_nil, step]
        rw [hd, ho, hb, h.buf, h.os, List.nil_append, redo_append, h.rcv, redo_framesList]
      · rw [ackCount_append, ackCount_quiet _ (quiet_body ms)]; decide
    · right
      simp only [List.cons_append, List.nil_append, List.cons.injEq] at hxa
      obtain ⟨rfl, rfl, _⟩ := hxa
      subst hx
      refine ⟨?_, ?_⟩
      · have := pinv_stmt ms s P h
        rw [stmtTrace_eq] at this
        exact this.rcv
      · rw [ackCount_append, ackCount_quiet _ (quiet_body ms)]; decide
    · simp at hxa
  · -- pre is a prefix of the quiet body
    have hq : ∀ e ∈ pre, quiet e = true := fun e he => quiet_body ms e (by rw [hy]; simp [he])
    obtain ⟨h1, _, h3⟩ := run_quiet pre s hq
    left; exact ⟨by rw [h1, h3, h.rcv], ackCount_quiet _ hq⟩

theorem power_main : ∀ (stmts : List Stmt) (s : State) (P : Pages), PInv s P →
    ∀ (pre t : List Event), pre ++ t = protocolTrace stmts →
    redo (run s pre).dur (run s pre).walDur = (stmts.take (ackCount pre)).foldl applyMuts P ∨
    redo (run s pre).dur (run s pre).walDur = (stmts.take (ackCount pre + 1)).foldl applyMuts P := by
  intro stmts
  induction stmts with
  | nil =>
    intro s P h pre t hp
    simp only [protocolTrace, List.flatMap_nil, List.append_eq_nil_iff] at hp
    obtain ⟨rfl, _⟩ := hp
    left; simpa [run, ackCount] using h.rcv
  | cons ms rest ih =>
    intro s P h pre t hp
    simp only [protocolTrace, List.flatMap_cons] at hp
    rcases List.append_eq_append_iff.mp hp with ⟨a, ha, _⟩ | ⟨c, hc, hct⟩
    · rcases power_within ms s P h pre a ha with ⟨h1, h0⟩ | ⟨h1, hle⟩
      · left; rw [h0]; simpa using h1
      · have : ackCount pre = 0 ∨ ackCount pre = 1 := by omega
        rcases this with h0 | h0
        · right; rw [h0]; simpa using h1
        · left; rw [h0]; simpa using h1
    · subst hc
      have hinv := pinv_stmt ms s P h
      have := ih (run s (stmtTrace ms)) (applyMuts P ms) hinv c t (by simpa [protocolTrace] using hct.symm)
      rw [run_append, ackCount_append, ackCount_stmtTrace]
      rcases this with h1 | h1
      · left
        rw [h1, Nat.add_comm 1, foldl_take_succ]
      · right
        rw [h1, Nat.add_comm 1 (ackCount c), foldl_take_succ]

/-! #### kill model -/

structure KInv (s : State) (P : Pages) : Prop where
  buf : s.walBuf = []
  vol : s.vol = P
  fix : redo s.vol s.walOs = s.vol

theorem kinv_stmt (ms : Stmt) (s : State) (P : Pages) (h : KInv s P) :
    KInv (run s (stmtTrace ms)) (applyMuts P ms) := by
  obtain ⟨hb, hv, hd, ho, hw⟩ := run_body ms s
  rw [run_stmtTrace]
  constructor
  · simp [step]
  · simp only [step]; rw [hv, h.vol]
  · simp only [step]
    rw [hv, ho, hb, h.buf, List.nil_append, redo_append, redo_framesList]
    funext f p
    rw [applyMuts_apply, applyMuts_apply]
    split
    · rfl
    · rename_i ht
      have hu : applyMuts s.vol ms f p = s.vol f p := by rw [applyMuts_apply]; simp [ht]
      rw [redo_congr_at s.walOs _ s.vol f p hu, h.fix]

def avoids (f p : Nat) : Event → Bool
  | .mut f' p' _ => !(f' == f && p' == p)
  | .walWrite .. => true
  | _ => false

theorem run_vol_avoid (f p : Nat) (es : List Event) : ∀ (s : State), (∀ e ∈ es, avoids f p e = true) →
    (run s es).vol f p = s.vol f p := by
  induction es with
  | nil => intro s _; rfl
  | cons e es ih =>
    intro s h
    have he := h e (by simp)
    have hes : ∀ x ∈ es, avoids f p x = true := fun x hx => h x (by simp [hx])
    rw [run_cons, ih _ hes]
    cases e
    case «mut» f' p' v =>
      simp only [avoids, Bool.not_eq_true', Bool.and_eq_false_imp, beq_iff_eq, beq_eq_false_iff_ne] at he
      simp only [step, setPg_apply]
      have : ¬ (f = f' ∧ p = p') := fun ⟨a, b⟩ => he a.symm b.symm
      simp [this]
    case walWrite => rfl
    all_goals simp [avoids] at he

theorem body_avoids (ms : Stmt) (f p : Nat) (ht : touched ms f p = false) :
    ∀ e ∈ mutEvents ms ++ framesOf ms, avoids f p e = true := by
  intro e he
  simp only [List.mem_append, mutEvents, framesOf, List.mem_map] at he
  rcases he with ⟨m, hm, rfl⟩ | ⟨m, _, rfl⟩
  · simp only [touched, List.any_eq_false] at ht
    have := ht m hm
    simp only [avoids, Bool.not_eq_true']
    simpa using this
  · rfl

/-- kill inside one statement: pages the statement does not touch are recovered to their acked image -/
theorem kill_within (ms : Stmt) (s : State) (P : Pages) (h : KInv s P) (pre a : List Event)
    (hp : stmtTrace ms = pre ++ a) (f p : Nat) :
    (ackCount pre = 0 ∧ (touched ms f p = false →
        redo (run s pre).vol (run s pre).walOs f p = P f p)) ∨
    (ackCount pre = 1 ∧ pre = stmtTrace ms) := by
  have quietCase : ∀ (y : List Event), mutEvents ms ++ framesOf ms = pre ++ y →
      (ackCount pre = 0 ∧ (touched ms f p = false →
        redo (run s pre).vol (run s pre).walOs f p = P f p)) := by
    intro y hy
    have hmem : ∀ e ∈ pre, e ∈ mutEvents ms ++ framesOf ms := fun e he => by rw [hy]; simp [he]
    have hq : ∀ e ∈ pre, quiet e = true := fun e he => quiet_body ms e (hmem e he)
    obtain ⟨_, h2, _⟩ := run_quiet pre s hq
    refine ⟨ackCount_quiet _ hq, fun ht => ?_⟩
    have hv := run_vol_avoid f p pre s (fun e he => body_avoids ms f p ht e (hmem e he))
    rw [h2, redo_congr_at s.walOs _ s.vol f p hv, h.fix, h.vol]
  rw [stmtTrace_eq] at hp
  rcases List.append_eq_append_iff.mp hp with ⟨x, hx, hxa⟩ | ⟨y, hy, _⟩
  · rcases x with _ | ⟨e1, _ | ⟨e2, _ | ⟨e3, x⟩⟩⟩
    · left; exact quietCase [] (by simpa using hx.symm)
    · left
      simp only [List.cons_append, List.nil_append, List.cons.injEq] at hxa
      obtain ⟨rfl, _⟩ := hxa
      subst hx
      obtain ⟨hb, hv, hd, ho, hw⟩ := run_body ms s
      refine ⟨by rw [ackCount_append, ackCount_quiet _ (quiet_body ms)]; decide, fun ht => ?_⟩
      have hk := kinv_stmt ms s P h
      rw [run_stmtTrace] at hk
      have hfix := hk.fix
      have hvol := hk.vol
      simp only [step] at hfix hvol
      rw [run_append]
      simp only [run_cons, run_nil, step]
      rw [hfix, hvol, applyMuts_apply]
      simp [ht]
    · right
      simp only [List.cons_append, List.nil_append, List.cons.injEq] at hxa
      obtain ⟨rfl, rfl, _⟩ := hxa
      subst hx
      exact ⟨by rw [ackCount_append, ackCount_quiet _ (quiet_body ms)]; decide, by rw [stmtTrace_eq]⟩
    · simp at hxa
  · left; exact quietCase y hy

theorem kill_main : ∀ (stmts : List Stmt) (s : State) (P : Pages), KInv s P →
    ∀ (pre t : List Event), pre ++ t = protocolTrace stmts → ∀ (f p : Nat),
    (∀ ms, stmts[ackCount pre]? = some ms → touched ms f p = false) →
    redo (run s pre).vol (run s pre).walOs f p = (stmts.take (ackCount pre)).foldl applyMuts P f p := by
  intro stmts
  induction stmts with
  | nil =>
    intro s P h pre t hp f p _
    simp only [protocolTrace, List.flatMap_nil, List.append_eq_nil_iff] at hp
    obtain ⟨rfl, _⟩ := hp
    have hf := h.fix
    rw [h.vol] at hf
    simp [run, ackCount, h.vol, hf]
  | cons ms rest ih =>
    intro s P h pre t hp f p hun
    simp only [protocolTrace, List.flatMap_cons] at hp
    rcases List.append_eq_append_iff.mp hp with ⟨a, ha, _⟩ | ⟨c, hc, hct⟩
    · rcases kill_within ms s P h pre a ha f p with ⟨h0, hr⟩ | ⟨h1, hfull⟩
      · rw [h0] at hun ⊢
        have := hr (hun ms (by simp))
        simpa using this
      · have hk := kinv_stmt ms s P h
        rw [h1, hfull, hk.fix, hk.vol]
        simp
    · subst hc
      have hinv := kinv_stmt ms s P h
      rw [ackCount_append, ackCount_stmtTrace] at hun ⊢
      have := ih (run s (stmtTrace ms)) (applyMuts P ms) hinv c t (by simpa [protocolTrace] using hct.symm) f p
        (by
          intro ms' hms'
          apply hun ms'
          rw [Nat.add_comm 1, List.getElem?_cons_succ]
          exact hms')
      rw [run_append, this, Nat.add_comm 1, foldl_take_succ]

/-! ### property theorems -/

/-- redo is idempotent: recovering twice (e.g. a second crash during recovery) changes nothing -/
theorem redo_idempotent (pg : Pages) (w : List Frame) : redo (redo pg w) w = redo pg w := by
  have key : ∀ (w : List Frame) (a b : Pages),
      (∀ f p, (w.any (fun fr => fr.file == f && fr.page == p)) = false → a f p = b f p) →
      redo a w = redo b w := by
    intro w
    induction w with
    | nil =>
      intro a b h
      funext f p
      simpa [redo] using h f p (by simp)
    | cons fr w ih =>
      intro a b h
      rw [redo_cons, redo_cons]
      apply ih
      intro f p hw
      simp only [setPg_apply]
      split
      · rfl
      · rename_i hne
        apply h
        simp only [List.any_cons, hw, Bool.or_false]
        simp only [Bool.and_eq_false_imp, beq_iff_eq, beq_eq_false_iff_ne]
        intro h1 h2; exact hne ⟨h1.symm, h2.symm⟩
  -- pages with a frame get the last frame's image from either base; the others are untouched by redo
  have untouched : ∀ (w : List Frame) (a : Pages) (f p : Nat),
      (w.any (fun fr => fr.file == f && fr.page == p)) = false → redo a w f p = a f p := by
    intro w
    induction w with
    | nil => intro a f p _; rfl
    | cons fr w ih =>
      intro a f p h
      simp only [List.any_cons, Bool.or_eq_false_iff] at h
      rw [redo_cons, ih _ f p h.2, setPg_apply]
      have : ¬ (f = fr.file ∧ p = fr.page) := by
        intro ⟨h1, h2⟩
        have := h.1
        simp [h1, h2] at this
      simp [this]
  exact key w (redo pg w) pg (fun f p h => untouched w pg f p h)

/-- image of the newest frame of page `(f, p)` in the WAL, if any -/
def lastImg (w : List Frame) (f p : Nat) : Option Nat :=
  (w.reverse.find? (fun fr => fr.file == f && fr.page == p)).map (·.img)

/-- what recovery computes, page by page (last writer wins): a page with frames gets the image of
its NEWEST frame, a page without frames keeps its on-disk content -/
theorem redo_last_writer (w : List Frame) : ∀ (pg : Pages) (f p : Nat),
    redo pg w f p = (lastImg w f p).getD (pg f p) := by
  induction w with
  | nil => intro pg f p; rfl
  | cons fr w ih =>
    intro pg f p
    rw [redo_cons, ih]
    simp only [lastImg, List.reverse_cons, List.find?_append, List.find?_cons, List.find?_nil]
    cases h : w.reverse.find? (fun fr => fr.file == f && fr.page == p) with
    | some x => simp
    | none =>
      simp only [Option.map_none, Option.getD_none, Option.none_or, setPg_apply]
      by_cases hq : f = fr.file ∧ p = fr.page
      · simp [hq]
      · have : (fr.file == f && fr.page == p) = false := by
          simp only [Bool.and_eq_false_imp, beq_iff_eq, beq_eq_false_iff_ne]
          intro h1 h2; exact hq ⟨h1.symm, h2.symm⟩
        simp [hq, this]

example : redo Pages.empty [⟨1, 1, 7, false⟩, ⟨1, 2, 9, false⟩, ⟨1, 1, 8, false⟩] 1 1 = 8 := by
  rw [redo_last_writer]; decide

/-- C01, power-loss model, for every trace the WAL protocol produces and every crash index: recovery
yields the page state after the acknowledged statements, or that plus the complete in-flight one. -/
theorem durable_power (stmts : List Stmt) (k : Nat) :
    recover (crashPower (protocolTrace stmts) k) = pagesAfter (stmts.take (acked (protocolTrace stmts) k)) ∨
    recover (crashPower (protocolTrace stmts) k) = pagesAfter (stmts.take (acked (protocolTrace stmts) k + 1)) := by
  have hinit : PInv ({} : State) Pages.empty := ⟨rfl, rfl, rfl⟩
  have := power_main stmts {} Pages.empty hinit ((protocolTrace stmts).take k) ((protocolTrace stmts).drop k)
    (List.take_append_drop k _)
  simpa [recover, crashPower, pagesAfter, acked, ackCount] using this

/-- in particular: once acknowledged, a statement's page images are never lost by a later power loss -/
theorem durable_power_quiescent (stmts : List Stmt) :
    recover (crashPower (protocolTrace stmts) (protocolTrace stmts).length) = pagesAfter stmts := by
  have hinit : PInv ({} : State) Pages.empty := ⟨rfl, rfl, rfl⟩
  have h : ∀ (stmts : List Stmt) (s : State) (P : Pages), PInv s P →
      PInv (run s (protocolTrace stmts)) (stmts.foldl applyMuts P) := by
    intro stmts
    induction stmts with
    | nil => intro s P h; simpa [protocolTrace, run] using h
    | cons ms rest ih =>
      intro s P h
      simp only [protocolTrace, List.flatMap_cons, run_append, List.foldl_cons]
      exact ih _ _ (pinv_stmt ms s P h)
  have := (h stmts {} Pages.empty hinit).rcv
  simpa [recover, crashPower, pagesAfter] using this

/-- non-vacuity: a two-statement trace, crash after the first acknowledgement -/
example : recover (crashPower (protocolTrace [[⟨1, 1, 7⟩], [⟨1, 1, 8⟩, ⟨1, 2, 9⟩]]) 4) 1 1 = 7 := by decide

/-- C01, kill model, for every protocol trace and crash index: every page that the in-flight
statement (the one after the acknowledged prefix) does not touch is recovered to the image the
acknowledged statements gave it.  (Pages of the in-flight statement itself may keep a partial,
uncommitted image — there are no before-images; see `C02.kill_atomicity_counterexample`.) -/
theorem durable_kill_partial (stmts : List Stmt) (k : Nat) (f p : Nat)
    (hun : ∀ ms, stmts[acked (protocolTrace stmts) k]? = some ms → touched ms f p = false) :
    recover (crashKill (protocolTrace stmts) k) f p =
      pagesAfter (stmts.take (acked (protocolTrace stmts) k)) f p := by
  have hinit : KInv ({} : State) Pages.empty := ⟨rfl, rfl, rfl⟩
  have := kill_main stmts {} Pages.empty hinit ((protocolTrace stmts).take k) ((protocolTrace stmts).drop k)
    (List.take_append_drop k _) f p (by simpa [acked, ackCount] using hun)
  simpa [recover, crashKill, pagesAfter, acked, ackCount] using this

/-- non-vacuity of the hypothesis: statement 2 in flight, page (1,1) belongs to statement 1 only -/
example : recover (crashKill (protocolTrace [[⟨1, 1, 7⟩], [⟨1, 2, 9⟩]]) 5) 1 1 = 7 := by decide

/-! ### deviations of the pinned code from the protocol (each reproduced on the real code first) -/

/-- Index (`.idx`) pages are written in place but never logged and never synced at commit
(finding C02-index-bypass / C01: `crash:power:dml-pk:ack:index-disagrees`).  Trace of
`INSERT` into a table (file 1) with a primary-key index (file 2): after the acknowledgement a power
loss leaves the index page at its old image although the table page is recovered. -/
theorem index_pages_unlogged_counterexample :
    let es := [Event.mut 1 1 10, Event.mut 2 1 20, Event.walWrite 1 1 10, Event.walSync, Event.ack]
    recover (crashPower es 5) 1 1 = 10 ∧ recover (crashPower es 5) 2 1 ≠ 20 := by decide

/-- `Database::checkpoint` (lifecycle.rs) calls `wal.truncate()` without msync of the table files
(finding `crash:power:ckpt:wal_truncate:acked-lost`): the acknowledged image exists only in the
page cache and in the WAL, and the WAL is cut. -/
theorem checkpoint_truncate_counterexample :
    let es := [Event.mut 1 1 10, Event.walWrite 1 1 10, Event.walSync, Event.ack, Event.truncate, Event.ack]
    recover (crashPower es 4) 1 1 = 10 ∧ recover (crashPower es 6) 1 1 ≠ 10 := by decide

/-- An UPDATE rewrites TOAST pages in place without logging them, while the frame an earlier INSERT
logged for the same page is still in the WAL: redo puts the *older* image back — even after a mere
process kill at a quiescent point (finding `crash:kill:big:ack:acked-lost`). -/
theorem stale_redo_counterexample :
    let es := [Event.mut 4 1 10, Event.walWrite 4 1 10, Event.walSync, Event.ack,
               Event.mut 4 1 11, Event.ack]
    recover (crashKill es 6) 4 1 = 10 ∧ (run {} es).vol 4 1 = 11 := by decide

/-- What the final `wal.sync()` of a commit buys (the chunked commit path
`execute_chunked_wal_commit` writes its frames with `write_frames_batch_no_sync` and relies on ONE
sync at the end): if a commit acknowledges without it, its frames are still in the user-space
buffer.  After a power loss the acknowledged image is gone; and because an OLDER frame of the same
page is already in the WAL file, even a plain process kill recovers the older image over the newer
page (redo of a stale frame). -/
theorem unsynced_commit_counterexample :
    let es := [Event.mut 1 1 9, Event.walWrite 1 1 9, Event.walSync, Event.ack,
               Event.mut 1 1 10, Event.walWrite 1 1 10, Event.ack]
    (run {} es).vol 1 1 = 10 ∧ recover (crashPower es 7) 1 1 = 9 ∧ recover (crashKill es 7) 1 1 = 9 := by
  decide

/-- with the sync in place the same history is durable under both crash models -/
theorem synced_commit_same_history :
    let es := [Event.mut 1 1 9, Event.walWrite 1 1 9, Event.walSync, Event.ack,
               Event.mut 1 1 10, Event.walWrite 1 1 10, Event.walSync, Event.ack]
    recover (crashPower es 8) 1 1 = 10 ∧ recover (crashKill es 8) 1 1 = 10 := by decide

end TurVerif.C01
