import TurVerif.Model.Record
/-!
C31  Row records round-trip through the record format; reset = fresh.
Theorems about the M-code model `TurVerif.Record`.
-/
namespace TurVerif.C31
open TurVerif.Record

/-- builder state of the right shape for the schema: one cell per column, a fixed cell holds
exactly its column width (invariant of every reachable builder state) -/
def Shape : List ColKind → List Cell → Prop
  | [], [] => True
  | .fixed n :: ks, c :: cs => c.bytes.length = n ∧ Shape ks cs
  | .var :: ks, _ :: cs => Shape ks cs
  | _, _ => False

theorem shape_new (s : List ColKind) : Shape s (new s) := by
  induction s with
  | nil => simp [new, Shape]
  | cons k ks ih => cases k <;> simp [new, Shape, newCell] <;> exact ih

theorem shape_length {s : List ColKind} {st : List Cell} (h : Shape s st) : st.length = s.length := by
  induction s generalizing st with
  | nil => cases st <;> simp_all [Shape]
  | cons k ks ih =>
    cases st with
    | nil => cases k <;> simp [Shape] at h
    | cons c cs =>
      cases k with
      | fixed n => simp only [Shape] at h; simp [ih h.2]
      | var => simp only [Shape] at h; simp [ih h]

theorem shape_modify {s : List ColKind} {st : List Cell} (h : Shape s st) (i : Nat) (f : Cell → Cell)
    (hf : ∀ c, (f c).bytes.length = c.bytes.length ∨ s[i]? = some .var) : Shape s (st.modify i f) := by
  induction s generalizing st i with
  | nil => cases st <;> simp_all [Shape]
  | cons k ks ih =>
    cases st with
    | nil => cases k <;> simp [Shape] at h
    | cons c cs =>
      cases i with
      | zero =>
        cases k with
        | fixed n =>
          simp only [Shape] at h ⊢
          simp only [List.modify_zero_cons, Shape]
          refine ⟨?_, h.2⟩
          rcases hf c with h1 | h1
          · rw [h1]; exact h.1
          · simp at h1
        | var => simpa [Shape] using h
      | succ j =>
        have hf' : ∀ c, (f c).bytes.length = c.bytes.length ∨ ks[j]? = some .var := by
          intro c; simpa using hf c
        cases k with
        | fixed n => simp only [Shape] at h ⊢; simp only [List.modify_succ_cons, Shape]; exact ⟨h.1, ih h.2 j hf'⟩
        | var => simp only [Shape] at h ⊢; simp only [List.modify_succ_cons, Shape]; exact ih h j hf'

theorem shape_setNull {s : List ColKind} {st : List Cell} (h : Shape s st) (i : Nat) :
    Shape s (setNull st i) := shape_modify h i _ (fun _ => Or.inl rfl)

/-! ### what `setRow` leaves in the builder -/

/-- the cells after setting a row into a new builder -/
def cellsOf : List ColKind → List (Option (List Nat)) → List Cell
  | k :: ks, none :: r => newCell k :: cellsOf ks r
  | _ :: ks, some b :: r => ⟨false, b⟩ :: cellsOf ks r
  | _, _ => []

theorem modify_append_at {α : Type} (pre : List α) (c : α) (cs : List α) (f : α → α) :
    (pre ++ c :: cs).modify pre.length f = pre ++ f c :: cs := by
  induction pre with
  | nil => simp
  | cons a as ih => simp [List.modify_succ_cons, ih]

theorem setRow_new_aux (ks : List ColKind) : ∀ (row : List (Option (List Nat))) (spre : List ColKind)
    (pre : List Cell), RowOk ks row → pre.length = spre.length →
    setRow (spre ++ ks) row spre.length (pre ++ new ks) = pre ++ cellsOf ks row := by
  induction ks with
  | nil =>
    intro row spre pre h _
    cases row with
    | nil => simp [setRow, cellsOf, new]
    | cons o r => cases o <;> simp [RowOk] at h
  | cons k ks ih =>
    intro row spre pre h hl
    cases row with
    | nil => cases k <;> simp [RowOk] at h
    | cons o r =>
      have hidx : (spre ++ k :: ks)[spre.length]? = some k := by simp
      have hs : spre ++ k :: ks = (spre ++ [k]) ++ ks := by simp
      have hn : spre.length + 1 = (spre ++ [k]).length := by simp
      cases o with
      | none =>
        have hr : RowOk ks r := by cases k <;> simpa [RowOk] using h
        have hm : setNull (pre ++ new (k :: ks)) spre.length = (pre ++ [newCell k]) ++ new ks := by
          rw [← hl]; simp only [setNull, new, List.map_cons]
          rw [modify_append_at]; cases k <;> simp [newCell]
        simp only [setRow]
        rw [hm, hs, hn, ih r (spre ++ [k]) (pre ++ [newCell k]) hr (by simp [hl])]
        simp [cellsOf]
      | some b =>
        cases k with
        | fixed n =>
          simp only [RowOk] at h
          have hm : setBytes (spre ++ .fixed n :: ks) (pre ++ new (.fixed n :: ks)) spre.length b
              = (pre ++ [⟨false, b⟩]) ++ new ks := by
            simp only [setBytes, hidx]
            rw [← hl]; simp only [new, List.map_cons]
            rw [modify_append_at]; simp [newCell, h.1]
          simp only [setRow]
          rw [hm, hs, hn, ih r (spre ++ [ColKind.fixed n]) (pre ++ [(⟨false, b⟩ : Cell)]) h.2 (by simp [hl])]
          simp [cellsOf]
        | var =>
          simp only [RowOk] at h
          have hm : setBytes (spre ++ .var :: ks) (pre ++ new (.var :: ks)) spre.length b
              = (pre ++ [⟨false, b⟩]) ++ new ks := by
            simp only [setBytes, hidx]
            rw [← hl]; simp only [new, List.map_cons]
            rw [modify_append_at]; simp
          simp only [setRow]
          rw [hm, hs, hn, ih r (spre ++ [ColKind.var]) (pre ++ [(⟨false, b⟩ : Cell)]) h (by simp [hl])]
          simp [cellsOf]

/-- setting a schema-conforming row into a new builder leaves exactly `cellsOf` -/
theorem setRow_new (s : List ColKind) (row : List (Option (List Nat))) (h : RowOk s row) :
    setRow s row 0 (new s) = cellsOf s row := by
  simpa using setRow_new_aux s row [] [] h rfl

/-! ### the NULL bitmap -/

theorem bit_le (b : Bool) : bit b ≤ 1 := by cases b <;> simp [bit]

theorem packByte_bit (fl : List Bool) (i : Nat) :
    packByte fl (i / 8) / 2 ^ (i % 8) % 2 = bit (fl.getD i false) := by
  have hi : i = 8 * (i / 8) + i % 8 := by omega
  generalize hk : i / 8 = k at hi
  generalize hj : i % 8 = j at hi
  have hj8 : j < 8 := by omega
  subst hi
  unfold packByte
  have h0 := bit_le (fl.getD (8 * k) false)
  have h1 := bit_le (fl.getD (8 * k + 1) false)
  have h2 := bit_le (fl.getD (8 * k + 2) false)
  have h3 := bit_le (fl.getD (8 * k + 3) false)
  have h4 := bit_le (fl.getD (8 * k + 4) false)
  have h5 := bit_le (fl.getD (8 * k + 5) false)
  have h6 := bit_le (fl.getD (8 * k + 6) false)
  have h7 := bit_le (fl.getD (8 * k + 7) false)
  have : j = 0 ∨ j = 1 ∨ j = 2 ∨ j = 3 ∨ j = 4 ∨ j = 5 ∨ j = 6 ∨ j = 7 := by omega
  rcases this with rfl | rfl | rfl | rfl | rfl | rfl | rfl | rfl
  all_goals
    try simp only [Nat.add_zero]
    generalize bit (fl.getD (8 * k) false) = b0 at *
    generalize bit (fl.getD (8 * k + 1) false) = b1 at *
    generalize bit (fl.getD (8 * k + 2) false) = b2 at *
    generalize bit (fl.getD (8 * k + 3) false) = b3 at *
    generalize bit (fl.getD (8 * k + 4) false) = b4 at *
    generalize bit (fl.getD (8 * k + 5) false) = b5 at *
    generalize bit (fl.getD (8 * k + 6) false) = b6 at *
    generalize bit (fl.getD (8 * k + 7) false) = b7 at *
    omega

theorem slice_one (l : List Nat) (j : Nat) (h : j < l.length) : slice l j 1 = some [l[j]] := by
  have : j + 1 ≤ l.length := h
  have ht : List.take 1 (List.drop j l) = [l[j]] := by
    rw [List.drop_eq_getElem_cons h]; simp only [List.take_succ_cons, List.take_zero]
  simp only [slice, if_pos this, ht]

theorem flags_cellsOf (s : List ColKind) (row : List (Option (List Nat))) (h : RowOk s row) :
    (cellsOf s row).map (·.null) = row.map Option.isNone := by
  induction s generalizing row with
  | nil => cases row with
    | nil => simp [cellsOf]
    | cons o r => cases o <;> simp [RowOk] at h
  | cons k ks ih =>
    cases row with
    | nil => cases k <;> simp [RowOk] at h
    | cons o r =>
      cases o with
      | none =>
        have hr : RowOk ks r := by cases k <;> simpa [RowOk] using h
        cases k <;> simp [cellsOf, newCell, ih r hr]
      | some b =>
        have hr : RowOk ks r := by
          cases k with
          | fixed n => simp only [RowOk] at h; exact h.2
          | var => simpa [RowOk] using h
        simp [cellsOf, ih r hr]

theorem rowOk_length {s : List ColKind} {row : List (Option (List Nat))} (h : RowOk s row) :
    row.length = s.length := by
  induction s generalizing row with
  | nil => cases row with
    | nil => rfl
    | cons o r => cases o <;> simp [RowOk] at h
  | cons k ks ih =>
    cases row with
    | nil => cases k <;> simp [RowOk] at h
    | cons o r =>
      have hr : RowOk ks r := by
        cases o with
        | none => cases k <;> simpa [RowOk] using h
        | some b => cases k with
          | fixed n => simp only [RowOk] at h; exact h.2
          | var => simpa [RowOk] using h
      simp [ih hr]

/-! ### layout of the built record -/

theorem shape_cellsOf (s : List ColKind) (row : List (Option (List Nat))) (h : RowOk s row) :
    Shape s (cellsOf s row) := by
  rw [← setRow_new s row h]
  -- reachable from `new` by setters: simpler to show directly
  rw [setRow_new s row h]
  induction s generalizing row with
  | nil => cases row with
    | nil => simp [cellsOf, Shape]
    | cons o r => cases o <;> simp [RowOk] at h
  | cons k ks ih =>
    cases row with
    | nil => cases k <;> simp [RowOk] at h
    | cons o r =>
      cases o with
      | none =>
        have hr : RowOk ks r := by cases k <;> simpa [RowOk] using h
        cases k <;> simp [cellsOf, Shape, newCell, ih r hr]
      | some b =>
        cases k with
        | fixed n => simp only [RowOk] at h; simp [cellsOf, Shape, h.1, ih r h.2]
        | var => simp only [RowOk] at h; simp [cellsOf, Shape, ih r h]

theorem offsetTable_length : ∀ (vs : List (List Nat)) (acc : Nat) (t : List Nat),
    offsetTable vs acc = some t → t.length = 2 * vs.length := by
  intro vs
  induction vs with
  | nil => intro acc t h; simp [offsetTable] at h; simp [← h]
  | cons v vs ih =>
    intro acc t h
    simp only [offsetTable] at h
    split at h
    · cases h
    · split at h
      · rename_i t' ht'
        injection h with h
        rw [← h]; simp [le16, ih _ _ ht']; omega
      · cases h

theorem varCells_length (s : List ColKind) (st : List Cell) (h : Shape s st) :
    (varCells s st).length = varCount s := by
  induction s generalizing st with
  | nil => cases st <;> simp [varCells, varCount]
  | cons k ks ih =>
    cases st with
    | nil => cases k <;> simp [Shape] at h
    | cons c cs =>
      cases k with
      | fixed n => simp only [Shape] at h; simpa [varCells, varCount, isVar] using ih cs h.2
      | var =>
        simp only [Shape] at h
        have := ih cs h
        simp only [varCount] at this
        simp [varCells, varCount, isVar, List.filter_cons, this]

/-- the fixed area splits around column `i` at exactly `fixedOffset s i` -/
theorem fixedArea_split (s : List ColKind) : ∀ (st : List Cell) (i n : Nat), Shape s st →
    s[i]? = some (.fixed n) →
    ∃ A B c, st[i]? = some c ∧ fixedArea s st = A ++ (c.bytes ++ B) ∧ A.length = fixedOffset s i ∧
      c.bytes.length = n := by
  induction s with
  | nil => intro st i n _ hk; simp at hk
  | cons k ks ih =>
    intro st i n h hk
    cases st with
    | nil => cases k <;> simp [Shape] at h
    | cons c cs =>
      cases i with
      | zero =>
        simp at hk; subst hk
        simp only [Shape] at h
        exact ⟨[], fixedArea ks cs, c, by simp, by simp [fixedArea, isVar], by simp [fixedOffset], h.1⟩
      | succ j =>
        have hk' : ks[j]? = some (.fixed n) := by simpa using hk
        cases k with
        | fixed m =>
          simp only [Shape] at h
          obtain ⟨A, B, c', hc, hf, hl, hn⟩ := ih cs j n h.2 hk'
          exact ⟨c.bytes ++ A, B, c', by simpa using hc, by simp [fixedArea, isVar, hf],
            by simp [fixedOffset, fixedSize, hl, h.1], hn⟩
        | var =>
          simp only [Shape] at h
          obtain ⟨A, B, c', hc, hf, hl, hn⟩ := ih cs j n h hk'
          exact ⟨A, B, c', by simpa using hc, by simp [fixedArea, isVar, hf],
            by simp [fixedOffset, fixedSize, hl], hn⟩

theorem slice_mid (data p bs r : List Nat) (hd : data = p ++ (bs ++ r)) :
    slice data p.length bs.length = some bs := by
  subst hd; simp [slice]

theorem rd16_le16 (v : Nat) (hv : v < 65536) (rest : List Nat) : rd16 (le16 v ++ rest) 0 = some v := by
  simp only [rd16, slice, le16]
  simp
  omega

theorem cellsOf_get (s : List ColKind) : ∀ (row : List (Option (List Nat))) (i : Nat) (b : List Nat),
    RowOk s row → row[i]? = some (some b) → (cellsOf s row)[i]? = some ⟨false, b⟩ := by
  induction s with
  | nil => intro row i b h hr; cases row with
    | nil => simp at hr
    | cons o r => cases o <;> simp [RowOk] at h
  | cons k ks ih =>
    intro row i b h hr
    cases row with
    | nil => simp at hr
    | cons o r =>
      have hrr : RowOk ks r := by
        cases o with
        | none => cases k <;> simpa [RowOk] using h
        | some b => cases k with
          | fixed n => simp only [RowOk] at h; exact h.2
          | var => simpa [RowOk] using h
      cases i with
      | zero =>
        simp at hr; subst hr
        cases k <;> simp [cellsOf]
      | succ j =>
        have : r[j]? = some (some b) := by simpa using hr
        cases o <;> simp [cellsOf, ih r j b hrr this]

/-! ### property theorems -/

/-- NULLs ROUND-TRIP: in the record built from any schema-conforming row (when `build` succeeds,
i.e. the variable area fits the u16 offsets), `is_null(i)` reads exactly whether column `i` was
NULL — for every column, any number of columns, no read outside the record. -/
theorem null_roundtrip (s : List ColKind) (row : List (Option (List Nat))) (h : RowOk s row)
    (data : List Nat) (hb : build s (setRow s row 0 (new s)) = .ok data) (i : Nat) (hi : i < s.length) :
    isNull data i = some ((row.getD i none).isNone) := by
  rw [setRow_new s row h] at hb
  unfold build at hb
  split at hb
  · cases hb
  · rename_i table _
    injection hb with hb
    have hfl := flags_cellsOf s row h
    have hlen := rowOk_length h
    generalize hF : (cellsOf s row).map (·.null) = fl at hb hfl
    have hfll : fl.length = s.length := by rw [hfl]; simp [hlen]
    have hj : i / 8 < (bitmap fl).length := by
      simp [bitmap, bitmapSize, hfll]; omega
    have hd : data = le16 (headerLen s % 65536) ++ (bitmap fl ++ (table ++ (fixedArea s (cellsOf s row)
        ++ (varCells s (cellsOf s row)).flatten))) := by rw [← hb]; simp
    have hidx : 2 + i / 8 < data.length := by rw [hd]; simp [le16]; omega
    have hget : data[2 + i / 8] = packByte fl (i / 8) := by
      simp only [hd, le16]
      rw [List.getElem_append_right (by simp)]
      simp only [List.length_cons, List.length_nil, Nat.zero_add, Nat.reduceAdd, Nat.add_sub_cancel_left]
      rw [List.getElem_append_left hj]
      simp [bitmap]
    unfold isNull
    rw [slice_one data _ hidx, hget]
    simp only [packByte_bit]
    have : fl.getD i false = (row.getD i none).isNone := by
      have hir : i < row.length := by omega
      rw [hfl]; simp [List.getD, List.getElem?_map, List.getElem?_eq_getElem hir]
    rw [this]
    cases (row.getD i none).isNone <;> simp [bit]


/-- RESET = FRESH (state level): resetting any well-shaped builder state gives exactly the state of
a new builder, hence every later `build` yields the same bytes. -/
theorem reset_eq_new (s : List ColKind) (st : List Cell) (h : Shape s st) : reset s st = new s := by
  induction s generalizing st with
  | nil => cases st <;> simp [reset, new]
  | cons k ks ih =>
    cases st with
    | nil => cases k <;> simp [Shape] at h
    | cons c cs =>
      cases k with
      | fixed n =>
        simp only [Shape] at h
        have := ih cs h.2
        simp only [reset, new] at this ⊢
        simp [List.zipWith, resetCell, newCell, this, List.map_const', h.1]
      | var =>
        simp only [Shape] at h
        have := ih cs h
        simp only [reset, new] at this ⊢
        simp [List.zipWith, resetCell, newCell, this]

/-- RESET = FRESH (bytes): whatever was set before, `reset` followed by setting a row builds the
same record as a new builder with the same row. -/
theorem build_reset (s : List ColKind) (st : List Cell) (h : Shape s st)
    (row : List (Option (List Nat))) :
    build s (setRow s row 0 (reset s st)) = build s (setRow s row 0 (new s)) := by
  rw [reset_eq_new s st h]

/-! ### the offset table and the variable area -/

/-- total length of the first `j` variable values -/
def sumTo (vs : List (List Nat)) (j : Nat) : Nat := ((vs.take j).map List.length).sum

theorem sumTo_zero (vs : List (List Nat)) : sumTo vs 0 = 0 := by simp [sumTo]
theorem sumTo_cons_succ (v : List Nat) (vs : List (List Nat)) (j : Nat) :
    sumTo (v :: vs) (j + 1) = v.length + sumTo vs j := by simp [sumTo]
theorem sumTo_succ (vs : List (List Nat)) (j : Nat) (hj : j < vs.length) :
    sumTo vs (j + 1) = sumTo vs j + vs[j].length := by
  induction vs generalizing j with
  | nil => simp at hj
  | cons v vs ih =>
    cases j with
    | zero => simp [sumTo]
    | succ k =>
      have hk : k < vs.length := by simpa using hj
      rw [sumTo_cons_succ, sumTo_cons_succ, ih k hk]; simp; omega
theorem sumTo_le (vs : List (List Nat)) (j : Nat) : sumTo vs j ≤ sumTo vs vs.length := by
  induction vs generalizing j with
  | nil => simp [sumTo]
  | cons v vs ih =>
    cases j with
    | zero => simp [sumTo]
    | succ k => rw [List.length_cons, sumTo_cons_succ, sumTo_cons_succ]; have := ih k; omega

theorem rd16_mid (pre rest : List Nat) (v : Nat) (hv : v < 65536) :
    rd16 (pre ++ (le16 v ++ rest)) pre.length = some v := by
  have := slice_mid (pre ++ (le16 v ++ rest)) pre (le16 v) rest rfl
  simp only [le16, List.length_cons, List.length_nil] at this
  simp only [rd16, le16, this, Option.some.injEq]
  omega

/-- under `Fits` the offset-table loop succeeds and entry `j` holds the end offset of value `j` -/
theorem offsetTable_entries : ∀ (vs : List (List Nat)) (acc : Nat), acc + sumTo vs vs.length < 65536 →
    ∃ t, offsetTable vs acc = some t ∧ ∀ j, j < vs.length → ∀ pre rest : List Nat,
      rd16 (pre ++ (t ++ rest)) (pre.length + 2 * j) = some (acc + sumTo vs (j + 1)) := by
  intro vs
  induction vs with
  | nil => intro acc _; exact ⟨[], by simp [offsetTable], by intro j hj; simp at hj⟩
  | cons v vs ih =>
    intro acc h
    rw [List.length_cons, sumTo_cons_succ] at h
    have hv : v.length % 65536 = v.length := Nat.mod_eq_of_lt (by omega)
    obtain ⟨t, ht, hent⟩ := ih (acc + v.length) (by omega)
    refine ⟨le16 (acc + v.length) ++ t, ?_, ?_⟩
    · simp only [offsetTable, hv]
      rw [if_neg (by omega), ht]
    · intro j hj pre rest
      cases j with
      | zero =>
        simp only [Nat.mul_zero, Nat.add_zero, List.append_assoc]
        rw [rd16_mid pre _ _ (by omega)]
        simp [sumTo]
      | succ k =>
        have hk : k < vs.length := by simpa using hj
        have := hent k hk (pre ++ le16 (acc + v.length)) rest
        simp only [List.length_append, le16, List.length_cons, List.length_nil] at this
        rw [sumTo_cons_succ]
        have e1 : pre.length + 2 * (k + 1) = pre.length + (0 + 1 + 1) + 2 * k := by omega
        have e2 : acc + (v.length + sumTo vs (k + 1)) = acc + v.length + sumTo vs (k + 1) := by omega
        rw [e1, e2, ← this]
        simp [le16]

theorem flatten_slice : ∀ (vs : List (List Nat)) (j : Nat) (hj : j < vs.length) (pre rest : List Nat),
    slice (pre ++ (vs.flatten ++ rest)) (pre.length + sumTo vs j) (vs[j].length) = some vs[j] := by
  intro vs
  induction vs with
  | nil => intro j hj; simp at hj
  | cons v vs ih =>
    intro j hj pre rest
    cases j with
    | zero =>
      simp only [sumTo_zero, Nat.add_zero, List.getElem_cons_zero, List.flatten_cons, List.append_assoc]
      exact slice_mid _ pre v _ rfl
    | succ k =>
      have hk : k < vs.length := by simpa using hj
      have := ih k hk (pre ++ v) rest
      simp only [List.length_append] at this
      rw [sumTo_cons_succ]
      simp only [List.getElem_cons_succ, List.flatten_cons, List.append_assoc]
      have e : pre.length + (v.length + sumTo vs k) = pre.length + v.length + sumTo vs k := by omega
      rw [e, ← this]
      simp

/-- column `i` (variable) is entry `varIndex s i` of the variable cells -/
theorem varCells_get (s : List ColKind) : ∀ (st : List Cell) (i : Nat), Shape s st → s[i]? = some .var →
    ∃ c, st[i]? = some c ∧ (varCells s st)[varIndex s i]? = some c.bytes := by
  induction s with
  | nil => intro st i _ hk; simp at hk
  | cons k ks ih =>
    intro st i h hk
    cases st with
    | nil => cases k <;> simp [Shape] at h
    | cons c cs =>
      cases i with
      | zero =>
        simp at hk; subst hk
        exact ⟨c, by simp, by simp [varCells, varIndex, isVar]⟩
      | succ j =>
        have hk' : ks[j]? = some .var := by simpa using hk
        cases k with
        | fixed m =>
          simp only [Shape] at h
          obtain ⟨c', hc, hv⟩ := ih cs j h.2 hk'
          exact ⟨c', by simpa using hc, by simpa [varCells, varIndex, isVar, List.filter_cons] using hv⟩
        | var =>
          simp only [Shape] at h
          obtain ⟨c', hc, hv⟩ := ih cs j h hk'
          refine ⟨c', by simpa using hc, ?_⟩
          simp only [varIndex] at hv
          simp [varCells, varIndex, isVar, List.filter_cons, hv]

theorem varTotal_eq (s : List ColKind) : ∀ (row : List (Option (List Nat))), RowOk s row →
    sumTo (varCells s (cellsOf s row)) (varCells s (cellsOf s row)).length = varTotal s row := by
  induction s with
  | nil => intro row h; cases row with
    | nil => simp [cellsOf, varCells, sumTo, varTotal]
    | cons o r => cases o <;> simp [RowOk] at h
  | cons k ks ih =>
    intro row h
    cases row with
    | nil => cases k <;> simp [RowOk] at h
    | cons o r =>
      cases o with
      | none =>
        have hr : RowOk ks r := by cases k <;> simpa [RowOk] using h
        cases k with
        | fixed n => simpa [cellsOf, varCells, isVar, varTotal] using ih r hr
        | var =>
          have := ih r hr
          simp only [cellsOf, varCells, isVar, newCell, varTotal, if_true, List.length_cons,
            sumTo_cons_succ, List.length_nil, Nat.zero_add]
          exact this
      | some b =>
        cases k with
        | fixed n =>
          simp only [RowOk] at h
          simpa [cellsOf, varCells, isVar, varTotal] using ih r h.2
        | var =>
          simp only [RowOk] at h
          have := ih r h
          simp only [cellsOf, varCells, isVar, varTotal, if_true, List.length_cons, sumTo_cons_succ]
          omega

/-- FIXED-WIDTH COLUMNS ROUND-TRIP: in the record built from any schema-conforming row, the getter
of a non-NULL fixed-width column reads exactly the bytes that were set — at offset
`header_len + fixed_offset(i)`, inside the record (never `oob`). Needs the header length to fit
its u16 field. -/
theorem fixed_roundtrip (s : List ColKind) (row : List (Option (List Nat))) (h : RowOk s row)
    (hfit : headerLen s < 65536) (data : List Nat)
    (hb : build s (setRow s row 0 (new s)) = .ok data) (i n : Nat) (b : List Nat)
    (hk : s[i]? = some (.fixed n)) (hr : row[i]? = some (some b)) : TurVerif.Record.get s data i = .val b := by
  have hi : i < s.length := by
    rcases Nat.lt_or_ge i s.length with h' | h'
    · exact h'
    · simp [List.getElem?_eq_none h'] at hk
  have hnull := null_roundtrip s row h data hb i hi
  have hgd : row.getD i none = some b := by simp [List.getD, hr]
  rw [hgd] at hnull
  rw [setRow_new s row h] at hb
  unfold build at hb
  split at hb
  · cases hb
  · rename_i table htab
    injection hb with hb
    have hshape := shape_cellsOf s row h
    obtain ⟨A, B, c, hc, hf, hl, hn⟩ := fixedArea_split s (cellsOf s row) i n hshape hk
    rw [cellsOf_get s row i b h hr] at hc
    injection hc with hc
    subst hc
    simp only at hf hn
    have htl : table.length = 2 * varCount s := by
      rw [offsetTable_length _ _ _ htab, varCells_length s _ hshape]
    have hbl : (bitmap ((cellsOf s row).map (·.null))).length = bitmapSize s.length := by
      simp [bitmap, shape_length hshape]
    generalize hP : le16 (headerLen s % 65536) ++ bitmap ((cellsOf s row).map (·.null)) ++ table = P at hb
    have hPl : P.length = headerLen s := by
      rw [← hP]; simp [le16, hbl, htl, headerLen]; omega
    have hd : data = (P ++ A) ++ (b ++ (B ++ (varCells s (cellsOf s row)).flatten)) := by
      rw [← hb, hf]; simp
    have hrd : rd16 data 0 = some (headerLen s) := by
      rw [← hb, ← hP, Nat.mod_eq_of_lt hfit]
      simp only [List.append_assoc]
      exact rd16_le16 _ hfit _
    have hsl : slice data (headerLen s + fixedOffset s i) n = some b := by
      have := slice_mid data (P ++ A) b _ hd
      rw [List.length_append, hPl, hl, hn] at this
      exact this
    simp [TurVerif.Record.get, hnull, hk, hrd, hsl]

theorem fixedArea_length (s : List ColKind) (st : List Cell) (h : Shape s st) :
    (fixedArea s st).length = totalFixed s := by
  induction s generalizing st with
  | nil => cases st <;> simp [fixedArea, totalFixed]
  | cons k ks ih =>
    cases st with
    | nil => cases k <;> simp [Shape] at h
    | cons c cs =>
      cases k with
      | fixed n => simp only [Shape] at h; simp [fixedArea, totalFixed, fixedSize, isVar, ih cs h.2, h.1]
      | var => simp only [Shape] at h; simp [fixedArea, totalFixed, fixedSize, isVar, ih cs h]

/-- VARIABLE-WIDTH COLUMNS ROUND-TRIP: under `Fits` (header length and total variable bytes below
2^16) the getter of a non-NULL variable-width column reads exactly the bytes that were set: the
bounds come from the u16 offset table (entry `var_idx - 1` and `var_idx`), start ≤ end, and the slice
lies inside the record. -/
theorem var_roundtrip (s : List ColKind) (row : List (Option (List Nat))) (h : RowOk s row)
    (hfit : Fits s row) (data : List Nat)
    (hb : build s (setRow s row 0 (new s)) = .ok data) (i : Nat) (b : List Nat)
    (hk : s[i]? = some .var) (hr : row[i]? = some (some b)) :
    TurVerif.Record.get s data i = .val b := by
  have hi : i < s.length := by
    rcases Nat.lt_or_ge i s.length with h' | h'
    · exact h'
    · simp [List.getElem?_eq_none h'] at hk
  have hnull := null_roundtrip s row h data hb i hi
  have hgd : row.getD i none = some b := by simp [List.getD, hr]
  rw [hgd] at hnull
  rw [setRow_new s row h] at hb
  have hshape := shape_cellsOf s row h
  generalize hvs : varCells s (cellsOf s row) = vs at hb
  have htot : 0 + sumTo vs vs.length < 65536 := by
    rw [← hvs, varTotal_eq s row h]; have := hfit.2; omega
  obtain ⟨t, ht, hent⟩ := offsetTable_entries vs 0 htot
  obtain ⟨c, hc, hv⟩ := varCells_get s (cellsOf s row) i hshape hk
  rw [cellsOf_get s row i b h hr] at hc
  injection hc with hc
  subst hc
  rw [hvs] at hv
  simp only at hv
  have hvi : varIndex s i < vs.length := by
    rcases Nat.lt_or_ge (varIndex s i) vs.length with h' | h'
    · exact h'
    · simp [List.getElem?_eq_none h'] at hv
  have hvb : vs[varIndex s i] = b := by
    rw [List.getElem?_eq_getElem hvi] at hv; injection hv
  unfold build at hb
  rw [hvs, ht] at hb
  simp only at hb
  injection hb with hb
  have hbl : (bitmap ((cellsOf s row).map (·.null))).length = bitmapSize s.length := by
    simp [bitmap, shape_length hshape]
  have htl : t.length = 2 * varCount s := by
    rw [offsetTable_length _ _ _ ht, ← hvs, varCells_length s _ hshape]
  generalize hP0 : le16 (headerLen s % 65536) ++ bitmap ((cellsOf s row).map (·.null)) = P0 at hb
  have hP0l : P0.length = 2 + bitmapSize s.length := by rw [← hP0]; simp [le16, hbl]; omega
  have hfl := fixedArea_length s _ hshape
  have hd1 : data = P0 ++ (t ++ (fixedArea s (cellsOf s row) ++ vs.flatten)) := by rw [← hb]; simp
  have hd2 : data = (P0 ++ t ++ fixedArea s (cellsOf s row)) ++ (vs.flatten ++ []) := by rw [← hb]; simp
  have hpre : (P0 ++ t ++ fixedArea s (cellsOf s row)).length = headerLen s + totalFixed s := by
    simp [hP0l, htl, hfl, headerLen]; omega
  have hrd : rd16 data 0 = some (headerLen s) := by
    rw [← hb, ← hP0, Nat.mod_eq_of_lt hfit.1]
    simp only [List.append_assoc]
    exact rd16_le16 _ hfit.1 _
  have hend : rd16 data (2 + bitmapSize s.length + varIndex s i * 2)
      = some (sumTo vs (varIndex s i + 1)) := by
    have := hent (varIndex s i) hvi P0 (fixedArea s (cellsOf s row) ++ vs.flatten)
    rw [← hd1, hP0l, Nat.mul_comm] at this
    simpa using this
  have hsl := flatten_slice vs (varIndex s i) hvi (P0 ++ t ++ fixedArea s (cellsOf s row)) []
  rw [← hd2, hpre, hvb] at hsl
  have hsucc := sumTo_succ vs (varIndex s i) hvi
  rw [hvb] at hsucc
  unfold TurVerif.Record.get
  simp only [hnull, hk, varBounds, hrd, hend]
  by_cases h0 : varIndex s i = 0
  · have hz : sumTo vs (varIndex s i) = 0 := by rw [h0]; exact sumTo_zero vs
    rw [hz] at hsl hsucc
    simp only [h0] at hsucc ⊢
    simp only [if_true, hsucc]
    have e : headerLen s + totalFixed s + (0 + b.length) - (headerLen s + totalFixed s) = b.length := by omega
    simp only [Nat.add_zero] at hsl
    simp [e, hsl]
  · have hstart : rd16 data (2 + bitmapSize s.length + (varIndex s i - 1) * 2)
        = some (sumTo vs (varIndex s i)) := by
      have := hent (varIndex s i - 1) (by omega) P0 (fixedArea s (cellsOf s row) ++ vs.flatten)
      rw [← hd1, hP0l, Nat.mul_comm] at this
      have e : varIndex s i - 1 + 1 = varIndex s i := by omega
      rw [e] at this
      simpa using this
    simp only [h0, if_false, hstart, hsucc]
    have e : headerLen s + totalFixed s + (sumTo vs (varIndex s i) + b.length)
        - (headerLen s + totalFixed s + sumTo vs (varIndex s i)) = b.length := by omega
    have hlt : ¬ headerLen s + totalFixed s + (sumTo vs (varIndex s i) + b.length)
        < headerLen s + totalFixed s + sumTo vs (varIndex s i) := by omega
    simp [e, hlt, hsl]

/-- under `Fits` the build succeeds (no u16 overflow in the offset-table loop) -/
theorem build_succeeds (s : List ColKind) (row : List (Option (List Nat))) (h : RowOk s row)
    (hfit : Fits s row) : ∃ data, build s (setRow s row 0 (new s)) = .ok data := by
  rw [setRow_new s row h]
  have htot : 0 + sumTo (varCells s (cellsOf s row)) (varCells s (cellsOf s row)).length < 65536 := by
    rw [varTotal_eq s row h]; have := hfit.2; omega
  obtain ⟨t, ht, _⟩ := offsetTable_entries _ 0 htot
  simp only [build, ht]
  exact ⟨_, rfl⟩

/-- VIEW ∘ BUILD (full statement for the direct getters): for every schema, every row that matches
it and fits the u16 fields, the record builds and every column reads back what was set — NULL for
NULL, the exact bytes otherwise — with every read inside the record. -/
theorem view_build (s : List ColKind) (row : List (Option (List Nat))) (h : RowOk s row)
    (hfit : Fits s row) :
    ∃ data, build s (setRow s row 0 (new s)) = .ok data ∧
      ∀ i, i < s.length → TurVerif.Record.get s data i =
        (match row.getD i none with
          | none => Get.null
          | some b => Get.val b) := by
  obtain ⟨data, hb⟩ := build_succeeds s row h hfit
  refine ⟨data, hb, ?_⟩
  intro i hi
  have hir : i < row.length := by rw [rowOk_length h]; exact hi
  have hri : row[i]? = some (row.getD i none) := by simp [List.getD, List.getElem?_eq_getElem hir]
  cases hv : row.getD i none with
  | none =>
    have hnull := null_roundtrip s row h data hb i hi
    rw [hv] at hnull
    simp [TurVerif.Record.get, hnull]
  | some b =>
    rw [hv] at hri
    have hsi : s[i]? = some s[i] := List.getElem?_eq_getElem hi
    cases hk : s[i] with
    | fixed n => rw [hk] at hsi; exact fixed_roundtrip s row h hfit.1 data hb i n b hsi hri
    | var => rw [hk] at hsi; exact var_roundtrip s row h hfit data hb i b hsi hri

theorem flatten_length (vs : List (List Nat)) : vs.flatten.length = sumTo vs vs.length := by
  induction vs with
  | nil => simp [sumTo]
  | cons v vs ih => rw [List.length_cons, sumTo_cons_succ]; simp [ih]

/-- the record format loses nothing: two rows that match the schema, fit the u16 fields and build
to the same bytes are the same row (NULLs and byte contents included) -/
theorem build_injective (s : List ColKind) (r1 r2 : List (Option (List Nat)))
    (h1 : RowOk s r1) (h2 : RowOk s r2) (f1 : Fits s r1) (f2 : Fits s r2)
    (h : build s (setRow s r1 0 (new s)) = build s (setRow s r2 0 (new s))) : r1 = r2 := by
  obtain ⟨d1, b1, g1⟩ := view_build s r1 h1 f1
  obtain ⟨d2, b2, g2⟩ := view_build s r2 h2 f2
  have hd : d1 = d2 := by
    rw [h, b2] at b1
    injection b1 with e
    exact e.symm
  subst hd
  have l1 := rowOk_length h1
  have l2 := rowOk_length h2
  apply List.ext_getElem (by rw [l1, l2])
  intro i hi1 hi2
  have e1 := g1 i (by omega)
  have e2 := g2 i (by omega)
  rw [e1] at e2
  simp only [List.getD_eq_getElem?_getD, List.getElem?_eq_getElem hi1, List.getElem?_eq_getElem hi2,
    Option.getD_some] at e2
  cases c1 : r1[i] <;> cases c2 : r2[i] <;> simp_all

/-- LAYOUT: the built record is header (2 + bitmap + 2 bytes per variable column), fixed area,
variable area; its first two bytes are the header length. -/
theorem build_length (s : List ColKind) (row : List (Option (List Nat))) (h : RowOk s row)
    (hfit : Fits s row) (data : List Nat) (hb : build s (setRow s row 0 (new s)) = .ok data) :
    data.length = headerLen s + totalFixed s + varTotal s row ∧ rd16 data 0 = some (headerLen s) := by
  rw [setRow_new s row h] at hb
  have hshape := shape_cellsOf s row h
  unfold build at hb
  split at hb
  · cases hb
  · rename_i table htab
    injection hb with hb
    have htl : table.length = 2 * varCount s := by
      rw [offsetTable_length _ _ _ htab, varCells_length s _ hshape]
    have hbl : (bitmap ((cellsOf s row).map (·.null))).length = bitmapSize s.length := by
      simp [bitmap, shape_length hshape]
    constructor
    · rw [← hb]
      simp only [List.length_append, hbl, htl, fixedArea_length s _ hshape, flatten_length,
        varTotal_eq s row h, le16, headerLen, List.length_cons, List.length_nil]
    · rw [← hb, Nat.mod_eq_of_lt hfit.1]
      simp only [List.append_assoc]
      exact rd16_le16 _ hfit.1 _

theorem countCols_all : ∀ (ks : List ColKind) (consumed avail : Nat),
    consumed + totalFixed ks ≤ avail → countCols ks consumed avail = ks.length := by
  intro ks
  induction ks with
  | nil => intro _ _ _; simp [countCols]
  | cons k ks ih =>
    intro consumed avail h
    cases k with
    | fixed n =>
      simp only [totalFixed, fixedSize] at h
      simp only [countCols]
      rw [if_neg (by omega), ih (consumed + n) avail (by omega)]
      simp; omega
    | var =>
      simp only [totalFixed, fixedSize] at h
      simp only [countCols]
      rw [ih consumed avail (by omega)]
      simp; omega

/-- VIEW ∘ BUILD through the `_opt` getters (partial): the same round trip holds for
`get_*_opt` / `extract_row_from_record` provided the record has at least one byte after its header
(some fixed column, or some non-empty variable value). `empty_value_counterexample` shows the
restriction is necessary. -/
theorem view_build_opt_partial (s : List ColKind) (row : List (Option (List Nat))) (h : RowOk s row)
    (hfit : Fits s row) (hne : 0 < totalFixed s + varTotal s row) :
    ∃ data, build s (setRow s row 0 (new s)) = .ok data ∧
      ∀ i, i < s.length → getOpt s data i =
        (match row.getD i none with
          | none => Get.null
          | some b => Get.val b) := by
  obtain ⟨data, hb, hget⟩ := view_build s row h hfit
  refine ⟨data, hb, ?_⟩
  intro i hi
  obtain ⟨hlen, hrd⟩ := build_length s row h hfit data hb
  have hgt : ¬ data.length ≤ headerLen s := by omega
  have hcnt : countCols s 0 (data.length - headerLen s) = s.length :=
    countCols_all s 0 _ (by omega)
  have hle : ¬ s.length ≤ i := by omega
  simp only [getOpt, recordColumnCount, hrd, hgt, if_false, hcnt, hle]
  exact hget i hi

/-- the `_opt` getters (used by `OwnedValue::extract_row_from_record`) do NOT satisfy the property:
a record with no byte after the header — here schema (TEXT), row ('') — has
`record_column_count() = 0`, so the non-NULL empty string is reported as NULL, although the direct
getter reads it correctly. -/
theorem empty_value_counterexample :
    build [.var] (setRow [.var] [some []] 0 (new [.var])) = .ok [5, 0, 0, 0, 0] ∧
    getOpt [.var] [5, 0, 0, 0, 0] 0 = .null ∧
    TurVerif.Record.get [.var] [5, 0, 0, 0, 0] 0 = .val [] ∧
    RowOk [.var] [some []] ∧ Fits [.var] [some []] := by
  refine ⟨by decide, by decide, by decide, by simp [RowOk], by unfold Fits; decide⟩

/-- outside `Fits` the offset table cannot represent the row: two 40000-byte values overflow the
u16 accumulator (the dev-profile build panics there) -/
theorem offset_overflow_counterexample (a b : List Nat) (ha : a.length = 40000) (hb : b.length = 40000) :
    build [.var, .var] [⟨false, a⟩, ⟨false, b⟩] = .overflow := by
  simp [build, varCells, isVar, offsetTable, ha, hb]

/-- … and a single 65536-byte value wraps silently (`len as u16 = 0`): the record is built with
end offset 0 -/
theorem offset_wrap_counterexample (v : List Nat) (hv : v.length = 65536) :
    build [.var] [⟨false, v⟩] = .ok ([5, 0] ++ [0] ++ [0, 0] ++ v) := by
  simp [build, varCells, isVar, offsetTable, hv, le16, headerLen, varCount, bitmapSize, bitmap,
    packByte, bit, fixedArea, List.filter_cons]

/-- non-vacuity: a mixed schema and row satisfying the hypotheses, and what is built / read -/
example : RowOk [.fixed 1, .var, .fixed 4, .var] [some [1], some [104, 105], none, some [65]] ∧
    Fits [.fixed 1, .var, .fixed 4, .var] [some [1], some [104, 105], none, some [65]] ∧
    build [.fixed 1, .var, .fixed 4, .var]
      (setRow [.fixed 1, .var, .fixed 4, .var] [some [1], some [104, 105], none, some [65]] 0
        (new [.fixed 1, .var, .fixed 4, .var]))
      = .ok [7, 0, 4, 2, 0, 3, 0, 1, 0, 0, 0, 0, 104, 105, 65] := by
  refine ⟨by simp [RowOk], by unfold Fits; decide, by decide⟩

end TurVerif.C31
