import TurVerif.Model.Dist
/-!
C24  Vector distance ordering is exact.
Theorems about `TurVerif.Dist` (model of src/hnsw/distance.rs over `Rat`; rounding not modelled):
every vector kernel (any lane width, in particular AVX2 = 8 lanes and NEON = 4 lanes) returns the
scalar definition for EVERY length and never reads outside the vectors; the scalar loop equals the
definition; squared L2 is non-negative and zero exactly on equal vectors; `ORDER BY d LIMIT k`
(= sort + take) returns k rows with the k smallest distances.
-/
namespace TurVerif.C24
open TurVerif.Dist

/-! ### helper lemmas -/

def lsum : List Rat → Rat
  | [] => 0
  | x :: xs => x + lsum xs

theorem sq_nonneg (x : Rat) : 0 ≤ x * x := by
  rcases @Rat.le_total 0 x with h | h
  · exact Rat.mul_nonneg h h
  · have h' : 0 ≤ -x := by grind
    have := Rat.mul_nonneg h' h'
    have e : -x * -x = x * x := by grind
    rw [e] at this; exact this

theorem sqd_nonneg (x y : Rat) : 0 ≤ sqd x y := sq_nonneg (x - y)

theorem sqd_zero_iff (x y : Rat) : sqd x y = 0 ↔ x = y := by
  unfold sqd
  constructor
  · intro h
    have : x - y = 0 := by grind
    grind
  · intro h; subst h; grind

theorem scalarLoop_acc (f : Rat → Rat → Rat) (a b : List Rat) (acc : Rat) :
    scalarLoop f a b acc = acc + sumDef f a b := by
  induction a generalizing b acc with
  | nil => simp [scalarLoop, sumDef]; grind
  | cons x xs ih =>
    cases b with
    | nil => simp [scalarLoop, sumDef]; grind
    | cons y ys => simp only [scalarLoop, sumDef]; rw [ih]; grind

theorem sumDef_append (f : Rat → Rat → Rat) (x1 y1 x2 y2 : List Rat) (h : x1.length = y1.length) :
    sumDef f (x1 ++ x2) (y1 ++ y2) = sumDef f x1 y1 + sumDef f x2 y2 := by
  induction x1 generalizing y1 with
  | nil =>
    cases y1 with
    | nil => simp [sumDef]; grind
    | cons _ _ => simp at h
  | cons x xs ih =>
    cases y1 with
    | nil => simp at h
    | cons y ys =>
      simp only [List.cons_append, sumDef]
      rw [ih ys (by simpa using h)]; grind

theorem loadW_eq (v : List Rat) (i w : Nat) (h : i + w ≤ v.length) :
    loadW v i w = some ((v.drop i).take w) := by
  induction w generalizing i with
  | zero => simp [loadW]
  | succ w ih =>
    have hi : i < v.length := by omega
    simp only [loadW]
    rw [List.getElem?_eq_getElem hi]
    simp only []
    rw [ih (i + 1) (by omega)]
    simp only [Option.some.injEq]
    conv => rhs; rw [List.drop_eq_getElem_cons hi, List.take_succ_cons]

theorem fmaddW_sum (f : Rat → Rat → Rat) (acc va vb : List Rat)
    (h1 : va.length = acc.length) (h2 : vb.length = acc.length) :
    (fmaddW f acc va vb).length = acc.length ∧
    lsum (fmaddW f acc va vb) = lsum acc + sumDef f va vb := by
  induction acc generalizing va vb with
  | nil =>
    cases va <;> cases vb <;> simp_all [fmaddW, lsum, sumDef]
    grind
  | cons c cs ih =>
    cases va with
    | nil => simp at h1
    | cons x xs =>
      cases vb with
      | nil => simp at h2
      | cons y ys =>
        have := ih xs ys (by simpa using h1) (by simpa using h2)
        simp only [fmaddW, lsum, sumDef, List.length_cons]
        refine ⟨by omega, ?_⟩
        rw [this.2]; grind

theorem sumDef_drop_split (f : Rat → Rat → Rat) (a b : List Rat) (i w : Nat)
    (ha : i + w ≤ a.length) (hb : i + w ≤ b.length) :
    sumDef f (a.drop i) (b.drop i) =
      sumDef f ((a.drop i).take w) ((b.drop i).take w) +
      sumDef f (a.drop (i + w)) (b.drop (i + w)) := by
  have e1 : a.drop i = (a.drop i).take w ++ a.drop (i + w) := by
    rw [← List.drop_drop]; exact (List.take_append_drop w (a.drop i)).symm
  have e2 : b.drop i = (b.drop i).take w ++ b.drop (i + w) := by
    rw [← List.drop_drop]; exact (List.take_append_drop w (b.drop i)).symm
  conv => lhs; rw [e1, e2]
  apply sumDef_append
  simp only [List.length_take, List.length_drop]; omega

theorem vecLoop_spec (W : Nat) (hW : 0 < W) (f : Rat → Rat → Rat) (a b : List Rat) (n : Nat)
    (ha : a.length = n) (hb : b.length = n) :
    ∀ (fuel i : Nat) (acc : List Rat), i ≤ n → n - i < fuel → acc.length = W →
    ∃ j acc', vecLoop W f a b n fuel i acc = some (j, acc') ∧ j ≤ n ∧ acc'.length = W ∧
      lsum acc' + sumDef f (a.drop j) (b.drop j) = lsum acc + sumDef f (a.drop i) (b.drop i) := by
  intro fuel
  induction fuel with
  | zero => intro i acc _ h; omega
  | succ fuel ih =>
    intro i acc hi hf hacc
    simp only [vecLoop]
    by_cases hc : i + W ≤ n
    · simp only [hc, if_true]
      rw [loadW_eq a i W (by omega), loadW_eq b i W (by omega)]
      simp only []
      have hl1 : ((a.drop i).take W).length = acc.length := by
        simp only [List.length_take, List.length_drop]; omega
      have hl2 : ((b.drop i).take W).length = acc.length := by
        simp only [List.length_take, List.length_drop]; omega
      have hs := fmaddW_sum f acc _ _ hl1 hl2
      obtain ⟨j, acc', e, hj, hlen, hsum⟩ :=
        ih (i + W) (fmaddW f acc ((a.drop i).take W) ((b.drop i).take W)) (by omega) (by omega)
          (by rw [hs.1]; exact hacc)
      refine ⟨j, acc', e, hj, hlen, ?_⟩
      rw [hsum, hs.2, sumDef_drop_split f a b i W (by omega) (by omega)]
      grind
    · simp only [hc, if_false]
      exact ⟨i, acc, rfl, hi, hacc, rfl⟩

theorem tailLoop_spec (f : Rat → Rat → Rat) (a b : List Rat) (n : Nat)
    (ha : a.length = n) (hb : b.length = n) :
    ∀ (fuel i : Nat) (r : Rat), i ≤ n → n - i < fuel →
    tailLoop f a b n fuel i r = some (r + sumDef f (a.drop i) (b.drop i)) := by
  intro fuel
  induction fuel with
  | zero => intro i r _ h; omega
  | succ fuel ih =>
    intro i r hi hf
    simp only [tailLoop]
    by_cases hc : i < n
    · simp only [hc, if_true]
      have h1 : i < a.length := by omega
      have h2 : i < b.length := by omega
      rw [List.getElem?_eq_getElem h1, List.getElem?_eq_getElem h2]
      simp only []
      rw [ih (i + 1) _ (by omega) (by omega)]
      rw [List.drop_eq_getElem_cons h1, List.drop_eq_getElem_cons h2]
      simp only [sumDef, Option.some.injEq]; grind
    · simp only [hc, if_false]
      have : i = n := by omega
      subst this
      rw [List.drop_of_length_le (by omega), List.drop_of_length_le (by omega)]
      simp only [sumDef, Option.some.injEq]; grind

theorem lsum_replicate_zero (W : Nat) : lsum (List.replicate W 0) = 0 := by
  induction W with
  | zero => simp [lsum]
  | succ w ih => simp only [List.replicate_succ, lsum, ih]; grind

theorem hsum8_eq (acc : List Rat) (h : acc.length = 8) : hsum8 acc = lsum acc := by
  match acc, h with
  | [l0, l1, l2, l3, l4, l5, l6, l7], _ => simp only [hsum8, lsum]; grind

theorem hsum4_eq (acc : List Rat) (h : acc.length = 4) : hsum4 acc = lsum acc := by
  match acc, h with
  | [l0, l1, l2, l3], _ => simp only [hsum4, lsum]; grind

/-! ### property theorems -/

/-- the scalar loop (left fold from 0) computes the definition -/
theorem scalar_eq_def (f : Rat → Rat → Rat) (a b : List Rat) :
    scalarLoop f a b 0 = sumDef f a b := by
  rw [scalarLoop_acc]; grind

/-- KERNEL = DEFINITION for every lane width `W > 0`, every horizontal sum that adds the `W` lanes,
every term function, and every pair of equally long vectors of ANY length: the kernel returns a
value (no out-of-bounds read, no fuel exhaustion) and the value is `Σ_i f a_i b_i` — every index
is used exactly once, none beyond `n`. -/
theorem kernel_eq_def (W : Nat) (hW : 0 < W) (hs : List Rat → Rat)
    (hhs : ∀ acc : List Rat, acc.length = W → hs acc = lsum acc)
    (f : Rat → Rat → Rat) (a b : List Rat) (hlen : a.length = b.length) :
    kernel W hs f a b = some (sumDef f a b) := by
  unfold kernel
  simp only []
  obtain ⟨j, acc', e, hj, hl, hsum⟩ :=
    vecLoop_spec W hW f a b a.length rfl hlen.symm (a.length + 1) 0 (List.replicate W 0)
      (by omega) (by omega) (by simp)
  rw [e]
  simp only []
  rw [tailLoop_spec f a b a.length rfl hlen.symm (a.length + 1) j _ hj (by omega)]
  rw [hhs acc' hl, hsum, lsum_replicate_zero]
  simp only [List.drop_zero, Option.some.injEq]; grind

/-- the same statement over length-indexed vectors, for the four kernels of distance.rs -/
theorem kernel_eq_def_vec (n : Nat) (a b : Vector Rat n) :
    l2sqAvx2 a.toList b.toList = some (l2sqDef a.toList b.toList) ∧
    dotAvx2 a.toList b.toList = some (dotDef a.toList b.toList) ∧
    l2sqNeon a.toList b.toList = some (l2sqDef a.toList b.toList) ∧
    dotNeon a.toList b.toList = some (dotDef a.toList b.toList) := by
  have hl : a.toList.length = b.toList.length := by simp
  exact ⟨kernel_eq_def 8 (by omega) hsum8 hsum8_eq sqd _ _ hl,
    kernel_eq_def 8 (by omega) hsum8 hsum8_eq prd _ _ hl,
    kernel_eq_def 4 (by omega) hsum4 hsum4_eq sqd _ _ hl,
    kernel_eq_def 4 (by omega) hsum4 hsum4_eq prd _ _ hl⟩

/-- AVX2 and NEON squared-L2 kernels equal the scalar loop for every length -/
theorem l2sq_kernels_eq_scalar (a b : List Rat) (hlen : a.length = b.length) :
    l2sqAvx2 a b = some (l2sqScalar a b) ∧ l2sqNeon a b = some (l2sqScalar a b) := by
  unfold l2sqAvx2 l2sqNeon l2sqScalar
  rw [scalar_eq_def]
  exact ⟨kernel_eq_def 8 (by omega) hsum8 hsum8_eq sqd a b hlen,
    kernel_eq_def 4 (by omega) hsum4 hsum4_eq sqd a b hlen⟩

/-- cosine: the vector kernels (three accumulators + zero-norm guard) produce the same ordering key
as the scalar loop and as the definition -/
theorem cosine_kernels_eq_def (a b : List Rat) (hlen : a.length = b.length) :
    cosSimSqKernel 8 hsum8 a b = some (cosSimSqDef a b) ∧
    cosSimSqKernel 4 hsum4 a b = some (cosSimSqDef a b) ∧
    cosSimSqScalar a b = cosSimSqDef a b := by
  unfold cosSimSqKernel cosSimSqScalar cosSimSqDef
  simp only [kernel_eq_def 8 (by omega) hsum8 hsum8_eq _ a b hlen,
    kernel_eq_def 4 (by omega) hsum4 hsum4_eq _ a b hlen, scalar_eq_def, and_self]

/-- a kernel run on a second operand that is SHORTER than the first reads out of bounds
(`n = a.len()` drives both loops; the Rust code is `unsafe` and documents equal length as the
caller's obligation) -/
theorem kernel_oob_example :
    l2sqAvx2 [1, 2, 3] [1, 2] = none ∧ l2sqNeon [1, 2, 3, 4, 5] [1, 2, 3, 4] = none := by
  decide

/-- squared L2 is non-negative -/
theorem l2_nonneg (a b : List Rat) : 0 ≤ l2sqDef a b := by
  unfold l2sqDef
  induction a generalizing b with
  | nil => simp [sumDef]
  | cons x xs ih =>
    cases b with
    | nil => simp [sumDef]
    | cons y ys =>
      simp only [sumDef]
      exact Rat.add_nonneg (sqd_nonneg x y) (ih ys)

/-- squared L2 of equally long vectors is zero exactly when the vectors are equal -/
theorem l2_zero_iff (a b : List Rat) (hlen : a.length = b.length) :
    l2sqDef a b = 0 ↔ a = b := by
  induction a generalizing b with
  | nil =>
    cases b with
    | nil => simp [l2sqDef, sumDef]
    | cons _ _ => simp at hlen
  | cons x xs ih =>
    cases b with
    | nil => simp at hlen
    | cons y ys =>
      have ih' := ih ys (by simpa using hlen)
      have h1 := sqd_nonneg x y
      have h2 := l2_nonneg xs ys
      unfold l2sqDef at ih' h2 ⊢
      simp only [sumDef, List.cons.injEq]
      constructor
      · intro h
        have e1 : sqd x y = 0 := by grind
        have e2 : sumDef sqd xs ys = 0 := by grind
        exact ⟨(sqd_zero_iff x y).1 e1, ih'.1 e2⟩
      · intro ⟨hx, hr⟩
        rw [(sqd_zero_iff x y).2 hx, ih'.2 hr]; grind

/-- k-NN specification: sorting by distance and taking `k` yields `min k |rows|` rows, in
non-decreasing distance, that are (with the remaining rows) a permutation of the table, and every
returned row is at least as close as every row that was not returned. -/
theorem knn_spec {α : Type} (d : α → Rat) (rows : List α) (k : Nat) :
    (knn d rows k).length = min k rows.length ∧
    (knn d rows k).Pairwise (fun x y => d x ≤ d y) ∧
    ∃ rest, (knn d rows k ++ rest).Perm rows ∧ ∀ x ∈ knn d rows k, ∀ y ∈ rest, d x ≤ d y := by
  have hperm := List.mergeSort_perm rows (fun x y => decide (d x ≤ d y))
  have hsorted : (rows.mergeSort (fun x y => decide (d x ≤ d y))).Pairwise
      (fun x y => d x ≤ d y) := by
    have := List.pairwise_mergeSort (le := fun x y => decide (d x ≤ d y))
      (fun a b c h1 h2 => by
        simp only [decide_eq_true_eq] at h1 h2 ⊢; exact Rat.le_trans h1 h2)
      (fun a b => by
        simp only [Bool.or_eq_true, decide_eq_true_eq]; exact Rat.le_total) rows
    simpa using this
  unfold knn
  refine ⟨?_, ?_, ?_⟩
  · rw [List.length_take, hperm.length_eq]
  · exact hsorted.sublist (List.take_sublist _ _)
  · refine ⟨(rows.mergeSort (fun x y => decide (d x ≤ d y))).drop k, ?_, ?_⟩
    · rw [List.take_append_drop]; exact hperm
    · have h := hsorted
      rw [← List.take_append_drop k (rows.mergeSort _), List.pairwise_append] at h
      exact h.2.2

/-- a sum of a symmetric term is symmetric in the two vectors -/
theorem sumDef_symm (f : Rat → Rat → Rat) (hf : ∀ x y, f x y = f y x) (a b : List Rat) :
    sumDef f a b = sumDef f b a := by
  induction a generalizing b with
  | nil => cases b <;> simp [sumDef]
  | cons x xs ih =>
    cases b with
    | nil => simp [sumDef]
    | cons y ys => simp only [sumDef]; rw [hf x y, ih ys]

/-- the exact squared L2 distance is symmetric (`a <-> b` and `b <-> a` order rows alike) -/
theorem l2_symm (a b : List Rat) : l2sqDef a b = l2sqDef b a := by
  unfold l2sqDef
  exact sumDef_symm sqd (fun x y => by unfold sqd; grind) a b

/-- the exact dot product (numerator of the cosine distance) is symmetric -/
theorem dot_symm (a b : List Rat) : dotDef a b = dotDef b a := by
  unfold dotDef
  exact sumDef_symm prd (fun x y => by unfold prd; grind) a b

/-- LIMIT monotonicity: the `k` nearest rows are the first `k` of the `k + m` nearest rows -/
theorem knn_prefix {α : Type} (d : α → Rat) (rows : List α) (k m : Nat) :
    knn d rows k = (knn d rows (k + m)).take k := by
  unfold knn
  rw [List.take_take]
  congr 1
  omega

/-- non-vacuity: the hypotheses of `kernel_eq_def` are satisfiable at a length that has both a
full chunk and a tail (9 = 8 + 1), and a concrete k-NN run -/
example : l2sqAvx2 [1, 2, 3, 4, 5, 6, 7, 8, 9] [0, 0, 0, 0, 0, 0, 0, 0, 0] =
    some (l2sqDef [1, 2, 3, 4, 5, 6, 7, 8, 9] [0, 0, 0, 0, 0, 0, 0, 0, 0]) :=
  kernel_eq_def 8 (by omega) hsum8 hsum8_eq sqd _ _ rfl

example : (knn (fun (p : Nat × Rat) => p.2) [(1, 5), (2, 3), (3, 4), (4, 3)] 2).length = 2 :=
  (knn_spec _ _ _).1

example : l2sqDef [1, 2, 3] [4, 6, 3] = l2sqDef [4, 6, 3] [1, 2, 3] := l2_symm _ _

end TurVerif.C24
