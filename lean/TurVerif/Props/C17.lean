import TurVerif.Model.SqlJoin
/-!
C17  Hash join / grace hash join produce the SQL-defined join result.

Theorems about the M-code model `TurVerif.SqlJoin` (`hashJoin`, `graceJoin`: transcriptions of
`StreamingHashJoin` / `GraceHashJoin`) against the M-spec `nlJoinP` (nested loop over a match
predicate) and the shared reference semantics `TurVerif.Sql.join`.
Core `List.Perm` lemmas only (no Mathlib in this lake project).
-/
namespace TurVerif.C17
open TurVerif.Sql TurVerif.SqlJoin

/-! ### generic list lemmas -/
section ListLemmas
variable {α β γ : Type}

theorem flatMap_congr_mem {xs : List α} {f g : α → List β} (h : ∀ x ∈ xs, f x = g x) :
    xs.flatMap f = xs.flatMap g := by
  induction xs with
  | nil => rfl
  | cons a t ih =>
    simp only [List.flatMap_cons]
    rw [h a (List.mem_cons_self), ih (fun x hx => h x (List.mem_cons_of_mem _ hx))]

theorem any_congr_mem {xs : List α} {p q : α → Bool} (h : ∀ x ∈ xs, p x = q x) :
    xs.any p = xs.any q := by
  induction xs with
  | nil => rfl
  | cons a t ih =>
    simp only [List.any_cons]
    rw [h a (List.mem_cons_self), ih (fun x hx => h x (List.mem_cons_of_mem _ hx))]

theorem flatMap_nil_fn (xs : List α) : (xs.flatMap fun _ => ([] : List β)) = [] := by
  induction xs with
  | nil => rfl
  | cons a t ih => simp only [List.flatMap_cons, ih, List.append_nil]

theorem flatMap_append_perm (xs : List α) (f g : α → List β) :
    (xs.flatMap fun x => f x ++ g x).Perm (xs.flatMap f ++ xs.flatMap g) := by
  induction xs with
  | nil => exact List.Perm.refl _
  | cons a t ih =>
    simp only [List.flatMap_cons, List.append_assoc]
    refine List.Perm.append_left _ ?_
    exact ((List.Perm.append_left _ ih).trans (List.perm_append_comm_assoc _ _ _))

/-- loop swap -/
theorem flatMap_swap (L : List α) (R : List β) (f : α → β → List γ) :
    (L.flatMap fun l => R.flatMap (f l)).Perm (R.flatMap fun r => L.flatMap (fun l => f l r)) := by
  induction L with
  | nil => simp only [List.flatMap_nil, flatMap_nil_fn]; exact List.Perm.refl _
  | cons a t ih =>
    simp only [List.flatMap_cons]
    exact ((List.Perm.append_left _ ih).trans (flatMap_append_perm R (f a) _).symm)

/-- pull the "default row" of the unmatched elements to the end -/
theorem flatMap_default_perm (xs : List α) (g d : α → List β) :
    (xs.flatMap fun x => if (g x).isEmpty then d x else g x).Perm
      (xs.flatMap g ++ (xs.filter fun x => (g x).isEmpty).flatMap d) := by
  induction xs with
  | nil => exact List.Perm.refl _
  | cons a t ih =>
    simp only [List.flatMap_cons, List.filter_cons]
    by_cases h : (g a).isEmpty = true
    · have hg : g a = [] := List.isEmpty_iff.mp h
      simp only [hg, List.nil_append]
      exact ((List.Perm.append_left _ ih).trans (List.perm_append_comm_assoc _ _ _))
    · simp only [h, if_false, List.append_assoc, Bool.false_eq_true]
      exact List.Perm.append_left _ ih

theorem isEmpty_filter (xs : List α) (p : α → Bool) : (xs.filter p).isEmpty = !xs.any p := by
  induction xs with
  | nil => rfl
  | cons a t ih =>
    simp only [List.filter_cons, List.any_cons]
    cases h : p a <;> simp [ih]

theorem filter_map_eq_flatMap (xs : List α) (p : α → Bool) (f : α → β) :
    (xs.filter p).map f = xs.flatMap (fun x => if p x then [f x] else []) := by
  induction xs with
  | nil => rfl
  | cons a t ih =>
    simp only [List.filter_cons, List.flatMap_cons]
    cases h : p a <;> simp [ih]

theorem range_flatMap_ite (n a : Nat) (P : List β) :
    ((List.range n).flatMap fun q => if a == q then P else []) = if a < n then P else [] := by
  induction n with
  | zero => simp
  | succ n ih =>
    rw [List.range_succ, List.flatMap_append, ih, List.flatMap_singleton]
    by_cases h1 : a < n
    · have h2 : ¬ a = n := by omega
      have h3 : a < n + 1 := by omega
      simp [h1, h2, h3]
    · by_cases h2 : a = n
      · subst h2; simp
      · have h3 : ¬ a < n + 1 := by omega
        simp [h1, h2, h3]

/-- regrouping: splitting a list into the `n` classes of `f` and concatenating the per-class
results is a permutation of the result over the whole list -/
theorem regroup_perm (n : Nat) (f : α → Nat) (P : α → List β) (xs : List α)
    (hf : ∀ x ∈ xs, f x < n) :
    ((List.range n).flatMap fun q => (xs.filter fun x => f x == q).flatMap P).Perm
      (xs.flatMap P) := by
  induction xs with
  | nil => simp only [List.filter_nil, List.flatMap_nil, flatMap_nil_fn]; exact List.Perm.refl _
  | cons a t ih =>
    have e : (fun q => ((a :: t).filter fun x => f x == q).flatMap P) =
        fun q => (if f a == q then P a else []) ++ (t.filter fun x => f x == q).flatMap P := by
      funext q
      simp only [List.filter_cons]
      cases h : (f a == q) <;> simp
    rw [e]
    refine (flatMap_append_perm _ _ _).trans ?_
    rw [range_flatMap_ite, if_pos (hf a List.mem_cons_self), List.flatMap_cons]
    exact List.Perm.append_left _ (ih (fun x hx => hf x (List.mem_cons_of_mem _ hx)))

end ListLemmas

/-! ### the hash join over an arbitrary match predicate -/

/-- `probeOut` with the bucket lookup replaced by a match predicate -/
def pProbe (k : JoinKind) (m : Row → Row → Bool) (wl : Nat) (build : List Row) (p : Row) :
    List Row :=
  if ((build.filter fun b => m b p).map fun b => b ++ p).isEmpty
  then (if isRightish k then [nulls wl ++ p] else [])
  else (build.filter fun b => m b p).map fun b => b ++ p

def pUnmatchedRows (k : JoinKind) (m : Row → Row → Bool) (build probe : List Row) : List Row :=
  build.filter fun b => isLeftish k && !(probe.any fun p => m b p)

/-- `hashJoin` with the bucket lookup replaced by a match predicate -/
def pJoin (k : JoinKind) (m : Row → Row → Bool) (wl wr : Nat) (build probe : List Row) :
    List Row :=
  probe.flatMap (pProbe k m wl build) ++ (pUnmatchedRows k m build probe).map fun b => b ++ nulls wr

def HCompat (h : List Val → Nat) (lk rk : List Nat) (L R : List Row) : Prop :=
  ∀ l ∈ L, ∀ r ∈ R, keysMatch lk rk l r = true → h (keyVals lk l) = h (keyVals rk r)

theorem hashMatch_eq_keysMatch {h : List Val → Nat} {lk rk : List Nat} {L R : List Row}
    (H : HCompat h lk rk L R) {l r : Row} (hl : l ∈ L) (hr : r ∈ R) :
    hashMatch h lk rk l r = keysMatch lk rk l r := by
  cases hk : keysMatch lk rk l r
  · simp [hashMatch, hk]
  · simp [hashMatch, hk, H l hl r hr hk]

theorem probeOut_eq_pProbe {k : JoinKind} {h : List Val → Nat} {lk rk : List Nat} {wl : Nat}
    {L R : List Row} (H : HCompat h lk rk L R) {p : Row} (hp : p ∈ R) :
    probeOut k h lk rk wl L p = pProbe k (keysMatch lk rk) wl L p := by
  have e : (L.filter fun b => hashMatch h lk rk b p) = L.filter fun b => keysMatch lk rk b p :=
    List.filter_congr (fun b hb => hashMatch_eq_keysMatch H hb hp)
  simp only [probeOut, pProbe, e, List.isEmpty_map]

theorem buildUnmatched_eq {k : JoinKind} {h : List Val → Nat} {lk rk : List Nat} {wr : Nat}
    {L R : List Row} (H : HCompat h lk rk L R) :
    buildUnmatched k h lk rk wr L R =
      (pUnmatchedRows k (keysMatch lk rk) L R).map fun b => b ++ nulls wr := by
  have e : ∀ b ∈ L, (R.any fun p => hashMatch h lk rk b p) = R.any fun p => keysMatch lk rk b p :=
    fun b hb => any_congr_mem (fun p hp => hashMatch_eq_keysMatch H hb hp)
  unfold buildUnmatched pUnmatchedRows
  cases hk : isLeftish k
  · simp
  · simp only [if_true, Bool.true_and]
    rw [List.filter_congr (fun b hb => by rw [e b hb])]

theorem hashJoin_eq_pJoin {k : JoinKind} {h : List Val → Nat} {lk rk : List Nat} {wl wr : Nat}
    {L R : List Row} (H : HCompat h lk rk L R) :
    hashJoin k h lk rk wl wr L R = pJoin k (keysMatch lk rk) wl wr L R := by
  unfold hashJoin pJoin
  rw [buildUnmatched_eq H, flatMap_congr_mem (fun p hp => probeOut_eq_pProbe H hp)]

/-! ### predicate hash join = nested loop join (up to row order) -/

theorem probe_perm (k : JoinKind) (m : Row → Row → Bool) (wl : Nat) (L R : List Row) :
    (R.flatMap (pProbe k m wl L)).Perm
      (nlInner m L R ++ if isRightish k then nlRightOnly m wl L R else []) := by
  have h1 := flatMap_default_perm R
    (fun p => (L.filter fun b => m b p).map fun b => b ++ p)
    (fun p => if isRightish k then [nulls wl ++ p] else [])
  refine List.Perm.trans h1 (List.Perm.append ?_ ?_)
  · -- matched pairs: loop swap
    have e1 : (fun p => (L.filter fun b => m b p).map fun b => b ++ p) =
        fun p => L.flatMap (fun l => if m l p then [l ++ p] else []) := by
      funext p; exact filter_map_eq_flatMap _ _ _
    have e2 : (fun l => nlMatches m l R) =
        fun l => R.flatMap (fun r => if m l r then [l ++ r] else []) := by
      funext l; exact filter_map_eq_flatMap _ _ _
    unfold nlInner
    rw [e1, e2]
    exact (flatMap_swap L R (fun l r => if m l r then [l ++ r] else [])).symm
  · -- probe rows without a match
    cases hk : isRightish k
    · simp only [Bool.false_eq_true, if_false, flatMap_nil_fn]; exact List.Perm.refl _
    · simp only [if_true, List.isEmpty_map, isEmpty_filter]
      unfold nlRightOnly
      rw [List.map_eq_flatMap]

theorem nlLeft_perm (m : Row → Row → Bool) (wr : Nat) (L R : List Row) :
    (nlLeft m wr L R).Perm
      (nlInner m L R ++ (L.filter fun l => !(R.any fun r => m l r)).map fun l => l ++ nulls wr) := by
  have h1 := flatMap_default_perm L (fun l => nlMatches m l R) (fun l => [l ++ nulls wr])
  unfold nlLeft nlInner
  refine h1.trans ?_
  rw [List.map_eq_flatMap]
  simp only [nlMatches, List.isEmpty_map, isEmpty_filter]
  exact List.Perm.refl _

theorem pUnmatchedRows_leftish {k : JoinKind} (hk : isLeftish k = true) (m : Row → Row → Bool)
    (L R : List Row) : pUnmatchedRows k m L R = L.filter fun l => !(R.any fun r => m l r) := by
  simp [pUnmatchedRows, hk]

theorem pUnmatchedRows_not_leftish {k : JoinKind} (hk : isLeftish k = false)
    (m : Row → Row → Bool) (L R : List Row) : pUnmatchedRows k m L R = [] := by
  simp [pUnmatchedRows, hk]

theorem pJoin_perm_nl {k : JoinKind} (hk : k ≠ .cross) (m : Row → Row → Bool) (wl wr : Nat)
    (L R : List Row) : (pJoin k m wl wr L R).Perm (nlJoinP k m wl wr L R) := by
  have hp := probe_perm k m wl L R
  have hl := nlLeft_perm m wr L R
  unfold pJoin
  cases k with
  | cross => exact absurd rfl hk
  | inner =>
    rw [pUnmatchedRows_not_leftish rfl]
    simpa [isRightish, nlJoinP] using hp
  | left =>
    rw [pUnmatchedRows_leftish rfl]
    have hp' : (R.flatMap (pProbe .left m wl L)).Perm (nlInner m L R) := by
      simpa [isRightish] using hp
    exact (List.Perm.append_right _ hp').trans hl.symm
  | right =>
    rw [pUnmatchedRows_not_leftish rfl]
    simpa [isRightish, nlJoinP] using hp
  | full =>
    rw [pUnmatchedRows_leftish rfl]
    have hp' : (R.flatMap (pProbe .full m wl L)).Perm (nlInner m L R ++ nlRightOnly m wl L R) := by
      simpa [isRightish] using hp
    show List.Perm _ (nlLeft m wr L R ++ nlRightOnly m wl L R)
    refine (List.Perm.append_right _ hp').trans ?_
    refine List.Perm.trans ?_ (List.Perm.append_right _ hl.symm)
    rw [List.append_assoc, List.append_assoc]
    exact List.Perm.append_left _ List.perm_append_comm

/-! ### partitioning (grace hash join) -/

theorem HCompat.mono {h : List Val → Nat} {lk rk : List Nat} {L R L' R' : List Row}
    (H : HCompat h lk rk L R) (hL : ∀ l ∈ L', l ∈ L) (hR : ∀ r ∈ R', r ∈ R) :
    HCompat h lk rk L' R' :=
  fun l hl r hr hm => H l (hL l hl) r (hR r hr) hm

/-- joining one partition pair: the probe rows of class `q` see exactly their matches in the whole
build side, and the unmatched build rows of class `q` are the class-`q` unmatched build rows -/
theorem pJoin_partition_eq (k : JoinKind) (m : Row → Row → Bool) (wl wr : Nat) (L R : List Row)
    (fL fR : Row → Nat) (hc : ∀ l ∈ L, ∀ r ∈ R, m l r = true → fL l = fR r) (q : Nat) :
    pJoin k m wl wr (L.filter fun l => fL l == q) (R.filter fun r => fR r == q) =
      (R.filter fun r => fR r == q).flatMap (pProbe k m wl L) ++
        ((pUnmatchedRows k m L R).filter fun l => fL l == q).map fun b => b ++ nulls wr := by
  unfold pJoin
  congr 1
  · refine flatMap_congr_mem (fun p hp => ?_)
    have hpR : p ∈ R := (List.mem_filter.mp hp).1
    have hpq : fR p = q := by simpa using (List.mem_filter.mp hp).2
    have e : ((L.filter fun l => fL l == q).filter fun b => m b p) = L.filter fun b => m b p := by
      rw [List.filter_filter]
      refine List.filter_congr (fun b hb => ?_)
      cases hm : m b p
      · rfl
      · have : fL b = q := (hc b hb p hpR hm).trans hpq
        simp [this]
    unfold pProbe
    rw [e]
  · congr 1
    unfold pUnmatchedRows
    rw [List.filter_filter, List.filter_filter]
    refine List.filter_congr (fun b hb => ?_)
    cases hq : (fL b == q)
    · simp
    · have hbq : fL b = q := by simpa using hq
      have e : ((R.filter fun r => fR r == q).any fun p => m b p) = R.any fun p => m b p := by
        rw [List.any_filter]
        refine any_congr_mem (fun r hr => ?_)
        cases hm : m b r
        · simp
        · have : fR r = q := (hc b hb r hr hm).symm.trans hbq
          simp [this]
      rw [e]; simp

theorem pJoin_partition_perm (k : JoinKind) (m : Row → Row → Bool) (wl wr : Nat) (L R : List Row)
    (n : Nat) (fL fR : Row → Nat) (hL : ∀ l ∈ L, fL l < n) (hR : ∀ r ∈ R, fR r < n)
    (hc : ∀ l ∈ L, ∀ r ∈ R, m l r = true → fL l = fR r) :
    ((List.range n).flatMap fun q =>
      pJoin k m wl wr (L.filter fun l => fL l == q) (R.filter fun r => fR r == q)).Perm
      (pJoin k m wl wr L R) := by
  have e : (fun q => pJoin k m wl wr (L.filter fun l => fL l == q) (R.filter fun r => fR r == q)) =
      fun q => (R.filter fun r => fR r == q).flatMap (pProbe k m wl L) ++
        ((pUnmatchedRows k m L R).filter fun l => fL l == q).flatMap fun b => [b ++ nulls wr] := by
    funext q
    rw [pJoin_partition_eq k m wl wr L R fL fR hc q, List.map_eq_flatMap]
  rw [e]
  refine (flatMap_append_perm _ _ _).trans ?_
  unfold pJoin
  rw [List.map_eq_flatMap]
  refine List.Perm.append (regroup_perm n fR _ R hR) (regroup_perm n fL _ _ (fun l hl => ?_))
  exact hL l (List.mem_filter.mp hl).1

theorem graceJoin_eq_pJoin {n : Nat} {sp : Row → Row} {k : JoinKind} {h : List Val → Nat}
    {lk rk : List Nat} {wl wr : Nat} {L R : List Row} (hsp : ∀ r, sp r = r)
    (H : HCompat h lk rk L R) :
    graceJoin n sp k h lk rk wl wr L R =
      (List.range n).flatMap fun q =>
        pJoin k (keysMatch lk rk) wl wr (L.filter fun l => h (keyVals lk l) % n == q)
          (R.filter fun r => h (keyVals rk r) % n == q) := by
  have hid : sp = id := funext hsp
  unfold graceJoin
  refine flatMap_congr_mem (fun q _ => ?_)
  rw [hid, List.map_id, List.map_id]
  exact hashJoin_eq_pJoin
    (H.mono (fun l hl => (List.mem_filter.mp hl).1) (fun r hr => (List.mem_filter.mp hr).1))

/-! ### helper definitions and lemmas for the property theorems -/


/-- the four join kinds with an equi-join key -/
def JK4 (k : JoinKind) : Prop := k = .inner ∨ k = .left ∨ k = .right ∨ k = .full

theorem JK4_iff (k : JoinKind) : JK4 k ↔ k ≠ .cross := by
  cases k <;> simp [JK4]

theorem keyValEq_null_left (b : Val) : keyValEq .null b = false := by
  simp [keyValEq, Val.cmp]

theorem keyValEq_null_right (a : Val) : keyValEq a .null = false := by
  cases a <;> simp [keyValEq, Val.cmp]

theorem matchesOf_eq {on : Expr} {m : Row → Row → Bool} {l : Row} {R : List Row}
    (H : ∀ r ∈ R, keeps on (l ++ r) = .ok (m l r)) :
    matchesOf on l R = .ok (nlMatches m l R) := by
  induction R with
  | nil => rfl
  | cons r t ih =>
    have h1 := H r List.mem_cons_self
    have h2 := ih (fun x hx => H x (List.mem_cons_of_mem _ hx))
    simp only [matchesOf, h1, h2, nlMatches, List.filter_cons]
    cases m l r <;> simp

theorem innerJoin_eq {on : Expr} {m : Row → Row → Bool} {L R : List Row}
    (H : ∀ l ∈ L, ∀ r ∈ R, keeps on (l ++ r) = .ok (m l r)) :
    innerJoin on L R = .ok (nlInner m L R) := by
  induction L with
  | nil => rfl
  | cons l t ih =>
    have h1 := matchesOf_eq (H l List.mem_cons_self)
    have h2 := ih (fun x hx => H x (List.mem_cons_of_mem _ hx))
    simp only [innerJoin, h1, h2, nlInner, List.flatMap_cons]

theorem leftJoin_eq {on : Expr} {m : Row → Row → Bool} {wr : Nat} {L R : List Row}
    (H : ∀ l ∈ L, ∀ r ∈ R, keeps on (l ++ r) = .ok (m l r)) :
    leftJoin on wr L R = .ok (nlLeft m wr L R) := by
  induction L with
  | nil => rfl
  | cons l t ih =>
    have h1 := matchesOf_eq (H l List.mem_cons_self)
    have h2 := ih (fun x hx => H x (List.mem_cons_of_mem _ hx))
    simp only [leftJoin, h1, h2, nlLeft, List.flatMap_cons]

theorem hasMatch_eq {on : Expr} {m : Row → Row → Bool} {L : List Row} {r : Row}
    (H : ∀ l ∈ L, keeps on (l ++ r) = .ok (m l r)) :
    hasMatch on L r = .ok (L.any fun l => m l r) := by
  induction L with
  | nil => rfl
  | cons l t ih =>
    have h1 := H l List.mem_cons_self
    have h2 := ih (fun x hx => H x (List.mem_cons_of_mem _ hx))
    simp only [hasMatch, h1, h2, List.any_cons]

theorem rightOnly_eq {on : Expr} {m : Row → Row → Bool} {wl : Nat} {L R : List Row}
    (H : ∀ l ∈ L, ∀ r ∈ R, keeps on (l ++ r) = .ok (m l r)) :
    rightOnly on wl L R = .ok (nlRightOnly m wl L R) := by
  induction R with
  | nil => rfl
  | cons r t ih =>
    have h1 : hasMatch on L r = .ok (L.any fun l => m l r) :=
      hasMatch_eq (fun l hl => H l hl r List.mem_cons_self)
    have h2 := ih (fun l hl x hx => H l hl x (List.mem_cons_of_mem _ hx))
    simp only [rightOnly, h1, h2, nlRightOnly, List.filter_cons]
    cases (L.any fun l => m l r) <;> simp

theorem truth_ofTri (tv : Tri) : (Val.ofTri tv).truth = .ok tv := by cases tv <;> rfl

theorem isTrue_and (x y : Tri) : (x.and y).isTrue = (x.isTrue && y.isTrue) := by
  cases x <;> cases y <;> rfl

theorem getElem?_append_left_of_some {l r : Row} {i : Nat} {a : Val} (h : l[i]? = some a) :
    (l ++ r)[i]? = some a := by
  have hi : i < l.length := by
    rcases Nat.lt_or_ge i l.length with hlt | hge
    · exact hlt
    · rw [List.getElem?_eq_none hge] at h; cases h
  rw [List.getElem?_append_left hi, h]

theorem getElem?_append_right_add {l r : Row} {wl i : Nat} (hw : l.length = wl) :
    (l ++ r)[wl + i]? = r[i]? := by
  subst hw
  rw [List.getElem?_append_right (Nat.le_add_right _ _), Nat.add_sub_cancel_left]

/-- one `l.kᵢ = r.kᵢ` comparison over the concatenated row -/
theorem eval_eqCols {l r : Row} {wl li ri : Nat} {a b : Val} {o : Option Ordering}
    (hw : l.length = wl) (ha : l[li]? = some a) (hb : r[ri]? = some b)
    (hc : Val.cmp a b = .ok o) :
    ∃ x : Tri, eval (l ++ r) (.bin .eq (.col li) (.col (wl + ri))) = .ok (Val.ofTri x) ∧
      x.isTrue = keyValEq a b := by
  have e1 := getElem?_append_left_of_some (r := r) ha
  have e2 : (l ++ r)[wl + ri]? = some b := by rw [getElem?_append_right_add hw, hb]
  cases o with
  | none => exact ⟨.u, by simp [eval, e1, e2, cmpVals, hc, Val.ofTri], by simp [keyValEq, hc, Tri.isTrue]⟩
  | some ord =>
    cases ord
    · exact ⟨.f, by simp [eval, e1, e2, cmpVals, hc, Val.ofTri, cmpHolds],
        by simp [keyValEq, hc, Tri.isTrue]⟩
    · exact ⟨.t, by simp [eval, e1, e2, cmpVals, hc, Val.ofTri, cmpHolds],
        by simp [keyValEq, hc, Tri.isTrue]⟩
    · exact ⟨.f, by simp [eval, e1, e2, cmpVals, hc, Val.ofTri, cmpHolds],
        by simp [keyValEq, hc, Tri.isTrue]⟩

theorem eval_eqOn {l r : Row} {wl : Nat} (hw : l.length = wl) :
    ∀ (lk rk : List Nat), lk.length = rk.length →
      (∀ p ∈ lk.zip rk, ∃ a b o, l[p.1]? = some a ∧ r[p.2]? = some b ∧ Val.cmp a b = .ok o) →
      ∃ tv : Tri, eval (l ++ r) (eqOn wl lk rk) = .ok (Val.ofTri tv) ∧
        tv.isTrue = keysMatchGo l r lk rk := by
  intro lk
  induction lk with
  | nil =>
    intro rk hlen _
    cases rk with
    | nil => exact ⟨.t, by simp [eqOn, eval, Val.ofTri], rfl⟩
    | cons _ _ => simp at hlen
  | cons li ls ih =>
    intro rk hlen H
    cases rk with
    | nil => simp at hlen
    | cons ri rs =>
      obtain ⟨a, b, o, ha, hb, hc⟩ := H (li, ri) (by simp)
      obtain ⟨x, hx, hxt⟩ := eval_eqCols hw ha hb hc
      obtain ⟨tv, ht, htt⟩ := ih rs (by simpa using hlen)
        (fun p hp => H p (by simp [hp]))
      refine ⟨x.and tv, ?_, ?_⟩
      · show eval (l ++ r) (.bin .and (.bin .eq (.col li) (.col (wl + ri))) (eqOn wl ls rs)) = _
        rw [eval, hx, ht]
        simp [truth_ofTri]
      · rw [isTrue_and, hxt, htt]
        simp [keysMatchGo, ha, hb]

/-- a hash function that, like `Value::hash_to`, separates `Int(1)` from `Float(1.0)` -/
def splitHash : List Val → Nat
  | [.int _] => 0
  | _ => 1

theorem keysMatch_int_flt_one : keysMatch [0] [0] [.int 1] [.flt 1] = true := by
  decide

/-- a hash function compatible with `Value::compare` (equal INT and DOUBLE keys collide) -/
def valueHash : List Val → Nat
  | [.int i] => i.toNat
  | [.flt q] => (q.num / q.den).toNat
  | _ => 0

def exL : List Row :=
  [[.int 1, .int 10], [.null, .int 11], [.int 1, .int 12], [.int 2, .int 13], [.int 5, .int 14]]
def exR : List Row := [[.int 1], [.null], [.flt 2], [.int 2], [.int 7]]

theorem ex_hcompat : HCompat valueHash [0] [0] exL exR := by
  unfold HCompat; decide

theorem ex_typed : ∀ l ∈ exL, ∀ r ∈ exR,
    ∃ a b o, l[0]? = some a ∧ r[0]? = some b ∧ Val.cmp a b = .ok o := by
  intro l hl r hr
  simp only [exL, exR, List.mem_cons, List.not_mem_nil, or_false] at hl hr
  rcases hl with rfl | rfl | rfl | rfl | rfl <;> rcases hr with rfl | rfl | rfl | rfl | rfl <;>
    exact ⟨_, _, _, rfl, rfl, rfl⟩

/-! ## property theorems -/

/-! ### 1. NULL keys never match -/

theorem keysMatch_null_left {l r : Row} {li ri : Nat} {lk rk : List Nat}
    (hl : l[li]? = some .null) : keysMatch (li :: lk) (ri :: rk) l r = false := by
  cases hr : r[ri]? <;> simp [keysMatch, keysMatchGo, hl, hr, keyValEq_null_left]

theorem keysMatch_null_right {l r : Row} {li ri : Nat} {lk rk : List Nat}
    (hr : r[ri]? = some .null) : keysMatch (li :: lk) (ri :: rk) l r = false := by
  cases hl : l[li]? <;> simp [keysMatch, keysMatchGo, hl, hr, keyValEq_null_right]

/-! ### 2. streaming hash join = nested loop join -/

theorem hash_eq_nl {k : JoinKind} {h : List Val → Nat} {lk rk : List Nat} {wl wr : Nat}
    {L R : List Row} (hk : k ≠ .cross) (H : HCompat h lk rk L R) :
    (hashJoin k h lk rk wl wr L R).Perm (nlJoinP k (keysMatch lk rk) wl wr L R) := by
  rw [hashJoin_eq_pJoin H]
  exact pJoin_perm_nl hk _ wl wr L R

theorem hash_eq_nl_inner {h : List Val → Nat} {lk rk : List Nat} {wl wr : Nat} {L R : List Row}
    (H : HCompat h lk rk L R) :
    (hashJoin .inner h lk rk wl wr L R).Perm (nlInner (keysMatch lk rk) L R) :=
  hash_eq_nl (by decide) H

theorem hash_eq_nl_left {h : List Val → Nat} {lk rk : List Nat} {wl wr : Nat} {L R : List Row}
    (H : HCompat h lk rk L R) :
    (hashJoin .left h lk rk wl wr L R).Perm (nlLeft (keysMatch lk rk) wr L R) :=
  hash_eq_nl (by decide) H

/-! ### 3. grace hash join = nested loop join -/

theorem grace_eq_nl {n : Nat} {sp : Row → Row} {k : JoinKind} {h : List Val → Nat}
    {lk rk : List Nat} {wl wr : Nat} {L R : List Row} (hn : 0 < n) (hsp : ∀ r, sp r = r)
    (hk : k ≠ .cross) (H : HCompat h lk rk L R) :
    (graceJoin n sp k h lk rk wl wr L R).Perm (nlJoinP k (keysMatch lk rk) wl wr L R) := by
  rw [graceJoin_eq_pJoin hsp H]
  refine List.Perm.trans ?_ (pJoin_perm_nl hk _ wl wr L R)
  refine pJoin_partition_perm k _ wl wr L R n _ _ (fun l _ => Nat.mod_lt _ hn)
    (fun r _ => Nat.mod_lt _ hn) (fun l hl r hr hm => ?_)
  show h (keyVals lk l) % n = h (keyVals rk r) % n
  rw [H l hl r hr hm]

/-! ### 4. the hash-compatibility hypothesis is necessary -/

theorem grace_hash_incompatible_counterexample :
    keysMatch [0] [0] [.int 1] [.flt 1] = true ∧
    nlJoinP .inner (keysMatch [0] [0]) 1 1 [[.int 1]] [[.flt 1]] = [[.int 1, .flt 1]] ∧
    graceJoin 2 id .inner splitHash [0] [0] 1 1 [[.int 1]] [[.flt 1]] = [] ∧
    hashJoin .inner splitHash [0] [0] 1 1 [[.int 1]] [[.flt 1]] = [] ∧
    ¬ HCompat splitHash [0] [0] [[.int 1]] [[.flt 1]] := by
  refine ⟨keysMatch_int_flt_one, ?_, by decide, by decide, ?_⟩
  · simp [nlJoinP, nlInner, nlMatches, keysMatch_int_flt_one]
  · intro H
    have := H [.int 1] (by simp) [.flt 1] (by simp) keysMatch_int_flt_one
    revert this
    decide

/-! ### 5. the predicate-level spec is `Sql.join` when ON evaluates without error -/

theorem nl_eq_sql_join {k : JoinKind} {on : Expr} {m : Row → Row → Bool} {wl wr : Nat}
    {L R : List Row} (hk : k ≠ .cross)
    (H : ∀ l ∈ L, ∀ r ∈ R, keeps on (l ++ r) = .ok (m l r)) :
    TurVerif.Sql.join k on wl wr L R = .ok (nlJoinP k m wl wr L R) := by
  cases k with
  | cross => exact absurd rfl hk
  | inner => exact innerJoin_eq H
  | left => exact leftJoin_eq H
  | right => simp only [join, innerJoin_eq H, rightOnly_eq H, nlJoinP]
  | full => simp only [join, leftJoin_eq H, rightOnly_eq H, nlJoinP]

theorem nl_cross_eq_sql_join {on : Expr} {m : Row → Row → Bool} {wl wr : Nat} {L R : List Row} :
    TurVerif.Sql.join .cross on wl wr L R = .ok (nlJoinP .cross m wl wr L R) :=
  innerJoin_eq (fun _ _ _ _ => by simp [keeps, eval, Val.truth, Tri.isTrue])

/-! ### 6. the 3VL truth of the equi-join ON expression is `keys_match_static` -/

/-- key lists of equal length, every key index in range, every compared pair type-compatible -/
theorem keeps_eqOn {l r : Row} {wl : Nat} {lk rk : List Nat} (hw : l.length = wl)
    (hlen : lk.length = rk.length)
    (H : ∀ p ∈ lk.zip rk, ∃ a b o, l[p.1]? = some a ∧ r[p.2]? = some b ∧ Val.cmp a b = .ok o) :
    keeps (eqOn wl lk rk) (l ++ r) = .ok (keysMatch lk rk l r) := by
  obtain ⟨tv, ht, htt⟩ := eval_eqOn hw lk rk hlen H
  simp [keeps, ht, truth_ofTri, htt, keysMatch, hlen]

theorem keeps_eqOn_single {l r : Row} {wl li ri : Nat} {a b : Val} {o : Option Ordering}
    (hw : l.length = wl) (ha : l[li]? = some a) (hb : r[ri]? = some b)
    (hc : Val.cmp a b = .ok o) :
    keeps (eqOn wl [li] [ri]) (l ++ r) = .ok (keysMatch [li] [ri] l r) :=
  keeps_eqOn hw rfl (fun p hp => by
    have : p = (li, ri) := by simpa using hp
    subst this
    exact ⟨a, b, o, ha, hb, hc⟩)

/-! ### 7. grace hash join = `Sql.join` on the equi-join ON expression (one key column) -/

theorem grace_eq_sql_join {n : Nat} {sp : Row → Row} {k : JoinKind} {h : List Val → Nat}
    {li ri : Nat} {wl wr : Nat} {L R : List Row} (hn : 0 < n) (hsp : ∀ r, sp r = r)
    (hk : k ≠ .cross) (H : HCompat h [li] [ri] L R) (hw : ∀ l ∈ L, l.length = wl)
    (hty : ∀ l ∈ L, ∀ r ∈ R, ∃ a b o, l[li]? = some a ∧ r[ri]? = some b ∧ Val.cmp a b = .ok o) :
    ∃ out, TurVerif.Sql.join k (eqOn wl [li] [ri]) wl wr L R = .ok out ∧
      (graceJoin n sp k h [li] [ri] wl wr L R).Perm out := by
  refine ⟨nlJoinP k (keysMatch [li] [ri]) wl wr L R, ?_, grace_eq_nl hn hsp hk H⟩
  refine nl_eq_sql_join hk (fun l hl r hr => ?_)
  obtain ⟨a, b, o, ha, hb, hc⟩ := hty l hl r hr
  exact keeps_eqOn_single (hw l hl) ha hb hc

/-- the same for key lists -/
theorem grace_eq_sql_join_keys {n : Nat} {sp : Row → Row} {k : JoinKind} {h : List Val → Nat}
    {lk rk : List Nat} {wl wr : Nat} {L R : List Row} (hn : 0 < n) (hsp : ∀ r, sp r = r)
    (hk : k ≠ .cross) (H : HCompat h lk rk L R) (hw : ∀ l ∈ L, l.length = wl)
    (hlen : lk.length = rk.length)
    (hty : ∀ l ∈ L, ∀ r ∈ R, ∀ p ∈ lk.zip rk,
      ∃ a b o, l[p.1]? = some a ∧ r[p.2]? = some b ∧ Val.cmp a b = .ok o) :
    ∃ out, TurVerif.Sql.join k (eqOn wl lk rk) wl wr L R = .ok out ∧
      (graceJoin n sp k h lk rk wl wr L R).Perm out :=
  ⟨nlJoinP k (keysMatch lk rk) wl wr L R,
    nl_eq_sql_join hk (fun l hl r hr => keeps_eqOn (hw l hl) hlen (hty l hl r hr)),
    grace_eq_nl hn hsp hk H⟩

/-! ### 8. ON vs WHERE -/

theorem inner_on_where_equiv (m : Row → Row → Bool) (q : Row → Bool) (L R : List Row) :
    (nlInner m L R).filter q = nlInner (fun l r => m l r && q (l ++ r)) L R := by
  unfold nlInner
  rw [List.filter_flatMap]
  refine flatMap_congr_mem (fun l _ => ?_)
  unfold nlMatches
  rw [List.filter_map, List.filter_filter]
  congr 1
  refine List.filter_congr (fun r _ => ?_)
  simp [Bool.and_comm]

theorem left_on_where_differ :
    let m : Row → Row → Bool := keysMatch [0] [0]
    let q : Row → Bool := fun _ => false
    nlLeft (fun l r => m l r && q (l ++ r)) 1 [[.int 1]] [[.int 1]] = [[.int 1, .null]] ∧
    (nlLeft m 1 [[.int 1]] [[.int 1]]).filter q = [] ∧
    nlLeft m 1 [[.int 1]] [[.int 1]] = [[.int 1, .int 1]] := by decide

/-! ### 9. sufficient condition for hash compatibility -/

theorem hcompat_of_exact {h : List Val → Nat} {lk rk : List Nat} {L R : List Row}
    (H : ∀ l ∈ L, ∀ r ∈ R, keysMatch lk rk l r = true → keyVals lk l = keyVals rk r) :
    HCompat h lk rk L R :=
  fun l hl r hr hm => by rw [H l hl r hr hm]

theorem keyValEq_int (a b : Int) : keyValEq (.int a) (.int b) = true ↔ a = b := by
  simp only [keyValEq, Val.cmp]
  rcases Int.lt_trichotomy a b with h | h | h
  · have : compare a b = .lt := Int.compare_eq_lt.mpr h
    rw [this]; simp; omega
  · subst h; simp
  · have : compare a b = .gt := Int.compare_eq_gt.mpr h
    rw [this]; simp; omega

/-! ### non-vacuity: a concrete instance with NULL, duplicate and INT/DOUBLE keys -/

/-- the three operators emit the same rows in three different orders -/
example :
    graceJoin 3 id .full valueHash [0] [0] 2 1 exL exR =
      [[.null, .null, .null], [.null, .int 11, .null],
       [.int 1, .int 10, .int 1], [.int 1, .int 12, .int 1], [.null, .null, .int 7],
       [.int 2, .int 13, .flt 2], [.int 2, .int 13, .int 2], [.int 5, .int 14, .null]] ∧
    hashJoin .full valueHash [0] [0] 2 1 exL exR =
      [[.int 1, .int 10, .int 1], [.int 1, .int 12, .int 1], [.null, .null, .null],
       [.int 2, .int 13, .flt 2], [.int 2, .int 13, .int 2], [.null, .null, .int 7],
       [.null, .int 11, .null], [.int 5, .int 14, .null]] ∧
    nlJoinP .full (keysMatch [0] [0]) 2 1 exL exR =
      [[.int 1, .int 10, .int 1], [.null, .int 11, .null], [.int 1, .int 12, .int 1],
       [.int 2, .int 13, .flt 2], [.int 2, .int 13, .int 2], [.int 5, .int 14, .null],
       [.null, .null, .null], [.null, .null, .int 7]] := by
  refine ⟨by decide, by decide, by decide⟩

example : (graceJoin 3 id .full valueHash [0] [0] 2 1 exL exR).Perm
    (nlJoinP .full (keysMatch [0] [0]) 2 1 exL exR) :=
  grace_eq_nl (by decide) (fun _ => rfl) (by decide) ex_hcompat

example : ∃ out, TurVerif.Sql.join .full (eqOn 2 [0] [0]) 2 1 exL exR = .ok out ∧
    (graceJoin 3 id .full valueHash [0] [0] 2 1 exL exR).Perm out :=
  grace_eq_sql_join (by decide) (fun _ => rfl) (by decide) ex_hcompat (by decide) ex_typed

/-! ### 10. every hash function, when key equality is exact on the data; verdict-logic names -/

/-- values whose `Value::compare`-equality class is a singleton: everything except DOUBLE -/
def exactVal : Val → Bool
  | .flt _ => false
  | _ => true

theorem keyValEq_exact {a b : Val} (ha : exactVal a = true) (hb : exactVal b = true)
    (h : keyValEq a b = true) : a = b := by
  cases a <;> cases b <;> simp [keyValEq, Val.cmp, exactVal] at ha hb h ⊢
  · rename_i x y
    split at h <;> simp_all
  · rename_i x y
    split at h <;> simp_all
  · rename_i x y
    split at h <;> simp_all


theorem keysMatchGo_exact {l r : Row} : ∀ {lk rk : List Nat}, lk.length = rk.length →
    (∀ v ∈ keyVals lk l, exactVal v = true) → (∀ v ∈ keyVals rk r, exactVal v = true) →
    keysMatchGo l r lk rk = true → keyVals lk l = keyVals rk r
  | [], [], _, _, _, _ => rfl
  | [], _ :: _, h, _, _, _ => by simp at h
  | _ :: _, [], h, _, _, _ => by simp at h
  | li :: ls, ri :: rs, hlen, hl, hr, hm => by
    simp only [keysMatchGo, Bool.and_eq_true] at hm
    obtain ⟨h1, h2⟩ := hm
    cases ha : l[li]? with
    | none => simp [ha] at h1
    | some a =>
      cases hb : r[ri]? with
      | none => simp [ha, hb] at h1
      | some b =>
        simp only [ha, hb] at h1
        have hl' : ∀ v ∈ keyVals ls l, exactVal v = true := fun v hv => hl v (by simp [keyVals, ha] at hv ⊢; exact Or.inr hv)
        have hr' : ∀ v ∈ keyVals rs r, exactVal v = true := fun v hv => hr v (by simp [keyVals, hb] at hv ⊢; exact Or.inr hv)
        have ea : exactVal a = true := hl a (by simp [keyVals, ha])
        have eb : exactVal b = true := hr b (by simp [keyVals, hb])
        have := keyValEq_exact ea eb h1
        have ih := keysMatchGo_exact (by simpa using hlen) hl' hr' h2
        simp only [keyVals, List.filterMap_cons, ha, hb] at ih ⊢
        rw [this, ih]

/-- if no key value is a DOUBLE, matching keys are equal value lists, so EVERY hash function is
compatible: no hypothesis on `h` at all -/
theorem hcompat_of_exact_keys {h : List Val → Nat} {lk rk : List Nat} {L R : List Row}
    (hL : ∀ l ∈ L, ∀ v ∈ keyVals lk l, exactVal v = true)
    (hR : ∀ r ∈ R, ∀ v ∈ keyVals rk r, exactVal v = true) : HCompat h lk rk L R := by
  intro l hl r hr hm
  simp only [keysMatch, Bool.and_eq_true, beq_iff_eq] at hm
  rw [keysMatchGo_exact hm.1 (hL l hl) (hR r hr) hm.2]

/-- grace hash join = nested loop join for ANY hash function and ANY partition count when the key
columns hold no DOUBLE values (INT / TEXT / BOOLEAN / NULL keys, duplicates allowed) -/
theorem grace_eq_nl_any_hash {n : Nat} {sp : Row → Row} {k : JoinKind} (h : List Val → Nat)
    {lk rk : List Nat} {wl wr : Nat} {L R : List Row} (hn : 0 < n) (hsp : ∀ r, sp r = r)
    (hk : k ≠ .cross)
    (hL : ∀ l ∈ L, ∀ v ∈ keyVals lk l, exactVal v = true)
    (hR : ∀ r ∈ R, ∀ v ∈ keyVals rk r, exactVal v = true) :
    (graceJoin n sp k h lk rk wl wr L R).Perm (nlJoinP k (keysMatch lk rk) wl wr L R) :=
  grace_eq_nl hn hsp hk (hcompat_of_exact_keys hL hR)

/-- the proved domain of the full statement "for every hash function": hash compatible with key
equality (alias making the verdict-logic naming explicit) -/
theorem grace_eq_nl_partial {n : Nat} {sp : Row → Row} {k : JoinKind} {h : List Val → Nat}
    {lk rk : List Nat} {wl wr : Nat} {L R : List Row} (hn : 0 < n) (hsp : ∀ r, sp r = r)
    (hk : k ≠ .cross) (H : HCompat h lk rk L R) :
    (graceJoin n sp k h lk rk wl wr L R).Perm (nlJoinP k (keysMatch lk rk) wl wr L R) :=
  grace_eq_nl hn hsp hk H

/-- the unrestricted statement (no hypothesis relating `h` to key equality) is false of the model -/
theorem grace_eq_nl_counterexample :
    ¬ ∀ (n : Nat) (h : List Val → Nat) (L R : List Row), 0 < n →
      (graceJoin n id .inner h [0] [0] 1 1 L R).Perm (nlJoinP .inner (keysMatch [0] [0]) 1 1 L R) := by
  intro H
  have h2 := H 2 splitHash [[.int 1]] [[.flt 1]] (by decide)
  rw [grace_hash_incompatible_counterexample.2.2.1, grace_hash_incompatible_counterexample.2.1] at h2
  exact absurd h2.length_eq (by decide)

end TurVerif.C17
