import TurVerif.Model.AutoInc
/-!
C12  AUTO_INCREMENT values are unique and increasing.

Theorems about the M-code model `TurVerif.AutoInc` (transcription of the counter handling in
`execute_insert_internal`, tied to the real engine by the differential engine `sql_autoinc`).

The full property ("every generated id is distinct from every value the column has ever held and
greater than every earlier generated id, for all histories") is FALSE of the faithful model — see
`explicit_then_generated_counterexample`, `explicit_then_generated_duplicate_counterexample` and
`failed_stmt_reuse_counterexample`.  What holds, and is proved here for histories of any length:
if no INSERT mixes explicit and generated ids and no INSERT fails, the property holds
(`fresh_increasing_partial`, `generated_fresh_partial`), across DELETE, BEGIN/COMMIT/ROLLBACK,
reopen and TRUNCATE (`rollback_keeps_counter`, `reopen_keeps_counter`, `delete_keeps_counter`).
-/
namespace TurVerif.C12
open TurVerif.AutoInc

def pureNull (cells : List Cell) : Bool := cells.all (fun c => c.id.isNone)
def pureExplicit (cells : List Cell) : Bool := cells.all (fun c => c.id.isSome)

/-- statements inside the proved domain: an INSERT is all-generated or all-explicit -/
def benign : Op → Bool
  | .insert cells => pureNull cells || pureExplicit cells
  | _ => true

/-- invariant of the reachable states: the header counter dominates every value the column has
ever held; generated values were held, and are strictly increasing in time (`gens` is most recent
first) -/
structure Inv (s : St) : Prop where
  held_le : ∀ v ∈ s.held, v ≤ (s.header : Int)
  gens_held : ∀ g ∈ s.gens, g ∈ s.held
  sorted : List.Pairwise (· > ·) s.gens

/-! ### the statement loop on all-generated rows -/
structure LoopInv (h0 : Nat) (held0 : List Int) (l : Loop) : Prop where
  maxcur : l.max = l.cur
  base : h0 ≤ l.cur
  held : ∀ v ∈ l.held, v ≤ (l.cur : Int)
  gen_le : ∀ g ∈ l.gen, g ≤ (l.cur : Int)
  gen_gt : ∀ g ∈ l.gen, (h0 : Int) < g
  gen_held : ∀ g ∈ l.gen, g ∈ l.held
  held_mono : ∀ v ∈ held0, v ∈ l.held
  sorted : List.Pairwise (· > ·) l.gen

theorem loop_null_inv (uniq : Bool) (h0 : Nat) (held0 : List Int) :
    ∀ (cells : List Cell) (l : Loop), pureNull cells = true → LoopInv h0 held0 l →
      (loop uniq cells l).failed = false → LoopInv h0 held0 (loop uniq cells l) := by
  intro cells
  induction cells with
  | nil => intro l _ hl _; simpa [loop] using hl
  | cons c rest ih =>
    intro l hp hl hf
    have hc : c.id = none := by
      simp [pureNull] at hp
      cases h : c.id with
      | none => rfl
      | some v => simp [h] at hp
    have hrest : pureNull rest = true := by
      simp [pureNull] at hp ⊢; exact hp.2
    unfold loop at hf ⊢
    simp only [hc] at hf ⊢
    split at hf
    · simp at hf
    · split at hf
      · simp at hf
      · rename_i h1 h2
        simp only [h1, h2, if_false, Bool.false_eq_true]
        apply ih _ hrest _ (by simpa [h1, h2] using hf)
        have hm : natMax l.max (l.cur + 1) = l.cur + 1 := by
          simp [natMax, hl.maxcur]
        constructor
        · exact hm
        · have := hl.base; simp; omega
        · intro v hv
          simp at hv
          rcases hv with rfl | hv
          · simp
          · have := hl.held v hv; simp; omega
        · intro g hg
          simp at hg
          rcases hg with rfl | hg
          · simp
          · have := hl.gen_le g hg; simp; omega
        · intro g hg
          simp at hg
          rcases hg with rfl | hg
          · have := hl.base; simp; omega
          · exact hl.gen_gt g hg
        · intro g hg
          simp at hg ⊢
          rcases hg with rfl | hg
          · left; rfl
          · right; exact hl.gen_held g hg
        · intro v hv; simp; right; exact hl.held_mono v hv
        · simp only [List.pairwise_cons]
          refine ⟨?_, hl.sorted⟩
          intro g hg
          have := hl.gen_le g hg
          simp; omega

/-! ### the statement loop on all-explicit rows -/
structure LoopInvE (held0 : List Int) (gen0 : List Int) (l : Loop) : Prop where
  held : ∀ v ∈ l.held, v ≤ (l.max : Int)
  gen : l.gen = gen0
  held_mono : ∀ v ∈ held0, v ∈ l.held

theorem loop_explicit_inv (uniq : Bool) (held0 gen0 : List Int) :
    ∀ (cells : List Cell) (l : Loop), pureExplicit cells = true → LoopInvE held0 gen0 l →
      (loop uniq cells l).failed = false → LoopInvE held0 gen0 (loop uniq cells l) := by
  intro cells
  induction cells with
  | nil => intro l _ hl _; simpa [loop] using hl
  | cons c rest ih =>
    intro l hp hl hf
    obtain ⟨p, hc⟩ : ∃ p, c.id = some p := by
      simp [pureExplicit] at hp
      cases h : c.id with
      | none => simp [h] at hp
      | some v => exact ⟨v, rfl⟩
    have hrest : pureExplicit rest = true := by
      simp [pureExplicit] at hp ⊢; exact hp.2
    unfold loop at hf ⊢
    simp only [hc] at hf ⊢
    split at hf
    · simp at hf
    · rename_i hneg
      split at hf
      · simp at hf
      · split at hf
        · simp at hf
        · rename_i h1 h2
          simp only [hneg, h1, h2, if_false, Bool.false_eq_true]
          apply ih _ hrest _ (by simpa [hneg, h1, h2] using hf)
          constructor
          · intro v hv
            simp at hv
            rcases hv with rfl | hv
            · simp [natMax]; split <;> omega
            · have := hl.held v hv
              simp [natMax]; split <;> omega
          · exact hl.gen
          · intro v hv; simp; right; exact hl.held_mono v hv

/-! ### one statement -/
def loop0 (s : St) : Loop :=
  { cur := s.header, max := s.header, live := s.live, held := s.held, nextRow := s.nextRow, keys := s.keys }

theorem step_insert_ok (s : St) (cells : List Cell)
    (hok : (step s (.insert cells)).2.ok = true) :
    (loop s.uniq cells (loop0 s)).failed = false ∧
    (step s (.insert cells)).2.generated = (loop s.uniq cells (loop0 s)).gen.reverse ∧
    (step s (.insert cells)).1.held = (loop s.uniq cells (loop0 s)).held ∧
    (step s (.insert cells)).1.gens = (loop s.uniq cells (loop0 s)).gen ++ s.gens ∧
    (step s (.insert cells)).1.header =
      (if (loop s.uniq cells (loop0 s)).max > 0 ∧ (loop s.uniq cells (loop0 s)).max > s.header
       then (loop s.uniq cells (loop0 s)).max else s.header) := by
  simp only [step, loop0] at hok ⊢
  split at hok
  · simp at hok
  · rename_i hf
    simp [hf]

/-- all-generated INSERT that succeeds: every generated id is new for the column, above every
earlier generated id, and the ids of the statement are strictly increasing; the invariant is kept -/
theorem insert_null_fresh (s : St) (cells : List Cell) (hinv : Inv s)
    (hp : pureNull cells = true) (hok : (step s (.insert cells)).2.ok = true) :
    Inv (step s (.insert cells)).1 ∧
    (∀ g ∈ (step s (.insert cells)).2.generated, g ∉ s.held ∧ ∀ g' ∈ s.gens, g' < g) ∧
    List.Pairwise (· < ·) (step s (.insert cells)).2.generated := by
  obtain ⟨hf, hgen, hheld, hgens, hhdr⟩ := step_insert_ok s cells hok
  have l0 : LoopInv s.header s.held (loop0 s) :=
    { maxcur := rfl, base := Nat.le_refl _, held := hinv.held_le,
      gen_le := by intro g hg; simp [loop0] at hg,
      gen_gt := by intro g hg; simp [loop0] at hg,
      gen_held := by intro g hg; simp [loop0] at hg,
      held_mono := by intro v hv; exact hv,
      sorted := by simp [loop0] }
  have hl := loop_null_inv s.uniq s.header s.held cells (loop0 s) hp l0 hf
  have hh : (step s (.insert cells)).1.header = (loop s.uniq cells (loop0 s)).cur := by
    rw [hhdr, hl.maxcur]
    have := hl.base
    split <;> omega
  refine ⟨⟨?_, ?_, ?_⟩, ?_, ?_⟩
  · intro v hv; rw [hheld] at hv; rw [hh]; exact hl.held v hv
  · intro g hg
    rw [hgens] at hg; rw [hheld]
    rcases List.mem_append.mp hg with h | h
    · exact hl.gen_held g h
    · exact hl.held_mono g (hinv.gens_held g h)
  · rw [hgens, List.pairwise_append]
    refine ⟨hl.sorted, hinv.sorted, ?_⟩
    intro a ha b hb
    have h1 := hl.gen_gt a ha
    have h2 := hinv.held_le b (hinv.gens_held b hb)
    show a > b
    omega
  · intro g hg
    rw [hgen] at hg
    have hg' : g ∈ (loop s.uniq cells (loop0 s)).gen := List.mem_reverse.mp hg
    have h1 := hl.gen_gt g hg'
    refine ⟨?_, ?_⟩
    · intro hmem; have := hinv.held_le g hmem; omega
    · intro g' hg'2
      have := hinv.held_le g' (hinv.gens_held g' hg'2); omega
  · rw [hgen, List.pairwise_reverse]
    exact hl.sorted

/-- all-explicit INSERT that succeeds: nothing is generated; the invariant is kept (the header is
raised to the largest explicit id) -/
theorem insert_explicit_inv (s : St) (cells : List Cell) (hinv : Inv s)
    (hp : pureExplicit cells = true) (hok : (step s (.insert cells)).2.ok = true) :
    Inv (step s (.insert cells)).1 ∧ (step s (.insert cells)).2.generated = [] := by
  obtain ⟨hf, hgen, hheld, hgens, hhdr⟩ := step_insert_ok s cells hok
  have l0 : LoopInvE s.held [] (loop0 s) :=
    { held := hinv.held_le, gen := rfl, held_mono := by intro v hv; exact hv }
  have hl := loop_explicit_inv s.uniq s.held [] cells (loop0 s) hp l0 hf
  refine ⟨⟨?_, ?_, ?_⟩, ?_⟩
  · intro v hv; rw [hheld] at hv; rw [hhdr]
    have := hl.held v hv
    split <;> omega
  · intro g hg
    rw [hgens, hl.gen] at hg; rw [hheld]
    exact hl.held_mono g (hinv.gens_held g (by simpa using hg))
  · rw [hgens, hl.gen]; simpa using hinv.sorted
  · rw [hgen, hl.gen]; rfl

/-! ### DELETE, transactions, reopen, TRUNCATE never lower the counter -/
theorem delete_keeps_counter (s : St) (v : Int) :
    (step s (.delete v)).1.header = s.header ∧ (step s (.delete v)).1.held = s.held ∧
    (step s (.delete v)).1.gens = s.gens := by simp [step]

theorem rollback_keeps_counter (s : St) :
    (step s .rollback).1.header = s.header ∧ (step s .rollback).1.held = s.held ∧
    (step s .rollback).1.gens = s.gens := by
  simp only [step]; split <;> simp

theorem reopen_keeps_counter (s : St) :
    (step s .reopen).1.header = s.header ∧ (step s .reopen).1.held = s.held ∧
    (step s .reopen).1.gens = s.gens ∧ (step s .reopen).1.live = s.live := by simp [step]

theorem truncate_keeps_counter (s : St) :
    (step s (.truncate false)).1.header = s.header ∧ (step s (.truncate false)).1.held = s.held := by
  simp [step]

theorem other_ops_inv (s : St) (o : Op) (hinv : Inv s) (h : ∀ c, o ≠ .insert c) :
    Inv (step s o).1 ∧ (step s o).2.generated = [] := by
  cases o with
  | insert c => exact absurd rfl (h c)
  | delete v => exact ⟨⟨hinv.held_le, hinv.gens_held, hinv.sorted⟩, rfl⟩
  | begin => simp only [step]; split <;> exact ⟨⟨hinv.held_le, hinv.gens_held, hinv.sorted⟩, rfl⟩
  | commit => simp only [step]; split <;> exact ⟨⟨hinv.held_le, hinv.gens_held, hinv.sorted⟩, rfl⟩
  | rollback => simp only [step]; split <;> exact ⟨⟨hinv.held_le, hinv.gens_held, hinv.sorted⟩, rfl⟩
  | reopen => exact ⟨⟨hinv.held_le, hinv.gens_held, hinv.sorted⟩, rfl⟩
  | truncate r =>
    cases r with
    | false => exact ⟨⟨hinv.held_le, hinv.gens_held, hinv.sorted⟩, rfl⟩
    | true =>
      refine ⟨⟨?_, ?_, ?_⟩, rfl⟩ <;> simp [step]

/-! ### property theorems -/

/-- one benign, successful statement keeps the invariant -/
theorem step_inv (s : St) (o : Op) (hinv : Inv s) (hb : benign o = true)
    (hok : (step s o).2.ok = true) : Inv (step s o).1 := by
  cases o with
  | insert cells =>
    simp [benign] at hb
    rcases hb with hp | hp
    · exact (insert_null_fresh s cells hinv hp hok).1
    · exact (insert_explicit_inv s cells hinv hp hok).1
  | _ => exact (other_ops_inv s _ hinv (by intro c hc; cases hc)).1

def allOk : List Resp → Bool
  | [] => true
  | r :: rs => r.ok && allOk rs

/-- **partial form of C12**, for histories of any length: if no INSERT mixes explicit and generated
ids and no statement fails, the invariant "header ≥ everything ever held; generated ids strictly
increasing in time" holds in every reachable state — across DELETE (also of the maximum id),
ROLLBACK, reopen and TRUNCATE. -/
theorem fresh_increasing_partial (ops : List Op) :
    ∀ (s : St), Inv s → ops.all benign = true → allOk (run s ops).2 = true → Inv (run s ops).1 := by
  induction ops with
  | nil => intro s h _ _; simpa [run] using h
  | cons o rest ih =>
    intro s hinv hb hok
    simp only [List.all_cons, Bool.and_eq_true] at hb
    simp only [run, allOk, Bool.and_eq_true] at hok ⊢
    exact ih _ (step_inv s o hinv hb.1 hok.1) hb.2 hok.2

/-- in such a state every id generated by the next all-generated INSERT is distinct from every
value the column has ever held, greater than every earlier generated id, and the ids of one
statement are strictly increasing -/
theorem generated_fresh_partial (s : St) (cells : List Cell) (hinv : Inv s)
    (hp : pureNull cells = true) (hok : (step s (.insert cells)).2.ok = true) :
    (∀ g ∈ (step s (.insert cells)).2.generated, g ∉ s.held ∧ ∀ g' ∈ s.gens, g' < g) ∧
    List.Pairwise (· < ·) (step s (.insert cells)).2.generated :=
  (insert_null_fresh s cells hinv hp hok).2

/-- the empty table satisfies the invariant (non-vacuity of the hypotheses) -/
theorem inv_init (u : Bool) : Inv { uniq := u } :=
  ⟨by intro v hv; simp at hv, by intro g hg; simp at hg, by simp⟩

example : (run {} [.insert [⟨none, false⟩, ⟨none, false⟩], .delete 2, .begin, .insert [⟨none, false⟩],
    .rollback, .reopen, .truncate false, .insert [⟨some 9, false⟩]]).2.map (·.generated)
    = [[1, 2], [], [], [3], [], [], [], []] := by decide

/-! ### the full property is false of the faithful model -/
def s1 : St := { header := 1, live := [1], held := [1], gens := [1], nextRow := 2, keys := [1] }
def mixed : List Cell := [⟨none, false⟩, ⟨some 4, false⟩, ⟨none, false⟩, ⟨none, false⟩]

/-- DESIGN §10 item 24: from counter 1, `VALUES (NULL),(4),(NULL),(NULL)` generates 2, 3 and then 4
again: with a PRIMARY KEY the statement fails at the last row, the first three rows stay and the
header keeps the value 1 -/
theorem explicit_then_generated_counterexample :
    Inv s1 ∧ (step s1 (.insert mixed)).2 = { ok := false, generated := [2, 3] } ∧
    (step s1 (.insert mixed)).1.live = [3, 4, 2, 1] ∧ (step s1 (.insert mixed)).1.header = 1 := by
  refine ⟨⟨?_, ?_, ?_⟩, ?_, ?_, ?_⟩ <;> decide

/-- the same statement without a unique index succeeds and stores the id 4 twice: a generated id
equal to a value the column already holds -/
theorem explicit_then_generated_duplicate_counterexample :
    (step { s1 with uniq := false } (.insert mixed)).2 = { ok := true, generated := [2, 3, 4] } ∧
    (step { s1 with uniq := false } (.insert mixed)).1.live = [4, 3, 4, 2, 1] := by
  constructor <;> decide

/-- a statement failing at its second row keeps the first row (id 2) but not the header update:
the next INSERT generates 2 again (PRIMARY KEY violation; every later INSERT fails the same way) -/
theorem failed_stmt_reuse_counterexample :
    (run s1 [.insert [⟨none, false⟩, ⟨none, true⟩], .insert [⟨none, false⟩]]).2
      = [{ ok := false, generated := [2] }, { ok := false, generated := [] }] ∧
    (run { s1 with uniq := false } [.insert [⟨none, false⟩, ⟨none, true⟩], .insert [⟨none, false⟩]]).2
      = [{ ok := false, generated := [2] }, { ok := true, generated := [2] }] := by
  constructor <;> decide

/-- after a reopen the row-key counter restarts: the next INSERT collides with an existing row key
and fails although the id it generated (header + 1) is fresh -/
theorem reopen_rowkey_collision_counterexample :
    (run s1 [.reopen, .insert [⟨none, false⟩], .insert [⟨none, false⟩]]).2
      = [{ ok := true, generated := [] }, { ok := false, generated := [] }, { ok := true, generated := [2] }] := by
  decide

end TurVerif.C12
