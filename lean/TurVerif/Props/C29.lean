import TurVerif.Lemmas.Leaf
import TurVerif.Lemmas.BTree
/-!
C29  B-tree pages stay structurally valid.

Leaf level (M-code model `TurVerif.Leaf`, transcription of src/btree/leaf.rs and of the
single-leaf parts of src/btree/tree.rs): the page invariant `WF` (slot area = [24, freeStart),
freeStart ≤ freeEnd ≤ 16384, every cell extent inside [freeEnd, 16384), extents pairwise disjoint,
live bytes ≤ cell area, stored prefix = extract_prefix key, keys strictly increasing) holds for
`init` and is preserved by every leaf operation under its documented precondition, and by
`BTree::delete` / `BTree::update` on the reached leaf — also on the error path of the growing
update, where the page is left in the state after `delete_cell`.

Tree level (M-spec model `TurVerif.BTree`): see the second half of this file.
-/
namespace TurVerif.C29
open TurVerif.Leaf
open TurVerif.Simd (cmpBytes SearchResult)

/-! ### helper lemmas -/

theorem wf_place {l : Leaf} {k v : List Nat} {pos : Nat} (w : WF l)
    (hsp : cellSize k v + 8 ≤ freeSpace l)
    (hsorted : (insertAt l.cells pos
      { pre := extractPrefix k, off := l.freeEnd - cellSize k v, key := k, val := v }).Pairwise KLt) :
    WF (place l k v pos) := by
  have hfs := w.fs; have hfse := w.fse; have hfe := w.fe; have hlive := w.live
  unfold freeSpace at hsp
  have hsz : ({ pre := extractPrefix k, off := l.freeEnd - cellSize k v, key := k, val := v } : Cell).size
      = cellSize k v := rfl
  refine ⟨?_, ?_, ?_, w.frag, ?_, ?_, ?_, ?_, hsorted⟩
  · show l.freeStart + 8 = 24 + 8 * (insertAt _ _ _).length
    rw [length_insertAt]; omega
  · show l.freeStart + 8 ≤ l.freeEnd - cellSize k v; omega
  · show l.freeEnd - cellSize k v ≤ 16384; omega
  · intro c hc
    show l.freeEnd - cellSize k v ≤ c.off ∧ c.off + c.size ≤ 16384
    rcases mem_insertAt.mp hc with rfl | hc
    · rw [hsz]; constructor <;> simp only <;> omega
    · have := w.inPage c hc; omega
  · show (insertAt _ _ _).Pairwise Disj
    refine pairwise_insertAt_symm (fun _ _ h => Disj.symm h) pos w.disj ?_
    intro x hx
    have := w.inPage x hx
    left; rw [hsz]; simp only; omega
  · show sumSizes (insertAt _ _ _) ≤ 16384 - (l.freeEnd - cellSize k v)
    rw [sum_insertAt, hsz]; omega
  · intro c hc
    rcases mem_insertAt.mp hc with rfl | hc
    · rfl
    · exact w.pre c hc

theorem shouldCompact_false {l : Leaf} (h : l.frag < 256) : shouldCompact l = false := by
  unfold shouldCompact; simp; omega

theorem satAddU8_lt (a b : Nat) : satAddU8 a b < 256 := by
  unfold satAddU8; split <;> omega

theorem getElem?_mem_lt {xs : List Cell} {i : Nat} {c : Cell} (h : xs[i]? = some c) :
    c ∈ xs ∧ i < xs.length := by
  have := List.getElem?_eq_some_iff.mp h
  exact ⟨List.mem_of_getElem? h, this.1⟩

theorem len_mono {a b : Nat} (h : a ≤ b) : Varint.len a ≤ Varint.len b := by
  unfold Varint.len; repeat' split
  all_goals omega

/-- replacing the value of cell `i` by one whose encoding is not longer, in place -/
theorem wf_setVal {l : Leaf} {i : Nat} {c : Cell} {v : List Nat} {fr : Nat} (w : WF l)
    (hc : l.cells[i]? = some c) (hsz : cellSize c.key v ≤ c.size) (hfr : fr < 256) :
    WF { l with cells := modifyAt (fun c => { c with val := v }) l.cells i, frag := fr } := by
  have hsz' : ∀ y, l.cells[i]? = some y → ({ y with val := v } : Cell).size ≤ y.size := by
    intro y hy; rw [hc] at hy; cases hy; exact hsz
  refine ⟨?_, w.fse, w.fe, hfr, ?_, ?_, ?_, ?_, ?_⟩
  · show l.freeStart = 24 + 8 * (modifyAt _ l.cells i).length
    rw [length_modifyAt]; exact w.fs
  · intro x hx
    rcases mem_modifyAt hx with hx | ⟨y, hy, rfl⟩
    · exact w.inPage x hx
    · have := w.inPage y (List.mem_of_getElem? hy)
      have := hsz' y hy
      show l.freeEnd ≤ y.off ∧ y.off + ({ y with val := v } : Cell).size ≤ 16384
      omega
  · refine pairwise_modifyAt i ?_ ?_ w.disj
    · intro y hy b hd
      have := hsz' y hy
      unfold Disj at hd ⊢
      show y.off + ({ y with val := v } : Cell).size ≤ b.off ∨ b.off + b.size ≤ y.off
      omega
    · intro y hy a hd
      have := hsz' y hy
      unfold Disj at hd ⊢
      show a.off + a.size ≤ y.off ∨ y.off + ({ y with val := v } : Cell).size ≤ a.off
      omega
  · show sumSizes (modifyAt _ l.cells i) ≤ 16384 - l.freeEnd
    have := sum_modifyAt_le (f := fun c => { c with val := v }) l.cells i hsz'
    have := w.live; omega
  · intro x hx
    rcases mem_modifyAt hx with hx | ⟨y, hy, rfl⟩
    · exact w.pre x hx
    · exact w.pre y (List.mem_of_getElem? hy)
  · exact pairwise_modifyAt i (fun y _ b h => h) (fun y _ a h => h) w.sorted

/-! ### property theorems (leaf level) -/

/-- `LeafNodeMut::init` produces a well-formed page -/
theorem wf_init : WF init := by
  refine ⟨rfl, by decide, by decide, by decide, ?_, ?_, ?_, ?_, ?_⟩ <;> simp [init, sumSizes]

/-- `insert_cell` -/
theorem wf_insertCell {l l' : Leaf} {k v : List Nat} (w : WF l) (h : insertCell l k v = .ok l') :
    WF l' := by
  unfold insertCell at h
  split at h
  · simp at h
  · rename_i hsp
    split at h
    · simp at h
    · rename_i pos hf
      simp only [Except.ok.injEq] at h
      subst h
      refine wf_place w (by omega) ?_
      unfold findKey at hf
      exact sorted_insertAt (i := 0) rfl (by simpa using hf) w.sorted

/-- `insert_cell_at`, called (as `insert_if_not_exists` does) with the position `find_key` returned -/
theorem wf_insertCellAt {l l' : Leaf} {k v : List Nat} {pos : Nat} (w : WF l)
    (hpos : findKey l k = .notFound pos) (h : insertCellAt l k v pos = .ok l') : WF l' := by
  unfold insertCellAt at h
  split at h
  · simp at h
  · rename_i hsp
    split at h
    · simp at h
    · simp only [Except.ok.injEq] at h
      subst h
      refine wf_place w (by omega) ?_
      unfold findKey at hpos
      exact sorted_insertAt (i := 0) rfl (by simpa using hpos) w.sorted

/-- `insert_at_end` under its contract: the key is greater than every key in the page -/
theorem wf_insertAtEnd {l l' : Leaf} {k v : List Nat} (w : WF l)
    (hmax : ∀ c ∈ l.cells, cmpBytes c.key k = .lt) (h : insertAtEnd l k v = .ok l') : WF l' := by
  unfold insertAtEnd at h
  split at h
  · simp at h
  · rename_i hsp
    simp only [Except.ok.injEq] at h
    subst h
    refine wf_place w (by omega) ?_
    rw [insertAt_length, List.pairwise_append]
    refine ⟨w.sorted, by simp, ?_⟩
    intro a ha b hb
    simp only [List.mem_singleton] at hb
    subst hb
    exact hmax a ha

/-- `compact` (reachable only through the verification hook, see `compact_unreachable`) -/
theorem wf_compact {l : Leaf} (w : WF l) : WF (compact l) := by
  unfold compact
  have hlive := w.live; have hfe := w.fe; have hfse := w.fse
  split
  · rename_i he
    have hnil : l.cells = [] := by simpa using he
    refine ⟨w.fs, ?_, ?_, ?_, ?_, ?_, ?_, ?_, ?_⟩
    · show l.freeStart ≤ 16384; omega
    · show (16384 : Nat) ≤ 16384; omega
    · show (0 : Nat) < 256; omega
    · intro c hc; rw [hnil] at hc; simp at hc
    · show l.cells.Pairwise Disj; exact w.disj
    · show sumSizes l.cells ≤ 16384 - 16384; rw [hnil]; simp [sumSizes]
    · exact w.pre
    · exact w.sorted
  · obtain ⟨h1, h2, h3, h4, h5, h6⟩ := compact_facts l.cells 16384 (by omega)
    refine ⟨?_, ?_, ?_, ?_, ?_, h4, ?_, pre_of_map_key h6 w.pre, pairwise_of_map_key h6 w.sorted⟩
    · show l.freeStart = 24 + 8 * (compactCells l.cells 16384).1.length
      rw [h2]; exact w.fs
    · show l.freeStart ≤ (compactCells l.cells 16384).2
      rw [h1]; omega
    · show (compactCells l.cells 16384).2 ≤ 16384
      rw [h1]; omega
    · show (0 : Nat) < 256; omega
    · exact h3
    · show sumSizes (compactCells l.cells 16384).1 ≤ 16384 - (compactCells l.cells 16384).2
      rw [h5, h1]; omega

/-- `delete_cell` -/
theorem wf_deleteCell {l l' : Leaf} {i : Nat} (w : WF l) (h : deleteCell l i = .ok l') : WF l' := by
  unfold deleteCell at h
  split at h
  · simp at h
  · rename_i c hc
    obtain ⟨hmem, hlt⟩ := getElem?_mem_lt hc
    have hfs := w.fs; have hfse := w.fse; have hlive := w.live
    have hlen := length_removeAt hlt
    have w1 : WF { l with cells := removeAt l.cells i, freeStart := l.freeStart - 8,
                          frag := satAddU8 l.frag (c.size % 256) } := by
      refine ⟨?_, ?_, w.fe, satAddU8_lt _ _, ?_, w.disj.sublist (removeAt_sublist _ _), ?_, ?_,
        w.sorted.sublist (removeAt_sublist _ _)⟩
      · show l.freeStart - 8 = 24 + 8 * (removeAt l.cells i).length; omega
      · show l.freeStart - 8 ≤ l.freeEnd; omega
      · intro x hx; exact w.inPage x ((removeAt_sublist _ _).subset hx)
      · show sumSizes (removeAt l.cells i) ≤ 16384 - l.freeEnd
        have := sum_removeAt_le l.cells i; omega
      · intro x hx; exact w.pre x ((removeAt_sublist _ _).subset hx)
    simp only [Except.ok.injEq] at h
    subst h
    split
    · exact wf_compact w1
    · exact w1

/-- `update_cell_value_in_place` -/
theorem wf_updateInPlace {l l' : Leaf} {i : Nat} {v : List Nat} (w : WF l)
    (h : updateInPlace l i v = .ok l') : WF l' := by
  unfold updateInPlace at h
  split at h
  · simp at h
  · rename_i c hc
    split at h
    · simp at h
    · rename_i hlen
      simp only [Except.ok.injEq] at h
      subst h
      have hlen' : v.length = c.val.length := by simpa using hlen
      exact wf_setVal w hc (by unfold cellSize Cell.size cellSize; rw [hlen']; omega) w.frag

/-- `update_cell_value_shrink` -/
theorem wf_updateShrink {l l' : Leaf} {i : Nat} {v : List Nat} (w : WF l)
    (h : updateShrink l i v = .ok l') : WF l' := by
  unfold updateShrink at h
  split at h
  · simp at h
  · rename_i c hc
    split at h
    · simp at h
    · rename_i hlen
      simp only [Except.ok.injEq] at h
      subst h
      have hlen' : v.length < c.val.length := by simpa using hlen
      have := len_mono (Nat.le_of_lt hlen')
      exact wf_setVal w hc (by unfold cellSize Cell.size cellSize; omega) (satAddU8_lt _ _)

/-- `set_next_leaf` -/
theorem wf_setNext {l : Leaf} (w : WF l) (p : Nat) : WF (setNext l p) :=
  ⟨w.fs, w.fse, w.fe, w.frag, w.inPage, w.disj, w.live, w.pre, w.sorted⟩

/-- The compaction trigger can never fire on a well-formed page: `frag_bytes` is a `u8` (≤ 255)
and the threshold is (16384 − 24)/4 = 4090.  (DESIGN §10 item 25.) -/
theorem compact_unreachable {l : Leaf} (w : WF l) : shouldCompact l = false :=
  shouldCompact_false w.frag

/-- Consequence: `delete_cell` only removes the slot; the cell bytes are never reclaimed
(`free_end` does not move), i.e. deleted cells leak until the page is rebuilt by a split. -/
theorem delete_leaks_cell_space {l l' : Leaf} {i : Nat} (h : deleteCell l i = .ok l') :
    l'.freeEnd = l.freeEnd ∧ l'.freeStart = l.freeStart - 8 := by
  unfold deleteCell at h
  split at h
  · simp at h
  · simp only [Except.ok.injEq] at h
    subst h
    rw [shouldCompact_false (satAddU8_lt _ _)]
    simp

/-- `BTree::delete` on the reached leaf -/
theorem wf_delete {l : Leaf} (w : WF l) (k : List Nat) : WF (delete l k).leaf := by
  unfold delete
  split
  · exact w
  · split
    · rename_i l' h; exact wf_deleteCell w h
    · exact w

/-- `BTree::update` on the reached leaf: the page is well formed after the call in every branch,
including the branch where `insert_cell` fails after `delete_cell` has been applied. -/
theorem wf_updateG (fixed : Bool) {l : Leaf} (w : WF l) (k v : List Nat) :
    WF (updateG fixed l k v).leaf := by
  unfold updateG
  cases findKey l k with
  | notFound _ => exact w
  | found i =>
    dsimp only
    cases l.cells[i]? with
    | none => exact w
    | some c =>
      dsimp only
      by_cases h1 : v.length = c.val.length
      · rw [if_pos h1]
        cases hu : updateInPlace l i v with
        | ok l' => exact wf_updateInPlace w hu
        | error e => exact w
      · rw [if_neg h1]
        by_cases h2 : v.length < c.val.length
        · rw [if_pos h2]
          cases hu : updateShrink l i v with
          | ok l' => exact wf_updateShrink w hu
          | error e => exact w
        · rw [if_neg h2]
          split
          · cases hd : deleteCell l i with
            | error e => exact w
            | ok l1 =>
              have w1 := wf_deleteCell w hd
              dsimp only
              cases hi : insertCell l1 k v with
              | ok l2 => exact wf_insertCell w1 hi
              | error e => exact w1
          · exact w

theorem wf_update {l : Leaf} (w : WF l) (k v : List Nat) : WF (update l k v).leaf :=
  wf_updateG false w k v

/-- the same for `BTree::update` after fix_update_grow.patch -/
theorem wf_updateFixed {l : Leaf} (w : WF l) (k v : List Nat) : WF (updateFixed l k v).leaf :=
  wf_updateG true w k v

/-- leaf operations as a datatype, with the documented preconditions -/
inductive Op where
  | insert (k v : List Nat)
  | insertAt (k v : List Nat) (pos : Nat)
  | insertEnd (k v : List Nat)
  | delete (i : Nat)
  | updateInPlace (i : Nat) (v : List Nat)
  | updateShrink (i : Nat) (v : List Nat)
  | compact
  | setNext (p : Nat)

def step (l : Leaf) : Op → Except Err Leaf
  | .insert k v => insertCell l k v
  | .insertAt k v pos => insertCellAt l k v pos
  | .insertEnd k v => insertAtEnd l k v
  | .delete i => deleteCell l i
  | .updateInPlace i v => updateInPlace l i v
  | .updateShrink i v => updateShrink l i v
  | .compact => .ok (compact l)
  | .setNext p => .ok (setNext l p)

/-- the contracts stated in leaf.rs: `insert_cell_at` gets the position returned by `find_key`,
`insert_at_end` gets a key greater than every key of the page -/
def Pre (l : Leaf) : Op → Prop
  | .insertAt k _ pos => findKey l k = .notFound pos
  | .insertEnd k _ => ∀ c ∈ l.cells, cmpBytes c.key k = .lt
  | _ => True

/-- C29 (leaf pages): every leaf operation preserves the page invariant. Operations that fail
return no new page state (the model's `Except`; the harness checks that a failing call leaves the
real page bytes unchanged). -/
theorem wf_leaf_step {l l' : Leaf} {op : Op} (w : WF l) (hp : Pre l op) (h : step l op = .ok l') :
    WF l' := by
  cases op with
  | insert k v => exact wf_insertCell w h
  | insertAt k v pos => exact wf_insertCellAt w hp h
  | insertEnd k v => exact wf_insertAtEnd w hp h
  | delete i => exact wf_deleteCell w h
  | updateInPlace i v => exact wf_updateInPlace w h
  | updateShrink i v => exact wf_updateShrink w h
  | compact => simp only [step, Except.ok.injEq] at h; subst h; exact wf_compact w
  | setNext p => simp only [step, Except.ok.injEq] at h; subst h; exact wf_setNext w p

/-- run a list of operations, skipping the ones that fail (their page state is unchanged) -/
def runOps : Leaf → List Op → Leaf
  | l, [] => l
  | l, op :: ops => match step l op with
    | .ok l' => runOps l' ops
    | .error _ => runOps l ops

/-- every op in the list meets its precondition in the state it is applied to -/
def PreAll : Leaf → List Op → Prop
  | _, [] => True
  | l, op :: ops => Pre l op ∧ match step l op with
    | .ok l' => PreAll l' ops
    | .error _ => PreAll l ops

/-- C29 (leaf pages), histories: every page reachable from `init` by operations used within their
contracts is well formed. -/
theorem wf_leaf_reachable (ops : List Op) : ∀ l, WF l → PreAll l ops → WF (runOps l ops) := by
  induction ops with
  | nil => intro l w _; exact w
  | cons op ops ih =>
    intro l w hp
    simp only [runOps]
    simp only [PreAll] at hp
    cases hs : step l op with
    | ok l' => simp only [hs] at hp ⊢; exact ih l' (wf_leaf_step w hp.1 hs) hp.2
    | error e => simp only [hs] at hp ⊢; exact ih l w hp.2

/-- non-vacuity: a concrete history (insert, insert, delete) reaches a non-empty well-formed page -/
example : ∃ l, WF l ∧ l.cells.length = 1 := by
  have w1 := wf_insertCell (l := init) (k := [2]) (v := [9, 9]) wf_init rfl
  have w2 := wf_insertCell (k := [1]) (v := [7]) w1 rfl
  have w3 := wf_deleteCell (i := 1) w2 rfl
  exact ⟨_, w3, rfl⟩


/-! ## Tree level (M-spec model `TurVerif.BTree`)

`Tree.WF t` = `WFb t.height t.root none none`: every leaf key-sorted, every separator strictly inside
the bounds of its page, left subtree < separator ≤ right subtree, recursively. All leaves at the same
depth holds by construction of `T n` (the model's type of height-`n` trees): `wf_tree_insert` /
`wf_tree_delete` therefore also say that split propagation + root growth and delete keep the depth
uniform. The split decisions (`Policy`) are arbitrary. -/
namespace Tree
open TurVerif.BTree TurVerif.OMap

def WF (t : BTree.Tree) : Prop := WFb t.height t.root none none

/-- `BTree::create` -/
theorem wf_tree_empty : WF BTree.Tree.empty :=
  ⟨by simp [BTree.Tree.empty, Sorted], by intro e he; simp [BTree.Tree.empty] at he⟩

/-- insert (any key, any split policy yielding non-empty halves, any number of propagated splits,
root growth) preserves the tree invariant -/
theorem wf_tree_insert (p : Policy) (t : BTree.Tree) (k : Key) (v : List Nat) (w : WF t) :
    WF (t.insert p k v) := by
  have h := (insert_level p k v t.height t.root none none w ⟨trivial, trivial⟩).1
  unfold BTree.Tree.insert WF
  cases hi : insertT p k v t.height t.root with
  | one r => rw [hi] at h; exact h
  | two l s r => rw [hi] at h; exact ⟨h.1, h.2.1, h.2.2⟩

/-- the height grows by at most one per insert (only through `create_new_root`) -/
theorem tree_insert_height (p : Policy) (t : BTree.Tree) (k : Key) (v : List Nat) :
    (t.insert p k v).height = t.height ∨ (t.insert p k v).height = t.height + 1 := by
  unfold BTree.Tree.insert
  cases insertT p k v t.height t.root with
  | one r => exact Or.inl rfl
  | two l s r => exact Or.inr rfl

/-- delete (no rebalancing) preserves the tree invariant and the height -/
theorem wf_tree_delete (t : BTree.Tree) (k : Key) (w : WF t) :
    WF (t.delete k) ∧ (t.delete k).height = t.height :=
  ⟨(delete_level k t.height t.root none none w ⟨trivial, trivial⟩).1, rfl⟩

/-- operations of a history -/
inductive TOp where
  | insert (k : Key) (v : List Nat)
  | delete (k : Key)

def run (p : Policy) : BTree.Tree → List TOp → BTree.Tree
  | t, [] => t
  | t, .insert k v :: ops => run p (t.insert p k v) ops
  | t, .delete k :: ops => run p (t.delete k) ops

/-- C29 (tree level, histories): every tree reachable from the empty tree is well formed -/
theorem wf_tree_reachable (p : Policy) (ops : List TOp) : WF (run p BTree.Tree.empty ops) := by
  suffices h : ∀ t, WF t → WF (run p t ops) from h _ wf_tree_empty
  induction ops with
  | nil => intro t w; exact w
  | cons op ops ih =>
    intro t w
    cases op with
    | insert k v => exact ih _ (wf_tree_insert p t k v w)
    | delete k => exact ih _ (wf_tree_delete t k w).1

/-- the invariant implies the two clauses of C29 that speak about keys: the in-order key sequence is
strictly increasing (keys in every node increasing, separators bound their subtrees) -/
theorem wf_tree_sorted (t : BTree.Tree) (w : WF t) : Sorted t.abs :=
  (child_level t.height).sorted t.root none none w

end Tree

end TurVerif.C29
