import TurVerif.Lemmas.KeyEncOrder
import TurVerif.Lemmas.KeyEncDec2
import TurVerif.Model.KeyEncJson
/-!
C26  Index key encoding preserves order, is invertible and prefix free; composite keys compare
column-wise.  Theorems about the M-code model `TurVerif.KeyEnc` (src/encoding/key.rs).

Proved domain `D`: `wf v` (every field inside its Rust type's range, text is UTF-8) and `vclean v`
(no vector dimension is NaN or −0.0).  `vclean` is needed because `encode_vector` mishandles those
dimensions in the real code (see the `_counterexample` theorems; known finding C26-F1); every
other kind is covered at full strength.  JSON and RANGE keys are outside the model (harness only).
-/
namespace TurVerif.C26
open TurVerif.KeyEnc


/-! ### helper lemmas for the round trip -/
theorem enc_length_pos (v : KVal) : 1 ≤ (enc v).length := by
  obtain ⟨t, e⟩ := enc_rank v; rw [e]; simp

mutual
theorem need_le : (v : KVal) → need v ≤ 2 * (enc v).length
  | .array es => by have := needE_le es; simp only [need, enc, List.length_cons]; omega
  | .tuple es => by have := needE_le es; simp only [need, enc, List.length_cons]; omega
  | .composite t es => by
    have := needE_le es; simp only [need, enc, List.length_cons, List.length_append]; omega
  | .domain t v => by
    have := need_le v; simp only [need, enc, List.length_cons, List.length_append]; omega
  | .null => by have := enc_length_pos .null; simp only [need]; omega
  | .bool b => by have := enc_length_pos (.bool b); simp only [need]; omega
  | .int b => by have := enc_length_pos (.int b); simp only [need]; omega
  | .float b => by have := enc_length_pos (.float b); simp only [need]; omega
  | .text b => by have := enc_length_pos (.text b); simp only [need]; omega
  | .blob b => by have := enc_length_pos (.blob b); simp only [need]; omega
  | .date b => by have := enc_length_pos (.date b); simp only [need]; omega
  | .time b => by have := enc_length_pos (.time b); simp only [need]; omega
  | .timestamp b => by have := enc_length_pos (.timestamp b); simp only [need]; omega
  | .timestamptz b c => by have := enc_length_pos (.timestamptz b c); simp only [need]; omega
  | .interval b c d => by have := enc_length_pos (.interval b c d); simp only [need]; omega
  | .uuid b => by have := enc_length_pos (.uuid b); simp only [need]; omega
  | .inet b c d => by have := enc_length_pos (.inet b c d); simp only [need]; omega
  | .macaddr b => by have := enc_length_pos (.macaddr b); simp only [need]; omega
  | .enum b c => by have := enc_length_pos (.enum b c); simp only [need]; omega
  | .vector b => by have := enc_length_pos (.vector b); simp only [need]; omega
theorem needE_le : (es : KList) → needL es ≤ 2 * (encElems es).length + 1
  | .nil => by simp [needL, encElems]
  | .cons v vs => by
    have := need_le v; have := needR_le vs
    simp only [needL, encElems, List.length_append]; omega
theorem needR_le : (es : KList) → needL es ≤ 2 * (encRest es).length
  | .nil => by simp [needL, encRest]
  | .cons v vs => by
    have := need_le v; have := needR_le vs
    simp only [needL, encRest, List.length_cons, List.length_append]; omega
end

/- values on which the documented canonicalisation does nothing: no float zero / NaN inside -/
mutual
def fplain : KVal → Bool
  | .float b => !isNan64 b && decide (b % 9223372036854775808 ≠ 0)
  | .array es => fplainL es
  | .tuple es => fplainL es
  | .composite _ fs => fplainL fs
  | .domain _ v => fplain v
  | _ => true
def fplainL : KList → Bool
  | .nil => true
  | .cons v vs => fplain v && fplainL vs
end

theorem vdec_venc (d : Nat) (h : dimOk d = true) : vdec (venc d) = d := by
  rw [dimOk_iff] at h
  obtain ⟨h1, h2, h3⟩ := h
  have na : isNan32 d = false := by simp [isNan32]; omega
  unfold vdec venc flipTop
  simp only [na, Bool.false_eq_true, not_false_eq_true, and_true]
  (repeat' split) <;> omega

theorem map_vdec_venc (ds : List Nat) (h : ds.all dimOk = true) :
    ds.map (fun d => vdec (venc d)) = ds := by
  induction ds with
  | nil => rfl
  | cons d ds ih =>
    simp only [List.all_cons, Bool.and_eq_true] at h
    simp [vdec_venc d h.1, ih h.2]

mutual
theorem canon_id : (v : KVal) → vclean v = true → fplain v = true → canon v = v
  | .float b, _, hf => by
    simp only [fplain, Bool.and_eq_true, Bool.not_eq_true', decide_eq_true_eq] at hf
    simp [canon, hf.1, hf.2]
  | .vector ds, hc, _ => by
    simp only [vclean] at hc
    simp [canon, map_vdec_venc ds hc]
  | .array es, hc, hf => by
    simp only [vclean, fplain] at hc hf; simp [canon, canonL_id es hc hf]
  | .tuple es, hc, hf => by
    simp only [vclean, fplain] at hc hf; simp [canon, canonL_id es hc hf]
  | .composite t es, hc, hf => by
    simp only [vclean, fplain] at hc hf; simp [canon, canonL_id es hc hf]
  | .domain t v, hc, hf => by
    simp only [vclean, fplain] at hc hf; simp [canon, canon_id v hc hf]
  | .null, _, _ => rfl
  | .bool _, _, _ => rfl
  | .int _, _, _ => rfl
  | .text _, _, _ => rfl
  | .blob _, _, _ => rfl
  | .date _, _, _ => rfl
  | .time _, _, _ => rfl
  | .timestamp _, _, _ => rfl
  | .timestamptz _ _, _, _ => rfl
  | .interval _ _ _, _, _ => rfl
  | .uuid _, _, _ => rfl
  | .inet _ _ _, _, _ => rfl
  | .macaddr _, _, _ => rfl
  | .enum _ _, _, _ => rfl
theorem canonL_id : (vs : KList) → vcleanL vs = true → fplainL vs = true → canonList vs = vs
  | .nil, _, _ => rfl
  | .cons v vs, hc, hf => by
    simp only [vcleanL, fplainL, Bool.and_eq_true] at hc hf
    simp [canonList, canon_id v hc.1 hf.1, canonL_id vs hc.2 hf.2]
end

/-! ### property theorems -/

/-- MAIN THEOREM (order + prefix-freeness in one statement): whatever bytes follow the two
encodings, bytewise comparison is decided by the specification order of the two values, and only
if the values are equal in that order by the bytes that follow. -/
theorem enc_cmp_append_partial (a b : KVal) (ha : wf a = true) (hb : wf b = true)
    (ca : vclean a = true) (cb : vclean b = true) (r1 r2 : List Nat) :
    lexCmp (enc a ++ r1) (enc b ++ r2) = (cmpVal a b).then (lexCmp r1 r2) :=
  ok_all a b ha hb ca cb r1 r2

/-- memcmp of the keys IS the specification order of the values -/
theorem enc_cmp_partial (a b : KVal) (ha : wf a = true) (hb : wf b = true)
    (ca : vclean a = true) (cb : vclean b = true) :
    lexCmp (enc a) (enc b) = cmpVal a b := by
  have := ok_all a b ha hb ca cb [] []
  simpa using this

/-- ORDER: `a < b` in the specification order iff key(a) sorts before key(b) -/
theorem enc_lt_iff_partial (a b : KVal) (ha : wf a = true) (hb : wf b = true)
    (ca : vclean a = true) (cb : vclean b = true) :
    cmpVal a b = .lt ↔ lexCmp (enc a) (enc b) = .lt := by
  rw [enc_cmp_partial a b ha hb ca cb]

/-- equal keys iff equal in the specification order (Int 0 / Float ±0, and all NaNs, are equal there) -/
theorem enc_eq_iff_partial (a b : KVal) (ha : wf a = true) (hb : wf b = true)
    (ca : vclean a = true) (cb : vclean b = true) :
    enc a = enc b ↔ cmpVal a b = .eq := by
  rw [← enc_cmp_partial a b ha hb ca cb, lexCmp_eq_iff]

/-- PREFIX FREE: no key is a proper prefix of another key -/
theorem enc_prefix_free_partial (a b : KVal) (ha : wf a = true) (hb : wf b = true)
    (ca : vclean a = true) (cb : vclean b = true) (r : List Nat) (h : enc a ++ r = enc b) :
    r = [] ∧ enc a = enc b := by
  have h1 := ok_all a b ha hb ca cb r []
  rw [h, List.append_nil, lexCmp_self] at h1
  have hr : lexCmp r [] = .eq := by
    cases hc : cmpVal a b <;> simp [hc] at h1
    exact h1.symm
  have : r = [] := lexCmp_eq_iff.mp hr
  subst this
  exact ⟨rfl, by simpa using h⟩

/-- COMPOSITE KEYS: the bytewise order of concatenated column encodings is the column-wise
lexicographic order of the column values (a key with fewer columns that agrees on them sorts first) -/
theorem tuple_order_partial : (as bs : KList) → wfList as = true → wfList bs = true →
    vcleanL as = true → vcleanL bs = true → lexCmp (encCols as) (encCols bs) = cmpList as bs
  | .nil, .nil, _, _, _, _ => by simp [encCols, cmpList]
  | .nil, .cons y ys, _, _, _, _ => by
    obtain ⟨h, t', e, _⟩ := enc_head_pos y (encCols ys)
    simp [encCols, cmpList, e]
  | .cons x xs, .nil, _, _, _, _ => by
    obtain ⟨h, t', e, _⟩ := enc_head_pos x (encCols xs)
    simp [encCols, cmpList, e]
  | .cons x xs, .cons y ys, ha, hb, ca, cb => by
    simp only [wfList, vcleanL, Bool.and_eq_true] at ha hb ca cb
    simp only [encCols, cmpList]
    rw [ok_all x y ha.1 hb.1 ca.1 cb.1, tuple_order_partial xs ys ha.2 hb.2 ca.2 cb.2]

/-- the escape code of text/blob bodies is order preserving and prefix free for ALL byte strings -/
theorem escape_monotone_prefix_free (a b r1 r2 : List Nat) :
    lexCmp (esc a ++ r1) (esc b ++ r2) = (lexCmp a b).then (lexCmp r1 r2) := esc_cmp a b r1 r2

/-- every key starts with the documented type-prefix byte of its value -/
theorem enc_starts_with_rank (v : KVal) : ∃ t, enc v = rank v :: t := enc_rank v


/-! #### round trip -/

/-- ROUND TRIP (full strength, every modelled kind, any trailing bytes): decoding an encoded key
consumes exactly the key and returns `canon v` — the value itself except for the documented
collapses (Int 0 / Float ±0 -> Int 0, every NaN -> the NaN key) and the code's vector quirk
(`vdec ∘ venc` on each dimension, the identity unless the dimension is −0.0 or a sign-bit NaN). -/
theorem dec_enc (v : KVal) (h : wf v = true) (rest : List Nat) :
    decode (enc v ++ rest) = .ok (canon v) (enc v).length := by
  unfold decode
  have := need_le v
  exact rt_all v h _ (by simp only [List.length_append]; omega) rest

/-- ROUND TRIP returns the ORIGINAL value on the proved domain: no vector dimension NaN/−0.0
(`vclean`) and no float zero/NaN (`fplain`, the documented exception). -/
theorem dec_enc_exact_partial (v : KVal) (h : wf v = true) (hc : vclean v = true)
    (hf : fplain v = true) (rest : List Nat) :
    decode (enc v ++ rest) = .ok v (enc v).length := by
  rw [dec_enc v h rest, canon_id v hc hf]

/-- INJECTIVE modulo the canonicalisation (full strength): two well-formed values with the same
key decode to the same thing — distinct keys for distinct values except Int 0 / Float ±0, NaN
payloads, and the vector dimensions the code maps together. -/
theorem enc_injective_mod_canon (a b : KVal) (ha : wf a = true) (hb : wf b = true)
    (h : enc a = enc b) : canon a = canon b := by
  have h1 := dec_enc a ha []
  have h2 := dec_enc b hb []
  rw [h, h2] at h1
  injection h1 with h3 _
  exact h3.symm

/-- INJECTIVE on the proved domain: same key ⇒ same value -/
theorem enc_injective_partial (a b : KVal) (ha : wf a = true) (hb : wf b = true)
    (ca : vclean a = true) (cb : vclean b = true) (fa : fplain a = true) (fb : fplain b = true)
    (h : enc a = enc b) : a = b := by
  have := enc_injective_mod_canon a b ha hb h
  rwa [canon_id a ca fa, canon_id b cb fb] at this

/-- the real `encode_vector`/`decode_key` pair does not round trip −0.0: it comes back as NaN
(0xFFFFFFFF) -/
theorem vector_roundtrip_counterexample :
    decode (enc (.vector [2147483648])) = .ok (.vector [4294967295]) 9 := by
  have h := dec_enc (.vector [2147483648]) (by decide) []
  rw [List.append_nil] at h
  rw [h]
  simp [canon, venc, vdec, flipTop, isNan32, enc, be, vecBody]

/-! #### the specification order is the natural order inside each type -/
theorem cmpVal_int (x y : Int) : cmpVal (.int x) (.int y) = cmpInt x y := by simp [cmpVal]
theorem cmpVal_float (x y : Nat) : cmpVal (.float x) (.float y) = fcmp64 x y := by simp [cmpVal]
theorem cmpVal_text (x y : List Nat) : cmpVal (.text x) (.text y) = lexCmp x y := by simp [cmpVal]
theorem cmpVal_blob (x y : List Nat) : cmpVal (.blob x) (.blob y) = lexCmp x y := by simp [cmpVal]
theorem cmpVal_date (x y : Int) : cmpVal (.date x) (.date y) = cmpInt x y := by simp [cmpVal]
theorem cmpVal_timestamp (x y : Int) : cmpVal (.timestamp x) (.timestamp y) = cmpInt x y := by
  simp [cmpVal]
/-- documented: integer zero and both float zeros are one point of the order (and share the key 14) -/
theorem zero_shared : cmpVal (.int 0) (.float 0) = .eq ∧ cmpVal (.int 0) (.float 9223372036854775808) = .eq ∧
    enc (.int 0) = [0x14] ∧ enc (.float 0) = [0x14] ∧ enc (.float 9223372036854775808) = [0x14] := by
  decide
/-- between Int and Float the order is the documented prefix rank, NOT numeric order:
Int 1 sorts after Float 2.5 (prefix 16 vs 15). -/
theorem int_float_by_rank_not_numeric :
    cmpVal (.int 1) (.float 4612811918334230528) = .gt ∧
    lexCmp (enc (.int 1)) (enc (.float 4612811918334230528)) = .gt := by
  decide

/-! #### the real `encode_vector` violates order on −0.0 (faithful model, concrete witnesses) -/
/-- f32 −0.0 (0x80000000) is encoded as 00000000 and sorts BEFORE −1.0 (0xBF800000) -/
theorem vector_order_counterexample :
    cmpVal (.vector [2147483648]) (.vector [3212836864]) = .gt ∧
    lexCmp (enc (.vector [2147483648])) (enc (.vector [3212836864])) = .lt := by
  decide


/-! #### JSON keys (`encode_json` / `decode_json`, faithful model `encJ` / `decodeJ`): the real code
violates round trip, order and prefix-freeness; concrete witnesses (known findings C26-F2, C26-F3) -/

/-- JSON number −0.0 is encoded as 53 00…00 and decodes to NaN (0xFFFFFFFFFFFFFFFF) -/
theorem json_negzero_roundtrip_counterexample :
    encJ (.num 9223372036854775808) = [0x53, 0, 0, 0, 0, 0, 0, 0, 0] ∧
    decodeJ (encJ (.num 9223372036854775808)) = .ok (.num 18446744073709551615) 9 := by
  constructor
  · decide
  · simp [decodeJ, decJ, encJ, jnumEnc, jnumDec, flipTop, isNan64, be, fromBe]

/-- JSON number −0.0 sorts before −1.0 (and before every negative number) -/
theorem json_negzero_order_counterexample :
    lexCmp (encJ (.num 9223372036854775808)) (encJ (.num 13830554455654793216)) = .lt := by
  decide

/-- an object whose first key is empty starts with the terminator byte: `{}` is a proper prefix of
`{"": null}` and the latter decodes as `{}` with 2 bytes consumed -/
theorem json_empty_key_counterexample :
    encJ (.obj (.cons [] .null .nil)) = encJ (.obj .nil) ++ [0, 0x50, 0] ∧
    decodeJ (encJ (.obj (.cons [] .null .nil))) = .ok (.obj .nil) 2 := by
  constructor
  · decide
  · simp [decodeJ, decJ, decJObj, encJ, encJObj, encJObjRest, esc]

/-- non-vacuity of the hypotheses -/
example : wf (.array (.cons (.vector [1065353216, 3212836864]) (.cons .null .nil))) = true ∧
    vclean (.array (.cons (.vector [1065353216, 3212836864]) (.cons .null .nil))) = true := by decide

end TurVerif.C26
