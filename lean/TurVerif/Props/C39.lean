import TurVerif.Model.Budget
import TurVerif.Lemmas.BudgetPool
/-!
C39  The memory budget is a hard limit.

M-code model `TurVerif.Budget`: every atomic load / compare-exchange of `allocate` and `release`
is one step; threads interleave arbitrarily.
-/
namespace TurVerif.C39
open TurVerif.Budget

/-! ### helper lemmas -/
theorem getD_set (l : List Nat) (p q v : Nat) :
    (l.set p v).getD q 0 = if p = q ∧ p < l.length then v else l.getD q 0 := by
  simp only [List.getD_eq_getElem?_getD, List.getElem?_set]
  by_cases h : p = q
  · subst h
    by_cases h2 : p < l.length
    · simp [h2]
    · simp [h2]
  · simp [h]

/-- the effect of one step on the shared counters and the ghost sums -/
inductive Eff (s s' : State) : Prop where
  | same (h1 : s'.used = s.used) (h2 : s'.allocd = s.allocd) (h3 : s'.released = s.released)
      (h4 : s'.limit = s.limit)
  | alloc (p b : Nat) (h1 : s'.used = s.used.set p (s.used.getD p 0 + b))
      (h2 : s'.allocd = s.allocd.set p (s.allocd.getD p 0 + b)) (h3 : s'.released = s.released)
      (h4 : s'.limit = s.limit)
  | rel (p b : Nat) (h1 : s'.used = s.used.set p (s.used.getD p 0 - b))
      (h2 : s'.allocd = s.allocd)
      (h3 : s'.released = s.released.set p
              (s.released.getD p 0 + (s.used.getD p 0 - (s.used.getD p 0 - b))))
      (h4 : s'.limit = s.limit)

theorem step_eff (s s' : State) (tid : Nat) (hs : step s tid = some s') : Eff s s' := by
  unfold step at hs
  repeat' (first | split at hs | (dsimp only at hs; split at hs))
  all_goals first
    | (injection hs with hs; subst hs; exact .same rfl rfl rfl rfl)
    | (rename_i hc; injection hs with hs; subst hs; subst hc; exact .alloc _ _ rfl rfl rfl rfl)
    | (rename_i hc; injection hs with hs; subst hs; subst hc; exact .rel _ _ rfl rfl rfl rfl)
    | (cases hs; done)

def AccInv (s : State) : Prop :=
  s.used.length = 5 ∧ s.allocd.length = 5 ∧ s.released.length = 5 ∧
  ∀ q, s.used.getD q 0 + s.released.getD q 0 = s.allocd.getD q 0

theorem acc_init (limit : Nat) (progs : List (List Op)) : AccInv (init limit progs) := by
  refine ⟨rfl, rfl, rfl, ?_⟩
  intro q
  simp only [init]
  match q with
  | 0 | 1 | 2 | 3 | 4 => rfl
  | q + 5 => rfl

theorem acc_step (s s' : State) (tid : Nat) (h : AccInv s) (hs : step s tid = some s') :
    AccInv s' := by
  obtain ⟨h1, h2, h3, h4⟩ := h
  cases step_eff s s' tid hs with
  | same e1 e2 e3 _ => exact ⟨by rw [e1]; exact h1, by rw [e2]; exact h2, by rw [e3]; exact h3,
      by intro q; rw [e1, e2, e3]; exact h4 q⟩
  | alloc p b e1 e2 e3 _ =>
    refine ⟨by rw [e1]; simp [h1], by rw [e2]; simp [h2], by rw [e3]; exact h3, ?_⟩
    intro q
    rw [e1, e2, e3, getD_set, getD_set, h1, h2]
    have := h4 q
    by_cases hq : p = q ∧ p < 5
    · rw [if_pos hq, if_pos hq]
      obtain ⟨rfl, _⟩ := hq
      omega
    · rw [if_neg hq, if_neg hq]; exact this
  | rel p b e1 e2 e3 _ =>
    refine ⟨by rw [e1]; simp [h1], by rw [e2]; exact h2, by rw [e3]; simp [h3], ?_⟩
    intro q
    rw [e1, e2, e3, getD_set, getD_set, h1, h3]
    have := h4 q
    by_cases hq : p = q ∧ p < 5
    · rw [if_pos hq, if_pos hq]
      obtain ⟨rfl, _⟩ := hq
      omega
    · rw [if_neg hq, if_neg hq]; exact this

theorem acc_run (s : State) (sched : List Nat) (h : AccInv s) : AccInv (run s sched) := by
  induction sched generalizing s with
  | nil => exact h
  | cons tid rest ih =>
    simp only [run]
    cases hs : step s tid with
    | none => simpa using ih s h
    | some s' => exact ih s' (acc_step s s' tid h hs)

def tot5 (a b c d e : Nat) : Nat := a + b + c + d + e

theorem len5 (l : List Nat) (h : l.length = 5) : ∃ a b c d e, l = [a, b, c, d, e] := by
  match l, h with
  | [a, b, c, d, e], _ => exact ⟨a, b, c, d, e, rfl⟩

/-- partial sum of the first `i` counters -/
def sumTo (u : List Nat) (i : Nat) : Nat := (u.take i).foldl (· + ·) 0

/-- what the single thread's local variables say about the shared state -/
def PcOk (s : State) : Pc → Prop
  | .idle => True
  | .aLoadPool .. => True
  | .rLoad .. => True
  | .aTot p _ cur i acc => cur = s.used.getD p 0 ∧ acc = sumTo s.used i ∧ i < 5
  | .aLimit p _ cur tot => cur = s.used.getD p 0 ∧ tot = s.totalUsed
  | .aShrLimit p b cur => cur = s.used.getD p 0 ∧ s.totalUsed + b ≤ s.limit
  | .aShrTot p b cur _ _ _ => cur = s.used.getD p 0 ∧ s.totalUsed + b ≤ s.limit
  | .aCas p b cur => cur = s.used.getD p 0 ∧ s.totalUsed + b ≤ s.limit
  | .rCas p _ cur => cur = s.used.getD p 0

def SeqInv (s : State) : Prop :=
  s.used.length = 5 ∧ s.totalUsed ≤ s.limit ∧ ∃ t, s.threads = [t] ∧ PcOk s t.pc

theorem tot_set (a b c d e p v : Nat) :
    ([a, b, c, d, e].set p v).foldl (· + ·) 0 + [a, b, c, d, e].getD p 0 =
      [a, b, c, d, e].foldl (· + ·) 0 + (if p < 5 then v else 0) := by
  match p with
  | 0 => simp; omega
  | 1 => simp; omega
  | 2 => simp; omega
  | 3 => simp; omega
  | 4 => simp; omega
  | p + 5 => simp; omega

theorem pcOk_setThread (s : State) (i : Nat) (t : Thread) (pc : Pc) :
    PcOk (setThread s i t) pc ↔ PcOk s pc := by
  cases pc <;> exact Iff.rfl

theorem seq_keep (s : State) (t t' : Thread) (hl : s.used.length = 5)
    (htot : s.totalUsed ≤ s.limit) (hth : s.threads = [t]) (hp : PcOk s t'.pc) :
    SeqInv (setThread s 0 t') :=
  ⟨hl, htot, t', by simp [setThread, hth], (pcOk_setThread s 0 t' t'.pc).mpr hp⟩

theorem seq_step (s s' : State) (h : SeqInv s) (hs : step s 0 = some s') : SeqInv s' := by
  obtain ⟨hl, htot, t, hth, hpc⟩ := h
  obtain ⟨a, b, c, d, e, hu⟩ := len5 s.used hl
  unfold step at hs
  simp only [hth, List.getElem?_cons_zero] at hs
  cases hq : t.pc with
  | idle =>
    simp only [hq] at hs
    split at hs
    · cases hs
    · split at hs
      · injection hs with hs; subst hs; exact seq_keep s t _ hl htot hth (by simp [PcOk, hq])
      · injection hs with hs; subst hs; exact seq_keep s t _ hl htot hth (by simp [PcOk])
    · split at hs
      · injection hs with hs; subst hs; exact seq_keep s t _ hl htot hth (by simp [PcOk, hq])
      · injection hs with hs; subst hs; exact seq_keep s t _ hl htot hth (by simp [PcOk])
  | aLoadPool p b' =>
    simp only [hq] at hs
    injection hs with hs; subst hs
    exact seq_keep s t _ hl htot hth (by simp [PcOk, sumTo])
  | aTot p b' cur i acc =>
    simp only [hq] at hs hpc
    obtain ⟨h1, h2, h3⟩ := hpc
    split at hs
    · injection hs with hs; subst hs
      refine seq_keep s t _ hl htot hth ?_
      simp only [PcOk]
      refine ⟨h1, ?_, by omega⟩
      subst h2
      have : i = 0 ∨ i = 1 ∨ i = 2 ∨ i = 3 := by omega
      rcases this with rfl | rfl | rfl | rfl <;> simp [sumTo, hu]
    · injection hs with hs; subst hs
      refine seq_keep s t _ hl htot hth ?_
      simp only [PcOk]
      refine ⟨h1, ?_⟩
      subst h2
      have : i = 4 := by omega
      subst this
      simp [sumTo, hu, State.totalUsed]
  | aLimit p b' cur tot =>
    simp only [hq] at hs hpc
    obtain ⟨h1, h2⟩ := hpc
    split at hs
    · injection hs with hs; subst hs; exact seq_keep s t _ hl htot hth (by simp [PcOk])
    · split at hs
      · injection hs with hs; subst hs
        exact seq_keep s t _ hl htot hth (by simp only [PcOk]; exact ⟨h1, by omega⟩)
      · injection hs with hs; subst hs
        exact seq_keep s t _ hl htot hth (by simp only [PcOk]; exact ⟨h1, by omega⟩)
  | aShrLimit p b' cur =>
    simp only [hq] at hs hpc
    injection hs with hs; subst hs
    exact seq_keep s t _ hl htot hth (by simp only [PcOk]; exact hpc)
  | aShrTot p b' cur lim i acc =>
    simp only [hq] at hs hpc
    split at hs
    · injection hs with hs; subst hs
      exact seq_keep s t _ hl htot hth (by simp only [PcOk]; exact hpc)
    · split at hs
      · injection hs with hs; subst hs; exact seq_keep s t _ hl htot hth (by simp [PcOk])
      · injection hs with hs; subst hs
        exact seq_keep s t _ hl htot hth (by simp only [PcOk]; exact hpc)
  | aCas p b' cur =>
    simp only [hq] at hs hpc
    obtain ⟨h1, h2⟩ := hpc
    split at hs
    · injection hs with hs; subst hs
      have key := tot_set a b c d e p (cur + b')
      refine ⟨by simp [setThread, hl], ?_, { t with pc := .idle, results := true :: t.results },
        by simp [setThread, hth], trivial⟩
      simp only [setThread, State.totalUsed] at *
      rw [hu] at h1 h2 htot ⊢
      split at key <;> omega
    · injection hs with hs; subst hs
      exact seq_keep s t _ hl htot hth (by simp [PcOk])
  | rLoad p b' =>
    simp only [hq] at hs
    injection hs with hs; subst hs
    exact seq_keep s t _ hl htot hth (by simp [PcOk])
  | rCas p b' cur =>
    simp only [hq] at hs hpc
    split at hs
    · injection hs with hs; subst hs
      have key := tot_set a b c d e p (cur - b')
      refine ⟨by simp [setThread, hl], ?_, { t with pc := .idle }, by simp [setThread, hth], trivial⟩
      simp only [setThread, State.totalUsed] at *
      rename_i hc
      rw [hu] at hc htot ⊢
      split at key <;> omega
    · injection hs with hs; subst hs
      exact seq_keep s t _ hl htot hth (by simp [PcOk])

theorem seq_init (limit : Nat) (prog : List Op) : SeqInv (init limit [prog]) := by
  refine ⟨rfl, ?_, _, rfl, ?_⟩
  · simp [init, State.totalUsed]
  · simp [PcOk]

/-- one thread: after ANY number of atomic steps the tracked total is within the limit -/
theorem seq_run (s : State) (n : Nat) (h : SeqInv s) : SeqInv (run s (List.replicate n 0)) := by
  induction n generalizing s with
  | zero => exact h
  | succ n ih =>
    simp only [List.replicate_succ, run]
    cases hs : step s 0 with
    | none => simpa using ih s h
    | some s' => exact ih s' (seq_step s s' h hs)

/-! ### property theorems -/

/-- ACCOUNTING (full, any number of threads, any schedule): every pool counter equals the sum of
its successful allocations minus the sum of the actual decrements of its releases — no update is
lost, and a counter whose releases add up to its allocations is back to zero. -/
theorem accounting_any_schedule (limit : Nat) (progs : List (List Op)) (sched : List Nat) (q : Nat) :
    let s := run (init limit progs) sched
    s.used.getD q 0 + s.released.getD q 0 = s.allocd.getD q 0 :=
  (acc_run _ sched (acc_init limit progs)).2.2.2 q

theorem returns_to_zero (limit : Nat) (progs : List (List Op)) (sched : List Nat) (q : Nat)
    (h : (run (init limit progs) sched).released.getD q 0 = (run (init limit progs) sched).allocd.getD q 0) :
    (run (init limit progs) sched).used.getD q 0 = 0 := by
  have := accounting_any_schedule limit progs sched q
  simp only at this
  omega

/-- no underflow, any schedule: per pool, the bytes released never exceed the bytes granted, and the
tracked usage never exceeds what was granted -/
theorem released_le_allocd (limit : Nat) (progs : List (List Op)) (sched : List Nat) (q : Nat) :
    (run (init limit progs) sched).released.getD q 0 ≤ (run (init limit progs) sched).allocd.getD q 0 ∧
    (run (init limit progs) sched).used.getD q 0 ≤ (run (init limit progs) sched).allocd.getD q 0 := by
  have := accounting_any_schedule limit progs sched q
  simp only at this
  omega

/-- HARD LIMIT, sequential part (full for one thread): whatever the program and however many
atomic steps have been taken, tracked usage is within the limit. -/
theorem seq_safe (limit : Nat) (prog : List Op) (n : Nat) :
    let s := run (init limit [prog]) (List.replicate n 0)
    s.totalUsed ≤ s.limit :=
  (seq_run _ n (seq_init limit prog)).2.1

/-- HARD LIMIT, same-pool part (full: ANY number of threads, ANY schedule): if every operation of
every thread is an `alloc` on one and the same pool `p` (no releases), tracked usage never exceeds
the limit.  Reason (invariant `Budget.PoolInv`): `used[p]` is the only counter that changes and it
only grows, so a successful compare-exchange proves it was unchanged since it was loaded — the
total that was checked against the limit is still the total.  (The cross-pool race below needs two
different counters; a release would allow ABA on the single counter.) -/
theorem same_pool_alloc_only_safe (limit : Nat) (p : Nat) (progs : List (List Op))
    (hall : ∀ prog ∈ progs, ∀ op ∈ prog, ∃ b, op = .alloc p b) (sched : List Nat) :
    let s := run (init limit progs) sched
    s.totalUsed ≤ s.limit :=
  (pool_run (pool_init p limit progs hall) sched).tot

/-- a step of a thread inside `release` (`rLoad` / `rCas`) never increases any counter -/
theorem release_never_increases (s s' : State) (tid : Nat) (t : Thread)
    (hs : step s tid = some s') (ht : s.threads[tid]? = some t)
    (hpc : (∃ p b, t.pc = .rLoad p b) ∨ (∃ p b cur, t.pc = .rCas p b cur)) (q : Nat) :
    s'.used.getD q 0 ≤ s.used.getD q 0 := by
  unfold step at hs
  simp only [ht] at hs
  rcases hpc with ⟨p, b, hq⟩ | ⟨p, b, cur, hq⟩
  · simp only [hq] at hs
    injection hs with hs; subst hs
    exact Nat.le_refl _
  · simp only [hq] at hs
    split at hs
    · rename_i hc
      injection hs with hs; subst hs
      simp only [setThread]
      rw [getD_set]
      split
      · rename_i h; obtain ⟨rfl, _⟩ := h; omega
      · exact Nat.le_refl _
    · injection hs with hs; subst hs
      exact Nat.le_refl _

/-- a successful allocation CAS increases exactly its pool by exactly its size, leaves every other
counter alone, and the call returns Ok -/
theorem alloc_step_exact (s s' : State) (tid : Nat) (t : Thread) (p b cur : Nat)
    (hs : step s tid = some s') (ht : s.threads[tid]? = some t) (hpc : t.pc = .aCas p b cur)
    (hc : s.used.getD p 0 = cur) (hp : p < s.used.length) :
    s'.used.getD p 0 = s.used.getD p 0 + b ∧ (∀ q, q ≠ p → s'.used.getD q 0 = s.used.getD q 0) ∧
    ∃ t', s'.threads[tid]? = some t' ∧ t'.pc = .idle ∧ t'.results = true :: t.results := by
  unfold step at hs
  simp only [ht, hpc, hc, if_true] at hs
  injection hs with hs; subst hs
  have htid : tid < s.threads.length := by
    rcases Nat.lt_or_ge tid s.threads.length with hl | hl
    · exact hl
    · rw [List.getElem?_eq_none hl] at ht; cases ht
  refine ⟨?_, ?_, { t with pc := .idle, results := true :: t.results },
    by simp [setThread, htid], rfl, rfl⟩
  · simp only [setThread]
    rw [getD_set, if_pos ⟨rfl, hp⟩, hc]
  · intro q hq
    simp only [setThread]
    rw [getD_set, if_neg (fun h => hq h.1.symm)]

/-- a failed allocation CAS (the counter moved since it was loaded) changes no counter and retries
from the pool load -/
theorem alloc_cas_retry (s s' : State) (tid : Nat) (t : Thread) (p b cur : Nat)
    (hs : step s tid = some s') (ht : s.threads[tid]? = some t) (hpc : t.pc = .aCas p b cur)
    (hc : s.used.getD p 0 ≠ cur) :
    s'.used = s.used ∧ ∃ t', s'.threads[tid]? = some t' ∧ t'.pc = .aLoadPool p b := by
  unfold step at hs
  simp only [ht, hpc, hc, if_false] at hs
  injection hs with hs; subst hs
  have htid : tid < s.threads.length := by
    rcases Nat.lt_or_ge tid s.threads.length with hl | hl
    · exact hl
    · rw [List.getElem?_eq_none hl] at ht; cases ht
  exact ⟨rfl, { t with pc := .aLoadPool p b }, by simp [setThread, htid], rfl⟩

/-- non-vacuity of `same_pool_alloc_only_safe`: three threads race on the Shared pool with the
limit at 4 MiB; all three load the same counter value and pass the check, one CAS wins, the two
losers retry, one more fits, the last is refused -/
example :
    let progs : List (List Op) := [[.alloc 4 2000000], [.alloc 4 2000000], [.alloc 4 2000000]]
    let s := run (init 4194304 progs)
      (List.replicate 8 0 ++ List.replicate 8 1 ++ List.replicate 8 2 ++ [0, 1, 2] ++
        List.replicate 9 1 ++ List.replicate 9 2)
    s.totalUsed = 4000000 ∧ s.totalUsed ≤ s.limit ∧
    (s.threads.map (·.results)) = [[true], [true], [false]] := by decide +kernel

/-- the "no releases" hypothesis of `same_pool_alloc_only_safe` is NECESSARY: on ONE pool, with a
release in between, the compare-exchange succeeds on a counter that went away and came back (ABA).
Thread 0 loads the Shared counter (2 000 000), thread 1 releases its 2 000 000, thread 0 computes
`total_used()` = 0 and passes the check for 2 500 000, thread 1 allocates 2 000 000 again, thread
0's CAS sees the value it loaded and succeeds: total 4 500 000 > 4 MiB. -/
theorem same_pool_release_aba_counterexample :
    let progs : List (List Op) :=
      [[.alloc 4 2500000], [.alloc 4 2000000, .release 4 2000000, .alloc 4 2000000]]
    let s := run (init 4194304 progs)
      (List.replicate 9 1 ++ [0, 0] ++ [1, 1, 1] ++ List.replicate 6 0 ++ List.replicate 9 1 ++ [0])
    s.limit = 4194304 ∧ s.totalUsed = 4500000 ∧ s.totalUsed > s.limit ∧
    (s.threads.map (·.results)) = [[true], [true, true]] := by
  decide +kernel

/-! ### the full statement is FALSE of the code: cross-pool check-then-CAS race -/

def cexProgs : List (List Op) := [[.alloc 0 2000000], [.alloc 1 2500000]]

/-- thread 0 runs `allocate(Cache, 2 000 000)` up to (not including) its CAS, thread 1 runs
`allocate(Query, 2 500 000)` up to its CAS, then both CAS succeed -/
def cexSched : List Nat :=
  List.replicate 14 0 ++ List.replicate 14 1 ++ [0, 1]

/-- Two threads, two pools, limit 4 MiB: both allocations pass the limit check against a total
that does not yet include the other one, both CASes succeed (they are on different counters),
and the tracked total ends ABOVE the limit. -/
theorem cross_pool_race_counterexample :
    let s := run (init 4194304 cexProgs) cexSched
    s.limit = 4194304 ∧ s.totalUsed = 4500000 ∧ s.totalUsed > s.limit ∧
    (s.threads.map (·.results)) = [[true], [true]] := by
  decide

/-- each of the two allocations alone is within the limit (the schedule matters) -/
theorem cex_sequential_is_fine :
    let s := run (init 4194304 cexProgs) (List.replicate 15 0 ++ List.replicate 15 1)
    s.totalUsed ≤ s.limit ∧ (s.threads.map (·.results)) = [[true], [false]] := by
  decide


/-- non-vacuity of `seq_safe`: a program that fills the budget exactly and is then refused -/
example :
    let s := run (init 4194304 [[.alloc 4 4194304, .alloc 4 1]]) (List.replicate 24 0)
    s.totalUsed = 4194304 ∧ (s.threads.map (·.results)) = [[false, true]] := by decide +kernel

end TurVerif.C39
