import TurVerif.Lemmas.FreelistInv
/-!
C34  The freelist conserves pages.

Theorems about the M-code model `TurVerif.Freelist` (transcribed from src/storage/freelist.rs).
Histories: any interleaving of `release p` (the client gives up a page it owns: `p ≠ 0`, in range,
not currently free), `allocate`, and client writes to pages the client owns (any page that is not
currently free — including page 0, the file-header page).  Ghost state: `g` = pages released and
not handed out since, `a` = pages handed out and not released since.

* pinned code (`allocate`): the full statements are false (`trunk_leak_counterexample`,
  `page0_trunk_counterexample`); proved on the domain "the client keeps bytes 16..24 of page 0
  zero": `alloc_was_released_partial`, `no_double_alloc_partial`, `allocate_terminates_partial`,
  `count_exact_partial` (free_count = obtainable pages + counted trunk pages).
* repaired code (`allocateFixed`, fix_freelist.patch): `Fixed.alloc_was_released`,
  `Fixed.no_double_alloc`, `Fixed.count_exact`, no side condition.
-/
namespace TurVerif.C34
open TurVerif.Freelist

theorem invO_reach {s g a} (h : Reach allocate W0 s g a) : InvO s g := by
  induction h with
  | init n hn => exact ⟨[], [], 0, core_init n hn, by simp [items], rfl, rfl, rfl⟩
  | @release s g a p _ hp0 hpn hpg ih =>
    obtain ⟨ts, orph, c, hc, hperm, hf, h0⟩ := ih
    have hpi : p ∉ items s ts := fun hm => hpg (hperm.mem_iff.mp (by simp [hm]))
    obtain ⟨-, hn, hfc, hpz, ts', hc', hi'⟩ := core_release hc hp0 hpn hpi
    by_cases hh : s.head = 0
    · have := Chain_head_zero (hh ▸ hc.chain)
      subst this
      refine ⟨ts', orph, 0, hc', by rw [hi']; exact hperm.cons p, ?_, ?_⟩
      · rw [hfc, hi']; simp [hh, items]
      · unfold Page0Clean; rw [hpz]; exact h0
    · refine ⟨ts', orph, c, hc', by rw [hi']; exact hperm.cons p, ?_, ?_⟩
      · rw [hfc, hi']; simp [hh, hf]; omega
      · unfold Page0Clean; rw [hpz]; exact h0
  | @alloc s g a _ ih =>
    obtain ⟨ts, orph, c, hc, hperm, hf, h0⟩ := ih
    have hnp := hc.np
    obtain ⟨k, hk⟩ : ∃ k, s.npages + 1 = k + 2 := ⟨s.npages - 1, by omega⟩
    obtain ⟨ts', c', dr, hc', hp', hf', hn', hz', -⟩ := core_allocAux (fuel := k) hc hf h0
    unfold allocate
    rw [hk]
    refine ⟨ts', dr ++ orph, c', hc', ?_, hf', by unfold Page0Clean; rw [hz']; exact h0⟩
    have hall : (resPages (allocAux (k + 2) s).2 ++
        (items (allocAux (k + 2) s).1 ts' ++ (dr ++ orph))).Perm g := by
      have := (hp'.append_right orph).symm.trans hperm
      simpa [List.append_assoc] using this
    cases hr : (allocAux (k + 2) s).2 with
    | page p =>
      rw [hr] at hall
      simp only [resPages, List.singleton_append] at hall
      have hpg : p ∈ g := hall.mem_iff.mp (by simp)
      simp only [freeAfter]
      exact (hall.trans (List.perm_cons_erase hpg)).cons_inv
    | none => rw [hr] at hall; simpa [resPages, freeAfter] using hall
    | err => rw [hr] at hall; simpa [resPages, freeAfter] using hall
    | diverge => rw [hr] at hall; simpa [resPages, freeAfter] using hall
  | @write s g a p v _ hpg hw ih =>
    obtain ⟨ts, orph, c, hc, hperm, hf, h0⟩ := ih
    have hpi : p ∉ items s ts := fun hm => hpg (hperm.mem_iff.mp (by simp [hm]))
    obtain ⟨hc', hi', -, hfc, -⟩ := core_write (v := v) hc hpi
    refine ⟨ts, orph, c, hc', by rw [hi']; exact hperm, by rw [hfc, hi']; exact hf, ?_⟩
    unfold Page0Clean clientWrite
    split
    · exact h0
    · by_cases hp : p = 0
      · subst hp; simpa using hw rfl
      · have : (0 : Nat) ≠ p := fun e => hp e.symm
        have h0' : (s.page 0).next = 0 ∧ (s.page 0).count = 0 := h0
        simpa [this] using h0'

/-! ### property theorems -/

/-! #### pinned code, on the domain `W0` (client keeps bytes 16..24 of page 0 zero) -/

/-- every page `allocate` returns was released and not handed out since -/
theorem alloc_was_released_partial {s g a p} (h : Reach allocate W0 s g a)
    (hr : (allocate s).2 = .page p) : p ∈ g := by
  obtain ⟨ts, orph, c, hc, hperm, hf, h0⟩ := invO_reach h
  obtain ⟨k, hk⟩ : ∃ k, s.npages + 1 = k + 2 := ⟨s.npages - 1, by have := hc.np; omega⟩
  obtain ⟨ts', c', dr, -, hp', -⟩ := core_allocAux (fuel := k) hc hf h0
  unfold allocate at hr
  rw [hk] at hr
  rw [hr] at hp'
  exact hperm.mem_iff.mp (List.mem_append_left _ (hp'.mem_iff.mpr (by simp [resPages])))

/-- … and is not among the pages currently handed out -/
theorem no_double_alloc_partial {s g a p} (h : Reach allocate W0 s g a)
    (hr : (allocate s).2 = .page p) : p ∉ a :=
  fun hm => (ghost_disjoint h).2 p hm (alloc_was_released_partial h hr)

/-- `allocate` neither fails nor runs out of fuel (the recursion ends) -/
theorem allocate_terminates_partial {s g a} (h : Reach allocate W0 s g a) :
    (allocate s).2 ≠ .diverge ∧ (allocate s).2 ≠ .err := by
  obtain ⟨ts, orph, c, hc, hperm, hf, h0⟩ := invO_reach h
  obtain ⟨k, hk⟩ : ∃ k, s.npages + 1 = k + 2 := ⟨s.npages - 1, by have := hc.np; omega⟩
  obtain ⟨ts', c', dr, -, -, -, -, -, hres⟩ := core_allocAux (fuel := k) hc hf h0
  unfold allocate
  rw [hk]
  rcases hres with ⟨h1, -⟩ | ⟨p, h1, -⟩ <;> rw [h1] <;> exact ⟨by simp, by simp⟩

/-- drained pages = entries of the chain -/
theorem drain_orig {s : St} {ts : List Nat} {c : Nat} (hc : Core s ts)
    (hf : s.freeCount = (items s ts).length + c) (h0 : Page0Clean s) :
    ∀ n, entryCount s ts ≤ n → (drain allocate n s).length = entryCount s ts := by
  intro n
  induction n generalizing s ts c with
  | zero => intro h; simp [drain]; omega
  | succ n ih =>
    intro hle
    obtain ⟨k, hk⟩ : ∃ k, s.npages + 1 = k + 2 := ⟨s.npages - 1, by have := hc.np; omega⟩
    obtain ⟨ts', c', dr, hc', -, hf', -, hz', hres⟩ := core_allocAux (fuel := k) hc hf h0
    have h0' : Page0Clean (allocAux (k + 2) s).1 := by unfold Page0Clean; rw [hz']; exact h0
    have hal : allocate s = allocAux (k + 2) s := by unfold allocate; rw [hk]
    rcases hres with ⟨h1, h2, -⟩ | ⟨p, h1, h2⟩
    · simp [drain, hal, h1, h2]
    · have := ih hc' hf' h0' (by omega)
      simp [drain, hal, h1, this, h2]

/-- `free_count` = pages later allocations can return **plus** the trunk pages it counted:
    `e` pages come back from a drain, `k ≥ 1` counted pages never do while a chain exists -/
theorem count_exact_partial {s g a} (h : Reach allocate W0 s g a) :
    ∃ e k, s.freeCount = e + k ∧ (∀ n, e ≤ n → (drain allocate n s).length = e) ∧
      (s.head ≠ 0 → 1 ≤ k) := by
  obtain ⟨ts, orph, c, hc, hperm, hf, h0⟩ := invO_reach h
  refine ⟨entryCount s ts, ts.length + c, ?_, drain_orig hc hf h0, ?_⟩
  · rw [hf, length_items]; omega
  · intro hh
    obtain ⟨ts', rfl⟩ := Chain_head_ne hc.chain hh
    simp; omega

/-- the full `count_exact` is false of the pinned code: one page released, `free_count = 1`,
    and `allocate` returns nothing -/
theorem trunk_leak_counterexample :
    ∃ s g a, Reach allocate W0 s g a ∧ s.freeCount = 1 ∧ g = [5] ∧ (allocate s).2 = .none :=
  ⟨(release (St.init 8) 5).1, [5], [],
    Reach.release 5 (Reach.init 8 (by decide)) (by decide) (by decide) (by simp),
    by decide, rfl, by decide⟩

/-- the full `alloc_was_released` is false of the pinned code once the client's page 0 has a
    non-zero word at bytes 20..24: after `release 5; release 6; allocate (= 6)` the list has
    `head_page = 0, free_count = 1`, and the next `allocate` returns page 7 out of page 0 -/
theorem page0_trunk_counterexample :
    ∃ s g a, Reach allocate (fun _ _ => True) s g a ∧ (allocate s).2 = .page 7 ∧ 7 ∉ g := by
  let s0 := clientWrite (St.init 8) 0 ⟨84, 0, 1, [7]⟩
  let s1 := (release s0 5).1
  let s2 := (release s1 6).1
  have r0 : Reach allocate (fun _ _ => True) s0 [] [] :=
    Reach.write 0 _ (Reach.init 8 (by decide)) (by simp) trivial
  have r1 : Reach allocate (fun _ _ => True) s1 [5] [] :=
    Reach.release 5 r0 (by decide) (by decide) (by simp)
  have r2 : Reach allocate (fun _ _ => True) s2 [6, 5] [] :=
    Reach.release 6 r1 (by decide) (by decide) (by simp)
  have r3 := Reach.alloc r2
  have e3 : (allocate s2).2 = .page 6 := by decide
  rw [e3] at r3
  exact ⟨_, _, _, r3, by decide, by decide⟩

/-! #### repaired code (fix_freelist.patch): no side condition on the client's pages -/
namespace Fixed

/-- every page `allocate` returns was released and not handed out since -/
theorem alloc_was_released {s g a p} (h : Reach allocateFixed (fun _ _ => True) s g a)
    (hr : (allocateFixed s).2 = .page p) : p ∈ g :=
  (invF_alloc (invF_reach h)).2.2.1 p hr

/-- … and is not among the pages currently handed out -/
theorem no_double_alloc {s g a p} (h : Reach allocateFixed (fun _ _ => True) s g a)
    (hr : (allocateFixed s).2 = .page p) : p ∉ a :=
  fun hm => (ghost_disjoint h).2 p hm (alloc_was_released h hr)

/-- `allocate` never fails -/
theorem allocate_total {s g a} (h : Reach allocateFixed (fun _ _ => True) s g a) :
    (allocateFixed s).2 = .none ∨ ∃ p, (allocateFixed s).2 = .page p := by
  have := invF_alloc (invF_reach h)
  by_cases hz : s.freeCount = 0
  · exact Or.inl (this.2.2.2.1 hz)
  · exact Or.inr (this.2.2.2.2 (by omega))

theorem drain_fixed {s : St} {g : List Nat} (h : InvF s g) :
    ∀ n, s.freeCount ≤ n → (drain allocateFixed n s).Perm g := by
  intro n
  induction n generalizing s g with
  | zero =>
    intro hle
    obtain ⟨ts, hc, hperm, hf⟩ := h
    have : items s ts = [] := List.eq_nil_of_length_eq_zero (by omega)
    rw [this] at hperm
    simpa [drain] using hperm
  | succ n ih =>
    intro hle
    obtain ⟨hinv', -, hmem, hz, hpos⟩ := invF_alloc h
    by_cases hfc : s.freeCount = 0
    · obtain ⟨ts, hc, hperm, hf⟩ := h
      have : items s ts = [] := List.eq_nil_of_length_eq_zero (by omega)
      rw [this] at hperm
      simp [drain, hz hfc]
      exact hperm.nil_eq.symm ▸ rfl
    · obtain ⟨p, hr⟩ := hpos (by omega)
      have hpg := hmem p hr
      rw [hr] at hinv'
      simp only [freeAfter] at hinv'
      have hfc' : (allocateFixed s).1.freeCount ≤ n := by
        obtain ⟨ts', hc', hperm', hf'⟩ := hinv'
        obtain ⟨ts, hc, hperm, hf⟩ := h
        have h1 := hperm'.length_eq
        have h2 := hperm.length_eq
        have h3 := List.length_erase_of_mem hpg
        omega
      have := ih hinv' hfc'
      simp only [drain, hr]
      exact (this.cons p).trans (List.perm_cons_erase hpg).symm

/-- `free_count` is exactly the number of released-and-not-returned pages, and draining the list
    returns exactly those pages (each once) -/
theorem count_exact {s g a} (h : Reach allocateFixed (fun _ _ => True) s g a) :
    s.freeCount = g.length ∧
    ∀ n, s.freeCount ≤ n → (drain allocateFixed n s).Perm g ∧
      (drain allocateFixed n s).length = s.freeCount := by
  have hinv := invF_reach h
  have hlen : s.freeCount = g.length := by
    obtain ⟨ts, hc, hperm, hf⟩ := hinv
    rw [hf]; exact hperm.length_eq
  refine ⟨hlen, fun n hn => ?_⟩
  have := drain_fixed hinv n hn
  exact ⟨this, by rw [this.length_eq, hlen]⟩

/-- "no page is handed out twice while allocated", over a whole run of allocations: the pages
returned by any number of successive allocations are pairwise distinct, were all released before,
and none of them is currently allocated -/
theorem drain_distinct_unallocated {s g a} (h : Reach allocateFixed (fun _ _ => True) s g a)
    (n : Nat) (hn : s.freeCount ≤ n) :
    (drain allocateFixed n s).Nodup ∧ ∀ p ∈ drain allocateFixed n s, p ∈ g ∧ p ∉ a := by
  have hperm := ((count_exact h).2 n hn).1
  have hg := ghost_disjoint h
  refine ⟨hperm.nodup_iff.mpr hg.1, fun p hp => ?_⟩
  have hpg : p ∈ g := hperm.mem_iff.mp hp
  exact ⟨hpg, fun hpa => hg.2 p hpa hpg⟩

/-- the witness of `trunk_leak_counterexample` behaves correctly after the repair -/
theorem trunk_returned : (allocateFixed (release (St.init 8) 5).1).2 = .page 5 := by decide

end Fixed

/-! #### non-vacuity: the hypotheses are satisfiable by histories that cross a trunk boundary
    shape (release, allocate, write to a re-acquired page, release again) -/
example : ∃ s g a, Reach allocate W0 s g a ∧ g = [6] ∧ a = [7] :=
  ⟨_, _, _, Reach.alloc (Reach.release 7 (Reach.release 6 (Reach.init 9 (by decide))
    (by decide) (by decide) (by simp)) (by decide) (by decide) (by simp)),
    by decide, by decide⟩

end TurVerif.C34
