import TurVerif.Model.Lru
import TurVerif.Model.SqlMaint
import TurVerif.Lemmas.Lru
/-!
# C42 — configuration choices do not change query results

Two parts.

* The *specification* part: on the relational reference model (`TurVerif.SqlDb`) a configuration
  statement (PRAGMA wal / synchronous / wal_autoflush / wal_checkpoint_threshold) and the number of
  tables in the catalog that a statement does not mention are, by definition, not inputs of `step`;
  `config_identity` states the resulting law for whole histories (`TurVerif.SqlMaint`).
* The *mechanism* part that "more tables and indexes than the open-file limit" exercises: the
  open-file LRU of `src/storage/file_manager.rs`, M-code in `Model/Lru.lean`.  An LRU of any
  capacity over reloadable handles is observationally a total map (`lru_get_eq_map`), never holds
  more than `capacity` handles (`len_le_cap`), keeps its representation invariant (`inv_runOps`),
  evicts exactly the least recently used key and only when full (`insert_evicts_lru`,
  `insert_no_evict_when_room`), and a fetched key becomes the most recently used (`fetch_mru`).
  Caveat (assumption, not proved): two live mappings of one file (the evicted handle may still be
  held by a caller while the file is re-opened) are coherent – `MAP_SHARED` semantics.
-/
namespace TurVerif.C42
open TurVerif.Lru

variable {V : Type}

/-- every cached handle is the handle of its key -/
def Sound (load : Nat → V) (c : Lru V) : Prop := ∀ k v, mapGet c.map k = some v → v = load k

theorem sound_new (load : Nat → V) (cap : Nat) : Sound load (new cap : Lru V) := by
  intro k v h; simp [new, mapGet] at h

theorem sound_touch {load : Nat → V} {c : Lru V} (h : Sound load c) (k : Nat) : Sound load (touch c k) := by
  intro k' v hv; rw [touch_map] at hv; exact h k' v hv

theorem sound_get {load : Nat → V} {c : Lru V} (h : Sound load c) (k : Nat) : Sound load (get c k).1 := by
  unfold Lru.get; split
  · exact sound_touch h k
  · exact h

theorem sound_remove {load : Nat → V} {c : Lru V} (h : Sound load c) (k : Nat) : Sound load (remove c k).1 := by
  intro k' v hv
  have hv' : mapGet (mapRemove c.map k) k' = some v := hv
  rw [mapGet_remove] at hv'
  by_cases hk : k' = k
  · simp [hk] at hv'
  · simp only [hk, if_false] at hv'; exact h k' v hv'

theorem sound_popLru {load : Nat → V} {c : Lru V} (h : Sound load c) : Sound load (popLru c).1 := by
  unfold popLru
  cases c.order with
  | nil => exact h
  | cons a rest =>
    simp only
    cases hg : mapGet c.map a with
    | none => exact h
    | some w =>
      intro k' v hv
      have hv' : mapGet (mapRemove c.map a) k' = some v := hv
      rw [mapGet_remove] at hv'
      by_cases hk : k' = a
      · simp [hk] at hv'
      · simp only [hk, if_false] at hv'; exact h k' v hv'

theorem sound_insert {load : Nat → V} {c : Lru V} (h : Sound load c) (k : Nat) :
    Sound load (insert c k (load k)).1 := by
  have key : ∀ (d : Lru V), Sound load d → ∀ (o : List Nat),
      Sound load ({ d with order := o, map := mapInsert d.map k (load k) } : Lru V) := by
    intro d hd o k' v hv
    have hv' : mapGet (mapInsert d.map k (load k)) k' = some v := hv
    rw [mapGet_insert] at hv'
    by_cases hk : k' = k
    · simp only [hk, if_true, Option.some.injEq] at hv'; rw [hk]; exact hv'.symm
    · simp only [hk, if_false] at hv'; exact hd k' v hv'
  unfold Lru.insert
  by_cases hh : mapHas c.map k = true
  · simp only [hh, if_true]
    exact key (touch c k) (sound_touch h k) _
  · simp only [hh]
    by_cases hc : c.order.length ≥ c.cap
    · simp only [hc, if_true]
      exact key (popLru c).1 (sound_popLru h) _
    · simp only [hc]
      exact key c h _

/-- what `get` returns on a key the map holds -/
theorem get_hit {c : Lru V} {k : Nat} {v : V} (h : mapGet c.map k = some v) :
    (get c k).2 = some v := by
  unfold Lru.get
  have : mapHas c.map k = true := by simp [mapHas, h]
  simp [this, touch_map, h]

theorem get_miss {c : Lru V} {k : Nat} (h : mapGet c.map k = none) : get c k = (c, none) := by
  unfold Lru.get
  have : mapHas c.map k = false := by simp [mapHas, h]
  simp [this]

theorem insert_get (c : Lru V) (k : Nat) (v : V) : mapGet (insert c k v).1.map k = some v := by
  unfold Lru.insert
  by_cases hh : mapHas c.map k = true
  · simp only [hh, if_true]; show mapGet (mapInsert (touch c k).map k v) k = some v
    rw [mapGet_insert]; simp
  · simp only [hh]
    by_cases hc : c.order.length ≥ c.cap
    · simp only [hc, if_true]; show mapGet (mapInsert (popLru c).1.map k v) k = some v
      rw [mapGet_insert]; simp
    · simp only [hc]; show mapGet (mapInsert c.map k v) k = some v
      rw [mapGet_insert]; simp

/-- one `FileManager` fetch: returns the file's handle (the `unwrap` cannot fail), keeps the cache
sound -/
theorem fetch_spec {load : Nat → V} {c : Lru V} (h : Sound load c) (k : Nat) :
    (fetch load c k).2.1 = some (load k) ∧ Sound load (fetch load c k).1 := by
  unfold fetch
  cases hg : mapGet c.map k with
  | some v =>
    have h1 : (get c k).2 = some v := get_hit hg
    have hv : v = load k := h k v hg
    have hs1 : Sound load (get c k).1 := sound_get h k
    have hm : mapGet (get c k).1.map k = some v := by
      unfold Lru.get; have : mapHas c.map k = true := by simp [mapHas, hg]
      simp [this, touch_map, hg]
    rcases hgk : get c k with ⟨c1, hit⟩
    rw [hgk] at h1 hs1 hm
    simp only at h1 hs1 hm
    subst h1
    simp only
    have h2 : (get c1 k).2 = some v := get_hit hm
    have hs2 : Sound load (get c1 k).1 := sound_get hs1 k
    rcases hgk2 : get c1 k with ⟨c2, v2⟩
    rw [hgk2] at h2 hs2
    simp only at h2 hs2 ⊢
    exact ⟨by rw [h2, hv], hs2⟩
  | none =>
    rw [get_miss hg]
    simp only
    have hs2 : Sound load (insert c k (load k)).1 := sound_insert h k
    have hm : mapGet (insert c k (load k)).1.map k = some (load k) := insert_get c k (load k)
    rcases hi : insert c k (load k) with ⟨c2, ev⟩
    rw [hi] at hs2 hm
    simp only at hs2 hm ⊢
    have h3 : (get c2 k).2 = some (load k) := get_hit hm
    have hs3 : Sound load (get c2 k).1 := sound_get hs2 k
    rcases hg3 : get c2 k with ⟨c3, v3⟩
    rw [hg3] at h3 hs3
    simp only at h3 hs3 ⊢
    exact ⟨h3, hs3⟩

theorem runOps_eq_map {load : Nat → V} (ops : List Op) : ∀ (c : Lru V), Sound load c →
    (runOps load c ops).2 = runMap load ops := by
  induction ops with
  | nil => intro c _; rfl
  | cons op rest ih =>
    intro c hc
    cases op with
    | fetch k =>
      have hf := fetch_spec hc k
      unfold runOps runMap
      rcases hfe : fetch load c k with ⟨c1, v, ev⟩
      rw [hfe] at hf
      simp only at hf ⊢
      rw [ih c1 hf.2, hf.1]
    | drop k =>
      unfold runOps runMap
      exact ih _ (sound_remove hc k)

/-! ## representation invariant and capacity -/

theorem inv_fetch {load : Nat → V} {c : Lru V} (h : Inv c) (k : Nat) : Inv (fetch load c k).1 := by
  unfold fetch
  rcases hg : get c k with ⟨c1, hit⟩
  have h1 : Inv c1 := by have := inv_get h k; rw [hg] at this; exact this
  cases hit with
  | some v =>
    simp only
    rcases hg2 : get c1 k with ⟨c2, v2⟩
    have := inv_get h1 k; rw [hg2] at this; exact this
  | none =>
    simp only
    rcases hi : insert c1 k (load k) with ⟨c2, ev⟩
    have h2 : Inv c2 := by have := inv_insert h1 k (load k); rw [hi] at this; exact this
    simp only
    rcases hg3 : get c2 k with ⟨c3, v3⟩
    have := inv_get h2 k; rw [hg3] at this; exact this

theorem get_cap (c : Lru V) (k : Nat) : (get c k).1.cap = c.cap := by
  unfold Lru.get; split
  · exact touch_cap c k
  · rfl

theorem get_order_len {c : Lru V} (h : Inv c) (k : Nat) : (get c k).1.order.length = c.order.length := by
  rw [← (inv_get h k).len_eq, ← h.len_eq]
  unfold Lru.get; split
  · exact touch_len c k
  · rfl

theorem insert_cap (c : Lru V) (k : Nat) (v : V) : (insert c k v).1.cap = c.cap := by
  unfold Lru.insert
  by_cases hh : mapHas c.map k = true
  · simp only [hh, if_true]; exact touch_cap c k
  · simp only [hh]
    by_cases hc : c.order.length ≥ c.cap
    · simp only [hc, if_true]; exact popLru_cap c
    · simp [hc]

/-- `insert` never lets `order` grow beyond the capacity (capacity ≥ 1) -/
theorem insert_order_le {c : Lru V} (h : Inv c) (hcap : 1 ≤ c.cap) (hle : c.order.length ≤ c.cap)
    (k : Nat) (v : V) : (insert c k v).1.order.length ≤ c.cap := by
  unfold Lru.insert
  by_cases hh : mapHas c.map k = true
  · simp only [hh, if_true]
    have : (touch c k).order.length = c.order.length := by
      rw [← (inv_touch h k).len_eq, ← h.len_eq]; exact touch_len c k
    show (touch c k).order.length ≤ c.cap
    omega
  · simp only [hh]
    by_cases hc : c.order.length ≥ c.cap
    · simp only [hc, if_true]
      have hne : c.order ≠ [] := by
        intro e; rw [e] at hc; simp at hc; omega
      have := popLru_order_len h hne
      show ((popLru c).1.order ++ [k]).length ≤ c.cap
      simp only [List.length_append, List.length_cons, List.length_nil]
      omega
    · simp only [hc]
      show (c.order ++ [k]).length ≤ c.cap
      simp only [List.length_append, List.length_cons, List.length_nil]
      omega

theorem fetch_order_le {load : Nat → V} {c : Lru V} (h : Inv c) (hcap : 1 ≤ c.cap)
    (hle : c.order.length ≤ c.cap) (k : Nat) :
    (fetch load c k).1.order.length ≤ c.cap ∧ (fetch load c k).1.cap = c.cap := by
  unfold fetch
  rcases hg : get c k with ⟨c1, hit⟩
  have h1 : Inv c1 := by have := inv_get h k; rw [hg] at this; exact this
  have l1 : c1.order.length = c.order.length := by have := get_order_len h k; rw [hg] at this; exact this
  have p1 : c1.cap = c.cap := by have := get_cap c k; rw [hg] at this; exact this
  cases hit with
  | some v =>
    simp only
    rcases hg2 : get c1 k with ⟨c2, v2⟩
    have l2 : c2.order.length = c1.order.length := by have := get_order_len h1 k; rw [hg2] at this; exact this
    have p2 : c2.cap = c1.cap := by have := get_cap c1 k; rw [hg2] at this; exact this
    simp only
    constructor <;> omega
  | none =>
    simp only
    rcases hi : insert c1 k (load k) with ⟨c2, ev⟩
    have h2 : Inv c2 := by have := inv_insert h1 k (load k); rw [hi] at this; exact this
    have l2 : c2.order.length ≤ c1.cap := by
      have := insert_order_le h1 (by omega) (by omega) k (load k); rw [hi] at this; exact this
    have p2 : c2.cap = c1.cap := by have := insert_cap c1 k (load k); rw [hi] at this; exact this
    simp only
    rcases hg3 : get c2 k with ⟨c3, v3⟩
    have l3 : c3.order.length = c2.order.length := by have := get_order_len h2 k; rw [hg3] at this; exact this
    have p3 : c3.cap = c2.cap := by have := get_cap c2 k; rw [hg3] at this; exact this
    simp only
    constructor <;> omega

theorem remove_order_le {c : Lru V} (k : Nat) : (remove c k).1.order.length ≤ c.order.length := by
  show (c.order.erase k).length ≤ c.order.length
  exact List.length_erase_le

/-- invariant bundle carried along a run -/
structure Good (cap : Nat) (c : Lru V) : Prop where
  inv : Inv c
  cap_eq : c.cap = cap
  le : c.order.length ≤ cap

theorem good_runOps {load : Nat → V} {cap : Nat} (hcap : 1 ≤ cap) (ops : List Op) :
    ∀ (c : Lru V), Good cap c → Good cap (runOps load c ops).1 := by
  induction ops with
  | nil => intro c h; exact h
  | cons op rest ih =>
    intro c h
    cases op with
    | fetch k =>
      unfold runOps
      have hf := fetch_order_le (load := load) h.inv (by rw [h.cap_eq]; exact hcap) (by rw [h.cap_eq]; exact h.le) k
      have hi := inv_fetch (load := load) h.inv k
      rcases hfe : fetch load c k with ⟨c1, v, ev⟩
      rw [hfe] at hf hi
      simp only at hf hi ⊢
      exact ih c1 ⟨hi, by rw [hf.2, h.cap_eq], by rw [← h.cap_eq]; exact hf.1⟩
    | drop k =>
      unfold runOps
      refine ih _ ⟨inv_remove h.inv k, h.cap_eq, ?_⟩
      have := remove_order_le (c := c) k
      have := h.le
      omega

/-! ## property theorems -/

/-- **An LRU over reloadable values is observationally a total map.**  For every capacity (even
0), every `load`, every sequence of fetches and drops, starting from the empty cache (or any sound
one, `runOps_eq_map`): each fetch returns exactly the handle a plain map `k ↦ load k` would
return – in particular the `.unwrap()` in `FileManager::table_data` never fails and eviction is
invisible to callers. -/
theorem lru_get_eq_map (load : Nat → V) (cap : Nat) (ops : List Op) :
    (runOps load (new cap) ops).2 = runMap load ops :=
  runOps_eq_map ops (new cap) (sound_new load cap)

/-- the representation invariant of `LruFileCache` (`order` = the keys of `map`, each once) holds
after every sequence of operations -/
theorem inv_runOps (load : Nat → V) (cap : Nat) (hcap : 1 ≤ cap) (ops : List Op) :
    Inv (runOps load (new cap) ops).1 :=
  (good_runOps hcap ops (new cap) ⟨inv_new cap, rfl, by simp [new]⟩).inv

/-- **never more than `capacity` open files** (capacity ≥ 1; the code clamps to ≥ 8) -/
theorem len_le_cap (load : Nat → V) (cap : Nat) (hcap : 1 ≤ cap) (ops : List Op) :
    len (runOps load (new cap) ops).1 ≤ cap := by
  have g := good_runOps (load := load) hcap ops (new cap) ⟨inv_new cap, rfl, by simp [new]⟩
  rw [g.inv.len_eq]; exact g.le

/-- with capacity 0 the bound fails: one insert leaves one entry (why the code clamps) -/
theorem len_le_cap_zero_counterexample : len (insert (new 0 : Lru Nat) 5 50).1 = 1 := by decide

/-- a full cache evicts exactly its least recently used key -/
theorem insert_evicts_lru {c : Lru V} (h : Inv c) (k : Nat) (v : V) (hk : mapHas c.map k = false)
    (a : Nat) (rest : List Nat) (ho : c.order = a :: rest) (hfull : c.order.length ≥ c.cap) :
    ∃ w, (insert c k v).2 = some (a, w) ∧ mapGet c.map a = some w := by
  have ha : a ∈ keys c.map := (h.mem_iff a).mpr (by simp [ho])
  have hs := (mapGet_isSome_iff c.map a).mpr ha
  cases hg : mapGet c.map a with
  | none => simp [hg] at hs
  | some w =>
    refine ⟨w, ?_, rfl⟩
    unfold Lru.insert
    simp only [hk, Bool.false_eq_true, if_false, hfull, if_true]
    unfold popLru
    simp [ho, hg]

/-- a cache with room evicts nothing -/
theorem insert_no_evict_when_room (c : Lru V) (k : Nat) (v : V) (hroom : c.order.length < c.cap) :
    (insert c k v).2 = none := by
  unfold Lru.insert
  by_cases hh : mapHas c.map k = true
  · simp [hh]
  · have : ¬ c.order.length ≥ c.cap := by omega
    simp [hh, this]

/-- a fetched key is the most recently used one afterwards -/
theorem fetch_mru {load : Nat → V} {c : Lru V} (h : Inv c) (k : Nat) :
    (fetch load c k).1.order.getLast? = some k := by
  have touch_last : ∀ (d : Lru V), k ∈ d.order → (touch d k).order.getLast? = some k := by
    intro d hd
    unfold touch
    have : d.order.contains k = true := by simpa using hd
    simp only [this, if_true]
    simp
  have get_last : ∀ (d : Lru V), Inv d → (mapGet d.map k).isSome → (get d k).1.order.getLast? = some k := by
    intro d hd hs
    unfold Lru.get
    have hm : mapHas d.map k = true := hs
    simp only [hm, if_true]
    exact touch_last d ((hd.mem_iff k).mp ((mapGet_isSome_iff d.map k).mp hs))
  unfold fetch
  rcases hg : get c k with ⟨c1, hit⟩
  have h1 : Inv c1 := by have := inv_get h k; rw [hg] at this; exact this
  cases hit with
  | some v =>
    simp only
    have hm : (mapGet c1.map k).isSome := by
      have : (get c k).2 = some v := by rw [hg]
      unfold Lru.get at this hg
      by_cases hh : mapHas c.map k = true
      · simp only [hh, if_true] at this hg
        have e : c1 = touch c k := by injection hg with e _; exact e.symm
        rw [e, touch_map]; exact hh
      · simp [hh] at this
    have := get_last c1 h1 hm
    rcases hg2 : get c1 k with ⟨c2, v2⟩
    rw [hg2] at this; exact this
  | none =>
    simp only
    rcases hi : insert c1 k (load k) with ⟨c2, ev⟩
    have h2 : Inv c2 := by have := inv_insert h1 k (load k); rw [hi] at this; exact this
    have hm : (mapGet c2.map k).isSome := by
      have := insert_get c1 k (load k); rw [hi] at this; simp at this; simp [this]
    simp only
    have := get_last c2 h2 hm
    rcases hg3 : get c2 k with ⟨c3, v3⟩
    rw [hg3] at this; exact this

/-- non-vacuity / worked example: capacity 2, keys 1 2 3 1: key 1 is evicted by 3 and transparently
re-opened -/
example : (runOps (fun k => k * 10) (new 2 : Lru Nat) [.fetch 1, .fetch 2, .fetch 3, .fetch 1]).2
    = [some 10, some 20, some 30, some 10] := by decide
example : (runOps (fun k => k * 10) (new 2 : Lru Nat) [.fetch 1, .fetch 2, .fetch 3, .fetch 1]).1.order
    = [3, 1] := by decide

/-! ## specification part: configuration is not an input of the reference semantics -/

open TurVerif.SqlMaint in
/-- On the relational reference model, a history interleaved with configuration statements
(PRAGMA wal / synchronous / wal_autoflush / wal_checkpoint_threshold) yields exactly the statement
results and the final state of the history without them. -/
theorem config_identity (s : TurVerif.SqlDb.DbState) (items : List Item)
    (h : ∀ it ∈ items, it.isReopen = false) :
    runItems s items = TurVerif.SqlDb.run s (stmtsOf items) :=
  runItems_eq_run s items h

end TurVerif.C42
