import TurVerif.Model.Sql
import TurVerif.Model.Like
import TurVerif.Lemmas.Like
import TurVerif.Lemmas.LikeAscii
/-!
C14  WHERE filtering follows SQL three-valued logic.

Theorems about the reference semantics `TurVerif.Sql` (M-spec: this *is* the definition the
property statement refers to) and about the M-code model of the engine's LIKE matcher.
The executor itself is not modelled; it is tied to this semantics by the differential engine
`sql_where` (see props/C14.json).
-/
namespace TurVerif.C14
open TurVerif.Sql

/-! ### Kleene logic (complete finite tables) -/
theorem and_table :
    Tri.and .t .t = .t ∧ Tri.and .t .f = .f ∧ Tri.and .t .u = .u ∧
    Tri.and .f .t = .f ∧ Tri.and .f .f = .f ∧ Tri.and .f .u = .f ∧
    Tri.and .u .t = .u ∧ Tri.and .u .f = .f ∧ Tri.and .u .u = .u := by decide

theorem or_table :
    Tri.or .t .t = .t ∧ Tri.or .t .f = .t ∧ Tri.or .t .u = .t ∧
    Tri.or .f .t = .t ∧ Tri.or .f .f = .f ∧ Tri.or .f .u = .u ∧
    Tri.or .u .t = .t ∧ Tri.or .u .f = .u ∧ Tri.or .u .u = .u := by decide

theorem not_table : Tri.not .t = .f ∧ Tri.not .f = .t ∧ Tri.not .u = .u := by decide

theorem and_comm (a b : Tri) : a.and b = b.and a := by cases a <;> cases b <;> rfl
theorem or_comm (a b : Tri) : a.or b = b.or a := by cases a <;> cases b <;> rfl
theorem and_assoc (a b c : Tri) : (a.and b).and c = a.and (b.and c) := by
  cases a <;> cases b <;> cases c <;> rfl
theorem or_assoc (a b c : Tri) : (a.or b).or c = a.or (b.or c) := by
  cases a <;> cases b <;> cases c <;> rfl
theorem de_morgan_and (a b : Tri) : (a.and b).not = a.not.or b.not := by
  cases a <;> cases b <;> rfl
theorem de_morgan_or (a b : Tri) : (a.or b).not = a.not.and b.not := by
  cases a <;> cases b <;> rfl
theorem not_not (a : Tri) : a.not.not = a := by cases a <;> rfl
theorem and_true (a : Tri) : a.and .t = a := by cases a <;> rfl

/-! ### comparisons with NULL are UNKNOWN -/
theorem cmp_null_left (op : BinOp) (v : Val) : cmpVals op .null v = .ok .null := by
  simp [cmpVals, Val.cmp]

theorem cmp_null_right (op : BinOp) (v : Val) : cmpVals op v .null = .ok .null := by
  cases v <;> simp [cmpVals, Val.cmp]

/-- a comparison of two non-NULL comparable values is TRUE or FALSE, never UNKNOWN -/
theorem cmp_nonnull_two_valued (op : BinOp) (a b : Val) (o : Ordering)
    (h : Val.cmp a b = .ok (some o)) : cmpVals op a b = .ok (.bool (cmpHolds op o)) := by
  simp [cmpVals, h]

/-! ### IS [NOT] NULL is two-valued -/
theorem isNull_two_valued (r : Row) (e : Expr) (n : Bool) (v : Val) (h : eval r e = .ok v) :
    eval r (.isNull e n) = .ok (.bool (v.isNull != n)) := by
  simp [eval, h]

/-! ### IN / NOT IN -/
/-- `x IN (v :: vs)` is `x = v OR x IN vs` in 3VL -/
theorem in_cons (x v : Val) (vs : List Val) (c : Val) (a b : Tri)
    (h1 : cmpVals .eq x v = .ok c) (h2 : c.truth = .ok a) (h3 : inFold x vs = .ok b) :
    inFold x (v :: vs) = .ok (a.or b) := by
  simp [inFold, h1, h2, h3]

theorem in_empty (x : Val) : inFold x [] = .ok .f := rfl

theorem in_null_lhs_aux (vs : List Val) :
    inFold .null vs = .ok .f ∨ inFold .null vs = .ok .u := by
  induction vs with
  | nil => left; rfl
  | cons v rest ih =>
    right
    rcases ih with h | h <;> simp [inFold, cmpVals, Val.cmp, Val.truth, h, Tri.or]

/-- a NULL on the left makes IN UNKNOWN for every non-empty list -/
theorem in_null_lhs (vs : List Val) (hne : vs ≠ []) : inFold .null vs = .ok .u := by
  cases vs with
  | nil => exact absurd rfl hne
  | cons v rest =>
    rcases in_null_lhs_aux rest with h | h <;> simp [inFold, cmpVals, Val.cmp, Val.truth, h, Tri.or]

/-- a NULL element in the list: the result is never FALSE (so `NOT IN` is never TRUE) -/
theorem in_list_with_null_not_false (x : Val) (vs : List Val) (tv : Tri)
    (hmem : Val.null ∈ vs) (h : inFold x vs = .ok tv) : tv ≠ .f := by
  induction vs generalizing tv with
  | nil => cases hmem
  | cons v rest ih =>
    simp only [inFold] at h
    split at h
    · cases h
    · rename_i c hc
      split at h
      · rename_i a b ha hb
        injection h with h; subst h
        rcases List.mem_cons.mp hmem with hv | hr
        · subst hv
          have : c = .null := by
            cases x <;> simp [cmpVals, Val.cmp] at hc <;> exact hc.symm
          subst this
          simp [Val.truth] at ha; subst ha
          cases b <;> simp [Tri.or]
        · have := ih b hr hb
          cases a <;> cases b <;> simp_all [Tri.or]
      · cases h
      · cases h

/-! ### BETWEEN is `>= AND <=` -/
theorem between_def (r : Row) (e lo hi : Expr) (v l h : Val)
    (he : eval r e = .ok v) (hl : eval r lo = .ok l) (hh : eval r hi = .ok h) :
    eval r (.between e lo hi false) =
      eval r (.bin .and (.bin .ge e lo) (.bin .le e hi)) := by
  simp only [eval, he, hl, hh]
  cases cmpVals .ge v l <;> cases cmpVals .le v h <;> simp

/-- NOT BETWEEN is the 3VL negation of BETWEEN -/
theorem not_between_def (r : Row) (e lo hi : Expr) (v l h : Val)
    (he : eval r e = .ok v) (hl : eval r lo = .ok l) (hh : eval r hi = .ok h) :
    eval r (.between e lo hi true) = eval r (.not (.between e lo hi false)) := by
  simp only [eval, he, hl, hh]
  cases cmpVals .ge v l <;> cases cmpVals .le v h <;> simp
  rename_i a b
  cases a.truth <;> cases b.truth <;> simp
  rename_i x y
  cases x <;> cases y <;> simp [Tri.and, Tri.not, Val.ofTri, Val.truth]

/-! ### the filter keeps exactly the rows whose predicate is TRUE -/
theorem filter_iff_true (p : Expr) (rows out : List Row) (h : filterRows p rows = .ok out) (r : Row) :
    r ∈ out ↔ r ∈ rows ∧ keeps p r = .ok true := by
  induction rows generalizing out with
  | nil => simp [filterRows] at h; subst h; simp
  | cons x xs ih =>
    simp only [filterRows] at h
    split at h
    · rename_i b o hb ho
      injection h with h; subst h
      have ih' := ih o ho
      by_cases hbt : b = true
      · subst hbt; simp only [if_true, List.mem_cons]
        constructor
        · rintro (rfl | hm)
          · exact ⟨Or.inl rfl, hb⟩
          · exact ⟨Or.inr (ih'.mp hm).1, (ih'.mp hm).2⟩
        · rintro ⟨rfl | hm, hk⟩
          · exact Or.inl rfl
          · exact Or.inr (ih'.mpr ⟨hm, hk⟩)
      · have hbf : b = false := by cases b <;> simp_all
        subst hbf; simp only [Bool.false_eq_true, if_false, List.mem_cons]
        constructor
        · intro hm; exact ⟨Or.inr (ih'.mp hm).1, (ih'.mp hm).2⟩
        · rintro ⟨rfl | hm, hk⟩
          · rw [hb] at hk; cases hk
          · exact ih'.mpr ⟨hm, hk⟩
    · cases h
    · cases h

/-- `keeps` is TRUE exactly when the predicate evaluates to TRUE (not FALSE, not UNKNOWN) -/
theorem keeps_iff (p : Expr) (r : Row) :
    keeps p r = .ok true ↔ eval r p = .ok (.bool true) := by
  unfold keeps
  cases h : eval r p with
  | error e => simp
  | ok v => cases v with
    | bool b => cases b <;> simp [Val.truth, Tri.isTrue]
    | null => simp [Val.truth, Tri.isTrue]
    | int i => simp [Val.truth]
    | flt q => simp [Val.truth]
    | text s => simp [Val.truth]

/-- a filter returns a sublist: order and multiplicities of kept rows are those of the input -/
theorem filter_sublist (p : Expr) (rows out : List Row) (h : filterRows p rows = .ok out) :
    out.Sublist rows := by
  induction rows generalizing out with
  | nil => simp [filterRows] at h; subst h; exact List.Sublist.slnil
  | cons x xs ih =>
    simp only [filterRows] at h
    split at h
    · rename_i b o hb ho
      injection h with h; subst h
      cases b
      · exact (ih o ho).cons x
      · exact (ih o ho).cons_cons x
    · cases h
    · cases h

/-! ### ternary-logic partitioning: `p`, `NOT p`, `p IS NULL` partition the table -/
theorem tlp_row (p : Expr) (r : Row) (v : Val) (tv : Tri) (h : eval r p = .ok v) (ht : v.truth = .ok tv) :
    (keeps p r = .ok true ∧ keeps (.not p) r = .ok false ∧ keeps (.isNull p false) r = .ok false) ∨
    (keeps p r = .ok false ∧ keeps (.not p) r = .ok true ∧ keeps (.isNull p false) r = .ok false) ∨
    (keeps p r = .ok false ∧ keeps (.not p) r = .ok false ∧ keeps (.isNull p false) r = .ok true) := by
  cases v with
  | null =>
    simp [Val.truth] at ht; subst ht
    right; right
    simp [keeps, eval, h, Val.truth, Tri.isTrue, Tri.not, Val.ofTri, Val.isNull]
  | bool b =>
    cases b
    · simp [Val.truth] at ht; subst ht
      right; left
      simp [keeps, eval, h, Val.truth, Tri.isTrue, Tri.not, Val.ofTri, Val.isNull]
    · simp [Val.truth] at ht; subst ht
      left
      simp [keeps, eval, h, Val.truth, Tri.isTrue, Tri.not, Val.ofTri, Val.isNull]
  | int i => simp [Val.truth] at ht
  | flt q => simp [Val.truth] at ht
  | text s => simp [Val.truth] at ht

theorem filterRows_cons (p : Expr) (x : Row) (xs out : List Row)
    (h : filterRows p (x :: xs) = .ok out) :
    ∃ b o, keeps p x = .ok b ∧ filterRows p xs = .ok o ∧ out = if b then x :: o else o := by
  simp only [filterRows] at h
  split at h
  · rename_i b o hb ho
    injection h with h
    exact ⟨b, o, hb, ho, h.symm⟩
  · cases h
  · cases h

/-- TLP, counting form: the three filters' sizes add up to the table size -/
theorem tlp_partition (p : Expr) (rows a b c : List Row)
    (ha : filterRows p rows = .ok a) (hb : filterRows (.not p) rows = .ok b)
    (hc : filterRows (.isNull p false) rows = .ok c) :
    a.length + b.length + c.length = rows.length := by
  induction rows generalizing a b c with
  | nil => simp [filterRows] at ha hb hc; subst ha hb hc; rfl
  | cons x xs ih =>
    obtain ⟨ka, oa, hka, hoa, rfl⟩ := filterRows_cons _ _ _ _ ha
    obtain ⟨kb, ob, hkb, hob, rfl⟩ := filterRows_cons _ _ _ _ hb
    obtain ⟨kc, oc, hkc, hoc, rfl⟩ := filterRows_cons _ _ _ _ hc
    have ih' := ih oa ob oc hoa hob hoc
    -- the predicate evaluates on x (otherwise `keeps` would be an error)
    have : ∃ v tv, eval x p = .ok v ∧ v.truth = .ok tv := by
      unfold keeps at hka
      cases hv : eval x p with
      | error e => simp [hv] at hka
      | ok v =>
        cases ht : v.truth with
        | error e => simp [hv, ht] at hka
        | ok tv => exact ⟨v, tv, rfl, ht⟩
    obtain ⟨v, tv, hv, ht⟩ := this
    rcases tlp_row p x v tv hv ht with ⟨h1, h2, h3⟩ | ⟨h1, h2, h3⟩ | ⟨h1, h2, h3⟩ <;>
      (rw [h1] at hka; rw [h2] at hkb; rw [h3] at hkc
       injection hka with hka; injection hkb with hkb; injection hkc with hkc
       subst hka hkb hkc; simp; omega)

/-! ### select-list evaluation is the same function as filter evaluation -/
theorem select_list_same_value (p : Expr) (r : Row) (out : Row) (h : evalList r [p] = .ok out) :
    ∃ v, out = [v] ∧ eval r p = .ok v ∧ (keeps p r = .ok true ↔ v = .bool true) := by
  simp only [evalList] at h
  cases hv : eval r p with
  | error e => simp [hv] at h
  | ok v =>
    simp [hv] at h
    refine ⟨v, h.symm, rfl, ?_⟩
    rw [keeps_iff, hv]; simp

/-! ### LIKE -/
/-- LIKE with a NULL operand is UNKNOWN -/
theorem like_null (r : Row) (e p : Expr) (n : Bool) (v : Val)
    (h1 : eval r e = .ok .null) (h2 : eval r p = .ok v) : eval r (.like e p n) = .ok .null := by
  simp [eval, h1, h2]

theorem nil_mem_tails {α : Type} (s : List α) : [] ∈ tails s := by
  induction s with
  | nil => simp [tails]
  | cons x xs ih => simp [tails, ih]

theorem like_percent_matches_all (s : List Char) : likeSpec ['%'] s = true := by
  simp only [likeSpec, if_true, List.any_eq_true]
  exact ⟨[], nil_mem_tails s, rfl⟩

theorem like_exact (s : List Char) (h : ∀ c ∈ s, c ≠ '%' ∧ c ≠ '_') : likeSpec s s = true := by
  induction s with
  | nil => rfl
  | cons c cs ih =>
    have hc := h c (by simp)
    simp [likeSpec, hc.1, ih (fun x hx => h x (by simp [hx]))]

/-- M-code of the engine's matcher (`like_match_impl`) DISAGREES with the declarative
definition: a `%` in the pattern is compared literally first, so with a `%` in the text at
that position it is consumed as a literal.  Concrete witness, replayed on the real code by
the harness (known finding C14-like-percent-literal). -/
theorem likeImpl_percent_counterexample :
    TurVerif.Like.likeImpl [120, 37, 120, 37] [95, 37] = some false ∧
    likeSpec ['_', '%'] ['x', '%', 'x', '%'] = true := by decide

/-! ### the engine's LIKE matcher (M-code `likeImpl`) against the declarative definition -/

/-- Termination of the engine's matcher loop: the iteration budget `fuelFor t p` of the model is
never exhausted, for every text and every pattern (potential: `(|t|+|p|+1)·(|t| − starTi) +
(|t| − ti) + (|p| − pi) + 1` strictly decreases in every iteration, `Lemmas/Like.lean`). -/
theorem likeImpl_total (t p : List Nat) : TurVerif.Like.likeImpl t p ≠ none :=
  TurVerif.Like.likeImpl_total' t p

/-- On every text without a `%` byte (37) — and for EVERY pattern — the greedy
single-backtrack matcher computes exactly the declarative LIKE (`likeSpecB` = `likeSpec` over
bytes: `%` any sequence, `_` exactly one byte).  `_partial` because the unrestricted statement is
false (`likeImpl_percent_counterexample`, `likeImpl_text_percent_counterexample`): the
hypothesis on the text cannot be dropped. -/
theorem likeImpl_eq_spec_partial (t p : List Nat) (ht : ∀ b ∈ t, b ≠ 37) :
    TurVerif.Like.likeImpl t p = some (TurVerif.Like.likeSpecB p t) :=
  TurVerif.Like.likeImpl_eq_specB t p ht

/-- the same counterexample as `likeImpl_percent_counterexample`, against the byte-level
definition: the `%`-free-text hypothesis of `likeImpl_eq_spec_partial` is necessary -/
theorem likeImpl_text_percent_counterexample :
    TurVerif.Like.likeImpl [120, 37, 120, 37] [95, 37] = some false ∧
    TurVerif.Like.likeSpecB [95, 37] [120, 37, 120, 37] = true := by decide

/-- For ASCII strings the byte-level definition on the UTF-8 bytes and the character-level
definition `likeSpec` (the one `eval` uses for `LIKE`) coincide. -/
theorem likeSpecB_eq_likeSpec_ascii (p s : String)
    (hp : ∀ c ∈ p.toList, c.toNat < 128) (hs : ∀ c ∈ s.toList, c.toNat < 128) :
    TurVerif.Like.likeSpecB (TurVerif.Like.bytesOf p) (TurVerif.Like.bytesOf s)
      = likeSpec p.toList s.toList :=
  TurVerif.Like.likeSpecB_bytesOf_ascii p s hp hs

/-- code-point form of the same fact, for all characters (`Char.toNat` is injective) -/
theorem likeSpecB_eq_likeSpec_codepoints (p s : List Char) :
    TurVerif.Like.likeSpecB (p.map Char.toNat) (s.map Char.toNat) = likeSpec p s :=
  TurVerif.Like.likeSpecB_map_toNat p s

/-- Capstone: on ASCII text without `%` and any ASCII pattern, the engine's matcher run on the
UTF-8 bytes returns SQL's LIKE as defined by the reference semantics. -/
theorem likeImpl_eq_likeSpec_ascii_partial (s p : String)
    (hs : ∀ c ∈ s.toList, c.toNat < 128) (hp : ∀ c ∈ p.toList, c.toNat < 128)
    (hpct : '%' ∉ s.toList) :
    TurVerif.Like.likeImpl (TurVerif.Like.bytesOf s) (TurVerif.Like.bytesOf p)
      = some (likeSpec p.toList s.toList) := by
  rw [← likeSpecB_eq_likeSpec_ascii p s hp hs]
  apply likeImpl_eq_spec_partial
  rw [TurVerif.Like.bytesOf_ascii s hs]
  intro b hb
  obtain ⟨c, hc, rfl⟩ := List.mem_map.mp hb
  intro h
  exact hpct ((TurVerif.Like.toNat_eq_37 c).mp h ▸ hc)

/-- non-vacuity / sanity: hypotheses satisfiable, both answers occur, backtracking exercised
('abcabd' LIKE '%ab_d%' needs the second occurrence of 'ab') -/
example :
    TurVerif.Like.likeImpl [97, 98, 99, 97, 98, 100] [37, 97, 98, 95, 100, 37] = some false ∧
    TurVerif.Like.likeImpl [97, 98, 99, 97, 98, 120, 100] [37, 97, 98, 95, 100, 37] = some true ∧
    TurVerif.Like.likeSpecB [37, 97, 98, 95, 100, 37] [97, 98, 99, 97, 98, 120, 100] = true := by
  decide

/-- non-vacuity: a concrete table on which the three TLP filters are all non-empty -/
example :
    filterRows (.bin .eq (.col 0) (.lit (.int 1))) [[.int 1], [.int 2], [.null]] = .ok [[.int 1]] ∧
    filterRows (.not (.bin .eq (.col 0) (.lit (.int 1)))) [[.int 1], [.int 2], [.null]] = .ok [[.int 2]] ∧
    filterRows (.isNull (.bin .eq (.col 0) (.lit (.int 1))) false) [[.int 1], [.int 2], [.null]]
      = .ok [[.null]] := by
  refine ⟨?_, ?_, ?_⟩ <;> rfl

end TurVerif.C14
