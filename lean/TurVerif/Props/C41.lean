import TurVerif.Lemmas.CalArith
import TurVerif.Lemmas.CalInverse
import TurVerif.Lemmas.CalText
/-!
C41  Date and time values convert consistently with the calendar.

Theorems about the model `TurVerif.Cal` (Model/Cal.lean): M-spec = the proleptic Gregorian calendar
defined by counting days (`daysFromCivil`, Rata Die: 0001-01-01 ↦ 1); M-code = transcriptions of
the converters of literal.rs, constraints/mod.rs, predicate.rs, datetime.rs, cli/table.rs.
-/
namespace TurVerif.C41
open TurVerif.Cal

theorem validDate_iff (y m d : Nat) :
    validDate y m d = true ↔ 1 ≤ y ∧ 1 ≤ m ∧ m ≤ 12 ∧ 1 ≤ d ∧ d ≤ monthLen y m := by
  simp [validDate, and_assoc]

theorem monthLen_le (y m : Nat) : monthLen y m ≤ 31 := by
  unfold monthLen; repeat' split
  all_goals omega

theorem daysUpToMonth_mono (y : Nat) {a b : Nat} (h : a ≤ b) : daysUpToMonth y a ≤ daysUpToMonth y b := by
  induction b with
  | zero => have : a = 0 := by omega
            subst this; exact Nat.le_refl _
  | succ k ih =>
    by_cases hk : a ≤ k
    · have := ih hk
      have e : daysUpToMonth y (k + 1) = daysUpToMonth y k + monthLen y (k + 1) := rfl
      omega
    · have : a = k + 1 := by omega
      subst this; exact Nat.le_refl _

theorem daysUpToMonth_succ (y m : Nat) (h : 1 ≤ m) :
    daysUpToMonth y m = daysUpToMonth y (m - 1) + monthLen y m := by
  have : m = (m - 1) + 1 := by omega
  conv => lhs; rw [this]
  rw [daysUpToMonth]
  rw [← this]

/-! ### property theorems -/

/-- the Unix epoch 1970-01-01 has Rata Die 719163 -/
theorem epoch_rd : daysFromCivil 1970 1 1 = 719163 := by
  unfold daysFromCivil
  have : (1970 : Nat) - 1 = 1969 := rfl
  rw [this, daysUpToYear_1969]; rfl

/-- literal.rs `date_to_days_since_epoch` (year loop + month loop) = calendar − 719163, for EVERY
year ≥ 1 and every month/day field (no upper bound on the year). -/
theorem lit_eq_spec (y m d : Nat) (hy : 1 ≤ y) :
    litDateToDays (y : Int) m d = (daysFromCivil y m d : Nat) - 719163 :=
  litDateToDays_nat y m d hy

/-- constraints/mod.rs `days_from_ymd` (also inlined in predicate.rs CAST) = calendar − 719163 -/
theorem default_eq_spec (y m d : Nat) (hy : 1 ≤ y) (hm1 : 1 ≤ m) (hm2 : m ≤ 12) (hd : d ≤ 31) :
    defDaysFromYmd (y : Int) m d = (daysFromCivil y m d : Nat) - 719163 :=
  defDaysFromYmd_nat y m d hy hm1 hm2 (by omega)

/-- datetime.rs `date_to_days` (TO_DAYS) = calendar day number (Rata Die) -/
theorem fn_eq_spec (y m d : Nat) (hy : 1 ≤ y) (hm1 : 1 ≤ m) (hm2 : m ≤ 12) :
    fnDateToDays (y : Int) m d = (daysFromCivil y m d : Nat) :=
  fnDateToDays_nat y m d hy hm1 hm2

/-- all forward converters agree on every calendar date: literal = DEFAULT = CAST day number, and
TO_DAYS differs from them by the constant 719163 (its epoch is 0001-01-01 ↦ 1) -/
theorem converters_agree (y m d : Nat) (hv : validDate y m d = true) :
    litDateToDays (y : Int) m d = defDaysFromYmd (y : Int) m d ∧
    fnDateToDays (y : Int) m d = litDateToDays (y : Int) m d + 719163 := by
  obtain ⟨hy, hm1, hm2, hd1, hd2⟩ := (validDate_iff y m d).1 hv
  have := monthLen_le y m
  rw [lit_eq_spec y m d hy, default_eq_spec y m d hy hm1 hm2 (by omega), fn_eq_spec y m d hy hm1 hm2]
  omega

/-- the range checks of `parse_date` (literal.rs; the same checks are in predicate.rs) accept exactly
the dates of the calendar -/
theorem lit_valid_iff (y m d : Nat) (hy : 1 ≤ y) : litDateOk (y : Int) m d = validDate y m d := by
  unfold litDateOk validDate
  rw [litDaysInMonth_nat]
  simp [hy]

theorem valid_le_yearLen (y m d : Nat) (hv : validDate y m d = true) :
    daysUpToMonth y (m - 1) + d ≤ yearLen y := by
  obtain ⟨hy, hm1, hm2, hd1, hd2⟩ := (validDate_iff y m d).1 hv
  have h1 := daysUpToMonth_succ y m hm1
  have h2 := daysUpToMonth_mono y hm2
  rw [daysUpToMonth_twelve] at h2
  omega

/-- the calendar day number is strictly increasing in the lexicographic order of (year, month, day) -/
theorem spec_strict_mono (y m d y' m' d' : Nat) (hv : validDate y m d = true)
    (hv' : validDate y' m' d' = true)
    (hlt : y < y' ∨ (y = y' ∧ (m < m' ∨ (m = m' ∧ d < d')))) :
    daysFromCivil y m d < daysFromCivil y' m' d' := by
  obtain ⟨hy, hm1, hm2, hd1, hd2⟩ := (validDate_iff y m d).1 hv
  obtain ⟨hy', hm1', hm2', hd1', hd2'⟩ := (validDate_iff y' m' d').1 hv'
  unfold daysFromCivil
  rcases hlt with h | ⟨rfl, h | ⟨rfl, h⟩⟩
  · have h1 := valid_le_yearLen y m d hv
    have h2 : daysUpToYear y = daysUpToYear (y - 1) + yearLen y := by
      have : y = (y - 1) + 1 := by omega
      conv => lhs; rw [this]
      rw [daysUpToYear_step, ← this]
    have h3 := daysUpToYear_mono (show y ≤ y' - 1 by omega)
    omega
  · have h1 := daysUpToMonth_succ y m hm1
    have h2 := daysUpToMonth_mono y (show m ≤ m' - 1 by omega)
    omega
  · omega

/-- hence every converter is strictly monotone / injective on calendar dates -/
theorem lit_strict_mono (y m d y' m' d' : Nat) (hv : validDate y m d = true)
    (hv' : validDate y' m' d' = true)
    (hlt : y < y' ∨ (y = y' ∧ (m < m' ∨ (m = m' ∧ d < d')))) :
    litDateToDays (y : Int) m d < litDateToDays (y' : Int) m' d' := by
  have := spec_strict_mono y m d y' m' d' hv hv' hlt
  rw [lit_eq_spec _ _ _ ((validDate_iff y m d).1 hv).1, lit_eq_spec _ _ _ ((validDate_iff y' m' d').1 hv').1]
  omega

/-- datetime.rs `days_to_date` (FROM_DAYS, DATE_ADD, MAKEDATE) inverts `date_to_days` on every
calendar date of every year ≥ 1 -/
theorem fn_inverse (y m d : Nat) (hv : validDate y m d = true) :
    fnDaysToDate (fnDateToDays (y : Int) m d) = ((y : Int), m, d) := by
  obtain ⟨hy, hm1, hm2, hd1, hd2⟩ := (validDate_iff y m d).1 hv
  have h31 := monthLen_le y m
  unfold fnDaysToDate
  rw [fnDaysToDateRaw_inverse y m d hy hm1 hm2 hd1 hd2]
  dsimp only
  rw [asU32_nat m (by omega), asU32_nat d (by omega)]

/-- cli/table.rs `jdn_to_ymd` (the renderer of DATE and TIMESTAMP values) inverts the JDN formula of
DEFAULT / CAST — and hence, by `converters_agree`, the literal parser — on every calendar date -/
theorem cli_inverse (y m d : Nat) (hv : validDate y m d = true) :
    cliJdnToYmd (2440588 + defDaysFromYmd (y : Int) m d) = ((y : Int), m, d) := by
  obtain ⟨hy, hm1, hm2, hd1, hd2⟩ := (validDate_iff y m d).1 hv
  have h31 := monthLen_le y m
  unfold cliJdnToYmd
  rw [cliJdnToYmdRaw_inverse y m d hy hm1 hm2 hd1 hd2]
  dsimp only
  rw [asU32_nat m (by omega), asU32_nat d (by omega)]

theorem cli_inverse_lit (y m d : Nat) (hv : validDate y m d = true) :
    cliJdnToYmd (2440588 + litDateToDays (y : Int) m d) = ((y : Int), m, d) := by
  rw [(converters_agree y m d hv).1]; exact cli_inverse y m d hv

/-- datetime.rs `day_of_week` (DAYOFWEEK / DAYNAME / WEEKDAY; 0 = Sunday) is the calendar day number
mod 7, although its Zeller sum goes negative from year 2000 on and Rust `%` truncates -/
theorem weekday_eq_spec (y m d : Nat) (hv : validDate y m d = true) :
    fnDayOfWeek (y : Int) m d = weekdaySpec y m d := by
  obtain ⟨hy, hm1, hm2, hd1, hd2⟩ := (validDate_iff y m d).1 hv
  unfold fnDayOfWeek weekdaySpec
  rw [fnDayOfWeekRaw_nat y m d hy hm1 hm2]
  have : ((daysFromCivil y m d : Nat) : Int) % 7 = ((daysFromCivil y m d % 7 : Nat) : Int) := by omega
  rw [this, asU32_nat _ (by omega)]

/-- datetime.rs `day_of_year` = ordinal of the date within its year -/
theorem day_of_year_eq_spec (y m d : Nat) (hv : validDate y m d = true) :
    fnDayOfYear (y : Int) m d = daysUpToMonth y (m - 1) + d := by
  obtain ⟨hy, hm1, hm2, hd1, hd2⟩ := (validDate_iff y m d).1 hv
  have h31 := monthLen_le y m
  have hyl := valid_le_yearLen y m d hv
  have := yearLen_le y
  unfold fnDayOfYear
  rw [fn_eq_spec y m d hy hm1 hm2, fn_eq_spec y 1 1 hy (by omega) (by omega)]
  unfold daysFromCivil
  have h0 : daysUpToMonth y (1 - 1) = 0 := rfl
  rw [h0]
  have : (((daysUpToYear (y - 1) + daysUpToMonth y (m - 1) + d : Nat) : Int)
      - ((daysUpToYear (y - 1) + 0 + 1 : Nat) : Int) + 1) = ((daysUpToMonth y (m - 1) + d : Nat) : Int) := by
    omega
  rw [this, asU32_nat _ (by omega)]

/-! ### text level: parse / render -/

theorem litDateOk_of_valid (y m d : Nat) (hv : validDate y m d = true) : litDateOk (y : Int) m d = true := by
  rw [lit_valid_iff y m d ((validDate_iff y m d).1 hv).1]; exact hv

/-- literal.rs `parse_date` on the canonical text `YYYY-MM-DD` of a calendar date of years 1..9999
yields the day number the calendar defines (Unix epoch) -/
theorem lit_parse_canonical (y m d : Nat) (hy : y ≤ 9999) (hv : validDate y m d = true) :
    litParseDate (fmtYmd (y : Int) m d) = some (((daysFromCivil y m d : Nat) : Int) - 719163) := by
  obtain ⟨hy1, hm1, hm2, hd1, hd2⟩ := (validDate_iff y m d).1 hv
  have := monthLen_le y m
  rw [litParseDate_fmt y m d (by omega) (by omega) (by omega), litDateOk_of_valid y m d hv,
    lit_eq_spec y m d hy1]
  rfl

/-- … and rejects every `YYYY-MM-DD` text (two-digit month and day fields, year 1..9999) that is not a
calendar date: Feb 29 of a non-leap year, Feb 30, month 0 or 13, day 0 or 32, … -/
theorem lit_rejects_invalid (y m d : Nat) (hy1 : 1 ≤ y) (hy : y ≤ 9999) (hm : m < 100) (hd : d < 100)
    (hv : validDate y m d = false) : litParseDate (fmtYmd (y : Int) m d) = none := by
  rw [litParseDate_fmt y m d (by omega) hm hd, lit_valid_iff y m d hy1, hv]
  rfl

/-- the same two statements for CAST(text AS DATE) (predicate.rs) -/
theorem cast_parse_canonical (y m d : Nat) (hy : y ≤ 9999) (hv : validDate y m d = true) :
    castParseDate (fmtYmd (y : Int) m d) = some (((daysFromCivil y m d : Nat) : Int) - 719163) := by
  obtain ⟨hy1, hm1, hm2, hd1, hd2⟩ := (validDate_iff y m d).1 hv
  have := monthLen_le y m
  rw [castParseDate_fmt y m d (by omega) (by omega) (by omega), litDateOk_of_valid y m d hv,
    default_eq_spec y m d hy1 hm1 hm2 (by omega)]
  rfl

theorem cast_rejects_invalid (y m d : Nat) (hy1 : 1 ≤ y) (hy : y ≤ 9999) (hm : m < 100) (hd : d < 100)
    (hv : validDate y m d = false) : castParseDate (fmtYmd (y : Int) m d) = none := by
  rw [castParseDate_fmt y m d (by omega) hm hd, lit_valid_iff y m d hy1, hv]
  rfl

/-- render (parse s) = s for every canonical DATE text of years 1..9999 (parser of literal.rs, renderer
of cli/table.rs) -/
theorem date_render_parse (y m d : Nat) (hy : y ≤ 9999) (hv : validDate y m d = true) :
    (litParseDate (fmtYmd (y : Int) m d)).map cliFormatDate = some (fmtYmd (y : Int) m d) := by
  obtain ⟨hy1, hm1, hm2, hd1, hd2⟩ := (validDate_iff y m d).1 hv
  have := monthLen_le y m
  rw [litParseDate_fmt y m d (by omega) (by omega) (by omega), litDateOk_of_valid y m d hv]
  simp only [if_true, Option.map_some]
  unfold cliFormatDate
  rw [cli_inverse_lit y m d hv]

/-- DEFAULT parsing (constraints/mod.rs `parse_date_default`) gives the calendar's day number on valid
canonical text … -/
theorem default_parse_canonical (y m d : Nat) (hy : y ≤ 9999) (hv : validDate y m d = true) :
    defParseDate (fmtYmd (y : Int) m d) = some (((daysFromCivil y m d : Nat) : Int) - 719163) := by
  obtain ⟨hy1, hm1, hm2, hd1, hd2⟩ := (validDate_iff y m d).1 hv
  have := monthLen_le y m
  rw [defParseDate_fmt y m d (by omega) (by omega) (by omega), default_eq_spec y m d hy1 hm1 hm2 (by omega)]

/-- … `default_rejects_invalid` (the DEFAULT parser returns NULL on every non-date, the analogue of
`lit_rejects_invalid`) is FALSE of the code: it performs no range check at all, -/
theorem default_accepts_all_fields (y m d : Nat) (hy : y ≤ 9999) (hm : m < 100) (hd : d < 100) :
    defParseDate (fmtYmd (y : Int) m d) = some (defDaysFromYmd (y : Int) m d) :=
  defParseDate_fmt y m d (by omega) hm hd

/-- … witness: DEFAULT '2023-02-30' is accepted and denotes the same day as 2023-03-02 -/
theorem default_rejects_invalid_counterexample :
    validDate 2023 2 30 = false ∧
    defParseDate [50, 48, 50, 51, 45, 48, 50, 45, 51, 48] = some 19418 ∧
    defParseDate [50, 48, 50, 51, 45, 48, 51, 45, 48, 50] = some 19418 ∧
    litParseDate [50, 48, 50, 51, 45, 48, 50, 45, 51, 48] = none := by
  decide

/-- TIME: `parse_time` on canonical `HH:MM:SS` gives the micro-second count, and `format_time` renders it
back -/
theorem time_parse_canonical (h m s : Nat) (hh : h < 24) (hm : m < 60) (hs : s < 60) :
    litParseTime (fmtHms (h : Int) (m : Int) (s : Int))
      = some (((h : Int) * 3600 + (m : Int) * 60 + (s : Int)) * 1000000) ∧
    cliFormatTime (((h : Int) * 3600 + (m : Int) * 60 + (s : Int)) * 1000000)
      = fmtHms (h : Int) (m : Int) (s : Int) := by
  constructor
  · rw [litParseTime_fmt h m s (by omega) (by omega) (by omega), if_neg (by omega), if_neg (by omega),
      if_neg (by omega)]
  · exact cliFormatTime_hms h m s hm hs

/-- 24:00:00, 23:60:00, 23:59:60 … are rejected -/
theorem time_rejects_invalid (h m s : Nat) (hh : h < 100) (hm : m < 100) (hs : s < 100)
    (hbad : 24 ≤ h ∨ 60 ≤ m ∨ 60 ≤ s) : litParseTime (fmtHms (h : Int) (m : Int) (s : Int)) = none := by
  rw [litParseTime_fmt h m s hh hm hs]
  repeat' split
  all_goals first | rfl | omega

/-- DEFAULT time parsing does not range-check either (witness) -/
theorem default_time_rejects_invalid_counterexample :
    defParseTime [50, 52, 58, 48, 48, 58, 48, 48] = some 86400000000 ∧
    litParseTime [50, 52, 58, 48, 48, 58, 48, 48] = none := by
  decide

/-- TIMESTAMP literal = days · 86 400 · 10^6 + time of day -/
theorem timestamp_value (y mo d h mi s : Nat) (hy : y ≤ 9999) (hv : validDate y mo d = true)
    (hh : h < 24) (hmi : mi < 60) (hs : s < 60) :
    litParseTimestamp (fmtYmd (y : Int) mo d ++ [32] ++ fmtHms (h : Int) (mi : Int) (s : Int)) =
      some ((((daysFromCivil y mo d : Nat) : Int) - 719163) * (86400 * 1000000)
        + ((h : Int) * 3600 + (mi : Int) * 60 + (s : Int)) * 1000000) := by
  obtain ⟨hy1, hm1, hm2, hd1, hd2⟩ := (validDate_iff y mo d).1 hv
  have := monthLen_le y mo
  rw [litParseTimestamp_fmt y mo d h mi s (by omega) (by omega) (by omega) (by omega) (by omega) (by omega),
    lit_parse_canonical y mo d hy hv, (time_parse_canonical h mi s hh hmi hs).1]
  rfl

/-- render (parse s) = s for canonical TIMESTAMP text — PARTIAL: only from 1970-01-01 on.
Full statement (false of the code, see the counterexample): the same for every year 1..9999. -/
theorem timestamp_render_parse_partial (y mo d h mi s : Nat) (hy0 : 1970 ≤ y) (hy : y ≤ 9999)
    (hv : validDate y mo d = true) (hh : h < 24) (hmi : mi < 60) (hs : s < 60) :
    (litParseTimestamp (fmtYmd (y : Int) mo d ++ [32] ++ fmtHms (h : Int) (mi : Int) (s : Int))).map
      cliFormatTimestamp
      = some (fmtYmd (y : Int) mo d ++ [32] ++ fmtHms (h : Int) (mi : Int) (s : Int)) := by
  obtain ⟨hy1, hm1, hm2, hd1, hd2⟩ := (validDate_iff y mo d).1 hv
  rw [timestamp_value y mo d h mi s hy hv hh hmi hs]
  simp only [Option.map_some]
  have hge : 719163 ≤ daysFromCivil y mo d := by
    unfold daysFromCivil
    have := daysUpToYear_mono (show 1969 ≤ y - 1 by omega)
    rw [daysUpToYear_1969] at this
    omega
  have hm := cliFormatTimestamp_hms (((daysFromCivil y mo d : Nat) : Int) - 719163) h mi s (by omega) hh hmi hs
  unfold microsPerDay at hm
  rw [hm]
  dsimp only
  have e : (2440588 : Int) + (((daysFromCivil y mo d : Nat) : Int) - 719163)
      = 2440588 + litDateToDays (y : Int) mo d := by
    rw [lit_eq_spec y mo d hy1]
  rw [e, cli_inverse_lit y mo d hv]

/-- witness that the full statement fails: the literal '1969-12-31 23:59:59' parses to -1 000 000 µs
(correct) and is rendered as '1970-01-01 00:00:01' -/
theorem timestamp_render_parse_counterexample :
    litParseTimestamp [49, 57, 54, 57, 45, 49, 50, 45, 51, 49, 32, 50, 51, 58, 53, 57, 58, 53, 57] = some (-1000000) ∧
    cliFormatTimestamp (-1000000) = [49, 57, 55, 48, 45, 48, 49, 45, 48, 49, 32, 48, 48, 58, 48, 48, 58, 48, 49] := by
  decide

/-- datetime.rs `format_unix_timestamp` (NOW(), CURRENT_DATE) is NOT a calendar inverse: on 2024-02-29
(day 19782) its `u32` subtraction underflows (panic in the dev profile), and 2000-02-29 (day 11016) is
rendered as March 1, whereas `days_to_date` and `jdn_to_ymd` are correct there -/
theorem unix_timestamp_civil_counterexample :
    fnCivilFromUnixDays 19782 = none ∧
    fnCivilFromUnixDays 11016 = some (2000, 3, 1) ∧
    cliJdnToYmd (2440588 + 19782) = (2024, 2, 29) ∧
    cliJdnToYmd (2440588 + 11016) = (2000, 2, 29) ∧
    fnDaysToDate (19782 + 719163) = (2024, 2, 29) := by
  decide

/-- `format_unix_timestamp`'s date part inverts the calendar — PARTIAL: on every calendar date of every year
≥ 1 EXCEPT February 29.  Full statement (false of the code, see `unix_timestamp_civil_counterexample`):
the same without the `¬ (m = 2 ∧ d = 29)` hypothesis. -/
theorem unix_timestamp_civil_partial (y m d : Nat) (hv : validDate y m d = true)
    (hnot : ¬ (m = 2 ∧ d = 29)) :
    fnCivilFromUnixDays (((daysFromCivil y m d : Nat) : Int) - 719163) = some ((y : Int), m, d) := by
  obtain ⟨hy, hm1, hm2, hd1, hd2⟩ := (validDate_iff y m d).1 hv
  exact fnCivil_inverse_partial y m d hy hm1 hm2 hd1 hd2 hnot

/-- non-vacuity: the hypotheses are satisfiable (a leap day) -/
example : validDate 2024 2 29 = true := by decide
example : validDate 2023 2 29 = false := by decide
example : litDateToDays 2024 2 29 = 19782 := by decide

end TurVerif.C41
