import TurVerif.Model.Sql
import TurVerif.Model.SqlCmp
import TurVerif.Lemmas.SqlOrder
/-!
C15  ORDER BY / LIMIT / OFFSET / DISTINCT are exact.

Theorems about the reference semantics `TurVerif.Sql` (M-spec: `orderBy`, `keysLe`, `limitOffset`,
`distinct` *are* the definition the property statement refers to) and about the M-code models of
the engine's three sort comparators (`TurVerif.SqlCmp`).  The executor itself is not modelled; it is
tied to this semantics by the differential engine `sql_order` (see props/C15.json).
-/
namespace TurVerif.C15
open TurVerif.Sql

/-! ### helper lemmas about `attachKeys` -/
theorem attachKeys_cons_ok (ks : List OrderKey) (r : Row) (rs : List Row) (kr)
    (h : attachKeys ks (r :: rs) = .ok kr) :
    ∃ k out, evalKeys ks r = .ok k ∧ attachKeys ks rs = .ok out ∧ kr = (k, r) :: out := by
  simp only [attachKeys] at h
  cases hk : evalKeys ks r with
  | error e => simp [hk] at h
  | ok k =>
    cases ho : attachKeys ks rs with
    | error e => simp [hk, ho] at h
    | ok out => simp [hk, ho] at h; exact ⟨k, out, rfl, rfl, h.symm⟩

theorem attachKeys_map_snd (ks : List OrderKey) :
    ∀ (rows : List Row) (kr : List (List (Val × Bool) × Row)),
      attachKeys ks rows = .ok kr → kr.map (·.2) = rows := by
  intro rows
  induction rows with
  | nil => intro kr h; simp [attachKeys] at h; subst h; rfl
  | cons r rs ih =>
    intro kr h
    obtain ⟨k, out, _, hout, rfl⟩ := attachKeys_cons_ok ks r rs kr h
    simp [ih out hout]

theorem attachKeys_keys (ks : List OrderKey) :
    ∀ (rows : List Row) (kr : List (List (Val × Bool) × Row)),
      attachKeys ks rows = .ok kr → ∀ p ∈ kr, evalKeys ks p.2 = .ok p.1 := by
  intro rows
  induction rows with
  | nil => intro kr h; simp [attachKeys] at h; subst h; simp
  | cons r rs ih =>
    intro kr h
    obtain ⟨k, out, hk, hout, rfl⟩ := attachKeys_cons_ok ks r rs kr h
    intro p hp
    rcases List.mem_cons.mp hp with rfl | hp
    · exact hk
    · exact ih out hout p hp

theorem attachKeys_of_keys (ks : List OrderKey) :
    ∀ (l : List (List (Val × Bool) × Row)), (∀ p ∈ l, evalKeys ks p.2 = .ok p.1) →
      attachKeys ks (l.map (·.2)) = .ok l := by
  intro l
  induction l with
  | nil => intro _; rfl
  | cons p ps ih =>
    intro h
    have h1 := h p (by simp)
    have h2 := ih (fun q hq => h q (by simp [hq]))
    simp [attachKeys, h1, h2]

theorem evalKeys_shape : ∀ (ks : List OrderKey) (r : Row) (k : List (Val × Bool)),
    evalKeys ks r = .ok k → keyShape k = ks.map (·.desc) := by
  intro ks
  induction ks with
  | nil => intro r k h; simp [evalKeys] at h; subst h; rfl
  | cons x xs ih =>
    intro r k h
    simp only [evalKeys] at h
    split at h <;> simp_all
    rename_i v vs hv hvs
    subst h
    simp [keyShape]
    exact ih r vs hvs

/-! ### property theorems: ORDER BY -/

/-- ORDER BY returns a permutation of its input: no row lost, duplicated or invented -/
theorem orderBy_perm (ks : List OrderKey) (rows out : List Row)
    (h : orderBy ks rows = .ok out) : out.Perm rows := by
  simp only [orderBy] at h
  split at h <;> simp_all
  rename_i kr hkr
  subst h
  have := attachKeys_map_snd ks rows kr hkr
  rw [← this]
  exact (List.mergeSort_perm kr _).map _

/-- the keyed rows of one ORDER BY all have the shape of the key list, so `keysLe` is a total
preorder on them -/
theorem keys_same_shape (ks : List OrderKey) (rows : List Row)
    (kr : List (List (Val × Bool) × Row)) (h : attachKeys ks rows = .ok kr) :
    ∀ p ∈ kr, keyShape p.1 = ks.map (·.desc) :=
  fun p hp => evalKeys_shape ks p.2 p.1 (attachKeys_keys ks rows kr h p hp)

/-- the output of ORDER BY is sorted: re-evaluating the keys on the output gives a sequence in
which every earlier key tuple is `keysLe` every later one (for every key list, every direction
combination, NULLs and mixed INT/DOUBLE included) -/
theorem orderBy_sorted (ks : List OrderKey) (rows out : List Row)
    (h : orderBy ks rows = .ok out) :
    ∃ kr, attachKeys ks out = .ok kr ∧ kr.Pairwise (fun a b => keysLe a.1 b.1 = true) := by
  simp only [orderBy] at h
  split at h <;> simp_all
  rename_i kr hkr
  subst h
  let s := ks.map (·.desc)
  let P : (List (Val × Bool) × Row) → Prop := fun p => keyShape p.1 = s
  have hP : ∀ p ∈ kr, P p := keys_same_shape ks rows kr hkr
  refine ⟨kr.mergeSort (fun a b => keysLe a.1 b.1), ?_, ?_⟩
  · apply attachKeys_of_keys
    intro p hp
    exact attachKeys_keys ks rows kr hkr p ((List.mergeSort_perm kr _).mem_iff.mp hp)
  · exact pairwise_mergeSort_of_mem (fun a b => keysLe a.1 b.1) P
      (fun a b c ha hb hc => keysLe_trans_of_shape s a.1 b.1 c.1 ha hb hc)
      (fun a b ha hb => keysLe_total_of_shape s a.1 b.1 ha hb) kr hP

/-- ORDER BY is stable: any sub-sequence of the input whose keys are already in order keeps its
relative order in the output (in particular two rows with equal keys) -/
theorem orderBy_stable (ks : List OrderKey) (rows out : List Row)
    (kr c : List (List (Val × Bool) × Row))
    (h : orderBy ks rows = .ok out) (hkr : attachKeys ks rows = .ok kr)
    (hc : c.Sublist kr) (hs : c.Pairwise (fun a b => keysLe a.1 b.1 = true)) :
    (c.map (·.2)).Sublist out := by
  simp only [orderBy, hkr] at h
  simp at h
  subst h
  let s := ks.map (·.desc)
  let P : (List (Val × Bool) × Row) → Prop := fun p => keyShape p.1 = s
  have hP : ∀ p ∈ kr, P p := keys_same_shape ks rows kr hkr
  exact (sublist_mergeSort_of_mem (fun a b => keysLe a.1 b.1) P
      (fun a b c ha hb hc => keysLe_trans_of_shape s a.1 b.1 c.1 ha hb hc)
      (fun a b ha hb => keysLe_total_of_shape s a.1 b.1 ha hb) kr hP c hs hc).map _

/-! ### NULL placement -/
theorem null_first_asc (v : Val) : keysLe [(.null, false)] [(v, false)] = true := by
  cases v <;> simp [keysLe, Val.equiv, Val.le]

theorem nonnull_after_null_asc (v : Val) (hv : v ≠ .null) :
    keysLe [(v, false)] [(.null, false)] = false := by
  cases v <;> simp_all [keysLe, Val.equiv, Val.le]

theorem null_last_desc (v : Val) : keysLe [(v, true)] [(.null, true)] = true := by
  cases v <;> simp [keysLe, Val.equiv, Val.le]

theorem null_not_before_nonnull_desc (v : Val) (hv : v ≠ .null) :
    keysLe [(.null, true)] [(v, true)] = false := by
  cases v <;> simp_all [keysLe, Val.equiv, Val.le]


/-- single ascending key: in the output no row with a non-NULL key precedes a row with a NULL key -/
theorem orderBy_nulls_first_asc (e : Expr) (rows out : List Row)
    (h : orderBy [⟨e, false⟩] rows = .ok out) :
    out.Pairwise (fun a b => eval b e = .ok .null → eval a e = .ok .null) := by
  obtain ⟨kr, hkr, hs⟩ := orderBy_sorted _ rows out h
  have hm := attachKeys_map_snd _ out kr hkr
  have hk := attachKeys_keys _ out kr hkr
  rw [← hm, List.pairwise_map]
  refine List.Pairwise.imp_of_mem ?_ hs
  intro a b ha hb hab hbn
  have ka := hk a ha
  have kb := hk b hb
  simp only [evalKeys] at ka kb
  rw [hbn] at kb
  cases hva : eval a.2 e with
  | error x => simp [hva] at ka
  | ok va =>
    simp [hva] at ka
    simp at kb
    rw [← ka, ← kb] at hab
    by_cases hn : va = .null
    · rw [hn]
    · rw [nonnull_after_null_asc va hn] at hab; exact absurd hab (by simp)

/-- single descending key: in the output no row with a NULL key precedes a row with a non-NULL key -/
theorem orderBy_nulls_last_desc (e : Expr) (rows out : List Row)
    (h : orderBy [⟨e, true⟩] rows = .ok out) :
    out.Pairwise (fun a b => eval a e = .ok .null → eval b e = .ok .null) := by
  obtain ⟨kr, hkr, hs⟩ := orderBy_sorted _ rows out h
  have hm := attachKeys_map_snd _ out kr hkr
  have hk := attachKeys_keys _ out kr hkr
  rw [← hm, List.pairwise_map]
  refine List.Pairwise.imp_of_mem ?_ hs
  intro a b ha hb hab han
  have ka := hk a ha
  have kb := hk b hb
  simp only [evalKeys] at ka kb
  rw [han] at ka
  cases hvb : eval b.2 e with
  | error x => simp [hvb] at kb
  | ok vb =>
    simp [hvb] at kb
    simp at ka
    rw [← ka, ← kb] at hab
    by_cases hn : vb = .null
    · rw [hn]
    · rw [null_not_before_nonnull_desc vb hn] at hab; exact absurd hab (by simp)

/-! ### LIMIT / OFFSET -/
theorem limit_window (l o : Nat) (rows : List Row) :
    limitOffset (some l) o rows = (rows.drop o).take l := rfl

theorem offset_window (o : Nat) (rows : List Row) : limitOffset none o rows = rows.drop o := rfl

theorem limit_length (l o : Nat) (rows : List Row) :
    (limitOffset (some l) o rows).length = min l (rows.length - o) := by
  simp [limitOffset]

theorem offset_length (o : Nat) (rows : List Row) :
    (limitOffset none o rows).length = rows.length - o := by
  simp [limitOffset]

/-- the window is a contiguous part of the input: row `i` of the result is row `o + i` of the input -/
theorem limit_getElem (l o i : Nat) (rows : List Row) :
    (limitOffset (some l) o rows)[i]? = if i < l then rows[o + i]? else none := by
  simp [limitOffset, List.getElem?_take, List.getElem?_drop]

theorem limit_sublist (lim : Option Nat) (o : Nat) (rows : List Row) :
    (limitOffset lim o rows).Sublist rows := by
  cases lim with
  | none => exact List.drop_sublist _ _
  | some l => exact (List.take_sublist _ _).trans (List.drop_sublist _ _)

theorem limit_zero (o : Nat) (rows : List Row) : limitOffset (some 0) o rows = [] := by
  simp [limitOffset]

theorem offset_beyond (lim : Option Nat) (o : Nat) (rows : List Row) (h : rows.length ≤ o) :
    limitOffset lim o rows = [] := by
  cases lim <;> simp [limitOffset, List.drop_eq_nil_of_le h]

theorem limit_all (l : Nat) (rows : List Row) (h : rows.length ≤ l) :
    limitOffset (some l) 0 rows = rows := by
  simp [limitOffset, List.take_of_length_le h]

/-! ### DISTINCT -/
theorem Val.same_refl (a : Val) : Val.same a a = true := by
  cases a <;> simp [Val.same]

theorem Val.same_symm (a b : Val) (h : Val.same a b = true) : Val.same b a = true := by
  cases a <;> cases b <;> simp_all [Val.same] <;> exact h.symm

theorem Val.same_trans (a b c : Val) (h1 : Val.same a b = true) (h2 : Val.same b c = true) :
    Val.same a c = true := by
  cases a <;> cases b <;> cases c <;> simp_all [Val.same]

theorem rowSame_refl : ∀ r : Row, rowSame r r = true
  | [] => rfl
  | a :: as => by simp [rowSame, Val.same_refl, rowSame_refl as]

theorem rowSame_symm : ∀ a b : Row, rowSame a b = true → rowSame b a = true
  | [], [], _ => rfl
  | [], _ :: _, h => by simp [rowSame] at h
  | _ :: _, [], h => by simp [rowSame] at h
  | x :: xs, y :: ys, h => by
    simp [rowSame] at h ⊢
    exact ⟨Val.same_symm x y h.1, rowSame_symm xs ys h.2⟩

theorem rowSame_trans : ∀ a b c : Row, rowSame a b = true → rowSame b c = true → rowSame a c = true
  | [], [], [], _, _ => rfl
  | [], [], _ :: _, _, h => by simp [rowSame] at h
  | [], _ :: _, _, h, _ => by simp [rowSame] at h
  | _ :: _, [], _, h, _ => by simp [rowSame] at h
  | _ :: _, _ :: _, [], _, h => by simp [rowSame] at h
  | x :: xs, y :: ys, z :: zs, h1, h2 => by
    simp [rowSame] at h1 h2 ⊢
    exact ⟨Val.same_trans x y z h1.1 h2.1, rowSame_trans xs ys zs h1.2 h2.2⟩

/-- the result of DISTINCT is a sub-sequence of the input (first occurrences, in input order) -/
theorem distinct_sublist : ∀ rows : List Row, (distinct rows).Sublist rows
  | [] => List.Sublist.slnil
  | r :: rs => by
    simp only [distinct]
    exact ((List.filter_sublist).trans (distinct_sublist rs)).cons_cons r

/-- DISTINCT returns no two rows that are the same (NULLs are not distinct from each other) -/
theorem distinct_nodup : ∀ rows : List Row,
    (distinct rows).Pairwise (fun a b => rowSame a b = false)
  | [] => List.Pairwise.nil
  | r :: rs => by
    simp only [distinct]
    refine List.Pairwise.cons ?_ ((distinct_nodup rs).sublist List.filter_sublist)
    intro x hx
    simpa using (List.mem_filter.mp hx).2

/-- every input row is represented in the result of DISTINCT -/
theorem distinct_complete : ∀ (rows : List Row) (r : Row), r ∈ rows →
    ∃ r' ∈ distinct rows, rowSame r' r = true
  | [], r, h => by simp at h
  | r0 :: rs, r, h => by
    simp only [distinct]
    rcases List.mem_cons.mp h with rfl | h
    · exact ⟨r, by simp, rowSame_refl r⟩
    · obtain ⟨r', hr', hs⟩ := distinct_complete rs r h
      cases h0 : rowSame r0 r' with
      | true => exact ⟨r0, by simp, rowSame_trans r0 r' r h0 hs⟩
      | false => exact ⟨r', List.mem_cons_of_mem _ (List.mem_filter.mpr ⟨hr', by simp [h0]⟩), hs⟩

/-- exactly once: for every input row there is exactly one result row that is the same -/
theorem distinct_exactly_once (rows : List Row) (r : Row) (h : r ∈ rows) :
    ((distinct rows).filter (fun x => rowSame x r)).length = 1 := by
  obtain ⟨r', hr', hs⟩ := distinct_complete rows r h
  have hnd := distinct_nodup rows
  generalize distinct rows = d at hr' hnd
  induction d with
  | nil => simp at hr'
  | cons x xs ih =>
    rw [List.pairwise_cons] at hnd
    by_cases hx : rowSame x r = true
    · have : xs.filter (fun y => rowSame y r) = [] := by
        rw [List.filter_eq_nil_iff]
        intro y hy hyr
        have := hnd.1 y hy
        have h2 := rowSame_trans x r y hx (rowSame_symm y r hyr)
        simp [h2] at this
      simp [List.filter, hx, this]
    · have hx' : rowSame x r = false := by simpa using hx
      rcases List.mem_cons.mp hr' with rfl | hr'
      · simp [hs] at hx'
      · simp [List.filter, hx']
        exact ih hr' hnd.2

theorem distinct_idem (rows : List Row) : distinct (distinct rows) = distinct rows := by
  have h := distinct_nodup rows
  generalize distinct rows = d at h
  induction d with
  | nil => rfl
  | cons x xs ih =>
    rw [List.pairwise_cons] at h
    simp only [distinct, ih h.2]
    congr 1
    rw [List.filter_eq_self]
    intro y hy
    simp [h.1 y hy]


/-! ### DISTINCT combined with ORDER BY on output columns -/
/-
Full statement (not proved here): for order keys over the output row and rows on which
`rowSame` is equality, `orderBy ks (distinct rows) = distinct (orderBy ks rows)` as *lists*
(needs: a stable sort keeps first occurrences first, so both sides order ties by first occurrence
in `rows`).  Proved instead (`distinct_orderBy_commute_partial`): both orders of the two operations
give a result that is sorted by the keys, free of duplicates, and represents exactly the input rows;
i.e. they agree up to the order of rows with equal keys and the choice of representative.
-/
theorem attachKeys_sublist (ks : List OrderKey) (kr : List (List (Val × Bool) × Row))
    (l : List Row) (out : List Row) (h : attachKeys ks out = .ok kr) (hl : l.Sublist out) :
    ∃ kl, attachKeys ks l = .ok kl ∧ kl.Sublist kr := by
  have hm := attachKeys_map_snd ks out kr h
  rw [← hm] at hl
  obtain ⟨kl, hkl, rfl⟩ := List.sublist_map_iff.mp hl
  exact ⟨kl, attachKeys_of_keys ks kl (fun p hp => attachKeys_keys ks out kr h p (hkl.subset hp)), hkl⟩

theorem distinct_orderBy_commute_partial (ks : List OrderKey) (rows x y : List Row)
    (hx : orderBy ks (distinct rows) = .ok x) (hy : orderBy ks rows = .ok y) :
    -- both are sorted by the keys
    (∃ kx, attachKeys ks x = .ok kx ∧ kx.Pairwise (fun a b => keysLe a.1 b.1 = true)) ∧
    (∃ ky, attachKeys ks (distinct y) = .ok ky ∧ ky.Pairwise (fun a b => keysLe a.1 b.1 = true)) ∧
    -- both are duplicate-free
    x.Pairwise (fun a b => rowSame a b = false) ∧
    (distinct y).Pairwise (fun a b => rowSame a b = false) ∧
    -- both represent every input row, and contain only input rows
    (∀ r ∈ rows, (∃ r' ∈ x, rowSame r' r = true) ∧ (∃ r' ∈ distinct y, rowSame r' r = true)) ∧
    (∀ r ∈ x, r ∈ rows) ∧ (∀ r ∈ distinct y, r ∈ rows) := by
  have px := orderBy_perm ks _ x hx
  have py := orderBy_perm ks _ y hy
  refine ⟨orderBy_sorted ks _ x hx, ?_, ?_, distinct_nodup y, ?_, ?_, ?_⟩
  · obtain ⟨ky, hky, hs⟩ := orderBy_sorted ks rows y hy
    obtain ⟨kl, hkl, hsub⟩ := attachKeys_sublist ks ky (distinct y) y hky (distinct_sublist y)
    exact ⟨kl, hkl, hs.sublist hsub⟩
  · refine (List.Perm.pairwise_iff ?_ px).mpr (distinct_nodup rows)
    intro a b hab
    cases h : rowSame b a with
    | false => rfl
    | true => rw [rowSame_symm b a h] at hab; exact absurd hab (by simp)
  · intro r hr
    constructor
    · obtain ⟨r', hr', hs⟩ := distinct_complete rows r hr
      exact ⟨r', px.mem_iff.mpr hr', hs⟩
    · exact distinct_complete y r (py.mem_iff.mpr hr)
  · intro r hr
    exact (distinct_sublist rows).subset (px.mem_iff.mp hr)
  · intro r hr
    exact py.mem_iff.mp ((distinct_sublist y).subset hr)

/-! ### the engine's sort comparators (M-code models `TurVerif.SqlCmp`) -/
open TurVerif.SqlCmp in
/-- `Value::compare_for_sort`: NULL compares Equal to every value -/
theorem cmpForSort_null_equal (v : EV) : cmpForSort .null v = .eq ∧ cmpForSort v .null = .eq := by
  cases v <;> simp [cmpForSort, compare?]

open TurVerif.SqlCmp in
/-- hence `<=` of the comparator the live sort paths use is not transitive (2 <= NULL <= 1 but not
2 <= 1): it is not a total preorder, `sort_by` may return any order and NULLs stay where they are -/
theorem impl_comparator_not_transitive_counterexample :
    ¬ (∀ a b c : EV, cmpForSort a b ≠ .gt → cmpForSort b c ≠ .gt → cmpForSort a c ≠ .gt) := by
  intro h
  exact h (.int 2) .null (.int 1) (by decide) (by decide) (by decide)

open TurVerif.SqlCmp in
/-- `SortExecutor::compare_values`: mixed INT/DOUBLE pairs compare Equal, so it is not transitive
either (2 <= 1.5 <= 1 but not 2 <= 1) -/
theorem sortExec_comparator_not_transitive_counterexample :
    ¬ (∀ a b c : EV, cmpSortExec a b ≠ .gt → cmpSortExec b c ≠ .gt → cmpSortExec a c ≠ .gt) := by
  intro h
  exact h (.int 2) (.flt (3 / 2)) (.int 1) (by decide) (by decide) (by decide)


theorem ord_ne_gt {α : Type} [Ord α] [LE α] [Std.LawfulOrderOrd α] (a b : α) :
    compare a b ≠ .gt ↔ a ≤ b := by
  rw [← Std.isLE_compare]; cases compare a b <;> simp [Ordering.isLE]

theorem ratCmp_ne_gt (a b : Rat) : SqlCmp.ratCmp a b ≠ .gt ↔ a ≤ b := by
  simp only [SqlCmp.ratCmp]
  by_cases h1 : a < b
  · simp [h1, Rat.le_iff_lt_or_eq]
  · by_cases h2 : a = b
    · simp [h2]
    · simp [h1, h2, Rat.le_iff_lt_or_eq]

theorem string_cmp_ne_gt (a b : String) : compare a b ≠ .gt ↔ a ≤ b := by
  show String.compare a b ≠ .gt ↔ a ≤ b
  unfold String.compare compareOfLessAndEq
  by_cases h1 : a < b
  · simp only [h1, if_true]
    exact ⟨fun _ => String.not_lt.mp (String.lt_asymm h1), fun _ => by simp⟩
  · by_cases h2 : a = b
    · subst h2; simp
    · simp only [h1, h2, if_false]
      refine ⟨fun h => absurd rfl h, fun h => ?_⟩
      exact absurd (String.le_antisymm h (String.not_lt.mp h1)) h2

theorem bool_cmp_ne_gt (a b : Bool) : compare a b ≠ .gt ↔ a ≤ b := by
  cases a <;> cases b <;> decide

/-- the values of the comparator models as values of the reference semantics (BLOB is outside it) -/
def toVal : SqlCmp.EV → Option Val
  | .null => some .null
  | .bool b => some (.bool b)
  | .int i => some (.int i)
  | .flt q => some (.flt q)
  | .text s => some (.text s)
  | .blob _ => none

/-- `compare_owned_values` (the comparator of the join/subquery result path) refines the
specification order `Val.le` on every pair a typed column can hold: NULLs and values of one type
family (INT and DOUBLE together) -/
theorem cmpOwned_refines_spec (a b : SqlCmp.EV) (va vb : Val)
    (ha : toVal a = some va) (hb : toVal b = some vb)
    (hf : va = .null ∨ vb = .null ∨ va.rank = vb.rank) :
    SqlCmp.cmpOwned a b ≠ .gt ↔ Val.le va vb = true := by
  cases a <;> cases b <;> simp [toVal] at ha hb <;> subst ha <;> subst hb <;>
    simp [Val.rank] at hf <;>
    simp [SqlCmp.cmpOwned, Val.le, ratCmp_ne_gt, ord_ne_gt, string_cmp_ne_gt, bool_cmp_ne_gt]

/-- `Value::compare_for_sort` agrees with the specification order on non-NULL values of one type
family; on NULL it does not (`cmpForSort_null_equal`) -/
theorem cmpForSort_refines_spec_partial (a b : SqlCmp.EV) (va vb : Val)
    (ha : toVal a = some va) (hb : toVal b = some vb)
    (hna : va ≠ .null) (hnb : vb ≠ .null) (hbool : va.rank ≠ 1) (hf : va.rank = vb.rank) :
    SqlCmp.cmpForSort a b ≠ .gt ↔ Val.le va vb = true := by
  cases a <;> cases b <;> simp [toVal] at ha hb <;> subst ha <;> subst hb <;>
    simp [Val.rank] at hf hna hnb hbool <;>
    simp [SqlCmp.cmpForSort, SqlCmp.compare?, Val.le, ratCmp_ne_gt, ord_ne_gt, string_cmp_ne_gt]


/-! ### non-vacuity: the hypotheses are satisfiable, the definitions compute -/
example : ∃ out, orderBy [⟨.col 0, false⟩, ⟨.col 1, true⟩] [[.int 2, .null], [.null, .text "a"]] = .ok out :=
  ⟨_, by simp only [orderBy, attachKeys, evalKeys, eval]; rfl⟩
example : distinct [[.int 2], [.null], [.flt 2], [.null]] = [[.int 2], [.null]] := by decide
example : limitOffset (some 2) 1 [[.int 1], [.int 2], [.int 3], [.int 4]] = [[.int 2], [.int 3]] := by decide
example : keysLe [(.int 1, false), (.null, true)] [(.flt 1, false), (.int 0, true)] = false := by decide

end TurVerif.C15
