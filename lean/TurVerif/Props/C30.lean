import TurVerif.Lemmas.Simd
/-!
C30  Vectorized leaf search equals binary search.

Theorems about the M-code model `TurVerif.Simd` (transcribed from src/btree/simd_scan.rs and
`extract_prefix` of src/btree/leaf.rs). Helper lemmas live in `TurVerif/Lemmas/Simd.lean`.

  * scalar dispatch path (`findScalar`): correct on every well-formed leaf  (`scalar_correct`)
  * AVX2 path after fix_simd.patch (`findAvx2`): correct on every well-formed leaf (`avx2_correct`)
  * AVX2 path of the pinned tree (`findAvx2Old`): correct on the decidable domain
    `hazardOld L (prefixOf k) = 0` (`avx2_correct_partial`), which contains every probe whose
    prefix is not a slot prefix (`avx2_correct_no_ties`); the full statement is false
    (`avx2_counterexample*`).
-/
namespace TurVerif.C30
open TurVerif.Simd

/-! ### helper lemmas -/

theorem avx2Old_no_hazard_of_no_ties {L : Leaf} (t : Nat) (hno : ∀ i, i < L.n → L.pfx i ≠ t) :
    ∀ f l r, avx2OldHazard L t f l r = 0 := by
  intro f
  induction f with
  | zero => intro l r; rfl
  | succ f ih =>
    intro l r
    unfold avx2OldHazard
    split
    · rfl
    · simp only
      split
      · rfl
      · rename_i hbn
        split
        · exact ih _ _
        · split
          · have : L.pfx (batchStart l r) ≠ t := hno _ (by omega)
            simp only [this, if_false]
            exact ih _ _
          · have : L.pfx (batchStart l r + 7) ≠ t := hno _ (by omega)
            simp [this]

theorem specFrom_sound {L : Leaf} (k : List Nat) :
    ∀ f i, f + i = L.n → Below L k i →
      match specFrom L k f i with
      | .found m => m < L.n ∧ L.key m = k
      | .notFound m => m ≤ L.n ∧ Below L k m ∧ (m < L.n → cmpBytes (L.key m) k = .gt) := by
  intro f
  induction f with
  | zero =>
    intro i hi hb
    simp only [specFrom]
    exact ⟨by omega, hb, fun h => by omega⟩
  | succ f ih =>
    intro i hi hb
    unfold specFrom
    cases hc : cmpBytes (L.key i) k with
    | lt =>
      simp only
      apply ih (i + 1) (by omega)
      intro j hj
      by_cases e : j = i
      · subst e; exact hc
      · exact hb j (by omega)
    | eq => simp only; exact ⟨by omega, (cmp_eq_iff _ _).1 hc⟩
    | gt => simp only; exact ⟨by omega, hb, fun _ => hc⟩

/-- concrete leaves used as witnesses -/
def cexLeaf8 : Leaf :=
  { n := 8, pfx := fun _ => 0, off := fun i => 16384 - 6 * (i + 1), key := fun i => [0, 0, 0, 0, i] }

def cexLeaf9 : Leaf :=
  { n := 9
    pfx := fun i => if i = 0 then 268435456 else 2147483648
    off := fun i => 16384 - 6 * (i + 1)
    key := fun i => if i = 0 then [16, 0, 0, 0] else [128, 0, 0, 0, i] }

def cexLeaf121 : Leaf :=
  { n := 121, pfx := fun _ => 0, off := fun i => 16384 - 9 * (i + 1)
    key := fun i => [0, 0, 0, 0, 0, 0, 0, 2 * i] }

def okLeaf16 : Leaf :=
  { n := 16, pfx := fun i => (3 * i + 1) * 16777216, off := fun i => 16384 - 5 * (i + 1)
    key := fun i => [3 * i + 1, 0, 0, 0] }

theorem cexLeaf8_wf : WF cexLeaf8 where
  n_le := by decide
  pfx_eq := by decide
  bytes := by unfold BytesOK; decide
  off_ok := by decide
  sorted := by
    intro i hi
    have h : ∀ i, i < 7 → cmpBytes (cexLeaf8.key i) (cexLeaf8.key (i + 1)) = .lt := by decide
    exact h i (by simp only [cexLeaf8] at hi; omega)

theorem cexLeaf9_wf : WF cexLeaf9 where
  n_le := by decide
  pfx_eq := by decide
  bytes := by unfold BytesOK; decide
  off_ok := by decide
  sorted := by
    intro i hi
    have h : ∀ i, i < 8 → cmpBytes (cexLeaf9.key i) (cexLeaf9.key (i + 1)) = .lt := by decide
    exact h i (by simp only [cexLeaf9] at hi; omega)

theorem cexLeaf121_wf : WF cexLeaf121 where
  n_le := by decide
  pfx_eq := by decide +kernel
  bytes := by unfold BytesOK; decide +kernel
  off_ok := by decide +kernel
  sorted := by
    intro i hi
    have h : ∀ i, i < 120 → cmpBytes (cexLeaf121.key i) (cexLeaf121.key (i + 1)) = .lt := by
      decide +kernel
    exact h i (by simp only [cexLeaf121] at hi; omega)

theorem okLeaf16_wf : WF okLeaf16 where
  n_le := by decide
  pfx_eq := by decide
  bytes := by unfold BytesOK; decide
  off_ok := by decide
  sorted := by
    intro i hi
    have h : ∀ i, i < 15 → cmpBytes (okLeaf16.key i) (okLeaf16.key (i + 1)) = .lt := by decide
    exact h i (by simp only [okLeaf16] at hi; omega)

/-! ### property theorems -/

/-- The M-spec is the binary-search answer: `Found i` exactly at the slot holding the probe,
otherwise `NotFound i` with every key left of `i` smaller and every key from `i` on greater. -/
theorem spec_sound {L : Leaf} (w : WF L) (k : List Nat) :
    match spec L k with
    | .found m => m < L.n ∧ L.key m = k
    | .notFound m => m ≤ L.n ∧ Below L k m ∧ Above L k m := by
  have h := specFrom_sound (L := L) k L.n 0 (by omega) (fun j hj => by omega)
  unfold spec
  cases hs : specFrom L k L.n 0 with
  | found m => rw [hs] at h; exact h
  | notFound m =>
    rw [hs] at h
    simp only at h ⊢
    refine ⟨h.1, h.2.1, ?_⟩
    intro j hj hjn
    exact above_step w (by omega) (h.2.2 (by omega)) j hj hjn

/-- `narrow_sound` (scalar): the range returned by `simd_prefix_search_scalar` brackets the answer:
every key left of it is smaller than the probe, every key right of it is greater. -/
theorem narrow_sound_scalar {L : Leaf} (w : WF L) {k : List Nat} (hk : BytesOK k) :
    let x := narrowScalar L (prefixOf k)
    x.1 ≤ x.2.1 ∧ x.2.1 ≤ L.n ∧ Below L k x.1 ∧ Above L k x.2.1 := by
  simp only [narrowScalar]
  split
  · rename_i h0
    exact ⟨Nat.le_refl _, Nat.zero_le _, fun j hj => by omega, fun j _ hjn => by omega⟩
  · have h := scalar_inv w (prefixOf k) L.n 0 L.n (pinv_init L _)
    exact ⟨h.lr, h.rn, (pinv_keys w hk h).1, (pinv_keys w hk h).2⟩

/-- `narrow_sound` (AVX2 after fix_simd.patch) -/
theorem narrow_sound_avx2 {L : Leaf} (w : WF L) {k : List Nat} (hk : BytesOK k) :
    let x := narrowAvx2 L (prefixOf k)
    x.1 ≤ x.2 ∧ x.2 ≤ L.n ∧ Below L k x.1 ∧ Above L k x.2 := by
  simp only [narrowAvx2]
  split
  · rename_i h0
    exact ⟨Nat.le_refl _, Nat.zero_le _, fun j hj => by omega, fun j _ hjn => by omega⟩
  · have h := avx2_inv w (prefixOf k) L.n 0 L.n (pinv_init L _)
    exact ⟨h.lr, h.rn, (pinv_keys w hk h).1, (pinv_keys w hk h).2⟩

/-- C30, scalar dispatch path, full strength: on every well-formed leaf and every probe the search
returns the binary-search answer. -/
theorem scalar_correct {L : Leaf} (w : WF L) {k : List Nat} (hk : BytesOK k) :
    findScalar L k = spec L k := by
  unfold findScalar
  split
  · rename_i h; exact (spec_empty L k h).symm
  · rename_i h
    simp only [narrowScalar, h, if_false]
    exact finish_correct w hk (scalar_inv w _ _ _ _ (pinv_init L _))

/-- C30, AVX2 dispatch path after fix_simd.patch, full strength. -/
theorem avx2_correct {L : Leaf} (w : WF L) {k : List Nat} (hk : BytesOK k) :
    findAvx2 L k = spec L k := by
  unfold findAvx2
  split
  · rename_i h; exact (spec_empty L k h).symm
  · rename_i h
    simp only [narrowAvx2, h, if_false]
    exact finish_correct w hk (avx2_inv w _ _ _ _ (pinv_init L _))

/- Full statement for the pinned tree, FALSE of the faithful model (see `avx2_counterexample`):
     theorem avx2Old_correct (w : WF L) (hk : BytesOK k) : findAvx2Old L k = spec L k
   What is missing: the `lt_mask == 0` branch sets `right = batch_start` although lane 0 may hold the
   probe's prefix, and the mixed branch sets `right = batch_start + last_eq_idx + 1` although the run
   of equal prefixes may continue after lane 7. `hazardOld` decides whether the loop takes such a step. -/

/-- C30, AVX2 dispatch path of the pinned tree, on the decidable domain "the narrowing loop takes no
hazardous step" (`hazardOld = 0`). -/
theorem avx2_correct_partial {L : Leaf} (w : WF L) {k : List Nat} (hk : BytesOK k)
    (hz : hazardOld L (prefixOf k) = 0) : findAvx2Old L k = spec L k := by
  unfold findAvx2Old
  split
  · rename_i h; exact (spec_empty L k h).symm
  · rename_i h
    simp only [hazardOld, h, if_false] at hz
    simp only [narrowAvx2Old, h, if_false]
    exact finish_correct w hk (avx2Old_inv w _ _ _ _ (pinv_init L _) hz)

/-- ... in particular whenever no slot carries the probe's 4-byte prefix (no prefix ties). -/
theorem avx2_correct_no_ties {L : Leaf} (w : WF L) {k : List Nat} (hk : BytesOK k)
    (hno : ∀ i, i < L.n → L.pfx i ≠ prefixOf k) : findAvx2Old L k = spec L k := by
  apply avx2_correct_partial w hk
  unfold hazardOld
  split
  · rfl
  · exact avx2Old_no_hazard_of_no_ties _ hno _ _ _

/-- The full statement is false for the pinned AVX2 code: eight keys sharing one 4-byte prefix, probe =
the last key. `lt_mask == 0` ⇒ `right = 0` ⇒ `NotFound(0)`, binary search says `Found(7)`. -/
theorem avx2_counterexample :
    WF cexLeaf8 ∧ BytesOK [0, 0, 0, 0, 7] ∧
    findAvx2Old cexLeaf8 [0, 0, 0, 0, 7] = .notFound 0 ∧ spec cexLeaf8 [0, 0, 0, 0, 7] = .found 7 ∧
    hazardOld cexLeaf8 (prefixOf [0, 0, 0, 0, 7]) = 1 :=
  ⟨cexLeaf8_wf, by unfold BytesOK; decide, by decide, by decide, by decide⟩

/-- Second defect: mixed batch whose equal-prefix run reaches lane 7 and continues in the next slot
(slot 8 holds the probe): `NotFound(8)` instead of `Found(8)`. -/
theorem avx2_counterexample_tie_past_batch :
    WF cexLeaf9 ∧ BytesOK [128, 0, 0, 0, 8] ∧
    findAvx2Old cexLeaf9 [128, 0, 0, 0, 8] = .notFound 8 ∧ spec cexLeaf9 [128, 0, 0, 0, 8] = .found 8 ∧
    hazardOld cexLeaf9 (prefixOf [128, 0, 0, 0, 8]) = 2 :=
  ⟨cexLeaf9_wf, by unfold BytesOK; decide, by decide, by decide, by decide⟩

/-- The repository's own failing test `test_simd_bug_repro`: 121 big-endian u64 keys 0,2,…,240 and
probe 242; the pinned AVX2 path answers `NotFound(0)`, binary search `NotFound(121)`. -/
theorem avx2_counterexample_repo_test :
    WF cexLeaf121 ∧ BytesOK [0, 0, 0, 0, 0, 0, 0, 242] ∧
    findAvx2Old cexLeaf121 [0, 0, 0, 0, 0, 0, 0, 242] = .notFound 0 ∧
    spec cexLeaf121 [0, 0, 0, 0, 0, 0, 0, 242] = .notFound 121 :=
  ⟨cexLeaf121_wf, by unfold BytesOK; decide, by decide +kernel, by decide +kernel⟩

/-- "regardless of CPU feature availability", stated outright: on every well-formed leaf and every
probe the AVX2 dispatch path (after fix_simd.patch) and the scalar dispatch path return the SAME
found position / insertion point -/
theorem dispatch_independent {L : Leaf} (w : WF L) {k : List Nat} (hk : BytesOK k) :
    findAvx2 L k = findScalar L k :=
  (avx2_correct w hk).trans (scalar_correct w hk).symm

/-- The fuel bounds in the model entry points never cut a loop short: with any larger fuel the three
narrowing loops and the final search return the same result (so the model loops stop for the same
reason as the `while` loops of the code). -/
theorem fuel_irrelevant (L : Leaf) (k : List Nat) (t f : Nat) (hf : L.n ≤ f) :
    scalarLoop L t f 0 L.n = scalarLoop L t L.n 0 L.n ∧
    avx2Loop L t f 0 L.n = avx2Loop L t L.n 0 L.n ∧
    avx2OldLoop L t f 0 L.n = avx2OldLoop L t L.n 0 L.n ∧
    ∀ l r, finalLoop L k t (f + 1) l (min r L.n) = finalLoop L k t (L.n + 1) l (min r L.n) := by
  refine ⟨scalarLoop_fuel L t _ _ _ _ (by omega) (by omega),
    avx2Loop_fuel L t _ _ _ _ (by omega) (by omega),
    avx2OldLoop_fuel L t _ _ _ _ (by omega) (by omega), ?_⟩
  intro l r
  have : min r L.n ≤ L.n := Nat.min_le_right _ _
  exact finalLoop_fuel L k t _ _ _ _ (by omega) (by omega)

/-- non-vacuity of `avx2_correct_partial`: a 16-slot leaf and a stored probe on which the vectorised
loop runs, takes no hazardous step and finds the key. -/
example : WF okLeaf16 ∧ BytesOK [25, 0, 0, 0] ∧ hazardOld okLeaf16 (prefixOf [25, 0, 0, 0]) = 0 ∧
    findAvx2Old okLeaf16 [25, 0, 0, 0] = .found 8 ∧ narrowAvx2Old okLeaf16 (prefixOf [25, 0, 0, 0]) = (7, 9) :=
  ⟨okLeaf16_wf, by unfold BytesOK; decide, by decide, by decide, by decide⟩

/-- the fixed code on the three witnesses -/
example : findAvx2 cexLeaf8 [0, 0, 0, 0, 7] = .found 7 ∧ findAvx2 cexLeaf9 [128, 0, 0, 0, 8] = .found 8 ∧
    findAvx2 cexLeaf121 [0, 0, 0, 0, 0, 0, 0, 242] = .notFound 121 :=
  ⟨by decide, by decide, by decide +kernel⟩

end TurVerif.C30
