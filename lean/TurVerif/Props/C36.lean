import TurVerif.Model.PageLocks
/-!
C36  Page write locks are mutually exclusive.
M-code LTS model `TurVerif.PageLocks` (pinned code: `fixed = false`; repaired `try_cleanup`:
`fixed = true`).
-/
namespace TurVerif.C36
open TurVerif.PageLocks

def cexProgs : List (List Op) := [[.write 7, .write 7], [.write 7], [.write 7]]

/-- A locks/unlocks page 7 and drops the entry's ref count to 0 (pauses before the map lock);
B re-uses the same entry, locks/unlocks, also drops it to 0 (pauses); A removes the entry and
write-locks the page again through a NEW entry; B's stale cleanup sees its OLD entry at 0 and
removes the page id from the map — i.e. A's live entry; C then creates a third entry and
write-locks the same page while A still holds it. -/
def cexSched : List Nat :=
  [0, 0, 0, 0, 0,  1, 1, 1, 1, 1,  0, 0, 0, 0,  1,  2, 2, 2]

/-- the full statement is FALSE of the pinned code: two simultaneous writers of page 7 -/
theorem stale_cleanup_counterexample :
    let s := run (init false cexProgs) cexSched
    writersOf s 7 = 2 ∧ pageSafe s 7 = false := by decide

/-- the repaired cleanup keeps the page safe on the same schedule (C is blocked) -/
theorem fixed_same_schedule_safe :
    let s := run (init true cexProgs) cexSched
    writersOf s 7 = 1 ∧ pageSafe s 7 = true := by decide

/-- every prefix of the counterexample schedule is safe under the repaired cleanup -/
theorem fixed_all_prefixes_safe :
    (List.range (cexSched.length + 1)).all
      (fun n => pageSafe (run (init true cexProgs) (cexSched.take n)) 7) = true := by decide

end TurVerif.C36
