import TurVerif.Model.PageLocks
import TurVerif.Model.PageLocksFine
import TurVerif.Lemmas.PageLocksLive
/-!
C36  Page write locks are mutually exclusive.
M-code LTS model `TurVerif.PageLocks` (pinned code: `fixed = false`; repaired `try_cleanup`:
`fixed = true`).

* pinned code: `stale_cleanup_counterexample` (the property is false: two writers of one page).
* repaired code, ALL thread counts / programs / schedules: `page_mutex` (headline), `entry_mutex`,
  `refcount_exact`, `lock_state_exact`, `stake_is_mapped`, `table_empty_at_quiescence`,
  `acquire_enabled_when_free`, `waiting_blocked_only_by_holder`, `no_deadlock`,
  `step_decreases_work`, `all_acquisitions_complete`.
  Invariant and its preservation: `Lemmas/PageLocks.lean`, `Lemmas/PageLocksInv.lean`;
  progress: `Lemmas/PageLocksLive.lean`.
-/
namespace TurVerif.C36
open TurVerif.PageLocks

def cexProgs : List (List Op) := [[.write 7, .write 7], [.write 7], [.write 7]]

/-- A locks/unlocks page 7 and drops the entry's ref count to 0 (pauses before the map lock);
B re-uses the same entry, locks/unlocks, also drops it to 0 (pauses); A removes the entry and
write-locks the page again through a NEW entry; B's stale cleanup sees its OLD entry at 0 and
removes the page id from the map — i.e. A's live entry; C then creates a third entry and
write-locks the same page while A still holds it. -/
def cexSched : List Nat :=
  [0, 0, 0, 0, 0,  1, 1, 1, 1, 1,  0, 0, 0, 0,  1,  2, 2, 2]

/-- the full statement is FALSE of the pinned code: two simultaneous writers of page 7 -/
theorem stale_cleanup_counterexample :
    let s := run (init false cexProgs) cexSched
    writersOf s 7 = 2 ∧ pageSafe s 7 = false := by decide

/-- the repaired cleanup keeps the page safe on the same schedule (C is blocked) -/
theorem fixed_same_schedule_safe :
    let s := run (init true cexProgs) cexSched
    writersOf s 7 = 1 ∧ pageSafe s 7 = true := by decide

/-- every prefix of the counterexample schedule is safe under the repaired cleanup -/
theorem fixed_all_prefixes_safe :
    (List.range (cexSched.length + 1)).all
      (fun n => pageSafe (run (init true cexProgs) (cexSched.take n)) 7) = true := by decide

/-! ### why `get_or_create` must be one step: the non-atomic variant (`PageLocksFine`) -/

def naProgs : List (List Op) := [[.write 7], [.write 7], [.write 7]]

/-- T0 takes the write lock of page 7; T1 finds T0's entry in the map and is pre-empted before the
ref-count increment; T0 unlocks, drops the count to 0 and removes the entry; T1 increments the
count of the orphaned entry and write-locks it; T2 finds no entry, creates a fresh one and
write-locks the same page. -/
def naSched : List Nat := [0, 0, 0,  1, 1,  0, 0, 0,  1, 1,  2, 2, 2]

/-- with the REPAIRED cleanup, but lookup and ref-count increment as two steps (the shard mutex
released in between), the property fails: two simultaneous writers of page 7 -/
theorem nonatomic_get_or_create_counterexample :
    let f := PageLocksFine.frun (PageLocksFine.finit true naProgs) naSched
    writersOf f.s 7 = 2 ∧ pageSafe f.s 7 = false := by decide

/-- the same programs and schedule on the atomic model: T1 holds a counted reference, T0's
cleanup keeps the entry, T2 re-uses it and has to wait -/
theorem atomic_same_schedule_safe :
    let s := run (init true naProgs) naSched
    writersOf s 7 ≤ 1 ∧ pageSafe s 7 = true := by decide

/-- on states with no thread inside the window the fine model steps exactly like the coarse one,
except that an existing entry is looked up first (the increment is the next step of that thread) -/
theorem fine_step_no_window (f : PageLocksFine.FState) (tid : Nat) (t : Thread)
    (hp : f.pending = []) (ht : f.s.threads[tid]? = some t)
    (hpc : ∀ p w, t.pc = .getOrCreate p w → lookup f.s.map p = none) :
    PageLocksFine.fstep f tid = (step f.s tid).map (fun s' => { f with s := s' }) := by
  unfold PageLocksFine.fstep
  simp only [hp, List.find?_nil, ht]
  cases hpc' : t.pc with
  | getOrCreate p w => simp only [hpc p w hpc']
  | _ => rfl

/-! ### general theorems about the repaired model (`fixed = true`): all thread counts, all
programs, all schedules.  They follow from the inductive invariant `PageLocks.Inv`
(`Lemmas/PageLocks.lean`, preservation in `Lemmas/PageLocksInv.lean`). -/

/-- the inductive invariant holds in every reachable state -/
theorem invariant_reachable (progs : List (List Op)) (sched : List Nat) :
    Inv (run (init true progs) sched) := inv_reachable progs sched

/-- HEADLINE: for every number of threads, every program and every schedule, every page has at
most one write-lock holder and no write-lock holder together with read-lock holders -/
theorem page_mutex (progs : List (List Op)) (sched : List Nat) (page : Nat) :
    pageSafe (run (init true progs) sched) page = true :=
  pageSafe_of_inv (inv_reachable progs sched) page

/-- the same, spelled out -/
theorem page_mutex_explicit (progs : List (List Op)) (sched : List Nat) (page : Nat) :
    let s := run (init true progs) sched
    writersOf s page ≤ 1 ∧ (writersOf s page = 0 ∨ readersOf s page = 0) := by
  have h := page_mutex progs sched page
  simpa [pageSafe] using h

/-- per lock entry: at most one thread in `held _ e true`, and none together with a thread in
`held _ e false` -/
theorem entry_mutex (progs : List (List Op)) (sched : List Nat) (e : Nat) (en : Entry) :
    let s := run (init true progs) sched
    s.entries[e]? = some en →
      writerCount s e ≤ 1 ∧ (writerCount s e = 0 ∨ readerCount s e = 0) :=
  fun he => entry_mutex_of_inv (inv_reachable progs sched) he

/-- each entry's reference count equals the number of threads holding a stake in it
(`stakeCount s e` = number of threads whose pc is acquire / waiting / held / release on entry `e`) -/
theorem refcount_exact (progs : List (List Op)) (sched : List Nat) (e : Nat) (en : Entry) :
    let s := run (init true progs) sched
    s.entries[e]? = some en → en.refCount = stakeCount s e :=
  fun he => ((inv_reachable progs sched).en e en he).rc

/-- the modelled RwLock state of each entry is exactly the set of guard holders: `writer` iff one
thread is in `held _ e true`, `readers` = number of threads in `held _ e false` -/
theorem lock_state_exact (progs : List (List Op)) (sched : List Nat) (e : Nat) (en : Entry) :
    let s := run (init true progs) sched
    s.entries[e]? = some en →
      writerCount s e = (if en.writer = true then 1 else 0) ∧ readerCount s e = en.readers ∧
      (en.writer = true → en.readers = 0) :=
  fun he => ⟨((inv_reachable progs sched).en e en he).wr, ((inv_reachable progs sched).en e en he).rd,
    ((inv_reachable progs sched).en e en he).ex⟩

/-- every thread with a stake in `(p, e)` goes through the entry the map currently holds for `p`;
in particular an entry that has been removed from the map has no stake holders -/
theorem stake_is_mapped (progs : List (List Op)) (sched : List Nat) (t : Thread) (p e : Nat) :
    let s := run (init true progs) sched
    t ∈ s.threads → stakeOf t.pc = some (p, e) → lookup s.map p = some e :=
  fun ht hs => (inv_reachable progs sched).sk t ht p e hs

/-- the lock table returns to empty when all guards are dropped -/
theorem table_empty_at_quiescence (progs : List (List Op)) (sched : List Nat) :
    let s := run (init true progs) sched
    quiescent s = true → s.map = [] := by
  intro s hq
  have h : Inv s := inv_reachable progs sched
  have hidle : ∀ t ∈ s.threads, t.pc = .idle := by
    intro t ht
    have := (List.all_eq_true.mp hq) t ht
    simp only [Bool.and_eq_true, beq_iff_eq] at this
    exact this.1
  cases hm : s.map with
  | nil => rfl
  | cons x m =>
    obtain ⟨p, e⟩ := x
    have hmem : (p, e) ∈ s.map := by rw [hm]; exact List.mem_cons_self
    have hlt := h.mp.2 _ hmem
    have he : s.entries[e]? = some s.entries[e] := List.getElem?_eq_getElem hlt
    have hrc : (s.entries[e]).refCount = 0 := by
      rw [(h.en e _ he).rc, List.countP_eq_zero]
      intro t ht
      simp [hidle t ht]
    have hz := h.zc p e _ hmem he hrc
    have : s.threads.countP (fun t => atCleanup p e t.pc) = 0 := by
      rw [List.countP_eq_zero]
      intro t ht
      simp [hidle t ht]
    omega

/-- enabledness form of "every acquisition eventually succeeds once conflicting holders release":
a thread about to call `lock.read()/write()` always has an enabled step, and a thread parked in the
RwLock's queue on entry `e` has an enabled step (is granted the lock) whenever no OTHER thread holds
a write lock on `e` and — for a write request — no other thread holds a read lock on `e` -/
theorem acquire_enabled_when_free (progs : List (List Op)) (sched : List Nat) (tid : Nat)
    (t : Thread) (p e : Nat) (w : Bool) :
    let s := run (init true progs) sched
    s.threads[tid]? = some t →
      (t.pc = .acquire p e w → (step s tid).isSome = true) ∧
      (t.pc = .waiting p e w →
        (∀ j t' p', j ≠ tid → s.threads[j]? = some t' → t'.pc ≠ .held p' e true) →
        (w = true → ∀ j t' p', j ≠ tid → s.threads[j]? = some t' → t'.pc ≠ .held p' e false) →
        (step s tid).isSome = true) := by
  intro s ht
  have h : Inv s := inv_reachable progs sched
  refine ⟨?_, ?_⟩
  · intro hpc
    obtain ⟨en, he⟩ := entry_of_stake h ht (p := p) (e := e) (by simp [hpc])
    unfold step
    simp only [ht, hpc, he]
    cases w <;> simp only [Bool.false_eq_true, if_false, if_true] <;> split <;> rfl
  · intro hpc hnw hnr
    obtain ⟨en, he⟩ := entry_of_stake h ht (p := p) (e := e) (by simp [hpc])
    have o := h.en e en he
    have hwz : s.threads.countP (fun t => heldW e t.pc) = 0 := by
      rw [List.countP_eq_zero]
      intro t' ht' hf
      obtain ⟨j, hj, hjt⟩ := List.getElem_of_mem ht'
      have hj' : s.threads[j]? = some t' := by rw [List.getElem?_eq_getElem hj, hjt]
      by_cases hjt : j = tid
      · subst hjt; rw [ht] at hj'; cases hj'; simp [hpc] at hf
      · cases hq : t'.pc <;> simp [hq] at hf
        rename_i p' e' w'
        obtain ⟨rfl, rfl⟩ := hf
        exact hnw j t' p' hjt hj' hq
    have hw : en.writer = false := by
      have := o.wr
      rw [hwz] at this
      cases hx : en.writer
      · rfl
      · rw [hx] at this; simp at this
    unfold step
    simp only [ht, hpc, he]
    cases w with
    | false => simp [hw]
    | true =>
      have hrz : s.threads.countP (fun t => heldR e t.pc) = 0 := by
        rw [List.countP_eq_zero]
        intro t' ht' hf
        obtain ⟨j, hj, hjt⟩ := List.getElem_of_mem ht'
        have hj' : s.threads[j]? = some t' := by rw [List.getElem?_eq_getElem hj, hjt]
        by_cases hjt : j = tid
        · subst hjt; rw [ht] at hj'; cases hj'; simp [hpc] at hf
        · cases hq : t'.pc <;> simp [hq] at hf
          rename_i p' e' w'
          obtain ⟨rfl, rfl⟩ := hf
          exact hnr rfl j t' p' hjt hj' hq
      have hr : en.readers = 0 := by rw [← o.rd, hrz]
      simp [hw, hr]

/-- converse: a parked thread is blocked only by an actual conflicting holder on its entry -/
theorem waiting_blocked_only_by_holder (progs : List (List Op)) (sched : List Nat) (tid : Nat)
    (t : Thread) (p e : Nat) (w : Bool) :
    let s := run (init true progs) sched
    s.threads[tid]? = some t → t.pc = .waiting p e w → step s tid = none →
      ∃ j t' p', j ≠ tid ∧ s.threads[j]? = some t' ∧
        (t'.pc = .held p' e true ∨ (w = true ∧ t'.pc = .held p' e false)) := by
  intro s ht hpc hnone
  apply Classical.byContradiction
  intro hc
  have := (acquire_enabled_when_free progs sched tid t p e w ht).2 hpc
    (fun j t' p' hj hjt hp => hc ⟨j, t', p', hj, hjt, Or.inl hp⟩)
    (fun hw j t' p' hj hjt hp => hc ⟨j, t', p', hj, hjt, Or.inr ⟨hw, hp⟩⟩)
  rw [hnone] at this
  cases this

/-- NO DEADLOCK: in every reachable state in which some thread has not finished its program, some
thread has an enabled step (threads hold one page lock at a time in this model) -/
theorem no_deadlock (progs : List (List Op)) (sched : List Nat) :
    let s := run (init true progs) sched
    quiescent s = false → ∃ tid, (step s tid).isSome = true :=
  fun hq => progress_of_inv (inv_reachable progs sched)
    (evalid_run (evalid_init true progs) sched) hq

/-- every enabled step strictly decreases the remaining work `workLeft` (7 per pending operation +
rank of the current pc), for the pinned and the repaired model alike: no execution has more than
`workLeft (init ..)` = 7 × (number of operations) enabled steps -/
theorem step_decreases_work (s s' : State) (tid : Nat) (hs : step s tid = some s') :
    workLeft s' < workLeft s := PageLocks.step_decreases_work hs

/-- every acquisition eventually succeeds / everything completes: every reachable state can be
extended (by at most `workLeft` steps) to a quiescent state, where the lock table is empty.
Together with `no_deadlock` and `step_decreases_work`: EVERY maximal execution ends, after at most
7 × (number of operations) enabled steps, in a quiescent state with an empty table. -/
theorem all_acquisitions_complete (progs : List (List Op)) (sched : List Nat) :
    ∃ sched', let s := run (init true progs) (sched ++ sched')
      quiescent s = true ∧ s.map = [] ∧
      sched'.length ≤ workLeft (run (init true progs) sched) := by
  obtain ⟨sched', h1, h2⟩ := completes_of_inv _ (inv_reachable progs sched)
    (evalid_run (evalid_init true progs) sched) (Nat.le_refl _)
  refine ⟨sched', ?_, ?_, h2⟩
  · rw [run_append]; exact h1
  · have := table_empty_at_quiescence progs (sched ++ sched')
    rw [run_append] at this ⊢
    exact this h1

/-! ### sanity: the hypotheses are satisfiable, and small concrete systems -/

/-- non-vacuity of `acquire_enabled_when_free`: thread 1 is parked behind writer 0, then 0 unlocks -/
example :
    let s := run (init true [[.write 7], [.write 7]]) [0, 0, 0, 1, 1, 1]
    (s.threads[1]?.map (·.pc)) = some (.waiting 7 0 true) ∧ step s 1 = none ∧
    (step (run s [0]) 1).isSome = true := by decide

/-- non-vacuity of `table_empty_at_quiescence` -/
example :
    let s := run (init true [[.write 7], [.read 7]]) [0, 0, 0, 1, 1, 1, 0, 0, 1, 0, 1, 1, 1]
    quiescent s = true ∧ s.map = [] ∧ s.entries.length = 1 := by decide

/-- the pinned model (`fixed = false`) does NOT satisfy `table_empty_at_quiescence`-style cleanup
safety: see `stale_cleanup_counterexample`; the invariant's clause (I2) fails there -/
example :
    let s := run (init false cexProgs) (cexSched.take 15)
    (s.threads[0]?.map (·.pc)) = some (.held 7 1 true) ∧ lookup s.map 7 = none := by decide

end TurVerif.C36
