import TurVerif.Model.Mvcc
/-!
C08  Uncommitted changes are isolated from other handles; snapshot reads; no lost update.

* M-spec `TurVerif.Mvcc.SI` (snapshot isolation): `no_dirty_read`, `repeatable_snapshot`,
  `no_lost_update`, invariant `inv_step`.
* M-code: the record-header visibility rule with a commit log is a correct SI reader
  (`visible_rule_refines_SI`); the rule the live scan applies is not (`scan_ignores_lock`).
* M-code of the engine as it is (`Multi`): `dirty_read_counterexample`,
  `lost_update_counterexample`, `rollback_overwrites_counterexample`.
-/
namespace TurVerif.C08
open TurVerif.Mvcc

/-! ### helper lemmas -/

theorem setTxn_ne (f : Nat → Option Txn) (h h' : Nat) (t : Option Txn) (hne : h ≠ h') :
    setTxn f h' t h = f h := by
  simp [setTxn, hne]

theorem setTxn_eq (f : Nat → Option Txn) (h : Nat) (t : Option Txn) : setTxn f h t h = t := by
  simp [setTxn]

/-- versions committed after the snapshot are invisible to it -/
theorem committedAt_append_newer (new old : List Version) (ts k : Nat)
    (h : ∀ v ∈ new, ts < v.cts) : committedAt (new ++ old) ts k = committedAt old ts k := by
  induction new with
  | nil => rfl
  | cons v vs ih =>
    have hv : ts < v.cts := h v (List.mem_cons_self ..)
    have hn : ¬ (v.key = k ∧ v.cts ≤ ts) := fun ⟨_, h2⟩ => by omega
    simp only [List.cons_append, committedAt, hn, if_false]
    exact ih (fun w hw => h w (List.mem_cons_of_mem _ hw))

/-- a step of another handle leaves my transaction record alone -/
theorem step_other_txn (s : SI) (h h' : Nat) (hne : h ≠ h') (op : Op) :
    (s.step h' op).1.txns h = s.txns h := by
  cases op with
  | begin => simp only [SI.step]; split <;> simp [setTxn, hne]
  | rollback => simp only [SI.step]; split <;> simp [setTxn, hne]
  | commit =>
    simp only [SI.step]
    split
    · rfl
    · split <;> simp [setTxn, hne]
  | write k v => simp only [SI.step]; split <;> simp [setTxn, hne]

/-- every version a step adds is newer than every snapshot that was open before the step -/
theorem step_versions (s : SI) (h' : Nat) (op : Op) :
    ∃ new, (s.step h' op).1.versions = new ++ s.versions ∧ ∀ v ∈ new, s.clock < v.cts := by
  cases op with
  | begin => exact ⟨[], by simp only [SI.step]; split <;> rfl, by simp⟩
  | rollback => exact ⟨[], by simp only [SI.step]; split <;> rfl, by simp⟩
  | commit =>
    simp only [SI.step]
    split
    · exact ⟨[], rfl, by simp⟩
    · rename_i t ht
      split
      · exact ⟨[], rfl, by simp⟩
      · refine ⟨commitVersions t.writes (s.clock + 1), rfl, ?_⟩
        intro v hv
        simp only [commitVersions, List.mem_map] at hv
        obtain ⟨w, _, hw⟩ := hv
        subst hw
        exact Nat.lt_succ_self _
  | write k v =>
    simp only [SI.step]
    split
    · exact ⟨[], rfl, by simp⟩
    · refine ⟨[{ key := k, val := v, cts := s.clock + 1 }], rfl, ?_⟩
      intro w hw
      simp only [List.mem_singleton] at hw
      subst hw
      exact Nat.lt_succ_self _

/-! ### property theorems: the specification -/

/-- **Snapshot reads are repeatable**: while handle `h` has a transaction open, NO statement of
any other handle -- BEGIN, a write inside a transaction, an autocommit write, COMMIT, ROLLBACK --
changes what `h` reads for any key. -/
theorem repeatable_snapshot (s : SI) (hinv : s.Inv) (h h' : Nat) (hne : h ≠ h') (t : Txn)
    (ht : s.txns h = some t) (op : Op) (k : Nat) :
    (s.step h' op).1.read h k = s.read h k := by
  have h1 := step_other_txn s h h' hne op
  obtain ⟨new, h2, h3⟩ := step_versions s h' op
  have hts : t.readTs ≤ s.clock := hinv h t ht
  simp only [SI.read, h1, ht, h2]
  cases ownWrite t.writes k with
  | some v => rfl
  | none =>
    simp only
    exact committedAt_append_newer new s.versions t.readTs k (fun v hv => by have := h3 v hv; omega)

/-- **No dirty read**: a write made inside another handle's open transaction changes no read of
any other handle, whether that handle is in a transaction or reads in autocommit mode. -/
theorem no_dirty_read (s : SI) (h h' : Nat) (hne : h ≠ h') (t' : Txn) (ht' : s.txns h' = some t')
    (k : Nat) (v : Option Nat) (k' : Nat) :
    (s.step h' (.write k v)).1.read h k' = s.read h k' := by
  simp only [SI.step, ht', SI.read, setTxn, hne, if_false]

/-- a rolled-back transaction leaves no trace for anybody -/
theorem rollback_invisible (s : SI) (h h' : Nat) (hne : h ≠ h') (k' : Nat) :
    (s.step h' .rollback).1.read h k' = s.read h k' := by
  simp only [SI.step]
  split
  · rfl
  · simp only [SI.read, setTxn, hne, if_false]

/-- **No lost update** (first committer wins): two open transactions have both written key `k`;
if the first one commits successfully, the commit of the second is refused. -/
theorem no_lost_update (s : SI) (hinv : s.Inv) (h1 h2 : Nat) (hne : h1 ≠ h2) (t1 t2 : Txn)
    (ht1 : s.txns h1 = some t1) (ht2 : s.txns h2 = some t2) (k : Nat) (v1 v2 : Option Nat)
    (hw1 : (k, v1) ∈ t1.writes) (hw2 : (k, v2) ∈ t2.writes)
    (hok : (s.step h1 .commit).2 = .ok) :
    ((s.step h1 .commit).1.step h2 .commit).2 = .conflict := by
  have hts : t2.readTs ≤ s.clock := hinv h2 t2 ht2
  have hne' : h2 ≠ h1 := fun e => hne e.symm
  simp only [SI.step, ht1] at hok ⊢
  split at hok
  · cases hok
  · rename_i hc
    simp only [hc, Bool.false_eq_true, if_false, setTxn, hne', ht2]
    have hconf : conflicts (commitVersions t1.writes (s.clock + 1) ++ s.versions) t2.readTs t2.writes
        = true := by
      simp only [conflicts, List.any_eq_true]
      refine ⟨(k, v2), hw2, ?_⟩
      refine ⟨{ key := k, val := v1, cts := s.clock + 1 }, ?_, ?_⟩
      · apply List.mem_append_left
        simp only [commitVersions, List.mem_map]
        exact ⟨(k, v1), hw1, rfl⟩
      · simp only [decide_eq_true_eq]
        exact ⟨trivial, by omega⟩
    simp [hconf]

theorem inv_init : ({} : SI).Inv := by
  intro h t ht
  cases ht

/-- the invariant "no snapshot lies in the future" is preserved by every statement -/
theorem inv_step (s : SI) (hinv : s.Inv) (h' : Nat) (op : Op) : (s.step h' op).1.Inv := by
  intro h t ht
  by_cases hh : h = h'
  · subst hh
    cases op with
    | begin =>
      simp only [SI.step] at ht ⊢
      split at ht
      · exact hinv h t ht
      · simp only [setTxn_eq, Option.some.injEq] at ht
        subst ht
        exact Nat.le_refl _
    | rollback =>
      simp only [SI.step] at ht ⊢
      split at ht
      · exact hinv h t ht
      · simp [setTxn_eq] at ht
    | commit =>
      simp only [SI.step] at ht ⊢
      split at ht
      · exact hinv h t ht
      · split at ht <;> simp [setTxn_eq] at ht
    | write k v =>
      simp only [SI.step] at ht ⊢
      split at ht
      · rename_i t0 ht0
        simp only [setTxn_eq, Option.some.injEq] at ht
        subst ht
        exact hinv h t0 ht0
      · rename_i hn
        rw [hn] at ht; cases ht
  · have h1 := step_other_txn s h h' hh op
    rw [h1] at ht
    have := hinv h t ht
    have hc : s.clock ≤ (s.step h' op).1.clock := by
      cases op with
      | begin => simp only [SI.step]; split <;> exact Nat.le_refl _
      | rollback => simp only [SI.step]; split <;> exact Nat.le_refl _
      | commit =>
        simp only [SI.step]
        split
        · exact Nat.le_refl _
        · split
          · exact Nat.le_refl _
          · exact Nat.le_succ _
      | write k v =>
        simp only [SI.step]
        split
        · exact Nat.le_refl _
        · exact Nat.le_succ _
    omega

/-- every state reachable from the empty database by ANY interleaving of statements of any handles -/
def reach (ops : List (Nat × Op)) : SI := ops.foldl (fun s hop => (s.step hop.1 hop.2).1) {}

/-- the invariant holds in every reachable state, for every history -/
theorem inv_reachable (ops : List (Nat × Op)) : (reach ops).Inv := by
  unfold reach
  suffices ∀ (s : SI), s.Inv → (ops.foldl (fun s hop => (s.step hop.1 hop.2).1) s).Inv from
    this {} inv_init
  induction ops with
  | nil => intro s h; exact h
  | cons hop ops ih => intro s h; exact ih _ (inv_step s h hop.1 hop.2)

/-- **No lost update after every history**: `no_lost_update` without the invariant hypothesis -/
theorem no_lost_update_reachable (ops : List (Nat × Op)) (h1 h2 : Nat) (hne : h1 ≠ h2)
    (t1 t2 : Txn) (ht1 : (reach ops).txns h1 = some t1) (ht2 : (reach ops).txns h2 = some t2)
    (k : Nat) (v1 v2 : Option Nat) (hw1 : (k, v1) ∈ t1.writes) (hw2 : (k, v2) ∈ t2.writes)
    (hok : ((reach ops).step h1 .commit).2 = .ok) :
    (((reach ops).step h1 .commit).1.step h2 .commit).2 = .conflict :=
  no_lost_update (reach ops) (inv_reachable ops) h1 h2 hne t1 t2 ht1 ht2 k v1 v2 hw1 hw2 hok

/-- non-vacuity: two transactions that both wrote key 1; the first commit succeeds -/
example :
    let s0 : SI := {}
    let s1 := (s0.step 9 (.write 1 (some 10))).1
    let s2 := (s1.step 0 .begin).1
    let s3 := (s2.step 1 .begin).1
    let s4 := (s3.step 0 (.write 1 (some 11))).1
    let s5 := (s4.step 1 (.write 1 (some 12))).1
    (s5.step 0 .commit).2 = .ok ∧ ((s5.step 0 .commit).1.step 1 .commit).2 = .conflict ∧
      s5.read 1 1 = some 12 ∧ s5.read 0 1 = some 11 ∧ s5.read 2 1 = some 10 := by decide

/-! ### property theorems: the visibility rules of the code -/

/-- **The header rule with a commit log is a correct snapshot reader**: a record is visible to a
snapshot exactly when its writer's commit timestamp (its own timestamp when the record is not
locked, the commit-log entry when it is) exists and is ≤ the snapshot, and the record is not a
tombstone.  In particular a locked record without a commit-log entry -- an uncommitted write --
is never visible. -/
theorem visible_rule_refines_SI (h : Hdr) (readTs : Nat) (clog : Nat → Option Nat) :
    isVisibleWithClog h readTs clog = .visible ↔
      ∃ eff, (if h.locked then clog h.txnId else some h.txnId) = some eff ∧ eff ≤ readTs ∧
        h.deleted = false := by
  unfold isVisibleWithClog
  cases hc : (if h.locked then clog h.txnId else some h.txnId) with
  | none => simp
  | some eff =>
    simp only [Option.some.injEq, exists_eq_left']
    by_cases h1 : eff > readTs
    · simp only [h1, if_true]
      constructor
      · intro h; cases h
      · intro ⟨h2, _⟩; omega
    · simp only [h1, if_false]
      cases hd : h.deleted with
      | true => simp
      | false => simp; omega

theorem uncommitted_invisible_with_clog (h : Hdr) (readTs : Nat) (clog : Nat → Option Nat)
    (hl : h.locked = true) (hc : clog h.txnId = none) :
    isVisibleWithClog h readTs clog = .invisible := by
  simp [isVisibleWithClog, hl, hc]

/-- `is_visible_to` never shows a locked record -/
theorem locked_invisible (h : Hdr) (readTs : Nat) (hl : h.locked = true) :
    isVisibleTo h readTs = .invisible := by
  simp [isVisibleTo, hl]

/-- **the filter the live scan applies ignores LOCK_BIT and the timestamp**: a locked
(uncommitted) record of any transaction id passes it -/
theorem scan_ignores_lock (txnId : Nat) :
    scanKeeps { locked := true, deleted := false, txnId := txnId } = true := rfl

/-! ### the engine as it is: counterexamples on the M-code model `Multi` -/
open TurVerif.Undo

def mOn (m : Multi) (h : Nat) (f : Eng → Eng × Bool) : Multi := (m.on h f).1
def mUpd (m : Multi) (h k v : Nat) : Multi := (m.on h (fun e => e.update 0 (.int k) 1 (.int v))).1
def mIns (m : Multi) (h k v : Nat) : Multi := mOn m h (fun e => e.insert [.int k, .int v])
def mBegin (m : Multi) (h : Nat) : Multi := mOn m h (fun e => e.txnOp .begin none false)
def mCommit (m : Multi) (h : Nat) : Multi × Bool := m.on h (fun e => e.txnOp .commit none false)
def mRollback (m : Multi) (h : Nat) : Multi := mOn m h (fun e => e.txnOp .rollback none true)

/-- **dirty read**: handle 0 inserts row 5 inside an open transaction; a scan (through any
handle) returns it, while in the specification handle 1 does not see key 5. -/
theorem dirty_read_counterexample :
    (mIns (mBegin (mIns {} 9 1 10) 0) 0 5 50).scan = [(.int 1, .int 10), (.int 5, .int 50)] ∧
    (let s1 := (({} : SI).step 9 (.write 1 (some 10))).1
     let s2 := (s1.step 0 .begin).1
     let s3 := (s2.step 0 (.write 5 (some 50))).1
     s3.read 1 5 = none ∧ s3.read 1 1 = some 10) := by decide

/-- **lost update**: both handles open a transaction, both update row 1, both COMMITs succeed in
the engine model and the second value silently replaces the first; the specification refuses the
second COMMIT (`no_lost_update`). -/
theorem lost_update_counterexample :
    let m0 := mIns {} 9 1 10
    let m1 := mBegin (mBegin m0 0) 1
    let m2 := mUpd (mUpd m1 0 1 11) 1 1 12
    (mCommit m2 0).2 = true ∧ (mCommit (mCommit m2 0).1 1).2 = true ∧
      (mCommit (mCommit m2 0).1 1).1.scan = [(.int 1, .int 12)] := by decide

/-- **ROLLBACK of one handle overwrites another handle's committed write**: handle 0 updates row 1
in a transaction, handle 1 updates it in autocommit mode (committed), handle 0 rolls back: the
undo log re-installs handle 0's old value 10 and the committed 18 is gone. -/
theorem rollback_overwrites_counterexample :
    let m0 := mIns {} 9 1 10
    let m1 := mUpd (mBegin m0 0) 0 1 12
    let m2 := mUpd m1 1 1 18
    (mRollback m2 0).scan = [(.int 1, .int 10)] := by decide

end TurVerif.C08
