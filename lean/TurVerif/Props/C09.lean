import TurVerif.Model.SqlCons
import TurVerif.Model.CheckEval
/-!
C09  Declared constraints hold exactly.

Part 1: theorems about the reference state machine `TurVerif.SqlCons` / `TurVerif.SqlDb` (M-spec:
this *is* the definition the property statement refers to): a write succeeds iff its would-be
post-state satisfies every declared constraint; every reachable state is valid; NULL keys never
conflict; CHECK passes on UNKNOWN; a NULL child key passes the FK; after a successful DELETE no
dangling reference remains (cascade or refusal).
Part 2: the M-code model `TurVerif.CheckEval` of the engine's string-matching CHECK evaluator:
what it computes on the shapes it recognises, and machine-checked witnesses where it accepts or
rejects wrongly with respect to the reference semantics.
The executor is tied to Part 1 only by the differential engine `sql_cons`.
-/
namespace TurVerif.C09
open TurVerif.Sql TurVerif.SqlDb TurVerif.SqlCons

def Res.isErr : Res → Bool
  | .err _ => true
  | _ => false

/-! ### helper lemmas -/
theorem foldl_preserves {α β : Type} (P : β → Prop) (f : β → α → β)
    (h : ∀ b a, P b → P (f b a)) : ∀ (l : List α) (b : β), P b → P (l.foldl f b) := by
  intro l
  induction l with
  | nil => intro b hb; exact hb
  | cons a rest ih => intro b hb; exact ih _ (h b a hb)

theorem put_txn (s : DbState) (t : TableSt) : (s.put t).txn = s.txn := rfl

theorem cascadeDelete_txn : ∀ (fuel : Nat) (s : DbState) (p : String) (gone : List Row),
    (cascadeDelete fuel s p gone).txn = s.txn := by
  intro fuel
  induction fuel with
  | zero => intro s p g; rfl
  | succ n ih =>
    intro s p g
    unfold cascadeDelete
    apply foldl_preserves (fun (st : DbState) => st.txn = s.txn)
    · intro st t hst
      apply foldl_preserves (fun (st : DbState) => st.txn = s.txn)
      · intro st' f hst'
        dsimp only
        split
        · split
          · exact hst'
          · split
            · exact hst'
            · rw [ih]; exact hst'
        · exact hst'
      · exact hst
    · rfl

theorem cascadeUpdate_txn (s : DbState) (p : String) (ps : List (Row × Row)) :
    (cascadeUpdate s p ps).txn = s.txn := rfl

/-- a write's would-be state keeps the transaction stack, and its result is never an error -/
theorem wouldBe_txn (s s' : DbState) (w : Stmt) (r : Res) (h : wouldBe s w = .ok (s', r)) :
    s'.txn = s.txn ∧ Res.isErr r = false := by
  cases w <;> (try simp only [wouldBe] at h)
  case insert tn cols rows =>
    split at h
    · cases h
    · split at h
      · cases h
      · cases h; exact ⟨rfl, rfl⟩
  case update tn sets whr =>
    split at h
    · cases h
    · split at h
      · cases h
      · cases h; exact ⟨rfl, rfl⟩
  case delete tn whr =>
    split at h
    · cases h
    · split at h
      · cases h
      · cases h; exact ⟨by rw [cascadeDelete_txn]; rfl, rfl⟩
  case truncate tn =>
    split at h
    · cases h
    · cases h; exact ⟨rfl, rfl⟩
  all_goals (first | cases h | (simp [wouldBe] at h))

/-! ### validity depends only on the tables -/
theorem fkOk_congr (s s' : DbState) (h : s.tables = s'.tables) (f : Fk) (r : Row) :
    fkOk s f r = fkOk s' f r := by simp [fkOk, DbState.find, h]

theorem tableValid_congr (s s' : DbState) (h : s.tables = s'.tables) (t : TableSt) :
    tableValid s t = tableValid s' t := by
  have hf : fkOk s = fkOk s' := by
    funext f r; exact fkOk_congr s s' h f r
  simp only [tableValid, hf]

theorem dbValid_go_congr (s s' : DbState) (h : s.tables = s'.tables) :
    ∀ ts, dbValid.go s ts = dbValid.go s' ts := by
  intro ts
  induction ts with
  | nil => rfl
  | cons t rest ih => simp [dbValid.go, tableValid_congr s s' h t, ih]

theorem dbValid_congr (s s' : DbState) (h : s.tables = s'.tables) : dbValid s = dbValid s' := by
  simp [dbValid, dbValid_go_congr s s' h, h]

/-! ### property theorems, part 1 -/

/-- **a write succeeds iff the would-be post-state satisfies every declared constraint**
(INSERT, UPDATE incl. ON UPDATE CASCADE, DELETE incl. ON DELETE CASCADE, TRUNCATE) -/
theorem ok_iff_valid (s s' : DbState) (w : Stmt) (r : Res) (hw : isWrite w = true)
    (h : wouldBe s w = .ok (s', r)) :
    Res.isErr (SqlCons.step s w).2 = false ↔ dbValid s' = .ok true := by
  have hr := (wouldBe_txn s s' w r h).2
  simp only [SqlCons.step, hw, if_true, h, applyValid]
  cases hv : dbValid s' with
  | error e => simp [Res.isErr]
  | ok b =>
    cases b with
    | false => simp [Res.isErr]
    | true => simp [hr]

/-- on success the new state is exactly the would-be state; on refusal the state is unchanged -/
theorem ok_state (s s' : DbState) (w : Stmt) (r : Res) (hw : isWrite w = true)
    (h : wouldBe s w = .ok (s', r)) :
    (dbValid s' = .ok true → SqlCons.step s w = (s', r)) ∧ (dbValid s' ≠ .ok true → (SqlCons.step s w).1 = s) := by
  simp only [SqlCons.step, hw, if_true, h, applyValid]
  cases hv : dbValid s' with
  | error e => simp
  | ok b => cases b <;> simp

/-- a write that cannot even be evaluated (unknown table, type error …) changes nothing -/
theorem write_error_no_effect (s : DbState) (w : Stmt) (e : Err) (hw : isWrite w = true)
    (h : wouldBe s w = .error e) : SqlCons.step s w = (s, Res.err e) := by
  simp [SqlCons.step, hw, h]

/-- the state after any write is valid whenever the state before was -/
theorem write_preserves_valid (s : DbState) (w : Stmt) (hw : isWrite w = true)
    (hv : dbValid s = .ok true) : dbValid (SqlCons.step s w).1 = .ok true := by
  simp only [SqlCons.step, hw, if_true]
  cases h : wouldBe s w with
  | error e => simpa using hv
  | ok p =>
    obtain ⟨s', r⟩ := p
    simp only [applyValid]
    cases hv' : dbValid s' with
    | error e => simpa using hv
    | ok b => cases b <;> simp [hv, hv']

theorem write_txn (s : DbState) (w : Stmt) (hw : isWrite w = true) : (SqlCons.step s w).1.txn = s.txn := by
  simp only [SqlCons.step, hw, if_true]
  cases h : wouldBe s w with
  | error e => rfl
  | ok p =>
    obtain ⟨s', r⟩ := p
    have := (wouldBe_txn s s' w r h).1
    simp only [applyValid]
    cases hv' : dbValid s' with
    | error e => rfl
    | ok b => cases b <;> simp [this]

/-- DML and transaction statements (the statements C09 quantifies over) -/
def isDmlTxn : Stmt → Bool
  | .insert .. | .update .. | .delete .. | .truncate .. => true
  | .begin | .commit | .rollback | .savepoint _ | .rollbackTo _ | .release _ => true
  | _ => false

def validTables (ts : List TableSt) : Prop := dbValid { tables := ts, txn := [] } = .ok true

/-- the current tables and every snapshot on the transaction stack are valid -/
def Inv (s : DbState) : Prop := dbValid s = .ok true ∧ ∀ e ∈ s.txn, validTables e.2

theorem valid_of_tables (s : DbState) (ts : List TableSt) (h : s.tables = ts) :
    dbValid s = .ok true ↔ validTables ts := by
  unfold validTables
  rw [dbValid_congr s { tables := ts, txn := [] } (by simp [h])]

theorem valid_same_tables (s s' : DbState) (h : s'.tables = s.tables) (hv : dbValid s = .ok true) :
    dbValid s' = .ok true := by rw [dbValid_congr s' s h]; exact hv

theorem step_inv (s : DbState) (st : Stmt) (hst : isDmlTxn st = true) (hinv : Inv s) :
    Inv (SqlCons.step s st).1 := by
  obtain ⟨hv, hsnap⟩ := hinv
  cases st <;> simp only [isDmlTxn] at hst
  case insert tn cols rows =>
    exact ⟨write_preserves_valid s _ rfl hv, by rw [write_txn s _ rfl]; exact hsnap⟩
  case update tn sets whr =>
    exact ⟨write_preserves_valid s _ rfl hv, by rw [write_txn s _ rfl]; exact hsnap⟩
  case delete tn whr =>
    exact ⟨write_preserves_valid s _ rfl hv, by rw [write_txn s _ rfl]; exact hsnap⟩
  case truncate tn =>
    exact ⟨write_preserves_valid s _ rfl hv, by rw [write_txn s _ rfl]; exact hsnap⟩
  case begin =>
    show Inv (SqlDb.step s (Stmt.begin)).1
    simp only [SqlDb.step]
    split
    · refine ⟨?_, ?_⟩
      · exact valid_same_tables s _ rfl hv
      · intro e he; simp at he; subst he; exact (valid_of_tables s s.tables rfl).mp hv
    · exact ⟨hv, hsnap⟩
  case commit =>
    show Inv (SqlDb.step s (Stmt.commit)).1
    simp only [SqlDb.step]
    split
    · exact ⟨hv, hsnap⟩
    · refine ⟨?_, by intro e he; simp at he⟩
      exact valid_same_tables s _ rfl hv
  case rollback =>
    show Inv (SqlDb.step s (Stmt.rollback)).1
    simp only [SqlDb.step]
    split
    · exact ⟨hv, hsnap⟩
    · rename_i nm snap hlast
      refine ⟨?_, by intro e he; simp at he⟩
      exact (valid_of_tables _ snap rfl).mpr (hsnap _ (List.mem_of_getLast? hlast))
  case savepoint n =>
    show Inv (SqlDb.step s (Stmt.savepoint n)).1
    simp only [SqlDb.step]
    split
    · exact ⟨hv, hsnap⟩
    · refine ⟨?_, ?_⟩
      · exact valid_same_tables s _ rfl hv
      · intro e he
        simp at he
        rcases he with rfl | he
        · exact (valid_of_tables s s.tables rfl).mp hv
        · exact hsnap e he
  case rollbackTo n =>
    show Inv (SqlDb.step s (Stmt.rollbackTo n)).1
    simp only [SqlDb.step]
    split
    · exact ⟨hv, hsnap⟩
    · rename_i m snap rest hd
      have hsub := List.dropWhile_sublist (l := s.txn) (fun e => e.1 != n || e.1 == "")
      rw [hd] at hsub
      have hm : (m, snap) ∈ s.txn := hsub.subset (by simp)
      refine ⟨?_, ?_⟩
      · exact (valid_of_tables _ snap rfl).mpr (hsnap _ hm)
      · intro e he
        exact hsnap e (hsub.subset he)
  case release n =>
    show Inv (SqlDb.step s (Stmt.release n)).1
    simp only [SqlDb.step]
    split
    · exact ⟨hv, hsnap⟩
    · rename_i hd rest hdw
      have hsub := List.dropWhile_sublist (l := s.txn) (fun e => e.1 != n || e.1 == "")
      rw [hdw] at hsub
      refine ⟨?_, ?_⟩
      · exact valid_same_tables s _ rfl hv
      · intro e he
        exact hsnap e (hsub.subset (List.mem_cons_of_mem _ he))
  all_goals exact absurd hst (by simp)

/-- **every reachable state satisfies every declared constraint**: from a valid state (with valid
snapshots, e.g. outside a transaction), any history of INSERT / UPDATE / DELETE / TRUNCATE /
BEGIN / COMMIT / ROLLBACK / SAVEPOINT / ROLLBACK TO / RELEASE ends in a valid state -/
theorem reachable_valid (stmts : List Stmt) :
    ∀ (s : DbState), Inv s → stmts.all isDmlTxn = true → Inv (SqlCons.run s stmts).1 := by
  induction stmts with
  | nil => intro s h _; simpa [SqlCons.run] using h
  | cons st rest ih =>
    intro s hinv hall
    simp only [List.all_cons, Bool.and_eq_true] at hall
    simp only [SqlCons.run]
    exact ih _ (step_inv s st hall.1 hinv) hall.2

/-- the headline form: outside a transaction, validity of the start state is enough -/
theorem reachable_valid_no_txn (s : DbState) (stmts : List Stmt) (htxn : s.txn = [])
    (hv : dbValid s = .ok true) (hall : stmts.all isDmlTxn = true) :
    dbValid (SqlCons.run s stmts).1 = .ok true :=
  (reachable_valid stmts s ⟨hv, by intro e he; simp [htxn] at he⟩ hall).1

/-- for INSERT, DELETE and TRUNCATE the C09 machine is the shared `SqlDb.step` (UPDATE differs only
by the ON UPDATE CASCADE action) -/
theorem step_eq_sqldb (s : DbState) (w : Stmt)
    (hw : (match w with | .insert .. | .delete .. | .truncate .. => true | _ => false) = true) :
    SqlCons.step s w = SqlDb.step s w := by
  cases w <;> simp at hw
  case insert tn cols rows =>
    simp only [SqlCons.step, isWrite, if_true, wouldBe, SqlDb.step]
    cases s.find tn with
    | none => rfl
    | some t =>
      dsimp only
      cases buildInsertRows t cols rows t.nextAuto with
      | error e => rfl
      | ok p => rfl
  case delete tn whr =>
    simp only [SqlCons.step, isWrite, if_true, wouldBe, SqlDb.step]
    cases s.find tn with
    | none => rfl
    | some t =>
      dsimp only
      cases splitRows whr t.rows with
      | error e => rfl
      | ok p => rfl
  case truncate tn =>
    simp only [SqlCons.step, isWrite, if_true, wouldBe, SqlDb.step]
    cases s.find tn with
    | none => rfl
    | some t => rfl

/-! ### NULLs in keys -/
theorem val_same_null_right (a : Val) (h : a.isNull = false) : Val.same a .null = false := by
  cases a <;> simp_all [Val.same, Val.isNull]

theorem rowSame_null_key : ∀ (k k' : List Val), keyHasNull k = false → keyHasNull k' = true →
    rowSame k k' = false := by
  intro k
  induction k with
  | nil => intro k' _ h'; cases k' with
    | nil => simp [keyHasNull] at h'
    | cons b bs => simp [rowSame]
  | cons a as ih =>
    intro k' h h'
    cases k' with
    | nil => simp [rowSame]
    | cons b bs =>
      simp only [keyHasNull, List.any_cons, Bool.or_eq_false_iff, Bool.or_eq_true] at h h'
      simp only [rowSame, Bool.and_eq_false_iff]
      rcases h' with hb | hbs
      · left
        cases b <;> simp [Val.isNull] at hb
        exact val_same_null_right a h.1
      · right; exact ih bs h.2 hbs

/-- **UNIQUE / PRIMARY KEY uniqueness ignores rows with a NULL in the key**: adding such a row (at
either end) never creates a conflict -/
theorem unique_allows_nulls (ix : List Nat) (r : Row) (rows : List Row)
    (hn : keyHasNull (keyOf r ix) = true) :
    uniqueOk ix (r :: rows) = uniqueOk ix rows ∧ uniqueOk ix (rows ++ [r]) = uniqueOk ix rows := by
  constructor
  · simp [uniqueOk, hn]
  · induction rows with
    | nil => simp [uniqueOk, hn]
    | cons x xs ih =>
      simp only [List.cons_append, uniqueOk, ih, List.all_append, List.all_cons, List.all_nil,
        Bool.and_true]
      cases hx : keyHasNull (keyOf x ix) with
      | true => simp
      | false => simp [rowSame_null_key _ _ hx hn]

/-- two rows with the same key conflict as soon as the key is fully non-NULL (non-vacuity) -/
example : uniqueOk [0] [[.int 1, .null], [.int 1, .int 2]] = false ∧
    uniqueOk [1] [[.int 1, .null], [.int 2, .null]] = true := by decide

/-! ### CHECK: UNKNOWN passes -/
/-- a CHECK whose expression evaluates to NULL (UNKNOWN) does not reject the row -/
theorem check_unknown_passes (r : Row) (c : Expr) (cs : List Expr)
    (h : eval r c = .ok .null) : checkOk.go r (c :: cs) = checkOk.go r cs := by
  simp [checkOk.go, h, Val.truth]

theorem check_false_rejects (r : Row) (c : Expr) (cs : List Expr)
    (h : eval r c = .ok (.bool false)) : checkOk.go r (c :: cs) = .ok false := by
  simp [checkOk.go, h, Val.truth]

theorem check_true_continues (r : Row) (c : Expr) (cs : List Expr)
    (h : eval r c = .ok (.bool true)) : checkOk.go r (c :: cs) = checkOk.go r cs := by
  simp [checkOk.go, h, Val.truth]

/-- `CHECK (a > 0)` on a NULL value: the comparison is NULL, the row passes -/
example : checkOk { name := "t", cols := [], checks := [.bin .gt (.col 0) (.lit (.int 0))] } [.null]
    = .ok true := by rfl

/-! ### FOREIGN KEY -/
/-- a child row with a NULL in its foreign-key columns satisfies the constraint whatever the
parent table contains -/
theorem fk_null_child_passes (s : DbState) (f : Fk) (r : Row)
    (h : keyHasNull (keyOf r f.cols) = true) : fkOk s f r = true := by
  simp [fkOk, h]

theorem dbValid_go_mem (s : DbState) : ∀ (ts : List TableSt), dbValid.go s ts = .ok true →
    ∀ t ∈ ts, tableValid s t = .ok true := by
  intro ts
  induction ts with
  | nil => intro _ t ht; simp at ht
  | cons x xs ih =>
    intro h t ht
    simp only [dbValid.go] at h
    cases hx : tableValid s x with
    | error e => simp [hx] at h
    | ok a =>
      cases hxs : dbValid.go s xs with
      | error e => simp [hx, hxs] at h
      | ok b =>
        simp [hx, hxs] at h
        rcases List.mem_cons.mp ht with rfl | ht
        · rw [hx, h.1]
        · exact ih (by rw [hxs, h.2]) t ht

/-- in a valid state no row has a dangling reference -/
theorem valid_no_dangling (s : DbState) (hv : dbValid s = .ok true) (t : TableSt) (ht : t ∈ s.tables)
    (f : Fk) (hf : f ∈ t.fks) (r : Row) (hr : r ∈ t.rows) : fkOk s f r = true := by
  have h := dbValid_go_mem s s.tables hv t ht
  simp only [tableValid] at h
  cases hc : rowsCheckOk t t.rows with
  | error e => simp [hc] at h
  | ok c =>
    simp [hc] at h
    exact h.2 f hf r hr

/-- **after a successful DELETE of parent rows no child references a missing parent**: children
of ON DELETE CASCADE keys were removed with the parents, and if a RESTRICT / NO ACTION child still
referenced a deleted key the statement is refused and nothing changes (`ok_iff_valid`, `ok_state`) -/
theorem cascade_removes_children (s : DbState) (p : String) (whr : Option Expr)
    (hv : dbValid s = .ok true) :
    ∀ t ∈ (SqlCons.step s (.delete p whr)).1.tables, ∀ f ∈ t.fks, ∀ r ∈ t.rows,
      fkOk (SqlCons.step s (.delete p whr)).1 f r = true := by
  intro t ht f hf r hr
  exact valid_no_dangling _ (write_preserves_valid s _ rfl hv) t ht f hf r hr

/-- concrete instance: parent p(1),(2); child c(10→1) ON DELETE CASCADE, d(20→2) RESTRICT.
Deleting parent 1 removes child 10; deleting parent 2 is refused and changes nothing. -/
def exDb : DbState :=
  { tables := [
      { name := "p", cols := [{ name := "id", pk := true }], rows := [[.int 1], [.int 2]] },
      { name := "c", cols := [{ name := "id", pk := true }, { name := "pid" }],
        fks := [{ cols := [1], parent := "p", pcols := [0], onDelete := .cascade }], rows := [[.int 10, .int 1]] },
      { name := "d", cols := [{ name := "id", pk := true }, { name := "pid" }],
        fks := [{ cols := [1], parent := "p", pcols := [0], onDelete := .restrict }], rows := [[.int 20, .int 2]] }] }

def delP (k : Int) : Stmt := .delete "p" (some (.bin .eq (.col 0) (.lit (.int k))))

theorem cascade_example :
    (SqlCons.step exDb (delP 1)).1.tables.map (·.rows) = [[[.int 2]], [], [[.int 20, .int 2]]] ∧
    Res.isErr (SqlCons.step exDb (delP 1)).2 = false ∧
    (SqlCons.step exDb (delP 2)).1.tables.map (·.rows) = exDb.tables.map (·.rows) ∧
    Res.isErr (SqlCons.step exDb (delP 2)).2 = true := by
  refine ⟨?_, ?_, ?_, ?_⟩ <;> decide

end TurVerif.C09

/-! ## Part 2: the engine's string-matching CHECK evaluator (M-code model) -/
namespace TurVerif.C09.CE
open TurVerif.CheckEval

theorem evalDepth_or (f : Nat) (e col l r : List Char) (v : CVal)
    (h : splitOn [' ', 'o', 'r', ' '] [] (trim e) 0 = some (l, r)) :
    evalDepth (f + 1) e col v =
      (match evalDepth f l col v with
       | none => none
       | some a => match evalDepth f r col v with
         | none => none
         | some b => some (a || b)) := by
  simp [evalDepth, h] <;> rfl

theorem evalDepth_and (f : Nat) (e col l r : List Char) (v : CVal)
    (ho : splitOn [' ', 'o', 'r', ' '] [] (trim e) 0 = none)
    (h : splitOn [' ', 'a', 'n', 'd', ' '] [] (trim e) 0 = some (l, r)) :
    evalDepth (f + 1) e col v =
      (match evalDepth f l col v with
       | none => none
       | some a => match evalDepth f r col v with
         | none => none
         | some b => some (a && b)) := by
  simp [evalDepth, ho, h] <;> rfl

theorem evalDepth_atom (f : Nat) (e col : List Char) (v : CVal)
    (ho : splitOn [' ', 'o', 'r', ' '] [] (trim e) 0 = none)
    (ha : splitOn [' ', 'a', 'n', 'd', ' '] [] (trim e) 0 = none)
    (hs : stripOuterParens (trim e) = trim e) :
    evalDepth (f + 1) e col v = some (evalSimple (trim e) col v) := by
  simp [evalDepth, ho, ha, hs]

/-- **the shape the evaluator recognises**: an expression without top-level AND / OR and without
outer parentheses that mentions the column, whose first `<`/`>` operator is followed by an integer
literal in the i64 range, evaluates on an integer value to exactly that comparison -/
theorem check_eval_partial (e col after : List Char) (op : Cmp) (thr : Rat) (i : Int)
    (ho : splitOn [' ', 'o', 'r', ' '] [] (trim e) 0 = none)
    (ha : splitOn [' ', 'a', 'n', 'd', ' '] [] (trim e) 0 = none)
    (hs : stripOuterParens (trim e) = trim e)
    (hc : containsIgnoreCase (trim e) col = true)
    (hop : findOp (trim e) = some (op, after))
    (hnum : extractNum after = some thr)
    (hrange : thr.den = 1 ∧ (i64Min : Rat) ≤ thr ∧ thr ≤ (i64Max : Rat) + 1)
    (hle : thr.num ≤ i64Max) :
    evaluateCheck e col (.int i) = some (op.holdsInt i thr.num) := by
  have hnot : ¬ thr.num > i64Max := Int.not_lt.mpr hle
  simp [evaluateCheck, evalDepth_atom 31 e col (.int i) ho ha hs, evalSimple, hc, hop, hnum,
    compareWithThreshold, hrange, hnot]

/-- a NULL (or missing) value passes every CHECK without the expression being looked at -/
theorem check_eval_null (e col : List Char) : evaluateCheck e col .null = some true := rfl

/-- `holdsInt` is the plain integer comparison -/
theorem holdsInt_spec (i k : Int) :
    Cmp.gt.holdsInt i k = decide (k < i) ∧ Cmp.ge.holdsInt i k = decide (k ≤ i) ∧
    Cmp.lt.holdsInt i k = decide (i < k) ∧ Cmp.le.holdsInt i k = decide (i ≤ k) := ⟨rfl, rfl, rfl, rfl⟩

def sGt0 : List Char := ['a', ' ', '>', ' ', '0']
def sRange : List Char := ['a',' ','>','=',' ','0',' ','A','N','D',' ','a',' ','<','=',' ','1','0']
def colA : List Char := ['a']

/-- `CHECK (a > 0)`: correct for every integer -/
theorem check_gt_zero_correct (i : Int) :
    evaluateCheck sGt0 colA (.int i) = some (Cmp.gt.holdsInt i 0) := by
  have h := check_eval_partial sGt0 colA [' ', '0'] .gt 0 i (by decide) (by decide) (by decide)
    (by decide) (by decide) (by decide +kernel) (by decide +kernel) (by decide +kernel)
  simpa using h

/-- `CHECK (a >= 0 AND a <= 10)` (stored as `a >= 0 AND a <= 10`): correct for every integer -/
theorem check_range_and_correct (i : Int) :
    evaluateCheck sRange colA (.int i) = some (Cmp.ge.holdsInt i 0 && Cmp.le.holdsInt i 10) := by
  have hl := check_eval_partial ['a',' ','>','=',' ','0'] colA [' ', '0'] .ge 0 i (by decide) (by decide)
    (by decide) (by decide) (by decide) (by decide +kernel) (by decide +kernel) (by decide +kernel)
  have hr := check_eval_partial ['a',' ','<','=',' ','1','0'] colA [' ', '1', '0'] .le 10 i (by decide) (by decide)
    (by decide) (by decide) (by decide) (by decide +kernel) (by decide +kernel) (by decide +kernel)
  simp only [evaluateCheck] at hl hr ⊢
  have hsplit : splitOn [' ', 'a', 'n', 'd', ' '] [] (trim sRange) 0
      = some (['a',' ','>','=',' ','0'], ['a',' ','<','=',' ','1','0']) := by decide
  have hor : splitOn [' ', 'o', 'r', ' '] [] (trim sRange) 0 = none := by decide
  rw [evalDepth_and 31 sRange colA _ _ (.int i) hor hsplit]
  -- the sub-expressions are evaluated one level deeper; the atom lemma holds at every fuel > 0
  have hl' : evalDepth 31 ['a',' ','>','=',' ','0'] colA (.int i) = some (Cmp.ge.holdsInt i 0) := by
    have := evalDepth_atom 30 ['a',' ','>','=',' ','0'] colA (.int i) (by decide) (by decide) (by decide)
    rw [this]; rw [evalDepth_atom 31 _ colA (.int i) (by decide) (by decide) (by decide)] at hl
    simpa using hl
  have hr' : evalDepth 31 ['a',' ','<','=',' ','1','0'] colA (.int i) = some (Cmp.le.holdsInt i 10) := by
    have := evalDepth_atom 30 ['a',' ','<','=',' ','1','0'] colA (.int i) (by decide) (by decide) (by decide)
    rw [this]; rw [evalDepth_atom 31 _ colA (.int i) (by decide) (by decide) (by decide)] at hr
    simpa using hr
  simp [hl', hr']

end TurVerif.C09.CE

/-! ### where the string evaluator accepts or rejects wrongly (each confirmed on the real code by
the `sql_cons` engine: scenarios `check-*`, and by the direct M-code correspondence) -/
namespace TurVerif.C09.CE
open TurVerif.CheckEval TurVerif.Sql

private def a : Expr := .col 0
private def n (k : Int) : Expr := .lit (.int k)

/-- `CHECK (a = 5)` rejects the value 5 (no `<`/`>` operator is found → false) -/
theorem check_eq_rejects_counterexample :
    evaluateCheck ['a',' ','=',' ','5'] colA (.int 5) = some false ∧
    eval [.int 5] (.bin .eq a (n 5)) = .ok (.bool true) := ⟨by decide +kernel, rfl⟩

/-- `CHECK (a <> 5)` (stored as `a != 5`) rejects 6 -/
theorem check_ne_rejects_counterexample :
    evaluateCheck ['a',' ','!','=',' ','5'] colA (.int 6) = some false ∧
    eval [.int 6] (.bin .ne a (n 5)) = .ok (.bool true) := ⟨by decide +kernel, rfl⟩

/-- `CHECK (5 < a)` rejects 6: the operand after the operator is not a number -/
theorem check_reversed_rejects_counterexample :
    evaluateCheck ['5',' ','<',' ','a'] colA (.int 6) = some false ∧
    eval [.int 6] (.bin .lt (n 5) a) = .ok (.bool true) := ⟨by decide +kernel, rfl⟩

/-- `CHECK (a + 1 > 3)` is evaluated as `a > 3`: rejects 3 -/
theorem check_arith_rejects_counterexample :
    evaluateCheck ['a',' ','+',' ','1',' ','>',' ','3'] colA (.int 3) = some false ∧
    eval [.int 3] (.bin .gt (.bin .add a (n 1)) (n 3)) = .ok (.bool true) := ⟨by decide +kernel, rfl⟩

/-- `CHECK (NOT (a > 5))` is stored as `NOT a > 5` and evaluated as `a > 5`: accepts 7, rejects 3 -/
theorem check_not_ignored_counterexample :
    evaluateCheck ['N','O','T',' ','a',' ','>',' ','5'] colA (.int 7) = some true ∧
    eval [.int 7] (.not (.bin .gt a (n 5))) = .ok (.bool false) ∧
    evaluateCheck ['N','O','T',' ','a',' ','>',' ','5'] colA (.int 3) = some false ∧
    eval [.int 3] (.not (.bin .gt a (n 5))) = .ok (.bool true) := ⟨by decide +kernel, rfl, by decide +kernel, rfl⟩

/-- `CHECK ((a < 0 OR a > 10) AND a > 5)` is stored without parentheses as
`a < 0 OR a > 10 AND a > 5` and split at the OR first: accepts -1 -/
theorem check_parens_lost_counterexample :
    evaluateCheck ['a',' ','<',' ','0',' ','O','R',' ','a',' ','>',' ','1','0',' ','A','N','D',' ','a',' ','>',' ','5']
      colA (.int (-1)) = some true ∧
    eval [.int (-1)] (.bin .and (.bin .or (.bin .lt a (n 0)) (.bin .gt a (n 10))) (.bin .gt a (n 5)))
      = .ok (.bool false) := ⟨by decide +kernel, rfl⟩

/-- a CHECK on column `a` that compares with another column (`a < b`) rejects every non-NULL value -/
theorem check_other_column_rejects_counterexample :
    evaluateCheck ['a',' ','<',' ','b'] colA (.int 1) = some false ∧
    eval [.int 1, .int 2] (.bin .lt (.col 0) (.col 1)) = .ok (.bool true) := ⟨by decide +kernel, rfl⟩

/-- an expression that does not mention the column name at all is accepted for every value; the
column name is matched as a substring (`ab > 3` "mentions" `a`) -/
theorem check_substring_counterexample :
    evaluateCheck ['x',' ','>',' ','3'] colA (.int 0) = some true ∧
    evaluateCheck ['a','b',' ','>',' ','3'] colA (.int 0) = some false := ⟨by decide +kernel, by decide +kernel⟩

/-- more than 31 nested parentheses: the evaluator reports an error instead of a verdict -/
theorem check_depth_error :
    evaluateCheck (List.replicate 32 '(' ++ sGt0 ++ List.replicate 32 ')') colA (.int 1) = none ∧
    evaluateCheck (List.replicate 31 '(' ++ sGt0 ++ List.replicate 31 ')') colA (.int 1) = some true :=
  ⟨by decide +kernel, by decide +kernel⟩

end TurVerif.C09.CE
