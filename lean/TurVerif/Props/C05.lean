import TurVerif.Model.SqlDb
import TurVerif.Model.SqlDml
/-!
C05  DML results match a relational reference model.

M-spec part: theorems about the relational state machine `TurVerif.SqlDb` – what each DML
statement does to the bag of rows of its table, what it reports (affected count, RETURNING rows)
and that `SELECT COUNT(*)` always equals the number of rows.  This is the model the differential
engine `sql_dml` compares the real engine with after every statement.

M-code part: the tombstone store of the engine (`TurVerif.SqlDml`: DELETE sets a flag, scans skip
flagged records, COUNT(*) is answered from a header counter; the DELETE / UPDATE / TRUNCATE
statements walk the B-tree *without* skipping tombstones) with the refinement theorems on the
domain where the code is right (`*_partial`: no tombstone matches the statement's predicate) and
machine-checked counterexamples outside it (re-delete, update of a deleted row, truncate count).
-/
namespace TurVerif.C05
open TurVerif.Sql TurVerif.SqlDb
open TurVerif.SqlDml (sel upd)

/-! ### helper lemmas -/

theorem splitRows_ok (whr : Option Expr) :
    ∀ (rows y n : List Row), splitRows whr rows = .ok (y, n) →
      y = rows.filter (sel whr) ∧ n = rows.filter (fun r => !sel whr r) ∧
      ∀ r ∈ rows, ∃ b, optKeeps whr r = .ok b := by
  intro rows
  induction rows with
  | nil => intro y n h; simp [splitRows] at h; simp [h]
  | cons r rs ih =>
    intro y n h
    simp only [splitRows] at h
    split at h
    · rename_i b y' n' hb hrs
      obtain ⟨h1, h2, h3⟩ := ih y' n' hrs
      cases b <;> simp at h <;> obtain ⟨hy, hn⟩ := h <;> subst hy <;> subst hn
      · refine ⟨?_, ?_, ?_⟩
        · simp [sel, hb, h1]
        · simp [sel, hb, h2]
        · intro x hx; rcases List.mem_cons.mp hx with rfl | hx
          · exact ⟨_, hb⟩
          · exact h3 x hx
      · refine ⟨?_, ?_, ?_⟩
        · simp [sel, hb, h1]
        · simp [sel, hb, h2]
        · intro x hx; rcases List.mem_cons.mp hx with rfl | hx
          · exact ⟨_, hb⟩
          · exact h3 x hx
    · simp at h
    · simp at h

theorem splitRows_none (rows : List Row) : splitRows none rows = .ok (rows, []) := by
  induction rows with
  | nil => rfl
  | cons r rs ih => simp [splitRows, optKeeps, ih]

def noFks (s : DbState) : Prop := ∀ t ∈ s.tables, t.fks = []

theorem foldl_noop {β α : Type} (g : β → α → β) (l : List α) (b : β)
    (h : ∀ st t, t ∈ l → g st t = st) : l.foldl g b = b := by
  induction l generalizing b with
  | nil => rfl
  | cons x xs ih =>
    simp only [List.foldl_cons]
    rw [h b x (by simp)]
    exact ih b (fun st t ht => h st t (List.mem_cons_of_mem _ ht))

/-- without foreign keys the referential-action pass of DELETE is the identity -/
theorem cascadeDelete_noFks (fuel : Nat) (s : DbState) (p : String) (gone : List Row)
    (h : noFks s) : cascadeDelete fuel s p gone = s := by
  cases fuel with
  | zero => rfl
  | succ f =>
    unfold cascadeDelete
    apply foldl_noop
    intro st t ht
    rw [h t ht]
    rfl

theorem find_some_name (s : DbState) (tn : String) (t : TableSt) (h : s.find tn = some t) :
    t.name = tn := by
  unfold DbState.find at h
  have := List.find?_some h
  simpa using this

/-- after `put` of a table with the same name, `find` returns the new table -/
theorem find_put (s : DbState) (tn : String) (t t' : TableSt) (h : s.find tn = some t)
    (hn : t'.name = t.name) : (s.put t').find tn = some t' := by
  have hname := find_some_name s tn t h
  unfold DbState.find DbState.put at *
  simp only
  generalize s.tables = l at h
  induction l with
  | nil => simp at h
  | cons x xs ih =>
    rw [List.map_cons]
    by_cases hx : x.name = tn
    · have h1 : (x.name == t'.name) = true := by simp [hx, hn, hname]
      rw [if_pos h1]
      exact List.find?_cons_of_pos (by simp [hn, hname])
    · have h1 : ¬ ((x.name == t'.name) = true) := by simp [hx, hn, hname]
      rw [if_neg h1]
      rw [List.find?_cons_of_neg (by simpa using hx)] at h ⊢
      exact ih h

/-- `put` does not touch tables with another name -/
theorem find_put_other (s : DbState) (tn n : String) (t' : TableSt) (hn : t'.name = tn)
    (hne : n ≠ tn) : (s.put t').find n = s.find n := by
  unfold DbState.find DbState.put
  simp only
  induction s.tables with
  | nil => rfl
  | cons x xs ih =>
    rw [List.map_cons]
    by_cases hx : x.name = t'.name
    · have h1 : (x.name == t'.name) = true := by simpa using hx
      rw [if_pos h1]
      have h2 : ¬ ((t'.name == n) = true) := by rw [hn]; simpa using Ne.symm hne
      have h3 : ¬ ((x.name == n) = true) := by rw [hx, hn]; simpa using Ne.symm hne
      rw [List.find?_cons_of_neg (p := fun (x : TableSt) => x.name == n) h2, List.find?_cons_of_neg (p := fun (x : TableSt) => x.name == n) h3]
      exact ih
    · have h1 : ¬ ((x.name == t'.name) = true) := by simpa using hx
      rw [if_neg h1]
      by_cases hxn : (x.name == n) = true
      · rw [List.find?_cons_of_pos (p := fun (x : TableSt) => x.name == n) hxn, List.find?_cons_of_pos (p := fun (x : TableSt) => x.name == n) hxn]
      · rw [List.find?_cons_of_neg (p := fun (x : TableSt) => x.name == n) hxn, List.find?_cons_of_neg (p := fun (x : TableSt) => x.name == n) hxn]
        exact ih

theorem applyValid_affected (s s' : DbState) (n m : Nat) (ret ret' : List Row)
    (h : (applyValid s s' (.affected n ret)).2 = .affected m ret') :
    applyValid s s' (.affected n ret) = (s', .affected n ret) ∧ m = n ∧ ret' = ret ∧
      dbValid s' = .ok true := by
  unfold applyValid at *
  split at h <;> simp_all

/-! ### property theorems: COUNT(*) -/

/-- `SELECT COUNT(*) FROM tn` as a query of the reference semantics -/
def countQuery (tn : String) : Query :=
  .sel { frm := .table tn, whr := none, grouped := true, keys := [],
         aggs := [⟨.countStar, .lit .null⟩], having := none, items := [.col 0],
         isDistinct := false, order := [], orderOnOutput := false, limit := none, offset := 0 }

/-- `SELECT * FROM tn` -/
def scanQuery (tn : String) (ncols : Nat) : Query :=
  .sel { frm := .table tn, whr := none, grouped := false, keys := [], aggs := [], having := none,
         items := (List.range ncols).map .col,
         isDistinct := false, order := [], orderOnOutput := false, limit := none, offset := 0 }

theorem toDb_find (s : DbState) (tn : String) (t : TableSt) (h : s.find tn = some t) :
    s.toDb.find tn = some { name := t.name, ncols := t.cols.length, rows := t.rows } := by
  unfold DbState.find at h
  unfold DbState.toDb Db.find
  rw [List.find?_map]
  have : ((fun (t : Table) => t.name == tn) ∘
      fun (t : TableSt) => ({ name := t.name, ncols := t.cols.length, rows := t.rows } : Table)) =
      fun (t : TableSt) => t.name == tn := rfl
  rw [this, h]; rfl

/-- COUNT(*) (evaluated by the query semantics over the visible state) equals the number of rows
of the table, in every state -/
theorem count_invariant (s : DbState) (tn : String) (t : TableSt) (h : s.find tn = some t) :
    runQuery s.toDb (countQuery tn) = .ok [[.int t.rows.length]] := by
  simp [runQuery, countQuery, runSelect, evalFrom, toDb_find s tn t h, optFilter, groupStage,
    aggregate, evalAggs, evalAgg, orderBy, attachKeys, evalKeys, projectRows, evalList, eval,
    limitOffset]

/-- … in particular in every state reachable by any history -/
theorem count_invariant_run (s : DbState) (sts : List Stmt) (tn : String) (t : TableSt)
    (h : (run s sts).1.find tn = some t) :
    runQuery (run s sts).1.toDb (countQuery tn) = .ok [[.int t.rows.length]] :=
  count_invariant _ tn t h

theorem evalAgg_countStar (rows : List Row) (e : Expr) :
    evalAgg ⟨.countStar, e⟩ rows = .ok (.int rows.length) := by
  simp [evalAgg]

/-! ### property theorems: DELETE -/

/-- what a successful DELETE reports and does (tables without foreign keys): affected count =
number of rows the predicate selects on the pre-state, RETURNING = those rows (pre-image),
the table keeps exactly the other rows, in order -/
theorem delete_spec (s : DbState) (tn : String) (whr : Option Expr) (n : Nat) (ret : List Row)
    (hf : noFks s) (h : (step s (.delete tn whr)).2 = .affected n ret) :
    ∃ t, s.find tn = some t ∧
      ret = t.rows.filter (sel whr) ∧ n = (t.rows.filter (sel whr)).length ∧
      (step s (.delete tn whr)).1 = s.put { t with rows := t.rows.filter (fun r => !sel whr r) } := by
  simp only [step] at h ⊢
  split at h
  · simp at h
  · rename_i t ht
    split at h
    · simp at h
    · rename_i gone keep hsp
      obtain ⟨hg, hk, _⟩ := splitRows_ok whr t.rows gone keep hsp
      have hns : noFks (s.put { t with rows := keep }) := by
        intro x hx
        simp only [DbState.put, List.mem_map] at hx
        obtain ⟨y, hy, rfl⟩ := hx
        split
        · exact hf t (by
            have := List.find?_some ht
            unfold DbState.find at ht
            exact List.mem_of_find?_eq_some ht)
        · exact hf y hy
      rw [cascadeDelete_noFks _ _ _ _ hns] at h ⊢
      obtain ⟨he, hn, hr, _⟩ := applyValid_affected _ _ _ _ _ _ h
      refine ⟨t, ht, ?_, ?_, ?_⟩
      · rw [hr, hg]
      · rw [hn, hg]
      · rw [he, hk]

/-- after `DELETE … WHERE p` no remaining row satisfies `p` (as evaluated at that time), the
removed rows together with the kept rows are exactly the old rows (as a bag), and every other
table is untouched -/
theorem delete_removes (s : DbState) (tn : String) (whr : Option Expr) (n : Nat) (ret : List Row)
    (hf : noFks s) (h : (step s (.delete tn whr)).2 = .affected n ret) :
    ∃ t t', s.find tn = some t ∧ (step s (.delete tn whr)).1.find tn = some t' ∧
      (∀ r ∈ t'.rows, sel whr r = false) ∧
      (∀ r ∈ ret, sel whr r = true) ∧
      List.Perm (ret ++ t'.rows) t.rows ∧
      n = ret.length ∧
      t.rows.length = n + t'.rows.length ∧
      ∀ m, m ≠ tn → (step s (.delete tn whr)).1.find m = s.find m := by
  obtain ⟨t, ht, hr, hn, hs⟩ := delete_spec s tn whr n ret hf h
  refine ⟨t, { t with rows := t.rows.filter (fun r => !sel whr r) }, ht, ?_, ?_, ?_, ?_, ?_, ?_, ?_⟩
  · rw [hs]; exact find_put s tn t _ ht rfl
  · intro r hr'; simpa using (List.mem_filter.mp hr').2
  · intro r hr'; rw [hr] at hr'; exact (List.mem_filter.mp hr').2
  · rw [hr]; exact List.filter_append_perm _ _
  · rw [hn, hr]
  · rw [hn]
    have := (List.filter_append_perm (sel whr) t.rows).length_eq
    simp only [List.length_append] at this
    dsimp only
    omega
  · intro m hm; rw [hs]; exact find_put_other s tn m _ (find_some_name s tn t ht) hm

/-- deleted rows do not reappear: repeating the same DELETE selects nothing (0 rows affected,
empty RETURNING) and leaves the table's rows as they are -/
theorem redelete_zero (s : DbState) (tn : String) (whr : Option Expr) (n n2 : Nat)
    (ret ret2 : List Row) (hf : noFks s)
    (h : (step s (.delete tn whr)).2 = .affected n ret)
    (hf2 : noFks (step s (.delete tn whr)).1)
    (h2 : (step (step s (.delete tn whr)).1 (.delete tn whr)).2 = .affected n2 ret2) :
    n2 = 0 ∧ ret2 = [] ∧
    ∃ t', (step s (.delete tn whr)).1.find tn = some t' ∧
      ((step (step s (.delete tn whr)).1 (.delete tn whr)).1.find tn).map (·.rows) = some t'.rows := by
  obtain ⟨t, t', ht, ht', hnone, _, _, _, _, _⟩ := delete_removes s tn whr n ret hf h
  obtain ⟨t1, ht1, hr2, hn2, hs2⟩ := delete_spec _ tn whr n2 ret2 hf2 h2
  rw [ht'] at ht1
  cases ht1
  have hempty : t'.rows.filter (sel whr) = [] := by
    apply List.filter_eq_nil_iff.mpr
    intro r hr; simp [hnone r hr]
  have hall : t'.rows.filter (fun r => !sel whr r) = t'.rows := by
    apply List.filter_eq_self.mpr
    intro r hr; simp [hnone r hr]
  refine ⟨by rw [hn2, hempty]; rfl, by rw [hr2, hempty], t', ht', ?_⟩
  rw [hs2, hall, find_put _ tn t' _ ht' (by rfl)]
  rfl

/-! ### property theorems: TRUNCATE -/

/-- TRUNCATE is DELETE without WHERE: same post-state, same affected count (the spec's TRUNCATE
has no RETURNING) -/
theorem truncate_eq_delete_all (s : DbState) (tn : String) (hf : noFks s) :
    (step s (.truncate tn)).1 = (step s (.delete tn none)).1 ∧
    (∀ n ret, (step s (.delete tn none)).2 = .affected n ret →
        (step s (.truncate tn)).2 = .affected n []) ∧
    (∀ e, (step s (.delete tn none)).2 = .err e → (step s (.truncate tn)).2 = .err e) := by
  simp only [step]
  cases ht : s.find tn with
  | none => simp
  | some t =>
    simp only [splitRows_none]
    have hns : noFks (s.put { t with rows := [] }) := by
      intro x hx
      simp only [DbState.put, List.mem_map] at hx
      obtain ⟨y, hy, rfl⟩ := hx
      split
      · exact hf t (by unfold DbState.find at ht; exact List.mem_of_find?_eq_some ht)
      · exact hf y hy
    rw [cascadeDelete_noFks _ _ _ _ hns]
    unfold applyValid
    split <;> simp_all

theorem truncate_empties (s : DbState) (tn : String) (n : Nat) (ret : List Row)
    (h : (step s (.truncate tn)).2 = .affected n ret) :
    ∃ t, s.find tn = some t ∧ n = t.rows.length ∧ ret = [] ∧
      ((step s (.truncate tn)).1.find tn).map (·.rows) = some [] := by
  simp only [step] at h ⊢
  split at h
  · simp at h
  · rename_i t ht
    obtain ⟨he, hn, hr, _⟩ := applyValid_affected _ _ _ _ _ _ h
    refine ⟨t, ht, hn, hr, ?_⟩
    rw [he]
    simp only
    rw [find_put s tn t _ ht (by rfl)]
    rfl

/-! ### property theorems: INSERT -/

theorem buildInsertRows_length (t : TableSt) (cols : List Nat) :
    ∀ (rows : List (List Expr)) (next : Int) (out : List Row) (next' : Int),
      buildInsertRows t cols rows next = .ok (out, next') → out.length = rows.length := by
  intro rows
  induction rows with
  | nil => intro next out next' h; simp [buildInsertRows] at h; simp [h.1]
  | cons es rest ih =>
    intro next out next' h
    simp only [buildInsertRows] at h
    split at h
    · simp at h
    · split at h
      · simp at h
      · rename_i rs n hrest
        simp at h
        obtain ⟨h1, _⟩ := h
        subst h1
        simp [ih _ _ _ hrest]

/-- a successful INSERT appends exactly one new row per VALUES tuple at the end of the table,
keeps every old row, reports that number and returns the new rows (post-image: defaults and
generated AUTO_INCREMENT values filled in) -/
theorem insert_appends (s : DbState) (tn : String) (cols : List Nat) (rows : List (List Expr))
    (n : Nat) (ret : List Row) (h : (step s (.insert tn cols rows)).2 = .affected n ret) :
    ∃ t next, s.find tn = some t ∧
      buildInsertRows t cols rows t.nextAuto = .ok (ret, next) ∧
      n = rows.length ∧ ret.length = rows.length ∧
      (step s (.insert tn cols rows)).1.find tn = some { t with rows := t.rows ++ ret, nextAuto := next } ∧
      ∀ m, m ≠ tn → (step s (.insert tn cols rows)).1.find m = s.find m := by
  simp only [step] at h ⊢
  split at h
  · simp at h
  · rename_i t ht
    split at h
    · simp at h
    · rename_i newRows next hb
      obtain ⟨he, hn, hr, _⟩ := applyValid_affected _ _ _ _ _ _ h
      have hl := buildInsertRows_length t cols rows _ _ _ hb
      subst hr
      refine ⟨t, next, ht, hb, by rw [hn, hl], hl, ?_, ?_⟩
      · rw [he]; exact find_put s tn t _ ht rfl
      · intro m hm; rw [he]; exact find_put_other s tn m _ (find_some_name s tn t ht) hm

/-! ### property theorems: UPDATE -/

theorem updateRows_ok (sets : List (Nat × Expr)) (whr : Option Expr) :
    ∀ (rows all u : List Row), updateRows sets whr rows = .ok (all, u) →
      all = rows.map (fun r => if sel whr r then upd sets r else r) ∧
      u = (rows.filter (sel whr)).map (upd sets) := by
  intro rows
  induction rows with
  | nil => intro all u h; simp [updateRows] at h; simp [h]
  | cons r rs ih =>
    intro all u h
    simp only [updateRows] at h
    split at h
    · rename_i all' u' hb hrs
      obtain ⟨h1, h2⟩ := ih all' u' hrs
      split at h
      · rename_i r' hr'
        simp at h
        obtain ⟨ha, hu⟩ := h
        subst ha; subst hu
        simp [sel, hb, upd, hr', h1, h2]
      · simp at h
    · rename_i all' u' hb hrs
      obtain ⟨h1, h2⟩ := ih all' u' hrs
      simp at h
      obtain ⟨ha, hu⟩ := h
      subst ha; subst hu
      simp [sel, hb, h1, h2]
    · simp at h
    · simp at h

/-- what a successful UPDATE reports and does: affected count = number of rows the predicate
selects on the pre-state; RETURNING = the post-images of exactly those rows; the table has the same
number of rows, the selected ones replaced in place, the others untouched -/
theorem update_spec (s : DbState) (tn : String) (sets : List (Nat × Expr)) (whr : Option Expr)
    (n : Nat) (ret : List Row) (h : (step s (.update tn sets whr)).2 = .affected n ret) :
    ∃ t, s.find tn = some t ∧
      n = (t.rows.filter (sel whr)).length ∧
      ret = (t.rows.filter (sel whr)).map (upd sets) ∧
      (step s (.update tn sets whr)).1.find tn =
        some { t with rows := t.rows.map (fun r => if sel whr r then upd sets r else r) } ∧
      ∀ m, m ≠ tn → (step s (.update tn sets whr)).1.find m = s.find m := by
  simp only [step] at h ⊢
  split at h
  · simp at h
  · rename_i t ht
    split at h
    · simp at h
    · rename_i all u hu
      obtain ⟨h1, h2⟩ := updateRows_ok sets whr t.rows all u hu
      obtain ⟨he, hn, hr, _⟩ := applyValid_affected _ _ _ _ _ _ h
      refine ⟨t, ht, ?_, ?_, ?_, ?_⟩
      · rw [hn, h2]; simp
      · rw [hr, h2]
      · rw [he, ← h1]; exact find_put s tn t _ ht rfl
      · intro m hm; rw [he]; exact find_put_other s tn m _ (find_some_name s tn t ht) hm

/-- an UPDATE that selects zero rows reports 0 and leaves every table's rows exactly as they
were (it is the identity on the visible state) -/
theorem update_zero_identity (s : DbState) (tn : String) (sets : List (Nat × Expr))
    (whr : Option Expr) (n : Nat) (ret : List Row)
    (h : (step s (.update tn sets whr)).2 = .affected n ret)
    (hz : ∀ t, s.find tn = some t → ∀ r ∈ t.rows, sel whr r = false) :
    n = 0 ∧ ret = [] ∧
    ∀ m, ((step s (.update tn sets whr)).1.find m).map (·.rows) = (s.find m).map (·.rows) := by
  obtain ⟨t, ht, hn, hr, hs, ho⟩ := update_spec s tn sets whr n ret h
  have hempty : t.rows.filter (sel whr) = [] := by
    apply List.filter_eq_nil_iff.mpr
    intro r hr'; simp [hz t ht r hr']
  refine ⟨by rw [hn, hempty]; rfl, by rw [hr, hempty]; rfl, ?_⟩
  intro m
  by_cases hm : m = tn
  · subst hm
    rw [hs, ht]
    simp only [Option.map_some, Option.some.injEq]
    conv => rhs; rw [← List.map_id t.rows]
    apply List.map_congr_left
    intro r hr'; simp [hz t ht r hr']
  · rw [ho m hm]

/-! ### M-code: tombstone store -/
open TurVerif.SqlDml

/-- a complete (error-free) INSERT loop appends the rows and raises the header by their number -/
theorem insertLoop_ok (ok : List Row → Row → Bool) (st : TStore) (rows : List Row)
    (h : (insertLoop ok st rows).2 = none) :
    visible (insertLoop ok st rows).1 = visible st ++ rows ∧
    (insertLoop ok st rows).1.rowCount = st.rowCount + rows.length := by
  unfold insertLoop at *
  suffices H : ∀ (rows : List Row) (cur : TStore) (i : Nat),
      (insertLoop.go ok st.rowCount cur i rows).2 = none →
      visible (insertLoop.go ok st.rowCount cur i rows).1 = visible cur ++ rows ∧
      (insertLoop.go ok st.rowCount cur i rows).1.rowCount = st.rowCount + i + rows.length by
    simpa using H rows st 0 h
  intro rows
  induction rows with
  | nil => intro cur i _; simp [insertLoop.go, visible]
  | cons r rest ih =>
    intro cur i h
    simp only [insertLoop.go] at h ⊢
    split at h
    · rename_i hok
      simp only [hok, if_true]
      obtain ⟨h1, h2⟩ := ih _ (i + 1) h
      refine ⟨by rw [h1, visible_push]; simp, by rw [h2]; simp; omega⟩
    · simp at h

/-- the COUNT(*) header invariant is preserved by a complete INSERT -/
theorem insertLoop_count (ok : List Row → Row → Bool) (st : TStore) (rows : List Row)
    (hc : countOk st) (h : (insertLoop ok st rows).2 = none) :
    countOk (insertLoop ok st rows).1 := by
  obtain ⟨h1, h2⟩ := insertLoop_ok ok st rows h
  unfold countOk at *
  rw [h1, h2, hc]; simp

/-- no tombstone satisfies the predicate -/
def noDeadMatch (p : Row → Bool) (st : TStore) : Prop := ∀ sl ∈ st.slots, sl.dead = true → p sl.row = false

/-- `_partial`: DELETE through the tombstone store refines the relational DELETE (visible rows =
old visible rows minus the selected ones, affected = number of visible rows selected, header
invariant preserved) PROVIDED no tombstone matches the predicate.  Full statement (false of the
code, see `redelete_counterexample`): the same without `hd`. -/
theorem tombstone_delete_refines_partial (p : Row → Bool) (st : TStore)
    (hd : noDeadMatch p st) (hc : countOk st) :
    visible (deleteWhere p st).1 = (visible st).filter (fun r => !p r) ∧
    (deleteWhere p st).2 = ((visible st).filter p).length ∧
    countOk (deleteWhere p st).1 := by
  have hv : visible (deleteWhere p st).1 = (visible st).filter (fun r => !p r) := by
    unfold deleteWhere visible
    simp only
    generalize st.slots = l at hd
    induction l with
    | nil => simp
    | cons x xs ih =>
      have ih' := ih
      simp only [List.map_cons, List.filter_cons]
      cases hdx : x.dead <;> cases hpx : p x.row <;> simp [hdx, hpx, ih']
  have hn : (deleteWhere p st).2 = ((visible st).filter p).length := by
    unfold deleteWhere visible noDeadMatch at *
    simp only
    generalize st.slots = l at hd
    induction l with
    | nil => simp
    | cons x xs ih =>
      have ih' := ih (fun sl hsl => hd sl (List.mem_cons_of_mem _ hsl))
      have hx := hd x (by simp)
      simp only [List.filter_cons]
      cases hdx : x.dead <;> cases hpx : p x.row <;> simp_all
  refine ⟨hv, hn, ?_⟩
  unfold countOk at *
  rw [hv]
  have hrc : (deleteWhere p st).1.rowCount = st.rowCount - (deleteWhere p st).2 := rfl
  rw [hrc, hn, hc]
  have := (List.filter_append_perm p (visible st)).length_eq
  simp only [List.length_append] at this
  omega

/-- COUNTEREXAMPLE (confirmed on the real code, finding C05-redelete): the DELETE scan does not
skip tombstones.  Two rows, `DELETE` of the first one twice: the second DELETE reports 1 affected
row although no visible row matches, and the header count drops to 0 while one row is visible. -/
theorem redelete_counterexample :
    let p := fun (r : Row) => r.head? == some (.int 1)
    let st0 : TStore := { slots := [{ row := [.int 1] }, { row := [.int 2] }], rowCount := 2 }
    let st1 := (deleteWhere p st0).1
    let st2 := (deleteWhere p st1).1
    countOk st1 ∧ (deleteWhere p st1).2 = 1 ∧ ((visible st1).filter p).length = 0 ∧
    visible st2 = [[.int 2]] ∧ countStar st2 = 0 := by
  decide

/-- `_partial`: UPDATE through the store refines the relational UPDATE provided no tombstone
matches the predicate -/
theorem tombstone_update_refines_partial (p : Row → Bool) (f : Row → Row) (st : TStore)
    (hd : noDeadMatch p st) :
    visible (updateWhere p f st).1 = (visible st).map (fun r => if p r then f r else r) ∧
    (updateWhere p f st).2 = ((visible st).filter p).length ∧
    (updateWhere p f st).1.rowCount = st.rowCount := by
  refine ⟨?_, ?_, rfl⟩
  · unfold updateWhere visible noDeadMatch at *
    simp only
    generalize st.slots = l at hd
    induction l with
    | nil => simp
    | cons x xs ih =>
      have ih' := ih (fun sl hsl => hd sl (List.mem_cons_of_mem _ hsl))
      have hx := hd x (by simp)
      simp only [List.map_cons, List.filter_cons]
      cases hdx : x.dead <;> cases hpx : p x.row <;> simp_all
  · unfold updateWhere visible noDeadMatch at *
    simp only
    generalize st.slots = l at hd
    induction l with
    | nil => simp
    | cons x xs ih =>
      have ih' := ih (fun sl hsl => hd sl (List.mem_cons_of_mem _ hsl))
      have hx := hd x (by simp)
      simp only [List.filter_cons]
      cases hdx : x.dead <;> cases hpx : p x.row <;> simp_all

/-- COUNTEREXAMPLE (confirmed on the real code, finding C05-update-resurrects): the UPDATE scan
does not skip tombstones and writes a fresh live record: a deleted row reappears, the statement
reports it as affected, and the header count is now too small. -/
theorem update_resurrects_counterexample :
    let p := fun (r : Row) => r.head? == some (.int 1)
    let f := fun (_ : Row) => ([.int 1, .int 99] : Row)
    let st0 : TStore := { slots := [{ row := [.int 1, .int 5] }, { row := [.int 2, .int 6] }], rowCount := 2 }
    let st1 := (deleteWhere p st0).1
    visible st1 = [[.int 2, .int 6]] ∧
    (updateWhere p f st1).2 = 1 ∧
    visible (updateWhere p f st1).1 = [[.int 1, .int 99], [.int 2, .int 6]] ∧
    countStar (updateWhere p f st1).1 = 1 := by
  decide

/-- TRUNCATE empties the store and resets the header; its reported count is the number of
B-tree keys, i.e. it includes tombstones -/
theorem truncate_refines (st : TStore) :
    visible (truncate st).1 = [] ∧ countOk (truncate st).1 ∧ (truncate st).2 = st.slots.length := by
  simp [truncate, visible, countOk]

theorem truncate_count_partial (st : TStore) (h : ∀ sl ∈ st.slots, sl.dead = false) :
    (truncate st).2 = (visible st).length := by
  simp only [truncate, visible, List.length_map]
  rw [List.filter_eq_self.mpr]
  intro sl hsl; simp [h sl hsl]

theorem truncate_count_counterexample :
    let p := fun (r : Row) => r.head? == some (.int 1)
    let st0 : TStore := { slots := [{ row := [.int 1] }, { row := [.int 2] }], rowCount := 2 }
    let st1 := (deleteWhere p st0).1
    (visible st1).length = 1 ∧ (truncate st1).2 = 2 := by
  decide

/-! ### M-code: DEFAULT handling and SET evaluation order of the engine -/

/-- `apply_defaults` leaves rows without NULLs in defaulted columns alone -/
theorem applyDefaults_partial (t : TableSt) (r : Row) (hl : r.length = t.cols.length)
    (h : ∀ vc ∈ r.zip t.cols, vc.1.isNull = true → vc.2.dflt.isNull = true) :
    applyDefaults t r = r := by
  unfold applyDefaults
  have : (r.zip t.cols).map (fun (vc : Val × ColDef) =>
      if vc.1.isNull && !vc.2.dflt.isNull then vc.2.dflt else vc.1) = (r.zip t.cols).map (·.1) := by
    apply List.map_congr_left
    intro vc hvc
    cases hn : vc.1.isNull
    · simp
    · simp [h vc hvc hn]
  rw [this, List.map_fst_zip]
  omega

/-- COUNTEREXAMPLE (confirmed on the real code, finding C05-explicit-null-default): an explicit
NULL written to a column with DEFAULT 'dd' is stored as 'dd' -/
theorem explicit_null_default_counterexample :
    let t : TableSt := { name := "t", cols := [{ name := "id" }, { name := "b", dflt := .text "dd" }] }
    applyDefaults t [.int 1, .null] = [.int 1, .text "dd"] ∧
    applyDefaults t [.int 1, .null] ≠ [.int 1, .null] := by
  decide

/-- when every assignment is a constant, or every assignment mentions a column, the engine's
evaluation order cannot be observed on these inputs: decided instances used as non-vacuity
witnesses for the harness's `mixedset` tag -/
theorem set_order_agrees_examples :
    SqlDml.updM [(1, .lit (.int 7)), (4, .lit (.int 3))] [.int 1, .int 10, .null, .null, .int 1]
      = upd [(1, .lit (.int 7)), (4, .lit (.int 3))] [.int 1, .int 10, .null, .null, .int 1] ∧
    SqlDml.updM [(1, .bin .add (.col 1) (.lit (.int 1))), (4, .col 1)] [.int 1, .int 10, .null, .null, .int 1]
      = upd [(1, .bin .add (.col 1) (.lit (.int 1))), (4, .col 1)] [.int 1, .int 10, .null, .null, .int 1] := by
  decide

/-- COUNTEREXAMPLE (confirmed on the real code, finding C05-update-set-order):
`UPDATE t SET a = 7, c = a + 1` on a row with a = 10 stores c = 8 (from the new a); the reference
semantics evaluates every SET expression on the old row and stores c = 11 -/
theorem set_order_counterexample :
    let sets : List (Nat × Expr) := [(1, .lit (.int 7)), (4, .bin .add (.col 1) (.lit (.int 1)))]
    let r : Row := [.int 1, .int 10, .null, .null, .int 1]
    SqlDml.updM sets r = [.int 1, .int 7, .null, .null, .int 8] ∧
    upd sets r = [.int 1, .int 7, .null, .null, .int 11] := by
  decide

end TurVerif.C05
