import TurVerif.Model.RowSerde
import TurVerif.Model.SubSpill
import TurVerif.Lemmas.RowSerde
/-!
C33  Spilled rows round-trip through the spill format.
Theorems about the M-code model `TurVerif.RowSerde` (src/sql/row_serde.rs + the sequential reader
of src/sql/partition_spiller.rs) and `TurVerif.SubSpill` (src/sql/subquery/spill.rs).
-/
namespace TurVerif.C33
open TurVerif.RowSerde

/-! ### serialise → deserialise, one value (helper lemmas) -/

theorem float_cur (f : Nat) (hf : f < 256 ^ 8) (p rest : List Nat) :
    deserializeValue (p ++ (serializeFloat .cur f ++ rest)) p.length
      = .ok (norm .cur (.float f)) (p.length + floatSize .cur f) := by
  generalize hdata : p ++ (serializeFloat .cur f ++ rest) = data
  have hq : ∀ d, p.length + 1 = (p ++ [d]).length := by simp
  simp only [serializeFloat] at hdata
  by_cases h1 : isNan f = true
  · rw [if_pos h1] at hdata
    rw [dv_step data p rest 0x19 (by subst hdata; simp), body_nan]
    simp [norm, floatSize, h1]
  rw [if_neg h1] at hdata
  have h1' := h1
  rw [isNan_iff] at h1'
  by_cases h2 : f = F64_NEG_INF
  · rw [if_pos h2] at hdata
    rw [dv_step data p rest 0x10 (by subst hdata; simp), body_neginf]
    have hz : ¬ fEqZero f = true := by rw [fEqZero_iff]; simp only [F64_NEG_INF] at h2; omega
    subst h2; simp [norm, floatSize]; decide
  rw [if_neg h2] at hdata
  by_cases h3 : f = F64_INF
  · rw [if_pos h3] at hdata
    rw [dv_step data p rest 0x18 (by subst hdata; simp), body_posinf]
    have hz : ¬ fEqZero f = true := by rw [fEqZero_iff]; simp only [F64_INF] at h3; omega
    subst h3; simp [norm, floatSize]; decide
  rw [if_neg h3] at hdata
  by_cases h4 : fLtZero f = true
  · rw [if_pos h4] at hdata
    have hz : ¬ fEqZero f = true := by
      rw [fLtZero_iff] at h4; rw [fEqZero_iff]; omega
    rw [dv_step data p (beBytes 8 f ++ rest) 0x13 (by subst hdata; simp), hq,
      body_negfloat data (p ++ [0x13]) (beBytes 8 f) rest (by subst hdata; simp) (beBytes_length 8 f),
      beVal_beBytes 8 f hf]
    simp [norm, floatSize, h1, h2, h3, hz]
  rw [if_neg h4] at hdata
  by_cases h5 : fEqZero f = true
  · rw [if_pos h5] at hdata
    rw [dv_step data p rest 0x14 (by subst hdata; simp), body_zero]
    simp [norm, floatSize, h1, h5]
  · rw [if_neg h5] at hdata
    rw [dv_step data p (beBytes 8 f ++ rest) 0x15 (by subst hdata; simp), hq,
      body_posfloat data (p ++ [0x15]) (beBytes 8 f) rest (by subst hdata; simp) (beBytes_length 8 f),
      beVal_beBytes 8 f hf]
    simp [norm, floatSize, h1, h2, h3, h5]

theorem float_fix (f : Nat) (hf : f < 256 ^ 8) (p rest : List Nat) :
    deserializeValue (p ++ (serializeFloat .fix f ++ rest)) p.length
      = .ok (norm .fix (.float f)) (p.length + floatSize .fix f) := by
  generalize hdata : p ++ (serializeFloat .fix f ++ rest) = data
  have hq : ∀ d, p.length + 1 = (p ++ [d]).length := by simp
  simp only [serializeFloat] at hdata
  by_cases h1 : isNan f = true
  · rw [if_pos h1] at hdata
    rw [dv_step data p rest 0x19 (by subst hdata; simp), body_nan]
    simp [norm, floatSize, h1]
  rw [if_neg h1] at hdata
  by_cases h2 : f = F64_NEG_INF
  · rw [if_pos h2] at hdata
    rw [dv_step data p rest 0x10 (by subst hdata; simp), body_neginf]
    subst h2; simp [norm, floatSize]; decide
  rw [if_neg h2] at hdata
  by_cases h3 : f = F64_INF
  · rw [if_pos h3] at hdata
    rw [dv_step data p rest 0x18 (by subst hdata; simp), body_posinf]
    subst h3; simp [norm, floatSize]; decide
  rw [if_neg h3] at hdata
  by_cases h4 : F64_NEG_ZERO ≤ f
  · rw [if_pos h4] at hdata
    rw [dv_step data p (beBytes 8 f ++ rest) 0x13 (by subst hdata; simp), hq,
      body_negfloat data (p ++ [0x13]) (beBytes 8 f) rest (by subst hdata; simp) (beBytes_length 8 f),
      beVal_beBytes 8 f hf]
    simp [norm, floatSize, h1, h2, h3]
  · rw [if_neg h4] at hdata
    rw [dv_step data p (beBytes 8 f ++ rest) 0x15 (by subst hdata; simp), hq,
      body_posfloat data (p ++ [0x15]) (beBytes 8 f) rest (by subst hdata; simp) (beBytes_length 8 f),
      beVal_beBytes 8 f hf]
    simp [norm, floatSize, h1, h2, h3]

/-- serialise → deserialise of one value, embedded anywhere in a buffer: the result is `norm v`
and the offset advances by exactly `valueSize v`. -/
theorem value_roundtrip (var : Variant) (v : Value) (hwf : v.WF) (p rest : List Nat) :
    deserializeValue (p ++ (serializeValue var v ++ rest)) p.length
      = .ok (norm var v) (p.length + valueSize var v) := by
  have hq : ∀ d, p.length + 1 = (p ++ [d]).length := by simp
  have hu32 : ∀ n, n < 4294967296 → beVal (beBytes 4 (u32 n)) = n := by
    intro n hn
    rw [beVal_beBytes 4 _ (by unfold u32; omega)]
    unfold u32; omega
  cases v with
  | null =>
    generalize hdata : p ++ (serializeValue var .null ++ rest) = data
    rw [dv_step data p rest 0x01 (by subst hdata; simp [serializeValue]), body_null]
    simp [norm, valueSize]
  | int i =>
    generalize hdata : p ++ (serializeValue var (.int i) ++ rest) = data
    simp only [serializeValue] at hdata
    simp only [Value.WF] at hwf
    by_cases h1 : I64_SIGN ≤ i
    · rw [if_pos h1] at hdata
      rw [dv_step data p (beBytes 8 i ++ rest) 0x12 (by subst hdata; simp), hq,
        body_negint data (p ++ [0x12]) (beBytes 8 i) rest (by subst hdata; simp) (beBytes_length 8 i),
        beVal_beBytes 8 i hwf]
      have : i ≠ 0 := by simp only [I64_SIGN] at h1; omega
      simp [norm, valueSize, this]
    rw [if_neg h1] at hdata
    by_cases h2 : i = 0
    · rw [if_pos h2] at hdata
      rw [dv_step data p rest 0x14 (by subst hdata; simp), body_zero]
      simp [norm, valueSize, h2]
    · rw [if_neg h2] at hdata
      rw [dv_step data p (beBytes 8 i ++ rest) 0x16 (by subst hdata; simp), hq,
        body_posint data (p ++ [0x16]) (beBytes 8 i) rest (by subst hdata; simp) (beBytes_length 8 i),
        beVal_beBytes 8 i hwf]
      simp [norm, valueSize, h2]
  | float f =>
    simp only [Value.WF] at hwf
    cases var with
    | cur => exact float_cur f hwf p rest
    | fix => exact float_fix f hwf p rest
  | text s =>
    generalize hdata : p ++ (serializeValue var (.text s) ++ rest) = data
    simp only [serializeValue] at hdata
    simp only [Value.WF] at hwf
    rw [dv_step data p _ 0x20 (by subst hdata; simp; rfl), hq,
      body_text data (p ++ [0x20]) (beBytes 4 (u32 s.length)) s rest (by subst hdata; simp)
        (beBytes_length _ _) (hu32 _ hwf.1) hwf.2]
    simp [norm, valueSize] <;> omega
  | blob s =>
    generalize hdata : p ++ (serializeValue var (.blob s) ++ rest) = data
    simp only [serializeValue] at hdata
    simp only [Value.WF] at hwf
    rw [dv_step data p _ 0x21 (by subst hdata; simp; rfl), hq,
      body_blob data (p ++ [0x21]) (beBytes 4 (u32 s.length)) s rest (by subst hdata; simp)
        (beBytes_length _ _) (hu32 _ hwf)]
    simp [norm, valueSize] <;> omega
  | jsonb s =>
    generalize hdata : p ++ (serializeValue var (.jsonb s) ++ rest) = data
    simp only [serializeValue] at hdata
    simp only [Value.WF] at hwf
    rw [dv_step data p _ 0x50 (by subst hdata; simp; rfl), hq,
      body_jsonb data (p ++ [0x50]) (beBytes 4 (u32 s.length)) s rest (by subst hdata; simp)
        (beBytes_length _ _) (hu32 _ hwf)]
    simp [norm, valueSize] <;> omega
  | toast s =>
    generalize hdata : p ++ (serializeValue var (.toast s) ++ rest) = data
    simp only [serializeValue] at hdata
    simp only [Value.WF] at hwf
    rw [dv_step data p _ 0x84 (by subst hdata; simp; rfl), hq,
      body_toast data (p ++ [0x84]) (beBytes 4 (u32 s.length)) s rest (by subst hdata; simp)
        (beBytes_length _ _) (hu32 _ hwf)]
    simp [norm, valueSize] <;> omega
  | vector v =>
    generalize hdata : p ++ (serializeValue var (.vector v) ++ rest) = data
    simp only [serializeValue] at hdata
    simp only [Value.WF] at hwf
    rw [dv_step data p _ 0x70 (by subst hdata; simp; rfl), hq,
      body_vector data (p ++ [0x70]) (beBytes 4 (u32 v.length)) rest v (by subst hdata; simp)
        (beBytes_length _ _) (hu32 _ hwf.1) hwf.2]
    simp [norm, valueSize] <;> omega
  | uuid b =>
    generalize hdata : p ++ (serializeValue var (.uuid b) ++ rest) = data
    simp only [serializeValue] at hdata
    simp only [Value.WF] at hwf
    rw [dv_step data p _ 0x40 (by subst hdata; simp; rfl), hq,
      body_uuid data (p ++ [0x40]) b rest (by subst hdata; simp) hwf]
    simp [norm, valueSize] <;> omega
  | macaddr b =>
    generalize hdata : p ++ (serializeValue var (.macaddr b) ++ rest) = data
    simp only [serializeValue] at hdata
    simp only [Value.WF] at hwf
    rw [dv_step data p _ 0x43 (by subst hdata; simp; rfl), hq,
      body_macaddr data (p ++ [0x43]) b rest (by subst hdata; simp) hwf]
    simp [norm, valueSize] <;> omega
  | inet4 b =>
    generalize hdata : p ++ (serializeValue var (.inet4 b) ++ rest) = data
    simp only [serializeValue] at hdata
    simp only [Value.WF] at hwf
    rw [dv_step data p _ 0x41 (by subst hdata; simp; rfl), hq,
      body_inet4 data (p ++ [0x41]) b rest (by subst hdata; simp) hwf]
    simp [norm, valueSize] <;> omega
  | inet6 b =>
    generalize hdata : p ++ (serializeValue var (.inet6 b) ++ rest) = data
    simp only [serializeValue] at hdata
    simp only [Value.WF] at hwf
    rw [dv_step data p _ 0x42 (by subst hdata; simp; rfl), hq,
      body_inet6 data (p ++ [0x42]) b rest (by subst hdata; simp) hwf]
    simp [norm, valueSize] <;> omega
  | timestamptz m o =>
    generalize hdata : p ++ (serializeValue var (.timestamptz m o) ++ rest) = data
    simp only [serializeValue] at hdata
    simp only [Value.WF] at hwf
    rw [dv_step data p _ 0x33 (by subst hdata; simp; rfl), hq,
      body_timestamptz data (p ++ [0x33]) (beBytes 8 m) (beBytes 4 o) rest (by subst hdata; simp)
        (beBytes_length _ _) (beBytes_length _ _),
      beVal_beBytes 8 m hwf.1, beVal_beBytes 4 o hwf.2]
    simp [norm, valueSize] <;> omega
  | interval m d mo =>
    generalize hdata : p ++ (serializeValue var (.interval m d mo) ++ rest) = data
    simp only [serializeValue] at hdata
    simp only [Value.WF] at hwf
    rw [dv_step data p _ 0x34 (by subst hdata; simp; rfl), hq,
      body_interval data (p ++ [0x34]) (beBytes 8 m) (beBytes 4 d) (beBytes 4 mo) rest
        (by subst hdata; simp) (beBytes_length _ _) (beBytes_length _ _) (beBytes_length _ _),
      beVal_beBytes 8 m hwf.1, beVal_beBytes 4 d hwf.2.1, beVal_beBytes 4 mo hwf.2.2]
    simp [norm, valueSize] <;> omega
  | point x y =>
    generalize hdata : p ++ (serializeValue var (.point x y) ++ rest) = data
    simp only [serializeValue] at hdata
    simp only [Value.WF] at hwf
    rw [dv_step data p _ 0x80 (by subst hdata; simp; rfl), hq,
      body_point data (p ++ [0x80]) (beBytes 8 x) (beBytes 8 y) rest (by subst hdata; simp)
        (beBytes_length _ _) (beBytes_length _ _),
      beVal_beBytes 8 x hwf.1, beVal_beBytes 8 y hwf.2]
    simp [norm, valueSize] <;> omega
  | geobox a b c d =>
    generalize hdata : p ++ (serializeValue var (.geobox a b c d) ++ rest) = data
    simp only [serializeValue] at hdata
    simp only [Value.WF] at hwf
    rw [dv_step data p _ 0x81 (by subst hdata; simp; rfl), hq,
      body_geobox data (p ++ [0x81]) (beBytes 8 a) (beBytes 8 b) (beBytes 8 c) (beBytes 8 d) rest
        (by subst hdata; simp) (beBytes_length _ _) (beBytes_length _ _) (beBytes_length _ _)
        (beBytes_length _ _),
      beVal_beBytes 8 a hwf.1, beVal_beBytes 8 b hwf.2.1, beVal_beBytes 8 c hwf.2.2.1,
      beVal_beBytes 8 d hwf.2.2.2]
    simp [norm, valueSize] <;> omega
  | circle a b r =>
    generalize hdata : p ++ (serializeValue var (.circle a b r) ++ rest) = data
    simp only [serializeValue] at hdata
    simp only [Value.WF] at hwf
    rw [dv_step data p _ 0x82 (by subst hdata; simp; rfl), hq,
      body_circle data (p ++ [0x82]) (beBytes 8 a) (beBytes 8 b) (beBytes 8 r) rest
        (by subst hdata; simp) (beBytes_length _ _) (beBytes_length _ _) (beBytes_length _ _),
      beVal_beBytes 8 a hwf.1, beVal_beBytes 8 b hwf.2.1, beVal_beBytes 8 r hwf.2.2]
    simp [norm, valueSize] <;> omega
  | enum t o =>
    generalize hdata : p ++ (serializeValue var (.enum t o) ++ rest) = data
    simp only [serializeValue] at hdata
    simp only [Value.WF] at hwf
    rw [dv_step data p _ 0x63 (by subst hdata; simp; rfl), hq,
      body_enum data (p ++ [0x63]) (beBytes 2 t) (beBytes 2 o) rest (by subst hdata; simp)
        (beBytes_length _ _) (beBytes_length _ _),
      beVal_beBytes 2 t hwf.1, beVal_beBytes 2 o hwf.2]
    simp [norm, valueSize] <;> omega
  | decimal d sc =>
    generalize hdata : p ++ (serializeValue var (.decimal d sc) ++ rest) = data
    simp only [serializeValue] at hdata
    simp only [Value.WF] at hwf
    rw [dv_step data p _ 0x83 (by subst hdata; simp; rfl), hq,
      body_decimal data (p ++ [0x83]) (beBytes 16 d) (beBytes 2 sc) rest (by subst hdata; simp)
        (beBytes_length _ _) (beBytes_length _ _),
      beVal_beBytes 16 d hwf.1, beVal_beBytes 2 sc hwf.2]
    simp [norm, valueSize] <;> omega

theorem float_size_eq (var : Variant) (f : Nat) :
    (serializeFloat var f).length = floatSize var f := by
  cases var
  · simp only [serializeFloat, floatSize]
    by_cases h1 : isNan f = true
    · simp [h1]
    by_cases h2 : f = F64_NEG_INF
    · subst h2; simp; decide
    by_cases h3 : f = F64_INF
    · subst h3; simp; decide
    by_cases h4 : fLtZero f = true
    · have hz : ¬ fEqZero f = true := by rw [fLtZero_iff] at h4; rw [fEqZero_iff]; omega
      simp [h1, h2, h3, h4, hz, beBytes_length]
    by_cases h5 : fEqZero f = true
    · simp [h1, h2, h3, h4, h5]
    · simp [h1, h2, h3, h4, h5, beBytes_length]
  · simp only [serializeFloat, floatSize]
    by_cases h1 : isNan f = true
    · simp [h1]
    by_cases h2 : f = F64_NEG_INF
    · subst h2; simp; decide
    by_cases h3 : f = F64_INF
    · subst h3; simp; decide
    by_cases h4 : F64_NEG_ZERO ≤ f
    · simp [h1, h2, h3, h4, beBytes_length]
    · simp [h1, h2, h3, h4, beBytes_length]

/-- fixed-size arrays have their size (the only part of `WF` the size computation needs) -/
def Shape : Value → Prop
  | .uuid b => b.length = 16
  | .macaddr b => b.length = 6
  | .inet4 b => b.length = 4
  | .inet6 b => b.length = 16
  | _ => True

theorem shape_of_wf (v : Value) (h : v.WF) : Shape v := by
  cases v <;> simp_all [Shape, Value.WF]

theorem value_size_eq (var : Variant) (v : Value) (hs : Shape v) :
    (serializeValue var v).length = valueSize var v := by
  cases v with
  | float f => simpa [serializeValue, valueSize] using float_size_eq var f
  | int i =>
    simp only [serializeValue, valueSize]
    by_cases h1 : I64_SIGN ≤ i
    · have : i ≠ 0 := by simp only [I64_SIGN] at h1; omega
      simp [h1, this, beBytes_length]
    · by_cases h2 : i = 0 <;> simp [h1, h2, beBytes_length]
  | vector v =>
    simp only [serializeValue, valueSize, List.length_cons, List.length_append, beBytes_length,
      flatMap_beBytes4_length]; omega
  | uuid b => simp only [Shape] at hs; simp [serializeValue, valueSize, hs]
  | macaddr b => simp only [Shape] at hs; simp [serializeValue, valueSize, hs]
  | inet4 b => simp only [Shape] at hs; simp [serializeValue, valueSize, hs]
  | inet6 b => simp only [Shape] at hs; simp [serializeValue, valueSize, hs]
  | _ => simp [serializeValue, valueSize, beBytes_length] <;> omega

theorem values_size_eq (var : Variant) (vs : List Value) (hs : ∀ v ∈ vs, Shape v) :
    (serializeValues var vs).length = valuesSize var vs := by
  induction vs with
  | nil => simp [serializeValues, valuesSize]
  | cons v vs ih =>
    simp [serializeValues, valuesSize, value_size_eq var v (hs v (by simp)),
      ih (fun w hw => hs w (by simp [hw]))]

theorem values_roundtrip (var : Variant) (vs : List Value) (hwf : ∀ v ∈ vs, v.WF) :
    ∀ (p rest : List Nat) (acc : List Value),
      deserializeValues (p ++ (serializeValues var vs ++ rest)) vs.length p.length acc
        = .ok (acc.reverse ++ vs.map (norm var)) (p.length + valuesSize var vs) := by
  induction vs with
  | nil => intro p rest acc; simp [deserializeValues, valuesSize, serializeValues]
  | cons v vs ih =>
    intro p rest acc
    have hv : v.WF := hwf v (by simp)
    have hvs : ∀ w ∈ vs, w.WF := fun w hw => hwf w (by simp [hw])
    have h1 := value_roundtrip var v hv p (serializeValues var vs ++ rest)
    have h2 := ih hvs (p ++ serializeValue var v) rest (norm var v :: acc)
    rw [List.length_append, value_size_eq var v (shape_of_wf v hv)] at h2
    simp only [List.append_assoc] at h2
    simp only [serializeValues, List.length_cons, deserializeValues, List.append_assoc, h1, h2]
    simp [valuesSize]; omega

/-! ### property theorems -/

/-- SIZE: the computed size equals the number of bytes written (rows whose fixed-size arrays have
their size, which the Rust types guarantee). -/
theorem size_eq (var : Variant) (row : List Value) (hs : ∀ v ∈ row, Shape v) :
    (serializeRow var row).length = rowSize var row := by
  simp [serializeRow, rowSize, beBytes_length, values_size_eq var row hs]

/-- ROUND TRIP, exact characterisation (both variants): a well-formed row, serialised anywhere in
a buffer, deserialises to `row.map norm` and the offset advances by exactly `rowSize`. -/
theorem roundtrip_norm (var : Variant) (row : List Value) (hwf : RowWF row) (p rest : List Nat) :
    deserializeRow (p ++ (serializeRow var row ++ rest)) p.length
      = .ok (row.map (norm var)) (p.length + rowSize var row) := by
  generalize hdata : p ++ (serializeRow var row ++ rest) = data
  have hd : data = p ++ (beBytes 2 (u16 row.length) ++ (serializeValues var row ++ rest)) := by
    subst hdata; simp [serializeRow]
  have hlen : ¬ data.length < p.length + 2 := by
    rw [hd]; simp [beBytes_length]
  have hcnt : beVal (beBytes 2 (u16 row.length)) = row.length := by
    rw [beVal_beBytes 2 _ (by unfold u16; omega)]; unfold u16; have := hwf.1; omega
  have hd2 : data = (p ++ beBytes 2 (u16 row.length)) ++ (serializeValues var row ++ rest) := by
    rw [hd]; simp
  have hv := values_roundtrip var row hwf.2 (p ++ beBytes 2 (u16 row.length)) rest []
  rw [← hd2, List.length_append, beBytes_length] at hv
  simp [deserializeRow, hlen, hcnt, hv, rowSize,
    rd_at data p.length 2 p (beBytes 2 (u16 row.length)) _ hd rfl (beBytes_length _ _).symm]
  omega

/-- the buffer produced by appending the serialisations of `rows` -/
def serializeRows (var : Variant) : List (List Value) → List Nat
  | [] => []
  | r :: rs => serializeRow var r ++ serializeRows var rs

def rowsSize (var : Variant) : List (List Value) → Nat
  | [] => 0
  | r :: rs => rowSize var r + rowsSize var rs

theorem rows_roundtrip (var : Variant) (rows : List (List Value)) (hwf : ∀ r ∈ rows, RowWF r) :
    ∀ (p rest : List Nat) (acc : List (List Value)),
      deserializeRows (p ++ (serializeRows var rows ++ rest)) rows.length p.length acc
        = .ok (acc.reverse ++ rows.map (fun r => r.map (norm var))) (p.length + rowsSize var rows) := by
  induction rows with
  | nil => intro p rest acc; simp [deserializeRows, rowsSize, serializeRows]
  | cons r rs ih =>
    intro p rest acc
    have hr : RowWF r := hwf r (by simp)
    have hrs : ∀ w ∈ rs, RowWF w := fun w hw => hwf w (by simp [hw])
    have h1 := roundtrip_norm var r hr p (serializeRows var rs ++ rest)
    have h2 := ih hrs (p ++ serializeRow var r) rest (r.map (norm var) :: acc)
    rw [List.length_append, size_eq var r (fun v hv => shape_of_wf v (hr.2 v hv))] at h2
    simp only [List.append_assoc] at h2
    simp only [serializeRows, List.length_cons, deserializeRows, List.append_assoc, h1, h2]
    simp [rowsSize]; omega

/-- CONCATENATION: a buffer of n serialised rows (preceded by any header `p`, e.g. the 16-byte
spill-file header, and followed by anything) decodes, by n sequential `deserialize_row_into`
calls sharing one offset, to the n rows in order (each normalised by `norm`), and the final
offset is the sum of the computed sizes. -/
theorem concat_decode (var : Variant) (rows : List (List Value)) (hwf : ∀ r ∈ rows, RowWF r)
    (p rest : List Nat) :
    deserializeRows (p ++ (serializeRows var rows ++ rest)) rows.length p.length []
      = .ok (rows.map (fun r => r.map (norm var))) (p.length + rowsSize var rows) := by
  simpa using rows_roundtrip var rows hwf p rest []

/-- values on which the pinned code is the identity: everything except the two float zeros and
non-canonical NaNs -/
def Stable : Value → Prop
  | .float f => (isNan f = true → f = F64_NAN) ∧ fEqZero f = false
  | _ => True

instance : DecidablePred Stable := fun v => by
  cases v <;> simp only [Stable] <;> infer_instance

theorem norm_stable (v : Value) (h : Stable v) : norm .cur v = v := by
  cases v with
  | float f =>
    simp only [Stable] at h
    by_cases hn : isNan f = true
    · have := h.1 hn; subst this; decide
    · simp [norm, hn, h.2]
  | _ => simp [norm]

/-- ROUND TRIP (partial, pinned code): rows without float zeros and without non-canonical NaNs
come back unchanged, same types, same bits. -/
theorem roundtrip_partial (row : List Value) (hwf : RowWF row) (hst : ∀ v ∈ row, Stable v)
    (p rest : List Nat) :
    deserializeRow (p ++ (serializeRow .cur row ++ rest)) p.length
      = .ok row (p.length + rowSize .cur row) := by
  rw [roundtrip_norm .cur row hwf p rest]
  have : row.map (norm .cur) = row := by
    conv => rhs; rw [← List.map_id row]
    exact List.map_congr_left (fun v hv => by simpa using norm_stable v (hst v hv))
  rw [this]

/-- the full statement is FALSE of the pinned code: `Float(+0.0)` and `Float(-0.0)` both
deserialise to `Int(0)` (type changed, sign lost). -/
theorem float_zero_counterexample :
    deserializeRow (serializeRow .cur [.float 0]) 0 = .ok [.int 0] 3 ∧
    deserializeRow (serializeRow .cur [.float F64_NEG_ZERO]) 0 = .ok [.int 0] 3 ∧
    RowWF [.float 0] ∧ RowWF [.float F64_NEG_ZERO] := by
  refine ⟨by decide, by decide, ?_, ?_⟩ <;> simp [RowWF, Value.WF, F64_NEG_ZERO]

/-- NaNs: any NaN comes back as the canonical quiet NaN (still a Float NaN; sign and payload are
not preserved) -/
theorem nan_class (var : Variant) (f : Nat) (hf : f < 256 ^ 8) (hn : isNan f = true) :
    deserializeRow (serializeRow var [.float f]) 0 = .ok [.float F64_NAN] 3 ∧ isNan F64_NAN = true := by
  have h := roundtrip_norm var [.float f] (by simp [RowWF, Value.WF, hf]) [] []
  simp only [List.nil_append, List.append_nil, List.length_nil] at h
  rw [h]
  refine ⟨?_, by decide⟩
  cases var <;> simp [norm, hn, rowSize, valuesSize, valueSize, floatSize]

/-- values on which the fixed code (fix_rowserde.patch) is the identity: everything except
non-canonical NaNs -/
def StableFix : Value → Prop
  | .float f => isNan f = true → f = F64_NAN
  | _ => True

/-- ROUND TRIP for the fixed serialiser: every well-formed row without non-canonical NaNs comes
back unchanged — float zeros included. -/
theorem roundtrip_fixed (row : List Value) (hwf : RowWF row) (hst : ∀ v ∈ row, StableFix v)
    (p rest : List Nat) :
    deserializeRow (p ++ (serializeRow .fix row ++ rest)) p.length
      = .ok row (p.length + rowSize .fix row) := by
  rw [roundtrip_norm .fix row hwf p rest]
  have : row.map (norm .fix) = row := by
    conv => rhs; rw [← List.map_id row]
    refine List.map_congr_left (fun v hv => ?_)
    have h := hst v hv
    cases v with
    | float f =>
      simp only [StableFix] at h
      by_cases hn : isNan f = true
      · have := h hn; subst this; decide
      · simp [norm, hn]
    | _ => simp [norm]
  rw [this]

/-- the spill encoding loses nothing: two well-formed rows (no non-canonical NaNs) that the fixed
serialiser maps to the same bytes are the same row, types and bits included -/
theorem serialize_injective_fixed (r1 r2 : List Value) (h1 : RowWF r1) (h2 : RowWF r2)
    (s1 : ∀ v ∈ r1, StableFix v) (s2 : ∀ v ∈ r2, StableFix v)
    (h : serializeRow .fix r1 = serializeRow .fix r2) : r1 = r2 := by
  have e1 := roundtrip_fixed r1 h1 s1 [] []
  have e2 := roundtrip_fixed r2 h2 s2 [] []
  rw [h, e2] at e1
  injection e1 with e _
  exact e.symm

/-- the column count is written as `row.len() as u16`: a row of 65536 columns is read back as the
empty row (2 bytes consumed, 65536 left unread). -/
theorem colcount_wrap_counterexample (var : Variant) :
    deserializeRow (serializeRow var (List.replicate 65536 .null)) 0 = .ok [] 2 ∧
    (serializeRow var (List.replicate 65536 .null)).length = 65538 := by
  have hv : ∀ n, serializeValues var (List.replicate n .null) = List.replicate n 1 := by
    intro n; induction n with
    | zero => simp [serializeValues]
    | succ n ih => simp [List.replicate_succ, serializeValues, serializeValue, ih]
  have hs : serializeRow var (List.replicate 65536 .null) = [0, 0] ++ List.replicate 65536 1 := by
    unfold serializeRow
    rw [hv, List.length_replicate]
    rfl
  rw [hs]
  have hl : (List.replicate 65536 1).length = 65536 := List.length_replicate
  generalize List.replicate 65536 1 = tl at hl ⊢
  constructor
  · simp [deserializeRow, rd, slice, beVal, deserializeValues]
  · simp [hl]

/-! ### totality -/

theorem value_total (data : List Nat) (off : Nat) :
    Good data (off + 1) (deserializeValue data off) := by
  unfold deserializeValue
  split
  · exact good_err _ _ _
  · rename_i h
    rw [rd_in data off 1 _ (by omega)]
    exact body_total data _ (off + 1) (by omega)

theorem values_total (data : List Nat) : ∀ (n off : Nat) (acc : List Value), off ≤ data.length →
    Good data off (deserializeValues data n off acc) := by
  intro n
  induction n with
  | zero => intro off acc h; exact good_ok _ _ _ _ (Nat.le_refl _) h
  | succ n ih =>
    intro off acc h
    have hv := value_total data off
    unfold deserializeValues
    split
    · rename_i v o heq
      have := hv.2 v o heq
      exact good_mono (ih o (v :: acc) this.2) (by omega)
    · exact good_err _ _ _
    · rename_i heq; exact absurd heq hv.1

theorem row_total (data : List Nat) (off : Nat) : Good data (off + 2) (deserializeRow data off) := by
  unfold deserializeRow
  split
  · exact good_err _ _ _
  · rename_i h
    rw [rd_in data off 2 _ (by omega)]
    exact values_total data _ (off + 2) [] (by omega)

theorem rows_total (data : List Nat) : ∀ (n off : Nat) (acc : List (List Value)),
    off ≤ data.length → Good data off (deserializeRows data n off acc) := by
  intro n
  induction n with
  | zero => intro off acc h; exact good_ok _ _ _ _ (Nat.le_refl _) h
  | succ n ih =>
    intro off acc h
    have hv := row_total data off
    unfold deserializeRows
    split
    · rename_i v o heq
      have := hv.2 v o heq
      exact good_mono (ih o (v :: acc) this.2) (by omega)
    · exact good_err _ _ _
    · rename_i heq; exact absurd heq hv.1

/-- TOTALITY / no read outside the buffer (full statement): for ANY byte list and ANY starting
offset, `deserialize_row_into` yields a row or an error, never the `oob` outcome (every slice the
code takes lies inside the buffer), and on success the new offset is past the 2-byte column count
and not beyond the end of the buffer.  The same for n sequential reads. -/
theorem deserialize_total (data : List Nat) (off : Nat) :
    deserializeRow data off ≠ .oob ∧
    (∀ r o, deserializeRow data off = .ok r o → off + 2 ≤ o ∧ o ≤ data.length) ∧
    (∀ n, off ≤ data.length → deserializeRows data n off [] ≠ .oob ∧
      ∀ rs o, deserializeRows data n off [] = .ok rs o → off ≤ o ∧ o ≤ data.length) :=
  ⟨(row_total data off).1, (row_total data off).2,
    fun n h => ⟨(rows_total data n off [] h).1, (rows_total data n off [] h).2⟩⟩

/-- non-vacuity: a row exercising every discriminant satisfies the hypotheses of
`roundtrip_partial` -/
example : RowWF [.null, .int 5, .int (256 ^ 8 - 1), .int 0, .float 0x3ff0000000000000,
    .float 0xbff0000000000000, .float F64_INF, .float F64_NEG_INF, .float F64_NAN, .text [104, 105],
    .blob [255], .vector [1, 2], .enum 1 2, .decimal 7 2, .toast []] ∧
    ∀ v ∈ [Value.null, .int 5, .float 0x3ff0000000000000, .float F64_NAN], Stable v := by
  constructor
  · simp [RowWF, Value.WF]; decide
  · decide

end TurVerif.C33
