import TurVerif.Model.SqlDb
import TurVerif.Model.SqlDml
/-!
C06  A failing statement has no effect.

M-spec part: theorems about the relational state machine `TurVerif.SqlDb` (`step`, `run`): a
statement whose result is an error leaves the state *exactly* as it was (every statement kind,
every reachable or unreachable state), lifted to histories.

M-code part: the engine's per-row validate-then-write INSERT loop
(`src/database/dml/insert.rs`, `execute_insert_internal`, the `for mut values in rows_to_insert`
loop: validate row k, `bail!` on violation, otherwise write row k and go on; the header
`row_count` is only written after the loop) is transcribed as `TurVerif.SqlDml.insertLoop`.
`per_row_loop_counterexample` proves that this loop does NOT have the property (row k fails, rows
< k stay, the header count is stale); `insertLoop_partial` proves the property on the domain where
it does hold (single-row statements, or the first row fails).  The harness (`sql_dml`) confirms on
the real code that the engine behaves like `insertLoop`, not like the spec.
-/
namespace TurVerif.C06
open TurVerif.Sql TurVerif.SqlDb

/-! ### helper lemmas -/
theorem applyValid_err_state (s s' : DbState) (n : Nat) (ret : List Row) (e : Err)
    (h : (applyValid s s' (.affected n ret)).2 = .err e) :
    (applyValid s s' (.affected n ret)).1 = s := by
  unfold applyValid at *
  split <;> simp_all

theorem applyValid_fst (s s' : DbState) (res : Res) :
    (applyValid s s' res).1 = s ∨ ((applyValid s s' res) = (s', res) ∧ dbValid s' = .ok true) := by
  unfold applyValid
  split <;> simp_all

/-! ### property theorems -/

/-- HEADLINE: for every statement kind and every state: if the statement returns an error, the
state after it is the state before it (tables, rows, AUTO_INCREMENT counters, open transaction). -/
theorem err_no_effect (s : DbState) (st : Stmt) (e : Err)
    (h : (step s st).2 = .err e) : (step s st).1 = s := by
  cases st with
  | insert tn cols rows =>
    simp only [step] at h ⊢
    split at h <;> try rfl
    split at h <;> try rfl
    exact applyValid_err_state _ _ _ _ _ h
  | update tn sets whr =>
    simp only [step] at h ⊢
    split at h <;> try rfl
    split at h <;> try rfl
    exact applyValid_err_state _ _ _ _ _ h
  | delete tn whr =>
    simp only [step] at h ⊢
    split at h <;> try rfl
    split at h <;> try rfl
    exact applyValid_err_state _ _ _ _ _ h
  | truncate tn =>
    simp only [step] at h ⊢
    split at h <;> try rfl
    exact applyValid_err_state _ _ _ _ _ h
  | begin => simp only [step] at h ⊢; split at h <;> simp_all
  | commit => simp only [step] at h ⊢; split at h <;> simp_all
  | rollback => simp only [step] at h ⊢; split at h <;> simp_all
  | savepoint n => simp only [step] at h ⊢; split at h <;> simp_all
  | rollbackTo n => simp only [step] at h ⊢; split at h <;> simp_all
  | release n => simp only [step] at h ⊢; split at h <;> simp_all
  | dropTable tn => simp only [step] at h ⊢; split at h <;> simp_all
  | addColumn tn c => simp only [step] at h ⊢; split at h <;> simp_all
  | dropColumn tn i => simp only [step] at h ⊢; split at h <;> simp_all
  | renameColumn tn i n => simp only [step] at h ⊢; split at h <;> simp_all

/-- the same as an equation on `step` -/
theorem err_step_eq (s : DbState) (st : Stmt) (e : Err)
    (h : (step s st).2 = .err e) : step s st = (s, .err e) := by
  have h1 := err_no_effect s st e h
  exact Prod.ext h1 h

theorem run_nil (s : DbState) : run s [] = (s, []) := rfl

theorem run_cons (s : DbState) (st : Stmt) (rest : List Stmt) :
    run s (st :: rest) = ((run (step s st).1 rest).1, (step s st).2 :: (run (step s st).1 rest).2) := by
  simp [run]

theorem run_append (s : DbState) (a b : List Stmt) :
    (run s (a ++ b)).1 = (run (run s a).1 b).1 := by
  induction a generalizing s with
  | nil => rfl
  | cons st rest ih => simp [run_cons, ih]

/-- a failing statement at the head of a history can be dropped -/
theorem run_err_head (s : DbState) (st : Stmt) (rest : List Stmt) (e : Err)
    (h : (step s st).2 = .err e) : (run s (st :: rest)).1 = (run s rest).1 := by
  rw [run_cons, err_no_effect s st e h]

/-- lifted to histories: a statement that fails at its position in a history has no influence on
the final state – removing it from the history gives the same final state -/
theorem run_err_no_effect (s : DbState) (pre post : List Stmt) (st : Stmt) (e : Err)
    (h : (step (run s pre).1 st).2 = .err e) :
    (run s (pre ++ st :: post)).1 = (run s (pre ++ post)).1 := by
  rw [run_append, run_append, run_err_head _ _ _ e h]

/-- a history in which every statement fails is the identity -/
theorem run_all_err (s : DbState) (sts : List Stmt)
    (h : ∀ r ∈ (run s sts).2, ∃ e, r = .err e) : (run s sts).1 = s := by
  induction sts generalizing s with
  | nil => rfl
  | cons st rest ih =>
    rw [run_cons] at h ⊢
    obtain ⟨e, he⟩ := h (step s st).2 (by simp)
    have hs := err_no_effect s st e he
    simp only [hs] at h ⊢
    exact ih s (fun r hr => h r (List.mem_cons_of_mem _ hr))

/-- a statement that does change the state did not fail (contrapositive, used by the harness
oracle: state changed ⇒ result must be Ok) -/
theorem changed_not_err (s : DbState) (st : Stmt) (hne : (step s st).1 ≠ s) :
    ∀ e, (step s st).2 ≠ .err e :=
  fun e h => hne (err_no_effect s st e h)

/-- non-vacuity: a multi-row INSERT whose second row violates the primary key fails in the spec,
and the table keeps exactly its old rows (decided on a concrete state) -/
def exTable : TableSt :=
  { name := "t", cols := [{ name := "id", pk := true }, { name := "a" }], rows := [[.int 1, .int 10]] }
def exState : DbState := { tables := [exTable] }
def exStmt : Stmt :=
  .insert "t" [0, 1] [[.lit (.int 2), .lit (.int 20)], [.lit (.int 1), .lit (.int 30)], [.lit (.int 3), .lit (.int 30)]]

theorem spec_multirow_insert_fails_atomically :
    (match (step exState exStmt).2 with | .err .constraint => true | _ => false) = true ∧
    ((step exState exStmt).1.find "t").map (·.rows) = some [[.int 1, .int 10]] := by
  decide

/-! ### M-code: the engine's per-row INSERT loop -/
open TurVerif.SqlDml

/-- the loop is atomic when it fails at the first row: nothing was written -/
theorem insertLoop_fail_first (ok : List Row → Row → Bool) (st : TStore) (r : Row) (rest : List Row)
    (h : ok (visible st) r = false) :
    insertLoop ok st (r :: rest) = (st, some 0) := by
  simp [insertLoop, insertLoop.go, h]

/-- `_partial`: on single-row statements the engine's loop has the property (error ⇒ store
unchanged). Full statement (false of the loop, see the counterexample below):
`∀ ok st rows k, (insertLoop ok st rows).2 = some k → (insertLoop ok st rows).1 = st`. -/
theorem insertLoop_partial (ok : List Row → Row → Bool) (st : TStore) (r : Row) (k : Nat)
    (h : (insertLoop ok st [r]).2 = some k) : (insertLoop ok st [r]).1 = st := by
  unfold insertLoop at *
  simp only [insertLoop.go] at h ⊢
  split at h <;> simp_all

/-- general shape of a failure at row k: the first k rows are visible after the statement, and
the COUNT(*) header still has its old value -/
theorem insertLoop_fail_keeps_prefix (ok : List Row → Row → Bool) (st : TStore) (rows : List Row)
    (k : Nat) (h : (insertLoop ok st rows).2 = some k) :
    visible (insertLoop ok st rows).1 = visible st ++ rows.take k ∧
    (insertLoop ok st rows).1.rowCount = st.rowCount ∧ k < rows.length := by
  unfold insertLoop at *
  suffices H : ∀ (rows : List Row) (cur : TStore) (i k : Nat),
      (insertLoop.go ok st.rowCount cur i rows).2 = some k →
      visible (insertLoop.go ok st.rowCount cur i rows).1 = visible cur ++ rows.take (k - i) ∧
      (insertLoop.go ok st.rowCount cur i rows).1.rowCount = cur.rowCount ∧ i ≤ k ∧ k < i + rows.length by
    have := H rows st 0 k h
    simpa using this
  intro rows
  induction rows with
  | nil => intro cur i k h; simp [insertLoop.go] at h
  | cons r rest ih =>
    intro cur i k h
    simp only [insertLoop.go] at h ⊢
    split at h
    · rename_i hok
      simp only [hok, if_true]
      have := ih _ (i + 1) k h
      obtain ⟨h1, h2, h3, h4⟩ := this
      refine ⟨?_, ?_, by omega, by simp; omega⟩
      · rw [h1, visible_push]
        have : k - i = (k - (i + 1)) + 1 := by omega
        rw [this, List.take_succ_cons]; simp
      · rw [h2]; rfl
    · rename_i hok
      simp only [hok] at h ⊢
      simp at h
      subst h
      simp

/-- COUNTEREXAMPLE (confirmed on the real code by the harness, finding C06-multirow-insert-partial):
a three-row INSERT into an empty table with a unique first column whose third row repeats the
first key returns an error, yet the first two rows are visible afterwards, and the header
count that answers COUNT(*) still says 0. -/
theorem per_row_loop_counterexample :
    let ok := fun (vis : List Row) (r : Row) => !(vis.any (fun x => x.head? == r.head?))
    let st : TStore := { slots := [], rowCount := 0 }
    let rows : List Row := [[.int 1], [.int 2], [.int 1]]
    (insertLoop ok st rows).2 = some 2 ∧
    visible (insertLoop ok st rows).1 = [[.int 1], [.int 2]] ∧
    visible (insertLoop ok st rows).1 ≠ visible st ∧
    (insertLoop ok st rows).1.rowCount = 0 := by
  decide

/-- hence the full statement is false of the loop -/
theorem insertLoop_not_atomic :
    ¬ (∀ (ok : List Row → Row → Bool) (st : TStore) (rows : List Row) (k : Nat),
        (insertLoop ok st rows).2 = some k → visible (insertLoop ok st rows).1 = visible st) := by
  intro h
  have hc := per_row_loop_counterexample
  simp only at hc
  exact hc.2.2.1 (h _ _ _ 2 hc.1)

/-- the engine's UPDATE (validate every selected row, then look up the unique indexes, then write)
IS atomic: whenever the M-code UPDATE reports a failure the store is untouched -/
theorem mUpdate_err_no_effect (t : TableSt) (sets : List (Nat × Expr)) (whr : Option Expr)
    (st : TStore) (h : ∀ n d, (mUpdate t sets whr st).2 ≠ .ok n d) :
    (mUpdate t sets whr st).1 = st := by
  unfold mUpdate at *
  cases hp : pkSlot t whr st <;> simp only [hp] at h ⊢
  · split
    · rfl
    · split
      · rfl
      · split
        · rfl
        · rename_i h1 h2 h3
          rw [if_neg h1, if_neg h2, if_neg h3] at h
          exact absurd rfl (h _ _)
  · split
    · rfl
    · split
      · rfl
      · split
        · rfl
        · rename_i h1 h2 h3
          rw [if_neg h1, if_neg h2, if_neg h3] at h
          exact absurd rfl (h _ _)

/-- DELETE and TRUNCATE never fail in the M-code (no constraint is checked on these paths) -/
theorem mDelete_never_errs (t : TableSt) (whr : Option Expr) (st : TStore) :
    ∃ n d, (mDelete t whr st).2 = .ok n d := by
  unfold mDelete
  split <;> exact ⟨_, _, rfl⟩

/-- an INSERT that fails while its VALUES expressions are evaluated has no effect -/
theorem mInsert_evalErr_no_effect (t : TableSt) (cols : List Nat) (rows : List (List Expr))
    (st : TStore) (h : (mInsert t cols rows st).2 = .evalErr) : (mInsert t cols rows st).1 = st := by
  unfold mInsert at *
  split
  · rfl
  · rename_i nr nx hb
    simp only [hb] at h
    split at h <;> simp at h

end TurVerif.C06
