import TurVerif.Model.Varint
/-!
C27  Varints round-trip with canonical length.
Theorems about the M-code model `TurVerif.Varint` (transcribed from src/encoding/varint.rs).
-/
namespace TurVerif.C27
open TurVerif.Varint

/-! ### per-marker decode equations (helper lemmas) -/
theorem dec1 (f : Nat) (rest : List Nat) (h : f ≤ 240) : decode (f :: rest) = .ok f 1 := by
  simp [decode, rd, h]
theorem dec2 (f b1 : Nat) (rest : List Nat) (h1 : 241 ≤ f) (h2 : f ≤ 248) :
    decode (f :: b1 :: rest) = .ok (240 + (f - 241) * 256 + b1) 2 := by
  have : ¬ f ≤ 240 := by omega
  simp [decode, rd, *]
theorem dec3 (b1 b2 : Nat) (rest : List Nat) :
    decode (249 :: b1 :: b2 :: rest) = .ok (2288 + b1 * 256 + b2) 3 := by
  simp [decode, rd]
theorem dec4 (b1 b2 b3 : Nat) (rest : List Nat) :
    decode (250 :: b1 :: b2 :: b3 :: rest) = .ok ((b1 * 256 + b2) * 256 + b3) 4 := by
  simp [decode, rd]
theorem dec5 (b1 b2 b3 b4 : Nat) (rest : List Nat) :
    decode (251 :: b1 :: b2 :: b3 :: b4 :: rest) =
      .ok (((b1 * 256 + b2) * 256 + b3) * 256 + b4) 5 := by
  simp [decode, rd]
theorem dec9 (b1 b2 b3 b4 b5 b6 b7 b8 : Nat) (rest : List Nat) :
    decode (255 :: b1 :: b2 :: b3 :: b4 :: b5 :: b6 :: b7 :: b8 :: rest) =
      .ok (((((((b1 * 256 + b2) * 256 + b3) * 256 + b4) * 256 + b5) * 256 + b6) * 256 + b7)
            * 256 + b8) 9 := by
  simp [decode, rd]

theorem rd_eq (buf : List Nat) (i : Nat) (k : Nat → Res) (h : i < buf.length) :
    rd buf i k = k buf[i] := by simp [rd, h]


/-! ### property theorems -/

/-- every produced byte is a byte -/
theorem encode_bytes (v : Nat) : ∀ b ∈ encode v, b < 256 := by
  intro b hb
  unfold encode at hb
  repeat' split at hb
  all_goals simp at hb
  all_goals omega

/-- the computed length is the number of bytes written -/
theorem encode_length (v : Nat) : (encode v).length = len v := by
  unfold encode len
  repeat' split
  all_goals simp_all

/-- canonical lengths -/
theorem len_canonical (v : Nat) : len v ∈ [1, 2, 3, 4, 5, 9] := by
  unfold len; repeat' split
  all_goals simp

/-- smaller values never take more bytes -/
theorem len_mono {a b : Nat} (h : a ≤ b) : len a ≤ len b := by
  unfold len; repeat' split
  all_goals omega

/-- ROUND TRIP (full statement): for every u64 value and any trailing bytes, decoding the
encoding yields the value and consumes exactly `len v` bytes. -/
theorem decode_encode (v : Nat) (hv : v < 2 ^ 64) (rest : List Nat) :
    decode (encode v ++ rest) = .ok v (len v) := by
  unfold encode len
  split
  · rw [List.cons_append, dec1]
    · simp only [Res.ok.injEq, and_true]; omega
    · omega
  split
  · simp only [List.cons_append, List.nil_append]
    rw [dec2]
    · simp only [Res.ok.injEq, and_true]; omega
    · omega
    · omega
  split
  · simp only [List.cons_append, List.nil_append]; rw [dec3]
    simp only [Res.ok.injEq, and_true]; omega
  split
  · simp only [List.cons_append, List.nil_append, sh]; rw [dec4]
    simp only [Res.ok.injEq, and_true]; omega
  split
  · simp only [List.cons_append, List.nil_append, sh]; rw [dec5]
    simp only [Res.ok.injEq, and_true]; omega
  · simp only [List.cons_append, List.nil_append, sh]; rw [dec9]
    simp only [Res.ok.injEq, and_true]; omega

/-- the encoding is injective on u64 -/
theorem encode_injective (a b : Nat) (ha : a < 2 ^ 64) (hb : b < 2 ^ 64)
    (h : encode a = encode b) : a = b := by
  have h1 := decode_encode a ha []
  have h2 := decode_encode b hb []
  rw [h, h2] at h1
  injection h1 with h3 _
  exact h3.symm

/-- the encoding is prefix free: no encoding is a proper prefix of another (so a stream of
varints has a unique parse). -/
theorem encode_prefix_free (a b : Nat) (ha : a < 2 ^ 64) (hb : b < 2 ^ 64) (r : List Nat)
    (h : encode a ++ r = encode b) : a = b := by
  have h1 := decode_encode a ha r
  have h2 := decode_encode b hb []
  rw [h] at h1
  rw [List.append_nil, h1] at h2
  injection h2 with h3 _

/-- TOTALITY / no read past the input (full statement): for every byte string, decoding is a
value or an error and never the `oob` outcome; on success the consumed count is within the
input and canonical, and the value is a u64. -/
theorem decode_total (buf : List Nat) (hb : ∀ x ∈ buf, x < 256) :
    decode buf ≠ .oob ∧
    (∀ v n, decode buf = .ok v n → n ≤ buf.length ∧ v < 2 ^ 64 ∧ n ∈ [1, 2, 3, 4, 5, 9]) := by
  have hbyte : ∀ i (h : i < buf.length), buf[i] < 256 := fun i h => hb _ (List.getElem_mem h)
  unfold decode
  split
  · simp
  · rename_i hne
    have h0 : 0 < buf.length := by
      cases buf with
      | nil => simp at hne
      | cons => simp
    rw [rd_eq _ _ _ h0]
    have := hbyte 0 h0
    split
    · simp; omega
    split
    · split
      · simp
      · have h1 : 1 < buf.length := by omega
        rw [rd_eq _ _ _ h1]
        have := hbyte 1 h1
        simp; omega
    split
    · split
      · simp
      · have h1 : 1 < buf.length := by omega
        have h2 : 2 < buf.length := by omega
        rw [rd_eq _ _ _ h1, rd_eq _ _ _ h2]
        have := hbyte 1 h1; have := hbyte 2 h2
        simp; omega
    split
    · split
      · simp
      · have h1 : 1 < buf.length := by omega
        have h2 : 2 < buf.length := by omega
        have h3 : 3 < buf.length := by omega
        rw [rd_eq _ _ _ h1, rd_eq _ _ _ h2, rd_eq _ _ _ h3]
        have := hbyte 1 h1; have := hbyte 2 h2; have := hbyte 3 h3
        simp; omega
    split
    · split
      · simp
      · have h1 : 1 < buf.length := by omega
        have h2 : 2 < buf.length := by omega
        have h3 : 3 < buf.length := by omega
        have h4 : 4 < buf.length := by omega
        rw [rd_eq _ _ _ h1, rd_eq _ _ _ h2, rd_eq _ _ _ h3, rd_eq _ _ _ h4]
        have := hbyte 1 h1; have := hbyte 2 h2; have := hbyte 3 h3; have := hbyte 4 h4
        simp; omega
    split
    · split
      · simp
      · have h1 : 1 < buf.length := by omega
        have h2 : 2 < buf.length := by omega
        have h3 : 3 < buf.length := by omega
        have h4 : 4 < buf.length := by omega
        have h5 : 5 < buf.length := by omega
        have h6 : 6 < buf.length := by omega
        have h7 : 7 < buf.length := by omega
        have h8 : 8 < buf.length := by omega
        rw [rd_eq _ _ _ h1, rd_eq _ _ _ h2, rd_eq _ _ _ h3, rd_eq _ _ _ h4,
          rd_eq _ _ _ h5, rd_eq _ _ _ h6, rd_eq _ _ _ h7, rd_eq _ _ _ h8]
        have := hbyte 1 h1; have := hbyte 2 h2; have := hbyte 3 h3; have := hbyte 4 h4
        have := hbyte 5 h5; have := hbyte 6 h6; have := hbyte 7 h7; have := hbyte 8 h8
        simp; omega
    · simp

/-- reserved markers 252..254 are rejected, whatever follows -/
theorem reserved_rejected (f : Nat) (rest : List Nat) (h1 : 252 ≤ f) (h2 : f ≤ 254) :
    decode (f :: rest) = .err "marker" := by
  have : ¬ f ≤ 240 := by omega
  have : ¬ f ≤ 248 := by omega
  have : f ≠ 249 := by omega
  have : f ≠ 250 := by omega
  have : f ≠ 251 := by omega
  have : f ≠ 255 := by omega
  simp [decode, rd, *]

/-- a truncated encoding (any proper prefix of a valid encoding) is an error, not a value -/
theorem truncated_is_error (v : Nat) (hv : v < 2 ^ 64) (k : Nat) (hk : k < len v) :
    ∃ e, decode ((encode v).take k) = .err e := by
  unfold len at hk
  unfold encode
  split
  · rename_i h; simp only [h, if_true] at hk
    have : k = 0 := by omega
    subst this; simp [decode]
  rename_i h0
  split
  · rename_i h; simp only [h0, h, if_true, if_false] at hk
    have hf1 : ¬ ((v - 240) / 256 + 241) % 256 ≤ 240 := by omega
    have hf2 : ((v - 240) / 256 + 241) % 256 ≤ 248 := by omega
    match k, hk with
    | 0, _ => simp [decode]
    | 1, _ => simp [decode, rd, hf1, hf2]
  rename_i h1
  split
  · rename_i h; simp only [h0, h1, h, if_true, if_false] at hk
    match k, hk with
    | 0, _ => simp [decode]
    | 1, _ => simp [decode, rd]
    | 2, _ => simp [decode, rd]
  rename_i h2
  split
  · rename_i h; simp only [h0, h1, h2, h, if_true, if_false] at hk
    match k, hk with
    | 0, _ => simp [decode]
    | 1, _ => simp [decode, rd]
    | 2, _ => simp [decode, rd]
    | 3, _ => simp [decode, rd]
  rename_i h3
  split
  · rename_i h; simp only [h0, h1, h2, h3, h, if_true, if_false] at hk
    match k, hk with
    | 0, _ => simp [decode]
    | 1, _ => simp [decode, rd]
    | 2, _ => simp [decode, rd]
    | 3, _ => simp [decode, rd]
    | 4, _ => simp [decode, rd]
  · rename_i h; simp only [h0, h1, h2, h3, h, if_false] at hk
    match k, hk with
    | 0, _ => simp [decode]
    | 1, _ => simp [decode, rd]
    | 2, _ => simp [decode, rd]
    | 3, _ => simp [decode, rd]
    | 4, _ => simp [decode, rd]
    | 5, _ => simp [decode, rd]
    | 6, _ => simp [decode, rd]
    | 7, _ => simp [decode, rd]
    | 8, _ => simp [decode, rd]


/-- non-vacuity: concrete witnesses at each length class -/
example : decode (encode 240) = .ok 240 1 ∧ decode (encode 2287) = .ok 2287 2 ∧
    decode (encode 67823) = .ok 67823 3 ∧ decode (encode 16777215) = .ok 16777215 4 ∧
    decode (encode 4294967295) = .ok 4294967295 5 ∧
    decode (encode 18446744073709551615) = .ok 18446744073709551615 9 := by decide

/-- decode `n` varints laid end to end (how record headers and cells are read) -/
def decodeMany : Nat → List Nat → Option (List Nat)
  | 0, _ => some []
  | n + 1, buf =>
    match decode buf with
    | .ok v k => (decodeMany n (buf.drop k)).map (v :: ·)
    | _ => none

/-- STREAM ROUND TRIP: any sequence of u64 values encoded back to back (followed by anything)
decodes, value after value, to exactly that sequence — each decode stops exactly where the next
encoding starts -/
theorem decode_stream (vs : List Nat) (h : ∀ v ∈ vs, v < 2 ^ 64) (rest : List Nat) :
    decodeMany vs.length (vs.flatMap encode ++ rest) = some vs := by
  induction vs with
  | nil => rfl
  | cons v vs ih =>
    have hv : v < 2 ^ 64 := h v (by simp)
    have ih' := ih (fun x hx => h x (by simp [hx]))
    simp only [List.flatMap_cons, List.length_cons, decodeMany, List.append_assoc]
    rw [decode_encode v hv]
    simp only
    rw [← encode_length v, List.drop_left, ih']
    rfl

example : decodeMany 3 ([5, 70000, 2 ^ 63].flatMap encode ++ [1, 2]) = some [5, 70000, 2 ^ 63] :=
  decode_stream [5, 70000, 2 ^ 63] (by decide) [1, 2]

end TurVerif.C27
