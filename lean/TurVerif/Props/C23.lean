import TurVerif.Lemmas.DecCore
import TurVerif.Lemmas.CatalogDec
import TurVerif.Model.RecordView
import TurVerif.Model.PageHdr
import TurVerif.Model.FileHdr
import TurVerif.Model.ArrayView
import TurVerif.Model.CatalogDec
import TurVerif.Props.C27
/-!
C23  Decoders of stored bytes reject corruption without crashing.

Theorems about the guard-structure models (`Model/DecCore`, `RecordView`, `PageHdr`, `FileHdr`,
`ArrayView`, `CatalogDec`, plus the existing `Varint`, `Jsonb` models).  `r.panics = false` says
the outcome is a value or an `Err`: not an out-of-bounds read, not an arithmetic-overflow
panic, not an `expect` on corrupt data, and no loop ran out of fuel.

Where the guards of the code suffice the statement is proved for EVERY buffer (`*_total`).
Where they do not, there is a `*_counterexample` (a concrete buffer on which the faithful model
reads out of bounds / overflows; the same bytes panic in the real code, see known_findings.json)
and a `*_partial` theorem with the explicit domain on which the decoder is safe.
-/
namespace TurVerif.C23
open TurVerif.Dec

/-! ### helper lemmas -/

theorem hdr_safe {b : Buf} (h : 16 ≤ b.len) : PageHdr.hdrFromBytes b = .ok () := by
  unfold PageHdr.hdrFromBytes
  have : slice b 0 16 = .ok (bytes b 0 16) := slice_le (by omega) h
  simp [ensure, h, this]

theorem hdr_total (b : Buf) : (PageHdr.hdrFromBytes b).panics = false := by
  by_cases h : 16 ≤ b.len
  · rw [hdr_safe h]; rfl
  · simp [PageHdr.hdrFromBytes, ensure, h]

/-- `from_page` succeeds only on a 16384-byte buffer -/
theorem fromPage_len {ty : Nat} {b : Buf} (h : PageHdr.fromPage ty b = .ok ()) :
    b.len = 16384 := by
  unfold PageHdr.fromPage at h
  by_cases hl : b.len = PageHdr.PAGE_SIZE
  · simpa [PageHdr.PAGE_SIZE] using hl
  · simp [ensure, hl] at h

theorem cellCount_eq {b : Buf} (h : b.len = 16384) :
    PageHdr.cellCount b = .ok (b.get 2 + 256 * b.get 3) := by
  unfold PageHdr.cellCount
  rw [hdr_safe (by omega)]
  simp [Res.unwrap, rd16_le (b := b) (i := 2) (by omega)]

/-! ### property theorems -/

/-! #### file headers and WAL frames: the guards suffice for every input -/

theorem meta_header_total (b : Buf) : (FileHdr.metaFromBytes b).panics = false := by
  unfold FileHdr.metaFromBytes
  apply bind_safe (ensure_safe _ _); intro u h
  have hl : 128 ≤ b.len := by simpa [FileHdr.FILE_HEADER_SIZE] using ensure_dec h
  apply bind_safe (slice_safe (by simp [FileHdr.FILE_HEADER_SIZE]) (by simpa [FileHdr.FILE_HEADER_SIZE] using hl))
  intro _ _
  apply bind_safe (ensure_safe _ _); intro _ _
  apply bind_safe (ensure_safe _ _); intro _ _
  rfl

theorem table_header_total (b : Buf) : (FileHdr.tableFromBytes b).panics = false := by
  unfold FileHdr.tableFromBytes
  apply bind_safe (ensure_safe _ _); intro u h
  have hl : 128 ≤ b.len := by simpa [FileHdr.FILE_HEADER_SIZE] using ensure_dec h
  apply bind_safe (slice_safe (by simp [FileHdr.FILE_HEADER_SIZE]) (by simpa [FileHdr.FILE_HEADER_SIZE] using hl))
  intro _ _
  apply bind_safe (ensure_safe _ _); intro _ _
  rfl

theorem index_header_total (b : Buf) : (FileHdr.indexFromBytes b).panics = false := by
  unfold FileHdr.indexFromBytes
  apply bind_safe (ensure_safe _ _); intro u h
  have hl : 128 ≤ b.len := by simpa [FileHdr.FILE_HEADER_SIZE] using ensure_dec h
  apply bind_safe (slice_safe (by simp [FileHdr.FILE_HEADER_SIZE]) (by simpa [FileHdr.FILE_HEADER_SIZE] using hl))
  intro _ _
  apply bind_safe (ensure_safe _ _); intro _ _
  rfl

theorem hnsw_header_total (b : Buf) : (FileHdr.hnswFromBytes b).panics = false := by
  unfold FileHdr.hnswFromBytes
  apply bind_safe (ensure_safe _ _); intro u h
  have hl : 128 ≤ b.len := by simpa [FileHdr.FILE_HEADER_SIZE] using ensure_dec h
  apply bind_safe (slice_safe (by omega) (by omega)); intro _ _
  apply bind_safe (ensure_safe _ _); intro _ _
  apply bind_safe (slice_safe (by simp [FileHdr.FILE_HEADER_SIZE]) (by simpa [FileHdr.FILE_HEADER_SIZE] using hl))
  intro _ _
  rfl

/-- `WalSegment::read_frame` on any remaining file content and for any checksum function -/
theorem wal_read_frame_total (crc : List Nat → Nat) (b : Buf) :
    (FileHdr.readFrame crc b).panics = false := by
  unfold FileHdr.readFrame
  apply bind_safe (ensure_safe _ _); intro u h
  have hl : 32 ≤ b.len := by simpa [FileHdr.WAL_FRAME_HEADER_SIZE] using ensure_dec h
  apply bind_safe (slice_safe (by simp [FileHdr.WAL_FRAME_HEADER_SIZE]) (by simpa [FileHdr.WAL_FRAME_HEADER_SIZE] using hl))
  intro _ _
  apply bind_safe (ensure_safe _ _); intro u2 h2
  have hl2 : 32 + 16384 ≤ b.len := by
    simpa [FileHdr.WAL_FRAME_HEADER_SIZE, FileHdr.PAGE_SIZE] using ensure_dec h2
  apply bind_safe (slice_safe (by simp [FileHdr.WAL_FRAME_HEADER_SIZE, FileHdr.PAGE_SIZE])
    (by simpa [FileHdr.WAL_FRAME_HEADER_SIZE, FileHdr.PAGE_SIZE] using hl2))
  intro _ _
  apply bind_safe (ensure_safe _ _); intro _ _
  apply bind_safe (ensure_safe _ _); intro _ _
  rfl

/-- an accepted frame whose `page_no` is `u32::MAX` makes `Wal::recover` overflow `page_no + 1` -/
theorem wal_recover_arith_counterexample :
    FileHdr.recoverRequiredPages 10 4294967295 0 = .arith := by decide

theorem wal_recover_partial (pc pn ds : Nat) (h : pn < 4294967295) :
    (FileHdr.recoverRequiredPages pc pn ds).panics = false := by
  unfold FileHdr.recoverRequiredPages
  split
  · have : pn + 1 < 4294967296 := by omega
    simp [this]
  · rfl

/-! #### page header, `validate_page`, `from_page` -/

theorem validate_page_total (b : Buf) : (PageHdr.validatePage b).panics = false := by
  unfold PageHdr.validatePage
  apply bind_safe (ensure_safe _ _); intro u h
  have hl : b.len = 16384 := by simpa [PageHdr.PAGE_SIZE] using ensure_dec h
  rw [hdr_safe (by omega)]
  have r0 : rd b 0 = .ok (b.get 0) := rd_lt (by omega)
  have r1 : rd b 1 = .ok (b.get 1) := rd_lt (by omega)
  simp only [bind_ok, r0, r1, rd16_le (b := b) (i := 2) (by omega),
    rd16_le (b := b) (i := 4) (by omega), rd16_le (b := b) (i := 6) (by omega)]
  split
  · rfl
  · apply bind_safe (ensure_safe _ _); intro _ _
    apply bind_safe (ensure_safe _ _); intro _ _
    apply bind_safe (ensure_safe _ _); intro _ _
    exact ensure_safe _ _

theorem from_page_total (ty : Nat) (b : Buf) : (PageHdr.fromPage ty b).panics = false := by
  unfold PageHdr.fromPage
  apply bind_safe (ensure_safe _ _); intro u h
  have hl : b.len = 16384 := by simpa [PageHdr.PAGE_SIZE] using ensure_dec h
  rw [hdr_safe (by omega)]
  simp only [bind_ok, rd_lt (b := b) (i := 0) (by omega)]
  exact ensure_safe _ _

/-! #### leaf / interior / HNSW page accessors: safe only while the count field is within the
layout limit; a corrupt count reads out of bounds -/

/-- a page that passes `validate_page` and `LeafNode::from_page`: type 2, cell_count 0xFFFF,
free_start 24, free_end 16384 -/
def leafBigCount : Buf := ⟨16384, fun i =>
  if i = 0 then 2 else if i = 2 ∨ i = 3 then 255 else if i = 4 then 24 else if i = 7 then 64 else 0⟩

theorem leaf_slot_oob_counterexample :
    PageHdr.validatePage leafBigCount = .ok () ∧ PageHdr.fromPage 2 leafBigCount = .ok () ∧
    PageHdr.leafSlotAt leafBigCount 2045 = .oob ∧ PageHdr.leafKeyAt leafBigCount 2045 = .oob ∧
    PageHdr.leafValueAt leafBigCount 65534 = .oob := by decide

/-- `slot_at` is safe for every index exactly while `cell_count ≤ 2045` (= (16384-24)/8) -/
theorem leaf_slot_total_partial (b : Buf) (hp : PageHdr.fromPage 2 b = .ok ())
    (hc : b.get 2 + 256 * b.get 3 ≤ 2045) (i : Nat) : (PageHdr.leafSlotAt b i).panics = false := by
  have hl := fromPage_len hp
  unfold PageHdr.leafSlotAt
  rw [cellCount_eq hl]; simp only [bind_ok]
  apply bind_safe (ensure_safe _ _); intro u h
  have hi := ensure_dec h
  apply bind_safe (slice_safe (by omega)
    (by simp only [PageHdr.LEAF_CONTENT_START, PageHdr.SLOT_SIZE]; omega))
  intro _ _; rfl

theorem leaf_key_total_partial (b : Buf) (hp : PageHdr.fromPage 2 b = .ok ())
    (hc : b.get 2 + 256 * b.get 3 ≤ 2045) (i : Nat) : (PageHdr.leafKeyAt b i).panics = false := by
  have hl := fromPage_len hp
  unfold PageHdr.leafKeyAt
  apply bind_safe (leaf_slot_total_partial b hp hc i); intro s _
  apply bind_safe (ensure_safe _ _); intro u h
  have hk := ensure_dec h
  exact slice_safe (by omega) (by simp only [PageHdr.PAGE_SIZE] at hk; omega)

/-- one cell whose value-length varint is `FF FF FF FF FF FF FF FF FF` (u64::MAX): the checked
addition `value_data_start + value_len` overflows -/
def leafHugeValue : Buf := ⟨16384, fun i =>
  if i = 0 then 2 else if i = 2 then 1 else if i = 4 then 32 else if i = 7 then 64
  else if i = 28 then 100 else if 100 ≤ i ∧ i < 109 then 255 else 0⟩

theorem leaf_value_arith_counterexample :
    PageHdr.validatePage leafHugeValue = .ok () ∧ PageHdr.fromPage 2 leafHugeValue = .ok () ∧
    PageHdr.leafKeyAt leafHugeValue 0 = .ok [] ∧
    PageHdr.leafValueAt leafHugeValue 0 = .arith := by decide

theorem bytes_lt (b : Buf) (hb : ∀ i, b.get i < 256) (s n : Nat) : ∀ x ∈ bytes b s n, x < 256 := by
  intro x hx
  simp only [bytes, List.mem_map] at hx
  obtain ⟨k, _, rfl⟩ := hx
  exact hb _

/-- `value_at` on a page whose cell_count is within the layout limit: the only possible panic is
the unchecked `value_data_start + value_len` overflow -/
theorem leaf_value_partial (b : Buf) (hp : PageHdr.fromPage 2 b = .ok ())
    (hc : b.get 2 + 256 * b.get 3 ≤ 2045) (hb : ∀ i, b.get i < 256) (i : Nat) :
    PageHdr.leafValueAt b i = .arith ∨ (PageHdr.leafValueAt b i).panics = false := by
  have hl := fromPage_len hp
  have hs := leaf_slot_total_partial b hp hc i
  unfold PageHdr.leafValueAt
  cases hsl : PageHdr.leafSlotAt b i with
  | ok s =>
    simp only [bind_ok]
    by_cases hv : s.off + s.klen < PageHdr.PAGE_SIZE
    · simp only [ensure, hv, decide_true, if_true, bind_ok]
      have hv' : s.off + s.klen ≤ b.len := by simp only [PageHdr.PAGE_SIZE] at hv; omega
      unfold PageHdr.varintAt
      simp only [sliceFromB, hv', if_true, bind_ok]
      have hdec := (C27.decode_total
        (bytes ⟨b.len - (s.off + s.klen), fun i => b.get (s.off + s.klen + i)⟩ 0
          (min 9 (b.len - (s.off + s.klen))))
        (bytes_lt ⟨b.len - (s.off + s.klen), fun i => b.get (s.off + s.klen + i)⟩ (fun i => hb _) _ _)).1
      cases hd : Varint.decode (bytes ⟨b.len - (s.off + s.klen), fun i => b.get (s.off + s.klen + i)⟩ 0
          (min 9 (b.len - (s.off + s.klen)))) with
      | ok v n =>
        simp only [bind_ok]
        unfold addUsize
        split
        · simp only [bind_ok]
          by_cases he : s.off + s.klen + n + v ≤ PageHdr.PAGE_SIZE
          · simp only [he, decide_true, if_true, bind_ok]
            right
            exact slice_safe (by omega) (by simp only [PageHdr.PAGE_SIZE] at he; omega)
          · simp [he]
        · left; rfl
      | err e => right; rfl
      | oob => exact absurd hd hdec
    · simp [ensure, hv]
  | err e => right; rfl
  | oob => rw [hsl] at hs; simp at hs
  | arith => rw [hsl] at hs; simp at hs
  | expect => rw [hsl] at hs; simp at hs
  | fuel => rw [hsl] at hs; simp at hs

def intBigCount : Buf := ⟨16384, fun i =>
  if i = 0 then 1 else if i = 2 ∨ i = 3 then 255 else if i = 4 then 16 else if i = 7 then 64 else 0⟩

theorem interior_slot_oob_counterexample :
    PageHdr.validatePage intBigCount = .ok () ∧ PageHdr.fromPage 1 intBigCount = .ok () ∧
    PageHdr.intSlotAt intBigCount 1364 = .oob ∧ PageHdr.intKeyAt intBigCount 1364 = .oob := by decide

theorem interior_slot_total_partial (b : Buf) (hp : PageHdr.fromPage 1 b = .ok ())
    (hc : b.get 2 + 256 * b.get 3 ≤ 1364) (i : Nat) : (PageHdr.intSlotAt b i).panics = false := by
  have hl := fromPage_len hp
  unfold PageHdr.intSlotAt
  rw [cellCount_eq hl]; simp only [bind_ok]
  apply bind_safe (ensure_safe _ _); intro u h
  have hi := ensure_dec h
  apply bind_safe (slice_safe (by omega)
    (by simp only [PageHdr.PAGE_HEADER_SIZE, PageHdr.INTERIOR_SLOT_SIZE]; omega))
  intro _ _; rfl

theorem interior_key_total_partial (b : Buf) (hp : PageHdr.fromPage 1 b = .ok ())
    (hc : b.get 2 + 256 * b.get 3 ≤ 1364) (i : Nat) : (PageHdr.intKeyAt b i).panics = false := by
  have hl := fromPage_len hp
  unfold PageHdr.intKeyAt
  apply bind_safe (interior_slot_total_partial b hp hc i); intro s _
  apply bind_safe (ensure_safe _ _); intro u h
  have hk := ensure_dec h
  exact slice_safe (by omega) (by simp only [PageHdr.PAGE_SIZE] at hk; omega)

/-- the binary search never runs out of fuel and never panics while the slots it can touch are
inside the page -/
theorem find_loop_safe (b : Buf) (hp : PageHdr.fromPage 1 b = .ok ())
    (hc : b.get 2 + 256 * b.get 3 ≤ 1364) (key : List Nat) (kp : Nat) :
    ∀ (f l r : Nat), r - l < f → (PageHdr.findLoop b key kp f l r).panics = false := by
  intro f
  induction f with
  | zero => intro l r h; omega
  | succ f ih =>
    intro l r h
    unfold PageHdr.findLoop
    split
    · simp only []
      apply bind_safe (interior_slot_total_partial b hp hc _); intro s _
      split
      · exact ih _ _ (by omega)
      · split
        · exact ih _ _ (by omega)
        · apply bind_safe (interior_key_total_partial b hp hc _); intro sep _
          split
          · exact ih _ _ (by omega)
          · exact ih _ _ (by omega)
    · rfl

theorem find_child_total_partial (b : Buf) (hp : PageHdr.fromPage 1 b = .ok ())
    (hc : b.get 2 + 256 * b.get 3 ≤ 1364) (key : List Nat) :
    (PageHdr.findChild b key).panics = false := by
  have hl := fromPage_len hp
  have hrc : (PageHdr.rightChild b).panics = false := by
    unfold PageHdr.rightChild
    rw [hdr_safe (by omega)]
    obtain ⟨v, hv⟩ := rd32_le (b := b) (i := 12) (by omega)
    simp [Res.unwrap, hv]
  unfold PageHdr.findChild
  rw [cellCount_eq hl]; simp only [bind_ok]
  split
  · apply bind_safe hrc; intro _ _; rfl
  · apply bind_safe (find_loop_safe b hp hc key _ _ _ _ (by omega)); intro l _
    split
    · apply bind_safe (interior_slot_total_partial b hp hc _); intro _ _; rfl
    · apply bind_safe hrc; intro _ _; rfl

theorem find_child_oob_counterexample :
    PageHdr.findChild intBigCount [97] = .oob := by decide

/-- HNSW node page: slot_count 0xFFFF -/
def hnswBigCount : Buf := ⟨16384, fun i =>
  if i = 0 then 16 else if i = 4 then 16 else if i = 7 then 64 else if i = 16 ∨ i = 17 then 255 else 0⟩

/-- one active slot with offset 8191 and size 0xFFFF -/
def hnswBigSlot : Buf := ⟨16384, fun i =>
  if i = 0 then 16 else if i = 4 then 16 else if i = 7 then 64 else if i = 16 then 1
  else if i = 64 then 255 else if i = 65 then 63 else if i = 66 ∨ i = 67 then 255 else 0⟩

theorem hnsw_slot_oob_counterexample :
    PageHdr.fromPage 16 hnswBigCount = .ok () ∧ PageHdr.hnswGetSlot hnswBigCount 4080 = .oob := by
  decide

theorem hnsw_node_oob_counterexample :
    PageHdr.fromPage 16 hnswBigSlot = .ok () ∧
    PageHdr.hnswGetSlot hnswBigSlot 0 = .ok (some (8191, 1, 65535)) ∧
    PageHdr.hnswReadNodeData hnswBigSlot 0 = .oob := by decide

theorem hnsw_slot_total_partial (b : Buf) (hp : PageHdr.fromPage 16 b = .ok ())
    (hc : b.get 16 + 256 * b.get 17 ≤ 4080) (i : Nat) : (PageHdr.hnswGetSlot b i).panics = false := by
  have hl := fromPage_len hp
  unfold PageHdr.hnswGetSlot PageHdr.hnswSlotCount
  rw [slice_le (b := b) (s := 16) (e := 68) (by omega) (by omega)]
  simp only [bind_ok]
  have hle : le ((bytes b 16 (68 - 16)).take 2) = b.get 16 + 256 * b.get 17 := by
    simp [bytes, le, List.range_succ_eq_map, List.take]
  rw [hle]
  split
  · rfl
  · apply bind_safe (slice_safe (by omega)
      (by simp only [PageHdr.HNSW_PAGE_HEADER_SIZE, PageHdr.HNSW_SLOT_SIZE]; omega))
    intro _ _; rfl

/-! #### RecordView: no getter checks the record length -/

/-- the shortest record `RecordView::new` accepts (2 bytes) with a one-column INT4 schema:
`is_null` slices `data[2..3]`, `get_int4` slices `data[0..4]` -/
theorem recordview_get_oob_counterexample :
    RecordView.new (Buf.ofList [0, 0]) = .ok () ∧
    RecordView.isNull [some 4] (Buf.ofList [0, 0]) 0 = .oob ∧
    RecordView.getFixed [some 4] (Buf.ofList [0, 0]) 0 4 = .oob ∧
    RecordView.getBool [some 1] (Buf.ofList [2, 0]) 0 = .oob := by decide

/-- `is_null_or_missing` (the guard of the `get_*_opt` wrappers) does not protect the
variable-length getters: a 3-byte record with one TEXT column is "present, not null", and
`get_text_opt` reads the offset table at `data[3..5]` -/
theorem recordview_opt_oob_counterexample :
    RecordView.isNullOrMissing [none] (Buf.ofList [0, 0, 0]) 0 = .ok false ∧
    RecordView.opt [none] (Buf.ofList [0, 0, 0]) 0 (RecordView.getText [none] (Buf.ofList [0, 0, 0]) 0) = .oob := by
  decide

/-- a well-formed header with a corrupt end offset: `data[start..end]` past the buffer, and
with end < start ("slice index starts at 7 but ends at 6") -/
theorem recordview_offset_oob_counterexample :
    RecordView.getBlob [none] (Buf.ofList [5, 0, 0, 9, 0, 65]) 0 = .oob ∧
    RecordView.getVarBounds [none, none] (Buf.ofList [7, 0, 0, 2, 0, 1, 0, 65, 66]) 1 = .ok (9, 8) ∧
    RecordView.getBlob [none, none] (Buf.ofList [7, 0, 0, 2, 0, 1, 0, 65, 66]) 1 = .oob := by decide

/-- the domain on which a fixed-width getter is safe: the slice it takes lies inside the record -/
theorem recordview_get_fixed_partial (s : RecordView.Schema) (b : Buf) (col n : Nat)
    (hlen : 2 ≤ b.len) (hcol : col < s.length)
    (hfit : b.get 0 + 256 * b.get 1 + RecordView.fixedOffset s col + n ≤ b.len) :
    (RecordView.getFixed s b col n).panics = false := by
  unfold RecordView.getFixed RecordView.fixedColOffset RecordView.headerLen
  rw [rd16_le (b := b) (i := 0) (by omega)]
  simp only [bind_ok, hcol, if_true]
  exact slice_safe (by omega) (by omega)

/-- `record_column_count` itself is total on every record `new` accepts -/
theorem recordview_column_count_total (s : RecordView.Schema) (b : Buf)
    (h : RecordView.new b = .ok ()) : (RecordView.recordColumnCount s b).panics = false := by
  have hl : 2 ≤ b.len := by
    unfold RecordView.new at h
    split at h
    · cases h
    · split at h
      · cases h
      · omega
  unfold RecordView.recordColumnCount RecordView.headerLen
  rw [rd16_le (b := b) (i := 0) (by omega)]
  simp only [bind_ok]
  split <;> rfl

/-! #### ArrayView: only `len ≥ 8` is checked -/

/-- 8-byte arrays: header says one INT4 element (no room for bitmap or data); header with an
unknown element type byte; header of a one-element TEXT array whose total_size is 0 -/
theorem array_oob_counterexample :
    ArrayView.new (Buf.ofList [0, 0, 0, 0, 2, 1, 1, 0]) = .ok () ∧
    ArrayView.isNull (Buf.ofList [0, 0, 0, 0, 2, 1, 1, 0]) 0 = .oob ∧
    ArrayView.getFixed (Buf.ofList [0, 0, 0, 0, 2, 1, 1, 0]) 0 4 = .oob := by decide

theorem array_elem_type_expect_counterexample :
    ArrayView.elemType (Buf.ofList [0, 0, 0, 0, 14, 1, 0, 0]) = .expect := by decide

theorem array_var_bounds_arith_counterexample :
    ArrayView.getBlob (Buf.ofList [0, 0, 0, 0, 20, 1, 1, 0, 0, 0, 0, 0, 0]) 0 = .arith := by decide

theorem array_new_total (b : Buf) : (ArrayView.new b).panics = false := ensure_safe _ _

/-! #### varint, JSONB (models of C27 / C32) -/

/-- `decode_varint` is total (re-export of C27) -/
theorem varint_decode_total (buf : List Nat) (hb : ∀ x ∈ buf, x < 256) :
    Varint.decode buf ≠ .oob := (C27.decode_total buf hb).1

/-- the shortest JSONB documents on which a reader of the C32 model reads out of bounds:
an object header announcing one pair with no entry table (`get`), an array header announcing
one element (`array_get`), a string root of length 1 without payload (`as_value`) -/
theorem jsonb_reader_oob_counterexample :
    Jsonb.viewNew [2, 0, 0, 0] = .ok [2, 0, 0, 0] ∧ Jsonb.get [2, 0, 0, 0] [97] = .oob ∧
    Jsonb.arrayGet [1, 0, 0, 16] 0 = .oob ∧ Jsonb.asValue [1, 0, 0, 80] = .oob := by decide

/-! #### catalog file: every read is guarded, every loop consumes input -/

/-- `CatalogPersistence::deserialize` is total on EVERY byte string and for every set of known
schema names: it returns a catalog or an error; it never reads outside the buffer and the
`while pos < len` loop never needs more than `len + 1` iterations (each schema record consumes
at least 4 bytes), whatever the table / column / constraint / index counts claim -/
theorem catalog_deserialize_total (b : Buf) (known : List (List Nat)) :
    (CatalogDec.deserialize b known).panics = false :=
  CatalogDec.desLoop_safe b known (b.len + 1) 0 (by omega)

/-- every helper of the deserializer, started at any position, fails cleanly or moves forward -/
theorem catalog_table_total (b : Buf) (pos : Nat) :
    (CatalogDec.tableAt b pos).panics = false ∧
    ∀ t p, CatalogDec.tableAt b pos = .ok (t, p) → pos ≤ p := by
  have h := CatalogDec.tableAt_ok b pos
  exact ⟨h.1, fun t p e => by have := h.2 t p e; omega⟩

/-- non-vacuity: a minimal document (schema `root`, no tables) deserializes -/
example : CatalogDec.deserialize (Buf.ofList [0, 0, 0, 0, 4, 0, 114, 111, 111, 116, 0, 0, 0, 0])
    [[114, 111, 111, 116]] = .ok [([114, 111, 111, 116], [])] := by decide

end TurVerif.C23
