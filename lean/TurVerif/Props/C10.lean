import TurVerif.Model.SqlIdx
/-!
C10  Indexes never change query results.

Spec-level theorems (M-spec `TurVerif.SqlIdx`): an index is a list of `(key, rowid)` entries that
is sorted by the key comparison and is a permutation of the entries the table determines
(`IsIndex`).  For such an index
* the range scan (seek = `dropWhile`, stop = `takeWhile`) returns exactly the entries a filter
  would return (`scanBy_eq_filter`, `scan_eq_filter`);
* the rows fetched through the index are a permutation of the rows the full scan + filter
  returns (`index_scan_eq_filter`), also when the keys are stored encoded and compared as bytes,
  given only that the encoding preserves order (`index_scan_eq_filter_enc`, hypothesis
  `enc_monotone` = what C26 proves of the real key encoding);
* the prefix scan loop of `PlanSource::SecondaryIndexScan` (`cursor_seek(prefix)`, advance while
  `starts_with`) over byte keys returns exactly the entries whose key has the prefix
  (`prefix_scan_eq_filter`);
* `derive` produces an index (`derive_isIndex`) and the insert / delete / update maintenance
  steps preserve `IsIndex` (`insert_maintains`, `delete_maintains`, `update_maintains`).
The executor and the B-tree are not modelled here; the engine is tied to these statements by the
twin-database differential run `sql_index` (props/C10.json), which finds that the pinned engine
violates the property in seven independent ways (known_findings.json).
-/
namespace TurVerif.C10
open TurVerif.Sql TurVerif.SqlDb TurVerif.SqlIdx

variable {κ : Type}

/-- `le` is a total preorder -/
structure Order (le : κ → κ → Bool) : Prop where
  total : ∀ a b, le a b = true ∨ le b a = true
  trans : ∀ a b c, le a b = true → le b c = true → le a c = true

def Sorted (le : κ → κ → Bool) (l : List (Entry κ)) : Prop :=
  l.Pairwise (fun a b => le a.key b.key = true)

/-- `idx` is an index of `tbl`: sorted, and exactly the table's entries -/
def IsIndex (le : κ → κ → Bool) (keyOf : Row → κ) (idx : List (Entry κ)) (tbl : RTable) : Prop :=
  Sorted le idx ∧ idx.Perm (tbl.map (entryOf keyOf))

/-! ### helper lemmas -/
theorem idxInsert_perm (le : κ → κ → Bool) (e : Entry κ) (l : List (Entry κ)) :
    (idxInsert le e l).Perm (e :: l) := by
  induction l with
  | nil => exact List.Perm.refl _
  | cons x xs ih =>
    simp only [idxInsert]
    split
    · exact List.Perm.refl _
    · exact (List.Perm.cons x ih).trans (List.Perm.swap e x xs)

theorem idxInsert_sorted {le : κ → κ → Bool} (ho : Order le) (e : Entry κ) (l : List (Entry κ))
    (h : Sorted le l) : Sorted le (idxInsert le e l) := by
  induction l with
  | nil => simp [idxInsert, Sorted]
  | cons x xs ih =>
    have hx := List.pairwise_cons.mp h
    simp only [idxInsert]
    split
    · rename_i hle
      refine List.pairwise_cons.mpr ⟨?_, h⟩
      intro y hy
      rcases List.mem_cons.mp hy with rfl | hy
      · exact hle
      · exact ho.trans _ _ _ hle (hx.1 y hy)
    · rename_i hle
      have hxe : le x.key e.key = true := by
        rcases ho.total e.key x.key with h1 | h1
        · exact absurd h1 hle
        · exact h1
      refine List.pairwise_cons.mpr ⟨?_, ih hx.2⟩
      intro y hy
      have := (idxInsert_perm le e xs).mem_iff.mp hy
      rcases List.mem_cons.mp this with rfl | hy
      · exact hxe
      · exact hx.1 y hy

theorem takeWhile_eq_filter {le : κ → κ → Bool} (below above : κ → Bool)
    (ha : ∀ a b, le a b = true → below a = false → above a = true → above b = true)
    (l : List (Entry κ)) (hs : Sorted le l) (hnb : ∀ y ∈ l, below y.key = false) :
    l.takeWhile (fun e => !(above e.key)) = l.filter (fun e => !(above e.key)) := by
  induction l with
  | nil => rfl
  | cons x xs ih =>
    have hx := List.pairwise_cons.mp hs
    have hnb' : ∀ y ∈ xs, below y.key = false := fun y hy => hnb y (List.mem_cons_of_mem _ hy)
    by_cases hab : above x.key = true
    · have hall : ∀ y ∈ xs, above y.key = true := fun y hy =>
        ha _ _ (hx.1 y hy) (hnb x (List.mem_cons_self ..)) hab
      have : xs.filter (fun e => !(above e.key)) = [] := by
        apply List.filter_eq_nil_iff.mpr
        intro y hy
        simp [hall y hy]
      simp [List.takeWhile, List.filter, hab, this]
    · have hab' : above x.key = false := by simpa using hab
      simp [List.takeWhile, List.filter, hab', ih hx.2 hnb']

/-! ## property theorems -/

/-- range scan over a sorted index = filter, for any downward-closed `below` and any `above`
that is upward-closed on the part that is not below -/
theorem scanBy_eq_filter {le : κ → κ → Bool} (below above : κ → Bool)
    (hb : ∀ a b, le a b = true → below b = true → below a = true)
    (ha : ∀ a b, le a b = true → below a = false → above a = true → above b = true)
    (l : List (Entry κ)) (hs : Sorted le l) :
    scanBy below above l = l.filter (fun e => !(below e.key) && !(above e.key)) := by
  induction l with
  | nil => rfl
  | cons x xs ih =>
    have hx := List.pairwise_cons.mp hs
    by_cases hbx : below x.key = true
    · have := ih hx.2
      simp only [scanBy] at this ⊢
      simp [List.dropWhile, List.filter, hbx, this]
    · have hbx' : below x.key = false := by simpa using hbx
      have hnb : ∀ y ∈ x :: xs, below y.key = false := by
        intro y hy
        rcases List.mem_cons.mp hy with rfl | hy
        · exact hbx'
        · cases hby : below y.key with
          | false => rfl
          | true => exact absurd (hb _ _ (hx.1 y hy) hby) hbx
      have h1 : scanBy below above (x :: xs) = (x :: xs).takeWhile (fun e => !(above e.key)) := by
        simp [scanBy, List.dropWhile, hbx']
      rw [h1, takeWhile_eq_filter below above ha (x :: xs) hs hnb]
      apply List.filter_congr
      intro y hy
      simp [hnb y hy]

theorem belowLo_mono {le : κ → κ → Bool} (ho : Order le) (lo : Bound κ) (a b : κ)
    (hab : le a b = true) (h : belowLo le lo b = true) : belowLo le lo a = true := by
  cases lo with
  | unb => simp [belowLo] at h
  | incl k =>
    simp only [belowLo, Bool.not_eq_true'] at h ⊢
    cases hka : le k a with
    | false => rfl
    | true => rw [ho.trans _ _ _ hka hab] at h; exact absurd h (by decide)
  | excl k =>
    simp only [belowLo] at h ⊢
    exact ho.trans _ _ _ hab h

theorem aboveHi_mono {le : κ → κ → Bool} (ho : Order le) (hi : Bound κ) (a b : κ)
    (hab : le a b = true) (h : aboveHi le hi a = true) : aboveHi le hi b = true := by
  cases hi with
  | unb => simp [aboveHi] at h
  | incl k =>
    simp only [aboveHi, Bool.not_eq_true'] at h ⊢
    cases hbk : le b k with
    | false => rfl
    | true => rw [ho.trans _ _ _ hab hbk] at h; exact absurd h (by decide)
  | excl k =>
    simp only [aboveHi] at h ⊢
    exact ho.trans _ _ _ h hab

/-- range scan with inclusive / exclusive / open bounds = filter by `inRange` -/
theorem scan_eq_filter {le : κ → κ → Bool} (ho : Order le) (lo hi : Bound κ)
    (l : List (Entry κ)) (hs : Sorted le l) :
    scan le lo hi l = l.filter (fun e => inRange le lo hi e.key) := by
  simp only [scan, inRange]
  exact scanBy_eq_filter _ _ (belowLo_mono ho lo) (fun a b hab _ h => aboveHi_mono ho hi a b hab h) l hs

theorem find_of_mem_nodup (tbl : RTable) (hnd : (tbl.map Prod.fst).Nodup) (r : Nat × Row)
    (hr : r ∈ tbl) : tbl.find? (fun x => x.1 == r.1) = some r := by
  induction tbl with
  | nil => cases hr
  | cons x xs ih =>
    simp only [List.map_cons, List.nodup_cons] at hnd
    rcases List.mem_cons.mp hr with rfl | hr'
    · simp [List.find?]
    · have hne : (x.1 == r.1) = false := by
        cases h : x.1 == r.1 with
        | false => rfl
        | true =>
          have : x.1 = r.1 := by simpa using h
          exact absurd (List.mem_map.mpr ⟨r, hr', this.symm⟩) hnd.1
      simp [List.find?, hne, ih hnd.2 hr']

theorem filterMap_find_self (tbl : RTable) (hnd : (tbl.map Prod.fst).Nodup) (l : RTable)
    (hl : ∀ r ∈ l, r ∈ tbl) :
    (l.map (·.1)).filterMap (fun rid => tbl.find? (fun r => r.1 == rid)) = l := by
  induction l with
  | nil => rfl
  | cons r rs ih =>
    have h1 := find_of_mem_nodup tbl hnd r (hl r (List.mem_cons_self ..))
    have h2 := ih (fun x hx => hl x (List.mem_cons_of_mem _ hx))
    simp [h1, h2]

/-- **C10 core**: the rows fetched through any index of the table (point / range scan with any
bounds) are, as a bag, the rows a full scan with the same predicate returns -/
theorem index_scan_eq_filter {le : κ → κ → Bool} (ho : Order le) (keyOf : Row → κ)
    (tbl : RTable) (hnd : (tbl.map Prod.fst).Nodup) (idx : List (Entry κ))
    (hidx : IsIndex le keyOf idx tbl) (lo hi : Bound κ) :
    (indexLookup le lo hi tbl idx).Perm (fullScan le keyOf lo hi tbl) := by
  obtain ⟨hs, hp⟩ := hidx
  simp only [indexLookup, fullScan, fetch]
  rw [scan_eq_filter ho lo hi idx hs]
  have h1 : (idx.filter (fun e => inRange le lo hi e.key)).Perm
      ((tbl.filter (fun r => inRange le lo hi (keyOf r.2))).map (entryOf keyOf)) := by
    have := hp.filter (fun e => inRange le lo hi e.key)
    rw [List.filter_map] at this
    exact this
  have h2 := (h1.map (·.rid)).filterMap (fun rid => tbl.find? (fun r => r.1 == rid))
  refine h2.trans ?_
  have h3 : ((tbl.filter (fun r => inRange le lo hi (keyOf r.2))).map (entryOf keyOf)).map (·.rid)
      = (tbl.filter (fun r => inRange le lo hi (keyOf r.2))).map (·.1) := by
    simp [List.map_map, entryOf, Function.comp_def]
  rw [h3, filterMap_find_self tbl hnd _ (fun r hr => (List.mem_filter.mp hr).1)]

def mapBound {α β : Type} (f : α → β) : Bound α → Bound β
  | .unb => .unb
  | .incl k => .incl (f k)
  | .excl k => .excl (f k)

/-- the same with encoded keys: the index stores `enc (keyOf row)` and compares bytes with `leB`;
if the encoding preserves the order (`enc_monotone`, property C26 for the real key encoding) the
index answers the value-level range predicate `inRange leK lo hi` -/
theorem index_scan_eq_filter_enc {β : Type} {leB : β → β → Bool} (ho : Order leB)
    (leK : κ → κ → Bool) (enc : κ → β)
    (enc_monotone : ∀ a b, leB (enc a) (enc b) = leK a b)
    (keyOf : Row → κ) (tbl : RTable) (hnd : (tbl.map Prod.fst).Nodup) (idx : List (Entry β))
    (hidx : IsIndex leB (fun r => enc (keyOf r)) idx tbl) (lo hi : Bound κ) :
    (indexLookup leB (mapBound enc lo) (mapBound enc hi) tbl idx).Perm (fullScan leK keyOf lo hi tbl) := by
  have h := index_scan_eq_filter ho (fun r => enc (keyOf r)) tbl hnd idx hidx (mapBound enc lo) (mapBound enc hi)
  have heq : fullScan leB (fun r => enc (keyOf r)) (mapBound enc lo) (mapBound enc hi) tbl
      = fullScan leK keyOf lo hi tbl := by
    simp only [fullScan]
    apply List.filter_congr
    intro r _
    cases lo <;> cases hi <;> simp [inRange, belowLo, aboveHi, mapBound, enc_monotone]
  rw [heq] at h
  exact h

/-! ### maintenance -/
theorem derive_isIndex {le : κ → κ → Bool} (ho : Order le) (keyOf : Row → κ) (tbl : RTable) :
    IsIndex le keyOf (derive le keyOf tbl) tbl := by
  induction tbl with
  | nil => exact ⟨List.Pairwise.nil, List.Perm.refl _⟩
  | cons r rs ih =>
    obtain ⟨hs, hp⟩ := ih
    refine ⟨?_, ?_⟩
    · exact idxInsert_sorted ho _ _ hs
    · exact (idxInsert_perm le _ _).trans (List.Perm.cons _ hp)

/-- INSERT: inserting the new row's entry keeps the index an index of the extended table -/
theorem insert_maintains {le : κ → κ → Bool} (ho : Order le) (keyOf : Row → κ)
    (idx : List (Entry κ)) (tbl : RTable) (h : IsIndex le keyOf idx tbl) (r : Nat × Row) :
    IsIndex le keyOf (idxInsert le (entryOf keyOf r) idx) (tbl ++ [r]) := by
  obtain ⟨hs, hp⟩ := h
  refine ⟨idxInsert_sorted ho _ _ hs, ?_⟩
  refine (idxInsert_perm le _ _).trans ?_
  rw [List.map_append]
  exact ((List.Perm.cons _ hp).trans (List.perm_append_singleton _ _).symm)

/-- DELETE: removing the row's entries keeps the index an index of the reduced table -/
theorem delete_maintains {le : κ → κ → Bool} (keyOf : Row → κ)
    (idx : List (Entry κ)) (tbl : RTable) (h : IsIndex le keyOf idx tbl) (rid : Nat) :
    IsIndex le keyOf (idxDelete rid idx) (tbl.filter (fun r => r.1 != rid)) := by
  obtain ⟨hs, hp⟩ := h
  refine ⟨?_, ?_⟩
  · exact List.Pairwise.sublist List.filter_sublist hs
  · have := hp.filter (fun e => e.rid != rid)
    rw [List.filter_map] at this
    exact this

/-- UPDATE = delete the old entry, insert the new one -/
theorem update_maintains {le : κ → κ → Bool} (ho : Order le) (keyOf : Row → κ)
    (idx : List (Entry κ)) (tbl : RTable) (h : IsIndex le keyOf idx tbl) (rid : Nat) (row' : Row) :
    IsIndex le keyOf (idxInsert le (entryOf keyOf (rid, row')) (idxDelete rid idx))
      (tbl.filter (fun r => r.1 != rid) ++ [(rid, row')]) :=
  insert_maintains ho keyOf _ _ (delete_maintains keyOf idx tbl h rid) (rid, row')

/-- the DML statements as they reach one index of one table -/
inductive IOp where
  | ins (r : Nat × Row)
  | del (rid : Nat)
  | upd (rid : Nat) (row' : Row)

/-- table and index after one statement, each maintained by its own code path -/
def applyIOp (le : κ → κ → Bool) (keyOf : Row → κ) (st : List (Entry κ) × RTable) :
    IOp → List (Entry κ) × RTable
  | .ins r => (idxInsert le (entryOf keyOf r) st.1, st.2 ++ [r])
  | .del rid => (idxDelete rid st.1, st.2.filter (fun r => r.1 != rid))
  | .upd rid row' => (idxInsert le (entryOf keyOf (rid, row')) (idxDelete rid st.1),
      st.2.filter (fun r => r.1 != rid) ++ [(rid, row')])

/-- **index = table after every history**: starting from any table with a correct index (e.g. a
freshly created one, `derive_isIndex`), after ANY sequence of INSERT / DELETE / UPDATE statements
the incrementally maintained index is still exactly an index of the table -/
theorem maintained_any_history {le : κ → κ → Bool} (ho : Order le) (keyOf : Row → κ)
    (ops : List IOp) : ∀ (idx : List (Entry κ)) (tbl : RTable), IsIndex le keyOf idx tbl →
    IsIndex le keyOf (ops.foldl (applyIOp le keyOf) (idx, tbl)).1
      (ops.foldl (applyIOp le keyOf) (idx, tbl)).2 := by
  induction ops with
  | nil => intro idx tbl h; exact h
  | cons op ops ih =>
    intro idx tbl h
    simp only [List.foldl_cons]
    cases op with
    | ins r => exact ih _ _ (insert_maintains ho keyOf idx tbl h r)
    | del rid => exact ih _ _ (delete_maintains keyOf idx tbl h rid)
    | upd rid row' => exact ih _ _ (update_maintains ho keyOf idx tbl h rid row')

/-- CREATE INDEX (derive) and DROP INDEX change no table; a query through the freshly derived
index answers like the full scan -/
theorem create_index_no_effect {le : κ → κ → Bool} (ho : Order le) (keyOf : Row → κ)
    (tbl : RTable) (hnd : (tbl.map Prod.fst).Nodup) (lo hi : Bound κ) :
    (indexLookup le lo hi tbl (derive le keyOf tbl)).Perm (fullScan le keyOf lo hi tbl) :=
  index_scan_eq_filter ho keyOf tbl hnd _ (derive_isIndex ho keyOf tbl) lo hi

/-! ### byte keys: lexicographic order and the prefix scan -/
theorem bytesLe_refl (a : Bytes) : bytesLe a a = true := by
  induction a with
  | nil => rfl
  | cons x xs ih => simp [bytesLe, ih]

theorem bytesLe_total (a b : Bytes) : bytesLe a b = true ∨ bytesLe b a = true := by
  induction a generalizing b with
  | nil => left; rfl
  | cons x xs ih =>
    cases b with
    | nil => right; rfl
    | cons y ys =>
      simp only [bytesLe]
      by_cases h1 : x < y
      · left; simp [h1]
      · by_cases h2 : y < x
        · right; simp [h2]
        · simp only [h1, h2, if_false]
          exact ih ys

theorem bytesLe_trans (a b c : Bytes) (h1 : bytesLe a b = true) (h2 : bytesLe b c = true) :
    bytesLe a c = true := by
  induction a generalizing b c with
  | nil => rfl
  | cons x xs ih =>
    cases b with
    | nil => simp [bytesLe] at h1
    | cons y ys =>
      cases c with
      | nil => simp [bytesLe] at h2
      | cons z zs =>
        simp only [bytesLe] at h1 h2 ⊢
        by_cases hxy : x < y
        · have hyz : ¬ z < y := by
            intro hzy; simp [hzy, Nat.lt_asymm hzy] at h2
          have : x < z := by omega
          simp [this]
        · by_cases hyx : y < x
          · simp [hxy, hyx] at h1
          · simp only [hxy, hyx, if_false] at h1
            have hxy' : x = y := by omega
            subst hxy'
            by_cases hxz : x < z
            · simp [hxz]
            · by_cases hzx : z < x
              · simp [hxz, hzx] at h2
              · simp only [hxz, hzx, if_false] at h2 ⊢
                exact ih ys zs h1 h2

theorem bytesOrder : Order bytesLe := ⟨bytesLe_total, bytesLe_trans⟩

theorem startsWith_le (p k : Bytes) (h : startsWith p k = true) : bytesLe p k = true := by
  induction p generalizing k with
  | nil => rfl
  | cons x xs ih =>
    cases k with
    | nil => simp [startsWith] at h
    | cons y ys =>
      simp only [startsWith, Bool.and_eq_true, beq_iff_eq] at h
      obtain ⟨rfl, h2⟩ := h
      simp [bytesLe, ih ys h2]

/-- above the prefix block nothing has the prefix any more -/
theorem not_startsWith_mono (p a b : Bytes) (hpa : bytesLe p a = true)
    (hna : startsWith p a = false) (hab : bytesLe a b = true) : startsWith p b = false := by
  induction p generalizing a b with
  | nil => simp [startsWith] at hna
  | cons x xs ih =>
    cases a with
    | nil => simp [bytesLe] at hpa
    | cons y ys =>
      cases b with
      | nil => rfl
      | cons z zs =>
        simp only [bytesLe] at hpa hab
        simp only [startsWith] at hna ⊢
        by_cases hxy : x < y
        · have hzy : ¬ z < y := by
            intro hzy; simp [hzy, Nat.lt_asymm hzy] at hab
          have : (x == z) = false := by
            simp only [beq_eq_false_iff_ne, ne_eq]; omega
          simp [this]
        · by_cases hyx : y < x
          · simp [hxy, hyx] at hpa
          · simp only [hxy, hyx, if_false] at hpa
            have hxy' : x = y := by omega
            subst hxy'
            simp only [beq_self_eq_true, Bool.true_and] at hna
            by_cases hxz : x < z
            · have : (x == z) = false := by
                simp only [beq_eq_false_iff_ne, ne_eq]; omega
              simp [this]
            · by_cases hzx : z < x
              · simp [hxz, hzx] at hab
              · simp only [hxz, hzx, if_false] at hab
                have hxz' : x = z := by omega
                subst hxz'
                simp only [beq_self_eq_true, Bool.true_and]
                exact ih ys zs hpa hna hab

/-- the prefix-scan loop of `PlanSource::SecondaryIndexScan` (seek to the prefix, advance while the
key starts with it) returns exactly the entries whose key has the prefix -/
theorem prefix_scan_eq_filter (p : Bytes) (idx : List (Entry Bytes)) (hs : Sorted bytesLe idx) :
    prefixScan p idx = idx.filter (fun e => startsWith p e.key) := by
  have h := scanBy_eq_filter (le := bytesLe) (fun k => !(bytesLe p k)) (fun k => !(startsWith p k))
    (by
      intro a b hab hb
      simp only [Bool.not_eq_true'] at hb ⊢
      cases hpa : bytesLe p a with
      | false => rfl
      | true => rw [bytesLe_trans _ _ _ hpa hab] at hb; exact absurd hb (by decide))
    (by
      intro a b hab hna haa
      simp only [Bool.not_eq_false', Bool.not_eq_true'] at hna haa ⊢
      exact not_startsWith_mono p a b hna haa hab)
    idx hs
  simp only [scanBy, Bool.not_not] at h
  simp only [prefixScan]
  rw [h]
  apply List.filter_congr
  intro e _
  cases hsw : startsWith p e.key with
  | false => simp
  | true => simp [startsWith_le p e.key hsw]

/-! ### the engine's DELETE maintenance (M-code fragment) -/

/-- partial: where the erased key identifies exactly the entries of the deleted row (the format of
unique indexes: key = encoded columns, no row-id suffix, keys distinct), the engine's exact-match
erase is the specified `idxDelete` -/
theorem engine_delete_partial (key : Bytes) (rid : Nat) (idx : List (Entry Bytes))
    (h : ∀ e ∈ idx, (e.key = key ↔ e.rid = rid)) :
    engineDeleteKey key idx = idxDelete rid idx := by
  simp only [engineDeleteKey, idxDelete]
  apply List.filter_congr
  intro e he
  have := h e he
  by_cases hk : e.key = key
  · have h1 : (e.key == key) = true := by simpa using hk
    have h2 : (e.rid == rid) = true := by simpa using this.mp hk
    simp only [bne, h1, h2]
  · have hr : ¬ e.rid = rid := fun hr => hk (this.mpr hr)
    have h1 : (e.key == key) = false := by simpa using hk
    have h2 : (e.rid == rid) = false := by simpa using hr
    simp only [bne, h1, h2]

/-- counterexample (confirmed on the real code, finding C10-delete-leaves-secondary-entries): in a
non-unique index the stored key carries the row-id suffix, the erased key does not, so the entry
stays and the prefix scan for the key still returns the deleted row id -/
theorem engine_delete_leaves_entry_counterexample :
    let idx := engineSecondaryInsert [6, 0, 14] 8 []
    let idx' := engineDeleteKey [6, 0, 14] idx
    (prefixScan [6, 0, 14] idx').map (·.rid) = [8] ∧ (prefixScan [6, 0, 14] (idxDelete 8 idx)).map (·.rid) = [] := by
  decide

/-! ### non-vacuity and the executable instance -/
theorem natOrder : Order Nat.ble := by
  refine ⟨?_, ?_⟩
  · intro a b; simp only [Nat.ble_eq]; omega
  · intro a b c; simp only [Nat.ble_eq]; omega

/-- a concrete table, its derived index and a range query: hypotheses are satisfiable and the
index path returns the rows of the filter path -/
example :
    let tbl : RTable := [(1, [.int 5]), (2, [.int 3]), (3, [.int 5]), (4, [.int 9])]
    let keyOf : Row → Nat := fun r => match r with | [.int i] => i.toNat | _ => 0
    ((indexLookup Nat.ble (.incl 4) (.excl 9) tbl (derive Nat.ble keyOf tbl)).map (·.1) = [1, 3]) ∧
    ((fullScan Nat.ble keyOf (.incl 4) (.excl 9) tbl).map (·.1) = [1, 3]) := by decide

/-- the driver's executable index query agrees with its filter query on a sample with NULL keys,
duplicates and a composite index -/
example :
    let rows : List Row := [[.int 2, .text "b"], [.null, .text "a"], [.int 2, .text "a"], [.int 1, .null], [.int 3, .text "c"]]
    idxQuery rows [0, 1] (.incl (.int 2)) (.incl (.int 2)) = [[.int 2, .text "a"], [.int 2, .text "b"]] ∧
    scanQuery rows [0, 1] (.incl (.int 2)) (.incl (.int 2)) = [[.int 2, .text "b"], [.int 2, .text "a"]] := by
  decide

end TurVerif.C10
