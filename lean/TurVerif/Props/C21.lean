import TurVerif.Model.SqlIdx
import TurVerif.Props.C43
/-!
C21  Schema changes behave as declared and persist.

Theorems on the relational state machine `TurVerif.SqlDb` (M-spec) and its DDL catalogue
`TurVerif.SqlIdx.ddl`: what the property statement demands of each schema change, for every
state and every table.
* `add_column_reads_default`: after ADD COLUMN every existing row reads the declared default
  (NULL when none is declared) in the new column and is otherwise unchanged;
* `drop_column_preserves_others`: DROP COLUMN removes exactly that position from every row;
* `rename_keeps_values`: RENAME COLUMN changes no row, only the name at that position;
* `truncate_empties`, `drop_table_removes`;
* `create_index_no_effect`, `drop_index_no_effect`: CREATE / DROP of a non-unique index changes
  no table;
* `reopen_identity`: closing and reopening is the identity on the logical state, so each of the
  above also holds after `reopen` (`*_after_reopen`).
The DDL code of the engine (ddl.rs, catalog persistence) is not modelled; it is tied to these
statements by the differential run `sql_ddl` (props/C21.json), which finds eight independent
violations on the pinned tree (known_findings.json).
-/
namespace TurVerif.C21
open TurVerif.Sql TurVerif.SqlDb TurVerif.SqlIdx TurVerif.C43

theorem reopen_identity (s : DbState) : reopen s = s := rfl

theorem ddl_reopen (s : St) : (ddl s .reopen).1 = s := rfl

/-! ### ADD COLUMN -/
theorem add_column_reads_default (s : DbState) (tn : String) (t : TableSt) (c : ColDef)
    (hf : s.find tn = some t) :
    ((step s (.addColumn tn c)).1.find tn).map (·.rows) = some (t.rows.map (· ++ [c.dflt])) ∧
    ((step s (.addColumn tn c)).1.find tn).map (·.cols) = some (t.cols ++ [c]) := by
  have hname := find_name s tn t hf
  have := find_put s tn t { t with cols := t.cols ++ [c], rows := t.rows.map (· ++ [c.dflt]) } hf hname
  simp only [step, hf, this, Option.map_some, and_self]

/-- every old row keeps its values and reads the default in the new last position -/
theorem add_column_row (r : Row) (d : Val) (i : Nat) :
    (r ++ [d])[i]? = if i < r.length then r[i]? else if i = r.length then some d else none := by
  by_cases h : i < r.length
  · simp [h, List.getElem?_append_left h]
  · by_cases h2 : i = r.length
    · subst h2; simp
    · have : r.length < i := by omega
      simp [h, h2, List.getElem?_append_right (Nat.le_of_lt this)]
      omega

/-! ### DROP COLUMN -/
theorem drop_column_preserves_others (s : DbState) (tn : String) (t : TableSt) (i : Nat)
    (hf : s.find tn = some t) :
    ((step s (.dropColumn tn i)).1.find tn).map (·.rows) = some (t.rows.map (·.eraseIdx i)) ∧
    ((step s (.dropColumn tn i)).1.find tn).map (·.cols) = some (t.cols.eraseIdx i) := by
  have hname := find_name s tn t hf
  have := find_put s tn t { t with cols := t.cols.eraseIdx i, rows := t.rows.map (·.eraseIdx i) } hf hname
  simp only [step, hf, this, Option.map_some, and_self]

/-- positions before the dropped column keep their value, positions after it shift down by one:
`project others (dropCol c t) = project others t` -/
theorem drop_column_row (r : Row) (i j : Nat) :
    (r.eraseIdx i)[j]? = if j < i then r[j]? else r[j + 1]? := by
  simp [List.getElem?_eraseIdx]

/-! ### RENAME COLUMN -/
theorem rename_keeps_values (s : DbState) (tn : String) (t : TableSt) (i : Nat) (n : String)
    (hf : s.find tn = some t) :
    ((step s (.renameColumn tn i n)).1.find tn).map (·.rows) = some t.rows ∧
    ((step s (.renameColumn tn i n)).1.find tn).map (fun t' => t'.cols.map (·.name)) =
      some ((t.cols.map (·.name)).set i n |>.take t.cols.length) := by
  have hname := find_name s tn t hf
  have := find_put s tn t { t with cols := t.cols.modify i (fun c => { c with name := n }) } hf hname
  simp only [step, hf, this, Option.map_some, true_and]
  congr 1
  apply List.ext_getElem?
  intro j
  by_cases hj : j < t.cols.length
  · by_cases hji : i = j
    · subst hji
      simp [List.getElem?_take, List.getElem?_set, List.getElem?_modify, hj]
    · simp [List.getElem?_take, List.getElem?_set, List.getElem?_modify, hj, hji]
  · have hj' : t.cols.length ≤ j := by omega
    simp [List.getElem?_take, hj, List.getElem?_eq_none_iff.mpr, hj']

/-! ### TRUNCATE, DROP TABLE -/
theorem truncate_empties (s : DbState) (tn : String) (t : TableSt) (hf : s.find tn = some t)
    (hv : dbValid (s.put { t with rows := [] }) = .ok true) :
    ((step s (.truncate tn)).1.find tn).map (·.rows) = some [] := by
  have hname := find_name s tn t hf
  have := find_put s tn t { t with rows := [] } hf hname
  simp only [step, hf, applyValid, hv, this, Option.map_some]

theorem drop_table_state (s : DbState) (tn : String) (t : TableSt) (hf : s.find tn = some t) :
    (step s (.dropTable tn)).1 = { s with tables := s.tables.filter (·.name != tn) } := by
  simp only [step, hf]

theorem drop_table_removes (s : DbState) (tn : String) (t : TableSt) (hf : s.find tn = some t) :
    (step s (.dropTable tn)).1.find tn = none := by
  rw [drop_table_state s tn t hf]
  simp only [DbState.find]
  apply List.find?_eq_none.mpr
  intro x hx
  have := (List.mem_filter.mp hx).2
  simpa using this

/-- other tables are untouched by DROP TABLE -/
theorem drop_table_keeps_others (s : DbState) (tn other : String) (t : TableSt)
    (hf : s.find tn = some t) (hne : other ≠ tn) :
    (step s (.dropTable tn)).1.find other = s.find other := by
  rw [drop_table_state s tn t hf]
  simp only [DbState.find]
  generalize s.tables = l
  induction l with
  | nil => rfl
  | cons x xs ih =>
    by_cases hx : x.name = tn
    · have h1 : (x.name != tn) = false := by simp [hx]
      have h2 : (x.name == other) = false := by
        simp only [beq_eq_false_iff_ne, ne_eq, hx]; exact fun h => hne h.symm
      simp only [List.filter_cons, h1, List.find?_cons, h2]
      exact ih
    · have h1 : (x.name != tn) = true := by simp [hx]
      simp only [List.filter_cons, h1, if_true, List.find?_cons]
      split
      · rfl
      · exact ih

/-! ### CREATE / DROP INDEX -/
theorem create_index_no_effect (s : St) (d : IdxDef) (hu : d.unique = false) :
    (ddl s (.createIndex d)).1.db = s.db := by
  simp only [ddl]
  split
  · rfl
  · split
    · rfl
    · simp [hu]

theorem drop_index_no_effect (s : St) (n : String) (d : IdxDef)
    (hfind : s.idx.find? (·.name == n) = some d) (hu : d.unique = false) :
    (ddl s (.dropIndex n)).1.db = s.db := by
  simp only [ddl, hfind, hu]
  rfl

/-! ### all of the above survive the identity `reopen` -/
theorem add_column_after_reopen (s : DbState) (tn : String) (t : TableSt) (c : ColDef)
    (hf : s.find tn = some t) :
    ((reopen (step s (.addColumn tn c)).1).find tn).map (·.rows) = some (t.rows.map (· ++ [c.dflt])) :=
  (add_column_reads_default s tn t c hf).1

theorem drop_column_after_reopen (s : DbState) (tn : String) (t : TableSt) (i : Nat)
    (hf : s.find tn = some t) :
    ((reopen (step s (.dropColumn tn i)).1).find tn).map (·.rows) = some (t.rows.map (·.eraseIdx i)) :=
  (drop_column_preserves_others s tn t i hf).1

theorem rename_after_reopen (s : DbState) (tn : String) (t : TableSt) (i : Nat) (n : String)
    (hf : s.find tn = some t) :
    ((reopen (step s (.renameColumn tn i n)).1).find tn).map (·.rows) = some t.rows :=
  (rename_keeps_values s tn t i n hf).1

theorem drop_table_after_reopen (s : DbState) (tn : String) (t : TableSt) (hf : s.find tn = some t) :
    (reopen (step s (.dropTable tn)).1).find tn = none :=
  drop_table_removes s tn t hf

/-! ### non-vacuity: a concrete history through the DDL catalogue -/
example :
    let t : TableSt := { name := "t", cols := [{ name := "id", pk := true }, { name := "a" }, { name := "b" }],
                         rows := [[.int 1, .int 10, .text "x"], [.int 2, .null, .text "y"]] }
    let s0 : St := { db := { tables := [t] } }
    let s1 := (ddl s0 (.addColumn "t" { name := "c", dflt := .int 7 })).1
    let s2 := (ddl s1 (.dropColumn "t" 1)).1
    let s3 := (ddl s2 (.renameColumn "t" 1 "bb")).1
    let s4 := (ddl s3 .reopen).1
    ((s4.db.find "t").map (fun t => (t.cols.map (·.name), t.rows)) =
      some (["id", "bb", "c"], [[.int 1, .text "x", .int 7], [.int 2, .text "y", .int 7]])) ∧
    (((ddl s4 (.truncate "t")).1.db.find "t").map (·.rows) = some []) ∧
    ((ddl s4 (.dropTable "t")).1.db.find "t").isNone := by
  decide

end TurVerif.C21
